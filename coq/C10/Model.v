(* C10 — operational model of qupulse's pulse-template serialization (qupulse/serialization.py: PulseStorage,
   JSONSerializableEncoder/Decoder; get_serialization_data / __init__ / deserialize of every pulse template class).
   Definitions only (no proofs).  Text level (json.dumps/loads, sympy printing/parsing, repr of floats) is NOT
   modelled: documents are json trees, expressions are opaque serialised forms (int / float / string). *)
From Coq Require Import String List ZArith QArith Bool Ascii DecimalString.
Import ListNotations.
Open Scope string_scope.

(* ------------------------------------------------------------------------------------------------------------ *)
(* results *)
Inductive err := EValue | EType | EKey | ERuntime | EFuel.
Inductive result (A : Type) := Ok (a : A) | Err (e : err).
Arguments Ok {A} a. Arguments Err {A} e.
Definition bind {A B} (r : result A) (f : A -> result B) : result B :=
  match r with Ok a => f a | Err e => Err e end.
Notation "'do' x <- r ; k" := (bind r (fun x => k)) (at level 200, x pattern, r at level 100, k at level 200).

Fixpoint mapM {A B} (f : A -> result B) (l : list A) : result (list B) :=
  match l with
  | [] => Ok []
  | x :: r => do y <- f x; do ys <- mapM f r; Ok (y :: ys)
  end.

(* ------------------------------------------------------------------------------------------------------------ *)
(* json documents *)
Inductive json :=
| JNull | JBool (b : bool) | JInt (z : Z) | JNum (q : Q) (* a float, by its exact value *) | JStr (s : string)
| JList (l : list json) | JObj (fs : list (string * json)).

Fixpoint lookup {A} (k : string) (l : list (string * A)) : option A :=
  match l with
  | [] => None
  | (k', v) :: r => if String.eqb k k' then Some v else lookup k r
  end.
Definition has_key {A} (k : string) (l : list (string * A)) : bool :=
  match lookup k l with Some _ => true | None => false end.

Definition K_TYPE := "#type".
Definition K_ID := "#identifier".
Definition T_REF := "reference".

(* ------------------------------------------------------------------------------------------------------------ *)
(* serialised atoms *)
(* ExpressionScalar.get_serialization_data: int | float | the original string *)
Inductive expr := EInt (z : Z) | ENum (q : Q) | EStr (s : string).
(* Expression.make of a table/point entry value: scalar or vector *)
Inductive vexpr := VScalar (e : expr) | VVec (l : list expr).
(* ChannelID = Union[str, int] *)
Inductive chan := CS (s : string) | CI (z : Z).
Inductive interp := IHold | ILinear | IJump | INone.
Definition tentry : Type := expr * vexpr * interp.            (* TableEntry (t, v, interp) *)
Definition mdecl : Type := string * expr * expr.              (* measurement declaration (name, begin, length) *)
Inductive scalar := SExpr (e : expr) | SMap (m : list (chan * expr)).   (* ArithmeticPT scalar operand *)

Record hdr := mkHdr { h_oid : N;                  (* identity of the Python object (only compared with `is`) *)
                      h_id : option string }.     (* Serializable.identifier *)

(* one constructor per pulse-template class; the arguments are the state that get_serialization_data reads *)
Inductive pt :=
| PTable (h : hdr) (entries : list (chan * list tentry)) (cstr : list string) (meas : list mdecl)
| PPoint (h : hdr) (points : list tentry) (chans : list chan) (cstr : list string) (meas : list mdecl)
| PFunc (h : hdr) (ex dur : expr) (ch : chan) (cstr : list string) (meas : list mdecl)
| PConst (h : hdr) (name : string) (dur : expr) (amps : list (chan * expr)) (meas : list mdecl)
| PSeq (h : hdr) (subs : list pt) (cstr : list string) (meas : list mdecl)
| PRep (h : hdr) (body : pt) (count : expr) (cstr : list string) (meas : list mdecl)
| PFor (h : hdr) (body : pt) (idx : string) (rng : expr * expr * expr) (cstr : list string) (meas : list mdecl)
| PMap (h : hdr) (tmpl : pt) (pmap : list (string * expr)) (mmap : list (string * string))
       (cmap : list (chan * option chan)) (cstr : list string)
| PAmc (h : hdr) (subs : list pt) (cstr : list string) (meas : list mdecl) (dur : option expr)
| PPar (h : hdr) (tmpl : pt) (over : list (chan * expr))
| PArith (h : hdr) (inner : pt) (sc : scalar) (pt_is_lhs : bool) (op : string)
| PAA (h : hdr) (lhs rhs : pt) (op : string) (meas : list mdecl)
| PRev (h : hdr) (inner : pt)
| PAbs (h : hdr) (chans : option (list chan)) (params mnames : option (list string))
       (integral : option (list (chan * expr))) (dur : option expr).

Definition pt_hdr (p : pt) : hdr :=
  match p with
  | PTable h _ _ _ | PPoint h _ _ _ _ | PFunc h _ _ _ _ _ | PConst h _ _ _ _ | PSeq h _ _ _ | PRep h _ _ _ _
  | PFor h _ _ _ _ _ | PMap h _ _ _ _ _ | PAmc h _ _ _ _ | PPar h _ _ | PArith h _ _ _ _ | PAA h _ _ _ _
  | PRev h _ | PAbs h _ _ _ _ _ => h
  end.
Definition pt_id (p : pt) : option string := h_id (pt_hdr p).
Definition pt_oid (p : pt) : N := h_oid (pt_hdr p).

Definition children (p : pt) : list pt :=
  match p with
  | PSeq _ subs _ _ | PAmc _ subs _ _ _ => subs
  | PRep _ b _ _ _ | PFor _ b _ _ _ _ | PMap _ b _ _ _ _ | PPar _ b _ | PArith _ b _ _ _ | PRev _ b => [b]
  | PAA _ l r _ _ => [l; r]
  | _ => []
  end.

(* all nodes of a tree, pre-order *)
Fixpoint nodes (p : pt) : list pt :=
  p :: match p with
       | PSeq _ subs _ _ | PAmc _ subs _ _ _ => flat_map nodes subs
       | PRep _ b _ _ _ | PFor _ b _ _ _ _ | PMap _ b _ _ _ _ | PPar _ b _ | PArith _ b _ _ _ | PRev _ b => nodes b
       | PAA _ l r _ _ => (nodes l ++ nodes r)%list
       | _ => []
       end.
Definition named_nodes (p : pt) : list (string * pt) :=
  flat_map (fun n => match pt_id n with Some i => [(i, n)] | None => [] end) (nodes p).

(* type tags; the harness maps cls.get_type_identifier() of the real classes to these *)
Definition tag_of (p : pt) : string :=
  match p with
  | PTable _ _ _ _ => "Table" | PPoint _ _ _ _ _ => "Point" | PFunc _ _ _ _ _ _ => "Function"
  | PConst _ _ _ _ _ => "Constant" | PSeq _ _ _ _ => "Sequence" | PRep _ _ _ _ _ => "Repetition"
  | PFor _ _ _ _ _ _ => "ForLoop" | PMap _ _ _ _ _ _ => "Mapping" | PAmc _ _ _ _ _ => "AtomicMulti"
  | PPar _ _ _ => "Parallel" | PArith _ _ _ _ _ => "Arithmetic" | PAA _ _ _ _ _ => "ArithmeticAtomic"
  | PRev _ _ => "TimeReversal" | PAbs _ _ _ _ _ _ => "Abstract"
  end.

(* ------------------------------------------------------------------------------------------------------------ *)
(* encoders (get_serialization_data + JSONSerializableEncoder) *)
Definition z_to_string (z : Z) : string := NilZero.string_of_int (Z.to_int z).

Definition enc_expr (e : expr) : json :=
  match e with EInt z => JInt z | ENum q => JNum q | EStr s => JStr s end.
Definition enc_vexpr (v : vexpr) : json :=
  match v with VScalar e => enc_expr e | VVec l => JList (map enc_expr l) end.
Definition enc_chan (c : chan) : json := match c with CS s => JStr s | CI z => JInt z end.
(* a channel id used as a dict key: json.dumps turns integer keys into their decimal string *)
Definition key_chan (c : chan) : string := match c with CS s => s | CI z => z_to_string z end.
Definition enc_ochan (c : option chan) : json := match c with Some c => enc_chan c | None => JNull end.
Definition enc_interp (i : interp) : json :=
  match i with IHold => JStr "hold" | ILinear => JStr "linear" | IJump => JStr "jump" | INone => JNull end.
Definition enc_entry (e : tentry) : json :=
  let '(t, v, i) := e in JList [enc_expr t; enc_vexpr v; enc_interp i].
Definition enc_meas (m : mdecl) : json := let '(n, b, l) := m in JList [JStr n; enc_expr b; enc_expr l].
Definition enc_measl (l : list mdecl) : json := JList (map enc_meas l).
Definition enc_strs (l : list string) : json := JList (map JStr l).
Section Enc.
(* kc: how a channel id appears as a dict key; inline: embed named children instead of referencing them.
   The real encoder is (key_chan, false); (key_repr, true) is an injective rendering used to compare objects. *)
Variable kc : chan -> string.
Variable inline : bool.
Definition enc_cdict (m : list (chan * expr)) : json := JObj (map (fun ce => (kc (fst ce), enc_expr (snd ce))) m).
Definition enc_entries (m : list (chan * list tentry)) : json :=
  JObj (map (fun ce => (kc (fst ce), JList (map enc_entry (snd ce)))) m).
Definition enc_pmap (m : list (string * expr)) : json := JObj (map (fun ke => (fst ke, enc_expr (snd ke))) m).
Definition enc_mmap (m : list (string * string)) : json := JObj (map (fun ke => (fst ke, JStr (snd ke))) m).
Definition enc_cmap (m : list (chan * option chan)) : json :=
  JObj (map (fun ke => (kc (fst ke), enc_ochan (snd ke))) m).
Definition enc_scalar (s : scalar) : json := match s with SExpr e => enc_expr e | SMap m => enc_cdict m end.

Definition is_nil {A} (l : list A) : bool := match l with [] => true | _ => false end.
(* `if self.x: data['x'] = ...` *)
Definition opt_field {A} (k : string) (enc : list A -> json) (l : list A) : list (string * json) :=
  if is_nil l then [] else [(k, enc l)].
Definition some_field {A} (k : string) (enc : A -> json) (o : option A) : list (string * json) :=
  match o with Some x => [(k, enc x)] | None => [] end.

Definition hdr_fields (tag : string) (h : hdr) : list (string * json) :=
  (K_TYPE, JStr tag) :: match h_id h with Some i => [(K_ID, JStr i)] | None => [] end.

Definition ref_node (i : string) : json := JObj [(K_TYPE, JStr T_REF); (K_ID, JStr i)].

(* JSONSerializableEncoder.default on a nested Serializable: reference when it has an identifier, else inline *)
Definition sub (enc : pt -> json) (p : pt) : json :=
  match pt_id p with Some i => if inline then enc p else ref_node i | None => enc p end.

Fixpoint to_data_gen (p : pt) : json :=
  JObj (hdr_fields (tag_of p) (pt_hdr p) ++
  match p with
  | PTable _ entries cstr meas =>
      [("entries", enc_entries entries); ("parameter_constraints", enc_strs cstr); ("measurements", enc_measl meas)]
  | PPoint _ points chans cstr meas =>
      [("time_point_tuple_list", JList (map enc_entry points)); ("channel_names", JList (map enc_chan chans))]
      ++ opt_field "parameter_constraints" enc_strs cstr ++ opt_field "measurements" enc_measl meas
  | PFunc _ ex dur ch cstr meas =>
      [("duration_expression", enc_expr dur); ("expression", enc_expr ex); ("channel", enc_chan ch);
       ("measurements", enc_measl meas); ("parameter_constraints", enc_strs cstr)]
  | PConst _ name dur amps meas =>
      [("name", JStr name); ("duration", enc_expr dur); ("amplitude_dict", enc_cdict amps);
       ("measurements", enc_measl meas)]
  | PSeq _ subs cstr meas =>
      [("subtemplates", JList (map (sub to_data_gen) subs))]
      ++ opt_field "parameter_constraints" enc_strs cstr ++ opt_field "measurements" enc_measl meas
  | PRep _ body count cstr meas =>
      [("body", sub to_data_gen body); ("repetition_count", enc_expr count)]
      ++ opt_field "parameter_constraints" enc_strs cstr ++ opt_field "measurements" enc_measl meas
  | PFor _ body idx (a, b, c) cstr meas =>
      [("body", sub to_data_gen body); ("loop_range", JList [enc_expr a; enc_expr b; enc_expr c]); ("loop_index", JStr idx)]
      ++ opt_field "parameter_constraints" enc_strs cstr ++ opt_field "measurements" enc_measl meas
  | PMap _ tmpl pmap mmap cmap cstr =>
      [("template", sub to_data_gen tmpl)]
      ++ opt_field "parameter_mapping" enc_pmap pmap ++ opt_field "measurement_mapping" enc_mmap mmap
      ++ opt_field "channel_mapping" enc_cmap cmap ++ opt_field "parameter_constraints" enc_strs cstr
  | PAmc _ subs cstr meas dur =>
      [("subtemplates", JList (map (sub to_data_gen) subs))]
      ++ opt_field "parameter_constraints" enc_strs cstr ++ opt_field "measurements" enc_measl meas
      ++ some_field "duration" enc_expr dur
  | PPar _ tmpl over =>
      [("template", sub to_data_gen tmpl); ("overwritten_channels", enc_cdict over)]
  | PArith _ inner sc pt_is_lhs op =>
      (if pt_is_lhs then [("rhs", enc_scalar sc); ("lhs", sub to_data_gen inner)]
       else [("rhs", sub to_data_gen inner); ("lhs", enc_scalar sc)])
      ++ [("arithmetic_operator", JStr op)]
  | PAA _ lhs rhs op meas =>
      [("rhs", sub to_data_gen rhs); ("lhs", sub to_data_gen lhs); ("arithmetic_operator", JStr op)]
      ++ opt_field "measurements" enc_measl meas
  | PRev _ inner => [("inner", sub to_data_gen inner)]
  | PAbs _ chans params mnames integral dur =>
      some_field "defined_channels" (fun l => JList (map enc_chan l)) chans
      ++ some_field "parameter_names" enc_strs params ++ some_field "measurement_names" enc_strs mnames
      ++ some_field "integral" enc_cdict integral ++ some_field "duration" enc_expr dur
  end).
End Enc.

Definition key_repr (c : chan) : string := match c with CS s => "s:" ++ s | CI z => "i:" ++ z_to_string z end.
Definition to_data : pt -> json := to_data_gen key_chan false.
(* everything get_serialization_data compares, children embedded, int and str channel keys kept apart *)
Definition repr : pt -> json := to_data_gen key_repr true.

(* json.dumps(sort_keys=True) raises TypeError when a dict has both int and str keys *)
Definition is_ci (c : chan) : bool := match c with CI _ => true | CS _ => false end.
Definition mixed_keys {A} (m : list (chan * A)) : bool :=
  existsb (fun ca => is_ci (fst ca)) m && existsb (fun ca => negb (is_ci (fst ca))) m.
Definition scalar_mixed (s : scalar) := match s with SMap m => mixed_keys m | _ => false end.
(* the object's own dicts only (children are visited by the encoder separately) *)
Definition node_encodable (p : pt) : bool :=
  match p with
  | PTable _ entries _ _ => negb (mixed_keys entries)
  | PConst _ _ _ amps _ => negb (mixed_keys amps)
  | PMap _ _ _ _ cmap _ => negb (mixed_keys cmap)
  | PPar _ _ over => negb (mixed_keys over)
  | PArith _ _ sc _ _ => negb (scalar_mixed sc)
  | PAbs _ _ _ _ (Some m) _ => negb (mixed_keys m)
  | _ => true
  end.

(* ------------------------------------------------------------------------------------------------------------ *)
(* decoders (JSONSerializableDecoder.filter_serializables + deserialize/__init__ of each class) *)
Definition dec_expr (j : json) : result expr :=
  match j with JInt z => Ok (EInt z) | JNum q => Ok (ENum q) | JStr s => Ok (EStr s) | _ => Err EType end.
Definition dec_vexpr (j : json) : result vexpr :=
  match j with
  | JList l => do es <- mapM dec_expr l; Ok (VVec es)
  | _ => do e <- dec_expr j; Ok (VScalar e)
  end.
Definition dec_chan (j : json) : result chan :=
  match j with JStr s => Ok (CS s) | JInt z => Ok (CI z) | _ => Err EType end.
Definition dec_ochan (j : json) : result (option chan) :=
  match j with JNull => Ok None | _ => do c <- dec_chan j; Ok (Some c) end.
(* TableEntry.__new__: interpolation strategy by name; 'default' is hold; missing third element = 'default' *)
Definition dec_interp (j : json) : result interp :=
  match j with
  | JNull => Ok INone
  | JStr s => if String.eqb s "hold" then Ok IHold else if String.eqb s "default" then Ok IHold
              else if String.eqb s "linear" then Ok ILinear else if String.eqb s "jump" then Ok IJump else Err EKey
  | _ => Err EKey
  end.
Definition dec_entry (j : json) : result tentry :=
  match j with
  | JList [t; v] => do t <- dec_expr t; do v <- dec_vexpr v; Ok (t, v, IHold)
  | JList [t; v; i] => do t <- dec_expr t; do v <- dec_vexpr v; do i <- dec_interp i; Ok (t, v, i)
  | _ => Err EType
  end.
Definition dec_list {A} (f : json -> result A) (j : json) : result (list A) :=
  match j with JList l => mapM f l | _ => Err EType end.
Definition dec_meas (j : json) : result mdecl :=
  match j with
  | JList [JStr n; b; l] => do b <- dec_expr b; do l <- dec_expr l; Ok (n, b, l)
  | _ => Err EType
  end.
Definition dec_str (j : json) : result string := match j with JStr s => Ok s | _ => Err EType end.
Definition dec_dict {A} (f : json -> result A) (j : json) : result (list (string * A)) :=
  match j with
  | JObj fs => mapM (fun kv => do v <- f (snd kv); Ok (fst kv, v)) fs
  | _ => Err EType
  end.
(* keys of a loaded dict are always str *)
Definition dec_cdict {A} (f : json -> result A) (j : json) : result (list (chan * A)) :=
  do m <- dec_dict f j; Ok (map (fun kv => (CS (fst kv), snd kv)) m).
(* ParametrizedRange.from_range_like *)
Definition dec_range (j : json) : result (expr * expr * expr) :=
  match j with
  | JList [b] => do b <- dec_expr b; Ok (EInt 0, b, EInt 1)
  | JList [a; b] => do a <- dec_expr a; do b <- dec_expr b; Ok (a, b, EInt 1)
  | JList [a; b; c] => do a <- dec_expr a; do b <- dec_expr b; do c <- dec_expr c; Ok (a, b, c)
  | JList _ => Err EType
  | _ => do b <- dec_expr j; Ok (EInt 0, b, EInt 1)
  end.

(* decoded keyword arguments of a constructor: nested Serializables are already objects *)
Inductive dval := DRaw (j : json) | DSub (p : pt) | DSubs (ps : list pt).
Definition kwargs := list (string * dval).

Definition req {A} (k : string) (kw : kwargs) (f : dval -> result A) : result A :=
  match lookup k kw with Some d => f d | None => Err EType (* missing required argument *) end.
Definition opt {A} (k : string) (kw : kwargs) (f : dval -> result A) (default : A) : result A :=
  match lookup k kw with Some d => f d | None => Ok default end.
Definition raw {A} (f : json -> result A) (d : dval) : result A :=
  match d with DRaw j => f j | _ => Err EType end.
(* an optional list argument: None (json null) behaves like the default *)
Definition rawl {A} (f : json -> result A) (d : dval) : result (list A) :=
  match d with DRaw JNull => Ok [] | DRaw j => dec_list f j | _ => Err EType end.
Definition dsub (d : dval) : result pt := match d with DSub p => Ok p | _ => Err EType end.
Definition dsubs (d : dval) : result (list pt) :=
  match d with DSubs ps => Ok ps | DRaw (JList []) => Ok [] | _ => Err EType end.
Definition some {A} (f : dval -> result A) (d : dval) : result (option A) :=
  match d with DRaw JNull => Ok None | _ => do x <- f d; Ok (Some x) end.

Fixpoint only_keys (allowed : list string) (kw : kwargs) : bool :=
  match kw with
  | [] => true
  | (k, _) :: r => existsb (String.eqb k) allowed && only_keys allowed r
  end.

Definition is_anon_map_without_constraints (p : pt) : bool :=
  match p with PMap h _ _ _ _ cstr => match h_id h with None => is_nil cstr | Some _ => false end | _ => false end.

(* cls.deserialize(identifier=…, registry=…, **kwargs); kw does not contain #type / #identifier any more *)
Definition construct (tag : string) (h : hdr) (kw : kwargs) : result pt :=
  let cstr := opt "parameter_constraints" kw (rawl dec_str) [] in
  let meas := opt "measurements" kw (rawl dec_meas) [] in
  let chk (allowed : list string) (r : result pt) : result pt := if only_keys allowed kw then r else Err EType in
  if String.eqb tag "Table" then chk ["entries"; "parameter_constraints"; "measurements"] (
    do e <- req "entries" kw (raw (dec_cdict (dec_list dec_entry)));
    do c <- cstr; do m <- meas;
    if is_nil e || existsb (fun ce => is_nil (snd ce)) e then Err EValue else Ok (PTable h e c m))
  else if String.eqb tag "Point" then chk ["time_point_tuple_list"; "channel_names"; "parameter_constraints"; "measurements"] (
    do e <- req "time_point_tuple_list" kw (raw (dec_list dec_entry));
    do ch <- req "channel_names" kw (raw (dec_list dec_chan));
    do c <- cstr; do m <- meas; Ok (PPoint h e ch c m))
  else if String.eqb tag "Function" then chk ["expression"; "duration_expression"; "channel"; "parameter_constraints"; "measurements"] (
    do ex <- req "expression" kw (raw dec_expr);
    do du <- req "duration_expression" kw (raw dec_expr);
    do ch <- opt "channel" kw (raw dec_chan) (CS "default");
    do c <- cstr; do m <- meas; Ok (PFunc h ex du ch c m))
  else if String.eqb tag "Constant" then chk ["name"; "duration"; "amplitude_dict"; "measurements"] (
    do du <- req "duration" kw (raw dec_expr);
    do am <- req "amplitude_dict" kw (raw (dec_cdict dec_expr));
    do na <- opt "name" kw (fun d => match d with DRaw JNull => Ok "constant_pulse" | _ => raw dec_str d end) "constant_pulse";
    do m <- meas; Ok (PConst h na du am m))
  else if String.eqb tag "Sequence" then chk ["subtemplates"; "parameter_constraints"; "measurements"] (
    do s <- req "subtemplates" kw dsubs;
    do c <- cstr; do m <- meas;
    if is_nil s then Err EValue else Ok (PSeq h s c m))
  else if String.eqb tag "Repetition" then chk ["body"; "repetition_count"; "parameter_constraints"; "measurements"] (
    do b <- req "body" kw dsub;
    do n <- req "repetition_count" kw (raw dec_expr);
    do c <- cstr; do m <- meas; Ok (PRep h b n c m))
  else if String.eqb tag "ForLoop" then chk ["body"; "loop_index"; "loop_range"; "parameter_constraints"; "measurements"] (
    do b <- req "body" kw dsub;
    do i <- req "loop_index" kw (raw dec_str);
    do r <- req "loop_range" kw (raw dec_range);
    do c <- cstr; do m <- meas; Ok (PFor h b i r c m))
  else if String.eqb tag "Mapping" then chk ["template"; "parameter_mapping"; "measurement_mapping"; "channel_mapping"; "parameter_constraints"] (
    do t <- req "template" kw dsub;
    do pm <- opt "parameter_mapping" kw (raw (dec_dict dec_expr)) [];
    do mm <- opt "measurement_mapping" kw (raw (dec_dict dec_str)) [];
    do cm <- opt "channel_mapping" kw (raw (dec_cdict dec_ochan)) [];
    do c <- cstr;
    (* a nested unnamed, unconstrained MappingPT would be merged by __init__ (expression substitution): not modelled *)
    if is_anon_map_without_constraints t then Err EValue else Ok (PMap h t pm mm cm c))
  else if String.eqb tag "AtomicMulti" then chk ["subtemplates"; "parameter_constraints"; "measurements"; "duration"] (
    do s <- req "subtemplates" kw dsubs;
    do c <- cstr; do m <- meas;
    do du <- opt "duration" kw (some (raw dec_expr)) None;
    if is_nil s then Err EValue else Ok (PAmc h s c m du))
  else if String.eqb tag "Parallel" then chk ["template"; "overwritten_channels"] (
    do t <- req "template" kw dsub;
    do o <- req "overwritten_channels" kw (raw (dec_cdict dec_expr));
    Ok (PPar h t o))
  else if String.eqb tag "Arithmetic" then chk ["lhs"; "rhs"; "arithmetic_operator"] (
    do op <- req "arithmetic_operator" kw (raw dec_str);
    let dscalar (j : json) : result scalar :=
      match j with JObj _ => do m <- dec_cdict dec_expr j; Ok (SMap m) | _ => do e <- dec_expr j; Ok (SExpr e) end in
    match lookup "lhs" kw, lookup "rhs" kw with
    | Some (DSub p), Some (DRaw j) => do s <- dscalar j; Ok (PArith h p s true op)
    | Some (DRaw j), Some (DSub p) => do s <- dscalar j; Ok (PArith h p s false op)
    | _, _ => Err EType
    end)
  else if String.eqb tag "ArithmeticAtomic" then chk ["lhs"; "rhs"; "arithmetic_operator"; "measurements"; "silent_atomic"] (
    do l <- req "lhs" kw dsub;
    do r <- req "rhs" kw dsub;
    do op <- req "arithmetic_operator" kw (raw dec_str);
    do m <- meas; Ok (PAA h l r op m))
  else if String.eqb tag "TimeReversal" then chk ["inner"] (
    do i <- req "inner" kw dsub; Ok (PRev h i))
  else if String.eqb tag "Abstract" then chk ["defined_channels"; "parameter_names"; "measurement_names"; "integral"; "duration"] (
    do ch <- opt "defined_channels" kw (some (raw (dec_list dec_chan))) None;
    do pn <- opt "parameter_names" kw (some (raw (dec_list dec_str))) None;
    do mn <- opt "measurement_names" kw (some (raw (dec_list dec_str))) None;
    do ig <- opt "integral" kw (some (raw (dec_cdict dec_expr))) None;
    do du <- opt "duration" kw (some (raw dec_expr)) None;
    Ok (PAbs h ch pn mn ig du))
  else Err EKey.

(* state of a loading PulseStorage: object-identity counter and _temporary_storage (identifier -> object) *)
Record lstate := mkL { l_next : N; l_cache : list (string * pt) }.
Definition resolver := lstate -> string -> result (pt * lstate).

Definition is_typed (j : json) : bool := match j with JObj fs => has_key K_TYPE fs | _ => false end.

Definition drop_hdr_keys (kw : kwargs) : kwargs :=
  filter (fun kd => negb (String.eqb (fst kd) K_TYPE || String.eqb (fst kd) K_ID)) kw.

(* json.loads with object_hook=filter_serializables: nested objects first, left to right.
   D is the decoder for nested objects (decode itself). *)
Section Fields.
Variable D : json -> lstate -> result (pt * lstate).
Fixpoint dec_elems (l : list json) (st : lstate) : result (list pt * lstate) :=
  match l with
  | [] => Ok ([], st)
  | x :: r => do (p, st1) <- D x st; do (ps, st2) <- dec_elems r st1; Ok (p :: ps, st2)
  end.
Definition dec_field_val (v : json) (st : lstate) : result (dval * lstate) :=
  match v with
  | JObj vfs => if has_key K_TYPE vfs then do (p, st') <- D v st; Ok (DSub p, st') else Ok (DRaw v, st)
  | JList l =>
      if negb (is_nil l) && forallb is_typed l then do (ps, st') <- dec_elems l st; Ok (DSubs ps, st')
      else Ok (DRaw v, st)
  | _ => Ok (DRaw v, st)
  end.
Fixpoint dec_fields (fs : list (string * json)) (st : lstate) : result (kwargs * lstate) :=
  match fs with
  | [] => Ok ([], st)
  | kv :: r =>
      do (d, st1) <- dec_field_val (snd kv) st;
      do (ds, st2) <- dec_fields r st1; Ok ((fst kv, d) :: ds, st2)
  end.
End Fields.

(* filter_serializables on a completed object *)
Definition finish (rs : resolver) (kw : kwargs) (st1 : lstate) : result (pt * lstate) :=
  match lookup K_TYPE kw with
  | Some (DRaw (JStr tag)) =>
      let oid := match lookup K_ID kw with Some (DRaw (JStr i)) => Some i | _ => None end in
      if String.eqb tag T_REF then
        match oid with Some i => rs st1 i | None => Err ERuntime end
      else
        match lookup K_ID kw with
        | Some (DRaw (JStr "")) => Err EValue
        | Some (DRaw (JStr _)) | Some (DRaw JNull) | None =>
            do p <- construct tag (mkHdr (l_next st1) oid) (drop_hdr_keys kw);
            Ok (p, mkL (N.succ (l_next st1)) (l_cache st1))
        | _ => Err EType
        end
  | _ => Err EType     (* the document is a plain dict, not a Serializable *)
  end.

Fixpoint decode (rs : resolver) (j : json) (st : lstate) : result (pt * lstate) :=
  match j with
  | JObj fs => do (kw, st1) <- dec_fields (decode rs) fs st; finish rs kw st1
  | _ => Err EType
  end.

(* abstract backend: identifier -> document (later entries shadowed by earlier ones: put prepends/overwrites) *)
Definition backend := list (string * json).
Fixpoint be_put (be : backend) (i : string) (d : json) : backend :=
  match be with
  | [] => [(i, d)]
  | (k, v) :: r => if String.eqb k i then (k, d) :: r else (k, v) :: be_put r i d
  end.

(* PulseStorage.__getitem__ on a storage whose temporary storage is l_cache *)
Fixpoint load (fuel : nat) (be : backend) (st : lstate) (i : string) : result (pt * lstate) :=
  match lookup i (l_cache st) with
  | Some p => Ok (p, st)
  | None =>
      match fuel with
      | O => Err EFuel
      | S f =>
          match lookup i be with
          | None => Err EKey
          | Some doc =>
              do (p, st') <- decode (load f be) doc st;
              Ok (p, mkL (l_next st') ((i, p) :: l_cache st'))
          end
      end
  end.

Definition fresh_l : lstate := mkL 1000000%N [].

(* ------------------------------------------------------------------------------------------------------------ *)
(* storing: PulseStorage.__setitem__ / overwrite (transaction) + JSONSerializableEncoder.default *)
Record sstate := mkS { s_temp : list (string * pt);      (* _temporary_storage: identifier -> object *)
                       s_be : backend }.
Definition tx := list (string * (json * pt)).            (* _transaction_storage, in dict order *)

Fixpoint tx_put (t : tx) (i : string) (e : json * pt) : tx :=
  match t with
  | [] => [(i, e)]
  | (k, v) :: r => if String.eqb k i then (k, e) :: r else (k, v) :: tx_put r i e
  end.

Definition in_storage (s : sstate) (i : string) : bool := has_key i (s_temp s) || has_key i (s_be s).

(* Encoding one object's serialization data inside a transaction.  Visits the nested Serializables in the order
   of the object's fields; a named one is stored through storage[identifier] = o (nested overwrite, same
   transaction) unless the storage (temporary storage or backend — NOT the running transaction) already has the
   identifier, in which case it must be the very same object. *)
Section Visit.
Variable V : pt -> tx -> result tx.     (* visit s, for nested objects *)
Variable s : sstate.
Definition visit_one (c : pt) (t : tx) : result tx :=
  match pt_id c with
  | None => V c t
  | Some i =>
      if negb (in_storage s i) then
        do t' <- V c t; Ok (tx_put t' i (to_data c, c))
      else
        match lookup i (s_temp s) with
        | Some q => if N.eqb (pt_oid q) (pt_oid c) then Ok t else Err ERuntime
        | None => Err ERuntime   (* loaded from the backend: a new object, never `is` c *)
        end
  end.
Fixpoint visit_list (l : list pt) (t : tx) : result tx :=
  match l with
  | [] => Ok t
  | c :: r => do t1 <- visit_one c t; visit_list r t1
  end.
End Visit.

Fixpoint visit (s : sstate) (p : pt) (t : tx) : result tx :=
  if negb (node_encodable p) then Err EType else
  match p with
  | PSeq _ subs _ _ | PAmc _ subs _ _ _ => visit_list (visit s) s subs t
  | PRep _ b _ _ _ | PFor _ b _ _ _ _ | PMap _ b _ _ _ _ | PPar _ b _ | PArith _ b _ _ _ | PRev _ b =>
      visit_one (visit s) s b t
  | PAA _ l r _ _ => do t1 <- visit_one (visit s) s l t; visit_one (visit s) s r t1   (* sort_keys: "lhs" before "rhs" *)
  | _ => Ok t
  end.

(* pulse_storage[identifier] = p  with identifier = p.identifier *)
Definition store (s : sstate) (p : pt) : result sstate :=
  match pt_id p with
  | None => Err EValue
  | Some i =>
      match lookup i (s_temp s) with
      | Some q => if N.eqb (pt_oid q) (pt_oid p) then Ok s else Err ERuntime
      | None =>
          if has_key i (s_be s) then Err ERuntime else
          do t <- visit s p [];
          let t := tx_put t i (to_data p, p) in
          Ok (mkS (fold_left (fun tmp e => (fst e, snd (snd e)) :: tmp) t (s_temp s))
                  (fold_left (fun be e => be_put be (fst e) (fst (snd e))) t (s_be s)))
      end
  end.

Definition empty_s (be : backend) : sstate := mkS [] be.

(* ------------------------------------------------------------------------------------------------------------ *)
(* histories: two PulseStorage instances (own temporary storages) over one backend; a failed store changes nothing *)
Record hstate := mkH { t0 : list (string * pt); t1 : list (string * pt); hbe : backend }.
Definition hsel (h : hstate) (w : nat) : sstate := mkS (if Nat.eqb w 0 then t0 h else t1 h) (hbe h).
Definition hupd (h : hstate) (w : nat) (s : sstate) : hstate :=
  if Nat.eqb w 0 then mkH (s_temp s) (t1 h) (s_be s) else mkH (t0 h) (s_temp s) (s_be s).
Definition hstore (h : hstate) (w : nat) (p : pt) : result hstate := do s' <- store (hsel h w) p; Ok (hupd h w s').
Definition hstep (h : hstate) (op : nat * pt) : hstate * result unit :=
  match hstore h (fst op) (snd op) with Ok h' => (h', Ok tt) | Err e => (h, Err e) end.
Fixpoint hrun (h : hstate) (ops : list (nat * pt)) : hstate * list (result unit) :=
  match ops with
  | [] => (h, [])
  | op :: r => let (h1, o) := hstep h op in let (h2, os) := hrun h1 r in (h2, o :: os)
  end.
Definition empty_h (be : backend) : hstate := mkH [] [] be.
