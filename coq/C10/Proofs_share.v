(* C10 — proofs about object identity in the loader: every identifier is materialised once, every reference to it in any
   loaded tree is that one object (cache invariant "every named node of a cached object is the cache entry of its
   identifier"), and decoding the document of identifier i never registers i itself (acyclicity). *)
From Coq Require Import String List ZArith QArith Bool Lia.
Require Import QV.C10.Model QV.C10.Spec QV.C10.Proofs.
Import ListNotations.
Open Scope string_scope.
Local Open Scope nat_scope.

(* the loader state only grows: allocation counter and cache entries are kept *)
Definition lstep (a b : lstate) : Prop :=
  (l_next a <= l_next b)%N /\ forall k q, lookup k (l_cache a) = Some q -> lookup k (l_cache b) = Some q.
(* a named node is the cache entry of its identifier *)
Definition is_entry (st : lstate) (a : pt) : Prop := forall k, pt_id a = Some k -> lookup k (l_cache st) = Some a.
(* identifiers registered between a and b belong to D *)
Definition new_keys (D : string -> Prop) (a b : lstate) : Prop :=
  forall k, lookup k (l_cache a) = None -> lookup k (l_cache b) <> None -> D k.
Definition ids_of (l : list pt) (k : string) : Prop := exists m, In m l /\ pt_id m = Some k.

Lemma lstep_refl a : lstep a a. Proof. split; [lia|auto]. Qed.
Lemma lstep_trans a b c : lstep a b -> lstep b c -> lstep a c.
Proof. intros [A1 A2] [B1 B2]. split; [lia|auto]. Qed.
Lemma lstep_bump a : lstep a (bump a). Proof. split; cbn; [lia|auto]. Qed.
Lemma is_entry_mono a b x : lstep a b -> is_entry a x -> is_entry b x.
Proof. intros [_ S] H k Hk. auto. Qed.
Lemma is_entry_unnamed st a : pt_id a = None -> is_entry st a.
Proof. intros H k Hk. congruence. Qed.

Lemma new_keys_trans (D : string -> Prop) a b c : new_keys D a b -> new_keys D b c -> new_keys D a c.
Proof.
  intros H1 H2 k Ha Hc. destruct (lookup k (l_cache b)) eqn:E.
  - apply H1; [assumption|congruence].
  - now apply H2.
Qed.
Lemma new_keys_weaken (D D' : string -> Prop) a b : (forall k, D k -> D' k) -> new_keys D a b -> new_keys D' a b.
Proof. intros H H1 k Ha Hb. auto. Qed.
Lemma new_keys_refl D a : new_keys D a a. Proof. intros k H1 H2. congruence. Qed.

Definition linv (P : pt) (st : lstate) : Prop := cache_ok P st /\ cache_closed st.

Lemma load_inv P be : wf P = true -> consistent P -> be_holds P be ->
  forall f n i, In n (nodes P) -> pt_id n = Some i -> length (nodes n) <= f ->
  forall st, linv P st ->
  exists q st', load f be st i = Ok (q, st') /\ erase q = erase n /\ linv P st' /\ lstep st st' /\
                new_keys (ids_of (nodes n)) st st' /\ lookup i (l_cache st') = Some q.
Proof.
  intros HW HC HB. induction f as [|f IH]; intros n i Hn Hi Hf st [Hok Hcl].
  - rewrite nodes_cons in Hf. cbn in Hf. lia.
  - cbn [load]. destruct (lookup i (l_cache st)) as [q|] eqn:EL.
    + destruct (Hok i q EL) as (n0 & Hn0 & Hi0 & He). rewrite (HC n n0 i Hn Hn0 Hi Hi0).
      exists q, st. split; [reflexivity|]. split; [assumption|]. split; [split; assumption|]. split; [apply lstep_refl|]. split; [apply new_keys_refl|exact EL].
    + rewrite (HB n i Hn Hi).
      set (D := ids_of (descendants n)).
      destruct (decode_core (load f be) (fun s => linv P s /\ new_keys D st s) lstep is_entry) with (p := n) (st := st)
        as (p' & st' & E & Ee & [[Hok' Hcl'] Hnk] & Hs & Hg).
      * intros s [[H1 H2] H3]. split; [split|]; assumption.
      * apply lstep_trans.
      * apply lstep_bump.
      * apply is_entry_mono.
      * apply is_entry_unnamed.
      * eapply wf_nodes; eauto.
      * apply Forall_forall. intros m Hm j Hj s [Hs Hk].
        destruct (IH m j) with (st := s) as (q & s' & E1 & E2 & E3 & E4 & E5 & E6); auto.
        -- eapply nodes_trans; eauto. rewrite nodes_cons. now right.
        -- apply size_lt in Hm. lia.
        -- exists q, s'. split; [assumption|]. split; [assumption|]. split; [split; [assumption|]|].
           ++ eapply new_keys_trans; [exact Hk|]. eapply new_keys_weaken; [|exact E5].
              intros k (m0 & Hm0 & Hk0). exists m0. split; [|assumption].
              assert (In m0 (nodes n)) by (eapply nodes_trans; [|exact Hm0]; rewrite nodes_cons; now right).
              rewrite nodes_cons in H. destruct H as [<-|H]; [|exact H].
              (* m0 = n would make n a node of its own proper descendant m *)
              exfalso. apply size_le in Hm0. apply size_lt in Hm. lia.
           ++ split; [assumption|]. destruct E3 as [_ Hc3]. intros a Ha k Hk'. eapply Hc3; eauto.
      * split; [split; assumption|apply new_keys_refl].
      * (* i itself is not registered by decoding its own document *)
        assert (Hnone : lookup i (l_cache st') = None).
        { destruct (lookup i (l_cache st')) eqn:E'; [|reflexivity]. exfalso.
          destruct (Hnk i EL) as (m & Hm & Hmi); [congruence|].
          assert (In m (nodes P)) by (eapply nodes_trans; [exact Hn|]; rewrite nodes_cons; now right).
          assert (m = n) by (eapply HC; eauto). subst m. apply size_lt in Hm. lia. }
        rewrite E. cbn [bind].
        set (st2 := {| l_next := l_next st'; l_cache := (i, p') :: l_cache st' |}).
        assert (S2 : lstep st' st2).
        { split; [cbn; lia|]. intros k q Hk. cbn [st2 l_cache lookup]. destruct (String.eqb k i) eqn:Eki; [|exact Hk].
          apply String.eqb_eq in Eki as ->. congruence. }
        assert (Hp' : pt_id p' = Some i) by (rewrite (erase_id _ _ Ee); exact Hi).
        assert (L2 : lookup i (l_cache st2) = Some p') by (cbn; now rewrite String.eqb_refl).
        exists p', st2. split; [reflexivity|]. split; [exact Ee|]. split; [split|].
        -- intros j q. cbn [st2 l_cache lookup]. destruct (String.eqb j i) eqn:Eji.
           ++ apply String.eqb_eq in Eji as ->. intros [= <-]. eauto.
           ++ apply Hok'.
        -- intros j q Hj a k Ha Hk. cbn [st2 l_cache lookup] in Hj. destruct (String.eqb j i) eqn:Eji.
           ++ injection Hj as <-. rewrite nodes_cons in Ha. destruct Ha as [<-|Ha].
              ** congruence.
              ** apply (is_entry_mono st' st2 a S2 (Hg a Ha) k Hk).
           ++ destruct S2 as [_ S2]. apply S2. eapply Hcl'; eauto.
        -- split; [eapply lstep_trans; eauto|]. split; [|exact L2].
           intros k Hk Hk2. cbn [st2 l_cache lookup] in Hk2. destruct (String.eqb k i) eqn:Eki.
           ++ apply String.eqb_eq in Eki as ->. exists n. split; [rewrite nodes_cons; now left|assumption].
           ++ destruct (Hnk k Hk Hk2) as (m & Hm & Hmk). exists m. split; [rewrite nodes_cons; now right|assumption].
Qed.

Lemma linv_fresh P : linv P fresh_l.
Proof. split; intros i q H; cbn in H; discriminate. Qed.

(* within one loaded object, and across all objects a PulseStorage has loaded, one identifier is one object *)
Lemma closed_share st : cache_closed st -> forall i1 q1 i2 q2 a b j,
  lookup i1 (l_cache st) = Some q1 -> lookup i2 (l_cache st) = Some q2 ->
  In a (nodes q1) -> In b (nodes q2) -> pt_id a = Some j -> pt_id b = Some j -> a = b.
Proof.
  intros Hc i1 q1 i2 q2 a b j L1 L2 Ha Hb Ia Ib.
  pose proof (Hc i1 q1 L1 a j Ha Ia). pose proof (Hc i2 q2 L2 b j Hb Ib). congruence.
Qed.

Lemma sharing_statement : forall P be i p' st', wf P = true -> consistent P -> be_holds P be ->
  pt_id P = Some i -> load (length (nodes P)) be fresh_l i = Ok (p', st') ->
  forall a b j, In a (nodes p') -> In b (nodes p') -> pt_id a = Some j -> pt_id b = Some j -> a = b.
Proof.
  intros P be i p' st' Hw Hc Hb Hi E a b j Ha Hb' Ia Ib.
  destruct (load_inv P be Hw Hc Hb (length (nodes P)) P i) with (st := fresh_l)
    as (q & s' & E1 & _ & [_ Hcl] & _ & _ & L); auto using linv_fresh.
  { rewrite nodes_cons. now left. }
  rewrite E in E1. injection E1 as <- <-. exact (closed_share _ Hcl i _ i _ a b j L L Ha Hb' Ia Ib).
Qed.

(* the general form: any state of a loading PulseStorage reached by loads; later loads return objects that share every
   identifier with everything loaded before *)
Lemma sharing_general : forall P be, wf P = true -> consistent P -> be_holds P be ->
  forall f n i st, In n (nodes P) -> pt_id n = Some i -> length (nodes n) <= f -> linv P st ->
  exists q st', load f be st i = Ok (q, st') /\ erase q = erase n /\ linv P st' /\ lookup i (l_cache st') = Some q /\
    (forall k x, lookup k (l_cache st) = Some x -> lookup k (l_cache st') = Some x) /\
    (forall i2 q2 a b j, lookup i2 (l_cache st') = Some q2 -> In a (nodes q) -> In b (nodes q2) ->
                         pt_id a = Some j -> pt_id b = Some j -> a = b).
Proof.
  intros P be Hw Hc Hb f n i st Hn Hi Hf Hl.
  destruct (load_inv P be Hw Hc Hb f n i Hn Hi Hf st Hl) as (q & st' & E & Ee & Hl' & [_ Hs] & _ & L).
  exists q, st'. split; [assumption|]. split; [assumption|]. split; [assumption|]. split; [assumption|]. split; [exact Hs|].
  intros i2 q2 a b j L2 Ha Hb' Ia Ib. destruct Hl' as [_ Hcl]. exact (closed_share st' Hcl i q i2 q2 a b j L L2 Ha Hb' Ia Ib).
Qed.
