(* C10 — round 4: the declared duration of a template as a function of the state that is serialised (definitions only).
   qupulse: TablePT.calculate_duration (Max over the channels of the last entry time), PointPT.duration (time of the last
   point), FunctionPT / ConstantPT (the duration expression), SequencePT (sum), RepetitionPT (count * body), ForLoopPT (sum
   over the loop range with the index substituted), MappingPT (substitution), AtomicMultiChannelPT (the explicit duration or
   the duration of the FIRST sub-template), ParallelChannelPT / ArithmeticPT / TimeReversalPT (the inner template's),
   ArithmeticAtomicPT (Max of both operands), AbstractPT (the declared one, NotSpecifiedError otherwise).
   Expressions stay opaque: the result is a term over the serialised atoms; deval evaluates the substitution-free fragment
   under a table atom -> value (one table per probe assignment, supplied by the harness as an oracle). *)
From Coq Require Import String List ZArith QArith Bool Qminmax.
Require Import QV.C10.Model.
Import ListNotations.
Open Scope string_scope.

Inductive dexp :=
| DAtom (e : expr)
| DMax (l : list dexp)
| DSum (l : list dexp)
| DMul (c : expr) (d : dexp)
| DFor (idx : string) (rng : expr * expr * expr) (d : dexp)
| DSubst (pm : list (string * expr)) (d : dexp).

Fixpoint allM {A} (l : list (result A)) : result (list A) :=
  match l with
  | [] => Ok []
  | x :: r => do y <- x; do ys <- allM r; Ok (y :: ys)
  end.

Definition last_time (es : list tentry) : result dexp :=
  match rev es with (t, _, _) :: _ => Ok (DAtom t) | [] => Err EValue end.

Fixpoint dur_of (p : pt) : result dexp :=
  match p with
  | PTable _ entries _ _ => do ts <- allM (map (fun ce => last_time (snd ce)) entries); Ok (DMax ts)
  | PPoint _ pts _ _ _ => last_time pts
  | PFunc _ _ du _ _ _ => Ok (DAtom du)
  | PConst _ _ du _ _ => Ok (DAtom du)
  | PSeq _ subs _ _ => do ds <- allM (map dur_of subs); Ok (DSum ds)
  | PRep _ b n _ _ => do d <- dur_of b; Ok (DMul n d)
  | PFor _ b i r _ _ => do d <- dur_of b; Ok (DFor i r d)
  | PMap _ t pm _ _ _ => do d <- dur_of t; Ok (DSubst pm d)
  | PAmc _ subs _ _ (Some du) => Ok (DAtom du)
  | PAmc _ subs _ _ None => match subs with s :: _ => dur_of s | [] => Err EValue end
  | PPar _ t _ => dur_of t
  | PArith _ t _ _ _ => dur_of t
  | PAA _ l r _ _ => do a <- dur_of l; do b <- dur_of r; Ok (DMax [a; b])
  | PRev _ t => dur_of t
  | PAbs _ _ _ _ _ (Some du) => Ok (DAtom du)
  | PAbs _ _ _ _ _ None => Err EKey
  end.

(* evaluation of the substitution-free fragment *)
Definition atab := list (string * Q).
Definition aval (tb : atab) (e : expr) : option Q :=
  match e with EInt z => Some (inject_Z z) | ENum q => Some q | EStr s => lookup s tb end.

Fixpoint deval (tb : atab) (d : dexp) : option Q :=
  match d with
  | DAtom e => aval tb e
  | DMax l =>
      (fix go (l : list dexp) : option Q :=
         match l with
         | [] => None
         | [x] => deval tb x
         | x :: r => match deval tb x, go r with Some a, Some b => Some (Qmax a b) | _, _ => None end
         end) l
  | DSum l =>
      (fix go (l : list dexp) : option Q :=
         match l with
         | [] => Some 0%Q
         | x :: r => match deval tb x, go r with Some a, Some b => Some (a + b)%Q | _, _ => None end
         end) l
  | DMul c x => match aval tb c, deval tb x with Some a, Some b => Some (a * b)%Q | _, _ => None end
  | DFor _ _ _ | DSubst _ _ => None
  end.
