(* C10 — round 5: the transaction guard of Tx.v never fires on a tree without identifier clashes, so the guarded
   operations (what the correspondence check runs, what the code does since repo commit a5bca40) are the core operations
   of Model.v / Hist.v on every `consistent` tree, in every storage state. *)
From Coq Require Import String List ZArith QArith Bool Lia.
Require Import QV.C10.Model QV.C10.Spec QV.C10.Hist QV.C10.SpecHist QV.C10.Tx QV.C10.Proofs QV.C10.Proofs_store QV.C10.Proofs_hist.
Import ListNotations.
Open Scope string_scope.

Lemma in_nodes_child_list subs c x : In c subs -> In x (nodes c) -> In x (flat_map nodes subs).
Proof. intros. apply in_flat_map. eauto. Qed.

(* every entry of tx_written is a named node: of the tree (top = false) / a proper descendant (top = true) *)
Lemma tx_written_nodes K0 : forall c top j x, In (j, x) (tx_written K0 top c) ->
  pt_id x = Some j /\ (if top then In x (descendants c) else In x (nodes c)).
Proof.
  induction c using pt_ind2; intros top j x Hin; cbn [tx_written] in Hin;
    (destruct top; [| destruct (pt_id _) as [ii|] eqn:Ei; [destruct (existsb (String.eqb ii) K0); [destruct Hin|];
       destruct Hin as [Hin|Hin]; [inversion Hin; subst; split; [exact Ei| now left]|]|]]);
    try contradiction; unfold descendants; cbn [nodes tl].
  all: try (apply in_flat_map in Hin as (c0 & Hc & Hin); rewrite Forall_forall in H; destruct (H c0 Hc false j x Hin) as [A B];
            split; [exact A|]; try right; eapply in_nodes_child_list; eauto).
  all: try (destruct (IHc false j x Hin) as [A B]; split; [exact A|]; try right; exact B).
  all: try (apply in_app_or in Hin as [Hin|Hin]; [destruct (IHc1 false j x Hin) as [A B]|destruct (IHc2 false j x Hin) as [A B]];
            split; try exact A; try right; apply in_or_app; auto).
Qed.

Lemma tx_hits_nodes K0 : forall c top j, In j (tx_hits K0 top c) ->
  exists x, pt_id x = Some j /\ (if top then In x (descendants c) else In x (nodes c)).
Proof.
  induction c using pt_ind2; intros top j Hin; cbn [tx_hits] in Hin;
    (destruct top; [| destruct (pt_id _) as [ii|] eqn:Ei; [destruct (existsb (String.eqb ii) K0);
       [destruct Hin as [Hin|[]]; subst; eexists; split; [exact Ei| now left]|]|]]);
    try contradiction; unfold descendants; cbn [nodes tl].
  all: try (apply in_flat_map in Hin as (c0 & Hc & Hin); rewrite Forall_forall in H; destruct (H c0 Hc false j Hin) as (x & A & B);
            exists x; split; [exact A|]; try right; eapply in_nodes_child_list; eauto).
  all: try (destruct (IHc false j Hin) as (x & A & B); exists x; split; [exact A|]; try right; exact B).
  all: try (apply in_app_or in Hin as [Hin|Hin]; [destruct (IHc1 false j Hin) as (x & A & B)|destruct (IHc2 false j Hin) as (x & A & B)];
            exists x; split; try exact A; try right; apply in_or_app; auto).
Qed.

Lemma existsb_false_intro {A} (f : A -> bool) l : (forall x, In x l -> f x = false) -> existsb f l = false.
Proof. induction l as [|a r IH]; intros H; [reflexivity|]. cbn. rewrite (H a (or_introl eq_refl)). apply IH. intros; apply H; now right. Qed.

Lemma tx_guard_silent : forall s i P, consistent P -> pt_id P = Some i -> tx_reject s i P = false.
Proof.
  intros s i P HC Hi. unfold tx_reject.
  set (K0 := (map fst (s_temp s) ++ map fst (s_be s))%list).
  assert (W : forall a, In a ((i, P) :: tx_written K0 true P) -> pt_id (snd a) = Some (fst a) /\ In (snd a) (nodes P)).
  { intros [j x] [E|Hin]; [inversion E; subst; split; [exact Hi| rewrite nodes_cons; now left]|].
    destruct (tx_written_nodes K0 P true j x Hin) as [A B]. split; [exact A|]. rewrite nodes_cons. now right. }
  apply orb_false_intro.
  - apply existsb_false_intro. intros a Ha. apply existsb_false_intro. intros b Hb.
    destruct (W a Ha) as [Aa Na], (W b Hb) as [Ab Nb].
    destruct (String.eqb (fst a) (fst b)) eqn:E; [|reflexivity]. apply String.eqb_eq in E.
    rewrite E in Aa. rewrite (HC _ _ _ Na Nb Aa Ab). now rewrite N.eqb_refl.
  - apply existsb_false_intro. intros j Hj. destruct (String.eqb i j) eqn:E; [|reflexivity]. apply String.eqb_eq in E. subst j.
    destruct (tx_hits_nodes K0 P true i Hj) as (x & A & B).
    assert (x = P). { apply (HC x P i); [rewrite nodes_cons; now right| rewrite nodes_cons; now left| exact A| exact Hi]. }
    subst x. apply size_lt in B. lia.
Qed.

Lemma tx_ops_core : forall s i P, consistent P -> pt_id P = Some i ->
  overwrite_tx s i P = overwrite_as s i P /\ store_as_tx s i P = store_as s i P.
Proof.
  intros s i P HC Hi. unfold store_as_tx, overwrite_tx. rewrite (tx_guard_silent s i P HC Hi). split; reflexivity.
Qed.

(* the guarded histories (what check_corr runs) are the core histories of the theorems *)
Lemma hrun_tx_core : forall ops h, (forall w p, In (w, p) ops -> consistent p) -> hrun_tx h ops = hrun h ops.
Proof.
  induction ops as [|[w p] r IH]; intros h HC; [reflexivity|].
  cbn [hrun_tx hrun].
  assert (E : hstep_tx h (w, p) = hstep h (w, p)).
  { unfold hstep_tx, hstep, hstore, hop_step_tx. cbn [fst snd sop_tx hop_w].
    destruct (pt_id p) as [i|] eqn:Ei.
    - destruct (tx_ops_core (hsel h w) i p (HC w p (or_introl eq_refl)) Ei) as [_ ->].
      rewrite <- (Proofs_hist.store_as_store (hsel h w) p i Ei). destruct (store (hsel h w) p); reflexivity.
    - unfold store. rewrite Ei. reflexivity. }
  rewrite E. destruct (hstep h (w, p)) as [h1 o]. rewrite IH; [reflexivity|]. intros; eapply HC; right; eauto.
Qed.

Lemma hrun2_tx_core : forall ops h, Forall keyed ops ->
  (forall o p, In o ops -> hop_pt o = Some p -> consistent p) -> hrun2_tx h ops = hrun2 h ops.
Proof.
  induction ops as [|o r IH]; intros h HK HC; [reflexivity|].
  inversion HK as [|? ? K1 K2]; subst. cbn [hrun2_tx hrun2].
  assert (E : hop_step_tx h o = hop_step h o).
  { unfold hop_step_tx, hop_step. destruct o as [w k p|w k p|w k]; cbn [sop_tx sop hop_w]; cbn [keyed] in K1.
    - destruct (tx_ops_core (hsel h w) k p (HC _ p (or_introl eq_refl) eq_refl) K1) as [_ ->]. reflexivity.
    - destruct (tx_ops_core (hsel h w) k p (HC _ p (or_introl eq_refl) eq_refl) K1) as [-> _]. reflexivity.
    - reflexivity. }
  rewrite E. destruct (hop_step h o) as [h1 x]. rewrite IH; [reflexivity|exact K2|]. intros; eapply HC; [right|]; eauto.
Qed.

Lemma storage_guarded : forall P s' i, wf P = true -> consistent P -> pt_id P = Some i ->
  store_as_tx (empty_s []) i P = Ok s' ->
  exists p' st', load (length (nodes P)) (s_be s') fresh_l i = Ok (p', st') /\ erase p' = erase P.
Proof.
  intros P s' i HW HC Hi E. destruct (tx_ops_core (empty_s []) i P HC Hi) as [_ E2]. rewrite E2 in E.
  rewrite <- (Proofs_hist.store_as_store (empty_s []) P i Hi) in E.
  exact (Proofs_store.storage_statement P s' i HW HC Hi E).
Qed.
