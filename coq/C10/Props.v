(* C10 — property theorems (statements only; proofs live in Proofs.v). *)
From Coq Require Import String List ZArith QArith Bool.
Require Import QV.C10.Model QV.C10.Proofs.
