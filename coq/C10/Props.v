(* C10 — property theorems (statements only; proofs live in Proofs.v).
   erase forgets Python object identities; wf = what the real constructors produce + dict keys are strings other than
   "#type" (guard of finding int_channel_key); consistent = one identifier, one object (guard of finding
   dup_identifier_in_transaction); be_holds P be = the backend maps the identifier of every named node of P to that
   node's own document.  Text level (json text, expression strings, float repr) is outside the model. *)
From Coq Require Import String List ZArith QArith Bool.
Require Import QV.C10.Model QV.C10.Spec QV.C10.Iface QV.C10.Hist QV.C10.SpecHist QV.C10.Proofs QV.C10.Proofs_store QV.C10.Proofs_share QV.C10.Proofs_iface QV.C10.Proofs_guard QV.C10.SpecInl QV.C10.Proofs_guard2 QV.C10.Proofs_hist QV.C10.Witness QV.C10.Witness_hist QV.C10.Dur QV.C10.Proofs_dur QV.C10.Tx QV.C10.Proofs_tx QV.C10.SpecBlind QV.C10.Proofs_blind.
Import ListNotations.
Open Scope string_scope.

(* get_serialization_data + encoder followed by decoder + constructor gives back the same object, for every class and
   any nesting, when references resolve to the named children *)
Theorem C10_roundtrip_node : forall p rs, wf p = true ->
  (forall n i, In n (descendants p) -> pt_id n = Some i -> forall st, rs st i = Ok (n, st)) ->
  forall st, exists p' st', decode rs (to_data p) st = Ok (p', st') /\ erase p' = erase p.
Proof. exact roundtrip_node. Qed.
Print Assumptions C10_roundtrip_node.

(* a fresh PulseStorage over a backend that holds the documents of P's named nodes loads P back (enough fuel is given:
   termination of the reference chase is part of the statement) *)
Theorem C10_load_roundtrip : forall P be i, wf P = true -> consistent P -> be_holds P be -> pt_id P = Some i ->
  exists p' st', load (length (nodes P)) be fresh_l i = Ok (p', st') /\ erase p' = erase P.
Proof. exact load_roundtrip. Qed.
Print Assumptions C10_load_roundtrip.

(* one `pulse_storage[id] = P` on a PulseStorage in any state that satisfies the storage invariant temp_ok (objects of
   the temporary storage are registered under their identifier and have all their documents in the backend), over any
   backend: afterwards every named node of P occupies the backend entry of its identifier with its own document
   (be_holds), nothing that was stored before changed (be_extends), entries stay unique, the only new entries are
   identifiers of nodes of P, and the invariant holds again.  heap_ok = Python identity (`is`) is injective between the
   temporary storage and the nodes of P. *)
Theorem C10_store_step : forall (U : pt -> Prop) s P s',
  (forall x, In x (nodes P) -> U x) -> temp_ok U (s_temp s) (s_be s) -> heap_ok (s_temp s) P -> consistent P ->
  store s P = Ok s' ->
  temp_ok U (s_temp s') (s_be s') /\ be_extends (s_be s) (s_be s') /\ be_holds P (s_be s')
  /\ (be_unique (s_be s) -> be_unique (s_be s'))
  /\ (forall k, has_key k (s_be s') = true -> has_key k (s_be s) = true \/ exists n, In n (nodes P) /\ pt_id n = Some k)
  /\ (forall j q, In (j, q) (s_temp s') -> In (j, q) (s_temp s) \/ In q (nodes P)).
Proof. exact store_step. Qed.
Print Assumptions C10_store_step.

(* the statement that round 1 left open: store through a fresh PulseStorage, load through another fresh one *)
Definition C10_storage_statement : Prop := forall P s' i, wf P = true -> consistent P -> pt_id P = Some i ->
  store (empty_s []) P = Ok s' ->
  exists p' st', load (length (nodes P)) (s_be s') fresh_l i = Ok (p', st') /\ erase p' = erase P.
Theorem C10_storage : C10_storage_statement.
Proof. exact storage_statement. Qed.
Print Assumptions C10_storage.

(* full round trip for histories: any pre-existing backend be0, any sequence of stores through two PulseStorage instances
   sharing the backend (failed stores change nothing), every tree of the history free of identifier clashes; a root
   whose store succeeded at its turn is, at the END of the history, still completely in the backend and a fresh
   PulseStorage loads it back equal *)
Theorem C10_storage_history : forall be0 ops pre w P post i,
  oid_coherent (live ops) -> (forall w p, In (w, p) ops -> consistent p) ->
  ops = (pre ++ (w, P) :: post)%list -> wf P = true -> pt_id P = Some i ->
  (exists h', hstore (fst (hrun (empty_h be0) pre)) w P = Ok h') ->
  let be := hbe (fst (hrun (empty_h be0) ops)) in
  be_extends be0 be /\ be_holds P be /\
  exists p' st', load (length (nodes P)) be fresh_l i = Ok (p', st') /\ erase p' = erase P.
Proof. exact storage_history. Qed.
Print Assumptions C10_storage_history.

(* loaded once: after loading identifier i the temporary storage serves i; every later reference gets that object *)
Theorem C10_loaded_once : forall P be, wf P = true -> consistent P -> be_holds P be ->
  forall f n i, In n (nodes P) -> pt_id n = Some i -> (length (nodes n) <= f)%nat ->
  forall st, cache_ok P st -> forall q st', load f be st i = Ok (q, st') ->
  lookup i (l_cache st') = Some q /\ (forall st'', load f be st' i = Ok (q, st'') -> st'' = st').
Proof.
  intros P be Hw Hc Hb f n i Hn Hi Hf st Hst q st' E.
  pose proof (load_cached P be Hw Hc Hb f n i Hn Hi Hf st Hst q st' E) as L. split; [exact L|].
  intros st'' E2. destruct f; cbn [load] in E2; rewrite L in E2; congruence.
Qed.
Print Assumptions C10_loaded_once.

(* in-tree identity: object identities are allocated by the loader model (l_next), and two nodes of the loaded tree that
   carry the same identifier are the same object (equal including the object identity) *)
Definition C10_sharing_statement : Prop := forall P be i p' st', wf P = true -> consistent P -> be_holds P be ->
  pt_id P = Some i -> load (length (nodes P)) be fresh_l i = Ok (p', st') ->
  forall a b j, In a (nodes p') -> In b (nodes p') -> pt_id a = Some j -> pt_id b = Some j -> a = b.
Theorem C10_sharing : C10_sharing_statement.
Proof. exact sharing_statement. Qed.
Print Assumptions C10_sharing.

(* general form: from any loader state satisfying the cache invariant (linv: cached objects are the stored nodes up to
   identity + every named node of a cached object is the cache entry of its identifier) a load succeeds, keeps the
   invariant and all earlier entries, and the returned object shares every identifier with every object in the cache *)
Theorem C10_sharing_general : forall P be, wf P = true -> consistent P -> be_holds P be ->
  forall f n i st, In n (nodes P) -> pt_id n = Some i -> (length (nodes n) <= f)%nat -> linv P st ->
  exists q st', load f be st i = Ok (q, st') /\ erase q = erase n /\ linv P st' /\ lookup i (l_cache st') = Some q /\
    (forall k x, lookup k (l_cache st) = Some x -> lookup k (l_cache st') = Some x) /\
    (forall i2 q2 a b j, lookup i2 (l_cache st') = Some q2 -> In a (nodes q) -> In b (nodes q2) ->
                         pt_id a = Some j -> pt_id b = Some j -> a = b).
Proof. exact sharing_general. Qed.
Print Assumptions C10_sharing_general.

(* interface clause: parameter_names / measurement_names / defined_channels (Iface.v, per class, free symbols of
   expressions from an oracle table vt) of a template that is equal up to object identity are equal, for every table *)
Theorem C10_interface_erase : forall vt p p', erase p' = erase p -> iface_of vt p' = iface_of vt p.
Proof. exact iface_roundtrip. Qed.
Print Assumptions C10_interface_erase.

(* ... hence the template loaded back by a fresh storage declares the same parameters, measurement names and channels *)
Theorem C10_storage_interface : forall vt P s' i, wf P = true -> consistent P -> pt_id P = Some i ->
  store (empty_s []) P = Ok s' ->
  exists p' st', load (length (nodes P)) (s_be s') fresh_l i = Ok (p', st') /\ erase p' = erase P /\
                 iface_of vt p' = iface_of vt P.
Proof. exact storage_interface. Qed.
Print Assumptions C10_storage_interface.

(* every stored document stands alone: below the top level no object of a real class carries an identifier, i.e. named
   sub-templates appear as reference nodes only; an unnamed template's data embeds no named template at all *)
Theorem C10_documents : forall p, wf p = true ->
  doc_fields_ok (to_data p) = true /\ (pt_id p = None -> no_inline_named (to_data p) = true).
Proof. exact documents_ok. Qed.
Print Assumptions C10_documents.

(* the hypotheses are satisfiable by a nested template with a shared named child, stored by the model's own store *)
Theorem C10_example_hypotheses : wf ex_P = true /\ consistent ex_P /\ pt_id ex_P = Some "s" /\
  (exists s', store (empty_s []) ex_P = Ok s' /\ be_holds ex_P (s_be s')) /\ doc_fields_ok (to_data ex_P) = true.
Proof. exact ex_P_ok. Qed.
Print Assumptions C10_example_hypotheses.

(* finding int_channel_key: the faithful model loses integer channel ids used as dict keys *)
Theorem C10_roundtrip_refuted_int_key : exists p, pt_id p = None /\
  forall rs st p' st', decode rs (to_data p) st = Ok (p', st') -> erase p' <> erase p.
Proof. exact refuted_int_key. Qed.
Print Assumptions C10_roundtrip_refuted_int_key.

(* ... and the guard is tight at the level of one document: EVERY template with an integer channel id as a key of one of
   its own dicts (own_cs p = false), of any class, is loaded as a different template (or not at all), for every resolver
   and loader state *)
Theorem C10_int_key_always_lost : forall p rs st p' st', own_cs p = false ->
  decode rs (to_data p) st = Ok (p', st') -> erase p' <> erase p.
Proof. exact int_key_always_lost. Qed.
Print Assumptions C10_int_key_always_lost.

(* finding dup_identifier_in_transaction: store succeeds, a fresh storage loads a different pulse *)
Theorem C10_storage_refuted_dup_identifier : exists P s' p' st', wf P = true /\
  store (empty_s []) P = Ok s' /\ load 8 (s_be s') fresh_l "s" = Ok (p', st') /\ erase p' <> erase P.
Proof. exact refuted_dup_identifier. Qed.
Print Assumptions C10_storage_refuted_dup_identifier.

(* ---- round 3: histories with overwrite and deletion (Hist.v: store_as / overwrite_as / delete, hop, hrun2) ------------- *)
(* the old store is the new one under the template's own identifier *)
Theorem C10_store_is_store_as : forall s p i, pt_id p = Some i -> store s p = store_as s i p.
Proof. exact store_as_store. Qed.
Print Assumptions C10_store_is_store_as.

(* one overwrite (P encoded again) from a storage state whose cached objects belong to the universe U of the history's
   objects (one identifier one object, one Python identity one object) and whose backend documents are theirs: if the
   named descendants of P that are still cached are completely in the backend (cached_complete: the encoder skips them),
   then afterwards every named node of P has its own document in the backend — also the ones whose documents had been
   deleted *)
Theorem C10_overwrite_restores : forall (U : pt -> Prop) s i P s',
  oid_coherent U -> gconsistent U -> (forall x, In x (nodes P) -> U x) ->
  (forall j q, In (j, q) (s_temp s) -> forall x, In x (nodes q) -> U x) -> agrees U (s_be s) ->
  pt_id P = Some i -> cached_complete s P -> overwrite_as s i P = Ok s' -> be_holds P (s_be s').
Proof. intros U s i P s' O G HP TL A. apply (overwrite_holds U s i P s' O G HP (conj TL A)). Qed.
Print Assumptions C10_overwrite_restores.

(* histories of store / overwrite / delete through two PulseStorage instances over a backend be0 whose documents agree
   with the history's objects; no identifier clash and no mutation in the whole history (gconsistent, oid_coherent on
   live2 ops), keys = own identifiers.  An operation that WRITES P (overwrite, or a store not answered from the temporary
   storage) and succeeds at its turn in a state where P's still-cached descendants are complete: if no identifier of a
   named node of P is deleted afterwards, P is completely in the backend at the END of the history and a fresh
   PulseStorage loads it back equal.  Deletions BEFORE the write (the seed C10-4 history) and deletions of other
   identifiers at any time are allowed. *)
Theorem C10_history_ops : forall be0 ops pre o post w i P s',
  let U := live2 ops in
  oid_coherent U -> gconsistent U -> agrees U be0 -> Forall keyed ops ->
  ops = (pre ++ o :: post)%list -> wf P = true -> pt_id P = Some i ->
  let s1 := hsel (fst (hrun2 (empty_h be0) pre)) w in
  writes s1 o w i P -> sop s1 o = Ok s' -> cached_complete s1 P ->
  (forall n k, In n (nodes P) -> pt_id n = Some k -> ~ deletes post k) ->
  let be := hbe (fst (hrun2 (empty_h be0) ops)) in
  be_holds P be /\ exists p' st', load (length (nodes P)) be fresh_l i = Ok (p', st') /\ erase p' = erase P.
Proof. exact history_ops. Qed.
Print Assumptions C10_history_ops.

(* non-vacuity, the first history of seed C10-4 in the model: store parent (named child x), delete x, overwrite the same
   parent object: all three succeed, x is gone in between, the guard holds, x is back and the parent loads equal *)
Theorem C10_history_example :
  snd (hrun2 (empty_h []) hx_ops) = [Ok tt; Ok tt; Ok tt] /\
  has_key "x" (hbe (fst (hrun2 (empty_h []) [HStore 0 "s" ex_P; HDel 0 "x"]))) = false /\
  cached_complete (hsel (fst (hrun2 (empty_h []) [HStore 0 "s" ex_P; HDel 0 "x"])) 0) ex_P /\
  be_holds ex_P (hbe (fst (hrun2 (empty_h []) hx_ops))) /\
  exists p' st', load 8 (hbe (fst (hrun2 (empty_h []) hx_ops))) fresh_l "s" = Ok (p', st') /\ erase p' = erase ex_P.
Proof. exact hist_example. Qed.
Print Assumptions C10_history_example.

(* the guards are needed (faithful model; the implementation behaves the same, harness cases fixed:del_grandchild_over and
   fixed:del_child_store_noop): a still-cached named child hides a deleted grandchild from overwrite; a store of the
   cached object writes nothing *)
Theorem C10_overwrite_refuted_stale_cache :
  wf g_top = true /\ snd (hrun2 (empty_h []) g_ops) = [Ok tt; Ok tt; Ok tt] /\
  has_key "x" (hbe (fst (hrun2 (empty_h []) g_ops))) = false /\
  load 8 (hbe (fst (hrun2 (empty_h []) g_ops))) fresh_l "top" = Err EKey.
Proof. exact stale_cache_refuted. Qed.
Print Assumptions C10_overwrite_refuted_stale_cache.

Theorem C10_store_refuted_noop :
  snd (hrun2 (empty_h []) n_ops) = [Ok tt; Ok tt; Ok tt] /\
  load 8 (hbe (fst (hrun2 (empty_h []) n_ops))) fresh_l "s" = Err EKey.
Proof. exact noop_store_refuted. Qed.
Print Assumptions C10_store_refuted_noop.

(* ---- round 3: guard tightness below inline children -------------------------------------------------------------------- *)
(* inl_cs p = all dict keys in p's own document are strings: p's own dicts and, recursively, those of the unnamed templates
   embedded in it.  EVERY template with an integer channel key anywhere in its inline part is loaded as a different template
   or not at all, for every loader state and every resolver that answers references with named objects (whatever the
   decoder constructs has string keys throughout its inline part) *)
Theorem C10_inline_int_key_lost : forall rs p st p' st', named_resolver rs -> inl_cs p = false ->
  decode rs (to_data p) st = Ok (p', st') -> erase p' <> erase p.
Proof. intros rs p st p' st' HR. exact (inline_int_key_lost rs HR p st p' st'). Qed.
Print Assumptions C10_inline_int_key_lost.

(* the class beyond C10_int_key_always_lost is not empty: own dicts fine, integer key in an unnamed child *)
Theorem C10_inline_int_key_example : own_cs inl_w = true /\ inl_cs inl_w = false.
Proof. exact inl_w_ok. Qed.
Print Assumptions C10_inline_int_key_example.

(* ---- round 4: declared duration and order-sensitive fields ------------------------------------------------------------ *)
(* the declared duration (Dur.v: a term over the serialised expressions, per class as in the code) of a template that is
   equal up to object identity is the same term *)
Theorem C10_duration_erase : forall p p', erase p' = erase p -> dur_of p' = dur_of p.
Proof. exact dur_roundtrip. Qed.
Print Assumptions C10_duration_erase.

(* ... hence the template loaded back by a fresh storage declares the same duration, and it evaluates to the same value
   under every table of atom values *)
Theorem C10_storage_duration : forall P s' i, wf P = true -> consistent P -> pt_id P = Some i ->
  store (empty_s []) P = Ok s' ->
  exists p' st', load (length (nodes P)) (s_be s') fresh_l i = Ok (p', st') /\ erase p' = erase P /\
                 dur_of p' = dur_of P /\
                 forall tb, match dur_of P with
                            | Ok d => match dur_of p' with Ok d' => deval tb d' = deval tb d | Err _ => False end
                            | Err _ => True end.
Proof. exact storage_duration. Qed.
Print Assumptions C10_storage_duration.

(* the sub-templates come back in the given order, position by position equal up to identity *)
Theorem C10_storage_children_order : forall P s' i, wf P = true -> consistent P -> pt_id P = Some i ->
  store (empty_s []) P = Ok s' ->
  exists p' st', load (length (nodes P)) (s_be s') fresh_l i = Ok (p', st') /\
                 map erase (children p') = map erase (children P).
Proof. exact storage_children_order. Qed.
Print Assumptions C10_storage_children_order.

(* the order is observable (seed C10-5): the same two sub-templates in the other order give another stored document, another
   template and another declared duration (t_y = 3, t_x = 4) *)
Theorem C10_amc_order_observable :
  dur_of amc_yx = Ok (DAtom (EStr "t_y")) /\ dur_of amc_xy = Ok (DAtom (EStr "t_x")) /\
  deval [("t_y", 3#1); ("t_x", 4#1)] (DAtom (EStr "t_y")) = Some (3#1) /\
  deval [("t_y", 3#1); ("t_x", 4#1)] (DAtom (EStr "t_x")) = Some (4#1) /\
  erase amc_yx <> erase amc_xy /\ to_data amc_yx <> to_data amc_xy.
Proof. exact amc_order_observable. Qed.
Print Assumptions C10_amc_order_observable.

(* ---- round 4: the transaction guard of repo commit a5bca40 (Tx.v) -------------------------------------------------------- *)
(* the guarded operations (what the correspondence check runs) are the core operations whenever the guard does not fire
   (definitional unfolding; the content is C10_tx_guard_silent below) ... *)
Theorem C10_tx_guard_transparent : forall s key p, tx_reject s key p = false ->
  overwrite_tx s key p = overwrite_as s key p /\ store_as_tx s key p = store_as s key p.
Proof. intros s key p H. unfold store_as_tx, overwrite_tx. rewrite H. split; reflexivity. Qed.
Print Assumptions C10_tx_guard_transparent.

(* ... and the guard rejects the witness of the former finding dup_identifier_in_transaction (two objects, one identifier in
   one transaction), on which the unguarded transaction of C10_storage_refuted_dup_identifier silently stored a different pulse *)
Theorem C10_tx_guard_rejects_dup : store_as_tx (empty_s []) "s" dup_P = Err ERuntime /\ tx_reject (empty_s []) "s" ex_P = false.
Proof. split; vm_compute; reflexivity. Qed.
Print Assumptions C10_tx_guard_rejects_dup.

(* ---- round 5: the guard never fires on trees without identifier clashes -------------------------------------------------- *)
(* in EVERY storage state: a tree in which one identifier is one object is never rejected by the transaction guard (no two
   entries of the transaction share an identifier, and the stored key is not met again below the root: a proper descendant
   with the root's identifier would be the root) *)
Theorem C10_tx_guard_silent : forall s i P, consistent P -> pt_id P = Some i -> tx_reject s i P = false.
Proof. exact tx_guard_silent. Qed.
Print Assumptions C10_tx_guard_silent.

(* ... so the histories the correspondence check runs (hrun_tx / hrun2_tx = the code since repo commit a5bca40) are the core
   histories that C10_storage_history and C10_history_ops are about *)
Theorem C10_guarded_store_histories_are_core : forall ops h,
  (forall w p, In (w, p) ops -> consistent p) -> hrun_tx h ops = hrun h ops.
Proof. exact hrun_tx_core. Qed.
Print Assumptions C10_guarded_store_histories_are_core.

Theorem C10_guarded_histories_are_core : forall ops h, Forall keyed ops ->
  (forall o p, In o ops -> hop_pt o = Some p -> consistent p) -> hrun2_tx h ops = hrun2 h ops.
Proof. exact hrun2_tx_core. Qed.
Print Assumptions C10_guarded_histories_are_core.

(* the main statement for the guarded store: store through a fresh PulseStorage (with the transaction guard), load through
   another fresh one *)
Theorem C10_storage_guarded : forall P s' i, wf P = true -> consistent P -> pt_id P = Some i ->
  store_as_tx (empty_s []) i P = Ok s' ->
  exists p' st', load (length (nodes P)) (s_be s') fresh_l i = Ok (p', st') /\ erase p' = erase P.
Proof. exact storage_guarded. Qed.
Print Assumptions C10_storage_guarded.

(* non-vacuity: the guarded store of the example tree (shared named child) succeeds *)
Theorem C10_storage_guarded_example : exists s', store_as_tx (empty_s []) "s" ex_P = Ok s' /\ be_holds ex_P (s_be s').
Proof.
  destruct ex_P_ok as (_ & HC & Hi & (s' & E & B) & _). exists s'. split; [|exact B].
  destruct (tx_ops_core (empty_s []) "s" ex_P HC Hi) as [_ ->]. rewrite <- (Proofs_hist.store_as_store _ _ _ Hi). exact E.
Qed.
Print Assumptions C10_storage_guarded_example.

(* ---- round 6: what "the same pulse" gives for observations the model has no function for ---------------------------- *)
(* get_serialization_data + encoder do not read object identities: for every rendering of dict keys and both child modes
   (references / embedded), so for the real encoder to_data and for the comparison form repr *)
Theorem C10_serialised_form_identity_blind : forall kc inl p, to_data_gen kc inl (erase p) = to_data_gen kc inl p.
Proof. exact to_data_gen_erase. Qed.
Print Assumptions C10_serialised_form_identity_blind.

(* guarded store through a fresh PulseStorage, load through another one: the loaded pulse (1) serialises to the same
   document as the original and, embedded form, to the same comparison form - `==` of the real classes compares
   get_serialization_data, so this is `loaded == original` in the code's own sense; (2) storing it again would write the
   same document for every named node (named_docs); (3) EVERY observation that does not read object identities takes the
   same value on it - in particular any program semantics that is a function of the constructor state.  That the real
   create_program is such a function is not proved (the model has no template semantics): tested by lo_prog. *)
Theorem C10_storage_observation : forall P s' i, wf P = true -> consistent P -> pt_id P = Some i ->
  store_as_tx (empty_s []) i P = Ok s' ->
  exists p' st', load (length (nodes P)) (s_be s') fresh_l i = Ok (p', st') /\ erase p' = erase P /\
    to_data p' = to_data P /\ repr p' = repr P /\ named_docs p' = named_docs P /\
    forall A (obs : pt -> A), identity_blind obs -> obs p' = obs P.
Proof. exact storage_observation. Qed.
Print Assumptions C10_storage_observation.

(* non-vacuity: the model's interface, duration, document and comparison functions are identity blind; the object identity
   itself is not (the hypothesis is not trivially true) *)
Theorem C10_identity_blind_instances : (forall vt, identity_blind (iface_of vt)) /\ identity_blind dur_of /\
  identity_blind to_data /\ identity_blind repr /\ identity_blind named_docs /\ ~ identity_blind pt_oid.
Proof. exact blind_instances. Qed.
Print Assumptions C10_identity_blind_instances.
