(* C10 — property theorems (statements only; proofs live in Proofs.v).
   erase forgets Python object identities; wf = what the real constructors produce + dict keys are strings other than
   "#type" (guard of finding int_channel_key); consistent = one identifier, one object (guard of finding
   dup_identifier_in_transaction); be_holds P be = the backend maps the identifier of every named node of P to that
   node's own document.  Text level (json text, expression strings, float repr) is outside the model. *)
From Coq Require Import String List ZArith QArith Bool.
Require Import QV.C10.Model QV.C10.Spec QV.C10.Iface QV.C10.Proofs QV.C10.Proofs_store QV.C10.Proofs_share QV.C10.Proofs_iface QV.C10.Proofs_guard QV.C10.Witness.
Import ListNotations.
Open Scope string_scope.

(* get_serialization_data + encoder followed by decoder + constructor gives back the same object, for every class and
   any nesting, when references resolve to the named children *)
Theorem C10_roundtrip_node : forall p rs, wf p = true ->
  (forall n i, In n (descendants p) -> pt_id n = Some i -> forall st, rs st i = Ok (n, st)) ->
  forall st, exists p' st', decode rs (to_data p) st = Ok (p', st') /\ erase p' = erase p.
Proof. exact roundtrip_node. Qed.
Print Assumptions C10_roundtrip_node.

(* a fresh PulseStorage over a backend that holds the documents of P's named nodes loads P back (enough fuel is given:
   termination of the reference chase is part of the statement) *)
Theorem C10_load_roundtrip : forall P be i, wf P = true -> consistent P -> be_holds P be -> pt_id P = Some i ->
  exists p' st', load (length (nodes P)) be fresh_l i = Ok (p', st') /\ erase p' = erase P.
Proof. exact load_roundtrip. Qed.
Print Assumptions C10_load_roundtrip.

(* one `pulse_storage[id] = P` on a PulseStorage in any state that satisfies the storage invariant temp_ok (objects of
   the temporary storage are registered under their identifier and have all their documents in the backend), over any
   backend: afterwards every named node of P occupies the backend entry of its identifier with its own document
   (be_holds), nothing that was stored before changed (be_extends), entries stay unique, the only new entries are
   identifiers of nodes of P, and the invariant holds again.  heap_ok = Python identity (`is`) is injective between the
   temporary storage and the nodes of P. *)
Theorem C10_store_step : forall (U : pt -> Prop) s P s',
  (forall x, In x (nodes P) -> U x) -> temp_ok U (s_temp s) (s_be s) -> heap_ok (s_temp s) P -> consistent P ->
  store s P = Ok s' ->
  temp_ok U (s_temp s') (s_be s') /\ be_extends (s_be s) (s_be s') /\ be_holds P (s_be s')
  /\ (be_unique (s_be s) -> be_unique (s_be s'))
  /\ (forall k, has_key k (s_be s') = true -> has_key k (s_be s) = true \/ exists n, In n (nodes P) /\ pt_id n = Some k)
  /\ (forall j q, In (j, q) (s_temp s') -> In (j, q) (s_temp s) \/ In q (nodes P)).
Proof. exact store_step. Qed.
Print Assumptions C10_store_step.

(* the statement that round 1 left open: store through a fresh PulseStorage, load through another fresh one *)
Definition C10_storage_statement : Prop := forall P s' i, wf P = true -> consistent P -> pt_id P = Some i ->
  store (empty_s []) P = Ok s' ->
  exists p' st', load (length (nodes P)) (s_be s') fresh_l i = Ok (p', st') /\ erase p' = erase P.
Theorem C10_storage : C10_storage_statement.
Proof. exact storage_statement. Qed.
Print Assumptions C10_storage.

(* full round trip for histories: any pre-existing backend be0, any sequence of stores through two PulseStorage instances
   sharing the backend (failed stores change nothing), every tree of the history free of identifier clashes; a root
   whose store succeeded at its turn is, at the END of the history, still completely in the backend and a fresh
   PulseStorage loads it back equal *)
Theorem C10_storage_history : forall be0 ops pre w P post i,
  oid_coherent (live ops) -> (forall w p, In (w, p) ops -> consistent p) ->
  ops = (pre ++ (w, P) :: post)%list -> wf P = true -> pt_id P = Some i ->
  (exists h', hstore (fst (hrun (empty_h be0) pre)) w P = Ok h') ->
  let be := hbe (fst (hrun (empty_h be0) ops)) in
  be_extends be0 be /\ be_holds P be /\
  exists p' st', load (length (nodes P)) be fresh_l i = Ok (p', st') /\ erase p' = erase P.
Proof. exact storage_history. Qed.
Print Assumptions C10_storage_history.

(* loaded once: after loading identifier i the temporary storage serves i; every later reference gets that object *)
Theorem C10_loaded_once : forall P be, wf P = true -> consistent P -> be_holds P be ->
  forall f n i, In n (nodes P) -> pt_id n = Some i -> (length (nodes n) <= f)%nat ->
  forall st, cache_ok P st -> forall q st', load f be st i = Ok (q, st') ->
  lookup i (l_cache st') = Some q /\ (forall st'', load f be st' i = Ok (q, st'') -> st'' = st').
Proof.
  intros P be Hw Hc Hb f n i Hn Hi Hf st Hst q st' E.
  pose proof (load_cached P be Hw Hc Hb f n i Hn Hi Hf st Hst q st' E) as L. split; [exact L|].
  intros st'' E2. destruct f; cbn [load] in E2; rewrite L in E2; congruence.
Qed.
Print Assumptions C10_loaded_once.

(* in-tree identity: object identities are allocated by the loader model (l_next), and two nodes of the loaded tree that
   carry the same identifier are the same object (equal including the object identity) *)
Definition C10_sharing_statement : Prop := forall P be i p' st', wf P = true -> consistent P -> be_holds P be ->
  pt_id P = Some i -> load (length (nodes P)) be fresh_l i = Ok (p', st') ->
  forall a b j, In a (nodes p') -> In b (nodes p') -> pt_id a = Some j -> pt_id b = Some j -> a = b.
Theorem C10_sharing : C10_sharing_statement.
Proof. exact sharing_statement. Qed.
Print Assumptions C10_sharing.

(* general form: from any loader state satisfying the cache invariant (linv: cached objects are the stored nodes up to
   identity + every named node of a cached object is the cache entry of its identifier) a load succeeds, keeps the
   invariant and all earlier entries, and the returned object shares every identifier with every object in the cache *)
Theorem C10_sharing_general : forall P be, wf P = true -> consistent P -> be_holds P be ->
  forall f n i st, In n (nodes P) -> pt_id n = Some i -> (length (nodes n) <= f)%nat -> linv P st ->
  exists q st', load f be st i = Ok (q, st') /\ erase q = erase n /\ linv P st' /\ lookup i (l_cache st') = Some q /\
    (forall k x, lookup k (l_cache st) = Some x -> lookup k (l_cache st') = Some x) /\
    (forall i2 q2 a b j, lookup i2 (l_cache st') = Some q2 -> In a (nodes q) -> In b (nodes q2) ->
                         pt_id a = Some j -> pt_id b = Some j -> a = b).
Proof. exact sharing_general. Qed.
Print Assumptions C10_sharing_general.

(* interface clause: parameter_names / measurement_names / defined_channels (Iface.v, per class, free symbols of
   expressions from an oracle table vt) of a template that is equal up to object identity are equal, for every table *)
Theorem C10_interface_erase : forall vt p p', erase p' = erase p -> iface_of vt p' = iface_of vt p.
Proof. exact iface_roundtrip. Qed.
Print Assumptions C10_interface_erase.

(* ... hence the template loaded back by a fresh storage declares the same parameters, measurement names and channels *)
Theorem C10_storage_interface : forall vt P s' i, wf P = true -> consistent P -> pt_id P = Some i ->
  store (empty_s []) P = Ok s' ->
  exists p' st', load (length (nodes P)) (s_be s') fresh_l i = Ok (p', st') /\ erase p' = erase P /\
                 iface_of vt p' = iface_of vt P.
Proof. exact storage_interface. Qed.
Print Assumptions C10_storage_interface.

(* every stored document stands alone: below the top level no object of a real class carries an identifier, i.e. named
   sub-templates appear as reference nodes only; an unnamed template's data embeds no named template at all *)
Theorem C10_documents : forall p, wf p = true ->
  doc_fields_ok (to_data p) = true /\ (pt_id p = None -> no_inline_named (to_data p) = true).
Proof. exact documents_ok. Qed.
Print Assumptions C10_documents.

(* the hypotheses are satisfiable by a nested template with a shared named child, stored by the model's own store *)
Theorem C10_example_hypotheses : wf ex_P = true /\ consistent ex_P /\ pt_id ex_P = Some "s" /\
  (exists s', store (empty_s []) ex_P = Ok s' /\ be_holds ex_P (s_be s')) /\ doc_fields_ok (to_data ex_P) = true.
Proof. exact ex_P_ok. Qed.
Print Assumptions C10_example_hypotheses.

(* finding int_channel_key: the faithful model loses integer channel ids used as dict keys *)
Theorem C10_roundtrip_refuted_int_key : exists p, pt_id p = None /\
  forall rs st p' st', decode rs (to_data p) st = Ok (p', st') -> erase p' <> erase p.
Proof. exact refuted_int_key. Qed.
Print Assumptions C10_roundtrip_refuted_int_key.

(* ... and the guard is tight at the level of one document: EVERY template with an integer channel id as a key of one of
   its own dicts (own_cs p = false), of any class, is loaded as a different template (or not at all), for every resolver
   and loader state *)
Theorem C10_int_key_always_lost : forall p rs st p' st', own_cs p = false ->
  decode rs (to_data p) st = Ok (p', st') -> erase p' <> erase p.
Proof. exact int_key_always_lost. Qed.
Print Assumptions C10_int_key_always_lost.

(* finding dup_identifier_in_transaction: store succeeds, a fresh storage loads a different pulse *)
Theorem C10_storage_refuted_dup_identifier : exists P s' p' st', wf P = true /\
  store (empty_s []) P = Ok s' /\ load 8 (s_be s') fresh_l "s" = Ok (p', st') /\ erase p' <> erase P.
Proof. exact refuted_dup_identifier. Qed.
Print Assumptions C10_storage_refuted_dup_identifier.
