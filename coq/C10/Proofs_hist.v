(* C10 — round 3: proofs about histories of store / overwrite / delete operations. *)
From Coq Require Import String List ZArith QArith Bool Lia.
Require Import QV.C10.Model QV.C10.Spec QV.C10.Hist QV.C10.SpecHist QV.C10.Proofs QV.C10.Proofs_store.
Import ListNotations.
Open Scope string_scope.

(* ---- the new operations and the old store --------------------------------------------------------------------------- *)
Lemma store_as_store s p i : pt_id p = Some i -> store s p = store_as s i p.
Proof.
  intros H. unfold store, store_as, overwrite_as, flush. rewrite H.
  destruct (lookup i (s_temp s)); [reflexivity|]. destruct (has_key i (s_be s)); [reflexivity|].
  destruct (visit s p []); reflexivity.
Qed.

Lemma has_key_in {A} k (l : list (string * A)) : has_key k l = true <-> In k (map fst l).
Proof.
  split.
  - intros H. apply has_key_lookup in H as [v H]. apply lookup_in in H. apply in_map_iff. exists (k, v). auto.
  - intros H. destruct (has_key k l) eqn:E; [reflexivity|]. apply has_key_false in E. apply lookup_none_notin in E. tauto.
Qed.

Lemma lookup_drop_key {A} k j (l : list (string * A)) :
  lookup j (drop_key k l) = if String.eqb j k then None else lookup j l.
Proof.
  unfold drop_key. induction l as [|[k' v] r IH]; cbn [filter lookup fst]; [now destruct (String.eqb j k)|].
  destruct (String.eqb k' k) eqn:E; cbn [negb].
  - apply String.eqb_eq in E as ->. rewrite IH. destruct (String.eqb j k) eqn:E2; reflexivity.
  - cbn [lookup]. rewrite IH. destruct (String.eqb j k') eqn:E2; [|reflexivity].
    apply String.eqb_eq in E2 as ->. now rewrite E.
Qed.
Lemma drop_key_in {A} k (l : list (string * A)) x : In x (drop_key k l) -> In x l.
Proof. unfold drop_key. intros H. apply filter_In in H. tauto. Qed.

(* ---- what a visit puts into the transaction, without any hypothesis on the storage ----------------------------------- *)
Section Entries.
Variable s : sstate.
Variable E : string -> json * pt -> Prop.
Variable R : pt -> Prop.
Hypothesis HE : forall c i, R c -> pt_id c = Some i -> E i (to_data c, c).

Definition tx_all (t : tx) : Prop := forall k e, In (k, e) t -> E k e.
Definition wspec (p : pt) : Prop :=
  (forall x, In x (descendants p) -> R x) -> forall t t', tx_all t -> visit s p t = Ok t' -> tx_all t'.

Lemma visit_one_w c : wspec c -> (forall x, In x (nodes c) -> R x) -> forall t t', tx_all t ->
  visit_one (visit s) s c t = Ok t' -> tx_all t'.
Proof.
  intros IH Hc t t' Ht. unfold visit_one.
  assert (Hd : forall x, In x (descendants c) -> R x) by (intros x Hx; apply Hc; rewrite nodes_cons; now right).
  destruct (pt_id c) as [i|] eqn:Ei.
  - destruct (in_storage s i); cbn [negb].
    + destruct (lookup i (s_temp s)) as [q|]; [|discriminate]. destruct (N.eqb _ _); [|discriminate]. intros [= <-]. exact Ht.
    + destruct (visit s c t) as [t1|] eqn:Ev; [|discriminate]. cbn [bind]. intros [= <-].
      assert (T1 : tx_all t1) by (eapply IH; eauto).
      intros k e H. rewrite tx_put_put in H. apply put_in in H as [[-> ->]|H]; [|auto].
      apply HE; [apply Hc; rewrite nodes_cons; now left|assumption].
  - intros Ev. eapply IH; eauto.
Qed.

Lemma visit_list_w subs : Forall wspec subs -> (forall x, In x (flat_map nodes subs) -> R x) -> forall t t', tx_all t ->
  visit_list (visit s) s subs t = Ok t' -> tx_all t'.
Proof.
  induction 1 as [|c r Hc Hr IH]; intros HN t t' Ht; cbn [visit_list flat_map].
  - intros [= <-]. exact Ht.
  - destruct (visit_one (visit s) s c t) as [t1|] eqn:E1; [|discriminate]. cbn [bind]. intros E2. cbn [flat_map] in HN.
    apply (IH (fun x Hx => HN x (in_or_app _ _ _ (or_intror Hx))) t1 t'); [|exact E2].
    eapply visit_one_w; eauto. intros x Hx. apply HN. apply in_or_app. now left.
Qed.

Ltac wleaf := intros HN t t' Ht Ev; cbn [visit] in Ev; destruct (negb _); [discriminate|]; injection Ev as <-; exact Ht.
Ltac wone IHp := intros HN t t' Ht Ev; cbn [visit] in Ev; destruct (negb _); [discriminate|];
  eapply (visit_one_w _ IHp); [|exact Ht|exact Ev]; intros x Hx; apply HN; unfold descendants; cbn [nodes tl]; exact Hx.
Ltac wmany H := intros HN t t' Ht Ev; cbn [visit] in Ev; destruct (negb _); [discriminate|];
  eapply (visit_list_w _ H); [|exact Ht|exact Ev]; intros x Hx; apply HN; unfold descendants; cbn [nodes tl]; exact Hx.

Lemma visit_w : forall p, wspec p.
Proof.
  induction p using pt_ind2; unfold wspec.
  - wleaf. - wleaf. - wleaf. - wleaf.
  - wmany H.
  - wone IHp. - wone IHp. - wone IHp.
  - wmany H.
  - wone IHp. - wone IHp.
  - intros HN t t' Ht Ev; cbn [visit] in Ev. destruct (negb _); [discriminate|].
    destruct (visit_one (visit s) s p1 t) as [t1|] eqn:E1; [|discriminate]. cbn [bind] in Ev.
    eapply (visit_one_w _ IHp2); [| |exact Ev].
    + intros x Hx. apply HN. unfold descendants. cbn [nodes tl]. apply in_or_app. now right.
    + eapply (visit_one_w _ IHp1); [|exact Ht|exact E1].
      intros x Hx. apply HN. unfold descendants. cbn [nodes tl]. apply in_or_app. now left.
  - wone IHp.
  - wleaf.
Qed.
End Entries.

(* ---- invariant of a history: cached objects belong to the history, backend documents are theirs --------------------- *)
Definition temp_live (U : pt -> Prop) (tmp : list (string * pt)) : Prop :=
  forall j q, In (j, q) tmp -> forall x, In x (nodes q) -> U x.
Definition sinv (U : pt -> Prop) (s : sstate) : Prop := temp_live U (s_temp s) /\ agrees U (s_be s).
Definition hinv2 (U : pt -> Prop) (h : hstate) : Prop := temp_live U (t0 h) /\ temp_live U (t1 h) /\ agrees U (hbe h).

Definition entry_live (U : pt -> Prop) (k : string) (e : json * pt) : Prop :=
  (forall x, In x (nodes (snd e)) -> U x) /\ (forall n, U n -> pt_id n = Some k -> fst e = to_data n).

Lemma entry_live_intro U : gconsistent U -> forall c i, (forall x, In x (nodes c) -> U x) -> pt_id c = Some i ->
  entry_live U i (to_data c, c).
Proof.
  intros G c i Hc Hi. split; [exact Hc|]. cbn [fst]. intros n Hn Hk. f_equal. symmetry.
  apply (G n c i); auto. apply Hc. rewrite nodes_cons. now left.
Qed.

Lemma flush_be_agrees U t : forall be, agrees U be -> (forall k e, In (k, e) t -> entry_live U k e) -> agrees U (flush_be t be).
Proof.
  unfold flush_be. induction t as [|[k0 e0] r IH]; intros be A H; cbn [fold_left]; [exact A|].
  apply IH; [|intros k e Hk; apply H; now right]. cbn [fst snd]. rewrite be_put_put.
  intros k d n Hl Hn Hk. destruct (String.eqb k k0) eqn:Eq.
  - apply String.eqb_eq in Eq as ->. rewrite lookup_put_same in Hl. injection Hl as <-.
    destruct (H k0 e0 (or_introl eq_refl)) as [_ H2]. auto.
  - apply String.eqb_neq in Eq. rewrite lookup_put_other in Hl by assumption. eapply A; eauto.
Qed.

Lemma over_inv U s k p s' : gconsistent U -> (forall x, In x (nodes p) -> U x) -> pt_id p = Some k -> sinv U s ->
  overwrite_as s k p = Ok s' ->
  sinv U s' /\ (forall j, has_key j (s_be s) = true -> has_key j (s_be s') = true).
Proof.
  intros G Hp Hk [TL A]. unfold overwrite_as. destruct (visit s p []) as [t|] eqn:Ev; [|discriminate]. cbn [bind].
  intros [= <-]. unfold flush. cbn [s_temp s_be].
  set (t2 := tx_put t k (to_data p, p)).
  change (fold_left _ t2 (s_be s)) with (flush_be t2 (s_be s)).
  change (fold_left _ t2 (s_temp s)) with (flush_tmp t2 (s_temp s)).
  set (R := fun c : pt => forall x, In x (nodes c) -> U x).
  assert (T : tx_all (entry_live U) t).
  { assert (HE : forall c i, R c -> pt_id c = Some i -> entry_live U i (to_data c, c))
      by (intros c i Hc Hi; now apply entry_live_intro).
    assert (HD : forall x, In x (descendants p) -> R x).
    { intros x Hx y Hy. apply Hp. eapply nodes_trans; [|exact Hy]. rewrite nodes_cons. now right. }
    assert (T0 : tx_all (entry_live U) []) by (intros k0 e0 H0; destruct H0).
    exact (visit_w s (entry_live U) R HE p HD [] t T0 Ev). }
  assert (T2 : tx_all (entry_live U) t2).
  { intros j e H. unfold t2 in H. rewrite tx_put_put in H. apply put_in in H as [[-> ->]|H]; [|auto].
    now apply entry_live_intro. }
  split; [split|].
  - intros j q H x Hx. apply flush_tmp_in in H as [H|[d H]]; [eapply TL; eauto|].
    destruct (T2 j (d, q) H) as [H1 _]. cbn [snd] in H1. auto.
  - now apply flush_be_agrees.
  - intros j H. apply has_key_in. apply flush_be_keys. right. now apply has_key_in.
Qed.

Lemma sop_inv U s o s' : gconsistent U -> keyed o ->
  (forall p, hop_pt o = Some p -> forall x, In x (nodes p) -> U x) -> sinv U s -> sop s o = Ok s' ->
  sinv U s' /\ (forall j, has_key j (s_be s) = true -> (forall w, o <> HDel w j) -> has_key j (s_be s') = true).
Proof.
  intros G K Hp I. destruct o as [w k p|w k p|w k]; cbn [sop keyed hop_pt] in *.
  - unfold store_as. destruct (lookup k (s_temp s)) as [q|].
    + destruct (N.eqb _ _); [|discriminate]. intros [= <-]. auto.
    + destruct (has_key k (s_be s)); [discriminate|]. intros Ev.
      destruct (over_inv U s k p s' G (Hp p eq_refl) K I Ev) as [I' Hk]. auto.
  - intros Ev. destruct (over_inv U s k p s' G (Hp p eq_refl) K I Ev) as [I' Hk]. auto.
  - unfold delete. destruct (has_key k (s_be s)); [|discriminate]. intros [= <-]. destruct I as [TL A]. split; [split|]; cbn [s_temp s_be].
    + intros j q H. apply drop_key_in in H. eapply TL; eauto.
    + intros j d n Hl. rewrite lookup_drop_key in Hl. destruct (String.eqb j k); [discriminate|]. eapply A; eauto.
    + intros j Hj Hne. apply has_key_lookup in Hj as [v Hj]. apply has_key_lookup. exists v. rewrite lookup_drop_key.
      destruct (String.eqb j k) eqn:Eq; [|exact Hj]. apply String.eqb_eq in Eq as ->. exfalso. now apply (Hne w).
Qed.

Lemma hsel_inv U h w : hinv2 U h -> sinv U (hsel h w).
Proof. intros (A & B & C). unfold hsel, sinv. cbn [s_temp s_be]. destruct (Nat.eqb w 0); auto. Qed.
Lemma hupd_inv U h w s' : hinv2 U h -> sinv U s' -> hinv2 U (hupd h w s').
Proof. intros (A & B & C) [D F]. unfold hupd, hinv2. destruct (Nat.eqb w 0); cbn [t0 t1 hbe]; auto. Qed.
Lemma hupd_be h w s' : hbe (hupd h w s') = s_be s'.
Proof. unfold hupd. destruct (Nat.eqb w 0); reflexivity. Qed.

Lemma hrun2_inv U : gconsistent U -> forall ops h, hinv2 U h -> Forall keyed ops ->
  (forall o p, In o ops -> hop_pt o = Some p -> forall x, In x (nodes p) -> U x) ->
  hinv2 U (fst (hrun2 h ops)) /\
  forall j, has_key j (hbe h) = true -> ~ deletes ops j -> has_key j (hbe (fst (hrun2 h ops))) = true.
Proof.
  intros G. induction ops as [|o r IH]; intros h I K Hp; cbn [hrun2].
  - cbn. auto.
  - inversion K as [|? ? Ko Kr]; subst. unfold hop_step.
    destruct (sop (hsel h (hop_w o)) o) as [s'|] eqn:Es.
    + destruct (sop_inv U _ o s' G Ko (fun p Hop => Hp o p (or_introl eq_refl) Hop) (hsel_inv U h _ I) Es) as [I' Hk].
      specialize (IH (hupd h (hop_w o) s') (hupd_inv U h _ s' I I') Kr (fun o' p' H => Hp o' p' (or_intror H))).
      destruct (hrun2 (hupd h (hop_w o) s') r) as [h2 xs]. cbn [fst] in *. destruct IH as [I2 H2]. split; [exact I2|].
      intros j Hj Hd. apply H2.
      * rewrite hupd_be. apply Hk; [unfold hsel; cbn [s_be]; exact Hj|]. intros w ->. apply Hd. exists w. now left.
      * intros [w Hw]. apply Hd. exists w. now right.
    + specialize (IH h I Kr (fun o' p' H => Hp o' p' (or_intror H))).
      destruct (hrun2 h r) as [h2 xs]. cbn [fst] in *. destruct IH as [I2 H2]. split; [exact I2|].
      intros j Hj Hd. apply H2; [exact Hj|]. intros [w Hw]. apply Hd. exists w. now right.
Qed.

Lemma hrun2_app h a b : fst (hrun2 h (a ++ b)%list) = fst (hrun2 (fst (hrun2 h a)) b).
Proof.
  revert h. induction a as [|op r IH]; intros h; cbn [app hrun2]; [reflexivity|].
  destruct (hop_step h op) as [h1 o]. specialize (IH h1). destruct (hrun2 h1 (r ++ b)%list), (hrun2 h1 r). cbn [fst] in *. exact IH.
Qed.

(* ---- encoding P again restores everything below it that is not cached ------------------------------------------------- *)
Lemma overwrite_holds U s i P s' : oid_coherent U -> gconsistent U -> (forall x, In x (nodes P) -> U x) -> sinv U s ->
  pt_id P = Some i -> cached_complete s P -> overwrite_as s i P = Ok s' -> be_holds P (s_be s').
Proof.
  intros O G HP [TL A] Hi CC. unfold overwrite_as. destruct (visit s P []) as [t|] eqn:Ev; [|discriminate]. cbn [bind].
  intros [= <-]. unfold flush. cbn [s_be].
  set (t2 := tx_put t i (to_data P, P)).
  change (fold_left _ t2 (s_be s)) with (flush_be t2 (s_be s)).
  set (N := fun x => In x (descendants P)).
  assert (ND : forall x, N x -> In x (nodes P)) by (intros x Hx; rewrite nodes_cons; now right).
  assert (Ncons : forall a b k, N a -> N b -> pt_id a = Some k -> pt_id b = Some k -> a = b).
  { intros a b k Ha Hb. apply G; apply HP; auto. }
  assert (Hheap : forall j q c, In (j, q) (s_temp s) -> N c -> pt_oid q = pt_oid c -> q = c).
  { intros j q c Hq Hc. apply O; [|apply HP; auto]. apply (TL j q Hq). rewrite nodes_cons. now left. }
  assert (Htemp : forall j q, In (j, q) (s_temp s) -> N q -> be_holds q (s_be s)).
  { intros j q Hq Hn n k Hnn Hk. pose proof (CC j q Hq Hn n k Hnn Hk) as Hp. apply has_key_lookup in Hp as [d Hd].
    rewrite Hd. f_equal. eapply A; eauto; try (eapply TL; eauto). }
  assert (T0 : tx_ok s N []) by (split; [constructor|intros k e []]).
  destruct (visit_spec s N Ncons Hheap Htemp P (fun x Hx => Hx) [] t T0 Ev) as (O1 & L1 & C1).
  destruct O1 as [Nd He].
  assert (Nd2 : NoDup (map fst t2)) by (unfold t2; rewrite tx_put_put; now apply put_nodup).
  intros n k Hn Hk. rewrite lookup_flush_be by assumption. unfold t2. rewrite tx_put_put.
  destruct (String.eqb k i) eqn:Eq.
  - apply String.eqb_eq in Eq as ->. rewrite lookup_put_same. cbn [fst]. f_equal. f_equal.
    apply (G P n i); auto. apply HP. rewrite nodes_cons. now left.
  - apply String.eqb_neq in Eq. rewrite lookup_put_other by assumption.
    rewrite nodes_cons in Hn. destruct Hn as [<-|Hn]; [congruence|].
    destruct (C1 n Hn k Hk) as [H|H].
    + now rewrite H.
    + destruct (lookup k t) as [e|] eqn:El; [|exact H]. apply lookup_in in El.
      destruct (He k e El) as (H1 & H2 & H3 & _). rewrite H3. f_equal. f_equal. apply (Ncons (snd e) n k); auto.
Qed.

Lemma hrun2_cons_ok h o s' r : sop (hsel h (hop_w o)) o = Ok s' -> fst (hrun2 h (o :: r)) = fst (hrun2 (hupd h (hop_w o) s') r).
Proof. intros E. cbn [hrun2]. unfold hop_step. rewrite E. now destruct (hrun2 _ r). Qed.

Lemma history_ops : forall be0 ops pre o post w i P s',
  let U := live2 ops in
  oid_coherent U -> gconsistent U -> agrees U be0 -> Forall keyed ops ->
  ops = (pre ++ o :: post)%list -> wf P = true -> pt_id P = Some i ->
  let s1 := hsel (fst (hrun2 (empty_h be0) pre)) w in
  writes s1 o w i P -> sop s1 o = Ok s' -> cached_complete s1 P ->
  (forall n k, In n (nodes P) -> pt_id n = Some k -> ~ deletes post k) ->
  let be := hbe (fst (hrun2 (empty_h be0) ops)) in
  be_holds P be /\ exists p' st', load (length (nodes P)) be fresh_l i = Ok (p', st') /\ erase p' = erase P.
Proof.
  intros be0 ops pre o post w i P s' U HO G A0 K -> Hw Hi s1 W Es CC ND. cbn zeta.
  assert (Hall : forall o' p', In o' (pre ++ o :: post)%list -> hop_pt o' = Some p' -> forall x, In x (nodes p') -> U x).
  { intros o' p' H Hp x Hx. exists o', p'. auto. }
  apply Forall_app in K as [Kpre K]. inversion K as [|? ? Ko Kpost]; subst.
  assert (I0 : hinv2 U (empty_h be0)) by (split; [intros j q []|split; [intros j q []|exact A0]]).
  destruct (hrun2_inv U G pre (empty_h be0) I0 Kpre) as [I1 _].
  { intros o' p' H. apply Hall. apply in_or_app. now left. }
  set (h1 := fst (hrun2 (empty_h be0) pre)) in *.
  assert (Ww : hop_w o = w) by (destruct W as [->|[-> _]]; reflexivity).
  assert (HP : forall x, In x (nodes P) -> U x).
  { apply (Hall o P); [apply in_or_app; right; now left|]. destruct W as [->|[-> _]]; reflexivity. }
  assert (Eo : overwrite_as s1 i P = Ok s').
  { destruct W as [->|[-> Hn]]; cbn [sop] in Es; [exact Es|]. unfold store_as in Es. rewrite Hn in Es.
    destruct (has_key i (s_be s1)); [discriminate|exact Es]. }
  pose proof (hsel_inv U h1 w I1) as Is1. fold s1 in Is1.
  pose proof (overwrite_holds U s1 i P s' HO G HP Is1 Hi CC Eo) as Hb.
  destruct (over_inv U s1 i P s' G HP Hi Is1 Eo) as [Is' _].
  rewrite hrun2_app. fold h1. rewrite (hrun2_cons_ok h1 o s' post) by (rewrite Ww; exact Es). rewrite Ww.
  destruct (hrun2_inv U G post (hupd h1 w s') (hupd_inv U h1 w s' I1 Is') Kpost) as [I3 H3].
  { intros o' p' H. apply Hall. apply in_or_app. right. now right. }
  set (h3 := fst (hrun2 (hupd h1 w s') post)) in *.
  assert (Hb3 : be_holds P (hbe h3)).
  { intros n k Hn Hk. assert (Hp : has_key k (hbe h3) = true).
    { apply H3; [|now apply (ND n)]. rewrite hupd_be. apply has_key_lookup. eauto. }
    apply has_key_lookup in Hp as [d Hd]. rewrite Hd. f_equal. destruct I3 as (_ & _ & A3). eapply A3; eauto. }
  split; [exact Hb3|]. apply load_roundtrip; auto.
  intros n n' k Hn Hn'. apply G; auto.
Qed.
