(* C10 — interface semantics of the modelled templates: defined_channels, measurement_names, parameter_names of every class
   (qupulse/pulses/*_pulse_template.py, properties of the same names).  Definitions only.
   Expressions are opaque in the model; their free symbols come from an oracle table vt (expression string -> names),
   which the harness fills from sympy (text level is an oracle anyway).  A missing table entry yields a marker name so that
   a comparison fails instead of defaulting.  Sets are lists, compared as sets.  AbstractPT raises when a property was not
   declared: explicit error. *)
From Coq Require Import String List ZArith QArith Bool.
Require Import QV.C10.Model.
Import ListNotations.
Open Scope string_scope.

Section Iface.
Variable vt : list (string * list string).

Definition svars (s : string) : list string :=
  match lookup s vt with Some l => l | None => ["#missing:" ++ s] end.
Definition evars (e : expr) : list string := match e with EStr s => svars s | _ => [] end.
Definition vvars (v : vexpr) : list string := match v with VScalar e => evars e | VVec l => flat_map evars l end.
Definition entry_vars (e : tentry) : list string := let '(t, v, _) := e in (evars t ++ vvars v)%list.
Definition meas_params (m : list mdecl) : list string := flat_map (fun d => let '(_, b, l) := d in (evars b ++ evars l)%list) m.
Definition cstr_params (c : list string) : list string := flat_map svars c.
Definition meas_names (m : list mdecl) : list string := map (fun d => fst (fst d)) m.
Definition remove_s (x : string) (l : list string) : list string := filter (fun y => negb (String.eqb x y)) l.
Definition cdict_vars {K} (m : list (K * expr)) : list string := flat_map (fun ke => evars (snd ke)) m.

Definition chan_eqb (a b : chan) : bool :=
  match a, b with CS x, CS y => String.eqb x y | CI x, CI y => Z.eqb x y | _, _ => false end.
Fixpoint lookup_chan {A} (c : chan) (m : list (chan * A)) : option A :=
  match m with [] => None | (k, v) :: r => if chan_eqb c k then Some v else lookup_chan c r end.

Fixpoint concatM {A} (l : list (result (list A))) : result (list A) :=
  match l with
  | [] => Ok []
  | x :: r => do a <- x; do b <- concatM r; Ok (a ++ b)%list
  end.

(* parameter_names *)
Fixpoint params (p : pt) : result (list string) :=
  match p with
  | PTable _ e c m => Ok (flat_map (fun ce => flat_map entry_vars (snd ce)) e ++ cstr_params c ++ meas_params m)%list
  | PPoint _ pts _ c m => Ok (flat_map entry_vars pts ++ meas_params m ++ cstr_params c)%list
  | PFunc _ ex du _ c m => Ok (remove_s "t" (evars du ++ evars ex) ++ meas_params m ++ cstr_params c)%list
  | PConst _ _ du a m => Ok (cdict_vars a ++ evars du ++ meas_params m)%list
  | PSeq _ subs c m => do s <- concatM (map params subs); Ok (cstr_params c ++ meas_params m ++ s)%list
  | PRep _ b n c m => do s <- params b; Ok (s ++ cstr_params c ++ meas_params m ++ evars n)%list
  | PFor _ b i (ra, rb, rc) c m =>
      do s <- params b;
      (* set.remove(loop_index): KeyError when the body does not use the index *)
      if existsb (String.eqb i) s then Ok (remove_s i s ++ evars ra ++ evars rb ++ evars rc ++ cstr_params c ++ meas_params m)%list
      else Err EKey
  | PMap _ t pm _ _ c => do _ <- params t; Ok (flat_map (fun ke => evars (snd ke)) pm ++ cstr_params c)%list
  | PAmc _ subs c m du =>
      do s <- concatM (map params subs);
      Ok (meas_params m ++ cstr_params c ++ s ++ match du with Some d => evars d | None => [] end)%list
  | PPar _ t o => do s <- params t; Ok (s ++ remove_s "t" (cdict_vars o))%list
  | PArith _ t sc _ _ =>
      do s <- params t;
      Ok (s ++ remove_s "t" (match sc with SExpr e => evars e | SMap m => cdict_vars m end))%list
  | PAA _ l r _ m => do a <- params l; do b <- params r; Ok (a ++ b ++ meas_params m)%list
  | PRev _ t => params t
  | PAbs _ _ pn _ _ _ => match pn with Some l => Ok l | None => Err ERuntime end
  end.
End Iface.

(* measurement_names *)
Fixpoint mnames (p : pt) : result (list string) :=
  match p with
  | PTable _ _ _ m | PPoint _ _ _ _ m | PFunc _ _ _ _ _ m | PConst _ _ _ _ m => Ok (meas_names m)
  | PSeq _ subs _ m | PAmc _ subs _ m _ => do s <- concatM (map mnames subs); Ok (meas_names m ++ s)%list
  | PRep _ b _ _ m | PFor _ b _ _ _ m => do s <- mnames b; Ok (s ++ meas_names m)%list
  | PMap _ t _ mm _ _ => do _ <- mnames t; Ok (map snd mm)
  | PPar _ t _ | PArith _ t _ _ _ | PRev _ t => mnames t
  | PAA _ l r _ m => do a <- mnames l; do b <- mnames r; Ok (meas_names m ++ a ++ b)%list
  | PAbs _ _ _ mn _ _ => match mn with Some l => Ok l | None => Err ERuntime end
  end.

(* defined_channels *)
Fixpoint chans (p : pt) : result (list chan) :=
  match p with
  | PTable _ e _ _ => Ok (map fst e)
  | PPoint _ _ ch _ _ => Ok ch
  | PFunc _ _ _ ch _ _ => Ok [ch]
  | PConst _ _ _ a _ => Ok (map fst a)
  | PSeq _ subs _ _ => match subs with c :: _ => chans c | [] => Ok [] end
  | PRep _ b _ _ _ | PFor _ b _ _ _ _ | PRev _ b | PArith _ b _ _ _ => chans b
  | PMap _ t _ _ cm _ =>
      do s <- chans t;
      (* {channel_mapping[k] for k in template.defined_channels} - {None}: KeyError for an unmapped inner channel *)
      do l <- mapM (fun c => match lookup_chan c cm with Some o => Ok o | None => Err EKey end) s;
      Ok (flat_map (fun o => match o with Some c => [c] | None => [] end) l)
  | PAmc _ subs _ _ _ => concatM (map chans subs)
  | PPar _ t o => do s <- chans t; Ok (s ++ map fst o)%list
  | PAA _ l r _ _ => do a <- chans l; do b <- chans r; Ok (a ++ b)%list
  | PAbs _ ch _ _ _ _ => match ch with Some l => Ok l | None => Err ERuntime end
  end.

Record iface := mkIface { if_params : result (list string); if_mnames : result (list string); if_chans : result (list chan) }.
Definition iface_of (vt : list (string * list string)) (p : pt) : iface := mkIface (params vt p) (mnames p) (chans p).
