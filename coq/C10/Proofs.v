(* C10 — proofs. *)
From Coq Require Import String List ZArith QArith Bool.
Require Import QV.C10.Model.
Import ListNotations.
Open Scope string_scope.
