(* C10 — proofs. *)
From Coq Require Import String List ZArith QArith Bool Lia.
Require Import QV.C10.Model QV.C10.Spec.
Import ListNotations.
Open Scope string_scope.

(* ---- induction principle for the nested template type ------------------------------------------------------------- *)
Section PtInd.
  Variable P : pt -> Prop.
  Hypothesis HTable : forall h e c m, P (PTable h e c m).
  Hypothesis HPoint : forall h e ch c m, P (PPoint h e ch c m).
  Hypothesis HFunc : forall h ex du ch c m, P (PFunc h ex du ch c m).
  Hypothesis HConst : forall h n du a m, P (PConst h n du a m).
  Hypothesis HSeq : forall h subs c m, Forall P subs -> P (PSeq h subs c m).
  Hypothesis HRep : forall h b n c m, P b -> P (PRep h b n c m).
  Hypothesis HFor : forall h b i r c m, P b -> P (PFor h b i r c m).
  Hypothesis HMap : forall h t pm mm cm c, P t -> P (PMap h t pm mm cm c).
  Hypothesis HAmc : forall h subs c m du, Forall P subs -> P (PAmc h subs c m du).
  Hypothesis HPar : forall h t o, P t -> P (PPar h t o).
  Hypothesis HArith : forall h t sc l op, P t -> P (PArith h t sc l op).
  Hypothesis HAA : forall h l r op m, P l -> P r -> P (PAA h l r op m).
  Hypothesis HRev : forall h t, P t -> P (PRev h t).
  Hypothesis HAbs : forall h ch pn mn ig du, P (PAbs h ch pn mn ig du).
  Fixpoint pt_ind2 (p : pt) : P p :=
    let fix go (l : list pt) : Forall P l :=
      match l with [] => Forall_nil _ | x :: r => Forall_cons _ (pt_ind2 x) (go r) end in
    match p with
    | PTable h e c m => HTable h e c m
    | PPoint h e ch c m => HPoint h e ch c m
    | PFunc h ex du ch c m => HFunc h ex du ch c m
    | PConst h n du a m => HConst h n du a m
    | PSeq h subs c m => HSeq h subs c m (go subs)
    | PRep h b n c m => HRep h b n c m (pt_ind2 b)
    | PFor h b i r c m => HFor h b i r c m (pt_ind2 b)
    | PMap h t pm mm cm c => HMap h t pm mm cm c (pt_ind2 t)
    | PAmc h subs c m du => HAmc h subs c m du (go subs)
    | PPar h t o => HPar h t o (pt_ind2 t)
    | PArith h t sc l op => HArith h t sc l op (pt_ind2 t)
    | PAA h l r op m => HAA h l r op m (pt_ind2 l) (pt_ind2 r)
    | PRev h t => HRev h t (pt_ind2 t)
    | PAbs h ch pn mn ig du => HAbs h ch pn mn ig du
    end.
End PtInd.

(* ---- codecs -------------------------------------------------------------------------------------------------------- *)
Lemma mapM_map {A B C} (f : C -> result B) (g : A -> C) (h : A -> B) (l : list A) :
  (forall x, In x l -> f (g x) = Ok (h x)) -> mapM f (map g l) = Ok (map h l).
Proof.
  induction l as [|x r IH]; intros H; cbn; [reflexivity|].
  rewrite (H x (or_introl eq_refl)). cbn. rewrite IH; [reflexivity|]. intros; apply H; now right.
Qed.
Lemma mapM_map_id {A} (f : json -> result A) (g : A -> json) (l : list A) :
  (forall x, f (g x) = Ok x) -> mapM f (map g l) = Ok l.
Proof. intros H. rewrite (mapM_map f g (fun x => x)); [now rewrite map_id|auto]. Qed.

Lemma dec_enc_expr e : dec_expr (enc_expr e) = Ok e.
Proof. now destruct e. Qed.
Lemma dec_enc_vexpr v : dec_vexpr (enc_vexpr v) = Ok v.
Proof.
  destruct v as [e|l]; cbn.
  - destruct e; reflexivity.
  - rewrite mapM_map_id by apply dec_enc_expr. reflexivity.
Qed.
Lemma dec_enc_chan c : dec_chan (enc_chan c) = Ok c.
Proof. now destruct c. Qed.
Lemma dec_enc_ochan c : dec_ochan (enc_ochan c) = Ok c.
Proof. destruct c as [[|]|]; reflexivity. Qed.
Lemma dec_enc_interp i : dec_interp (enc_interp i) = Ok i.
Proof. now destruct i. Qed.
Lemma dec_enc_entry e : dec_entry (enc_entry e) = Ok e.
Proof.
  destruct e as [[t v] i]. cbn. rewrite dec_enc_expr, dec_enc_vexpr, dec_enc_interp. reflexivity.
Qed.
Lemma dec_enc_meas m : dec_meas (enc_meas m) = Ok m.
Proof. destruct m as [[n b] l]. cbn. now rewrite !dec_enc_expr. Qed.
Lemma dec_enc_measl l : dec_list dec_meas (enc_measl l) = Ok l.
Proof. apply mapM_map_id, dec_enc_meas. Qed.
Lemma dec_enc_strs l : dec_list dec_str (enc_strs l) = Ok l.
Proof. apply mapM_map_id. reflexivity. Qed.
Lemma dec_enc_entries l : dec_list dec_entry (JList (map enc_entry l)) = Ok l.
Proof. apply mapM_map_id, dec_enc_entry. Qed.
Lemma dec_enc_chans l : dec_list dec_chan (JList (map enc_chan l)) = Ok l.
Proof. apply mapM_map_id, dec_enc_chan. Qed.

Lemma str_keys_cs {A} (m : list (chan * A)) : str_keys m = true ->
  map (fun kv => (CS (key_chan (fst kv)), snd kv)) m = m.
Proof.
  induction m as [|[c a] r IH]; cbn; [reflexivity|]. intros H. apply andb_prop in H as [H1 H2].
  destruct c; [|discriminate]. cbn. now rewrite IH.
Qed.

Lemma dec_cdict_gen {A} (f : json -> result A) (g : A -> json) (m : list (chan * A)) :
  (forall x, f (g x) = Ok x) -> str_keys m = true ->
  dec_cdict f (JObj (map (fun ce => (key_chan (fst ce), g (snd ce))) m)) = Ok m.
Proof.
  intros Hf Hk. unfold dec_cdict, dec_dict. cbn.
  rewrite (mapM_map _ _ (fun ce : chan * A => (key_chan (fst ce), snd ce))).
  - cbn. rewrite map_map. cbn. now rewrite str_keys_cs.
  - intros [c a] _. cbn. now rewrite Hf.
Qed.
Lemma dec_enc_cdict m : str_keys m = true -> dec_cdict dec_expr (enc_cdict key_chan m) = Ok m.
Proof. apply dec_cdict_gen, dec_enc_expr. Qed.
Lemma dec_enc_cmap m : str_keys m = true -> dec_cdict dec_ochan (enc_cmap key_chan m) = Ok m.
Proof. apply dec_cdict_gen, dec_enc_ochan. Qed.
Lemma dec_enc_tentries m : str_keys m = true -> dec_cdict (dec_list dec_entry) (enc_entries key_chan m) = Ok m.
Proof. apply (dec_cdict_gen (dec_list dec_entry) (fun l => JList (map enc_entry l))), dec_enc_entries. Qed.

Lemma dec_dict_gen {A} (f : json -> result A) (g : A -> json) (m : list (string * A)) :
  (forall x, f (g x) = Ok x) ->
  dec_dict f (JObj (map (fun ke => (fst ke, g (snd ke))) m)) = Ok m.
Proof.
  intros Hf. unfold dec_dict. cbn. rewrite (mapM_map _ _ (fun ke : string * A => ke)).
  - now rewrite map_id.
  - intros [k a] _. cbn. now rewrite Hf.
Qed.
Lemma dec_enc_pmap m : dec_dict dec_expr (enc_pmap m) = Ok m.
Proof. apply dec_dict_gen, dec_enc_expr. Qed.
Lemma dec_enc_mmap m : dec_dict dec_str (enc_mmap m) = Ok m.
Proof. apply (dec_dict_gen dec_str JStr). reflexivity. Qed.

(* ---- values that the object hook leaves alone ----------------------------------------------------------------------- *)
Definition is_raw (v : json) : bool :=
  match v with
  | JObj vfs => negb (has_key K_TYPE vfs)
  | JList l => negb (negb (is_nil l) && forallb is_typed l)
  | _ => true
  end.
Lemma dec_field_raw D v st : is_raw v = true -> dec_field_val D v st = Ok (DRaw v, st).
Proof.
  destruct v; cbn; try reflexivity.
  - intros H. apply negb_true_iff in H. now rewrite H.
  - intros H. apply negb_true_iff in H. now rewrite H.
Qed.
Lemma raw_list {A} (g : A -> json) (l : list A) :
  (forall x, is_typed (g x) = false) -> is_raw (JList (map g l)) = true.
Proof. intros H. destruct l as [|x r]; cbn; [reflexivity|]. now rewrite H. Qed.
Lemma raw_expr e : is_raw (enc_expr e) = true. Proof. now destruct e. Qed.
Lemma raw_chan c : is_raw (enc_chan c) = true. Proof. now destruct c. Qed.
Lemma raw_strs l : is_raw (enc_strs l) = true. Proof. now apply raw_list. Qed.
Lemma raw_measl l : is_raw (enc_measl l) = true. Proof. apply raw_list. now intros [[? ?] ?]. Qed.
Lemma raw_entries l : is_raw (JList (map enc_entry l)) = true. Proof. apply raw_list. now intros [[? ?] ?]. Qed.
Lemma raw_chans l : is_raw (JList (map enc_chan l)) = true. Proof. apply raw_list. now intros []. Qed.

Lemma has_key_map_false {A B} (kf : A -> string) (g : A -> B) (m : list A) :
  forallb (fun a => negb (String.eqb (kf a) K_TYPE)) m = true ->
  has_key K_TYPE (map (fun a => (kf a, g a)) m) = false.
Proof.
  unfold has_key. induction m as [|a r IH]; [reflexivity|]. intros H. cbn [forallb] in H.
  apply andb_prop in H as [H1 H2]. apply negb_true_iff in H1. rewrite String.eqb_sym in H1.
  cbn [map lookup]. rewrite H1. now apply IH.
Qed.
Lemma str_keys_no_type {A} (m : list (chan * A)) : str_keys m = true ->
  forallb (fun a : chan * A => negb (String.eqb (key_chan (fst a)) K_TYPE)) m = true.
Proof.
  induction m as [|[c a] r IH]; cbn; [reflexivity|]. intros H. apply andb_prop in H as [H1 H2].
  destruct c; [|discriminate]. cbn. rewrite H1. now apply IH.
Qed.
Lemma raw_cdict {A} (g : A -> json) (m : list (chan * A)) : str_keys m = true ->
  is_raw (JObj (map (fun ce => (key_chan (fst ce), g (snd ce))) m)) = true.
Proof.
  intros H. cbn. apply negb_true_iff.
  apply (has_key_map_false (fun ce : chan * A => key_chan (fst ce)) (fun ce => g (snd ce))).
  now apply str_keys_no_type.
Qed.
Lemma raw_sdict {A} (g : A -> json) (m : list (string * A)) : ok_skeys m = true ->
  is_raw (JObj (map (fun ke => (fst ke, g (snd ke))) m)) = true.
Proof.
  intros H. cbn. apply negb_true_iff.
  now apply (has_key_map_false (fun ke : string * A => fst ke) (fun ke => g (snd ke))).
Qed.

(* ---- the decoder inverts the encoder (all classes, unbounded nesting) ------------------------------------------- *)
Definition bump (st : lstate) : lstate := mkL (N.succ (l_next st)) (l_cache st).

Lemma nodes_cons p : nodes p = p :: descendants p.
Proof. destruct p; reflexivity. Qed.

Lemma sub_typed c : is_typed (sub false to_data c) = true.
Proof. unfold sub. destruct (pt_id c); [reflexivity|]. destruct c; reflexivity. Qed.

Lemma decode_ref rs i st : decode rs (ref_node i) st = rs st i.
Proof. reflexivity. Qed.

Lemma opt_field_cases {A} k (enc : list A -> json) l :
  (l = [] /\ opt_field k enc l = []) \/ (opt_field k enc l = [(k, enc l)]).
Proof. destruct l; [left|right]; auto. Qed.

Lemma rawl_strs l : rawl dec_str (DRaw (enc_strs l)) = Ok l.
Proof. unfold rawl, enc_strs. apply dec_enc_strs. Qed.
Lemma rawl_meas l : rawl dec_meas (DRaw (enc_measl l)) = Ok l.
Proof. unfold rawl, enc_measl. apply dec_enc_measl. Qed.
Lemma some_expr e : some (raw dec_expr) (DRaw (enc_expr e)) = Ok (Some e).
Proof. destruct e; reflexivity. Qed.

Lemma raw_range a b c : is_raw (JList [enc_expr a; enc_expr b; enc_expr c]) = true.
Proof. now destruct a. Qed.
Lemma dec_enc_range a b c : dec_range (JList [enc_expr a; enc_expr b; enc_expr c]) = Ok (a, b, c).
Proof. cbn. now rewrite !dec_enc_expr. Qed.

Lemma anon_map_erase p : is_anon_map_without_constraints (erase p) = is_anon_map_without_constraints p.
Proof. now destruct p. Qed.
Lemma anon_map_sim c p : erase c = erase p -> negb (is_anon_map_without_constraints p) = true ->
  is_anon_map_without_constraints c = false.
Proof. intros E H. rewrite <- anon_map_erase, E, anon_map_erase. now apply negb_true_iff. Qed.

Definition scalar_ok (sc : scalar) : bool := match sc with SExpr _ => true | SMap m => str_keys m end.
Lemma raw_scalar sc : scalar_ok sc = true -> is_raw (enc_scalar key_chan sc) = true.
Proof. destruct sc; cbn [scalar_ok]; intros H; [apply raw_expr|now apply (raw_cdict enc_expr)]. Qed.
Lemma dscalar_ok sc : scalar_ok sc = true ->
  match enc_scalar key_chan sc with
  | JObj _ => do m <- dec_cdict dec_expr (enc_scalar key_chan sc); Ok (SMap m)
  | _ => do e <- dec_expr (enc_scalar key_chan sc); Ok (SExpr e)
  end = Ok sc.
Proof.
  destruct sc as [e|m]; cbn [scalar_ok]; intros H.
  - unfold enc_scalar. destruct e; reflexivity.
  - unfold enc_scalar. change (enc_cdict key_chan m) with (JObj (map (fun ce => (key_chan (fst ce), enc_expr (snd ce))) m)) at 1.
    cbv iota. change (JObj (map (fun ce => (key_chan (fst ce), enc_expr (snd ce))) m)) with (enc_cdict key_chan m).
    now rewrite dec_enc_cdict.
Qed.

Lemma some_chans l : some (raw (dec_list dec_chan)) (DRaw (JList (map enc_chan l))) = Ok (Some l).
Proof. unfold some, raw. now rewrite dec_enc_chans. Qed.
Lemma some_strs l : some (raw (dec_list dec_str)) (DRaw (enc_strs l)) = Ok (Some l).
Proof. unfold some, raw. change (enc_strs l) with (JList (map JStr l)) at 1. cbv iota. change (JList (map JStr l)) with (enc_strs l). now rewrite dec_enc_strs. Qed.
Lemma some_cdict m : str_keys m = true -> some (raw (dec_cdict dec_expr)) (DRaw (enc_cdict key_chan m)) = Ok (Some m).
Proof. intros H. unfold some, raw. change (enc_cdict key_chan m) with (JObj (map (fun ce => (key_chan (fst ce), enc_expr (snd ce))) m)) at 1.
  cbv iota. change (JObj (map (fun ce => (key_chan (fst ce), enc_expr (snd ce))) m)) with (enc_cdict key_chan m). now rewrite dec_enc_cdict. Qed.

Section Core.
Variable rs : resolver.
Variable Inv : lstate -> Prop.
(* Step: how the loader state may move during a decode; G st a: what is known about a node a of a returned object
   relative to the state (instantiated with "a named node is the cache entry of its identifier") *)
Variable Step : lstate -> lstate -> Prop.
Variable G : lstate -> pt -> Prop.
Hypothesis Inv_bump : forall st, Inv st -> Inv (bump st).
Hypothesis Step_trans : forall a b c, Step a b -> Step b c -> Step a c.
Hypothesis Step_bump : forall st, Step st (bump st).
Hypothesis G_mono : forall a b x, Step a b -> G a x -> G b x.
Hypothesis G_unnamed : forall st a, pt_id a = None -> G st a.

Definition res_ok (n : pt) : Prop :=
  forall i, pt_id n = Some i -> forall st, Inv st ->
  exists c' st', rs st i = Ok (c', st') /\ erase c' = erase n /\ Inv st' /\ Step st st' /\
                 forall a, In a (nodes c') -> G st' a.

(* decoding the document of p: the root is a new object, what is known concerns its descendants *)
Definition dec_ok (j : json) (p : pt) : Prop :=
  forall st, Inv st -> exists p' st', decode rs j st = Ok (p', st') /\ erase p' = erase p /\ Inv st' /\ Step st st' /\
                                      forall a, In a (descendants p') -> G st' a.
(* decoding a child position (reference or inline unnamed object) *)
Definition dec_ok_sub (j : json) (p : pt) : Prop :=
  forall st, Inv st -> exists p' st', decode rs j st = Ok (p', st') /\ erase p' = erase p /\ Inv st' /\ Step st st' /\
                                      forall a, In a (nodes p') -> G st' a.

Lemma erase_id a b : erase a = erase b -> pt_id a = pt_id b.
Proof. intros H. assert (pt_id (erase a) = pt_id (erase b)) by now rewrite H. now destruct a, b. Qed.

Lemma dec_sub c : Forall res_ok (nodes c) -> dec_ok (to_data c) c -> dec_ok_sub (sub false to_data c) c.
Proof.
  intros Hr IH. unfold sub. destruct (pt_id c) as [i|] eqn:E.
  - intros st Hst. rewrite decode_ref. rewrite nodes_cons in Hr. inversion Hr; subst. now apply H1.
  - intros st Hst. destruct (IH st Hst) as (p' & st' & E1 & Ee & Hi & Hs & Hg).
    exists p', st'. repeat (split; [assumption|]). intros a Ha. rewrite nodes_cons in Ha. destruct Ha as [<-|Ha]; [|auto].
    apply G_unnamed. rewrite (erase_id _ _ Ee). exact E.
Qed.

Lemma dec_elems_ok subs :
  subs <> [] -> Forall (fun c => dec_ok_sub (sub false to_data c) c) subs ->
  forall st, Inv st -> exists subs' st', dec_elems (decode rs) (map (sub false to_data) subs) st = Ok (subs', st')
                                          /\ map erase subs' = map erase subs /\ Inv st' /\ Step st st' /\
                                          forall a, In a (flat_map nodes subs') -> G st' a.
Proof.
  intros Hne H. induction H as [|c r Hc Hr IH]; [congruence|]. intros st Hst. cbn [map dec_elems].
  destruct (Hc st Hst) as (c' & st1 & E1 & Ee & H1 & S1 & G1). rewrite E1. cbn [bind].
  destruct r as [|c2 r2].
  - cbn. exists [c'], st1. cbn. rewrite Ee, app_nil_r. auto.
  - destruct (IH ltac:(discriminate) st1 H1) as (r' & st2 & E2 & Er & H2 & S2 & G2). rewrite E2. cbn [bind].
    exists (c' :: r'), st2. cbn [map flat_map]. rewrite Ee, Er. repeat (split; [eauto|]).
    intros a Ha. apply in_app_or in Ha as [Ha|Ha]; [eapply G_mono; eauto|auto].
Qed.

Lemma dec_field_sub c : dec_ok_sub (sub false to_data c) c ->
  forall st, Inv st -> exists c' st', dec_field_val (decode rs) (sub false to_data c) st = Ok (DSub c', st')
                                      /\ erase c' = erase c /\ Inv st' /\ Step st st' /\ forall a, In a (nodes c') -> G st' a.
Proof.
  intros H st Hst. destruct (H st Hst) as (c' & st' & E & Ee & Hi & Hs & Hg).
  pose proof (sub_typed c) as T. destruct (sub false to_data c) eqn:Es; try discriminate.
  cbn [is_typed] in T. cbn [dec_field_val]. rewrite T. rewrite E. cbn. eauto 8.
Qed.

Lemma dec_field_subs subs : subs <> [] ->
  Forall (fun c => dec_ok_sub (sub false to_data c) c) subs ->
  forall st, Inv st -> exists subs' st', dec_field_val (decode rs) (JList (map (sub false to_data) subs)) st = Ok (DSubs subs', st')
                                          /\ map erase subs' = map erase subs /\ Inv st' /\ Step st st' /\
                                          forall a, In a (flat_map nodes subs') -> G st' a.
Proof.
  intros Hne H st Hst. destruct (dec_elems_ok subs Hne H st Hst) as (s' & st' & E & Ee & Hi & Hs & Hg).
  cbn [dec_field_val].
  assert (negb (is_nil (map (sub false to_data) subs)) && forallb is_typed (map (sub false to_data) subs) = true) as ->.
  { assert (forallb is_typed (map (sub false to_data) subs) = true) as ->.
    { rewrite forallb_forall. intros x Hx. apply in_map_iff in Hx as (c & <- & _). apply sub_typed. }
    destruct subs; [congruence|reflexivity]. }
  rewrite E. cbn. eauto 8.
Qed.

Arguments enc_expr : simpl never.
Arguments enc_vexpr : simpl never.
Arguments enc_chan : simpl never.
Arguments enc_strs : simpl never.
Arguments enc_measl : simpl never.
Arguments enc_cdict : simpl never.
Arguments enc_entries : simpl never.
Arguments enc_pmap : simpl never.
Arguments enc_mmap : simpl never.
Arguments enc_cmap : simpl never.
Arguments enc_scalar : simpl never.
Arguments enc_entry : simpl never.
Arguments rawl : simpl never.
Arguments some : simpl never.
Arguments sub : simpl never.
Arguments to_data : simpl never.
Arguments dec_list : simpl never.
Arguments dec_cdict : simpl never.
Arguments dec_dict : simpl never.
Arguments dec_expr : simpl never.
Arguments dec_chan : simpl never.
Arguments dec_range : simpl never.

Ltac solve_raw :=
  first [ reflexivity | apply raw_expr | apply raw_chan | apply raw_strs | apply raw_measl | apply raw_entries
        | apply raw_chans | apply raw_range | apply raw_scalar; assumption
        | apply (raw_cdict enc_expr); assumption
        | apply (raw_cdict enc_ochan); assumption
        | apply (raw_cdict (fun l => JList (map enc_entry l))); assumption
        | apply (raw_sdict enc_expr); assumption
        | apply (raw_sdict JStr); assumption ].
Ltac raws := repeat (rewrite dec_field_raw by solve_raw; cbn [bind fst snd dec_fields]).
Ltac parsers :=
  repeat (first [ rewrite dec_enc_expr | rewrite rawl_strs | rewrite rawl_meas | rewrite dec_enc_chan
                | rewrite dec_enc_range | rewrite some_chans | rewrite some_strs | rewrite some_cdict by assumption | rewrite dec_enc_entries | rewrite dec_enc_chans | rewrite some_expr
                | rewrite dec_enc_cdict by assumption | rewrite dec_enc_cmap by assumption
                | rewrite dec_enc_tentries by assumption | rewrite dec_enc_pmap | rewrite dec_enc_mmap ];
          cbn [bind]).
Ltac optf k enc l := destruct (opt_field_cases k enc l) as [[-> ->]| ->].
Ltac split_and := repeat match goal with H : _ && _ = true |- _ => apply andb_prop in H as [? ?] end.
Ltac close := cbn [erase]; unfold eh; cbn [h_id]; congruence.
Ltac step := repeat (eapply Step_trans; [eassumption|]); apply Step_bump.
Ltac gdesc := let a := fresh "a" in let Ha := fresh "Ha" in
  intros a Ha; unfold descendants in Ha; cbn [nodes tl] in Ha;
  first [ contradiction
        | apply in_app_or in Ha as [Ha|Ha]; (eapply G_mono; [|eauto]); step
        | (eapply G_mono; [|eauto]); step ].
Ltac done_ok := eexists; eexists; split; [reflexivity|split; [|split; [apply Inv_bump; assumption|split; [step|gdesc]]]].

Lemma nonnil {A} (l : list A) : negb (is_nil l) = true -> l <> [].
Proof. destruct l; [discriminate|congruence]. Qed.
Lemma nonnil_b {A} (l : list A) : negb (is_nil l) = true -> is_nil l = false.
Proof. now destruct l. Qed.

Lemma is_nil_map_eq {A B} (f : A -> B) (a b : list A) : map f a = map f b -> is_nil a = is_nil b.
Proof. destruct a, b; cbn; congruence. Qed.

Lemma table_nonempty (e : list (chan * list tentry)) :
  negb (is_nil e) = true -> forallb (fun ce => negb (is_nil (snd ce))) e = true ->
  is_nil e || existsb (fun ce => is_nil (snd ce)) e = false.
Proof.
  intros H1 H2. apply negb_true_iff in H1. rewrite H1. cbn [orb]. clear H1.
  induction e as [|x r IH]; [reflexivity|]. cbn [forallb existsb] in *. apply andb_prop in H2 as [Ha Hb].
  apply negb_true_iff in Ha. rewrite Ha. cbn [orb]. now apply IH.
Qed.

Ltac hdr_split h :=
  unfold to_data; cbn [to_data_gen tag_of pt_hdr]; change (to_data_gen key_chan false) with to_data;
  let oid := fresh "oid" in let ident := fresh "ident" in destruct h as [oid [ident|]]; cbn [hdr_fields h_id app decode dec_fields fst snd].
Ltac named_nonempty := try match goal with H : ok_id {| h_oid := _; h_id := Some ?i |} = true |- _ => destruct i; [discriminate H|] end.
Ltac fin := named_nonempty; cbn; parsers.
Ltac use_sub Hc st Hst :=
  let c' := fresh "c'" in let st1 := fresh "st1" in let E := fresh "E" in let Ee := fresh "Ee" in let Hi := fresh "Hi" in
  let Hs := fresh "Hs" in let Hg := fresh "Hg" in
  destruct (dec_field_sub _ Hc st Hst) as (c' & st1 & E & Ee & Hi & Hs & Hg); rewrite E; cbn [bind fst snd dec_fields].
Ltac use_subs Hne Hc st Hst :=
  let c' := fresh "s'" in let st1 := fresh "st1" in let E := fresh "E" in let Ee := fresh "Ee" in let Hi := fresh "Hi" in
  let Hs := fresh "Hs" in let Hg := fresh "Hg" in
  destruct (dec_field_subs _ Hne Hc st Hst) as (c' & st1 & E & Ee & Hi & Hs & Hg); rewrite E; cbn [bind fst snd dec_fields].

Ltac use_subsN subs Hc st Hst := match goal with Hn : negb (is_nil subs) = true |- _ => use_subs (nonnil _ Hn) Hc st Hst end.

Lemma child_ok c : (wf c = true -> Forall res_ok (descendants c) -> dec_ok (to_data c) c) ->
  wf c = true -> Forall res_ok (nodes c) -> dec_ok_sub (sub false to_data c) c.
Proof.
  intros IH Hw Hr. apply dec_sub; [exact Hr|]. apply IH; [exact Hw|]. rewrite nodes_cons in Hr. now inversion Hr.
Qed.

Lemma children_ok subs :
  Forall (fun c => wf c = true -> Forall res_ok (descendants c) -> dec_ok (to_data c) c) subs ->
  forallb wf subs = true -> Forall res_ok (flat_map nodes subs) ->
  Forall (fun c => dec_ok_sub (sub false to_data c) c) subs.
Proof.
  induction 1 as [|c r Hc Hr IH]; intros Hw Hres; [constructor|].
  cbn in Hw, Hres. apply andb_prop in Hw as [Hw1 Hw2]. apply Forall_app in Hres as [R1 R2].
  constructor; [now apply child_ok|now apply IH].
Qed.

Lemma XXnonnil {A} (l : list A) : negb (is_nil l) = true -> l <> [].
Proof. destruct l; [discriminate|congruence]. Qed.
Lemma XXnonnil_b {A} (l : list A) : negb (is_nil l) = true -> is_nil l = false.
Proof. now destruct l. Qed.

Lemma decode_core : forall p, wf p = true -> Forall res_ok (descendants p) -> dec_ok (to_data p) p.
Proof.
  induction p using pt_ind2; intros Hwf Hres st Hst; cbn [wf pt_hdr] in Hwf; split_and.
  - (* Table *)
    hdr_split h; raws; fin; rewrite table_nonempty by assumption; cbn [bind]; done_ok; reflexivity.
  - (* Point *)
    hdr_split h; optf "parameter_constraints" enc_strs c; optf "measurements" enc_measl m;
      cbn [app dec_fields fst snd]; raws; fin; done_ok; reflexivity.
  - (* Function *)
    hdr_split h; raws; fin; done_ok; reflexivity.
  - (* Constant *)
    hdr_split h; raws; fin; done_ok; reflexivity.
  - (* Sequence *)
    assert (Hc : Forall (fun c => dec_ok_sub (sub false to_data c) c) subs) by (apply children_ok; auto).
    hdr_split h; optf "parameter_constraints" enc_strs c; optf "measurements" enc_measl m;
      cbn [app dec_fields fst snd]; raws; use_subsN subs Hc st Hst; raws; fin.
    all: match goal with Hn : negb (is_nil ?l) = true, Ee : map erase ?s = map erase ?l |- _ =>
                rewrite (is_nil_map_eq _ _ _ Ee), (nonnil_b _ Hn) end; cbn [bind]; done_ok; close.
  - (* Repetition *)
    assert (Hc : dec_ok_sub (sub false to_data p) p) by (apply child_ok; auto).
    hdr_split h; optf "parameter_constraints" enc_strs c; optf "measurements" enc_measl m;
      cbn [app dec_fields fst snd]; raws; use_sub Hc st Hst; raws; fin; done_ok; close.
  - (* ForLoop *)
    assert (Hc : dec_ok_sub (sub false to_data p) p) by (apply child_ok; auto).
    destruct r as [[ra rb] rc].
    hdr_split h; optf "parameter_constraints" enc_strs c; optf "measurements" enc_measl m;
      cbn [app dec_fields fst snd]; raws; use_sub Hc st Hst; raws; fin; done_ok; close.
  - (* Mapping *)
    assert (Hc : dec_ok_sub (sub false to_data p) p) by (apply child_ok; auto).
    hdr_split h; optf "parameter_mapping" enc_pmap pm; optf "measurement_mapping" enc_mmap mm;
      optf "channel_mapping" (enc_cmap key_chan) cm; optf "parameter_constraints" enc_strs c;
      cbn [app dec_fields fst snd]; raws; use_sub Hc st Hst; raws; fin.
    all: match goal with Ee : erase ?c = erase ?p, Hn : negb (is_anon_map_without_constraints ?p) = true |- _ =>
           rewrite (anon_map_sim _ _ Ee Hn) end; cbn [bind]; done_ok; close.
  - (* AtomicMulti *)
    assert (Hc : Forall (fun c => dec_ok_sub (sub false to_data c) c) subs) by (apply children_ok; auto).
    hdr_split h; optf "parameter_constraints" enc_strs c; optf "measurements" enc_measl m; destruct du as [du|];
      cbn [some_field app dec_fields fst snd]; raws; use_subsN subs Hc st Hst; raws; fin.
    all: match goal with Hn : negb (is_nil ?l) = true, Ee : map erase ?s = map erase ?l |- _ =>
                rewrite (is_nil_map_eq _ _ _ Ee), (nonnil_b _ Hn) end; cbn [bind]; done_ok; close.
  - (* Parallel *)
    assert (Hc : dec_ok_sub (sub false to_data p) p) by (apply child_ok; auto).
    hdr_split h; raws; use_sub Hc st Hst; raws; fin; done_ok; close.
  - (* Arithmetic *)
    assert (Hc : dec_ok_sub (sub false to_data p) p) by (apply child_ok; auto).
    change (match sc with SExpr _ => true | SMap m => str_keys m end) with (scalar_ok sc) in *.
    hdr_split h; destruct l; cbn [app dec_fields fst snd]; raws; use_sub Hc st Hst; raws; fin;
      rewrite dscalar_ok by assumption; cbn [bind]; done_ok; close.
  - (* ArithmeticAtomic *)
    cbn [descendants nodes tl] in Hres. apply Forall_app in Hres as [R1 R2].
    assert (Hc1 : dec_ok_sub (sub false to_data p1) p1) by (apply child_ok; auto).
    assert (Hc2 : dec_ok_sub (sub false to_data p2) p2) by (apply child_ok; auto).
    hdr_split h; optf "measurements" enc_measl m; cbn [app dec_fields fst snd]; raws.
    all: destruct (dec_field_sub _ Hc2 st Hst) as (c2 & st2 & E2 & Ee2 & Hi2 & Hs2 & Hg2); rewrite E2; cbn [bind fst snd dec_fields].
    all: destruct (dec_field_sub _ Hc1 st2 Hi2) as (c1 & st3 & E1 & Ee1 & Hi1 & Hs1 & Hg1); rewrite E1; cbn [bind fst snd dec_fields].
    all: raws; fin; done_ok; close.
  - (* TimeReversal *)
    assert (Hc : dec_ok_sub (sub false to_data p) p) by (apply child_ok; auto).
    hdr_split h; raws; use_sub Hc st Hst; raws; fin; done_ok; close.
  - (* Abstract *)
    hdr_split h; destruct ch, pn, mn, ig, du; cbn [some_field app dec_fields fst snd]; raws; fin; done_ok; reflexivity.
Qed.
End Core.

Local Open Scope nat_scope.
Ltac split_and := repeat match goal with H : _ && _ = true |- _ => apply andb_prop in H as [? ?] end.

(* ---- structure of nodes ---------------------------------------------------------------------------------------------- *)
Lemma in_flat_nodes (subs : list pt) m : In m (flat_map nodes subs) <-> exists c, In c subs /\ In m (nodes c).
Proof. apply in_flat_map. Qed.

Lemma nodes_trans : forall p x y, In x (nodes p) -> In y (nodes x) -> In y (nodes p).
Proof.
  induction p using pt_ind2; intros x y Hn Hm; cbn [nodes] in Hn; destruct Hn as [<-|Hn]; try exact Hm; try contradiction;
    cbn [nodes]; right.
  - apply in_flat_map in Hn as (c0 & Hc & Hn). apply in_flat_map. exists c0. split; [exact Hc|].
    rewrite Forall_forall in H. eapply H; eauto.
  - eauto.
  - eauto.
  - eauto.
  - apply in_flat_map in Hn as (c0 & Hc & Hn). apply in_flat_map. exists c0. split; [exact Hc|].
    rewrite Forall_forall in H. eapply H; eauto.
  - eauto.
  - eauto.
  - apply in_app_or in Hn as [Hn|Hn]; apply in_or_app; [left|right]; eauto.
  - eauto.
Qed.

Lemma size_le : forall p x, In x (nodes p) -> length (nodes x) <= length (nodes p).
Proof.
  induction p using pt_ind2; intros x Hn; cbn [nodes] in Hn; destruct Hn as [<-|Hn]; try lia; try contradiction;
    cbn [nodes length].
  - apply in_flat_map in Hn as (c0 & Hc & Hn). rewrite Forall_forall in H. specialize (H c0 Hc x Hn).
    assert (length (nodes c0) <= length (flat_map nodes subs)).
    { clear -Hc. induction subs as [|x r IH]; [destruct Hc|]. cbn. rewrite app_length. destruct Hc as [->|Hc]; [lia|]. specialize (IH Hc). lia. }
    lia.
  - specialize (IHp x Hn). lia.
  - specialize (IHp x Hn). lia.
  - specialize (IHp x Hn). lia.
  - apply in_flat_map in Hn as (c0 & Hc & Hn). rewrite Forall_forall in H. specialize (H c0 Hc x Hn).
    assert (length (nodes c0) <= length (flat_map nodes subs)).
    { clear -Hc. induction subs as [|x r IH]; [destruct Hc|]. cbn. rewrite app_length. destruct Hc as [->|Hc]; [lia|]. specialize (IH Hc). lia. }
    lia.
  - specialize (IHp x Hn). lia.
  - specialize (IHp x Hn). lia.
  - rewrite app_length. apply in_app_or in Hn as [Hn|Hn]; [specialize (IHp1 x Hn)|specialize (IHp2 x Hn)]; lia.
  - specialize (IHp x Hn). lia.
Qed.

Lemma size_lt n m : In m (descendants n) -> length (nodes m) < length (nodes n).
Proof.
  intros H. rewrite (nodes_cons n). cbn [length].
  assert (length (nodes m) <= length (descendants n)); [|lia].
  unfold descendants in *. destruct n; cbn [nodes tl] in *; try contradiction.
  - apply in_flat_map in H as (c & Hc & Hn). pose proof (size_le c m Hn).
    assert (length (nodes c) <= length (flat_map nodes subs)); [|lia].
    clear -Hc. induction subs as [|x r IH]; [destruct Hc|]. cbn. rewrite app_length. destruct Hc as [->|Hc]; [lia|]. specialize (IH Hc). lia.
  - now apply size_le.
  - now apply size_le.
  - now apply size_le.
  - apply in_flat_map in H as (c & Hc & Hn). pose proof (size_le c m Hn).
    assert (length (nodes c) <= length (flat_map nodes subs)); [|lia].
    clear -Hc. induction subs as [|x r IH]; [destruct Hc|]. cbn. rewrite app_length. destruct Hc as [->|Hc]; [lia|]. specialize (IH Hc). lia.
  - now apply size_le.
  - now apply size_le.
  - rewrite app_length. apply in_app_or in H as [H|H]; apply size_le in H; lia.
  - now apply size_le.
Qed.

Lemma wf_nodes : forall p, wf p = true -> forall x, In x (nodes p) -> wf x = true.
Proof.
  induction p using pt_ind2; intros Hw x Hn; cbn [nodes] in Hn; destruct Hn as [<-|Hn]; try exact Hw; try contradiction;
    cbn [wf pt_hdr] in Hw; split_and.
  - apply in_flat_map in Hn as (c0 & Hc & Hn). rewrite Forall_forall in H. eapply H; eauto.
    rewrite forallb_forall in *. auto.
  - eauto.
  - eauto.
  - eauto.
  - apply in_flat_map in Hn as (c0 & Hc & Hn). rewrite Forall_forall in H. eapply H; eauto.
    rewrite forallb_forall in *. auto.
  - eauto.
  - eauto.
  - apply in_app_or in Hn as [Hn|Hn]; eauto.
  - eauto.
Qed.

(* ---- loading through a fresh PulseStorage ---------------------------------------------------------------------------- *)
Definition cache_ok (P : pt) (st : lstate) : Prop :=
  forall i q, lookup i (l_cache st) = Some q -> exists n, In n (nodes P) /\ pt_id n = Some i /\ erase q = erase n.

Lemma load_ok P be : wf P = true -> consistent P -> be_holds P be ->
  forall f n i, In n (nodes P) -> pt_id n = Some i -> length (nodes n) <= f ->
  forall st, cache_ok P st ->
  exists q st', load f be st i = Ok (q, st') /\ erase q = erase n /\ cache_ok P st'.
Proof.
  intros HW HC HB. induction f as [|f IH]; intros n i Hn Hi Hf st Hst.
  - rewrite nodes_cons in Hf. cbn in Hf. lia.
  - cbn [load]. destruct (lookup i (l_cache st)) as [q|] eqn:EL.
    + destruct (Hst i q EL) as (n0 & Hn0 & Hi0 & He). rewrite (HC n n0 i Hn Hn0 Hi Hi0). eauto.
    + rewrite (HB n i Hn Hi).
      destruct (decode_core (load f be) (cache_ok P) (fun _ _ => True) (fun _ _ => True)) with (p := n) (st := st)
        as (p' & st' & E & Ee & Hi' & _); auto.
      * eapply wf_nodes; eauto.
      * apply Forall_forall. intros m Hm j Hj s Hs.
        destruct (IH m j) with (st := s) as (q & s' & E1 & E2 & E3); auto.
        -- eapply nodes_trans; eauto. rewrite nodes_cons. now right.
        -- apply size_lt in Hm. lia.
        -- exists q, s'. auto.
      * rewrite E. cbn [bind]. eexists; eexists; split; [reflexivity|split; [exact Ee|]].
        intros j q. cbn [l_cache lookup]. destruct (String.eqb j i) eqn:Eji.
        -- apply String.eqb_eq in Eji as ->. intros [= <-]. eauto.
        -- apply Hi'.
Qed.

(* ---- the theorems of Props.v ---------------------------------------------------------------------------------------- *)
Lemma roundtrip_node p rs : wf p = true ->
  (forall n i, In n (descendants p) -> pt_id n = Some i -> forall st, rs st i = Ok (n, st)) ->
  forall st, exists p' st', decode rs (to_data p) st = Ok (p', st') /\ erase p' = erase p.
Proof.
  intros Hw Hr st.
  destruct (decode_core rs (fun _ => True) (fun _ _ => True) (fun _ _ => True)) with (p := p) (st := st)
    as (p' & st' & E & Ee & _); auto.
  - apply Forall_forall. intros n Hn i Hi s _. exists n, s. rewrite (Hr n i Hn Hi s). auto.
  - eauto.
Qed.

Lemma load_roundtrip P be i : wf P = true -> consistent P -> be_holds P be -> pt_id P = Some i ->
  exists p' st', load (length (nodes P)) be fresh_l i = Ok (p', st') /\ erase p' = erase P.
Proof.
  intros Hw Hc Hb Hi.
  destruct (load_ok P be Hw Hc Hb (length (nodes P)) P i) with (st := fresh_l) as (q & st' & E & Ee & _); auto.
  - rewrite nodes_cons. now left.
  - intros j q. cbn. discriminate.
  - eauto.
Qed.

(* every identifier that occurs in the loaded object is served from the temporary storage afterwards *)
Lemma load_cached P be : wf P = true -> consistent P -> be_holds P be ->
  forall f n i, In n (nodes P) -> pt_id n = Some i -> length (nodes n) <= f ->
  forall st, cache_ok P st -> forall q st', load f be st i = Ok (q, st') -> lookup i (l_cache st') = Some q.
Proof.
  intros Hw Hc Hb f n i Hn Hi Hf st Hst q st' E. destruct f as [|f]; cbn [load] in E.
  - destruct (lookup i (l_cache st)) eqn:EL; [|discriminate]. injection E as <- <-. exact EL.
  - destruct (lookup i (l_cache st)) eqn:EL; [injection E as <- <-; exact EL|].
    destruct (lookup i be); [|discriminate].
    destruct (decode (load f be) j st) as [[p1 s1]|]; [|discriminate]. cbn in E. injection E as <- <-.
    cbn. now rewrite String.eqb_refl.
Qed.

(* ---- stored documents never embed a named template --------------------------------------------------------------- *)
Notation nin := no_inline_named.
Lemma nin_expr e : nin (enc_expr e) = true. Proof. now destruct e. Qed.
Lemma nin_list {A} (g : A -> json) l : (forall x, nin (g x) = true) -> nin (JList (map g l)) = true.
Proof. intros H. cbn. induction l; cbn; [reflexivity|]. now rewrite H. Qed.
Lemma nin_vexpr v : nin (enc_vexpr v) = true.
Proof. destruct v; [apply nin_expr|]. apply nin_list, nin_expr. Qed.
Lemma nin_chan c : nin (enc_chan c) = true. Proof. now destruct c. Qed.
Lemma nin_ochan c : nin (enc_ochan c) = true. Proof. destruct c as [[|]|]; reflexivity. Qed.
Lemma nin_entry e : nin (enc_entry e) = true.
Proof. destruct e as [[t v] i]. unfold enc_entry. cbn. rewrite nin_expr, nin_vexpr. now destruct i. Qed.
Lemma nin_entries l : nin (JList (map enc_entry l)) = true. Proof. apply nin_list, nin_entry. Qed.
Lemma nin_meas m : nin (enc_meas m) = true.
Proof. destruct m as [[n b] l]. unfold enc_meas. cbn. now rewrite !nin_expr. Qed.
Lemma nin_measl l : nin (enc_measl l) = true. Proof. apply nin_list, nin_meas. Qed.
Lemma nin_strs l : nin (enc_strs l) = true. Proof. now apply nin_list. Qed.
Lemma nin_chans l : nin (JList (map enc_chan l)) = true. Proof. apply nin_list, nin_chan. Qed.

Lemma nin_obj {A} (kf : A -> string) (g : A -> json) (m : list A) :
  forallb (fun a => negb (String.eqb (kf a) K_TYPE)) m = true -> (forall x, nin (g x) = true) ->
  nin (JObj (map (fun a => (kf a, g a)) m)) = true.
Proof.
  intros Hk Hg. cbn [no_inline_named].
  pose proof (has_key_map_false kf g m Hk) as Hh. unfold has_key in Hh.
  destruct (lookup K_TYPE (map (fun a => (kf a, g a)) m)); [discriminate|]. cbn [andb].
  clear -Hg. induction m; cbn; [reflexivity|]. now rewrite Hg.
Qed.
Lemma nin_cdict {A} (g : A -> json) (m : list (chan * A)) : str_keys m = true -> (forall x, nin (g x) = true) ->
  nin (JObj (map (fun ce => (key_chan (fst ce), g (snd ce))) m)) = true.
Proof.
  intros H Hg. apply (nin_obj (fun ce : chan * A => key_chan (fst ce)) (fun ce => g (snd ce))); [now apply str_keys_no_type|auto].
Qed.
Lemma nin_sdict {A} (g : A -> json) (m : list (string * A)) : ok_skeys m = true -> (forall x, nin (g x) = true) ->
  nin (JObj (map (fun ke => (fst ke, g (snd ke))) m)) = true.
Proof. intros H Hg. apply (nin_obj (fun ke : string * A => fst ke) (fun ke => g (snd ke))); auto. Qed.

Lemma nin_tentries e : str_keys e = true -> nin (enc_entries key_chan e) = true.
Proof. intros. apply (nin_cdict (fun l => JList (map enc_entry l))); auto using nin_entries. Qed.
Lemma nin_ecdict m : str_keys m = true -> nin (enc_cdict key_chan m) = true.
Proof. intros. apply (nin_cdict enc_expr); auto using nin_expr. Qed.
Lemma nin_cmap m : str_keys m = true -> nin (enc_cmap key_chan m) = true.
Proof. intros. apply (nin_cdict enc_ochan); auto using nin_ochan. Qed.
Lemma nin_pmap m : ok_skeys m = true -> nin (enc_pmap m) = true.
Proof. intros. apply (nin_sdict enc_expr); auto using nin_expr. Qed.
Lemma nin_mmap m : ok_skeys m = true -> nin (enc_mmap m) = true.
Proof. intros. now apply (nin_sdict JStr). Qed.
Lemma nin_scalar sc : scalar_ok sc = true -> nin (enc_scalar key_chan sc) = true.
Proof. destruct sc; cbn [scalar_ok enc_scalar]; intros; [apply nin_expr|now apply nin_ecdict]. Qed.
Lemma nin_range a b c : nin (JList [enc_expr a; enc_expr b; enc_expr c]) = true.
Proof. cbn. now rewrite !nin_expr. Qed.

Definition fields_ok (p : pt) : Prop :=
  doc_fields_ok (to_data p) = true /\ (pt_id p = None -> nin (to_data p) = true).

Lemma sub_nin c : fields_ok c -> nin (sub false to_data c) = true.
Proof. intros [_ H]. unfold sub. destruct (pt_id c); [reflexivity|auto]. Qed.

Lemma nin_subs subs : Forall fields_ok subs -> nin (JList (map (sub false to_data) subs)) = true.
Proof. intros H. cbn. induction H; cbn; [reflexivity|]. now rewrite sub_nin. Qed.

Ltac nins :=
  repeat first [ rewrite nin_expr | rewrite nin_strs | rewrite nin_measl | rewrite nin_entries | rewrite nin_chans
               | rewrite nin_chan | rewrite nin_range
               | rewrite nin_tentries by assumption | rewrite nin_ecdict by assumption | rewrite nin_cmap by assumption
               | rewrite nin_pmap by assumption | rewrite nin_mmap by assumption | rewrite nin_scalar by assumption
               | rewrite sub_nin by assumption | rewrite nin_subs by assumption ].

Ltac hd h := unfold fields_ok, doc_fields_ok, to_data; cbn [to_data_gen tag_of pt_hdr pt_id]; change (to_data_gen key_chan false) with to_data;
  destruct h as [? [?|]]; cbn [hdr_fields h_id h_oid app].
Ltac fo k enc l := destruct (opt_field_cases k enc l) as [[-> ->]| ->].

Lemma nin_str s : nin (JStr s) = true. Proof. reflexivity. Qed.
Lemma nin_obj_intro fs :
  match lookup K_TYPE fs with
  | Some (JStr t) => String.eqb t T_REF || negb (has_key K_ID fs)
  | Some _ => false
  | None => true
  end = true -> forallb (fun kv => nin (snd kv)) fs = true -> nin (JObj fs) = true.
Proof. intros H1 H2. cbn [no_inline_named]. now rewrite H1, H2. Qed.
Ltac atoms := cbn [forallb snd fst andb]; repeat rewrite nin_str; nins; reflexivity.
Ltac go := split; [atoms | let Hn := fresh in intros Hn; first [discriminate Hn | apply nin_obj_intro; [reflexivity|atoms]]].

Lemma documents_ok : forall p, wf p = true -> fields_ok p.
Proof.
  induction p using pt_ind2; intros Hwf; cbn [wf pt_hdr] in Hwf; split_and.
  - hd h; go.
  - hd h; fo "parameter_constraints" enc_strs c; fo "measurements" enc_measl m; cbn [app]; go.
  - hd h; go.
  - hd h; go.
  - assert (Hc : Forall fields_ok subs).
    { rewrite Forall_forall in *. rewrite forallb_forall in *. auto. }
    hd h; fo "parameter_constraints" enc_strs c; fo "measurements" enc_measl m; cbn [app]; go.
  - specialize (IHp ltac:(assumption)). hd h; fo "parameter_constraints" enc_strs c; fo "measurements" enc_measl m; cbn [app]; go.
  - specialize (IHp ltac:(assumption)). destruct r as [[ra rb] rc].
    hd h; fo "parameter_constraints" enc_strs c; fo "measurements" enc_measl m; cbn [app]; go.
  - specialize (IHp ltac:(assumption)).
    hd h; fo "parameter_mapping" enc_pmap pm; fo "measurement_mapping" enc_mmap mm;
      fo "channel_mapping" (enc_cmap key_chan) cm; fo "parameter_constraints" enc_strs c; cbn [app]; go.
  - assert (Hc : Forall fields_ok subs).
    { rewrite Forall_forall in *. rewrite forallb_forall in *. auto. }
    hd h; fo "parameter_constraints" enc_strs c; fo "measurements" enc_measl m; destruct du; cbn [some_field app]; go.
  - specialize (IHp ltac:(assumption)). hd h; go.
  - specialize (IHp ltac:(assumption)).
    change (match sc with SExpr _ => true | SMap m => str_keys m end) with (scalar_ok sc) in *.
    hd h; destruct l; cbn [app]; go.
  - specialize (IHp1 ltac:(assumption)). specialize (IHp2 ltac:(assumption)).
    hd h; fo "measurements" enc_measl m; cbn [app]; go.
  - specialize (IHp ltac:(assumption)). hd h; go.
  - hd h; destruct ch, pn, mn, ig, du; cbn [some_field app]; go.
Qed.
