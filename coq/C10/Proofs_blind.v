(* C10 — round 6: what "the same pulse" gives for observations the model has no function for.
   (1) the serialised form does not read object identities: to_data_gen kc inline (erase p) = to_data_gen kc inline p for
       every key rendering and both child modes, hence for the real encoder (to_data) and for the comparison form (repr).
       `==` of the real classes compares get_serialization_data: the loaded pulse is == the original in the code's own
       sense, and storing it again writes the same documents.
   (2) ANY observation that does not read object identities (obs (erase p) = obs p; a program semantics that is a function
       of the constructor state is one) takes the same value on the loaded pulse. *)
From Coq Require Import String List ZArith QArith Bool.
Require Import QV.C10.Model QV.C10.Spec QV.C10.Iface QV.C10.Hist QV.C10.Dur QV.C10.Tx QV.C10.Proofs QV.C10.Proofs_store
  QV.C10.Proofs_iface QV.C10.Proofs_guard2 QV.C10.Proofs_dur QV.C10.Proofs_tx QV.C10.Witness QV.C10.SpecBlind.
Import ListNotations.
Open Scope string_scope.

Lemma tag_erase p : tag_of (erase p) = tag_of p.
Proof. destruct p; reflexivity. Qed.
Lemma hdr_id_erase p : h_id (pt_hdr (erase p)) = h_id (pt_hdr p).
Proof. destruct p; reflexivity. Qed.

Lemma sub_erase inl (f : pt -> json) c : f (erase c) = f c -> sub inl f (erase c) = sub inl f c.
Proof. intros H. unfold sub. rewrite erase_pt_id, H. reflexivity. Qed.

Lemma map_sub_erase inl (f : pt -> json) subs : Forall (fun c => f (erase c) = f c) subs ->
  map (sub inl f) (map erase subs) = map (sub inl f) subs.
Proof. induction 1; cbn [map]; [reflexivity|]. f_equal; [now apply sub_erase|assumption]. Qed.

Lemma to_data_gen_erase kc inl : forall p, to_data_gen kc inl (erase p) = to_data_gen kc inl p.
Proof.
  induction p using pt_ind2.
  all: destruct h as [ho hi]; cbn [erase to_data_gen tag_of pt_hdr hdr_fields eh h_id]; try reflexivity.
  - now rewrite map_sub_erase.
  - now rewrite sub_erase.
  - destruct r as [[a b] c0]. now rewrite sub_erase.
  - now rewrite sub_erase.
  - now rewrite map_sub_erase.
  - now rewrite sub_erase.
  - destruct l; now rewrite sub_erase.
  - now rewrite !sub_erase.
  - now rewrite sub_erase.
Qed.

Lemma to_data_roundtrip p p' : erase p' = erase p -> to_data p' = to_data p /\ repr p' = repr p.
Proof.
  intros H. unfold to_data, repr.
  rewrite <- (to_data_gen_erase key_chan false p'), <- (to_data_gen_erase key_repr true p'), H.
  now rewrite !to_data_gen_erase.
Qed.

(* the documents of the named nodes, in traversal order *)
Lemma nodes_erase : forall p, nodes (erase p) = map erase (nodes p).
Proof.
  assert (L : forall subs, Forall (fun p => nodes (erase p) = map erase (nodes p)) subs ->
              flat_map nodes (map erase subs) = map erase (flat_map nodes subs)).
  { induction 1; cbn [map flat_map]; [reflexivity|]. rewrite map_app. now f_equal. }
  induction p using pt_ind2; cbn [erase nodes children flat_map map]; rewrite ?app_nil_r; try reflexivity.
  - f_equal. now apply L.
  - now rewrite IHp.
  - now rewrite IHp.
  - now rewrite IHp.
  - f_equal. now apply L.
  - now rewrite IHp.
  - now rewrite IHp.
  - rewrite IHp1, IHp2, map_app. reflexivity.
  - now rewrite IHp.
Qed.


Lemma named_docs_erase p : named_docs (erase p) = named_docs p.
Proof.
  unfold named_docs, named_nodes. rewrite nodes_erase.
  induction (nodes p) as [|x r IH]; cbn [map flat_map]; [reflexivity|].
  rewrite !map_app, IH. f_equal. rewrite erase_pt_id. destruct (pt_id x); cbn [map fst snd]; [|reflexivity].
  unfold to_data. now rewrite to_data_gen_erase.
Qed.

Lemma named_docs_roundtrip p p' : erase p' = erase p -> named_docs p' = named_docs p.
Proof. intros H. rewrite <- (named_docs_erase p'), H. apply named_docs_erase. Qed.


Lemma blind_roundtrip {A} (obs : pt -> A) p p' : identity_blind obs -> erase p' = erase p -> obs p' = obs p.
Proof. intros B H. rewrite <- (B p'), H. apply B. Qed.

Lemma storage_observation : forall P s' i, wf P = true -> consistent P -> pt_id P = Some i ->
  store_as_tx (empty_s []) i P = Ok s' ->
  exists p' st', load (length (nodes P)) (s_be s') fresh_l i = Ok (p', st') /\ erase p' = erase P /\
    to_data p' = to_data P /\ repr p' = repr P /\ named_docs p' = named_docs P /\
    forall A (obs : pt -> A), identity_blind obs -> obs p' = obs P.
Proof.
  intros P s' i HW HC Hi E. destruct (storage_guarded P s' i HW HC Hi E) as (p' & st' & L & Ee).
  exists p', st'. destruct (to_data_roundtrip P p' Ee) as [T R].
  repeat split; try assumption.
  - now apply named_docs_roundtrip.
  - intros A obs B. now apply blind_roundtrip.
Qed.

(* non-vacuity of identity_blind: the model's own observations are instances, object identity is not *)
Lemma blind_instances : (forall vt, identity_blind (iface_of vt)) /\ identity_blind dur_of /\ identity_blind to_data /\
  identity_blind repr /\ identity_blind named_docs /\ ~ identity_blind pt_oid.
Proof.
  split; [intros vt p; apply iface_erase|]. split; [exact dur_erase|].
  split; [intros p; apply to_data_gen_erase|]. split; [intros p; apply to_data_gen_erase|].
  split; [exact named_docs_erase|].
  intros B. specialize (B (PRev (mkHdr 7 None) (PRev (mkHdr 8 None) (PTable (mkHdr 9 None) [] [] [])))). discriminate B.
Qed.
