(* C10 — correspondence cases.  A case carries the generated template objects (as introspected from the real objects,
   not from get_serialization_data), the history of store operations, and the implementation's observation: outcome
   of every store, final backend contents (parsed + canonicalised documents), and for every stored root what a FRESH
   PulseStorage over the same backend loads (comparison flags computed on the real objects).
   check_corr: the model predicts exactly that observation.  check_spec: the property itself on the observation. *)
From Coq Require Import String List ZArith QArith Bool.
Require Import QV.common.Util QV.C10.Model QV.C10.Iface QV.C10.Hist QV.C10.Dur QV.C10.Tx.
Import ListNotations.
Open Scope string_scope.

(* ---- json equality up to the order of object keys ---------------------------------------------------------------- *)
Fixpoint json_eqb (a b : json) : bool :=
  match a, b with
  | JNull, JNull => true
  | JBool x, JBool y => Bool.eqb x y
  | JInt x, JInt y => Z.eqb x y
  | JNum x, JNum y => Qeq_bool x y
  | JStr x, JStr y => String.eqb x y
  | JList la, JList lb =>
      (fix go (la lb : list json) : bool :=
         match la, lb with
         | [], [] => true
         | x :: ra, y :: rb => json_eqb x y && go ra rb
         | _, _ => false
         end) la lb
  | JObj fa, JObj fb =>
      Nat.eqb (length fa) (length fb) &&
      (fix go (fa : list (string * json)) : bool :=
         match fa with
         | [] => true
         | (k, v) :: r => match lookup k fb with Some v' => json_eqb v v' | None => false end && go r
         end) fa
  | _, _ => false
  end.

(* ---- observation -------------------------------------------------------------------------------------------------- *)
Inductive sres := SOk | SErrValue | SErrType | SErrRuntime | SErrKey | SErrOther.

Record lobs := mkLobs {
  lo_ok : bool;        (* fresh_storage[identifier] returned an object *)
  lo_eq : bool;        (* loaded == original *)
  lo_iface : bool;     (* parameter_names, defined_channels, measurement_names equal *)
  lo_dur : bool;       (* duration expressions agree on all probed parameter assignments *)
  lo_prog : bool;      (* create_program: same outcome, same sampled voltages and measurement windows *)
  lo_share : bool      (* named sub-templates with one identifier are one object in the loaded tree *)
}.

(* the implementation's interface of an object; None = the property raised *)
Definition iobs : Type := option (list string) * option (list string) * option (list chan).

Inductive case :=
| CStore (roots : list pt)                       (* the objects; shared objects repeat with the same oid *)
         (ops : list (nat * nat))                (* (which PulseStorage instance: 0/1, index of the root) *)
         (impl_res : list sres)
         (impl_be : list (string * json))
         (impl_loads : list (nat * lobs))        (* per distinct successfully stored root index *)
         (vt : list (string * list string))      (* oracle: free symbols of every expression string of the roots *)
         (impl_iface : list (nat * iobs))        (* per root: parameter_names, measurement_names, defined_channels *)
| CDoc (be : list (string * json)) (i : string)  (* hand-written documents: load i, store the result elsewhere *)
       (impl_ok : bool) (impl_redoc : list (string * json))
| CPinned (be : list (string * json)) (i : string)   (* documents written by the pinned code (corpus) *)
          (expected : pt)                          (* the template they were written from, as introspected then *)
          (impl_loaded : option pt)                (* what the implementation loads now, introspected *)
          (iface_ok : bool)                        (* its interface and duration equal the ones recorded then *)
(* round 3: a history of store / overwrite / delete operations on ONE PulseStorage over an initially empty backend.  An
   operation carries the template as introspected AT THAT MOMENT (link_to / unlink change an object between operations:
   same oid, different state); finals = (storage key, state at the end, behaviour comparable) per root *)
| CHist (ops : list hop)
        (impl_res : list sres)
        (impl_be : list (string * json))
        (finals : list (string * pt * bool))
        (impl_loads : list (nat * lobs))          (* per root index whose key is in the backend at the end *)
(* round 4: the declared duration.  Per probe assignment: the oracle table atom -> value and, per root, the value of the
   implementation's `duration` expression (None: the property raised, or the value is not a rational number) *)
| CDur (roots : list pt) (probes : list (atab * list (option Q)))
| CCrash.

Fixpoint lookup_nat {A} (k : nat) (l : list (nat * A)) : option A :=
  match l with [] => None | (k', v) :: r => if Nat.eqb k k' then Some v else lookup_nat k r end.

(* ---- the model's prediction ---------------------------------------------------------------------------------------- *)
Definition sres_of {A} (r : result A) : sres :=
  match r with Ok _ => SOk | Err EValue => SErrValue | Err EType => SErrType | Err ERuntime => SErrRuntime
  | Err EKey => SErrKey | Err _ => SErrOther end.
Definition sres_eqb (a b : sres) : bool :=
  match a, b with SOk, SOk | SErrValue, SErrValue | SErrType, SErrType | SErrRuntime, SErrRuntime | SErrKey, SErrKey
  | SErrOther, SErrOther => true
  | _, _ => false end.

(* two PulseStorage instances over one backend: Model.hrun; operations name their root by position *)
Fixpoint resolve_ops (roots : list pt) (ops : list (nat * nat)) : option (list (nat * pt)) :=
  match ops with
  | [] => Some []
  | op :: r => match nth_error roots (snd op), resolve_ops roots r with
               | Some p, Some l => Some ((fst op, p) :: l)
               | _, _ => None
               end
  end.

Definition be_eqb (a b : backend) : bool :=
  Nat.eqb (length a) (length b) &&
  forallb (fun kv => match lookup (fst kv) b with Some d => json_eqb (snd kv) d | None => false end) a.

Definition LOAD_FUEL := 64%nat.

(* same identifier => same object, among the named nodes of the given trees *)
Definition ids_consistent (ps : list pt) : bool :=
  let nn := flat_map named_nodes ps in
  forallb (fun a => forallb (fun b => negb (String.eqb (fst a) (fst b)) || N.eqb (pt_oid (snd a)) (pt_oid (snd b))) nn) nn.

Definition model_load_key (be : backend) (i : string) (p : pt) : lobs :=
  match load LOAD_FUEL be fresh_l i with
  | Ok (p', _) => let e := json_eqb (repr p') (repr p) in mkLobs true e e e e (ids_consistent [p'])
  | Err _ => mkLobs false false false false false false
  end.
Definition model_load (be : backend) (p : pt) : lobs :=
  match pt_id p with
  | None => mkLobs false false false false false false
  | Some i => model_load_key be i p
  end.

(* The model has no semantics of templates: when it predicts an object that differs from the original (only possible
   for the refuted input classes, see Props), the real constructor may also reject the changed arguments (channel
   sets that no longer fit), so only "does not load back equal" is compared there. *)
Definition lobs_corr (m o : lobs) : bool :=
  if lo_ok m && lo_eq m then
    lo_ok o && lo_eq o && lo_iface o && lo_dur o && lo_prog o      (* equal data => equal behaviour *)
    && Bool.eqb (lo_share m) (lo_share o)
  else if negb (lo_ok m) then negb (lo_ok o)
  else negb (lo_ok o) || negb (lo_eq o).

Definition set_eqb {A} (eqb : A -> A -> bool) (a b : list A) : bool :=
  forallb (fun x => existsb (eqb x) b) a && forallb (fun y => existsb (eqb y) a) b.
Definition res_set_eqb {A} (eqb : A -> A -> bool) (m : result (list A)) (o : option (list A)) : bool :=
  match m, o with Ok a, Some b => set_eqb eqb a b | Err _, None => true | _, _ => false end.
Definition iface_corr (m : iface) (o : iobs) : bool :=
  let '(op, om, oc) := o in
  res_set_eqb String.eqb (if_params m) op && res_set_eqb String.eqb (if_mnames m) om && res_set_eqb chan_eqb (if_chans m) oc.

(* Error PRECEDENCE is outside the model: the transaction guard (Tx.v) is evaluated in front of the encoding, the code meets
   the second object of an identifier and a dict with mixed int / str keys (TypeError of json.dumps) in document order.  When the
   tree of one operation has BOTH defects, both sides must fail, with either of the two error kinds (found by the thorough
   tier in round 5: clash + mixed keys, code TypeError, model RuntimeError).  Nothing else is relaxed. *)
Definition both_defects (p : pt) : bool := negb (ids_consistent [p]) && negb (forallb node_encodable (nodes p)).
Definition rt_or_type (r : sres) : bool := match r with SErrRuntime | SErrType => true | _ => false end.
Definition sres_corr (p : option pt) (m i : sres) : bool :=
  sres_eqb m i || match p with Some p => both_defects p && rt_or_type m && rt_or_type i | None => false end.
Fixpoint res_corr (ps : list (option pt)) (m i : list sres) : bool :=
  match ps, m, i with
  | [], [], [] => true
  | p :: ps, x :: m, y :: i => sres_corr p x y && res_corr ps m i
  | _, _, _ => false
  end.

Definition check_corr (c : case) : bool :=
  match c with
  | CStore roots ops impl_res impl_be impl_loads vt impl_iface =>
      forallb (fun ii => match nth_error roots (fst ii) with
                         | Some p => iface_corr (iface_of vt p) (snd ii)
                         | None => false end) impl_iface &&
      match resolve_ops roots ops with
      | None => false
      | Some mops =>
      let '(h, res) := hrun_tx (empty_h []) mops in
      res_corr (map (fun op => Some (snd op)) mops) (map sres_of res) impl_res
      && be_eqb (hbe h) impl_be
      && forallb (fun il => match nth_error roots (fst il) with
                            | Some p => lobs_corr (model_load (hbe h) p) (snd il)
                            | None => false end) impl_loads
      end
  | CDoc be i impl_ok impl_redoc =>
      match load LOAD_FUEL be fresh_l i with
      | Ok (p, _) =>
          impl_ok && match store (empty_s []) p with Ok s => be_eqb (s_be s) impl_redoc | Err _ => false end
      | Err _ => negb impl_ok
      end
  | CPinned be i _ impl_loaded _ =>
      match load LOAD_FUEL be fresh_l i, impl_loaded with
      | Ok (p, _), Some q => json_eqb (repr p) (repr q)
      | Err _, None => true
      | _, _ => false
      end
  | CHist ops impl_res impl_be finals impl_loads =>
      let '(h, res) := hrun2_tx (empty_h []) ops in
      res_corr (map hop_pt ops) (map sres_of res) impl_res
      && be_eqb (hbe h) impl_be
      && forallb (fun il => match nth_error finals (fst il) with
                            | Some (k, p, cmp) =>
                                let m := model_load_key (hbe h) k p in
                                if cmp then lobs_corr m (snd il)
                                else Bool.eqb (lo_ok m) (lo_ok (snd il)) && (negb (lo_ok m) || Bool.eqb (lo_eq m) (lo_eq (snd il)))
                            | None => false end) impl_loads
  | CDur roots probes =>
      forallb (fun pr =>
        Nat.eqb (length (snd pr)) (length roots) &&
        forallb (fun po =>
          match dur_of (fst po), snd po with
          | Err _, None => true
          | Err _, Some _ => false                 (* the model says the property raises *)
          | Ok d, Some q => match deval (fst pr) d with Some q' => Qeq_bool q q' | None => true end
          | Ok _, None => true                     (* not a rational value: not compared *)
          end) (combine roots (snd pr))) probes
  | CCrash => false
  end.

(* how many duration values of a CDur case the model actually predicts (non-vacuity, reported by the harness) *)
Definition dur_compared (c : case) : nat :=
  match c with
  | CDur roots probes =>
      fold_left (fun n pr => fold_left (fun n po =>
        match dur_of (fst po), snd po with
        | Ok d, Some _ => match deval (fst pr) d with Some _ => S n | None => n end
        | _, _ => n end) (combine roots (snd pr)) n) probes 0%nat
  | _ => 0%nat
  end.

(* ---- the property on the implementation's observation ------------------------------------------------------------ *)
(* a stored document: an object of a real class whose #identifier is its key, and no nested object of a real class
   carries an #identifier (named sub-templates appear as reference nodes only) *)
Fixpoint no_inline_named (j : json) : bool :=
  match j with
  | JList l => (fix go (l : list json) : bool := match l with [] => true | x :: r => no_inline_named x && go r end) l
  | JObj fs =>
      (match lookup K_TYPE fs with
       | Some (JStr t) => String.eqb t T_REF || negb (has_key K_ID fs)
       | Some _ => false
       | None => true
       end)
      && (fix go (fs : list (string * json)) : bool :=
            match fs with [] => true | (_, v) :: r => no_inline_named v && go r end) fs
  | _ => true
  end.

Definition doc_ok (k : string) (d : json) : bool :=
  match d with
  | JObj fs =>
      match lookup K_TYPE fs, lookup K_ID fs with
      | Some (JStr t), Some (JStr i) =>
          negb (String.eqb t T_REF) && String.eqb i k
          && (fix go (fs : list (string * json)) : bool :=
                match fs with [] => true | (_, v) :: r => no_inline_named v && go r end) fs
      | _, _ => false
      end
  | _ => false
  end.

Definition all_true (l : lobs) : bool := lo_ok l && lo_eq l && lo_iface l && lo_dur l && lo_prog l && lo_share l.

Fixpoint nodup_keys {A} (l : list (string * A)) : bool :=
  match l with [] => true | (k, _) :: r => negb (has_key k r) && nodup_keys r end.

Definition stored_roots (ops : list (nat * nat)) (res : list sres) : list nat :=
  flat_map (fun orr => match snd orr with SOk => [snd (fst orr)] | _ => [] end) (combine ops res).

(* a history without identifier conflicts, through one PulseStorage, of encodable named objects: every store must succeed *)
Definition all_encodable (p : pt) : bool :=
  forallb node_encodable (nodes p).
Definition clean (roots : list pt) (ops : list (nat * nat)) : bool :=
  ids_consistent roots && forallb (fun op => Nat.eqb (fst op) 0) ops
  && forallb (fun p => match pt_id p with Some _ => all_encodable p | None => false end) roots.


(* ---- histories: an independent reading of the storage protocol at the level of keys ------------------------------------ *)
(* K: storage key -> the object last written under it.  On one PulseStorage over an initially empty backend the keys of
   the temporary storage and of the backend coincide, so "the storage has identifier i" is "i is a key of K".
   written K0 top c = the named nodes that storing c writes: c itself unless its identifier is taken (then nothing below it
   either: the encoder only checks identity), and everything reachable below it through unnamed or newly written nodes. *)
Fixpoint written (K0 : list string) (top : bool) (c : pt) : list (string * pt) :=
  let below :=
    match c with
    | PSeq _ subs _ _ | PAmc _ subs _ _ _ => flat_map (written K0 false) subs
    | PRep _ b _ _ _ | PFor _ b _ _ _ _ | PMap _ b _ _ _ _ | PPar _ b _ | PArith _ b _ _ _ | PRev _ b => written K0 false b
    | PAA _ l r _ _ => (written K0 false l ++ written K0 false r)%list
    | _ => []
    end in
  if top then below else
  match pt_id c with
  | Some i => if existsb (String.eqb i) K0 then [] else (i, c) :: below
  | None => below
  end.
(* the named nodes at which the encoder stops because the storage has their identifier: each must be the stored object *)
Fixpoint hits (K0 : list string) (top : bool) (c : pt) : list (string * pt) :=
  let below :=
    match c with
    | PSeq _ subs _ _ | PAmc _ subs _ _ _ => flat_map (hits K0 false) subs
    | PRep _ b _ _ _ | PFor _ b _ _ _ _ | PMap _ b _ _ _ _ | PPar _ b _ | PArith _ b _ _ _ | PRev _ b => hits K0 false b
    | PAA _ l r _ _ => (hits K0 false l ++ hits K0 false r)%list
    | _ => []
    end in
  if top then below else
  match pt_id c with
  | Some i => if existsb (String.eqb i) K0 then [(i, c)] else below
  | None => below
  end.
Fixpoint kput (K : list (string * pt)) (i : string) (p : pt) : list (string * pt) :=
  match K with
  | [] => [(i, p)]
  | (k, v) :: r => if String.eqb k i then (k, p) :: r else (k, v) :: kput r i p
  end.
Definition kwrite (K : list (string * pt)) (key : string) (p : pt) : list (string * pt) :=
  fold_left (fun K e => kput K (fst e) (snd e)) (written (map fst K) true p) (kput K key p).
Definition kstep (K : list (string * pt)) (o : hop) (r : sres) : list (string * pt) :=
  match r with
  | SOk =>
      match o with
      | HStore _ k p => if has_key k K then K else kwrite K k p       (* an identifier the storage has: nothing is written *)
      | HOver _ k p => kwrite K k p
      | HDel _ k => filter (fun kv => negb (String.eqb (fst kv) k)) K
      end
  | _ => K
  end.
(* deleting succeeds exactly when the key is there; encoding an encodable tree succeeds when every identifier it meets in the
   storage is taken by that very object; a store under a taken key succeeds (as a no-op) for that very object *)
Definition all_encodable' (p : pt) : bool := forallb node_encodable (nodes p).
Definition kenc_ok (K : list (string * pt)) (p : pt) : bool :=
  all_encodable' p && ids_consistent [p]       (* one identifier, one object within the transaction (repo a5bca40) *)
  && forallb (fun h => match lookup (fst h) K with Some q => N.eqb (pt_oid q) (pt_oid (snd h)) | None => false end)
             (hits (map fst K) true p).
Definition kres_ok (K : list (string * pt)) (o : hop) (r : sres) : bool :=
  match o with
  | HDel _ k => if has_key k K then sres_eqb r SOk else sres_eqb r SErrKey
  | HOver _ k p => negb (kenc_ok K p) || sres_eqb r SOk
  | HStore _ k p =>
      match lookup k K with
      | Some q => negb (N.eqb (pt_oid q) (pt_oid p)) || sres_eqb r SOk
      | None => negb (kenc_ok K p) || sres_eqb r SOk
      end
  end.
Fixpoint krun (K : list (string * pt)) (ops : list hop) (res : list sres) : list (string * pt) * bool :=
  match ops, res with
  | o :: ro, r :: rr => let (K', ok) := krun (kstep K o r) ro rr in (K', kres_ok K o r && ok)
  | [], [] => (K, true)
  | _, _ => (K, false)
  end.
Definition same_obj (a b : pt) : bool := N.eqb (pt_oid a) (pt_oid b) && json_eqb (repr a) (repr b).
(* what is written under the keys of p's tree at the end is p's tree as it is at the end *)
Definition current (K : list (string * pt)) (key : string) (p : pt) : bool :=
  match lookup key K with Some q => same_obj q p | None => false end
  && forallb (fun n => match lookup (fst n) K with Some q => same_obj q (snd n) | None => false end)
             (flat_map named_nodes (children p)).
(* a document stored under a key that is not its #identifier (linked placeholder): an object of a real class, stands alone *)
Definition doc_ok_any (d : json) : bool :=
  match d with
  | JObj fs =>
      match lookup K_TYPE fs with
      | Some (JStr t) =>
          negb (String.eqb t T_REF)
          && (fix go (fs : list (string * json)) : bool :=
                match fs with [] => true | (_, v) :: r => no_inline_named v && go r end) fs
      | _ => false
      end
  | _ => false
  end.
Definition hop_keyed (o : hop) : bool :=
  match o with
  | HStore _ k p | HOver _ k p => match pt_id p with Some i => String.eqb i k | None => false end
  | HDel _ _ => true
  end.
Definition hist_clean (ops : list hop) : bool :=
  let ps := flat_map (fun o => match hop_pt o with Some p => [p] | None => [] end) ops in
  ids_consistent ps && forallb hop_keyed ops && forallb all_encodable ps.
Fixpoint seq_nat (n : nat) : list nat := match n with O => [] | S k => (seq_nat k ++ [k])%list end.

Definition check_spec (c : case) : bool :=
  match c with
  | CStore roots ops impl_res impl_be impl_loads _ _ =>
      let stored := stored_roots ops impl_res in
      let expected_ids := flat_map (fun k => match nth_error roots k with Some p => map fst (named_nodes p) | None => [] end) stored in
      Nat.eqb (length impl_res) (length ops)
      (* every stored document is well formed and stands alone *)
      && nodup_keys impl_be && forallb (fun kv => doc_ok (fst kv) (snd kv)) impl_be
      (* exactly one entry per identifier of a named (sub-)template of a stored root *)
      && forallb (fun i => has_key i impl_be) expected_ids
      && forallb (fun kv => existsb (String.eqb (fst kv)) expected_ids) impl_be
      (* every successfully stored root was observed and loads back as the same pulse *)
      && forallb (fun k => match lookup_nat k impl_loads with Some l => all_true l | None => false end) stored
      && (negb (clean roots ops) || forallb (fun r => sres_eqb r SOk) impl_res)
  | CDoc _ _ _ _ => true
  (* an old document must keep loading to the template it was written from *)
  | CPinned _ _ expected impl_loaded iface_ok =>
      match impl_loaded with Some q => json_eqb (repr q) (repr expected) && iface_ok | None => false end
  | CHist ops impl_res impl_be finals impl_loads =>
      let '(K, dels_ok) := krun [] ops impl_res in
      forallb (fun o => Nat.eqb (hop_w o) 0) ops && dels_ok      (* dels_ok: outcomes of deletes, required successes *)
      (* exactly the keys that the protocol leaves; every document well formed and standing alone *)
      && nodup_keys impl_be
      && forallb (fun kv => has_key (fst kv) impl_be) K && forallb (fun kv => has_key (fst kv) K) impl_be
      && forallb (fun kv => match lookup (fst kv) K with
                            | Some q => match pt_id q with
                                        | Some i => if String.eqb i (fst kv) then doc_ok (fst kv) (snd kv) else doc_ok_any (snd kv)
                                        | None => doc_ok_any (snd kv) end
                            | None => false end) impl_be
      (* a root whose tree, as it is at the end, is what was last written under all of its keys loads back as that pulse *)
      && forallb (fun k => match nth_error finals k with
                           | Some (key, p, cmp) =>
                               negb (cmp && current K key p)
                               || match lookup_nat k impl_loads with Some l => all_true l | None => false end
                           | None => false end) (seq_nat (length finals))
      (* no identifier clashes, own identifiers as keys, encodable: storing and overwriting never fail *)
      && (negb (hist_clean ops)
          || forallb (fun orr => match fst orr with HDel _ _ => true | _ => sres_eqb (snd orr) SOk end) (combine ops impl_res))
  | CDur _ _ => true          (* model correspondence only: the property on durations is the lo_dur flag of the store cases *)
  | CCrash => false
  end.
