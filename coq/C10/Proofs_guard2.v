(* C10 — round 3: integer channel keys are also lost inside inline (unnamed) children: whatever the decoder constructs has
   string keys in its whole inline part. *)
From Coq Require Import String List ZArith QArith Bool.
Require Import QV.C10.Model QV.C10.Spec QV.C10.SpecInl QV.C10.Proofs QV.C10.Proofs_store QV.C10.Proofs_guard.
Import ListNotations.
Open Scope string_scope.

Section JInd.
Variable P : json -> Prop.
Hypothesis HNull : P JNull.
Hypothesis HBool : forall b, P (JBool b).
Hypothesis HInt : forall z, P (JInt z).
Hypothesis HNum : forall q, P (JNum q).
Hypothesis HStr : forall s, P (JStr s).
Hypothesis HList : forall l, Forall P l -> P (JList l).
Hypothesis HObj : forall fs, Forall (fun kv => P (snd kv)) fs -> P (JObj fs).
Fixpoint json_ind2 (j : json) : P j :=
  match j with
  | JNull => HNull | JBool b => HBool b | JInt z => HInt z | JNum q => HNum q | JStr s => HStr s
  | JList l => HList l ((fix go (l : list json) : Forall P l :=
                           match l with [] => Forall_nil _ | x :: r => Forall_cons x (json_ind2 x) (go r) end) l)
  | JObj fs => HObj fs ((fix go (fs : list (string * json)) : Forall (fun kv => P (snd kv)) fs :=
                           match fs with [] => Forall_nil _ | kv :: r => Forall_cons kv (json_ind2 (snd kv)) (go r) end) fs)
  end.
End JInd.

Lemma inl_cs_children p : inl_cs p = own_cs p && forallb cokb (children p).
Proof. destruct p; cbn [inl_cs children forallb]; fold cokb; rewrite ?andb_true_r; reflexivity. Qed.

Lemma erase_pt_id p : pt_id (erase p) = pt_id p.
Proof. destruct p; reflexivity. Qed.

Lemma inl_cs_erase : forall p, inl_cs (erase p) = inl_cs p.
Proof.
  assert (L : forall subs, Forall (fun p => inl_cs (erase p) = inl_cs p) subs ->
              forallb cokb (map erase subs) = forallb cokb subs).
  { induction 1 as [|c r Hc Hr IH]; [reflexivity|]. cbn [map forallb]. rewrite IH. f_equal.
    unfold cokb. rewrite erase_pt_id. destruct (pt_id c); [reflexivity|exact Hc]. }
  assert (C : forall c, inl_cs (erase c) = inl_cs c -> cokb (erase c) = cokb c).
  { intros c Hc. unfold cokb. rewrite erase_pt_id. destruct (pt_id c); [reflexivity|exact Hc]. }
  induction p using pt_ind2; rewrite !inl_cs_children, own_cs_erase; f_equal; cbn [erase children forallb];
    rewrite ?L, ?C by assumption; reflexivity.
Qed.

(* ---- what the decoder constructs ------------------------------------------------------------------------------------ *)
Definition dval_ok (d : dval) : Prop :=
  match d with DRaw _ => True | DSub c => cokb c = true | DSubs cs => forallb cokb cs = true end.
Definition kw_ok (kw : kwargs) : Prop := forall k d, In (k, d) kw -> dval_ok d.

Lemma kw_ok_lookup kw k d : kw_ok kw -> lookup k kw = Some d -> dval_ok d.
Proof. intros H L. apply lookup_in in L. eapply H; eauto. Qed.
Lemma req_dsub kw k c : kw_ok kw -> req k kw dsub = Ok c -> cokb c = true.
Proof.
  unfold req. intros H. destruct (lookup k kw) as [d|] eqn:E; [|discriminate].
  destruct d; cbn [dsub]; try discriminate. intros [= <-]. exact (kw_ok_lookup _ _ _ H E).
Qed.
Lemma req_dsubs kw k cs : kw_ok kw -> req k kw dsubs = Ok cs -> forallb cokb cs = true.
Proof.
  unfold req. intros H. destruct (lookup k kw) as [d|] eqn:E; [|discriminate].
  destruct d as [j| |ps]; cbn [dsubs]; try discriminate.
  - destruct j; try discriminate. destruct l; [|discriminate]. intros [= <-]. reflexivity.
  - intros [= <-]. exact (kw_ok_lookup _ _ _ H E).
Qed.
Lemma kw_ok_drop kw : kw_ok kw -> kw_ok (drop_hdr_keys kw).
Proof. intros H k d Hi. unfold drop_hdr_keys in Hi. apply filter_In in Hi as [Hi _]. eauto. Qed.

Lemma construct_children tag h kw p : kw_ok kw -> construct tag h kw = Ok p -> forallb cokb (children p) = true.
Proof.
  intros K H. unfold construct in H. cbv zeta in H.
  destruct (String.eqb tag "Table"); [binv H; injection H as <-; reflexivity|].
  destruct (String.eqb tag "Point"); [binv H; injection H as <-; reflexivity|].
  destruct (String.eqb tag "Function"); [binv H; injection H as <-; reflexivity|].
  destruct (String.eqb tag "Constant"); [binv H; injection H as <-; reflexivity|].
  destruct (String.eqb tag "Sequence"); [binv H; injection H as <-; cbn [children]; eauto using req_dsubs|].
  destruct (String.eqb tag "Repetition"); [binv H; injection H as <-; cbn [children forallb]; rewrite andb_true_r; eauto using req_dsub|].
  destruct (String.eqb tag "ForLoop"); [binv H; injection H as <-; cbn [children forallb]; rewrite andb_true_r; eauto using req_dsub|].
  destruct (String.eqb tag "Mapping"); [binv H; injection H as <-; cbn [children forallb]; rewrite andb_true_r; eauto using req_dsub|].
  destruct (String.eqb tag "AtomicMulti"); [binv H; injection H as <-; cbn [children]; eauto using req_dsubs|].
  destruct (String.eqb tag "Parallel"); [binv H; injection H as <-; cbn [children forallb]; rewrite andb_true_r; eauto using req_dsub|].
  destruct (String.eqb tag "Arithmetic").
  { binv H; injection H as <-; cbn [children forallb]; rewrite andb_true_r;
      match goal with L : lookup _ kw = Some (DSub ?c) |- cokb ?c = true => exact (kw_ok_lookup _ _ _ K L) end. }
  destruct (String.eqb tag "ArithmeticAtomic").
  { binv H; injection H as <-; cbn [children forallb]; rewrite andb_true_r. apply andb_true_intro. split; eauto using req_dsub. }
  destruct (String.eqb tag "TimeReversal"); [binv H; injection H as <-; cbn [children forallb]; rewrite andb_true_r; eauto using req_dsub|].
  destruct (String.eqb tag "Abstract"); [|discriminate].
  binv H; injection H as <-; reflexivity.
Qed.

Section Dec.
Variable rs : resolver.
Hypothesis HR : named_resolver rs.

Lemma finish_ok kw st1 p' st' : kw_ok kw -> finish rs kw st1 = Ok (p', st') ->
  cokb p' = true /\ (forall tag, lookup K_TYPE kw = Some (DRaw (JStr tag)) -> String.eqb tag T_REF = false -> inl_cs p' = true).
Proof.
  intros K H. unfold finish in H. destruct (lookup K_TYPE kw) as [[[| | | |tag| |]| |]|] eqn:ET; try discriminate.
  destruct (String.eqb tag T_REF) eqn:ER.
  - split; [|intros tag' [= <-]; congruence].
    destruct (lookup K_ID kw) as [[[| | | |i| |]| |]|]; try discriminate.
    apply HR in H. unfold cokb. destruct (pt_id p'); [reflexivity|congruence].
  - assert (I : inl_cs p' = true).
    { binv H; injection H as <- _;
        (rewrite inl_cs_children; apply andb_true_intro; split;
         [eapply construct_cs; eauto|eapply construct_children; [apply kw_ok_drop; exact K|eauto]]). }
    split; [|intros; exact I]. unfold cokb. destruct (pt_id p'); [reflexivity|exact I].
Qed.

Definition Pj (j : json) : Prop := forall st p' st', decode rs j st = Ok (p', st') -> cokb p' = true.
(* ... and the same for the elements of a list value *)
Definition PP (j : json) : Prop := Pj j /\ (forall l, j = JList l -> Forall Pj l).

Lemma dec_elems_ok l : Forall Pj l -> forall st ps st', dec_elems (decode rs) l st = Ok (ps, st') -> forallb cokb ps = true.
Proof.
  induction 1 as [|x r Hx Hr IH]; intros st ps st'; cbn [dec_elems].
  - intros [= <- _]. reflexivity.
  - destruct (decode rs x st) as [[p s1]|] eqn:E1; cbn [bind]; [|discriminate].
    destruct (dec_elems (decode rs) r s1) as [[qs s2]|] eqn:E2; cbn [bind]; [|discriminate].
    intros [= <- _]. cbn [forallb]. rewrite (Hx _ _ _ E1), (IH _ _ _ E2). reflexivity.
Qed.

Lemma dec_fields_ok fs : Forall (fun kv => PP (snd kv)) fs ->
  forall st kw st', dec_fields (decode rs) fs st = Ok (kw, st') -> kw_ok kw.
Proof.
  induction 1 as [|kv r Hkv Hr IH]; intros st kw st'; cbn [dec_fields].
  - intros [= <- _] k d [].
  - destruct (dec_field_val (decode rs) (snd kv) st) as [[d s1]|] eqn:E1; cbn [bind]; [|discriminate].
    destruct (dec_fields (decode rs) r s1) as [[ds s2]|] eqn:E2; cbn [bind]; [|discriminate].
    intros [= <- _] k d0 [[= <- <-]|Hi]; [|eapply IH; eauto].
    unfold dec_field_val in E1. destruct (snd kv) as [| | | | |l|vfs] eqn:Ev; try (injection E1 as <- _; exact I).
    + destruct (negb (is_nil l) && forallb is_typed l) eqn:Ec; [|injection E1 as <- _; exact I].
      destruct (dec_elems (decode rs) l st) as [[ps s3]|] eqn:E3; cbn [bind] in E1; [|discriminate]. injection E1 as <- _.
      cbn [dval_ok]. eapply dec_elems_ok; [|exact E3]. destruct Hkv as [_ Hl]. now apply Hl.
    + destruct (has_key K_TYPE vfs); [|injection E1 as <- _; exact I].
      destruct (decode rs (JObj vfs) st) as [[p s3]|] eqn:E3; cbn [bind] in E1; [|discriminate]. injection E1 as <- _.
      cbn [dval_ok]. destruct Hkv as [Hp _]. eapply Hp. exact E3.
Qed.

Lemma decode_all : forall j, PP j.
Proof.
  induction j using json_ind2; split; try (intros st p' st' E; discriminate E); try (intros l0 E; discriminate E).
  - intros l0 [= <-]. eapply Forall_impl; [|exact H]. intros a [Ha _]. exact Ha.
  - intros st p' st' E. cbn [decode] in E.
    destruct (dec_fields (decode rs) fs st) as [[kw s1]|] eqn:E1; cbn [bind] in E; [|discriminate].
    pose proof (dec_fields_ok fs H st kw s1 E1) as K. exact (proj1 (finish_ok kw s1 p' st' K E)).
Qed.

Lemma to_data_shape p : exists rest, to_data p = JObj ((K_TYPE, JStr (tag_of p)) :: rest).
Proof. destruct p; eexists; reflexivity. Qed.

Lemma decode_top_inl p st p' st' : decode rs (to_data p) st = Ok (p', st') -> inl_cs p' = true.
Proof.
  destruct (to_data_shape p) as [rest ->]. intros E. cbn [decode] in E.
  destruct (dec_fields (decode rs) ((K_TYPE, JStr (tag_of p)) :: rest) st) as [[kw s1]|] eqn:E1; cbn [bind] in E; [|discriminate].
  assert (K : kw_ok kw).
  { eapply dec_fields_ok; [|exact E1]. apply Forall_forall. intros kv _. apply decode_all. }
  cbn [dec_fields dec_field_val snd fst bind] in E1.
  destruct (dec_fields (decode rs) rest st) as [[ds s2]|]; cbn [bind] in E1; [|discriminate]. injection E1 as <- <-.
  eapply (proj2 (finish_ok _ _ _ _ K E)); [cbn [lookup]; change (String.eqb K_TYPE K_TYPE) with true; reflexivity|apply tag_not_ref].
Qed.

(* every integer channel key in the inline part of a template is lost *)
Lemma inline_int_key_lost p st p' st' : inl_cs p = false -> decode rs (to_data p) st = Ok (p', st') -> erase p' <> erase p.
Proof.
  intros Hp E Heq. apply decode_top_inl in E. rewrite <- inl_cs_erase, Heq, inl_cs_erase in E. congruence.
Qed.
End Dec.

(* the new class is not empty: own dicts fine, an unnamed child has an integer key *)
Definition inl_w : pt := PRep (mkHdr 2 None) (PTable (mkHdr 1 None) [(CI 0, [(EInt 0, VScalar (EInt 1), IHold)])] [] []) (EInt 2) [] [].
Lemma inl_w_ok : own_cs inl_w = true /\ inl_cs inl_w = false.
Proof. split; reflexivity. Qed.
