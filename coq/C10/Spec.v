(* C10 — definitions used by the theorem statements: object-identity erasure, well-formedness / guards, and the
   abstract description of what a storage must contain. *)
From Coq Require Import String List ZArith QArith Bool.
Require Import QV.C10.Model.
Import ListNotations.
Open Scope string_scope.

(* forget Python object identities: what `==` (comparison of serialization data) can see *)
Definition eh (h : hdr) : hdr := mkHdr 0 (h_id h).
Fixpoint erase (p : pt) : pt :=
  match p with
  | PTable h e c m => PTable (eh h) e c m
  | PPoint h e ch c m => PPoint (eh h) e ch c m
  | PFunc h ex du ch c m => PFunc (eh h) ex du ch c m
  | PConst h n du a m => PConst (eh h) n du a m
  | PSeq h subs c m => PSeq (eh h) (map erase subs) c m
  | PRep h b n c m => PRep (eh h) (erase b) n c m
  | PFor h b i r c m => PFor (eh h) (erase b) i r c m
  | PMap h t pm mm cm c => PMap (eh h) (erase t) pm mm cm c
  | PAmc h subs c m du => PAmc (eh h) (map erase subs) c m du
  | PPar h t o => PPar (eh h) (erase t) o
  | PArith h t sc l op => PArith (eh h) (erase t) sc l op
  | PAA h l r op m => PAA (eh h) (erase l) (erase r) op m
  | PRev h t => PRev (eh h) (erase t)
  | PAbs h ch pn mn ig du => PAbs (eh h) ch pn mn ig du
  end.

(* dict keys that survive JSON: strings (guard of finding int_channel_key) other than the reserved "#type" *)
Definition str_keys {A} (m : list (chan * A)) : bool :=
  forallb (fun ca => match fst ca with CS s => negb (String.eqb s K_TYPE) | CI _ => false end) m.
Definition ok_skeys {A} (m : list (string * A)) : bool :=
  forallb (fun ka => negb (String.eqb (fst ka) K_TYPE)) m.
Definition ok_id (h : hdr) : bool := match h_id h with Some "" => false | _ => true end.

(* objects that the real constructors can produce and whose dict keys are strings *)
Fixpoint wf (p : pt) : bool :=
  ok_id (pt_hdr p) &&
  match p with
  | PTable _ e _ _ => str_keys e && negb (is_nil e) && forallb (fun ce => negb (is_nil (snd ce))) e
  | PConst _ _ _ a _ => str_keys a
  | PSeq _ subs _ _ => negb (is_nil subs) && forallb wf subs
  | PAmc _ subs _ _ _ => negb (is_nil subs) && forallb wf subs
  | PRep _ b _ _ _ | PFor _ b _ _ _ _ | PRev _ b => wf b
  | PMap _ t pm mm cm _ => wf t && ok_skeys pm && ok_skeys mm && str_keys cm && negb (is_anon_map_without_constraints t)
  | PPar _ t o => wf t && str_keys o
  | PArith _ t sc _ _ => wf t && match sc with SMap m => str_keys m | SExpr _ => true end
  | PAA _ l r _ _ => wf l && wf r
  | PAbs _ _ _ _ ig _ => match ig with Some m => str_keys m | None => true end
  | _ => true
  end.

Definition descendants (p : pt) : list pt := tl (nodes p).

(* one identifier, one object (guard of finding dup_identifier_in_transaction) *)
Definition consistent (P : pt) : Prop :=
  forall n n' i, In n (nodes P) -> In n' (nodes P) -> pt_id n = Some i -> pt_id n' = Some i -> n = n'.

(* the backend holds, for every named node of P, that node's own document *)
Definition be_holds (P : pt) (be : backend) : Prop :=
  forall n i, In n (nodes P) -> pt_id n = Some i -> lookup i be = Some (to_data n).

(* no object of a real class below the top level of a document carries an identifier *)
Fixpoint no_inline_named (j : json) : bool :=
  match j with
  | JList l => forallb no_inline_named l
  | JObj fs =>
      (match lookup K_TYPE fs with
       | Some (JStr t) => String.eqb t T_REF || negb (has_key K_ID fs)
       | Some _ => false
       | None => true
       end) && forallb (fun kv => no_inline_named (snd kv)) fs
  | _ => true
  end.
Definition doc_fields_ok (j : json) : bool :=
  match j with JObj fs => forallb (fun kv => no_inline_named (snd kv)) fs | _ => false end.

(* ---- storing (round 2) --------------------------------------------------------------------------------------------- *)
(* a later backend keeps every document of an earlier one *)
Definition be_extends (be be' : backend) : Prop := forall k d, lookup k be = Some d -> lookup k be' = Some d.
(* one entry per identifier *)
Definition be_unique (be : backend) : Prop := NoDup (map fst be).
(* Python object identity: two objects with the same id() are the same object *)
Definition oid_coherent (U : pt -> Prop) : Prop := forall a b, U a -> U b -> pt_oid a = pt_oid b -> a = b.
(* ... needed only between the objects of the temporary storage and the nodes of the tree being stored *)
Definition heap_ok (tmp : list (string * pt)) (P : pt) : Prop :=
  forall j q c, In (j, q) tmp -> In c (nodes P) -> pt_oid q = pt_oid c -> q = c.
(* invariant of a PulseStorage: every object of the temporary storage is registered under its own identifier, belongs
   to the universe U of live objects, and the backend holds the documents of all its named nodes *)
Definition temp_ok (U : pt -> Prop) (tmp : list (string * pt)) (be : backend) : Prop :=
  forall j q, In (j, q) tmp -> pt_id q = Some j /\ (forall x, In x (nodes q) -> U x) /\ be_holds q be.
Definition hinv (U : pt -> Prop) (h : hstate) : Prop := temp_ok U (t0 h) (hbe h) /\ temp_ok U (t1 h) (hbe h).
(* the objects that occur in a history *)
Definition live (ops : list (nat * pt)) (x : pt) : Prop := exists w p, In (w, p) ops /\ In x (nodes p).

(* ---- loading: object identity (round 2) ----------------------------------------------------------------------------- *)
(* every named node of a cached object is itself the cache entry of its identifier *)
Definition cache_closed (st : lstate) : Prop :=
  forall i q, lookup i (l_cache st) = Some q ->
  forall a k, In a (nodes q) -> pt_id a = Some k -> lookup k (l_cache st) = Some a.

(* ---- tightness of the guard of finding int_channel_key (round 2) -------------------------------------------------- *)
Definition cs_keys {A} (m : list (chan * A)) : bool := forallb (fun ca => negb (is_ci (fst ca))) m.
(* all keys of the object's own dicts are strings *)
Definition own_cs (p : pt) : bool :=
  match p with
  | PTable _ e _ _ => cs_keys e
  | PConst _ _ _ a _ => cs_keys a
  | PMap _ _ _ _ cm _ => cs_keys cm
  | PPar _ _ o => cs_keys o
  | PArith _ _ (SMap m) _ _ => cs_keys m
  | PAbs _ _ _ _ (Some m) _ => cs_keys m
  | _ => true
  end.

