(* C10 — round 4: the transaction guard of PulseStorage.overwrite (repo commit a5bca40, repair of the former finding
   dup_identifier_in_transaction).  Definitions only.
   overwrite registers identifier -> object for everything that is (being) serialised in the running transaction: a second,
   different object under an identifier of the transaction is rejected (RuntimeError, nothing written); the same object met
   again is not serialised twice (no observable difference: the old code wrote the identical entry again); a replacement
   that refers to the stored object it replaces is rejected (the document would refer to itself).
   The core functions of Model.v / Hist.v (visit, store, overwrite_as, store_as) describe the transaction WITHOUT this guard;
   all theorems about them assume `consistent` trees, for which the guard never fires.  The guarded operations below are what
   the correspondence check runs. *)
From Coq Require Import String List ZArith QArith Bool.
Require Import QV.C10.Model QV.C10.Hist.
Import ListNotations.
Open Scope string_scope.

Section Reach.
Variable K0 : list string.          (* the identifiers the storage has (temporary storage or backend) *)
(* named nodes that storing c serialises in the transaction: c itself unless the storage has its identifier (then the encoder
   only checks identity and does not descend), and everything below it through unnamed or newly serialised nodes *)
Fixpoint tx_written (top : bool) (c : pt) : list (string * pt) :=
  let below :=
    match c with
    | PSeq _ subs _ _ | PAmc _ subs _ _ _ => flat_map (tx_written false) subs
    | PRep _ b _ _ _ | PFor _ b _ _ _ _ | PMap _ b _ _ _ _ | PPar _ b _ | PArith _ b _ _ _ | PRev _ b => tx_written false b
    | PAA _ l r _ _ => (tx_written false l ++ tx_written false r)%list
    | _ => []
    end in
  if top then below else
  match pt_id c with
  | Some i => if existsb (String.eqb i) K0 then [] else (i, c) :: below
  | None => below
  end.
(* the named nodes at which the encoder stops because the storage has their identifier *)
Fixpoint tx_hits (top : bool) (c : pt) : list string :=
  let below :=
    match c with
    | PSeq _ subs _ _ | PAmc _ subs _ _ _ => flat_map (tx_hits false) subs
    | PRep _ b _ _ _ | PFor _ b _ _ _ _ | PMap _ b _ _ _ _ | PPar _ b _ | PArith _ b _ _ _ | PRev _ b => tx_hits false b
    | PAA _ l r _ _ => (tx_hits false l ++ tx_hits false r)%list
    | _ => []
    end in
  if top then below else
  match pt_id c with
  | Some i => if existsb (String.eqb i) K0 then [i] else below
  | None => below
  end.
End Reach.

Definition tx_reject (s : sstate) (key : string) (p : pt) : bool :=
  let K0 := (map fst (s_temp s) ++ map fst (s_be s))%list in
  let w := (key, p) :: tx_written K0 true p in
  existsb (fun a => existsb (fun b => String.eqb (fst a) (fst b) && negb (N.eqb (pt_oid (snd a)) (pt_oid (snd b)))) w) w
  || existsb (String.eqb key) (tx_hits K0 true p).

Definition overwrite_tx (s : sstate) (key : string) (p : pt) : result sstate :=
  if tx_reject s key p then Err ERuntime else overwrite_as s key p.

Definition store_as_tx (s : sstate) (key : string) (p : pt) : result sstate :=
  match lookup key (s_temp s) with
  | Some q => if N.eqb (pt_oid q) (pt_oid p) then Ok s else Err ERuntime
  | None => if has_key key (s_be s) then Err ERuntime else overwrite_tx s key p
  end.

Definition sop_tx (s : sstate) (o : hop) : result sstate :=
  match o with
  | HStore _ k p => store_as_tx s k p
  | HOver _ k p => overwrite_tx s k p
  | HDel _ k => delete s k
  end.

Definition hop_step_tx (h : hstate) (o : hop) : hstate * result unit :=
  match sop_tx (hsel h (hop_w o)) o with
  | Ok s' => (hupd h (hop_w o) s', Ok tt)
  | Err e => (h, Err e)
  end.

Fixpoint hrun2_tx (h : hstate) (ops : list hop) : hstate * list (result unit) :=
  match ops with
  | [] => (h, [])
  | o :: r => let (h1, x) := hop_step_tx h o in let (h2, xs) := hrun2_tx h1 r in (h2, x :: xs)
  end.

(* the store-only histories of Model.hrun, guarded: pulse_storage[identifier] = p with the template's own identifier *)
Definition hstep_tx (h : hstate) (op : nat * pt) : hstate * result unit :=
  match pt_id (snd op) with
  | None => (h, Err EValue)
  | Some i => hop_step_tx h (HStore (fst op) i (snd op))
  end.
Fixpoint hrun_tx (h : hstate) (ops : list (nat * pt)) : hstate * list (result unit) :=
  match ops with
  | [] => (h, [])
  | op :: r => let (h1, o) := hstep_tx h op in let (h2, os) := hrun_tx h1 r in (h2, o :: os)
  end.
