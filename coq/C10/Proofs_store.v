(* C10 — proofs about storing: PulseStorage.__setitem__ puts the document of every named node into the backend. *)
From Coq Require Import String List ZArith QArith Bool Lia.
Require Import QV.C10.Model QV.C10.Spec QV.C10.Proofs.
Import ListNotations.
Open Scope string_scope.

(* ---- association lists ------------------------------------------------------------------------------------------------ *)
Lemma lookup_in {A} k (l : list (string * A)) v : lookup k l = Some v -> In (k, v) l.
Proof.
  induction l as [|[k' v'] r IH]; cbn; [discriminate|]. destruct (String.eqb k k') eqn:E.
  - apply String.eqb_eq in E as ->. intros [= ->]. now left.
  - intros H. right. auto.
Qed.
Lemma lookup_none_notin {A} k (l : list (string * A)) : lookup k l = None -> ~ In k (map fst l).
Proof.
  induction l as [|[k' v'] r IH]; cbn; [tauto|]. destruct (String.eqb k k') eqn:E; [discriminate|].
  apply String.eqb_neq in E. intros H [H1|H1]; [congruence|]. now apply IH.
Qed.
Lemma notin_lookup_none {A} k (l : list (string * A)) : ~ In k (map fst l) -> lookup k l = None.
Proof.
  induction l as [|[k' v'] r IH]; cbn; [reflexivity|]. intros H. destruct (String.eqb k k') eqn:E.
  - apply String.eqb_eq in E. exfalso. apply H. left. congruence.
  - apply IH. tauto.
Qed.
Lemma in_lookup_nodup {A} k (l : list (string * A)) v : NoDup (map fst l) -> In (k, v) l -> lookup k l = Some v.
Proof.
  induction l as [|[k' v'] r IH]; cbn; [tauto|]. intros Hn [H|H].
  - injection H as -> ->. now rewrite String.eqb_refl.
  - inversion Hn; subst. destruct (String.eqb k k') eqn:E.
    + apply String.eqb_eq in E as ->. exfalso. apply H2. apply in_map_iff. exists (k', v). auto.
    + auto.
Qed.
Lemma has_key_lookup {A} k (l : list (string * A)) : has_key k l = true <-> exists v, lookup k l = Some v.
Proof. unfold has_key. destruct (lookup k l); split; eauto; try discriminate. intros [v H]; discriminate. Qed.
Lemma has_key_false {A} k (l : list (string * A)) : has_key k l = false <-> lookup k l = None.
Proof. unfold has_key. destruct (lookup k l); split; congruence. Qed.

(* be_put / tx_put are the same function on different value types *)
Section Put.
Context {A : Type}.
Fixpoint put (l : list (string * A)) (i : string) (d : A) : list (string * A) :=
  match l with
  | [] => [(i, d)]
  | (k, v) :: r => if String.eqb k i then (k, d) :: r else (k, v) :: put r i d
  end.
Lemma lookup_put_same l i d : lookup i (put l i d) = Some d.
Proof.
  induction l as [|[k v] r IH]; cbn; [now rewrite String.eqb_refl|].
  destruct (String.eqb k i) eqn:E; cbn.
  - rewrite String.eqb_sym, E. reflexivity.
  - rewrite String.eqb_sym, E. exact IH.
Qed.
Lemma lookup_put_other l i d k : k <> i -> lookup k (put l i d) = lookup k l.
Proof.
  intros Hk. induction l as [|[k' v] r IH]; cbn.
  - apply String.eqb_neq in Hk. now rewrite Hk.
  - destruct (String.eqb k' i) eqn:E; cbn.
    + apply String.eqb_eq in E as ->. apply String.eqb_neq in Hk. now rewrite Hk.
    + destruct (String.eqb k k'); auto.
Qed.
Lemma put_keys l i d k : In k (map fst (put l i d)) <-> k = i \/ In k (map fst l).
Proof.
  induction l as [|[k' v] r IH]; cbn; [intuition|].
  destruct (String.eqb k' i) eqn:E; cbn.
  - apply String.eqb_eq in E as ->. intuition.
  - rewrite IH. intuition.
Qed.
Lemma put_nodup l i d : NoDup (map fst l) -> NoDup (map fst (put l i d)).
Proof.
  induction l as [|[k' v] r IH]; cbn; intros H.
  - constructor; [tauto|constructor].
  - inversion H; subst. destruct (String.eqb k' i) eqn:E; cbn; [constructor; auto|].
    constructor; [|auto]. rewrite put_keys. apply String.eqb_neq in E. intros [->|Hc]; [congruence|tauto].
Qed.
Lemma put_in l i d k v : In (k, v) (put l i d) -> (k = i /\ v = d) \/ In (k, v) l.
Proof.
  induction l as [|[k' v'] r IH]; cbn.
  - intros [[= <- <-]|[]]. auto.
  - destruct (String.eqb k' i) eqn:E; cbn.
    + apply String.eqb_eq in E as ->. intros [[= <- <-]|H]; auto.
    + intros [H|H]; auto. destruct (IH H); auto.
Qed.
End Put.
Lemma be_put_put be i d : be_put be i d = put be i d.
Proof. induction be as [|[k v] r IH]; cbn; [reflexivity|]. now rewrite IH. Qed.
Lemma tx_put_put (t : tx) i e : tx_put t i e = put t i e.
Proof. induction t as [|[k v] r IH]; cbn; [reflexivity|]. now rewrite IH. Qed.

Definition flush_be (t : tx) (be : backend) : backend := fold_left (fun be e => be_put be (fst e) (fst (snd e))) t be.
Definition flush_tmp (t : tx) (tmp : list (string * pt)) := fold_left (fun tmp e => (fst e, snd (snd e)) :: tmp) t tmp.

Lemma lookup_flush_be t : forall be k, NoDup (map fst t) ->
  lookup k (flush_be t be) = match lookup k t with Some e => Some (fst e) | None => lookup k be end.
Proof.
  unfold flush_be. induction t as [|[k0 e0] r IH]; intros be k Hn; cbn [fold_left lookup]; [reflexivity|].
  inversion Hn; subst. rewrite IH by assumption. cbn [fst snd]. rewrite be_put_put.
  destruct (String.eqb k k0) eqn:E.
  - apply String.eqb_eq in E as ->. rewrite (notin_lookup_none k0 r) by assumption. apply lookup_put_same.
  - apply String.eqb_neq in E. destruct (lookup k r); [reflexivity|]. now apply lookup_put_other.
Qed.
Lemma flush_be_keys t : forall be k, In k (map fst (flush_be t be)) <-> In k (map fst t) \/ In k (map fst be).
Proof.
  unfold flush_be. induction t as [|[k0 e0] r IH]; intros be k; cbn [fold_left map fst]; [cbn; tauto|].
  rewrite IH. cbn [fst snd]. rewrite be_put_put, put_keys. cbn. intuition.
Qed.
Lemma flush_be_nodup t : forall be, NoDup (map fst be) -> NoDup (map fst (flush_be t be)).
Proof.
  unfold flush_be. induction t as [|[k0 e0] r IH]; intros be H; cbn [fold_left]; [assumption|].
  apply IH. rewrite be_put_put. now apply put_nodup.
Qed.
Lemma flush_tmp_in t : forall tmp j q, In (j, q) (flush_tmp t tmp) -> In (j, q) tmp \/ exists d, In (j, (d, q)) t.
Proof.
  unfold flush_tmp. induction t as [|[k0 [d0 q0]] r IH]; intros tmp j q; cbn [fold_left]; [auto|].
  intros H. apply IH in H as [H|[d H]].
  - cbn in H. destruct H as [[= <- <-]|H]; [right; exists d0; now left|auto].
  - right. exists d. now right.
Qed.

(* ---- what visiting collects ---------------------------------------------------------------------------------------- *)
Section Visit.
Variable s : sstate.
Variable N : pt -> Prop.                  (* the nodes of the tree being stored *)
Hypothesis Ncons : forall a b k, N a -> N b -> pt_id a = Some k -> pt_id b = Some k -> a = b.
Hypothesis Hheap : forall j q c, In (j, q) (s_temp s) -> N c -> pt_oid q = pt_oid c -> q = c.
Hypothesis Htemp : forall j q, In (j, q) (s_temp s) -> N q -> be_holds q (s_be s).

Definition tx_ok (t : tx) : Prop :=
  NoDup (map fst t) /\
  forall k e, In (k, e) t -> N (snd e) /\ pt_id (snd e) = Some k /\ fst e = to_data (snd e) /\ in_storage s k = false.
Definition tx_le (t t' : tx) : Prop := forall k e, lookup k t = Some e -> lookup k t' = Some e.
Definition covered (t : tx) (n : pt) : Prop :=
  forall k, pt_id n = Some k -> lookup k t = Some (to_data n, n) \/ lookup k (s_be s) = Some (to_data n).

Lemma tx_le_refl t : tx_le t t. Proof. intros k e H; exact H. Qed.
Lemma tx_le_trans a b c : tx_le a b -> tx_le b c -> tx_le a c.
Proof. intros H1 H2 k e H. auto. Qed.
Lemma covered_mono t t' n : tx_le t t' -> covered t n -> covered t' n.
Proof. intros L C k Hk. destruct (C k Hk); auto. Qed.

Lemma tx_put_ok t c i : tx_ok t -> N c -> pt_id c = Some i -> in_storage s i = false ->
  tx_ok (tx_put t i (to_data c, c)) /\ tx_le t (tx_put t i (to_data c, c)) /\
  lookup i (tx_put t i (to_data c, c)) = Some (to_data c, c).
Proof.
  intros [Hn He] Hc Hi Hs. rewrite tx_put_put. split; [|split].
  - split; [now apply put_nodup|]. intros k e H. apply put_in in H as [[-> ->]|H]; [cbn; auto|auto].
  - intros k e H. destruct (String.eqb k i) eqn:E.
    + apply String.eqb_eq in E as ->. rewrite lookup_put_same. f_equal.
      apply lookup_in in H. destruct (He i e H) as (H1 & H2 & H3 & _).
      assert (snd e = c) by (eapply Ncons; eauto). destruct e as [d q]. cbn in *. subst. reflexivity.
    + apply String.eqb_neq in E. now rewrite lookup_put_other.
  - apply lookup_put_same.
Qed.

Definition vspec (p : pt) : Prop :=
  (forall x, In x (descendants p) -> N x) -> forall t t', tx_ok t -> visit s p t = Ok t' ->
  tx_ok t' /\ tx_le t t' /\ forall n, In n (descendants p) -> covered t' n.

Lemma visit_one_spec c : vspec c -> (forall x, In x (nodes c) -> N x) -> forall t t', tx_ok t ->
  visit_one (visit s) s c t = Ok t' -> tx_ok t' /\ tx_le t t' /\ forall n, In n (nodes c) -> covered t' n.
Proof.
  intros IH Hc t t' Ht. unfold visit_one.
  assert (Hd : forall x, In x (descendants c) -> N x) by (intros x Hx; apply Hc; rewrite nodes_cons; now right).
  destruct (pt_id c) as [i|] eqn:Ei.
  - destruct (in_storage s i) eqn:Es; cbn [negb].
    + destruct (lookup i (s_temp s)) as [q|] eqn:El; [|discriminate].
      destruct (N.eqb (pt_oid q) (pt_oid c)) eqn:Eo; [|discriminate]. intros [= <-].
      apply N.eqb_eq in Eo. apply lookup_in in El.
      assert (Nc : N c) by (apply Hc; rewrite nodes_cons; now left).
      assert (q = c) as -> by (eapply Hheap; eauto).
      split; [assumption|]. split; [apply tx_le_refl|]. intros n Hn k Hk. right. eapply Htemp; eauto.
    + destruct (visit s c t) as [t1|] eqn:Ev; [|discriminate]. cbn [bind]. intros [= <-].
      destruct (IH Hd t t1 Ht Ev) as (O1 & L1 & C1).
      assert (Nc : N c) by (apply Hc; rewrite nodes_cons; now left).
      destruct (tx_put_ok t1 c i O1 Nc Ei Es) as (O2 & L2 & Lk).
      split; [assumption|]. split; [eapply tx_le_trans; eauto|].
      intros n Hn. rewrite nodes_cons in Hn. destruct Hn as [<-|Hn].
      * intros k Hk. left. congruence.
      * eapply covered_mono; eauto.
  - intros Ev. destruct (IH Hd t t' Ht Ev) as (O1 & L1 & C1). split; [assumption|]. split; [assumption|].
    intros n Hn. rewrite nodes_cons in Hn. destruct Hn as [<-|Hn]; [|auto]. intros k Hk. congruence.
Qed.

Lemma visit_list_spec subs : Forall vspec subs -> (forall x, In x (flat_map nodes subs) -> N x) -> forall t t', tx_ok t ->
  visit_list (visit s) s subs t = Ok t' -> tx_ok t' /\ tx_le t t' /\ forall n, In n (flat_map nodes subs) -> covered t' n.
Proof.
  induction 1 as [|c r Hc Hr IH]; intros HN t t' Ht; cbn [visit_list flat_map].
  - intros [= <-]. split; [assumption|]. split; [apply tx_le_refl|]. intros n [].
  - destruct (visit_one (visit s) s c t) as [t1|] eqn:E1; [|discriminate]. cbn [bind]. intros E2.
    cbn [flat_map] in HN.
    destruct (visit_one_spec c Hc (fun x Hx => HN x (in_or_app _ _ _ (or_introl Hx))) t t1 Ht E1) as (O1 & L1 & C1).
    destruct (IH (fun x Hx => HN x (in_or_app _ _ _ (or_intror Hx))) t1 t' O1 E2) as (O2 & L2 & C2).
    split; [assumption|]. split; [eapply tx_le_trans; eauto|].
    intros n Hn. apply in_app_or in Hn as [Hn|Hn]; [eapply covered_mono; eauto|auto].
Qed.

Ltac leaf := intros HN t t' Ht Ev; cbn [visit] in Ev; destruct (negb _); [discriminate|]; injection Ev as <-;
  (split; [assumption|]); (split; [apply tx_le_refl|]); intros nn [].
Ltac one IHp := intros HN t t' Ht Ev; cbn [visit] in Ev; destruct (negb _); [discriminate|];
  apply (visit_one_spec _ IHp) in Ev; [|intros x Hx; apply HN; unfold descendants; cbn [nodes tl]; exact Hx|assumption];
  destruct Ev as (O1 & L1 & C1); (split; [assumption|]); (split; [assumption|]); intros nn Hnn; apply C1; exact Hnn.
Ltac many H := intros HN t t' Ht Ev; cbn [visit] in Ev; destruct (negb _); [discriminate|];
  apply (visit_list_spec _ H) in Ev; [|intros x Hx; apply HN; unfold descendants; cbn [nodes tl]; exact Hx|assumption];
  destruct Ev as (O1 & L1 & C1); (split; [assumption|]); (split; [assumption|]); intros nn Hnn; apply C1; exact Hnn.

Lemma visit_spec : forall p, vspec p.
Proof.
  induction p using pt_ind2; unfold vspec.
  - leaf. - leaf. - leaf. - leaf.
  - many H.
  - one IHp. - one IHp. - one IHp.
  - many H.
  - one IHp. - one IHp.
  - intros HN t t' Ht Ev; cbn [visit] in Ev. destruct (negb _); [discriminate|].
    destruct (visit_one (visit s) s p1 t) as [t1|] eqn:E1; [|discriminate]. cbn [bind] in Ev.
    apply (visit_one_spec _ IHp1) in E1; [|intros x Hx; apply HN; unfold descendants; cbn [nodes tl]; apply in_or_app; now left|assumption].
    destruct E1 as (O1 & L1 & C1).
    apply (visit_one_spec _ IHp2) in Ev; [|intros x Hx; apply HN; unfold descendants; cbn [nodes tl]; apply in_or_app; now right|assumption].
    destruct Ev as (O2 & L2 & C2).
    split; [assumption|]. split; [eapply tx_le_trans; eauto|].
    intros nn Hn. unfold descendants in Hn. cbn [nodes tl] in Hn. apply in_app_or in Hn as [Hn|Hn]; [eapply covered_mono; eauto|auto].
  - one IHp.
  - leaf.
Qed.
End Visit.

Lemma in_cons_desc P x : In x (descendants P) -> In x (nodes P).
Proof. intros H. rewrite nodes_cons. now right. Qed.

(* ---- one store ---------------------------------------------------------------------------------------------------------- *)
Lemma be_holds_sub P n be : In n (nodes P) -> be_holds P be -> be_holds n be.
Proof. intros Hn H m k Hm Hk. apply H; [eapply nodes_trans; eauto|assumption]. Qed.
Lemma be_holds_ext P be be' : be_extends be be' -> be_holds P be -> be_holds P be'.
Proof. intros E H n k Hn Hk. apply E. now apply H. Qed.
Lemma be_extends_refl be : be_extends be be. Proof. intros k d H; exact H. Qed.
Lemma be_extends_trans a b c : be_extends a b -> be_extends b c -> be_extends a c.
Proof. intros H1 H2 k d H. auto. Qed.

Lemma store_step : forall (U : pt -> Prop) s P s',
  (forall x, In x (nodes P) -> U x) -> temp_ok U (s_temp s) (s_be s) -> heap_ok (s_temp s) P -> consistent P ->
  store s P = Ok s' ->
  temp_ok U (s_temp s') (s_be s') /\ be_extends (s_be s) (s_be s') /\ be_holds P (s_be s')
  /\ (be_unique (s_be s) -> be_unique (s_be s'))
  /\ (forall k, has_key k (s_be s') = true -> has_key k (s_be s) = true \/ exists n, In n (nodes P) /\ pt_id n = Some k)
  /\ (forall j q, In (j, q) (s_temp s') -> In (j, q) (s_temp s) \/ In q (nodes P)).
Proof.
  intros U s P s' HU HT HH HC. unfold store. destruct (pt_id P) as [i|] eqn:Ei; [|discriminate].
  destruct (lookup i (s_temp s)) as [q|] eqn:El.
  { destruct (N.eqb (pt_oid q) (pt_oid P)) eqn:Eo; [|discriminate]. intros [= <-].
    apply N.eqb_eq in Eo. apply lookup_in in El.
    assert (q = P) as -> by (eapply HH; eauto; rewrite nodes_cons; now left).
    split; [assumption|]. split; [apply be_extends_refl|]. split; [apply (HT i P El)|]. split; [auto|]. split; auto. }
  destruct (has_key i (s_be s)) eqn:Eb; [discriminate|].
  destruct (visit s P []) as [t|] eqn:Ev; [|discriminate]. cbn [bind]. intros [= <-]. cbn [s_temp s_be].
  set (N := fun x => In x (nodes P)).
  assert (Ncons : forall a b k, N a -> N b -> pt_id a = Some k -> pt_id b = Some k -> a = b) by (intros; eapply HC; eauto).
  assert (Hheap : forall j q c, In (j, q) (s_temp s) -> N c -> pt_oid q = pt_oid c -> q = c) by (intros; eapply HH; eauto).
  assert (Htemp : forall j q, In (j, q) (s_temp s) -> N q -> be_holds q (s_be s)) by (intros j q H _; apply (HT j q H)).
  assert (T0 : tx_ok s N []) by (split; [constructor|intros k e []]).
  destruct (visit_spec s N Ncons Hheap Htemp P (fun x Hx => in_cons_desc P x Hx) [] t T0 Ev) as (O1 & L1 & C1).
  assert (Es : in_storage s i = false).
  { unfold in_storage. rewrite Eb. apply has_key_false in El. now rewrite El. }
  assert (NP : N P) by (unfold N; rewrite nodes_cons; now left).
  destruct (tx_put_ok s N Ncons t P i O1 NP Ei Es) as (O2 & L2 & Lk).
  set (t2 := tx_put t i (to_data P, P)) in *.
  change (fold_left _ t2 (s_be s)) with (flush_be t2 (s_be s)).
  change (fold_left _ t2 (s_temp s)) with (flush_tmp t2 (s_temp s)).
  destruct O2 as [Nd He].
  (* keys written are new *)
  assert (Hnew : forall k e, lookup k t2 = Some e -> lookup k (s_be s) = None).
  { intros k e H. apply lookup_in in H. destruct (He k e H) as (_ & _ & _ & Hs). unfold in_storage in Hs.
    apply orb_false_iff in Hs as [_ Hs]. now apply has_key_false. }
  assert (Hext : be_extends (s_be s) (flush_be t2 (s_be s))).
  { intros k d H. rewrite lookup_flush_be by assumption. destruct (lookup k t2) as [e|] eqn:E; [|assumption].
    rewrite (Hnew k e E) in H. discriminate. }
  assert (Hholds : be_holds P (flush_be t2 (s_be s))).
  { intros n k Hn Hk. rewrite lookup_flush_be by assumption.
    assert (Cn : covered s t2 n).
    { rewrite nodes_cons in Hn. destruct Hn as [<-|Hn].
      - intros k' Hk'. left. congruence.
      - eapply covered_mono; [exact L2|]. now apply C1. }
    destruct (Cn k Hk) as [H|H].
    - now rewrite H.
    - destruct (lookup k t2) as [e|] eqn:E; [|assumption]. rewrite (Hnew k e E) in H. discriminate. }
  split.
  { intros j q H. apply flush_tmp_in in H as [H|[d H]].
    - destruct (HT j q H) as (H1 & H2 & H3). split; [assumption|]. split; [assumption|]. eapply be_holds_ext; eauto.
    - destruct (He j (d, q) H) as (H1 & H2 & _ & _). cbn in H1, H2. split; [assumption|]. split.
      + intros x Hx. apply HU. eapply nodes_trans; eauto.
      + eapply be_holds_sub; eauto. }
  split; [assumption|]. split; [assumption|]. split; [apply flush_be_nodup|]. split.
  - intros k H. apply has_key_lookup in H as [v H]. rewrite lookup_flush_be in H by assumption.
    destruct (lookup k t2) as [e|] eqn:E.
    + right. apply lookup_in in E. destruct (He k e E) as (H1 & H2 & _). eauto.
    + left. apply has_key_lookup. eauto.
  - intros j q H. apply flush_tmp_in in H as [H|[d H]]; [auto|]. right. destruct (He j (d, q) H) as (H1 & _). exact H1.
Qed.

Lemma store_fresh : forall be0 P s', consistent P -> store (empty_s be0) P = Ok s' ->
  be_extends be0 (s_be s') /\ be_holds P (s_be s').
Proof.
  intros be0 P s' HC E.
  destruct (store_step (fun _ => True) (empty_s be0) P s') as (_ & H1 & H2 & _); auto.
  - intros j q [].
  - intros j q c [].
Qed.

Lemma storage_statement : forall P s' i, wf P = true -> consistent P -> pt_id P = Some i ->
  store (empty_s []) P = Ok s' ->
  exists p' st', load (length (nodes P)) (s_be s') fresh_l i = Ok (p', st') /\ erase p' = erase P.
Proof.
  intros P s' i Hw Hc Hi E. destruct (store_fresh [] P s' Hc E) as [_ Hb]. now apply load_roundtrip.
Qed.

(* ---- histories over two PulseStorage instances on one backend ------------------------------------------------------- *)
Lemma temp_ok_ext U tmp be be' : be_extends be be' -> temp_ok U tmp be -> temp_ok U tmp be'.
Proof.
  intros E H j q Hq. destruct (H j q Hq) as (H1 & H2 & H3). split; [assumption|]. split; [assumption|].
  eapply be_holds_ext; eauto.
Qed.

Lemma hstore_step : forall U h w P h', oid_coherent U -> (forall x, In x (nodes P) -> U x) -> hinv U h -> consistent P ->
  hstore h w P = Ok h' -> hinv U h' /\ be_extends (hbe h) (hbe h') /\ be_holds P (hbe h').
Proof.
  intros U h w P h' HO HU [I0 I1] HC. unfold hstore. destruct (store (hsel h w) P) as [s'|] eqn:E; [|discriminate].
  cbn [bind]. intros [= <-].
  assert (HT : temp_ok U (s_temp (hsel h w)) (s_be (hsel h w))).
  { unfold hsel. cbn. destruct (Nat.eqb w 0); assumption. }
  assert (HH : heap_ok (s_temp (hsel h w)) P).
  { intros j q c Hq Hc Ho. apply HO; [|auto|assumption]. destruct (HT j q Hq) as (_ & H2 & _). apply H2.
    rewrite nodes_cons. now left. }
  destruct (store_step U (hsel h w) P s' HU HT HH HC E) as (T' & Ex & Hb & _).
  unfold hupd, hinv. cbn [hsel s_be s_temp] in *. destruct (Nat.eqb w 0); cbn [t0 t1 hbe].
  - split; [|auto]. split; [assumption|]. eapply temp_ok_ext; eauto.
  - split; [|auto]. split; [|assumption]. eapply temp_ok_ext; eauto.
Qed.

Lemma hrun_inv U : oid_coherent U -> forall ops h, hinv U h ->
  (forall w p, In (w, p) ops -> consistent p /\ forall x, In x (nodes p) -> U x) ->
  hinv U (fst (hrun h ops)) /\ be_extends (hbe h) (hbe (fst (hrun h ops))).
Proof.
  intros HO. induction ops as [|[w p] r IH]; intros h Hi Hops; cbn [hrun].
  - cbn. split; [assumption|apply be_extends_refl].
  - unfold hstep. cbn [fst snd]. destruct (Hops w p (or_introl eq_refl)) as [Hc Hu].
    destruct (hstore h w p) as [h1|] eqn:E.
    + destruct (hstore_step U h w p h1 HO Hu Hi Hc E) as (I1 & E1 & _).
      specialize (IH h1 I1 (fun w' p' H => Hops w' p' (or_intror H))).
      destruct (hrun h1 r) as [h2 os]. cbn [fst] in *. destruct IH as [I2 E2]. split; [assumption|].
      eapply be_extends_trans; eauto.
    + specialize (IH h Hi (fun w' p' H => Hops w' p' (or_intror H))).
      destruct (hrun h r) as [h2 os]. cbn [fst] in *. exact IH.
Qed.

Lemma hrun_app h a b : fst (hrun h (a ++ b)%list) = fst (hrun (fst (hrun h a)) b).
Proof.
  revert h. induction a as [|op r IH]; intros h; cbn [app hrun]; [reflexivity|].
  destruct (hstep h op) as [h1 o]. specialize (IH h1). destruct (hrun h1 (r ++ b)%list), (hrun h1 r). cbn [fst] in *. exact IH.
Qed.

Lemma hrun_cons_ok h w p h' r : hstore h w p = Ok h' -> fst (hrun h ((w, p) :: r)) = fst (hrun h' r).
Proof. intros E. cbn [hrun]. unfold hstep. cbn [fst snd]. rewrite E. now destruct (hrun h' r). Qed.

Lemma storage_history : forall be0 ops pre w P post i,
  oid_coherent (live ops) -> (forall w p, In (w, p) ops -> consistent p) ->
  ops = (pre ++ (w, P) :: post)%list -> wf P = true -> pt_id P = Some i ->
  (exists h', hstore (fst (hrun (empty_h be0) pre)) w P = Ok h') ->
  let be := hbe (fst (hrun (empty_h be0) ops)) in
  be_extends be0 be /\ be_holds P be /\
  exists p' st', load (length (nodes P)) be fresh_l i = Ok (p', st') /\ erase p' = erase P.
Proof.
  intros be0 ops pre w P post i HO HC -> Hw Hi [h' E]. cbn zeta.
  set (U := live (pre ++ (w, P) :: post)%list) in *.
  assert (Hall : forall w' p', In (w', p') (pre ++ (w, P) :: post)%list -> consistent p' /\ forall x, In x (nodes p') -> U x).
  { intros w' p' H. split; [eapply HC; eauto|]. intros x Hx. exists w', p'. auto. }
  assert (I0 : hinv U (empty_h be0)) by (split; intros j q []).
  destruct (hrun_inv U HO pre (empty_h be0) I0) as [I1 E1].
  { intros w' p' H. apply (Hall w' p'). apply in_or_app. now left. }
  destruct (Hall w P) as [HcP HuP]; [apply in_or_app; right; now left|].
  destruct (hstore_step U _ w P h' HO HuP I1 HcP E) as (I2 & E2 & Hb).
  rewrite hrun_app, (hrun_cons_ok _ _ _ _ _ E).
  destruct (hrun_inv U HO post h' I2) as [I3 E3].
  { intros w' p' H. apply (Hall w' p'). apply in_or_app. right. now right. }
  destruct (hrun h' post) as [h3 os]. cbn [fst] in *.
  assert (Hb3 : be_holds P (hbe h3)) by (eapply be_holds_ext; eauto).
  split; [eapply be_extends_trans; [exact E1|eapply be_extends_trans; eauto]|]. split; [exact Hb3|].
  apply load_roundtrip; auto.
Qed.
