(* C10 — round 3: histories with explicit overwrite and deletion (definitions only).
   PulseStorage.overwrite(identifier, serializable): no identity check at the top, the object is encoded again (its named
   children are stored when the storage does not have their identifier), flushed with overwrite=True.
   PulseStorage.__setitem__(identifier, serializable) = identity checks under `identifier`, then overwrite.
   PulseStorage.__delitem__(identifier): del backend[identifier] (KeyError when absent), then the entry of the temporary
   storage is dropped.  The key is explicit: for every ordinary template it is the template's own identifier; an
   AbstractPulseTemplate linked with serialize_linked=True is stored under ITS identifier with the data of its target. *)
From Coq Require Import String List ZArith QArith Bool.
Require Import QV.C10.Model.
Import ListNotations.
Open Scope string_scope.

Definition flush (s : sstate) (t : tx) : sstate :=
  mkS (fold_left (fun tmp e => (fst e, snd (snd e)) :: tmp) t (s_temp s))
      (fold_left (fun be e => be_put be (fst e) (fst (snd e))) t (s_be s)).

Definition overwrite_as (s : sstate) (key : string) (p : pt) : result sstate :=
  do t <- visit s p []; Ok (flush s (tx_put t key (to_data p, p))).

Definition store_as (s : sstate) (key : string) (p : pt) : result sstate :=
  match lookup key (s_temp s) with
  | Some q => if N.eqb (pt_oid q) (pt_oid p) then Ok s else Err ERuntime
  | None => if has_key key (s_be s) then Err ERuntime else overwrite_as s key p
  end.

Definition drop_key {A} (k : string) (l : list (string * A)) : list (string * A) :=
  filter (fun kv => negb (String.eqb (fst kv) k)) l.

Definition delete (s : sstate) (key : string) : result sstate :=
  if has_key key (s_be s) then Ok (mkS (drop_key key (s_temp s)) (drop_key key (s_be s))) else Err EKey.

(* operations of a history; w selects the PulseStorage instance (0 / 1) as in Model.hstate *)
Inductive hop :=
| HStore (w : nat) (key : string) (p : pt)
| HOver (w : nat) (key : string) (p : pt)
| HDel (w : nat) (key : string).

Definition hop_w (o : hop) : nat := match o with HStore w _ _ | HOver w _ _ | HDel w _ => w end.

Definition sop (s : sstate) (o : hop) : result sstate :=
  match o with
  | HStore _ k p => store_as s k p
  | HOver _ k p => overwrite_as s k p
  | HDel _ k => delete s k
  end.

Definition hop_step (h : hstate) (o : hop) : hstate * result unit :=
  match sop (hsel h (hop_w o)) o with
  | Ok s' => (hupd h (hop_w o) s', Ok tt)
  | Err e => (h, Err e)                     (* a failed operation changes nothing *)
  end.

Fixpoint hrun2 (h : hstate) (ops : list hop) : hstate * list (result unit) :=
  match ops with
  | [] => (h, [])
  | o :: r => let (h1, x) := hop_step h o in let (h2, xs) := hrun2 h1 r in (h2, x :: xs)
  end.

(* ordinary operations: the key is the template's own identifier *)
Definition keyed (o : hop) : Prop :=
  match o with HStore _ k p | HOver _ k p => pt_id p = Some k | HDel _ _ => True end.
Definition hop_pt (o : hop) : option pt := match o with HStore _ _ p | HOver _ _ p => Some p | HDel _ _ => None end.
(* the old histories are the histories of HStore operations *)
Definition as_hops (ops : list (nat * pt)) : list hop :=
  flat_map (fun op => match pt_id (snd op) with Some i => [HStore (fst op) i (snd op)] | None => [] end) ops.
