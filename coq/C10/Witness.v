(* C10 — concrete witnesses: non-vacuity example and the two refutations (evaluated by the kernel). *)
From Coq Require Import String List ZArith QArith Bool.
Require Import QV.C10.Model QV.C10.Spec.
Import ListNotations.
Open Scope string_scope.

Definition ex_x : pt := PConst (mkHdr 1 (Some "x")) "constant_pulse" (EInt 4) [(CS "A", EStr "a")] [("m", EInt 0, EInt 4)].
Definition ex_r : pt := PRep (mkHdr 2 None) ex_x (EStr "n") [] [].
Definition ex_P : pt := PSeq (mkHdr 3 (Some "s")) [ex_x; ex_r; ex_x] ["a < b"] [].

Lemma ex_P_ok : wf ex_P = true /\ consistent ex_P /\ pt_id ex_P = Some "s" /\
  (exists s', store (empty_s []) ex_P = Ok s' /\ be_holds ex_P (s_be s')) /\ doc_fields_ok (to_data ex_P) = true.
Proof.
  split; [reflexivity|]. split.
  { intros n n' i Hn Hn' Hi Hi'. cbn in Hn, Hn'.
    repeat (destruct Hn as [<-|Hn]; [|]); try contradiction;
    repeat (destruct Hn' as [<-|Hn']; [|]); try contradiction; cbn in Hi, Hi'; congruence. }
  split; [reflexivity|]. split; [|reflexivity].
  eexists. split; [vm_compute; reflexivity|].
  intros n i Hn Hi. cbn in Hn.
  repeat (destruct Hn as [<-|Hn]; [|]); try contradiction; cbn in Hi; try discriminate; injection Hi as <-; reflexivity.
Qed.

Definition bad_int : pt := PTable (mkHdr 1 None) [(CI 0, [(EInt 0, VScalar (EInt 1), IHold)])] [] [].
Lemma refuted_int_key : exists p, pt_id p = None /\
  forall rs st p' st', decode rs (to_data p) st = Ok (p', st') -> erase p' <> erase p.
Proof.
  exists bad_int. split; [reflexivity|]. intros rs st p' st' E. vm_compute in E. injection E as <- _. discriminate.
Qed.

Definition dup_a : pt := PConst (mkHdr 1 (Some "x")) "constant_pulse" (EInt 4) [(CS "A", EInt 1)] [].
Definition dup_b : pt := PConst (mkHdr 2 (Some "x")) "constant_pulse" (EInt 8) [(CS "A", EInt 3)] [].
Definition dup_P : pt := PSeq (mkHdr 3 (Some "s")) [dup_a; dup_b] [] [].
Lemma refuted_dup_identifier : exists P s' p' st', wf P = true /\
  store (empty_s []) P = Ok s' /\ load 8 (s_be s') fresh_l "s" = Ok (p', st') /\ erase p' <> erase P.
Proof.
  exists dup_P. eexists. eexists. eexists. split; [reflexivity|]. split; [vm_compute; reflexivity|].
  split; [vm_compute; reflexivity|]. vm_compute. discriminate.
Qed.
