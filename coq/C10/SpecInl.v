(* C10 — round 3: the inline part of a template (its own dicts and those of the unnamed templates embedded in its document) *)
From Coq Require Import String List ZArith QArith Bool.
Require Import QV.C10.Model QV.C10.Spec.
Import ListNotations.
Open Scope string_scope.

(* all dict keys in p's own document are strings: p's own dicts and, recursively, the dicts of its unnamed children (named
   children are separate documents) *)
Fixpoint inl_cs (p : pt) : bool :=
  let ck := fun c : pt => match pt_id c with Some _ => true | None => inl_cs c end in
  own_cs p &&
  match p with
  | PSeq _ subs _ _ | PAmc _ subs _ _ _ => forallb ck subs
  | PRep _ b _ _ _ | PFor _ b _ _ _ _ | PMap _ b _ _ _ _ | PPar _ b _ | PArith _ b _ _ _ | PRev _ b => ck b
  | PAA _ l r _ _ => ck l && ck r
  | _ => true
  end.
Definition cokb (c : pt) : bool := match pt_id c with Some _ => true | None => inl_cs c end.
(* references resolve to named objects (what a PulseStorage returns for an identifier written by a store) *)
Definition named_resolver (rs : resolver) : Prop := forall st i q st', rs st i = Ok (q, st') -> pt_id q <> None.
