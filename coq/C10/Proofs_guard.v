(* C10 — the guard of finding int_channel_key is tight: EVERY template whose own dict has an integer channel key fails to
   load back equal (not only the witness), for every class, resolver and loader state. *)
From Coq Require Import String List ZArith QArith Bool.
Require Import QV.C10.Model QV.C10.Spec.
Import ListNotations.
Open Scope string_scope.

Lemma own_cs_erase p : own_cs (erase p) = own_cs p.
Proof. destruct p; try reflexivity. Qed.

Lemma dec_cdict_cs {A} (f : json -> result A) j m : dec_cdict f j = Ok m -> cs_keys m = true.
Proof.
  unfold dec_cdict. destruct (dec_dict f j) as [m0|]; cbn [bind]; [|discriminate]. intros [= <-].
  unfold cs_keys. induction m0; cbn; auto.
Qed.
Lemma req_cs {A} (f : json -> result A) k kw m : req k kw (raw (dec_cdict f)) = Ok m -> cs_keys m = true.
Proof. unfold req. destruct (lookup k kw) as [[j| |]|]; cbn [raw]; try discriminate. apply dec_cdict_cs. Qed.
Lemma opt_cs {A} (f : json -> result A) k kw m : opt k kw (raw (dec_cdict f)) [] = Ok m -> cs_keys m = true.
Proof.
  unfold opt. destruct (lookup k kw) as [[j| |]|]; cbn [raw]; try discriminate; [apply dec_cdict_cs|].
  intros [= <-]. reflexivity.
Qed.
Lemma opt_some_cs {A} (f : json -> result A) k kw m :
  opt k kw (some (raw (dec_cdict f))) None = Ok (Some m) -> cs_keys m = true.
Proof.
  unfold opt. destruct (lookup k kw) as [d|]; [|discriminate]. unfold some.
  destruct d as [j| |]; cbn [raw]; try discriminate.
  destruct j; try discriminate; destruct (dec_cdict f _) eqn:E; cbn [bind]; try discriminate; intros [= <-];
    eapply dec_cdict_cs; eauto.
Qed.

Ltac binv H := repeat match type of H with
  | bind ?r _ = Ok _ => let E := fresh "E" in destruct r eqn:E; cbn [bind] in H; [|discriminate H]
  | (if ?c then _ else _) = Ok _ => destruct c eqn:?; try discriminate H
  | (match ?x with _ => _ end) = Ok _ => destruct x eqn:?; try discriminate H
  end.

Lemma dscalar_cs j a0 :
  match j with
  | JObj _ => do m <- dec_cdict dec_expr j; Ok (SMap m)
  | _ => do e <- dec_expr j; Ok (SExpr e)
  end = Ok a0 -> match a0 with SExpr _ => true | SMap m => cs_keys m end = true.
Proof.
  destruct j; try (destruct (dec_expr _); cbn [bind]; [intros [= <-]; reflexivity|discriminate]).
  destruct (dec_cdict dec_expr (JObj fs)) eqn:E; cbn [bind]; [|discriminate]. intros [= <-]. eapply dec_cdict_cs; eauto.
Qed.

Lemma construct_cs tag h kw p : construct tag h kw = Ok p -> own_cs p = true.
Proof.
  intros H. unfold construct in H. cbv zeta in H.
  destruct (String.eqb tag "Table"); [binv H; injection H as <-; cbn [own_cs]; eauto using req_cs|].
  destruct (String.eqb tag "Point"); [binv H; injection H as <-; reflexivity|].
  destruct (String.eqb tag "Function"); [binv H; injection H as <-; reflexivity|].
  destruct (String.eqb tag "Constant"); [binv H; injection H as <-; cbn [own_cs]; eauto using req_cs|].
  destruct (String.eqb tag "Sequence"); [binv H; injection H as <-; reflexivity|].
  destruct (String.eqb tag "Repetition"); [binv H; injection H as <-; reflexivity|].
  destruct (String.eqb tag "ForLoop"); [binv H; injection H as <-; reflexivity|].
  destruct (String.eqb tag "Mapping"); [binv H; injection H as <-; cbn [own_cs]; eauto using opt_cs|].
  destruct (String.eqb tag "AtomicMulti"); [binv H; injection H as <-; reflexivity|].
  destruct (String.eqb tag "Parallel"); [binv H; injection H as <-; cbn [own_cs]; eauto using req_cs|].
  destruct (String.eqb tag "Arithmetic").
  { binv H; injection H as <-; cbn [own_cs]; eauto using dscalar_cs. }
  destruct (String.eqb tag "ArithmeticAtomic"); [binv H; injection H as <-; reflexivity|].
  destruct (String.eqb tag "TimeReversal"); [binv H; injection H as <-; reflexivity|].
  destruct (String.eqb tag "Abstract"); [|discriminate].
  binv H; injection H as <-; cbn [own_cs].
  all: match goal with |- match ?x with _ => _ end = true => destruct x end; [|reflexivity]; eauto using opt_some_cs.
Qed.

Lemma tag_not_ref p : String.eqb (tag_of p) T_REF = false.
Proof. destruct p; reflexivity. Qed.

Lemma decode_top_cs rs p st p' st' : decode rs (to_data p) st = Ok (p', st') -> own_cs p' = true.
Proof.
  unfold to_data. destruct p; cbn [to_data_gen hdr_fields tag_of app decode dec_fields dec_field_val bind fst snd];
  match goal with |- context[dec_fields ?D ?fs ?s] => destruct (dec_fields D fs s) as [[ds st2]|]; cbn [bind]; [|discriminate] end;
  unfold finish; cbn [lookup]; change (String.eqb K_TYPE K_TYPE) with true; cbv iota;
  match goal with |- context[String.eqb ?t T_REF] => change (String.eqb t T_REF) with false end; cbv iota;
  intros H; binv H; injection H as <- _; eapply construct_cs; eauto.
Qed.

(* every int key in an own dict is lost: the loaded object is never equal to the original *)
Lemma int_key_always_lost : forall p rs st p' st', own_cs p = false ->
  decode rs (to_data p) st = Ok (p', st') -> erase p' <> erase p.
Proof.
  intros p rs st p' st' Hp E Heq. apply decode_top_cs in E.
  rewrite <- own_cs_erase, Heq, own_cs_erase in E. congruence.
Qed.
