(* C10 — round 3: concrete histories evaluated by the kernel (non-vacuity of the history theorem, necessity of its guards). *)
From Coq Require Import String List ZArith QArith Bool.
Require Import QV.C10.Model QV.C10.Spec QV.C10.Hist QV.C10.SpecHist QV.C10.Witness.
Import ListNotations.
Open Scope string_scope.

(* seed C10-4, first history: store the parent, delete the document of its named child, overwrite the parent *)
Definition hx_ops : list hop := [HStore 0 "s" ex_P; HDel 0 "x"; HOver 0 "s" ex_P].

Lemma hist_example :
  snd (hrun2 (empty_h []) hx_ops) = [Ok tt; Ok tt; Ok tt] /\
  has_key "x" (hbe (fst (hrun2 (empty_h []) [HStore 0 "s" ex_P; HDel 0 "x"]))) = false /\
  cached_complete (hsel (fst (hrun2 (empty_h []) [HStore 0 "s" ex_P; HDel 0 "x"])) 0) ex_P /\
  be_holds ex_P (hbe (fst (hrun2 (empty_h []) hx_ops))) /\
  exists p' st', load 8 (hbe (fst (hrun2 (empty_h []) hx_ops))) fresh_l "s" = Ok (p', st') /\ erase p' = erase ex_P.
Proof.
  split; [vm_compute; reflexivity|]. split; [vm_compute; reflexivity|]. split.
  { intros j q Hq Hd. vm_compute in Hq. destruct Hq as [[= <- <-]|[]]. exfalso. cbn in Hd.
    repeat (destruct Hd as [Hd|Hd]; [discriminate Hd|]). exact Hd. }
  split.
  { intros n i Hn Hi. cbn in Hn.
    repeat (destruct Hn as [<-|Hn]; [|]); try contradiction; cbn in Hi; try discriminate; injection Hi as <-; vm_compute; reflexivity. }
  eexists. eexists. split; vm_compute; reflexivity.
Qed.

(* the guard cached_complete is needed: a named child that is still cached is skipped by the encoder, so a deleted
   grandchild below it is NOT stored again; every operation succeeds, a fresh storage cannot load the root *)
Definition g_mid : pt := PRep (mkHdr 4 (Some "mid")) ex_x (EStr "n") [] [].
Definition g_top : pt := PSeq (mkHdr 5 (Some "top")) [g_mid] [] [].
Definition g_ops : list hop := [HStore 0 "top" g_top; HDel 0 "x"; HOver 0 "top" g_top].

Lemma stale_cache_refuted :
  wf g_top = true /\ snd (hrun2 (empty_h []) g_ops) = [Ok tt; Ok tt; Ok tt] /\
  has_key "x" (hbe (fst (hrun2 (empty_h []) g_ops))) = false /\
  load 8 (hbe (fst (hrun2 (empty_h []) g_ops))) fresh_l "top" = Err EKey.
Proof. repeat split; vm_compute; reflexivity. Qed.

(* the guard `writes` is needed: pulse_storage[identifier] = P for the object that is already cached under that identifier
   returns without writing anything *)
Definition n_ops : list hop := [HStore 0 "s" ex_P; HDel 0 "x"; HStore 0 "s" ex_P].
Lemma noop_store_refuted :
  snd (hrun2 (empty_h []) n_ops) = [Ok tt; Ok tt; Ok tt] /\
  load 8 (hbe (fst (hrun2 (empty_h []) n_ops))) fresh_l "s" = Err EKey.
Proof. split; vm_compute; reflexivity. Qed.
