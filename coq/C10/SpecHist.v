(* C10 — round 3: definitions used by the statements about histories with overwrite and deletion. *)
From Coq Require Import String List ZArith QArith Bool.
Require Import QV.C10.Model QV.C10.Spec QV.C10.Hist.
Import ListNotations.
Open Scope string_scope.

(* the objects that occur in a history *)
Definition live2 (ops : list hop) (x : pt) : Prop := exists o p, In o ops /\ hop_pt o = Some p /\ In x (nodes p).
(* one identifier, one object — among ALL objects of the history (no identifier is reused for another object, no object
   changes between two operations) *)
Definition gconsistent (U : pt -> Prop) : Prop :=
  forall a b k, U a -> U b -> pt_id a = Some k -> pt_id b = Some k -> a = b.
(* whatever the backend holds under the identifier of an object of the history is that object's document *)
Definition agrees (U : pt -> Prop) (be : backend) : Prop :=
  forall k d n, lookup k be = Some d -> U n -> pt_id n = Some k -> d = to_data n.
(* all documents of q's named nodes are present *)
Definition keys_present (q : pt) (be : backend) : Prop :=
  forall n k, In n (nodes q) -> pt_id n = Some k -> has_key k be = true.
(* the named proper descendants of P that this PulseStorage still caches are completely in the backend (the encoder
   skips them: "Assumes that all pulses contained in temporary storage are always also contained in the storage
   backend", PulseStorage.__delitem__) *)
Definition cached_complete (s : sstate) (P : pt) : Prop :=
  forall j q, In (j, q) (s_temp s) -> In q (descendants P) -> keys_present q (s_be s).
Definition deletes (ops : list hop) (k : string) : Prop := exists w, In (HDel w k) ops.
(* an operation that encodes P again and writes it under its identifier i: overwrite, or a store that is not answered
   from the temporary storage *)
Definition writes (s : sstate) (o : hop) (w : nat) (i : string) (P : pt) : Prop :=
  o = HOver w i P \/ (o = HStore w i P /\ lookup i (s_temp s) = None).
(* no named proper descendant of P is cached by this PulseStorage: everything below P is encoded again *)
Definition nothing_cached (s : sstate) (P : pt) : Prop :=
  forall n k, In n (descendants P) -> pt_id n = Some k -> lookup k (s_temp s) = None.
