(* C10 — round 4: the declared duration does not depend on object identities; hence a template that loads back equal up to
   identity declares the same duration term; the order of the sub-templates of an AtomicMultiChannelPT is observable in it. *)
From Coq Require Import String List ZArith QArith Bool.
Require Import QV.C10.Model QV.C10.Spec QV.C10.Dur QV.C10.Proofs QV.C10.Proofs_store QV.C10.Proofs_iface.
Import ListNotations.
Open Scope string_scope.

Lemma dur_erase : forall p, dur_of (erase p) = dur_of p.
Proof.
  induction p using pt_ind2; cbn [erase dur_of]; try reflexivity.
  - now rewrite map_erase_ext.
  - now rewrite IHp.
  - now rewrite IHp.
  - now rewrite IHp.
  - destruct du; [reflexivity|]. destruct H as [|c0 r0 Hc0 Hr0]; [reflexivity|exact Hc0].
  - exact IHp.
  - exact IHp.
  - now rewrite IHp1, IHp2.
  - exact IHp.
Qed.

Lemma dur_roundtrip p p' : erase p' = erase p -> dur_of p' = dur_of p.
Proof. intros H. rewrite <- (dur_erase p'), H. apply dur_erase. Qed.

Lemma storage_duration : forall P s' i, wf P = true -> consistent P -> pt_id P = Some i ->
  store (empty_s []) P = Ok s' ->
  exists p' st', load (length (nodes P)) (s_be s') fresh_l i = Ok (p', st') /\ erase p' = erase P /\
                 dur_of p' = dur_of P /\ forall tb, match dur_of P with Ok d => match dur_of p' with Ok d' => deval tb d' = deval tb d | Err _ => False end | Err _ => True end.
Proof.
  intros P s' i Hw Hc Hi E. destruct (storage_statement P s' i Hw Hc Hi E) as (p' & st' & L & Ee).
  exists p', st'. split; [assumption|]. split; [assumption|].
  pose proof (dur_roundtrip P p' Ee) as Hd. split; [assumption|]. intros tb. rewrite Hd. destruct (dur_of P); auto.
Qed.

(* the order of the sub-templates of an AtomicMultiChannelPT without explicit duration is observable (seed C10-5: an encoder
   that lists them sorted by channel name): two constant pulses of different duration expressions *)
Definition amc_a := PConst (mkHdr 1 None) "constant_pulse" (EStr "t_y") [(CS "Y", EInt 1)] [].
Definition amc_b := PConst (mkHdr 2 None) "constant_pulse" (EStr "t_x") [(CS "X", EInt 1)] [].
Definition amc_yx := PAmc (mkHdr 3 (Some "amc")) [amc_a; amc_b] [] [] None.
Definition amc_xy := PAmc (mkHdr 3 (Some "amc")) [amc_b; amc_a] [] [] None.

Lemma amc_order_observable :
  dur_of amc_yx = Ok (DAtom (EStr "t_y")) /\ dur_of amc_xy = Ok (DAtom (EStr "t_x")) /\
  deval [("t_y", 3#1); ("t_x", 4#1)] (DAtom (EStr "t_y")) = Some (3#1) /\
  deval [("t_y", 3#1); ("t_x", 4#1)] (DAtom (EStr "t_x")) = Some (4#1) /\
  erase amc_yx <> erase amc_xy /\
  (* the stored document lists the sub-templates in the given order, and the reordered document decodes to the other template *)
  to_data amc_yx <> to_data amc_xy.
Proof. repeat split; try reflexivity; discriminate. Qed.

(* ... while the round trip of the real encoder keeps the order: the loaded sub-templates are, position by position, the
   original ones up to identity *)
Lemma children_erase : forall p, children (erase p) = map erase (children p).
Proof. destruct p; reflexivity. Qed.

Lemma storage_children_order : forall P s' i, wf P = true -> consistent P -> pt_id P = Some i ->
  store (empty_s []) P = Ok s' ->
  exists p' st', load (length (nodes P)) (s_be s') fresh_l i = Ok (p', st') /\
                 map erase (children p') = map erase (children P).
Proof.
  intros P s' i Hw Hc Hi E. destruct (storage_statement P s' i Hw Hc Hi E) as (p' & st' & L & Ee).
  exists p', st'. split; [assumption|]. rewrite <- !children_erase. now rewrite Ee.
Qed.
