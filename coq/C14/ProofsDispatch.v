(* C14 — facts about the dispatch model (Dispatch.v). *)
From Coq Require Import ZArith QArith Qround Bool Lia.
Require Import QV.C14.Model QV.C14.Dispatch.

(* a real-like operand whose mpq constructor raises something other than TypeError is a non-finite value *)
Definition ctor_passes (v : pyval) : bool :=
  match v with VRealLike CtOther _ => false | _ => true end.

(* every operand the property speaks about is converted to its documented value: exactly for the rational kinds, the
   shortest decimal of float(x) for the floating-point kinds *)
Lemma dispatch_ratduck q : exists q', dispatch (VRatDuck q) = CvVal q' /\ q' == q.
Proof.
  unfold dispatch, try_from_any, probes_of; cbn. eexists; split; [reflexivity|].
  transitivity (Qred q); [destruct (Qred q); reflexivity | apply Qred_correct].
Qed.

Theorem dispatch_documented v q : documented_value v = Some q -> ctor_passes v = true ->
  exists q', dispatch v = CvVal q' /\ q' == q.
Proof.
  destruct v; cbn [documented_value ctor_passes]; intros H Hc; try discriminate;
    repeat match goal with
           | f : pyfloat |- _ => destruct f as [[? ?]|]
           | b : bool |- _ => destruct b
           | c : ctor_res |- _ => destruct c
           end; try discriminate; inversion H; subst;
    try (eexists; split; reflexivity).
  apply dispatch_ratduck.
Qed.

(* objects that answer none of the questions make the wrapper return NotImplemented (fix 217ca16), never an exception *)
Theorem dispatch_opaque : dispatch VOpaque = CvNotImpl /\ dispatch VReflects = CvNotImpl.
Proof. split; reflexivity. Qed.

(* mixed-type addition and multiplication are symmetric for every operand type *)
Theorem wrapped_add_mul_symmetric t v : match wrapped_binop Add t v false, wrapped_binop Add t v true with
                                        | BVal a, BVal b => a == b | x, y => x = y end /\
                                        match wrapped_binop Mul t v false, wrapped_binop Mul t v true with
                                        | BVal a, BVal b => a == b | x, y => x = y end.
Proof.
  unfold wrapped_binop. destruct (dispatch v); cbn [binop_eval]; split; try reflexivity; try ring; destruct v; reflexivity.
Qed.
