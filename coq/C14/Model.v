(* C14 — hand-written operational model of qupulse/utils/numeric.py (clean form of the translated kernel,
   approximate_rational) and of the TimeType operator table of qupulse/utils/types.py.  Definitions only. *)
From Coq Require Import ZArith QArith Qround Qabs Bool List.
Import ListNotations.
Open Scope Z_scope.

(* ------------------------------------------------------------------------------------------------------------ *)
(* _approximate_int, clean form.  State at the head of the while-loop. *)
Record ast := mkAst { pa : Z; qa : Z; pb : Z; qb : Z; pf : Z; qf : Z; to_left : bool }.

Inductive outcome (R : Type) : Type := ORet (r : R) | OFail | OFuel.
Arguments ORet {R} r. Arguments OFail {R}. Arguments OFuel {R}.

(* observable outcome of a translated function (coq/common/Ctl.v) *)
Require Import QV.common.Ctl.
Require Export QV.C14.Spec.
Open Scope Z_scope.
Definition out_of {R S} (c : ctl R S) : outcome R :=
  match c with Ret r => ORet r | Next _ => OFail | Fail => OFail | OutOfFuel => OFuel end.

Definition inside (lower upper den p q : Z) : bool :=
  (q * lower <? p * den) && (p * den <? q * upper).

(* one iteration: inl = returned fraction / failure, inr = next state *)
Definition approx_step (alpha_num d_num den : Z) (s : ast) : outcome (Z * Z) + ast :=
  let lower := alpha_num - d_num in
  let upper := alpha_num + d_num in
  let x_num := den * pb s - alpha_num * qb s in
  let x_den := - den * pa s + alpha_num * qa s in
  if x_den =? 0 then inl OFail else
  let x := (x_num + x_den - 1) / x_den in
  let p_full := pf s + x * pa s in
  let q_full := qf s + x * qa s in
  let p_prev := p_full - pa s in
  let q_prev := q_full - qa s in
  if inside lower upper den p_full q_full || inside lower upper den p_prev q_prev then
    let bound := if to_left s then upper else lower in
    let k_num := den * pb s - bound * qb s in
    let k_den := bound * qa s - den * pa s in
    if k_den =? 0 then inl OFail else
    let k := k_num / k_den + 1 in
    inl (ORet (pb s + k * pa s, qb s + k * qa s))
  else inr (mkAst p_prev q_prev p_full q_full p_full q_full (negb (to_left s))).

Fixpoint approx_loop (fuel : nat) (alpha_num d_num den : Z) (s : ast) : outcome (Z * Z) :=
  match fuel with
  | O => OFuel
  | S fuel' => match approx_step alpha_num d_num den s with
               | inl r => r
               | inr s' => approx_loop fuel' alpha_num d_num den s'
               end
  end.

Definition approx_init : ast := mkAst 0 1 1 1 1 1 true.

Definition approx_int (fuel : nat) (alpha_num d_num den : Z) : outcome (Z * Z) :=
  if (0 <? alpha_num) && (alpha_num <? den) then approx_loop fuel alpha_num d_num den approx_init else OFail.

(* The same loop with binary fuel: structural recursion on a positive runs at most `fuel` iterations without ever
   building a unary number (den can be 2^1074 for subnormal floats).  inr = state after exactly `fuel` steps. *)
Fixpoint approx_loop_p (fuel : positive) (alpha_num d_num den : Z) (s : ast) : outcome (Z * Z) + ast :=
  match fuel with
  | xH => approx_step alpha_num d_num den s
  | xO p => match approx_loop_p p alpha_num d_num den s with
            | inl r => inl r
            | inr s' => approx_loop_p p alpha_num d_num den s'
            end
  | xI p => match approx_step alpha_num d_num den s with
            | inl r => inl r
            | inr s1 => match approx_loop_p p alpha_num d_num den s1 with
                        | inl r => inl r
                        | inr s2 => approx_loop_p p alpha_num d_num den s2
                        end
            end
  end.

(* fuel that is always enough (proved in Proofs.v): the common denominator *)
Definition approx_int_p (alpha_num d_num den : Z) : outcome (Z * Z) :=
  if (0 <? alpha_num) && (alpha_num <? den) then
    match den with
    | Zpos fuel => match approx_loop_p fuel alpha_num d_num den approx_init with
                   | inl r => r
                   | inr _ => OFuel
                   end
    | _ => OFail
    end
  else OFail.

(* approximate_rational(x = xp/xq (reduced, xq>0), abs_err = dp/dq (reduced, dq>0)) *)
Definition approximate_rational (xp xq dp dq : Z) : outcome (Z * Z) :=
  if dp <=? 0 then OFail else
  if xq =? 1 then ORet (xp, 1) else
  let n := xp / xq in
  let alpha0 := xp mod xq in
  let den := Z.lcm xq dq in
  let alpha_num := alpha0 * den / xq in
  let d_num := dp * den / dq in
  if alpha_num <? d_num then ORet (0 + n * 1, 1)
  else match approx_int_p alpha_num d_num den with
       | ORet (p, q) => ORet (p + n * q, q)
       | OFail => OFail
       | OFuel => OFuel
       end.

(* the same function with the unary fuel of the translated code (coq/C14/Gen_rational.v is proved equal to this one;
   GenEqRat.v proves that with fuel = lcm(xq, dq) it coincides with approximate_rational above) *)
Definition approximate_rational_n (fuel : nat) (xp xq dp dq : Z) : outcome (Z * Z) :=
  if dp <=? 0 then OFail else
  if xq =? 1 then ORet (xp, xq) else
  let n := xp / xq in
  let alpha0 := xp mod xq in
  let den := Z.lcm xq dq in
  let alpha_num := alpha0 * den / xq in
  let d_num := dp * den / dq in
  if alpha_num <? d_num then ORet (0 + n * 1, 1)
  else match approx_int fuel alpha_num d_num den with
       | ORet (p, q) => ORet (p + n * q, q)
       | OFail => OFail
       | OFuel => OFuel
       end.

(* ------------------------------------------------------------------------------------------------------------ *)
(* TimeType operator wrappers: the converted operands go to gmpy2.mpq (trusted exact), i.e. the specification's
   operation on the values the conversion produced (Spec.v: arith_value / cmp_value) *)
Open Scope Q_scope.
(* `x op y` where at least one side is a time value; `swap` = the time value is the right operand *)
Definition time_binop (op : binop) (t : Q) (other : operand) (swap : bool) : option Q :=
  if swap then binop_eval op (arith_value other) t else binop_eval op t (arith_value other).

Definition time_cmp (op : cmpop) (t : Q) (other : operand) (swap : bool) : bool :=
  if swap then cmp_eval op (cmp_value other) t else cmp_eval op t (cmp_value other).

Definition time_cmp6 (t : Q) (other : operand) (swap : bool) : cmp6 :=
  mkCmp6 (time_cmp CLt t other swap) (time_cmp CLe t other swap) (time_cmp CGt t other swap) (time_cmp CGe t other swap)
         (time_cmp CEq t other swap) (time_cmp CNe t other swap).

(* from_float: mode None = shortest decimal, mode 0 = exact binary value, 0 < tol <= 1 = approximate_rational *)
Inductive ff_mode := FFDecimal | FFExact | FFTol (tol_exact : Q).
Definition Qnum_den (q : Q) : Z * Z := let r := Qred q in (Qnum r, Zpos (Qden r)).
Definition from_float (exact dec : Q) (m : ff_mode) : outcome Q :=
  match m with
  | FFDecimal => ORet dec
  | FFExact => ORet exact
  | FFTol tol =>
      if Qle_bool tol 0 && negb (Qeq_bool tol 0) then OFail
      else if negb (Qle_bool tol 1) then OFail
      else let '(xp, xq) := Qnum_den exact in
           let '(dp, dq) := Qnum_den tol in
           match approximate_rational xp xq dp dq with
           | ORet (p, q) => match q with Zpos qq => ORet (p # qq) | _ => OFail end
           | OFail => OFail
           | OFuel => OFuel
           end
  end.
