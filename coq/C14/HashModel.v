(* C14 — model of Python's numeric hash (CPython >= 3.2, 64-bit build: modulus P = 2^61 - 1):
     hash(int n)        = sign(n) * (|n| mod P)                                   (-1 is replaced by -2)
     hash(p/q reduced)  = sign(p) * ((|p| mod P) * q^-1 mod P), or +-314159 when q has no inverse mod P
                          (fractions.Fraction.__hash__; gmpy2 GMPy_MPQ_Hash computes the same; TimeType.__hash__ delegates)
     hash(float m*2^e)  = sign(m) * ((|m| mod P) * 2^(e mod 61) mod P)            (_Py_HashDouble: 2^61 = 1 mod P)
   Definitions only; proofs in ProofsHash.v. *)
From Coq Require Import ZArith QArith Bool.
Open Scope Z_scope.

Definition P61 : Z := 2 ^ 61 - 1.
Definition P61pos : positive := Z.to_pos P61.
Definition HASH_INF : Z := 314159.

(* iteration with binary fuel: at most `fuel` steps, never a unary number (same device as approx_loop_p) *)
Fixpoint iter_p {S R : Type} (step : S -> R + S) (fuel : positive) (s : S) : R + S :=
  match fuel with
  | xH => step s
  | xO p => match iter_p step p s with
            | inl r => inl r
            | inr s' => iter_p step p s'
            end
  | xI p => match step s with
            | inl r => inl r
            | inr s1 => match iter_p step p s1 with
                        | inl r => inl r
                        | inr s2 => iter_p step p s2
                        end
            end
  end.

(* extended Euclid on (r0, r1, s0, s1) with r_i = s_i * a (mod P) *)
Definition egcd_step (st : Z * Z * Z * Z) : (Z * Z) + (Z * Z * Z * Z) :=
  let '(r0, r1, s0, s1) := st in
  if r1 =? 0 then inl (r0, s0) else inr (r1, r0 mod r1, s1, s0 - r0 / r1 * s1).

Definition egcd (a : Z) : option (Z * Z) :=      (* (gcd(P, a), s) with s * a = gcd (mod P) *)
  match iter_p egcd_step P61pos (P61, a mod P61, 0, 1) with
  | inl r => Some r
  | inr _ => None
  end.

(* pow(d, -1, P): None = ValueError("base is not invertible for the given modulus") *)
Definition modinv (d : Z) : option Z :=
  match egcd d with
  | Some (g, s) => if g =? 1 then Some (s mod P61) else None
  | None => None
  end.

Definition fix_minus_one (r : Z) : Z := if r =? -1 then -2 else r.

Definition pyhash_int (z : Z) : Z :=
  let h := Z.abs z mod P61 in
  fix_minus_one (if z <? 0 then - h else h).

(* the formula applied to an arbitrary (not necessarily reduced) representation n/d, d > 0 *)
Definition hash_frac (n d : Z) : Z :=
  let h := match modinv d with
           | Some i => ((Z.abs n mod P61) * i) mod P61
           | None => HASH_INF
           end in
  fix_minus_one (if n <? 0 then - h else h).

Definition pyhash_Q (q : Q) : Z := let r := Qred q in hash_frac (Qnum r) (Zpos (Qden r)).

Definition pyhash_float (m e : Z) : Z :=
  let h := ((Z.abs m mod P61) * (2 ^ (e mod 61))) mod P61 in
  fix_minus_one (if m <? 0 then - h else h).

(* the rational m * 2^e *)
Definition dyadic (m e : Z) : Q :=
  match e with
  | Zneg k => m # (2 ^ k)%positive
  | _ => inject_Z (m * 2 ^ e)
  end.
