(* C14 (round 4) — the executable rounding-interval criterion of Float64.v is sound for Flocq's binary64 rounding:
   rounds_to m e d = true  ->  round radix2 (FLT_exp (-1074) 53) ZnearestE d = m * 2^e. *)
From Coq Require Import ZArith QArith Qpower Reals Qreals Lia Lra Bool.
From Flocq Require Import Core.
Require Import QV.C14.Float64 QV.C14.ProofsFloat.
Local Open Scope R_scope.

Notation fexp64 := (FLT_exp (-1074) 53).

(* ---- nearest integer, ties to even ---- *)
Definition near (m : Z) (s : R) : Prop :=
  (IZR m - /2 < s < IZR m + /2) \/ (Z.even m = true /\ (s = IZR m - /2 \/ s = IZR m + /2)).

Lemma ZnearestE_near (m : Z) (s : R) : near m s -> ZnearestE s = m.
Proof.
  intros [H | [Hev [H | H]]].
  - apply Znearest_imp. apply Rabs_lt. lra.
  - (* s = m - 1/2: floor m-1 is odd, choose the ceiling m *)
    assert (Hf : Zfloor s = (m - 1)%Z).
    { apply Zfloor_imp. replace (m - 1 + 1)%Z with m by lia. rewrite minus_IZR. lra. }
    assert (Hc : Zceil s = m).
    { apply Zceil_imp. rewrite minus_IZR. lra. }
    unfold Znearest. rewrite Hf, Hc. rewrite Rcompare_Eq by (rewrite minus_IZR; lra).
    replace (Z.even (m - 1)) with (negb (Z.even m)) by (rewrite Z.even_sub; rewrite Hev; reflexivity).
    rewrite Hev. reflexivity.
  - (* s = m + 1/2: floor m is even, keep it *)
    assert (Hf : Zfloor s = m).
    { apply Zfloor_imp. rewrite plus_IZR. lra. }
    unfold Znearest. rewrite Hf. rewrite Rcompare_Eq by lra. rewrite Hev. reflexivity.
Qed.

Lemma bpow_inv_l (e : Z) : bpow radix2 (- e) * bpow radix2 e = 1.
Proof. rewrite <- bpow_plus. replace (- e + e)%Z with 0%Z by lia. reflexivity. Qed.

(* rounding when the canonical exponent and the nearest mantissa are known *)
Lemma round_at (e' m' : Z) (d : R) :
  cexp radix2 fexp64 d = e' -> near m' (d * bpow radix2 (- e')) -> RN64 d = IZR m' * bpow radix2 e'.
Proof.
  intros Hc Hn. unfold RN64, round, scaled_mantissa. rewrite Hc. rewrite (ZnearestE_near _ _ Hn). unfold F2R; reflexivity.
Qed.

(* ---- canonical exponents ---- *)
Lemma cexp_normal (e' : Z) (d : R) : (-1074 <= e')%Z ->
  IZR (2 ^ 52) * bpow radix2 e' <= d < IZR (2 ^ 53) * bpow radix2 e' -> cexp radix2 fexp64 d = e'.
Proof.
  intros He [H1 H2]. unfold cexp.
  assert (Hm : mag radix2 d = (e' + 53)%Z :> Z).
  { apply mag_unique_pos. replace (e' + 53 - 1)%Z with (52 + e')%Z by lia. replace (e' + 53)%Z with (53 + e')%Z by lia.
    rewrite !bpow_plus. change (bpow radix2 52) with (IZR (2 ^ 52)). change (bpow radix2 53) with (IZR (2 ^ 53)). lra. }
  rewrite Hm. unfold FLT_exp. lia.
Qed.

Lemma cexp_subnormal (d : R) : d <> 0 -> Rabs d < IZR (2 ^ 53) * bpow radix2 (-1074) -> cexp radix2 fexp64 d = (-1074)%Z.
Proof.
  intros H0 H. unfold cexp.
  assert (Hm : (mag radix2 d <= -1021)%Z).
  { apply mag_le_bpow; [exact H0|]. replace (-1021)%Z with (53 + -1074)%Z by lia. rewrite bpow_plus.
    change (bpow radix2 53) with (IZR (2 ^ 53)). exact H. }
  unfold FLT_exp. lia.
Qed.

Lemma near_of_interval (m e : Z) (d : R) :
  ((IZR m - /2) * bpow radix2 e < d < (IZR m + /2) * bpow radix2 e) \/
  (Z.even m = true /\ (d = (IZR m - /2) * bpow radix2 e \/ d = (IZR m + /2) * bpow radix2 e)) ->
  near m (d * bpow radix2 (- e)).
Proof.
  pose proof (bpow_gt_0 radix2 (- e)) as Hi. pose proof (bpow_inv_l e) as Hpi.
  assert (X : forall x, x * bpow radix2 e * bpow radix2 (- e) = x).
  { intro x. rewrite Rmult_assoc, (Rmult_comm (bpow radix2 e)), Hpi. ring. }
  intros [[H1 H2] | [Hev [H | H]]].
  - left. split.
    + rewrite <- (X (IZR m - /2)). apply Rmult_lt_compat_r; assumption.
    + rewrite <- (X (IZR m + /2)). apply Rmult_lt_compat_r; assumption.
  - right. split; [exact Hev|left]. rewrite H. apply X.
  - right. split; [exact Hev|right]. rewrite H. apply X.
Qed.

Definition gapdR (m e : Z) : R :=
  if ((Z.abs m =? 2 ^ 52) && negb (e =? -1074))%Z%bool then bpow radix2 (e - 1) else bpow radix2 e.

Lemma canonical64_inv (m e : Z) : canonical64 m e = true ->
  (Z.abs m < 2 ^ 53 /\ -1074 <= e /\ (2 ^ 52 <= Z.abs m \/ e = -1074))%Z.
Proof.
  unfold canonical64. rewrite !andb_true_iff, orb_true_iff, Z.ltb_lt, !Z.leb_le, Z.eqb_eq. tauto.
Qed.

Lemma bpow_pred (e : Z) : bpow radix2 (e - 1) = bpow radix2 e * /2.
Proof. unfold Z.sub. rewrite bpow_plus. reflexivity. Qed.

Lemma RN64_pos (m e : Z) (d : R) : (0 < m)%Z -> canonical64 m e = true ->
  let a := IZR m * bpow radix2 e in
  let lo := a - /2 * gapdR m e in
  let hi := a + /2 * bpow radix2 e in
  (lo < d < hi) \/ (Z.even m = true /\ (d = lo \/ d = hi)) -> RN64 d = a.
Proof.
  intros Hpos Hcan a lo hi H.
  destruct (canonical64_inv _ _ Hcan) as (Hm & He & Hn). rewrite Z.abs_eq in Hm, Hn by lia.
  pose proof (bpow_gt_0 radix2 e) as HP.
  assert (M1 : 1 <= IZR m) by (apply (IZR_le 1); lia).
  assert (M53 : IZR m <= IZR (2 ^ 53) - 1) by (rewrite <- minus_IZR; apply IZR_le; lia).
  assert (T : IZR (2 ^ 53) = 2 * IZR (2 ^ 52)) by (rewrite <- mult_IZR; reflexivity).
  assert (T52 : 0 < IZR (2 ^ 52)) by (apply (IZR_lt 0); reflexivity).
  destruct (Z.eq_dec e (-1074)) as [E | E].
  - (* lowest exponent: subnormal numbers and the first normal binade *)
    assert (Hlo : lo = (IZR m - /2) * bpow radix2 e).
    { unfold lo, a, gapdR. replace (e =? -1074)%Z with true by (symmetry; apply Z.eqb_eq; exact E). rewrite andb_false_r. ring. }
    assert (Hhi : hi = (IZR m + /2) * bpow radix2 e) by (unfold hi, a; ring).
    rewrite Hlo, Hhi in H. clear Hlo Hhi.
    apply (round_at e m).
    + rewrite E. rewrite E in H, HP.
      assert (B : 0 < d < IZR (2 ^ 53) * bpow radix2 (-1074)).
      { set (P := bpow radix2 (-1074)) in *. destruct H as [[H1 H2] | [_ [H1 | H1]]]; nra. }
      apply cexp_subnormal; [lra | rewrite Rabs_pos_eq; lra].
    + apply near_of_interval. exact H.
  - assert (Hm52 : (2 ^ 52 <= m)%Z) by (destruct Hn; [assumption | contradiction]).
    assert (M52 : IZR (2 ^ 52) <= IZR m) by (apply IZR_le; exact Hm52).
    assert (Hhi : hi = (IZR m + /2) * bpow radix2 e) by (unfold hi, a; ring).
    assert (NE : negb (e =? -1074)%Z = true) by (apply negb_true_iff, Z.eqb_neq; exact E).
    destruct (Z.eq_dec m (2 ^ 52)) as [Em | Em].
    + (* the power of two: the gap below is half the gap above *)
      assert (Hlo : lo = IZR (2 ^ 52) * bpow radix2 e - /4 * bpow radix2 e).
      { unfold lo, a, gapdR. rewrite NE, andb_true_r, Z.abs_eq by lia.
        replace (m =? 2 ^ 52)%Z with true by (symmetry; apply Z.eqb_eq; exact Em). rewrite bpow_pred, Em. field. }
      assert (Hev : Z.even m = true) by (rewrite Em; reflexivity).
      assert (Ha : a = IZR (2 ^ 52) * bpow radix2 e) by (unfold a; rewrite Em; reflexivity).
      rewrite Hlo, Hhi in H. rewrite Em in H. clear Hlo Hhi.
      set (P := bpow radix2 e) in *.
      destruct (Rle_lt_dec (IZR (2 ^ 52) * P) d) as [Hd | Hd].
      * (* at or above x: same binade *)
        rewrite Ha. rewrite <- Em. apply (round_at e m).
        -- apply cexp_normal; [exact He|]. fold P. destruct H as [[H1 H2] | [_ [H1 | H1]]]; nra.
        -- apply near_of_interval. fold P. rewrite Em.
           destruct H as [[H1 H2] | [_ [H1 | H1]]].
           ++ left. nra.
           ++ exfalso. nra.
           ++ right. split; [rewrite <- Em; exact Hev | right; exact H1].
      * (* just below x: the binade below, mantissa 2^53 *)
        rewrite Ha. replace (IZR (2 ^ 52) * P) with (IZR (2 ^ 53) * bpow radix2 (e - 1)) by (rewrite bpow_pred, T; fold P; field).
        apply (round_at (e - 1) (2 ^ 53)).
        -- apply cexp_normal; [lia|]. rewrite bpow_pred. fold P. destruct H as [[H1 H2] | [_ [H1 | H1]]]; nra.
        -- apply near_of_interval. rewrite bpow_pred. fold P.
           destruct H as [[H1 H2] | [_ [H1 | H1]]].
           ++ left. nra.
           ++ right. split; [reflexivity | left]. rewrite H1, T. field.
           ++ exfalso. nra.
    + (* inside a binade *)
      assert (Hlo : lo = (IZR m - /2) * bpow radix2 e).
      { unfold lo, a, gapdR. rewrite NE, andb_true_r, Z.abs_eq by lia.
        replace (m =? 2 ^ 52)%Z with false by (symmetry; apply Z.eqb_neq; exact Em). ring. }
      rewrite Hlo, Hhi in H. clear Hlo Hhi.
      assert (M52' : IZR (2 ^ 52) + 1 <= IZR m) by (rewrite <- plus_IZR; apply IZR_le; lia).
      apply (round_at e m).
      * apply cexp_normal; [exact He|]. set (P := bpow radix2 e) in *. destruct H as [[H1 H2] | [_ [H1 | H1]]]; nra.
      * apply near_of_interval. exact H.
Qed.

Lemma RN64_zero (d : R) :
  - (/2 * bpow radix2 (-1074)) <= d <= /2 * bpow radix2 (-1074) -> RN64 d = 0.
Proof.
  intros [H1 H2]. pose proof (bpow_gt_0 radix2 (-1074)) as HP.
  destruct (Req_dec d 0) as [E | E].
  - rewrite E. unfold RN64. apply round_0. apply valid_rnd_N.
  - replace 0 with (IZR 0 * bpow radix2 (-1074)) by ring.
    apply (round_at (-1074) 0).
    + apply cexp_subnormal; [exact E|].
      assert (T : 1 <= IZR (2 ^ 53)) by (apply (IZR_le 1); discriminate).
      apply Rabs_lt. set (P := bpow radix2 (-1074)) in *. split; nra.
    + apply near_of_interval. set (P := bpow radix2 (-1074)) in *.
      destruct (Rle_lt_or_eq_dec _ _ H1) as [L1 | L1]; [destruct (Rle_lt_or_eq_dec _ _ H2) as [L2 | L2]|].
      * left. split; lra.
      * right. split; [reflexivity | right]. rewrite L2. simpl (IZR 0). ring.
      * right. split; [reflexivity | left]. rewrite <- L1. simpl (IZR 0). ring.
Qed.

(* ---- from Q to R ---- *)
Lemma Q2R_half : Q2R (1 # 2) = /2.
Proof. unfold Q2R; simpl. lra. Qed.

Lemma Q2R_inject_Z (z : Z) : Q2R (inject_Z z) = IZR z.
Proof. unfold Q2R, inject_Z; simpl. field. Qed.

Lemma pos_pow_1_l (p : positive) : (1 ^ p)%positive = 1%positive.
Proof. apply Pos2Z.inj. rewrite Pos2Z.inj_pow. apply Z.pow_1_l. lia. Qed.

Lemma Q2R_pow2Q (e : Z) : Q2R (pow2Q e) = bpow radix2 e.
Proof.
  unfold pow2Q. destruct e as [|p|p]; simpl Qpower.
  - unfold Q2R; simpl. lra.
  - rewrite Qpower_decomp_positive. unfold Q2R. cbn [Qnum Qden]. rewrite pos_pow_1_l. simpl bpow.
    change (Z.pow_pos 2 p) with (2 ^ Z.pos p)%Z. field.
  - rewrite Q2R_inv.
    + rewrite Qpower_decomp_positive. unfold Q2R. cbn [Qnum Qden]. rewrite pos_pow_1_l. simpl bpow.
      change (Z.pow_pos 2 p) with (2 ^ Z.pos p)%Z. field.
      apply IZR_neq. apply Z.pow_nonzero; lia.
    + rewrite Qpower_decomp_positive. intro H. unfold Qeq in H. cbn [Qnum Qden] in H.
      assert (0 < 2 ^ Z.pos p)%Z by (apply Z.pow_pos_nonneg; lia). lia.
Qed.

Lemma Q2R_gap_down (m e : Z) : Q2R (gap_down m e) = gapdR m e.
Proof. unfold gap_down, gapdR. destruct ((Z.abs m =? 2 ^ 52)%Z && negb (e =? -1074)%Z); apply Q2R_pow2Q. Qed.

Lemma Q2R_f64_value (m e : Z) : Q2R (f64_value m e) = IZR m * bpow radix2 e.
Proof. unfold f64_value. rewrite Q2R_mult, Q2R_inject_Z, Q2R_pow2Q. reflexivity. Qed.

Lemma Qcompare_R (x y : Q) :
  match Qcompare x y with Lt => Q2R x < Q2R y | Eq => Q2R x = Q2R y | Gt => Q2R y < Q2R x end.
Proof.
  destruct (Qcompare x y) eqn:C.
  - apply Qeq_eqR. apply Qeq_alt. exact C.
  - apply Qlt_Rlt. apply Qlt_alt. exact C.
  - apply Qlt_Rlt. apply Qgt_alt. exact C.
Qed.

(* the criterion, read over the reals, for a non-negative mantissa and the (possibly negated) argument sd *)
Lemma rounds_to_R (m e : Z) (d : Q) : rounds_to m e d = true ->
  let sd := Q2R (if (m <? 0)%Z then Qopp d else d) in
  let a := IZR (Z.abs m) * bpow radix2 e in
  let lo := a - /2 * (if (m =? 0)%Z then bpow radix2 e else gapdR m e) in
  let hi := a + /2 * bpow radix2 e in
  (lo < sd < hi) \/ (Z.even m = true /\ (sd = lo \/ sd = hi)).
Proof.
  intros H. intros sd a lo hi. unfold rounds_to in H. cbv zeta in H.
  set (qsd := if (m <? 0)%Z then Qopp d else d) in *.
  set (qlo := Qminus _ _) in H. set (qhi := Qplus _ _) in H.
  assert (Elo : Q2R qlo = lo).
  { unfold qlo, lo, a. rewrite Q2R_minus, Q2R_mult, Q2R_half, Q2R_f64_value.
    destruct (m =? 0)%Z; [rewrite Q2R_pow2Q | rewrite Q2R_gap_down]; reflexivity. }
  assert (Ehi : Q2R qhi = hi).
  { unfold qhi, hi, a, gap_up. rewrite Q2R_plus, Q2R_mult, Q2R_half, Q2R_f64_value, Q2R_pow2Q. reflexivity. }
  pose proof (Qcompare_R qlo qsd) as C1. pose proof (Qcompare_R qsd qhi) as C2.
  rewrite Elo in C1. rewrite Ehi in C2. fold sd in C1, C2.
  destruct (Qcompare qlo qsd), (Qcompare qsd qhi); try discriminate.
  - right. split; [exact H | left; symmetry; exact C1].
  - right. split; [exact H | right; exact C2].
  - left. split; assumption.
Qed.

Theorem rounds_to_correct (m e : Z) (d : Q) :
  canonical64 m e = true -> rounds_to m e d = true -> RN64 (Q2R d) = F2R (Float radix2 m e).
Proof.
  intros Hcan Hr. pose proof (rounds_to_R m e d Hr) as H. cbv zeta in H.
  replace (F2R (Float radix2 m e)) with (IZR m * bpow radix2 e) by reflexivity.
  destruct (Z.lt_trichotomy m 0) as [Hm | [Hm | Hm]].
  - (* negative: round the negated argument to -m *)
    replace (m <? 0)%Z with true in H by (symmetry; apply Z.ltb_lt; exact Hm).
    replace (m =? 0)%Z with false in H by (symmetry; apply Z.eqb_neq; lia).
    rewrite Q2R_opp in H.
    assert (Hcan' : canonical64 (- m) e = true) by (unfold canonical64 in *; rewrite Z.abs_opp; exact Hcan).
    assert (G : gapdR (- m) e = gapdR m e) by (unfold gapdR; rewrite Z.abs_opp; reflexivity).
    assert (A : Z.abs m = (- m)%Z) by lia.
    assert (Ev : Z.even (- m) = Z.even m) by apply Z.even_opp.
    pose proof (RN64_pos (- m) e (- Q2R d) ltac:(lia) Hcan') as R. cbv zeta in R. rewrite G, Ev in R. rewrite A in H.
    specialize (R H). unfold RN64 in *. rewrite round_NE_opp in R. rewrite opp_IZR in R.
    rewrite <- (Ropp_involutive (round _ _ _ _)). rewrite R. ring.
  - (* zero *)
    subst m. change (0 <? 0)%Z with false in H. change (0 =? 0)%Z with true in H. change (Z.abs 0) with 0%Z in H.
    cbv iota in H.
    destruct (canonical64_inv _ _ Hcan) as (_ & _ & [Hx | He]); [simpl in Hx; lia|]. subst e.
    rewrite Rmult_0_l. apply RN64_zero. pose proof (bpow_gt_0 radix2 (-1074)).
    set (P := bpow radix2 (-1074)) in *.
    destruct H as [[H1 H2] | [_ [H1 | H1]]]; nra.
  - replace (m <? 0)%Z with false in H by (symmetry; apply Z.ltb_ge; lia).
    replace (m =? 0)%Z with false in H by (symmetry; apply Z.eqb_neq; lia).
    rewrite Z.abs_eq in H by lia.
    exact (RN64_pos m e (Q2R d) Hm Hcan H).
Qed.

(* the statement left open in round 3 (ProofsFloat.rounds_to_correct_statement) *)
Theorem rounds_to_correct_holds : rounds_to_correct_statement.
Proof. exact rounds_to_correct. Qed.

(* what check_spec establishes on a generated float (case CFloatRT: the converted value num/den passes the criterion)
   implies, with correctly rounded int / int alone, that float() of the converted value is the float itself *)
Theorem float_roundtrip_checked (m e : Z) (pydiv : Z -> Z -> R) :
  (forall n d, (0 < d)%Z -> pydiv n d = RN64 (IZR n / IZR d)) ->
  forall (num : Z) (den : positive), canonical64 m e = true -> rounds_to m e (num # den) = true ->
  pydiv num (Zpos den) = F2R (Float radix2 m e).
Proof.
  intros Hdiv num den Hc Hr. rewrite Hdiv by reflexivity. rewrite <- Q2R_frac. apply rounds_to_correct; assumption.
Qed.
