(* C14 -- non-vacuity: for every theorem of Props.v that has hypotheses, a non-trivial input that satisfies all of them
   (and, where cheap, the value the conclusion then pins down).  Round 5 audit. *)
From Coq Require Import ZArith QArith Qround Bool List Reals Qreals Lia.
From Flocq Require Import Core.
Require Import QV.common.Ctl QV.C14.Gen_numeric QV.C14.Gen_rational QV.C14.Model QV.C14.HashModel QV.C14.Dispatch
  QV.C14.ProofsDispatch QV.C14.Float64 QV.C14.ProofsFloat QV.C14.ProofsRound QV.C14.ProofsSpec.
Open Scope Z_scope.

(* kernel: 1 <= D <= A < N; 3/7 +- 1/7 -> 1/2 after entering the loop *)
Example nv_kernel : 1 <= 1 /\ 1 <= 3 /\ 3 < 7 /\ out_of (gen_approximate_int (Z.to_nat 7) 3 1 7) = ORet (1, 2).
Proof. repeat split; try lia. Qed.

(* approximate_rational: 0 < dp; 22/7 +- 1/100 -> 22/7; 314159/100000 +- 1/1000 -> 201/64 (kernel entered) *)
Example nv_rational : 0 < 1 /\ approximate_rational 314159 100000 1 1000 = ORet (201, 64)
  /\ out_of (gen_approximate_rational (Z.to_nat (Z.lcm 100000 1000)) 314159 100000 1 1000) = ORet (201, 64).
Proof. repeat split; vm_compute; reflexivity. Qed.

Example nv_rational_rejects : 0 <= 0 /\ 0 < 7 /\ out_of (gen_approximate_rational 5 1 3 0 7) = OFail.
Proof. repeat split; try lia. Qed.

(* any fuel: the conclusion is not only the OFuel branch -- fuel 3000 (the correspondence's) returns on this input *)
Example nv_any_fuel : out_of (gen_approximate_rational 3000 314159 100000 1 1000) = ORet (201, 64)
  /\ out_of (gen_approximate_rational 1 314159 100000 1 1000) = OFuel.
Proof. split; vm_compute; reflexivity. Qed.

(* hash of an unreduced representation: invertible denominator *)
Example nv_hash_unreduced : Z.gcd P61 (Zpos 4) = 1 /\ hash_frac 6 4 = pyhash_Q (3 # 2) /\ pyhash_Q (3 # 2) <> 3.
Proof. repeat split; vm_compute; congruence. Qed.
(* ... and the guard is not idle: a denominator divisible by P is not invertible, Python then hashes to `inf` *)
Example nv_hash_noninvertible : Z.gcd P61 (P61 * 2) <> 1 /\ pyhash_Q (1 # P61pos) = 314159.
Proof. split; vm_compute; congruence. Qed.

(* dispatch: numpy.float32(0.1) -- mpq() refuses it with TypeError, float(x) = 0.10000000149011612 *)
Definition f32_tenth : pyval := VRealLike CtTypeError (Some (13421773 # 134217728, 10000000149011612 # 100000000000000000))%Q.
Example nv_dispatch : documented_value f32_tenth = Some (10000000149011612 # 100000000000000000)%Q /\ ctor_passes f32_tenth = true.
Proof. split; reflexivity. Qed.
(* what the guard ctor_passes excludes: a real-like object whose mpq() raises something other than TypeError -- then the
   first `try` of _try_from_any lets that exception escape although the object has a documented value *)
Example nv_dispatch_guard_needed :
  dispatch (VRealLike CtOther (Some (1 # 2, 1 # 2))%Q) = CvRaise /\ documented_value (VRealLike CtOther (Some (1 # 2, 1 # 2))%Q) = Some (1 # 2)%Q.
Proof. split; reflexivity. Qed.

(* binary64: x = 0.1 = 7205759403792794 * 2^-56; its shortest decimal 1/10 passes the executable criterion, hence (by
   C14_rounds_to_correct) satisfies the repr hypothesis of C14_float_roundtrip; a pydiv as required exists *)
Example nv_rounds_to : canonical64 7205759403792794 (-56) = true /\ rounds_to 7205759403792794 (-56) (1 # 10) = true
  /\ rounds_to 7205759403792794 (-56) (3602879701896397 # 36028797018963968) = true       (* the exact value *)
  /\ rounds_to 7205759403792794 (-56) (100000000000000014 # 1000000000000000000) = false.  (* next decimal: another double *)
Proof. repeat split; vm_compute; reflexivity. Qed.
Example nv_rounds_to_tie_subnormal :    (* tie between 0 and 2^-1074 goes to the even 0; just above goes to 2^-1074 *)
  canonical64 0 (-1074) = true /\ rounds_to 0 (-1074) (pow2Q (-1075)) = true /\ canonical64 1 (-1074) = true /\
  rounds_to 1 (-1074) (pow2Q (-1075)) = false /\ rounds_to 1 (-1074) (pow2Q (-1075) + pow2Q (-1200))%Q = true.
Proof. repeat split; vm_compute; reflexivity. Qed.

Example nv_float_roundtrip_hyps :
  RN64 (Q2R (1 # 10)) = F2R (Float radix2 7205759403792794 (-56)) /\
  exists pydiv : Z -> Z -> R, forall n d, (0 < d)%Z -> pydiv n d = RN64 (IZR n / IZR d)%R.
Proof.
  split; [apply rounds_to_correct; vm_compute; reflexivity|].
  exists (fun n d => RN64 (IZR n / IZR d)%R). reflexivity.
Qed.

Example nv_float_exact : (Z.abs 7205759403792794 < 2 ^ 53)%Z /\ (-1074 <= -56)%Z.
Proof. split; [vm_compute; reflexivity | lia]. Qed.

(* specification soundness: both branches of best_in are inhabited *)
Example nv_best_in_small : (Zpos 64 <= 400)%Z /\ best_in (314159 # 100000) (1 # 1000) 201 64 = true.
Proof. split; [lia | vm_compute; reflexivity]. Qed.
Example nv_best_in_large : (400 < Zpos 667)%Z /\ best_in (1001 # 2000) (1 # 4000) 334 667 = true.
Proof. split; [lia | vm_compute; reflexivity]. Qed.
(* round 6: the large branch now decides minimality.  335/669 lies inside the same interval and no denominator <= 400
   does (what the round-5 criterion established, and all it established): it was accepted before, it is rejected now;
   so is the accepted fraction when it is not in lowest terms; a denominator of 1075 bits is decided as well *)
Example nv_best_in_large_rejects :
  in_openb (1001 # 2000) (1 # 4000) (335 # 669) = true /\ brute (1001 # 2000) (1 # 4000) 400 = None /\
  best_in (1001 # 2000) (1 # 4000) 335 669 = false /\ best_in (1001 # 2000) (1 # 4000) 668 1334 = false.
Proof. repeat split; vm_compute; reflexivity. Qed.
Example nv_best_in_huge :
  let x := (1 # (2 ^ 1074))%Q in let e := (1 # (2 ^ 2200))%Q in
  best_in x e 1 (Zpos (2 ^ 1074)) = true /\ best_in (x + (1 # 3)) e (2 ^ 1074 + 3) (Zpos (3 * 2 ^ 1074)) = true /\
  best_in (x + (1 # 3)) (1 # 1000000) 1 3 = true /\ best_in (x + (1 # 3)) (1 # 1000000) 333334 1000001 = false.
Proof. repeat split; vm_compute; reflexivity. Qed.
(* completeness is not idle either: the subnormal 2^-1074 with half its size as tolerance -- 1/2^1074 is inside but a smaller
   denominator is, and the criterion rejects it; from_float's model on 0.1 (exact binary value) with tolerance 1/1000 *)
Example nv_best_in_exact_rejects : best_in (1 # (2 ^ 1074)) (1 # (2 ^ 1075)) 1 (Zpos (2 ^ 1074)) = false.
Proof. vm_compute; reflexivity. Qed.
Example nv_from_float_tol : (0 < 1 # 1000)%Q /\ (1 # 1000 <= 1)%Q /\
  from_float (3602879701896397 # 36028797018963968) (1 # 10) (FFTol (1 # 1000)) = ORet (1 # 10)%Q /\
  from_float (1 # 2) (1 # 2) (FFTol (3 # 2)) = OFail /\ from_float (1 # 2) (1 # 2) (FFTol (-1 # 2)) = OFail.
Proof. split; [reflexivity|]. split; [discriminate|]. repeat split; vm_compute; reflexivity. Qed.
