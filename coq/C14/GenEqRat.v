(* C14 — the translation of qupulse/utils/numeric.py::approximate_rational (Gen_rational.v, regenerated from /repo on
   every run by translate/py2gallina_c14.py; it calls the translated kernel of Gen_numeric.v) computes the hand model:
   for every fuel it equals approximate_rational_n, and with fuel = lcm(xq, dq) it equals approximate_rational. *)
From Coq Require Import ZArith Bool Lia ZifyBool PArith Pnat.
Require Import QV.common.Ctl QV.C14.Gen_numeric QV.C14.Gen_rational QV.C14.Model QV.C14.GenEq.
Open Scope Z_scope.

Theorem gen_approximate_rational_eq : forall fuel xp xq dp dq, xq <> 0 -> dq <> 0 ->
  out_of (gen_approximate_rational fuel xp xq dp dq) = approximate_rational_n fuel xp xq dp dq.
Proof.
  intros fuel xp xq dp dq Hxq Hdq.
  unfold gen_approximate_rational, approximate_rational_n.
  replace (0 * dq) with 0 by ring.
  destruct (dp <=? 0) eqn:E0; [reflexivity|].
  destruct (xq =? 1) eqn:E1; [reflexivity|].
  destruct (xq =? 0) eqn:Ex; [lia|].
  destruct (dq =? 0) eqn:Ed; [lia|].
  destruct (xp mod xq * Z.lcm xq dq / xq <? dp * Z.lcm xq dq / dq) eqn:Elt; [reflexivity|].
  rewrite <- gen_approximate_int_eq.
  destruct (gen_approximate_int fuel (xp mod xq * Z.lcm xq dq / xq) (dp * Z.lcm xq dq / dq) (Z.lcm xq dq))
    as [[p q]|s| |]; reflexivity.
Qed.

(* ---- unary fuel vs binary fuel ---- *)
Lemma approx_loop_p_nat : forall p a d den s,
  match approx_loop_p p a d den s with
  | inl r => forall k, approx_loop (Pos.to_nat p + k) a d den s = r
  | inr s' => forall k, approx_loop (Pos.to_nat p + k) a d den s = approx_loop k a d den s'
  end.
Proof.
  induction p as [p IH|p IH|]; intros a d den s; cbn [approx_loop_p].
  - rewrite Pos2Nat.inj_xI.
    destruct (approx_step a d den s) as [r|s1] eqn:E1.
    + intros k. replace (S (2 * Pos.to_nat p) + k)%nat with (S (2 * Pos.to_nat p + k)) by lia.
      cbn [approx_loop]. rewrite E1. reflexivity.
    + specialize (IH a d den s1) as H1.
      destruct (approx_loop_p p a d den s1) as [r|s2] eqn:E2.
      * intros k. replace (S (2 * Pos.to_nat p) + k)%nat with (S (Pos.to_nat p + (Pos.to_nat p + k))) by lia.
        cbn [approx_loop]. rewrite E1. apply H1.
      * specialize (IH a d den s2) as H2.
        destruct (approx_loop_p p a d den s2) as [r|s3] eqn:E3; intros k;
          replace (S (2 * Pos.to_nat p) + k)%nat with (S (Pos.to_nat p + (Pos.to_nat p + k))) by lia;
          cbn [approx_loop]; rewrite E1, H1; apply H2.
  - rewrite Pos2Nat.inj_xO.
    specialize (IH a d den s) as H1.
    destruct (approx_loop_p p a d den s) as [r|s1] eqn:E1.
    + intros k. replace (2 * Pos.to_nat p + k)%nat with (Pos.to_nat p + (Pos.to_nat p + k))%nat by lia. apply H1.
    + specialize (IH a d den s1) as H2.
      destruct (approx_loop_p p a d den s1) as [r|s2] eqn:E2; intros k;
        replace (2 * Pos.to_nat p + k)%nat with (Pos.to_nat p + (Pos.to_nat p + k))%nat by lia;
        rewrite H1; apply H2.
  - destruct (approx_step a d den s) as [r|s1] eqn:E1; intros k; change (Pos.to_nat 1 + k)%nat with (S k);
      cbn [approx_loop]; rewrite E1; reflexivity.
Qed.

Lemma approx_int_p_nat a d den : approx_int_p a d den = approx_int (Z.to_nat den) a d den.
Proof.
  unfold approx_int_p, approx_int.
  destruct ((0 <? a) && (a <? den)) eqn:E; [|reflexivity].
  destruct den as [|p|p]; try lia.
  pose proof (approx_loop_p_nat p a d (Z.pos p) approx_init) as H.
  rewrite Z2Nat.inj_pos.
  destruct (approx_loop_p p a d (Z.pos p) approx_init) as [r|s'].
  - specialize (H 0%nat). rewrite Nat.add_0_r in H. symmetry; exact H.
  - specialize (H 0%nat). rewrite Nat.add_0_r in H. rewrite H. reflexivity.
Qed.

Theorem approximate_rational_n_full_fuel xp xq dp dq :
  approximate_rational_n (Z.to_nat (Z.lcm xq dq)) xp xq dp dq =
  match approximate_rational xp xq dp dq with
  | ORet (p, q) => if xq =? 1 then ORet (p, xq) else ORet (p, q)
  | o => o
  end.
Proof.
  unfold approximate_rational_n, approximate_rational.
  destruct (dp <=? 0); [reflexivity|].
  destruct (xq =? 1) eqn:E1; [reflexivity|].
  destruct (_ <? _); [reflexivity|].
  rewrite approx_int_p_nat.
  destruct (approx_int _ _ _ _) as [[p q]| |]; reflexivity.
Qed.

(* more fuel never changes a result that is not "out of fuel" *)
Lemma approx_loop_mono : forall f k a d den s, approx_loop f a d den s <> OFuel ->
  approx_loop (f + k) a d den s = approx_loop f a d den s.
Proof.
  induction f as [|f IH]; intros k a d den s H; [cbn in H; congruence|].
  cbn [Nat.add approx_loop] in *. destruct (approx_step a d den s) as [r|s']; [reflexivity|]. apply IH. exact H.
Qed.

Lemma approx_int_mono f k a d den : approx_int f a d den <> OFuel -> approx_int (f + k) a d den = approx_int f a d den.
Proof.
  unfold approx_int. destruct (_ && _); [|reflexivity]. apply approx_loop_mono.
Qed.

Lemma approximate_rational_n_mono f k xp xq dp dq : approximate_rational_n f xp xq dp dq <> OFuel ->
  approximate_rational_n (f + k) xp xq dp dq = approximate_rational_n f xp xq dp dq.
Proof.
  unfold approximate_rational_n.
  destruct (dp <=? 0); [reflexivity|]. destruct (xq =? 1); [reflexivity|]. destruct (_ <? _); [reflexivity|].
  intros H. rewrite approx_int_mono; [reflexivity|].
  intros E. rewrite E in H. congruence.
Qed.

(* any two fuels that both give a definite answer give the same answer *)
Lemma approximate_rational_n_det f g xp xq dp dq :
  approximate_rational_n f xp xq dp dq <> OFuel -> approximate_rational_n g xp xq dp dq <> OFuel ->
  approximate_rational_n f xp xq dp dq = approximate_rational_n g xp xq dp dq.
Proof.
  intros Hf Hg.
  rewrite <- (approximate_rational_n_mono f g) by exact Hf.
  rewrite <- (approximate_rational_n_mono g f) by exact Hg.
  rewrite Nat.add_comm. reflexivity.
Qed.
