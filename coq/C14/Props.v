(* C14 — property theorems (statements only; proofs live in Proofs.v / GenEq.v). *)
From Coq Require Import ZArith QArith Bool.
Require Import QV.common.Ctl QV.C14.Gen_numeric QV.C14.Model QV.C14.GenEq QV.C14.Proofs.

(* (1) the kernel re-translated from /repo on every run computes the clean model, for every fuel and input *)
Theorem C14_translated_kernel_is_model : forall fuel alpha_num d_num den,
  out_of (gen_approximate_int fuel alpha_num d_num den) = approx_int fuel alpha_num d_num den.
Proof. exact gen_approximate_int_eq. Qed.
Print Assumptions C14_translated_kernel_is_model.

(* (2) the translated kernel terminates within `den` iterations and returns the fraction with the smallest
       denominator strictly inside ((alpha - d)/den, (alpha + d)/den), for all 1 <= d <= alpha < den *)
Theorem C14_kernel_terminates_best : forall A D N, (1 <= D)%Z -> (D <= A)%Z -> (A < N)%Z ->
  exists p q, out_of (gen_approximate_int (Z.to_nat N) A D N) = ORet (p, q) /\
    (1 <= q)%Z /\ (q * (A - D) < p * N /\ p * N < q * (A + D))%Z /\
    forall p' q', (1 <= q')%Z -> (q' * (A - D) < p' * N /\ p' * N < q' * (A + D))%Z -> (q <= q')%Z.
Proof. exact gen_kernel_best. Qed.
Print Assumptions C14_kernel_terminates_best.

(* (3) approximate_rational (model; binary fuel = common denominator): for every rational x = xp/xq and every
       tolerance e = dp/dq > 0 it returns, without running out of fuel, the fraction of smallest denominator strictly
       inside (x - e, x + e) *)
Theorem C14_approximate_rational_minimal : forall (xp : Z) (xq : positive) (dp : Z) (dq : positive),
  (0 < dp)%Z ->
  exists (p : Z) (q : positive),
    approximate_rational xp (Zpos xq) dp (Zpos dq) = ORet (p, Zpos q) /\
    in_open (xp # xq) (dp # dq) (p # q) /\
    forall (p' : Z) (q' : positive), in_open (xp # xq) (dp # dq) (p' # q') -> (q <= q')%positive.
Proof. exact approximate_rational_best_Q. Qed.
Print Assumptions C14_approximate_rational_minimal.

(* (4) operator table of the model: mixed-type use is symmetric, floor-division and modulo are the Euclidean pair *)
Theorem C14_mixed_add_symmetric : forall t o r r',
  time_binop Add t o false = Some r -> time_binop Add t o true = Some r' -> r == r'.
Proof. exact time_add_sym. Qed.
Print Assumptions C14_mixed_add_symmetric.

Theorem C14_mixed_mul_symmetric : forall t o r r',
  time_binop Mul t o false = Some r -> time_binop Mul t o true = Some r' -> r == r'.
Proof. exact time_mul_sym. Qed.
Print Assumptions C14_mixed_mul_symmetric.

Theorem C14_mixed_cmp_mirror : forall t o,
  time_cmp CLt t o false = time_cmp CGt t o true /\ time_cmp CLe t o false = time_cmp CGe t o true.
Proof. exact time_cmp_mirror. Qed.
Print Assumptions C14_mixed_cmp_mirror.

Theorem C14_floordiv_mod : forall a b, 0 < b ->
  a == inject_Z (Qfloordiv a b) * b + Qmod a b /\ 0 <= Qmod a b /\ Qmod a b < b.
Proof.
  intros a b Hb. split; [apply divmod_identity; intro E; rewrite E in Hb; discriminate | apply mod_range; exact Hb].
Qed.
Print Assumptions C14_floordiv_mod.
