(* C14 — property theorems (statements only; proofs live in Proofs.v / GenEq.v). *)
From Coq Require Import ZArith QArith Bool Reals Qreals.
From Flocq Require Import Core.
Require Import QV.common.Ctl QV.C14.Gen_numeric QV.C14.Gen_rational QV.C14.Model QV.C14.GenEq QV.C14.Proofs.
Require Import QV.C14.GenEqRat QV.C14.ProofsRat QV.C14.HashModel QV.C14.ProofsHash QV.C14.Dispatch QV.C14.ProofsDispatch.
Require Import QV.C14.Float64 QV.C14.ProofsFloat QV.C14.ProofsCons QV.C14.ProofsRound QV.C14.ProofsSpec QV.C14.ProofsAudit.
Local Open Scope Q_scope.

(* (1) the kernel re-translated from /repo on every run computes the clean model, for every fuel and input *)
Theorem C14_translated_kernel_is_model : forall fuel alpha_num d_num den,
  out_of (gen_approximate_int fuel alpha_num d_num den) = approx_int fuel alpha_num d_num den.
Proof. exact gen_approximate_int_eq. Qed.
Print Assumptions C14_translated_kernel_is_model.

(* (2) the translated kernel terminates within `den` iterations and returns the fraction with the smallest
       denominator strictly inside ((alpha - d)/den, (alpha + d)/den), for all 1 <= d <= alpha < den *)
Theorem C14_kernel_terminates_best : forall A D N, (1 <= D)%Z -> (D <= A)%Z -> (A < N)%Z ->
  exists p q, out_of (gen_approximate_int (Z.to_nat N) A D N) = ORet (p, q) /\
    (1 <= q)%Z /\ (q * (A - D) < p * N /\ p * N < q * (A + D))%Z /\
    forall p' q', (1 <= q')%Z -> (q' * (A - D) < p' * N /\ p' * N < q' * (A + D))%Z -> (q <= q')%Z.
Proof. exact gen_kernel_best. Qed.
Print Assumptions C14_kernel_terminates_best.

(* (3) approximate_rational (model; binary fuel = common denominator): for every rational x = xp/xq and every
       tolerance e = dp/dq > 0 it returns, without running out of fuel, the fraction of smallest denominator strictly
       inside (x - e, x + e) *)
Theorem C14_approximate_rational_minimal : forall (xp : Z) (xq : positive) (dp : Z) (dq : positive),
  (0 < dp)%Z ->
  exists (p : Z) (q : positive),
    approximate_rational xp (Zpos xq) dp (Zpos dq) = ORet (p, Zpos q) /\
    in_open (xp # xq) (dp # dq) (p # q) /\
    forall (p' : Z) (q' : positive), in_open (xp # xq) (dp # dq) (p' # q') -> (q <= q')%positive.
Proof. exact approximate_rational_best_Q. Qed.
Print Assumptions C14_approximate_rational_minimal.

(* (4) operator table.  NOTE (round 5 audit): the model of the operator wrappers is the specification's rational operation
       applied to the converted operands (gmpy2.mpq is trusted exact), so the next four theorems are laws of the
       SPECIFICATION (rational arithmetic on the documented operand values): they show that the specification has the
       symmetry / Euclidean properties the statement names; that the CODE returns the specified values is established
       by the correspondence check only (cases CBin / CCmp / CUn / CDisp / CCons), not by a theorem. *)
Theorem C14_mixed_add_symmetric : forall t o r r',
  time_binop Add t o false = Some r -> time_binop Add t o true = Some r' -> r == r'.
Proof. exact time_add_sym. Qed.
Print Assumptions C14_mixed_add_symmetric.

Theorem C14_mixed_mul_symmetric : forall t o r r',
  time_binop Mul t o false = Some r -> time_binop Mul t o true = Some r' -> r == r'.
Proof. exact time_mul_sym. Qed.
Print Assumptions C14_mixed_mul_symmetric.

Theorem C14_mixed_cmp_mirror : forall t o,
  time_cmp CLt t o false = time_cmp CGt t o true /\ time_cmp CLe t o false = time_cmp CGe t o true.
Proof. exact time_cmp_mirror. Qed.
Print Assumptions C14_mixed_cmp_mirror.

Theorem C14_floordiv_mod : forall a b, 0 < b ->
  a == inject_Z (Qfloordiv a b) * b + Qmod a b /\ 0 <= Qmod a b /\ Qmod a b < b.
Proof.
  intros a b Hb. split; [apply divmod_identity; intro E; rewrite E in Hb; discriminate | apply mod_range; exact Hb].
Qed.
Print Assumptions C14_floordiv_mod.

(* ---------------------------------------------------------------------------------------------------------------- *)
(* round 3 *)

(* (5) approximate_rational itself, re-translated from /repo on every run (translate/py2gallina_c14.py: divmod, lcm, the
       numerator/denominator reads, the `alpha_num < d_num` branch, the call of the translated kernel, p + n*q):
       it computes the hand model for every fuel, ... *)
Theorem C14_translated_rational_is_model : forall fuel xp xq dp dq, xq <> 0%Z -> dq <> 0%Z ->
  out_of (gen_approximate_rational fuel xp xq dp dq) = approximate_rational_n fuel xp xq dp dq.
Proof. exact gen_approximate_rational_eq. Qed.
Print Assumptions C14_translated_rational_is_model.

(* ... and with fuel lcm(xq, dq) the nat-fuel model is the binary-fuel model of theorem (3) *)
Theorem C14_rational_models_agree : forall xp xq dp dq,
  approximate_rational_n (Z.to_nat (Z.lcm xq dq)) xp xq dp dq =
  match approximate_rational xp xq dp dq with
  | ORet (p, q) => if (xq =? 1)%Z then ORet (p, xq) else ORet (p, q)
  | o => o
  end.
Proof. exact approximate_rational_n_full_fuel. Qed.
Print Assumptions C14_rational_models_agree.

(* (6) the translated approximate_rational returns, within lcm(xq, dq) iterations, the fraction of smallest denominator
       strictly inside (x - e, x + e): theorem (3) about translated code *)
Theorem C14_translated_rational_minimal : forall (xp : Z) (xq : positive) (dp : Z) (dq : positive), (0 < dp)%Z ->
  exists (p : Z) (q : positive),
    out_of (gen_approximate_rational (Z.to_nat (Z.lcm (Zpos xq) (Zpos dq))) xp (Zpos xq) dp (Zpos dq)) = ORet (p, Zpos q) /\
    in_open (xp # xq) (dp # dq) (p # q) /\
    forall (p' : Z) (q' : positive), in_open (xp # xq) (dp # dq) (p' # q') -> (q <= q')%positive.
Proof. exact gen_rational_best. Qed.
Print Assumptions C14_translated_rational_minimal.

(* whatever fuel: never an error for a positive tolerance; a returned fraction is the best one *)
Theorem C14_translated_rational_any_fuel : forall fuel (xp : Z) (xq : positive) (dp : Z) (dq : positive), (0 < dp)%Z ->
  match out_of (gen_approximate_rational fuel xp (Zpos xq) dp (Zpos dq)) with
  | ORet (p, q) => exists q', q = Zpos q' /\ in_open (xp # xq) (dp # dq) (p # q') /\
                              forall (p' : Z) (q'' : positive), in_open (xp # xq) (dp # dq) (p' # q'') -> (q' <= q'')%positive
  | OFail => False
  | OFuel => True
  end.
Proof. exact gen_rational_any_fuel. Qed.
Print Assumptions C14_translated_rational_any_fuel.

Theorem C14_translated_rational_rejects : forall fuel xp xq dp dq, (dp <= 0)%Z -> (0 < dq)%Z ->
  out_of (gen_approximate_rational fuel xp xq dp dq) = OFail.
Proof. exact gen_rational_rejects. Qed.
Print Assumptions C14_translated_rational_rejects.

(* (7) Python's numeric hash (modulus 2^61 - 1).  pow(d, -1, P) of the model is a correct and complete inverse: *)
Theorem C14_modinv_spec : forall d,
  match modinv d with
  | Some i => (0 <= i < P61)%Z /\ ((d * i) mod P61 = 1)%Z /\ Z.gcd P61 d = 1%Z
  | None => Z.gcd P61 d <> 1%Z
  end.
Proof. exact modinv_spec. Qed.
Print Assumptions C14_modinv_spec.

(* the hash depends only on the rational value ... *)
Theorem C14_hash_respects_eq : forall a b : Q, a == b -> pyhash_Q a = pyhash_Q b.
Proof. exact pyhash_Q_respects_eq. Qed.
Print Assumptions C14_hash_respects_eq.

(* ... also when the formula p * q^-1 mod P is applied to a representation that is not reduced (invertible denominator) *)
Theorem C14_hash_representation_independent : forall n (d : positive), Z.gcd P61 (Zpos d) = 1%Z ->
  hash_frac n (Zpos d) = pyhash_Q (n # d).
Proof. exact hash_frac_unreduced. Qed.
Print Assumptions C14_hash_representation_independent.

(* an integer-valued time hashes like the int, a time that is a double m*2^e like the float *)
Theorem C14_hash_int : forall (t : Q) (z : Z), t == inject_Z z -> pyhash_Q t = pyhash_int z.
Proof. exact hash_time_eq_int. Qed.
Print Assumptions C14_hash_int.

Theorem C14_hash_float : forall (t : Q) (m e : Z), t == dyadic m e -> pyhash_Q t = pyhash_float m e.
Proof. exact hash_time_eq_float. Qed.
Print Assumptions C14_hash_float.

(* (8) operand dispatch: every operand the property speaks about counts with its documented value *)
Theorem C14_dispatch_documented : forall v q, documented_value v = Some q -> ctor_passes v = true ->
  exists q', dispatch v = CvVal q' /\ q' == q.
Proof. exact dispatch_documented. Qed.
Print Assumptions C14_dispatch_documented.

Theorem C14_dispatch_symmetric : forall t v,
  match wrapped_binop Add t v false, wrapped_binop Add t v true with BVal a, BVal b => a == b | x, y => x = y end /\
  match wrapped_binop Mul t v false, wrapped_binop Mul t v true with BVal a, BVal b => a == b | x, y => x = y end.
Proof. exact wrapped_add_mul_symmetric. Qed.
Print Assumptions C14_dispatch_symmetric.

(* (9) float(TimeType.from_float(x)) == x in binary64 (Flocq), from the two CPython facts as explicit hypotheses:
       repr(x) rounds back to x; int / int is correctly rounded *)
Theorem C14_float_roundtrip : forall (m e : Z) (dec : Q),
  RN64 (Q2R dec) = F2R (Float radix2 m e) ->
  forall pydiv : Z -> Z -> R, (forall n d, (0 < d)%Z -> pydiv n d = RN64 (IZR n / IZR d)%R) ->
  forall (num : Z) (den : positive), (num # den == dec)%Q -> pydiv num (Zpos den) = F2R (Float radix2 m e).
Proof. exact float_of_from_float. Qed.
Print Assumptions C14_float_roundtrip.

(* exact mode: a binary64 number is a fixed point of the rounding *)
Theorem C14_float_exact_fixed : forall m e : Z, (Z.abs m < 2 ^ 53)%Z -> (-1074 <= e)%Z ->
  RN64 (F2R (Float radix2 m e)) = F2R (Float radix2 m e).
Proof. exact RN64_exact. Qed.
Print Assumptions C14_float_exact_fixed.

(* ---------------------------------------------------------------------------------------------------------------- *)
(* round 4 *)

(* (10) the six comparisons of a time value with any operand are consistent with each other in both operand orders:
        exactly one of < == > holds, <= is (< or ==), >= is (> or ==), != is (not ==), `other op t` mirrors `t op other`,
        and == implies equal hashes (the laws check_spec evaluates on the implementation's answers, case CCons) *)
Theorem C14_cmp_consistent : forall (t : Q) (o : operand),
  cmp6_consistent (time_cmp6 t o false) = true /\ cmp6_consistent (time_cmp6 t o true) = true /\
  cmp6_mirror (time_cmp6 t o false) (time_cmp6 t o true) = true /\
  (c_eq (time_cmp6 t o false) = true -> pyhash_Q t = pyhash_Q (cmp_value o)).
Proof. exact time_cmp_consistent. Qed.
Print Assumptions C14_cmp_consistent.

(* (11) the executable rounding-interval criterion that check_spec evaluates on every generated float (Float64.rounds_to:
        d strictly between the two midpoints around m*2^e, or on a midpoint when m is even; binade boundaries, subnormal
        numbers, zero and both signs) implies Flocq's round-to-nearest-even in binary64 *)
Theorem C14_rounds_to_correct : forall (m e : Z) (d : Q),
  canonical64 m e = true -> rounds_to m e d = true -> RN64 (Q2R d) = F2R (Float radix2 m e).
Proof. exact rounds_to_correct. Qed.
Print Assumptions C14_rounds_to_correct.

(* so a converted value that passes the criterion converts back to the float, given correctly rounded int / int only
   (the hypothesis on repr of theorem (9) is replaced by what the check establishes case by case) *)
Theorem C14_float_roundtrip_checked : forall (m e : Z) (pydiv : Z -> Z -> R),
  (forall n d, (0 < d)%Z -> pydiv n d = RN64 (IZR n / IZR d)%R) ->
  forall (num : Z) (den : positive), canonical64 m e = true -> rounds_to m e (num # den) = true ->
  pydiv num (Zpos den) = F2R (Float radix2 m e).
Proof. exact float_roundtrip_checked. Qed.
Print Assumptions C14_float_roundtrip_checked.

(* ---------------------------------------------------------------------------------------------------------------- *)
(* round 5 *)

(* (12) soundness of the executable specification that check_spec evaluates on every tolerance-mode observation
        (Spec.best_in, brute-force search): an accepted result with denominator <= 400 IS a fraction of smallest
        denominator strictly inside (x - e, x + e), for all rationals x, e *)
Theorem C14_spec_best_in_sound : forall (x e : Q) (p : Z) (q : positive), (Zpos q <= 400)%Z ->
  best_in x e p (Zpos q) = true ->
  in_open x e (p # q) /\ forall (p' : Z) (q' : positive), in_open x e (p' # q') -> (q <= q')%positive.
Proof. exact best_in_sound. Qed.
Print Assumptions C14_spec_best_in_sound.

(* round 6: for larger denominators check_spec no longer searches (round 5: only "no denominator <= 400 is inside") but
   decides minimality with the Farey-neighbour criterion (Spec.farey_minimal: a/b, (p-a)/(q-b) with p*b - a*q = 1 are the
   neighbours of p/q among the fractions with a smaller denominator; both must lie outside the open interval).  The full
   statement that round 5 could only record as an open -- then false -- proposition is now a theorem: *)
Theorem C14_spec_best_in_large : forall (x e : Q) (p : Z) (q : positive), (400 < Zpos q)%Z ->
  best_in x e p (Zpos q) = true ->
  in_open x e (p # q) /\ forall (p' : Z) (q' : positive), in_open x e (p' # q') -> (q <= q')%positive.
Proof. exact best_in_sound_large. Qed.
Print Assumptions C14_spec_best_in_large.

(* (13) hence for EVERY denominator: a tolerance-mode result (of _approximate_int, approximate_rational, from_float) that
        check_spec accepts is a fraction of smallest denominator strictly inside (x - e, x + e), for all rationals x, e *)
Theorem C14_spec_best_in_sound_all : forall (x e : Q) (p : Z) (q : positive),
  best_in x e p (Zpos q) = true ->
  in_open x e (p # q) /\ forall (p' : Z) (q' : positive), in_open x e (p' # q') -> (q <= q')%positive.
Proof. exact best_in_sound_all. Qed.
Print Assumptions C14_spec_best_in_sound_all.

(* (14) ... and conversely every such fraction is accepted: the executable specification IS the property's definition
        (no correct answer is rejected, no wrong one accepted), for all rationals x, e, all p and all denominators.
        (Needs the Euclid loop of Spec.inv_mod to find the inverse within its fuel: ProofsSpec.inv_mod_spec.) *)
Theorem C14_spec_best_in_exact : forall (x e : Q) (p : Z) (q : positive),
  best_in x e p (Zpos q) = true <->
  (in_open x e (p # q) /\ forall (p' : Z) (q' : positive), in_open x e (p' # q') -> (q <= q')%positive).
Proof. exact best_in_exact. Qed.
Print Assumptions C14_spec_best_in_exact.

(* (15) from_float in tolerance mode -- the HAND MODEL of the glue around approximate_rational (Model.from_float: the
        0 <= e <= 1 guards, reduction of x and e to numerator / denominator, the call, the result as a fraction; not
        translated from the source, compared with the implementation case by case: CFromFloat): for every rational value
        of the float and every tolerance in (0, 1] it returns the fraction of smallest denominator strictly inside
        (x - e, x + e); a tolerance outside [0, 1] is rejected *)
Theorem C14_from_float_tol_minimal : forall exact dec tol : Q, 0 < tol -> tol <= 1 ->
  exists (p : Z) (q : positive), from_float exact dec (FFTol tol) = ORet (p # q) /\
    in_open exact tol (p # q) /\ forall (p' : Z) (q' : positive), in_open exact tol (p' # q') -> (q <= q')%positive.
Proof. exact from_float_tol_minimal. Qed.
Print Assumptions C14_from_float_tol_minimal.

Theorem C14_from_float_tol_rejects : forall exact dec tol : Q, tol < 0 \/ 1 < tol ->
  from_float exact dec (FFTol tol) = OFail.
Proof. exact from_float_tol_rejects. Qed.
Print Assumptions C14_from_float_tol_rejects.
