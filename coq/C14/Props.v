(* C14 — property theorems (statements only; proofs live in Proofs.v / GenEq.v). *)
From Coq Require Import ZArith QArith Bool.
Require Import QV.common.Ctl QV.C14.Gen_numeric QV.C14.Model QV.C14.GenEq.

(* the kernel that is re-translated from /repo on every run computes the clean model *)
Theorem C14_translated_kernel_is_model : forall fuel alpha_num d_num den,
  out_of (gen_approximate_int fuel alpha_num d_num den) = approx_int fuel alpha_num d_num den.
Proof. exact gen_approximate_int_eq. Qed.
Print Assumptions C14_translated_kernel_is_model.
