(* C14 — correspondence cases: the implementation's observation is part of each case; check_corr compares it with
   the model (and with the translated kernel), check_spec evaluates the property's own specification on it. *)
From Coq Require Import ZArith QArith Qround Qabs Bool List.
Require Import QV.common.Util QV.common.Ctl QV.C14.Gen_numeric QV.C14.Gen_rational QV.C14.Model QV.C14.Dispatch QV.C14.HashModel QV.C14.Float64.
Import ListNotations.

Inductive case :=
| CApproxInt (alpha_num d_num den : Z) (impl : outcome (Z * Z))
| CApproxRat (xp xq dp dq : Z) (impl : outcome (Z * Z))
| CBin (op : binop) (t : Q) (other : operand) (swap : bool) (impl : option Q)
| CCmp (op : cmpop) (t : Q) (other : operand) (swap : bool) (impl : bool)
| CUn (op : unop) (t : Q) (impl : Q)
| CFromFloat (exact dec : Q) (neg : bool) (mant exp : Z) (mode : ff_mode) (impl : outcome Q) (float_back_equal : bool)
| CHash (t : Q) (other : operand) (eq_impl hash_eq_impl : bool)
| CDisp (op : binop) (t : Q) (v : pyval) (swap : bool) (impl : bres)
    (* operand of any Python type through _with_other_as_time_type / _converter / _try_from_any *)
| CHashVal (q : Q) (h_time h_mpq h_frac : Z) (h_int : option Z) (h_float : option (Z * Z * Z))
    (* hash(TimeType(q)), hash(mpq(q)), hash(Fraction(q)); hash(int(q)) if q is integral; (m, e, hash(float)) if q = m*2^e is a double *)
| CFloatRT (m e : Z) (num den : Z) (back : bool)
    (* x = m*2^e (canonical binary64), num/den = TimeType.from_float(x), back = (float(TimeType.from_float(x)) == x) *)
| CCons (t : Q) (other : operand) (fwd rev : cmp6) (h_t h_o : Z) (in_list dict_hit : bool)
    (* round 4: all six comparisons `t op other` (fwd) and `other op t` (rev) on the same pair, hash(t), hash(other),
       `t in [other]`, `t in {other: 1}` *)
| CPowNI (a : Q) (en : Z) (ed : positive) (r : Q) (exact_type : bool)
    (* round 5: power with a NON-integral exponent en/ed (either operand order): r = the value returned, exact_type = the
       result claims to be exact (TimeType / mpq / Fraction / int) rather than a floating-point number *)
| CSeq (cs : list case)
    (* round 5: a history -- the steps were executed one after the other in one process; every step must be judged as if
       it had been executed alone (no state may be left behind by an earlier call) *)
| CCrash.   (* the implementation crashed with an unexpected exception or did not return *)

Definition cmp6_eqb (a b : cmp6) : bool :=
  Bool.eqb (c_lt a) (c_lt b) && Bool.eqb (c_le a) (c_le b) && Bool.eqb (c_gt a) (c_gt b) && Bool.eqb (c_ge a) (c_ge b)
  && Bool.eqb (c_eq a) (c_eq b) && Bool.eqb (c_ne a) (c_ne b).

Definition zz_eqb (a b : Z * Z) : bool := (fst a =? fst b)%Z && (snd a =? snd b)%Z.
Definition outcome_eqb {R} (e : R -> R -> bool) (a b : outcome R) : bool :=
  match a, b with
  | ORet x, ORet y => e x y
  | OFail, OFail => true
  | OFuel, OFuel => true
  | _, _ => false
  end.

Definition bres_eqb (a b : bres) : bool :=
  match a, b with
  | BVal x, BVal y => Qeq_bool x y
  | BZeroDiv, BZeroDiv | BTypeError, BTypeError | BRaise, BRaise | BAttrError, BAttrError | BReflected, BReflected => true
  | _, _ => false
  end.

Fixpoint check_corr (c : case) : bool :=
  match c with
  | CApproxInt a d den impl =>
      outcome_eqb zz_eqb (approx_int_p a d den) impl
      && outcome_eqb zz_eqb (out_of (gen_approximate_int (Z.to_nat (Z.min den 3000)) a d den)) impl
  | CApproxRat xp xq dp dq impl =>
      outcome_eqb zz_eqb (approximate_rational xp xq dp dq) impl
      && outcome_eqb zz_eqb (out_of (gen_approximate_rational 3000 xp xq dp dq)) impl    (* the translated code itself *)
  | CBin op t o swap impl => opt_eqb Qeq_bool (time_binop op t o swap) impl
  | CCmp op t o swap impl => Bool.eqb (time_cmp op t o swap) impl
  | CUn op t impl => Qeq_bool (unop_eval op t) impl
  | CFromFloat e d _ _ _ m impl _ => outcome_eqb Qeq_bool (from_float e d m) impl
  | CHash _ _ _ _ => true
  | CDisp op t v swap impl => bres_eqb (wrapped_binop op t v swap) impl
  | CHashVal q ht hm hf hi hfl =>
      (pyhash_Q q =? ht)%Z && (pyhash_Q q =? hm)%Z && (pyhash_Q q =? hf)%Z
      && match hi with Some h => Q_is_integer q && (pyhash_int (Qnum (Qred q)) =? h)%Z | None => true end
      && match hfl with Some (m, e, h) => Qeq_bool (dyadic m e) q && (pyhash_float m e =? h)%Z | None => true end
  | CFloatRT m e num den back =>
      canonical64 m e && match den with Zpos d => Bool.eqb (rounds_to m e (num # d)) back | _ => false end
  | CCons t o fwd rev ht ho _ _ =>
      cmp6_eqb (time_cmp6 t o false) fwd && cmp6_eqb (time_cmp6 t o true) rev
      && (pyhash_Q t =? ht)%Z && (pyhash_Q (cmp_value o) =? ho)%Z
  | CPowNI _ _ _ _ exact_type => negb exact_type      (* the code hands a non-integral exponent to mpq ** mpq: an mpfr *)
  | CSeq cs => forallb check_corr cs                   (* the model has no state *)
  | CCrash => false
  end.

(* the specification proper lives in Spec.v (best_in, pow_ni_ok, operator values, order laws), Float64.v and
   Dispatch.documented_value; no function of the operational model is called below *)
Fixpoint check_spec (c : case) : bool :=
  match c with
  | CApproxInt a d den impl =>
      (* precondition of the kernel as used by approximate_rational: 0 < d <= a < den *)
      if ((0 <? d) && (d <=? a) && (a <? den))%Z then
        match impl, den with
        | ORet (p, q), Zpos dd => best_in (a # dd) (d # dd) p q
        | _, _ => false
        end
      else true
  | CApproxRat xp xq dp dq impl =>
      match xq, dq with
      | Zpos xq', Zpos dq' =>
          if (dp <=? 0)%Z then match impl with OFail => true | _ => false end
          else match impl with
               | ORet (p, q) => best_in (xp # xq') (dp # dq') p q     (* integral x included: x itself has denominator 1 *)
               | _ => false
               end
      | _, _ => true
      end
  | CBin op t o swap impl =>
      (* the exact rational result on the documented operand values *)
      opt_eqb Qeq_bool (if swap then binop_eval op (arith_value o) t else binop_eval op t (arith_value o)) impl
  | CCmp op t o swap impl =>
      Bool.eqb (if swap then cmp_eval op (cmp_value o) t else cmp_eval op t (cmp_value o)) impl
  | CUn op t impl => Qeq_bool (unop_eval op t) impl
  | CFromFloat e d neg mant ex m impl back =>
      match m with
      | FFDecimal => outcome_eqb Qeq_bool impl (ORet (parse_decimal neg mant ex)) && back
      | FFExact => outcome_eqb Qeq_bool impl (ORet e)
      | FFTol tol =>
          if Qle_bool tol 0 && negb (Qeq_bool tol 0) then outcome_eqb Qeq_bool impl OFail
          else if negb (Qle_bool tol 1) then outcome_eqb Qeq_bool impl OFail
          else match impl with
               | ORet r => let r' := Qred r in
                           best_in e tol (Qnum r') (Zpos (Qden r')) && (Pos.eqb (Qden r) (Qden r'))
               | _ => false
               end
      end
  | CHash _ _ eq_impl hash_eq_impl => implb eq_impl hash_eq_impl
  | CDisp op t v swap impl =>
      (* an operand the property speaks about counts with its documented value (exact, or shortest decimal of float(x)) *)
      match documented_value v with
      | Some q => match (if swap then binop_eval op q t else binop_eval op t q), impl with
                  | Some r, BVal r' => Qeq_bool r r'
                  | None, BZeroDiv => true
                  | _, _ => false
                  end
      | None => true
      end
  | CHashVal q ht hm hf hi hfl =>
      (* equal values hash equally across TimeType / mpq / Fraction / int / float *)
      (hm =? ht)%Z && (hf =? ht)%Z
      && match hi with Some h => (h =? ht)%Z | None => true end
      && match hfl with Some (_, _, h) => (h =? ht)%Z | None => true end
  | CFloatRT m e num den back =>
      (* the converted value lies in the rounding interval of x (so correctly rounded division returns x), and the
         implementation's float() does return x *)
      canonical64 m e && back && match den with Zpos d => rounds_to m e (num # d) | _ => false end
  | CCons t o fwd rev ht ho in_list dict_hit =>
      (* the six answers are those of the exact order on the documented comparison value ... *)
      cmp6_eqb (cmp6_of t (cmp_value o)) fwd && cmp6_eqb (cmp6_of (cmp_value o) t) rev
      (* ... and, independently of any value, consistent with each other: exactly one of < == >, <= is (< or ==),
         >= is (> or ==), != is not ==, the reflected forms mirror, equal objects hash equally and are found in
         containers *)
      && cmp6_consistent fwd && cmp6_consistent rev && cmp6_mirror fwd rev
      && implb (c_eq fwd) (ht =? ho)%Z && Bool.eqb in_list (c_eq fwd) && Bool.eqb dict_hit (c_eq fwd)
  | CPowNI a en ed r exact_type => pow_ni_ok a en ed r exact_type
  | CSeq cs => forallb check_spec cs
  | CCrash => false
  end.
