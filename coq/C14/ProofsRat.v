(* C14 — minimal-denominator theorem for the code translated from approximate_rational (Gen_rational.v). *)
From Coq Require Import ZArith QArith Bool Lia ZifyBool.
Require Import QV.common.Ctl QV.C14.Gen_numeric QV.C14.Gen_rational QV.C14.Model QV.C14.GenEq QV.C14.GenEqRat QV.C14.Proofs.
Open Scope Z_scope.

Definition BestQ (xp : Z) (xq : positive) (dp : Z) (dq : positive) (p : Z) (q : positive) : Prop :=
  in_open (xp # xq) (dp # dq) (p # q) /\
  forall (p' : Z) (q' : positive), in_open (xp # xq) (dp # dq) (p' # q') -> (q <= q')%positive.

Lemma full_fuel_best (xp : Z) (xq : positive) (dp : Z) (dq : positive) : 0 < dp ->
  exists (p : Z) (q : positive),
    approximate_rational_n (Z.to_nat (Z.lcm (Zpos xq) (Zpos dq))) xp (Zpos xq) dp (Zpos dq) = ORet (p, Zpos q) /\
    BestQ xp xq dp dq p q.
Proof.
  intros Hdp. rewrite approximate_rational_n_full_fuel.
  destruct (approximate_rational_best_Q xp xq dp dq Hdp) as (p & q & E & Hin & Hmin).
  exists p, q. split; [|split; assumption].
  rewrite E. destruct (Z.pos xq =? 1) eqn:E1; [|reflexivity].
  unfold approximate_rational in E. rewrite E1 in E. destruct (dp <=? 0); [discriminate|].
  inversion E; subst. f_equal. f_equal. lia.
Qed.

Theorem gen_rational_best (xp : Z) (xq : positive) (dp : Z) (dq : positive) : 0 < dp ->
  exists (p : Z) (q : positive),
    out_of (gen_approximate_rational (Z.to_nat (Z.lcm (Zpos xq) (Zpos dq))) xp (Zpos xq) dp (Zpos dq)) = ORet (p, Zpos q) /\
    BestQ xp xq dp dq p q.
Proof.
  intros Hdp. rewrite gen_approximate_rational_eq by lia. apply full_fuel_best. exact Hdp.
Qed.

(* whatever fuel is given: the translated code never fails on a positive tolerance, and if it returns, it returns the
   best fraction *)
Theorem gen_rational_any_fuel fuel (xp : Z) (xq : positive) (dp : Z) (dq : positive) : 0 < dp ->
  match out_of (gen_approximate_rational fuel xp (Zpos xq) dp (Zpos dq)) with
  | ORet (p, q) => exists q', q = Zpos q' /\ BestQ xp xq dp dq p q'
  | OFail => False
  | OFuel => True
  end.
Proof.
  intros Hdp. rewrite gen_approximate_rational_eq by lia.
  destruct (full_fuel_best xp xq dp dq Hdp) as (p & q & E & HB).
  destruct (approximate_rational_n fuel xp (Z.pos xq) dp (Z.pos dq)) as [[p1 q1]| |] eqn:E1; [| |exact I].
  - assert (D := approximate_rational_n_det fuel (Z.to_nat (Z.lcm (Z.pos xq) (Z.pos dq))) xp (Z.pos xq) dp (Z.pos dq)).
    rewrite E, E1 in D. assert (H : ORet (p1, q1) = ORet (p, Z.pos q)) by (apply D; discriminate).
    inversion H; subst. exists q. split; [reflexivity|exact HB].
  - assert (D := approximate_rational_n_det fuel (Z.to_nat (Z.lcm (Z.pos xq) (Z.pos dq))) xp (Z.pos xq) dp (Z.pos dq)).
    rewrite E, E1 in D. assert (H : @OFail (Z * Z) = ORet (p, Z.pos q)) by (apply D; discriminate). discriminate.
Qed.

(* a non-positive tolerance is refused (ValueError) *)
Theorem gen_rational_rejects fuel xp xq dp dq : dp <= 0 -> 0 < dq ->
  out_of (gen_approximate_rational fuel xp xq dp dq) = OFail.
Proof.
  intros H Hq. unfold gen_approximate_rational. replace (0 * dq) with 0 by ring.
  destruct (dp <=? 0) eqn:E; [reflexivity|lia].
Qed.

(* ------------------------------------------------------------------------------------------------------------ *)
(* round 6: from_float in tolerance mode -- the HAND MODEL of the glue around approximate_rational (Model.from_float; the
   source of TimeType.from_float / approximate_double is not translated) *)
Open Scope Q_scope.

Lemma Qnum_den_eta (r : Q) : Qnum r # Qden r = r. Proof. destruct r; reflexivity. Qed.

Lemma in_open_compat x x' e e' r : x == x' -> e == e' -> in_open x e r -> in_open x' e' r.
Proof. intros Hx He [A B]. unfold in_open. rewrite <- Hx, <- He. split; assumption. Qed.

Theorem from_float_tol_minimal (exact dec tol : Q) : 0 < tol -> tol <= 1 ->
  exists (p : Z) (q : positive), from_float exact dec (FFTol tol) = ORet (p # q) /\
    in_open exact tol (p # q) /\ forall p' q', in_open exact tol (p' # q') -> (q <= q')%positive.
Proof.
  intros Hpos Hle. unfold from_float.
  assert (Qle_bool tol 0 = false) as G1.
  { destruct (Qle_bool tol 0) eqn:E; [|reflexivity]. apply Qle_bool_iff in E. exfalso. apply (Qlt_not_le _ _ Hpos E). }
  assert (Qle_bool tol 1 = true) as G2 by (apply Qle_bool_iff; exact Hle).
  rewrite G1, G2. cbn [andb negb]. unfold Qnum_den.
  assert (0 < Qnum (Qred tol))%Z as Hdp.
  { assert (0 < Qred tol) as H by (rewrite Qred_correct; exact Hpos). unfold Qlt in H. simpl in H. lia. }
  destruct (approximate_rational_best_Q (Qnum (Qred exact)) (Qden (Qred exact)) (Qnum (Qred tol)) (Qden (Qred tol)) Hdp)
    as (p & q & E & Hin & Hmin).
  rewrite E. exists p, q. split; [reflexivity|].
  rewrite !Qnum_den_eta in Hin, Hmin.
  split.
  - apply (in_open_compat _ _ _ _ _ (Qred_correct exact) (Qred_correct tol) Hin).
  - intros p' q' H. apply (Hmin p').
    apply (in_open_compat exact (Qred exact) tol (Qred tol)); [symmetry; apply Qred_correct | symmetry; apply Qred_correct | exact H].
Qed.

Theorem from_float_tol_rejects (exact dec tol : Q) : tol < 0 \/ 1 < tol -> from_float exact dec (FFTol tol) = OFail.
Proof.
  intros [H|H]; unfold from_float.
  - assert (Qle_bool tol 0 = true) as G1 by (apply Qle_bool_iff, Qlt_le_weak, H).
    assert (Qeq_bool tol 0 = false) as G2.
    { destruct (Qeq_bool tol 0) eqn:E; [|reflexivity]. apply Qeq_bool_iff in E. rewrite E in H. discriminate. }
    rewrite G1, G2. reflexivity.
  - assert (Qle_bool tol 1 = false) as G2.
    { destruct (Qle_bool tol 1) eqn:E; [|reflexivity]. apply Qle_bool_iff in E. exfalso. apply (Qlt_not_le _ _ H E). }
    rewrite G2. cbn [negb]. destruct (Qle_bool tol 0 && negb (Qeq_bool tol 0)); reflexivity.
Qed.
