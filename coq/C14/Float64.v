(* C14 — binary64 values as (mantissa, exponent) pairs and an executable criterion "the rational d rounds (to nearest,
   ties to even) to the binary64 number m * 2^e".  Definitions only (ZArith/QArith); the Flocq proof that the criterion
   implies  round radix2 (FLT_exp (-1074) 53) ZnearestE d = m * 2^e  is in ProofsFloat.v. *)
From Coq Require Import ZArith QArith Bool.
Open Scope Z_scope.

(* canonical representation of a finite binary64 number x = m * 2^e (no upper exponent bound: overflow is not
   modelled; the largest finite double has e = 971) *)
Definition canonical64 (m e : Z) : bool :=
  (Z.abs m <? 2 ^ 53) && (-1074 <=? e) && ((2 ^ 52 <=? Z.abs m) || (e =? -1074)).

Definition pow2Q (e : Z) : Q := Qpower (2 # 1) e.
Definition f64_value (m e : Z) : Q := inject_Z m * pow2Q e.

(* distance from |x| to the next representable number away from zero / towards zero *)
Definition gap_up (m e : Z) : Q := pow2Q e.
Definition gap_down (m e : Z) : Q :=
  if (Z.abs m =? 2 ^ 52) && negb (e =? -1074) then pow2Q (e - 1) else pow2Q e.

(* d rounds to x = m*2^e:  with a = |x|, s = sign:  s*d lies strictly between the two midpoints around a, or on a
   midpoint when m is even (ties to even).  For m = 0 both gaps are 2^-1074 and d may have either sign. *)
Definition rounds_to (m e : Z) (d : Q) : bool :=
  let a := f64_value (Z.abs m) e in
  let sd := if m <? 0 then Qopp d else d in
  let lo := Qminus a (Qmult (1 # 2) (if m =? 0 then pow2Q e else gap_down m e)) in
  let hi := Qplus a (Qmult (1 # 2) (gap_up m e)) in
  match Qcompare lo sd, Qcompare sd hi with
  | Lt, Lt => true
  | Eq, Lt => Z.even m
  | Lt, Eq => Z.even m
  | _, _ => false
  end.
