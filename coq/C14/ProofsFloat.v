(* C14 — float(TimeType.from_float(x)) == x for binary64, with Flocq.
   RN64 = rounding to nearest, ties to even, in the binary64 format (FLT_exp (-1074) 53; no upper exponent bound:
   overflow is not modelled).  The two facts about CPython the statement rests on are explicit Section hypotheses:
     Hrepr          float(repr(x)) == x : the correctly rounded value of the shortest decimal representation is x;
     pydiv_correct  int / int true division is correctly rounded (Objects/longobject.c long_true_divide).
   TimeType.from_float(x) is the exact rational value of repr(x) (gmpy2.mpq(str(x)); observed exactly on every generated
   float by the correspondence check), TimeType.__float__ is int(numerator) / int(denominator). *)
From Coq Require Import ZArith QArith Reals Qreals Lia.
From Flocq Require Import Core.
Require Import QV.C14.Float64.

Definition RN64 (r : R) : R := round radix2 (FLT_exp (-1074) 53) ZnearestE r.

Lemma Q2R_frac (n : Z) (d : positive) : Q2R (n # d) = (IZR n / IZR (Zpos d))%R.
Proof. unfold Q2R, Rdiv. reflexivity. Qed.

Section RoundTrip.
  Variables (m e : Z) (dec : Q).          (* x = m * 2^e is the float, dec the exact rational value of repr(x) *)
  Hypothesis Hrepr : RN64 (Q2R dec) = F2R (Float radix2 m e).
  Variable pydiv : Z -> Z -> R.           (* Python's int / int *)
  Hypothesis pydiv_correct : forall n d, (0 < d)%Z -> pydiv n d = RN64 (IZR n / IZR d)%R.

  Theorem float_of_from_float (num : Z) (den : positive) :
    (num # den == dec)%Q -> pydiv num (Zpos den) = F2R (Float radix2 m e).
  Proof.
    intros E. rewrite pydiv_correct by reflexivity. rewrite <- Q2R_frac. rewrite (Qeq_eqR _ _ E). exact Hrepr.
  Qed.

  (* the result does not depend on how the rational is represented (reduced or not) *)
  Theorem float_of_time_repr_independent (n1 n2 : Z) (d1 d2 : positive) :
    (n1 # d1 == n2 # d2)%Q -> pydiv n1 (Zpos d1) = pydiv n2 (Zpos d2).
  Proof.
    intros E. rewrite !pydiv_correct by reflexivity. rewrite <- !Q2R_frac. rewrite (Qeq_eqR _ _ E). reflexivity.
  Qed.
End RoundTrip.

(* a binary64 number is a fixed point of the rounding: float(TimeType.from_float(x, 0)) == x needs no hypothesis on repr *)
Theorem RN64_exact (m e : Z) : (Z.abs m < 2 ^ 53)%Z -> (-1074 <= e)%Z -> RN64 (F2R (Float radix2 m e)) = F2R (Float radix2 m e).
Proof.
  intros Hm He. unfold RN64. apply round_generic; [apply valid_rnd_N|].
  apply generic_format_FLT. exists (Float radix2 m e); [reflexivity| |]; cbn [Fnum Fexp]; assumption.
Qed.

(* the executable criterion of Float64.v: d inside the rounding interval of x rounds to x.  Proved in ProofsRound.v
   (round 4).  It is evaluated on every generated float by check_spec (CFloatRT) and agrees there with the
   implementation's float(from_float(x)) == x. *)
Definition rounds_to_correct_statement : Prop := forall (m e : Z) (d : Q),
  canonical64 m e = true -> rounds_to m e d = true -> RN64 (Q2R d) = F2R (Float radix2 m e).
