(* C14 — the translator's output (Gen_numeric.v, regenerated from /repo on every run) computes the same function
   as the clean model in Model.v.  If qupulse/utils/numeric.py::_approximate_int changes, this file stops compiling
   (or the translator refuses) and the obligation is reported as broken. *)
From Coq Require Import ZArith Bool Lia.
Require Import QV.common.Ctl QV.C14.Gen_numeric QV.C14.Model.
Open Scope Z_scope.

Lemma gen_loop_eq : forall fuel alpha_num d_num den pa qa pb qb pf qf tl
    (x_num x_den x p_prev q_prev bound_num k_num k_den k : Z),
  out_of (gen_approximate_int_loop1 fuel
            (alpha_num, d_num, den, alpha_num - d_num, alpha_num + d_num, pa, qa, pb, qb, pf, qf, tl,
             x_num, x_den, x, p_prev, q_prev, bound_num, k_num, k_den, k))
  = approx_loop fuel alpha_num d_num den (mkAst pa qa pb qb pf qf tl).
Proof.
  induction fuel as [|fuel IH]; intros; [reflexivity|].
  cbn [gen_approximate_int_loop1 approx_loop].
  unfold approx_step; cbn [Model.pa Model.qa Model.pb Model.qb Model.pf Model.qf Model.to_left].
  destruct (- den * pa + alpha_num * qa =? 0) eqn:E0; [reflexivity|].
  unfold inside.
  match goal with |- context [if ?c then _ else _] => destruct c eqn:Ec end.
  - destruct ((if tl then alpha_num + d_num else alpha_num - d_num) * qa - den * pa =? 0) eqn:Ek; reflexivity.
  - apply IH.
Qed.

Theorem gen_approximate_int_eq : forall fuel alpha_num d_num den,
  out_of (gen_approximate_int fuel alpha_num d_num den) = approx_int fuel alpha_num d_num den.
Proof.
  intros. unfold gen_approximate_int, approx_int, approx_init.
  destruct ((0 <? alpha_num) && (alpha_num <? den)) eqn:E; [|reflexivity].
  apply gen_loop_eq.
Qed.
