(* C14 (round 4) — the six comparisons of the model are consistent with each other: trichotomy, <= is (< or ==),
   >= is (> or ==), != is not ==, the reflected forms mirror, and == implies equal hashes.  These are the laws that
   check_spec evaluates on the implementation's twelve answers for one pair (case CCons). *)
From Coq Require Import ZArith QArith Bool Lia.
Require Import QV.C14.Model QV.C14.HashModel QV.C14.ProofsHash.
Local Open Scope Q_scope.

Lemma cmp_bools (a b : Q) :
  (a < b /\ Qle_bool a b = true /\ Qle_bool b a = false /\ Qeq_bool a b = false) \/
  (b < a /\ Qle_bool a b = false /\ Qle_bool b a = true /\ Qeq_bool a b = false) \/
  (a == b /\ Qle_bool a b = true /\ Qle_bool b a = true /\ Qeq_bool a b = true).
Proof.
  assert (F : forall x y, x < y -> Qle_bool y x = false).
  { intros x y H. destruct (Qle_bool y x) eqn:E; [|reflexivity]. apply Qle_bool_iff in E. exfalso. apply (Qlt_not_le _ _ H E). }
  assert (N : forall x y, ~ x == y -> Qeq_bool x y = false).
  { intros x y H. destruct (Qeq_bool x y) eqn:E; [|reflexivity]. apply Qeq_bool_iff in E. contradiction. }
  destruct (Q_dec a b) as [[H|H]|H].
  - left. repeat split; [exact H | apply Qle_bool_iff, Qlt_le_weak, H | apply F, H | apply N; intro E; rewrite E in H; apply (Qlt_irrefl _ H)].
  - right; left. repeat split; [exact H | apply F, H | apply Qle_bool_iff, Qlt_le_weak, H | apply N; intro E; rewrite E in H; apply (Qlt_irrefl _ H)].
  - right; right. repeat split; [exact H | apply Qle_bool_iff; rewrite H; apply Qle_refl | apply Qle_bool_iff; rewrite H; apply Qle_refl
                                | apply Qeq_bool_iff, H].
Qed.

Lemma cmp6_of_consistent (a b : Q) : cmp6_consistent (cmp6_of a b) = true.
Proof.
  unfold cmp6_consistent, cmp6_of, cmp_eval, exactly_one; cbn [c_lt c_le c_gt c_ge c_eq c_ne].
  destruct (cmp_bools a b) as [(_ & E1 & E2 & E3)|[(_ & E1 & E2 & E3)|(_ & E1 & E2 & E3)]]; rewrite E1, E2, E3; reflexivity.
Qed.

Lemma cmp6_of_mirror (a b : Q) : cmp6_mirror (cmp6_of a b) (cmp6_of b a) = true.
Proof.
  unfold cmp6_mirror, cmp6_of, cmp_eval; cbn [c_lt c_le c_gt c_ge c_eq c_ne].
  destruct (cmp_bools a b) as [(_ & E1 & E2 & E3)|[(_ & E1 & E2 & E3)|(_ & E1 & E2 & E3)]];
    assert (E4 : Qeq_bool b a = Qeq_bool a b)
      by (destruct (Qeq_bool a b) eqn:X, (Qeq_bool b a) eqn:Y; try reflexivity;
          [apply Qeq_bool_iff in X; apply Qeq_sym in X; apply Qeq_bool_iff in X; congruence
          |apply Qeq_bool_iff in Y; apply Qeq_sym in Y; apply Qeq_bool_iff in Y; congruence]);
    rewrite E4, E1, E2, E3; reflexivity.
Qed.

(* the model's operator table is the exact order on the comparison value of the operand, in both operand orders *)
Lemma time_cmp6_fwd t o : time_cmp6 t o false = cmp6_of t (cmp_value o).
Proof. reflexivity. Qed.
Lemma time_cmp6_rev t o : time_cmp6 t o true = cmp6_of (cmp_value o) t.
Proof. reflexivity. Qed.

Theorem time_cmp_consistent (t : Q) (o : operand) :
  cmp6_consistent (time_cmp6 t o false) = true /\ cmp6_consistent (time_cmp6 t o true) = true /\
  cmp6_mirror (time_cmp6 t o false) (time_cmp6 t o true) = true /\
  (c_eq (time_cmp6 t o false) = true -> pyhash_Q t = pyhash_Q (cmp_value o)).
Proof.
  rewrite time_cmp6_fwd, time_cmp6_rev. repeat split.
  - apply cmp6_of_consistent.
  - apply cmp6_of_consistent.
  - apply cmp6_of_mirror.
  - cbn. intro E. apply Qeq_bool_iff in E. apply pyhash_Q_respects_eq, E.
Qed.

(* what the laws mean: a consistent sextuple is determined by which of < == > holds *)
Lemma cmp6_consistent_sound (c : cmp6) : cmp6_consistent c = true ->
  (c_lt c = true \/ c_eq c = true \/ c_gt c = true) /\
  (c_lt c = true -> c_eq c = false /\ c_gt c = false) /\ (c_eq c = true -> c_lt c = false /\ c_gt c = false) /\
  (c_gt c = true -> c_lt c = false /\ c_eq c = false) /\
  c_le c = (c_lt c || c_eq c)%bool /\ c_ge c = (c_gt c || c_eq c)%bool /\ c_ne c = negb (c_eq c).
Proof.
  destruct c as [l le g ge e ne]; unfold cmp6_consistent, exactly_one; cbn.
  destruct l, le, g, ge, e, ne; cbn; intro H; try discriminate; intuition congruence.
Qed.
