(* C14 -- the property's own specification (definitions only; no reference to how the code computes):
     * brute-force definition of "the fraction with the smallest denominator strictly inside (x - e, x + e)";
     * the field of rationals: what every operator must return on the DOCUMENTED value of each operand (a float counts
       as its shortest decimal representation in arithmetic and as its exact binary value in comparisons);
     * the value-free laws of a total order (cmp6_consistent / cmp6_mirror);
     * the value of a decimal literal (parsed repr of a float).
   check_spec (Corr.v) uses only these definitions, Float64.v (rounding interval, proved against Flocq) and
   Dispatch.documented_value.  The operational model of the operator wrappers (Model.time_binop / time_cmp) says "the code
   hands the converted operands to gmpy2.mpq, which is exact", i.e. it is this specification applied to the converted
   operands: for the operator table model and specification coincide by construction, the information is in the
   correspondence check (implementation = specification on every generated input), not in a theorem. *)
From Coq Require Import ZArith QArith Qround Qabs Bool List.
Import ListNotations.
Open Scope Z_scope.

(* brute-force specification: the fraction with the smallest denominator strictly inside (x - e, x + e) *)
Open Scope Q_scope.
Definition in_open (x e r : Q) : Prop := x - e < r /\ r < x + e.
Definition in_openb (x e r : Q) : bool := negb (Qle_bool r (x - e)) && negb (Qle_bool (x + e) r).

(* smallest numerator p with p/q > lo *)
Definition first_above (lo : Q) (q : positive) : Z := (Qfloor (lo * (Zpos q # 1)) + 1)%Z.
Fixpoint brute_from (x e : Q) (q : positive) (fuel : nat) : option Q :=
  match fuel with
  | O => None
  | S f => let p := first_above (x - e) q in
           if in_openb x e (p # q) then Some (p # q) else brute_from x e (Pos.succ q) f
  end.
Definition brute (x e : Q) (fuel : nat) : option Q := brute_from x e 1%positive fuel.

(* ------------------------------------------------------------------------------------------------------------ *)
(* TimeType operator table.  Operands: a time value / int / fraction carry one exact rational; a float carries its
   exact binary value and the value of its shortest decimal representation (repr), both supplied exactly. *)
Inductive operand := OTime (q : Q) | OInt (z : Z) | OFrac (q : Q) | OFloat (exact dec : Q).

Definition arith_value (o : operand) : Q :=      (* value used by + - * / // % ** *)
  match o with OTime q => q | OInt z => inject_Z z | OFrac q => q | OFloat _ d => d end.
Definition cmp_value (o : operand) : Q :=        (* value used by < <= > >= == *)
  match o with OTime q => q | OInt z => inject_Z z | OFrac q => q | OFloat e _ => e end.

Inductive binop := Add | Sub | Mul | Div | FloorDiv | Mod | Pow.
Inductive cmpop := CLt | CLe | CGt | CGe | CEq | CNe.
Inductive unop := Neg | Abs | Floor | Ceil | Trunc | RoundHalfEven | Pos.

Definition Qfloordiv (a b : Q) : Z := Qfloor (a / b).
Definition Qmod (a b : Q) : Q := a - inject_Z (Qfloordiv a b) * b.
Definition Qpow_Z (a : Q) (n : Z) : Q := Qpower a n.
Definition Qtrunc (a : Q) : Z := if Qle_bool 0 a then Qfloor a else Qceiling a.
(* Python round(): nearest, ties to even *)
Definition Qround_half_even (a : Q) : Z :=
  let f := Qfloor a in
  let r := a - inject_Z f in
  match Qcompare r (1 # 2) with
  | Lt => f
  | Gt => (f + 1)%Z
  | Eq => if Z.even f then f else (f + 1)%Z
  end.

Definition is_zero (q : Q) : bool := Qeq_bool q 0.

(* result of `a op b`: None = ZeroDivisionError *)
Definition binop_eval (op : binop) (a b : Q) : option Q :=
  match op with
  | Add => Some (a + b)
  | Sub => Some (a - b)
  | Mul => Some (a * b)
  | Div => if is_zero b then None else Some (a / b)
  | FloorDiv => if is_zero b then None else Some (inject_Z (Qfloordiv a b))
  | Mod => if is_zero b then None else Some (Qmod a b)
  | Pow => (* only integer exponents are generated *)
      let n := Qfloor b in
      if is_zero a && (n <? 0)%Z then None else Some (Qpow_Z a n)
  end.


Definition cmp_eval (op : cmpop) (a b : Q) : bool :=
  match op with
  | CLt => negb (Qle_bool b a)
  | CLe => Qle_bool a b
  | CGt => negb (Qle_bool a b)
  | CGe => Qle_bool b a
  | CEq => Qeq_bool a b
  | CNe => negb (Qeq_bool a b)
  end.

(* all six comparisons of one pair (round 4) *)
Record cmp6 := mkCmp6 { c_lt : bool; c_le : bool; c_gt : bool; c_ge : bool; c_eq : bool; c_ne : bool }.
Definition cmp6_of (a b : Q) : cmp6 :=
  mkCmp6 (cmp_eval CLt a b) (cmp_eval CLe a b) (cmp_eval CGt a b) (cmp_eval CGe a b) (cmp_eval CEq a b) (cmp_eval CNe a b).
(* laws that do not mention any value *)
Definition exactly_one (a b c : bool) : bool := (a && negb b && negb c) || (negb a && b && negb c) || (negb a && negb b && c).
Definition cmp6_consistent (c : cmp6) : bool :=
  exactly_one (c_lt c) (c_eq c) (c_gt c) && Bool.eqb (c_le c) (c_lt c || c_eq c) && Bool.eqb (c_ge c) (c_gt c || c_eq c)
  && Bool.eqb (c_ne c) (negb (c_eq c)).
Definition cmp6_mirror (f r : cmp6) : bool :=
  Bool.eqb (c_lt r) (c_gt f) && Bool.eqb (c_gt r) (c_lt f) && Bool.eqb (c_le r) (c_ge f) && Bool.eqb (c_ge r) (c_le f)
  && Bool.eqb (c_eq r) (c_eq f) && Bool.eqb (c_ne r) (c_ne f).

Definition unop_eval (op : unop) (a : Q) : Q :=
  match op with
  | Neg => - a
  | Abs => Qabs a
  | Floor => inject_Z (Qfloor a)
  | Ceil => inject_Z (Qceiling a)
  | Trunc => inject_Z (Qtrunc a)
  | RoundHalfEven => inject_Z (Qround_half_even a)
  | Pos => a
  end.

(* decimal literal  (-1)^neg * mant * 10^exp  — the parsed form of repr(float) *)
Definition pow10 (e : Z) : Q := Qpower (10 # 1) e.
Definition parse_decimal (neg : bool) (mant : Z) (exp : Z) : Q :=
  (if neg then -1 else 1) * inject_Z mant * pow10 exp.


(* ------------------------------------------------------------------------------------------------------------ *)
(* specification: r = p/q is strictly inside (x-e, x+e) and no fraction with a smaller denominator is *)
(* Denominators above 400 (round 6): brute force is too slow inside the check, so minimality is DECIDED by the classical
   Farey-neighbour criterion instead of being searched for.  If p*b - a*q = 1 with 0 < b < q, then a/b and
   c/d = (p-a)/(q-b) are the neighbours of p/q among all fractions with a denominator below q (b*c - a*d = 1, so every
   fraction strictly between them has a denominator >= b + d = q): p/q has the smallest denominator inside (lo, hi) iff
   a/b <= lo and hi <= c/d.  b is the inverse of p modulo q (extended Euclid, fuel = 2 * bit length); the criterion
   re-checks p*b - a*q = 1, so its soundness (ProofsSpec.farey_minimal_sound, all denominators) does not depend on the
   Euclid loop being right, and a fraction that is not in lowest terms is rejected. *)
Fixpoint inv_loop (fuel : nat) (r0 r1 s0 s1 : Z) : Z :=
  match fuel with
  | O => s0
  | S f => if (r1 =? 0)%Z then s0
           else let k := (r0 / r1)%Z in inv_loop f r1 (r0 - k * r1)%Z s1 (s0 - k * s1)%Z
  end.
Definition inv_mod (p q : Z) : Z :=
  (inv_loop (S (2 * Z.to_nat (Z.log2 q + 1))) q (p mod q) 0 1 mod q)%Z.

Definition farey_minimal (x e : Q) (p q : Z) : bool :=
  let lo := x - e in let hi := x + e in
  let b := inv_mod p q in
  let a := ((p * b - 1) / q)%Z in
  let c := (p - a)%Z in
  let d := (q - b)%Z in
  (p * b - a * q =? 1)%Z && (0 <? b)%Z && (0 <? d)%Z
  && (a * Zpos (Qden lo) <=? Qnum lo * b)%Z          (* a/b <= lo *)
  && (Qnum hi * d <=? c * Zpos (Qden hi))%Z.         (* hi <= c/d *)

Definition best_in (x e : Q) (p q : Z) : bool :=
  match q with
  | Zpos qq =>
      in_openb x e (p # qq) &&
      (if (q <=? 400)%Z then
         match brute x e (Pos.to_nat qq) with
         | Some r => (Zpos (Qden r) =? q)%Z      (* brute force stops at the first denominator that works *)
         | None => false
         end
       else farey_minimal x e p q)
  | _ => false
  end.


(* a^(en/ed) for a non-integral exponent is in general irrational: the result must approximate it (|r^ed - a^en| <=
   2^-40 * a^en, a >= 0) and may claim to be exact only if it is (r^ed == a^en) *)
Definition pow_ni_ok (a : Q) (en : Z) (ed : positive) (r : Q) (exact_type : bool) : bool :=
  let lhs := Qpower r (Zpos ed) in
  let rhs := Qpower a en in
  Qle_bool 0 a && Qle_bool (Qabs (lhs - rhs)) (rhs * (1 # 1099511627776)) && (negb exact_type || Qeq_bool lhs rhs).

