(* C14 — proofs about the clean model of _approximate_int / approximate_rational (Model.v).
   Stern–Brocot invariant: a = pa/qa and b = pb/qb are Farey neighbours (determinant 1) that enclose alpha strictly,
   both outside the tolerance interval on opposite sides (b may be inside in the very first iteration only).
   Remark found while proving: for to_left = false the divisor x_den is negative and the Python idiom
   (x_num + x_den - 1) // x_den is NOT the ceiling (it overshoots by 1 or 2); the algorithm is still correct because
   whenever it overshoots, the candidate just past alpha lies within 1/(den*Q) of alpha and is therefore inside the
   interval, so the iteration returns (lemma step_F). *)
From Coq Require Import ZArith QArith Qround Bool Lia Lqa ZifyBool.
Require Import QV.C14.Model.
Ltac Zify.zify_post_hook ::= Z.to_euclidean_division_equations.
Open Scope Z_scope.

(* weighted-mediant decomposition between Farey neighbours a = pa/qa, b = pb/qb with pb*qa - pa*qb = 1 *)
Lemma decomp_q pa qa pb qb p q : pb * qa - pa * qb = 1 ->
  q = qa * (pb * q - p * qb) + qb * (p * qa - pa * q).
Proof. intros H. transitivity (q * (pb * qa - pa * qb)); [rewrite H; ring | ring]. Qed.
Lemma decomp_p pa qa pb qb p q : pb * qa - pa * qb = 1 ->
  p = pa * (pb * q - p * qb) + pb * (p * qa - pa * q).
Proof. intros H. transitivity (p * (pb * qa - pa * qb)); [rewrite H; ring | ring]. Qed.

(* core counting argument: u >= 1, k >= 1, weights *)
Lemma weights_bound qa qb u v k : 1 <= qa -> 1 <= qb -> 1 <= u -> 1 <= k -> u * (k - 1) + 1 <= v ->
  qb + k * qa <= qa * v + qb * u.
Proof.
  intros Hqa Hqb Hu Hk Hv.
  assert (qa * (u * (k - 1) + 1) <= qa * v) by (apply Z.mul_le_mono_nonneg_l; lia).
  assert (0 <= qa * ((k - 1) * (u - 1))) by (apply Z.mul_nonneg_nonneg; [lia|apply Z.mul_nonneg_nonneg; lia]).
  assert (0 <= qb * (u - 1)) by (apply Z.mul_nonneg_nonneg; lia).
  nia.
Qed.

(* generic minimality: h is the linear functional of the near bound, hb = h(b) >= ..., ha = -h(a) > 0 *)
Lemma minimal_core qa qb u v k kd kn : 1 <= qa -> 1 <= qb -> 1 <= u -> 1 <= v -> 1 <= k -> 0 < kd ->
  (k - 1) * kd <= kn -> u * kn < v * kd -> qb + k * qa <= qa * v + qb * u.
Proof.
  intros Hqa Hqb Hu Hv Hk Hkd H1 H2.
  apply weights_bound; try assumption.
  assert (u * ((k - 1) * kd) <= u * kn) by (apply Z.mul_le_mono_nonneg_l; lia).
  assert (u * (k - 1) * kd < v * kd) by nia.
  assert (u * (k - 1) < v) by (apply Z.mul_lt_mono_pos_r with kd; lia).
  lia.
Qed.

Section Approx.
Variables A D N : Z.
Hypothesis HD : 1 <= D.
Hypothesis HDA : D <= A.
Hypothesis HAN : A < N.

Definition insideP (p q : Z) : Prop := q * (A - D) < p * N /\ p * N < q * (A + D).

Lemma inside_iff p q : inside (A - D) (A + D) N p q = true <-> insideP p q.
Proof. unfold inside, insideP. lia. Qed.

(* invariant at the loop head *)
Definition InvT (pa qa pb qb : Z) : Prop :=   (* to_left = true *)
  1 <= qa /\ 1 <= qb /\ pb * qa - pa * qb = 1 /\
  pa * N < A * qa /\ A * qb < pb * N /\
  pa * N <= (A - D) * qa /\
  ((A + D) * qb <= pb * N \/ (pa = 0 /\ qa = 1 /\ pb = 1 /\ qb = 1)).
Definition InvF (pa qa pb qb : Z) : Prop :=   (* to_left = false *)
  1 <= qa /\ 2 <= qb /\ pa * qb - pb * qa = 1 /\
  A * qa < pa * N /\ pb * N < A * qb /\
  (A + D) * qa <= pa * N /\ pb * N <= (A - D) * qb.

Definition Inv (s : ast) : Prop :=
  pf s = pb s /\ qf s = qb s /\
  if to_left s then InvT (pa s) (qa s) (pb s) (qb s) else InvF (pa s) (qa s) (pb s) (qb s).

(* what a returned fraction must satisfy *)
Definition Best (p q : Z) : Prop :=
  1 <= q /\ insideP p q /\ forall p' q', 1 <= q' -> insideP p' q' -> q <= q'.

Lemma init_inv : Inv approx_init.
Proof. unfold Inv, approx_init, InvT; cbn [pf pb qf qb pa qa to_left]. repeat split; try lia. Qed.


Lemma best_T pa qa pb qb j : InvT pa qa pb qb -> 0 <= j -> insideP (pb + j * pa) (qb + j * qa) ->
  let kn := N * pb - (A + D) * qb in
  let kd := (A + D) * qa - N * pa in
  let k := kn / kd + 1 in
  kd <> 0 /\ Best (pb + k * pa) (qb + k * qa).
Proof.
  intros (Hqa & Hqb & Hdet & Haα & Hαb & HaL & HbU) Hj [HjL HjU] kn kd k.
  assert (Hkd : 0 < kd) by (unfold kd; nia).
  assert (Hk1 : (k - 1) * kd <= kn) by (unfold k; nia).
  assert (Hk2 : kn < k * kd) by (unfold k; nia).
  (* the inside candidate j is at or beyond k *)
  assert (HjU' : kn - j * kd < 0) by (unfold kn, kd; nia).
  assert (Hkj : k <= j) by nia.
  split; [lia|].
  destruct HbU as [HbU | (-> & -> & -> & ->)].
  - assert (Hkn : 0 <= kn) by (unfold kn; lia).
    assert (Hk : 1 <= k) by nia.
    unfold Best. split; [nia|]. split.
    + split.
      * (* c_k > L : hL(c_k) = hL(c_j) - (j-k) hL(a), hL(a) <= 0 *)
        assert (0 <= (j - k) * ((A - D) * qa - pa * N)) by (apply Z.mul_nonneg_nonneg; lia).
        nia.
      * unfold kn, kd in Hk2. nia.
    + intros p q Hq [HL HU].
      set (u := p * qa - pa * q). set (v := pb * q - p * qb).
      assert (Hu : 1 <= u) by (unfold u; nia).
      assert (Hv : 1 <= v) by (unfold v; nia).
      rewrite (decomp_q pa qa pb qb p q Hdet) at 1. fold u v.
      apply minimal_core with kd kn; try assumption.
      (* u*kn < v*kd  <->  hU(p,q) < 0 *)
      assert (p * N - (A + D) * q = u * kn - v * kd).
      { transitivity ((p * N - (A + D) * q) * (pb * qa - pa * qb)); [rewrite Hdet; ring|].
        unfold u, v, kn, kd. ring. }
      lia.
  - (* first iteration: a = 0/1, b = 1/1, candidates 1/(1+j) *)
    subst k kn kd.
    assert (Hk0 : 0 <= (N * 1 - (A + D) * 1) / ((A + D) * 1 - N * 0) + 1) by nia.
    unfold Best. split; [nia|]. split.
    + split; nia.
    + intros p q Hq [HL HU].
      assert (1 <= p) by nia.
      nia.
Qed.

Lemma best_F pa qa pb qb j : InvF pa qa pb qb -> 0 <= j -> insideP (pb + j * pa) (qb + j * qa) ->
  let kn := N * pb - (A - D) * qb in
  let kd := (A - D) * qa - N * pa in
  let k := kn / kd + 1 in
  kd <> 0 /\ Best (pb + k * pa) (qb + k * qa).
Proof.
  intros (Hqa & Hqb & Hdet & Hαa & Hbα & HaU & HbL) Hj [HjL HjU] kn kd k.
  assert (Hkd : kd < 0) by (unfold kd; nia).
  assert (Hkn : kn <= 0) by (unfold kn; lia).
  assert (Hk1 : kn - (k - 1) * kd <= 0) by (unfold k; nia).
  assert (Hk2 : 0 < kn - k * kd) by (unfold k; nia).
  assert (HjL' : 0 < kn - j * kd) by (unfold kn, kd; nia).
  assert (Hkj : k <= j) by nia.
  assert (Hk : 1 <= k) by nia.
  split; [lia|].
  unfold Best. split; [nia|]. split.
  - split.
    + unfold kn, kd in Hk2. nia.
    + assert (0 <= (j - k) * (pa * N - (A + D) * qa)) by (apply Z.mul_nonneg_nonneg; lia).
      nia.
  - intros p q Hq [HL HU].
    set (u := pa * q - p * qa). set (v := p * qb - pb * q).
    assert (Hu : 1 <= u) by (unfold u; nia).
    assert (Hv : 1 <= v) by (unfold v; nia).
    assert (Hq' : q = qa * v + qb * u).
    { transitivity (q * (pa * qb - pb * qa)); [rewrite Hdet; ring | unfold u, v; ring]. }
    rewrite Hq' at 1.
    apply minimal_core with (- kd) (- kn); try assumption; try lia.
    assert (p * N - (A - D) * q = u * kn - v * kd).
    { transitivity ((p * N - (A - D) * q) * (pa * qb - pb * qa)); [rewrite Hdet; ring|].
      unfold u, v, kn, kd. ring. }
    lia.
Qed.

Lemma not_inside p q : inside (A - D) (A + D) N p q = false -> ~ insideP p q.
Proof. intros H HP. apply inside_iff in HP. congruence. Qed.

Definition StepPost (s : ast) (r : outcome (Z * Z) + ast) : Prop :=
  match r with
  | inl o => exists p q, o = ORet (p, q) /\ Best p q
  | inr s' => Inv s' /\ qa s + qb s + 1 <= qa s' + qb s'
  end.

Lemma step_T pa qa pb qb : InvT pa qa pb qb ->
  StepPost (mkAst pa qa pb qb pb qb true) (approx_step A D N (mkAst pa qa pb qb pb qb true)).
Proof.
  intros HI. pose proof HI as (Hqa & Hqb & Hdet & Haα & Hαb & HaL & HbU).
  unfold approx_step. cbn [Model.pa Model.qa Model.pb Model.qb Model.pf Model.qf Model.to_left].
  set (xn := N * pb - A * qb). set (xd := - N * pa + A * qa).
  assert (Hxd : 0 < xd) by (unfold xd; lia).
  assert (Hxn : 0 < xn) by (unfold xn; lia).
  destruct (xd =? 0) eqn:E0; [lia|].
  set (x := (xn + xd - 1) / xd).
  assert (Hx1 : (x - 1) * xd < xn) by (unfold x; nia).
  assert (Hx2 : xn <= x * xd) by (unfold x; nia).
  assert (Hx : 1 <= x) by nia.
  clearbody x.
  replace (pb + x * pa - pa) with (pb + (x - 1) * pa) by ring.
  replace (qb + x * qa - qa) with (qb + (x - 1) * qa) by ring.
  destruct (inside (A - D) (A + D) N (pb + x * pa) (qb + x * qa)
            || inside (A - D) (A + D) N (pb + (x - 1) * pa) (qb + (x - 1) * qa)) eqn:Ein.
  - apply orb_true_iff in Ein.
    assert (Hj : exists j, 0 <= j /\ insideP (pb + j * pa) (qb + j * qa)).
    { destruct Ein as [E|E]; apply inside_iff in E; [exists x | exists (x - 1)]; split; try lia; exact E. }
    destruct Hj as (j & Hj0 & Hj).
    destruct (best_T pa qa pb qb j HI Hj0 Hj) as [Hkd HB].
    destruct ((A + D) * qa - N * pa =? 0) eqn:Ek; [lia|].
    cbn [StepPost]. eexists _, _. split; [reflexivity| exact HB].
  - apply orb_false_iff in Ein as [E1 E2]. apply not_inside in E1. apply not_inside in E2.
    unfold insideP in E1, E2.
    cbn [StepPost Model.qa Model.qb]. split; [|nia].
    unfold Inv. cbn [Model.pa Model.qa Model.pb Model.qb Model.pf Model.qf Model.to_left negb].
    split; [reflexivity|]. split; [reflexivity|].
    assert (Gf : (pb + x * pa) * N - A * (qb + x * qa) = xn - x * xd) by (unfold xn, xd; ring).
    assert (Gp : (pb + (x - 1) * pa) * N - A * (qb + (x - 1) * qa) = xn - (x - 1) * xd) by (unfold xn, xd; ring).
    assert (Q1 : 1 <= qb + (x - 1) * qa) by nia.
    assert (Q2 : 2 <= qb + x * qa) by nia.
    unfold InvF. repeat split; try assumption.
    + transitivity (pb * qa - pa * qb); [ring|assumption].
    + lia.
    + (* full < alpha: g(full) <= 0 and g(full) = 0 would be inside *)
      assert (xn - x * xd <> 0).
      { intros Hz. apply E1. split; nia. }
      lia.
    + (* prev > alpha and not inside => prev >= U *)
      apply Z.nlt_ge. intros Hlt. apply E2. split; nia.
    + apply Z.nlt_ge. intros Hlt. apply E1. split; [nia|].
      assert (xn - x * xd <> 0) by (intros Hz; apply E1; split; nia). nia.
Qed.

Lemma step_F pa qa pb qb : InvF pa qa pb qb ->
  StepPost (mkAst pa qa pb qb pb qb false) (approx_step A D N (mkAst pa qa pb qb pb qb false)).
Proof.
  intros HI. pose proof HI as (Hqa & Hqb & Hdet & Hαa & Hbα & HaU & HbL).
  unfold approx_step. cbn [Model.pa Model.qa Model.pb Model.qb Model.pf Model.qf Model.to_left].
  set (xn := N * pb - A * qb). set (xd := - N * pa + A * qa).
  assert (Hxd : xd < 0) by (unfold xd; lia).
  assert (Hxn : xn < 0) by (unfold xn; lia).
  destruct (xd =? 0) eqn:E0; [lia|].
  set (x := (xn + xd - 1) / xd).
  (* floor division by a negative number: the quotient overshoots the ceiling by one or two; see DESIGN *)
  assert (Hx1 : 1 < xn - x * xd) by (unfold x; nia).
  assert (Hx2 : xn - (x - 1) * xd <= 1) by (unfold x; nia).
  assert (Hx : 1 <= x) by nia.
  clearbody x.
  replace (pb + x * pa - pa) with (pb + (x - 1) * pa) by ring.
  replace (qb + x * qa - qa) with (qb + (x - 1) * qa) by ring.
  assert (Gf : (pb + x * pa) * N - A * (qb + x * qa) = xn - x * xd) by (unfold xn, xd; ring).
  assert (Gp : (pb + (x - 1) * pa) * N - A * (qb + (x - 1) * qa) = xn - (x - 1) * xd) by (unfold xn, xd; ring).
  assert (Q1 : 2 <= qb + (x - 1) * qa) by nia.
  assert (Q2 : 2 <= qb + x * qa) by nia.
  destruct (inside (A - D) (A + D) N (pb + x * pa) (qb + x * qa)
            || inside (A - D) (A + D) N (pb + (x - 1) * pa) (qb + (x - 1) * qa)) eqn:Ein.
  - apply orb_true_iff in Ein.
    assert (Hj : exists j, 0 <= j /\ insideP (pb + j * pa) (qb + j * qa)).
    { destruct Ein as [E|E]; apply inside_iff in E; [exists x | exists (x - 1)]; split; try lia; exact E. }
    destruct Hj as (j & Hj0 & Hj).
    destruct (best_F pa qa pb qb j HI Hj0 Hj) as [Hkd HB].
    destruct ((A - D) * qa - N * pa =? 0) eqn:Ek; [lia|].
    cbn [StepPost]. eexists _, _. split; [reflexivity| exact HB].
  - apply orb_false_iff in Ein as [E1 E2]. apply not_inside in E1. apply not_inside in E2.
    unfold insideP in E1, E2.
    cbn [StepPost Model.qa Model.qb]. split; [|nia].
    unfold Inv. cbn [Model.pa Model.qa Model.pb Model.qb Model.pf Model.qf Model.to_left negb].
    split; [reflexivity|]. split; [reflexivity|].
    (* prev is strictly left of alpha: otherwise it is within 1/(N*Q) of alpha, hence inside *)
    assert (Hprev : xn - (x - 1) * xd < 0).
    { apply Z.nle_gt. intros Hge. apply E2. split; nia. }
    unfold InvT. repeat split; lia.
Qed.

Lemma step_ok s : Inv s -> StepPost s (approx_step A D N s).
Proof.
  destruct s as [pa qa pb qb pf qf tl]. unfold Inv. cbn [Model.pa Model.qa Model.pb Model.qb Model.pf Model.qf Model.to_left].
  intros (-> & -> & H). destruct tl; [apply step_T | apply step_F]; exact H.
Qed.

Lemma inv_bound s : Inv s -> qa s + qb s <= N.
Proof.
  destruct s as [pa qa pb qb pf qf tl]. unfold Inv. cbn [Model.pa Model.qa Model.pb Model.qb Model.pf Model.qf Model.to_left].
  intros (_ & _ & H). destruct tl.
  - destruct H as (Hqa & Hqb & Hdet & Haα & Hαb & _).
    assert (N = qa * (pb * N - A * qb) + qb * (A * qa - pa * N)).
    { transitivity (N * (pb * qa - pa * qb)); [rewrite Hdet; ring | ring]. }
    nia.
  - destruct H as (Hqa & Hqb & Hdet & Hαa & Hbα & _).
    assert (N = qa * (A * qb - pb * N) + qb * (pa * N - A * qa)).
    { transitivity (N * (pa * qb - pb * qa)); [rewrite Hdet; ring | ring]. }
    nia.
Qed.

Definition Good (o : outcome (Z * Z)) : Prop := exists p q, o = ORet (p, q) /\ Best p q.

Lemma loop_ok : forall fuel s, Inv s -> N - (qa s + qb s) < Z.of_nat fuel -> Good (approx_loop fuel A D N s).
Proof.
  induction fuel as [|fuel IH]; intros s HI Hf.
  - pose proof (inv_bound s HI). lia.
  - cbn [approx_loop]. pose proof (step_ok s HI) as HS.
    destruct (approx_step A D N s) as [o|s']; cbn [StepPost] in HS.
    + exact HS.
    + destruct HS as [HI' Hgrow]. apply IH; [exact HI'|lia].
Qed.

Lemma loop_p_ok : forall fuel s, Inv s ->
  match approx_loop_p fuel A D N s with
  | inl o => Good o
  | inr s' => Inv s' /\ qa s + qb s + Zpos fuel <= qa s' + qb s'
  end.
Proof.
  induction fuel as [p IH|p IH|]; intros s HI; cbn [approx_loop_p].
  - pose proof (step_ok s HI) as HS.
    destruct (approx_step A D N s) as [o|s1]; cbn [StepPost] in HS; [exact HS|].
    destruct HS as [HI1 Hg1]. specialize (IH s1 HI1) as H2.
    destruct (approx_loop_p p A D N s1) as [o|s2]; [exact H2|].
    destruct H2 as [HI2 Hg2]. specialize (IH s2 HI2) as H3.
    destruct (approx_loop_p p A D N s2) as [o|s3]; [exact H3|].
    destruct H3 as [HI3 Hg3]. split; [exact HI3|lia].
  - specialize (IH s HI) as H1.
    destruct (approx_loop_p p A D N s) as [o|s1]; [exact H1|].
    destruct H1 as [HI1 Hg1]. specialize (IH s1 HI1) as H2.
    destruct (approx_loop_p p A D N s1) as [o|s2]; [exact H2|].
    destruct H2 as [HI2 Hg2]. split; [exact HI2|lia].
  - pose proof (step_ok s HI) as HS.
    destruct (approx_step A D N s) as [o|s1]; cbn [StepPost] in HS; [exact HS|].
    destruct HS as [HI1 Hg1]. split; [exact HI1|lia].
Qed.

Theorem approx_int_ok : Good (approx_int (Z.to_nat N) A D N).
Proof.
  unfold approx_int. destruct ((0 <? A) && (A <? N)) eqn:E; [|lia].
  apply loop_ok; [apply init_inv|]. cbn [approx_init Model.qa Model.qb]. lia.
Qed.

Lemma approx_int_p_aux fuel : N = Z.pos fuel ->
  Good (match approx_loop_p fuel A D N approx_init with inl r => r | inr _ => OFuel end).
Proof.
  intros EN. pose proof (loop_p_ok fuel approx_init init_inv) as H.
  destruct (approx_loop_p fuel A D N approx_init) as [o|s']; [exact H|].
  destruct H as [HI Hg]. pose proof (inv_bound s' HI). cbn [approx_init Model.qa Model.qb] in Hg. lia.
Qed.
End Approx.

Theorem approx_int_p_ok A D N : 1 <= D -> D <= A -> A < N -> Good A D N (approx_int_p A D N).
Proof.
  intros HD HDA HAN. unfold approx_int_p. destruct ((0 <? A) && (A <? N)) eqn:E; [|lia].
  destruct N as [|fuel|fuel]; try lia.
  apply approx_int_p_aux; auto.
Qed.

Definition InOpenZ (xp xq dp dq p q : Z) : Prop :=
  (xp * dq - dp * xq) * q < p * (xq * dq) /\ p * (xq * dq) < (xp * dq + dp * xq) * q.

Lemma transfer xp xq dp dq c1 c2 N n a0 p q :
  0 < c1 -> 0 < c2 -> 0 < N -> N = c1 * xq -> N = c2 * dq -> xp = xq * n + a0 ->
  (InOpenZ xp xq dp dq p q <-> insideP (a0 * c1) (dp * c2) N (p - n * q) q).
Proof.
  intros Hc1 Hc2 HN E1 E2 Exp. unfold InOpenZ, insideP.
  assert (K : 0 < c1 * c2) by nia.
  assert (L1 : c1 * c2 * ((xp * dq - dp * xq) * q) = N * ((n * N + a0 * c1 - dp * c2) * q)).
  { transitivity ((xp * c1 * (c2 * dq) - dp * c2 * (c1 * xq)) * q); [ring|]. rewrite <- E1, <- E2.
    subst xp. transitivity (N * ((n * (c1 * xq) + a0 * c1 - dp * c2) * q)); [ring| rewrite <- E1; reflexivity]. }
  assert (L2 : c1 * c2 * ((xp * dq + dp * xq) * q) = N * ((n * N + a0 * c1 + dp * c2) * q)).
  { transitivity ((xp * c1 * (c2 * dq) + dp * c2 * (c1 * xq)) * q); [ring|]. rewrite <- E1, <- E2.
    subst xp. transitivity (N * ((n * (c1 * xq) + a0 * c1 + dp * c2) * q)); [ring| rewrite <- E1; reflexivity]. }
  assert (L3 : c1 * c2 * (p * (xq * dq)) = N * (p * N)).
  { transitivity (p * (c1 * xq) * (c2 * dq)); [ring|]. rewrite <- E1, <- E2. ring. }
  split.
  - intros [H1 H2].
    apply (Z.mul_lt_mono_pos_l (c1 * c2)) in H1; [|exact K].
    apply (Z.mul_lt_mono_pos_l (c1 * c2)) in H2; [|exact K].
    rewrite L1, L3 in H1. rewrite L3, L2 in H2.
    apply Z.mul_lt_mono_pos_l in H1; [|exact HN]. apply Z.mul_lt_mono_pos_l in H2; [|exact HN].
    split; lia.
  - intros [H1 H2].
    split.
    + apply (Z.mul_lt_mono_pos_l (c1 * c2)); [exact K|]. rewrite L1, L3.
      apply Z.mul_lt_mono_pos_l; [exact HN|]. lia.
    + apply (Z.mul_lt_mono_pos_l (c1 * c2)); [exact K|]. rewrite L2, L3.
      apply Z.mul_lt_mono_pos_l; [exact HN|]. lia.
Qed.

Theorem approximate_rational_ok xp xq dp dq : 1 <= xq -> 0 < dq -> 0 < dp ->
  exists p q, approximate_rational xp xq dp dq = ORet (p, q) /\ 1 <= q /\ InOpenZ xp xq dp dq p q /\
     forall p' q', 1 <= q' -> InOpenZ xp xq dp dq p' q' -> q <= q'.
Proof.
  intros Hxq Hdq Hdp. unfold approximate_rational.
  destruct (dp <=? 0) eqn:E0; [lia|].
  destruct (xq =? 1) eqn:E1.
  - assert (xq = 1) by lia. subst xq. exists xp, 1. split; [reflexivity|]. split; [lia|]. split.
    + unfold InOpenZ. nia.
    + intros; lia.
  - set (N := Z.lcm xq dq).
    destruct (Z.divide_lcm_l xq dq) as [c1 E1']. destruct (Z.divide_lcm_r xq dq) as [c2 E2']. fold N in E1', E2'.
    assert (HN0 : N <> 0) by (unfold N; rewrite Z.lcm_eq_0; lia).
    assert (HN : 0 < N) by (pose proof (Z.lcm_nonneg xq dq); fold N in H; lia).
    assert (Hc1 : 0 < c1) by nia. assert (Hc2 : 0 < c2) by nia.
    set (n := xp / xq). set (a0 := xp mod xq).
    assert (Exp : xp = xq * n + a0) by (unfold n, a0; apply Z.div_mod; lia).
    assert (Ha0 : 0 <= a0 < xq) by (unfold a0; apply Z.mod_pos_bound; lia).
    assert (EA : a0 * N / xq = a0 * c1).
    { rewrite E1'. replace (a0 * (c1 * xq)) with (a0 * c1 * xq) by ring. apply Z.div_mul; lia. }
    assert (ED : dp * N / dq = dp * c2).
    { rewrite E2'. replace (dp * (c2 * dq)) with (dp * c2 * dq) by ring. apply Z.div_mul; lia. }
    rewrite EA, ED.
    assert (TR := fun p q => transfer xp xq dp dq c1 c2 N n a0 p q Hc1 Hc2 HN E1' E2' Exp).
    destruct (a0 * c1 <? dp * c2) eqn:Elt.
    + exists (0 + n * 1), 1. split; [reflexivity|]. split; [lia|]. split.
      * apply TR. unfold insideP. nia.
      * intros; lia.
    + assert (G : Good (a0 * c1) (dp * c2) N (approx_int_p (a0 * c1) (dp * c2) N)).
      { apply approx_int_p_ok; nia. }
      destruct G as (p & q & -> & Hq & Hin & Hmin).
      exists (p + n * q), q. split; [reflexivity|]. split; [exact Hq|]. split.
      * apply TR. replace (p + n * q - n * q) with p by ring. exact Hin.
      * intros p' q' Hq' Hin'. apply (Hmin (p' - n * q') q' Hq'). apply TR. exact Hin'.
Qed.

(* the same statement over Q: p/q strictly inside (x - e, x + e) *)
Lemma in_open_iff (xp : Z) (xq : positive) (dp : Z) (dq : positive) (p : Z) (q : positive) :
  in_open (xp # xq) (dp # dq) (p # q) <-> InOpenZ xp (Zpos xq) dp (Zpos dq) p (Zpos q).
Proof.
  unfold in_open, InOpenZ, Qlt, Qminus, Qplus, Qopp. cbn [Qnum Qden].
  rewrite !Pos2Z.inj_mul. split; intros [H1 H2]; split; lia.
Qed.

Theorem approximate_rational_best_Q (xp : Z) (xq : positive) (dp : Z) (dq : positive) :
  (0 < dp)%Z ->
  exists (p : Z) (q : positive),
    approximate_rational xp (Zpos xq) dp (Zpos dq) = ORet (p, Zpos q) /\
    in_open (xp # xq) (dp # dq) (p # q) /\
    forall (p' : Z) (q' : positive), in_open (xp # xq) (dp # dq) (p' # q') -> (q <= q')%positive.
Proof.
  intros Hdp.
  destruct (approximate_rational_ok xp (Zpos xq) dp (Zpos dq)) as (p & q & E & Hq & Hin & Hmin); try lia.
  destruct q as [|q|q]; try lia.
  exists p, q. split; [exact E|]. split; [apply in_open_iff; exact Hin|].
  intros p' q' H. apply in_open_iff in H. specialize (Hmin p' (Zpos q')). lia.
Qed.

(* the generated kernel itself (nat fuel = den) *)
Require Import QV.common.Ctl QV.C14.Gen_numeric QV.C14.GenEq.
Theorem gen_kernel_best A D N : 1 <= D -> D <= A -> A < N ->
  exists p q, out_of (gen_approximate_int (Z.to_nat N) A D N) = ORet (p, q) /\ Best A D N p q.
Proof.
  intros HD HDA HAN. rewrite gen_approximate_int_eq. exact (approx_int_ok A D N HD HDA HAN).
Qed.

(* non-vacuity: a state reachable after one iteration satisfies the invariant *)
Example inv_after_one_step : Inv 3 1 4 (mkAst 1 1 1 2 1 2 false).
Proof. unfold Inv, InvF; cbn [pf pb qf qb pa qa to_left]. lia. Qed.

(* operator table: laws of the model used by the property statement *)
Open Scope Q_scope.

Lemma time_add_sym t o : forall r r', time_binop Add t o false = Some r -> time_binop Add t o true = Some r' -> r == r'.
Proof. unfold time_binop, binop_eval. intros r r' H1 H2. inversion H1; inversion H2; subst. ring. Qed.

Lemma time_mul_sym t o : forall r r', time_binop Mul t o false = Some r -> time_binop Mul t o true = Some r' -> r == r'.
Proof. unfold time_binop, binop_eval. intros r r' H1 H2. inversion H1; inversion H2; subst. ring. Qed.

Lemma time_sub_antisym t o : forall r r', time_binop Sub t o false = Some r -> time_binop Sub t o true = Some r' -> r == - r'.
Proof. unfold time_binop, binop_eval. intros r r' H1 H2. inversion H1; inversion H2; subst. ring. Qed.

Lemma time_cmp_mirror t o : time_cmp CLt t o false = time_cmp CGt t o true /\ time_cmp CLe t o false = time_cmp CGe t o true.
Proof. unfold time_cmp, cmp_eval. split; reflexivity. Qed.

Lemma divmod_identity a b : ~ b == 0 -> a == inject_Z (Qfloordiv a b) * b + Qmod a b.
Proof. intros _. unfold Qmod. ring. Qed.

Lemma mod_range a b : 0 < b -> 0 <= Qmod a b /\ Qmod a b < b.
Proof.
  intros Hb. unfold Qmod, Qfloordiv.
  assert (Hne : ~ b == 0) by (intro E; rewrite E in Hb; discriminate).
  pose proof (Qfloor_le (a / b)) as H1. pose proof (Qlt_floor (a / b)) as H2.
  assert (E : a == (a / b) * b) by (field; exact Hne).
  rewrite inject_Z_plus in H2.
  set (f := inject_Z (Qfloor (a / b))) in *. clearbody f.
  apply (Qmult_le_compat_r _ _ b) in H1; [|apply Qlt_le_weak; exact Hb].
  apply (Qmult_lt_compat_r _ _ b) in H2; [|exact Hb].
  rewrite <- E in H1, H2.
  assert (E2 : (f + inject_Z 1) * b == f * b + b) by (cbn; ring).
  rewrite E2 in H2. set (fb := f * b) in *. clearbody fb. clear E E2 Hne.
  split; lra.
Qed.
