(* C14 -- soundness of the executable specification that check_spec evaluates (Spec.best_in) against the Prop-level
   definition of the property (in_open + minimal denominator).  Round 5. *)
From Coq Require Import ZArith QArith Qround Qabs Bool List Lia Lqa.
Require Import QV.C14.Spec.
Open Scope Q_scope.

Lemma in_openb_iff x e r : in_openb x e r = true <-> in_open x e r.
Proof.
  unfold in_openb, in_open. rewrite andb_true_iff, !negb_true_iff.
  split; intros [A B]; split.
  - apply Qnot_le_lt. intro H. apply Qle_bool_iff in H. congruence.
  - apply Qnot_le_lt. intro H. apply Qle_bool_iff in H. congruence.
  - destruct (Qle_bool r (x - e)) eqn:E; [|reflexivity]. apply Qle_bool_iff in E. exfalso. apply (Qlt_not_le _ _ A E).
  - destruct (Qle_bool (x + e) r) eqn:E; [|reflexivity]. apply Qle_bool_iff in E. exfalso. apply (Qlt_not_le _ _ B E).
Qed.

Lemma frac_scale (p : Z) (q : positive) : (p # q) * (Zpos q # 1) == inject_Z p.
Proof. unfold Qeq, Qmult, inject_Z; simpl. lia. Qed.

Lemma lt_scale (y : Q) (p : Z) (q : positive) : y < p # q <-> y * (Zpos q # 1) < inject_Z p.
Proof.
  rewrite <- (frac_scale p q). split; intro H.
  - apply Qmult_lt_compat_r; [reflexivity | exact H].
  - apply Qmult_lt_r in H; [exact H | reflexivity].
Qed.

Lemma le_scale (y : Q) (p : Z) (q : positive) : y <= p # q <-> y * (Zpos q # 1) <= inject_Z p.
Proof.
  rewrite <- (frac_scale p q). split; intro H.
  - apply Qmult_le_compat_r; [exact H | discriminate].
  - apply Qmult_le_r in H; [exact H | reflexivity].
Qed.

(* the smallest numerator above lo at denominator q really is above lo, and every numerator above lo is at least it *)
Lemma first_above_gt lo q : lo < first_above lo q # q.
Proof. apply lt_scale. unfold first_above. apply Qlt_floor. Qed.

Lemma first_above_least lo q p' : lo < p' # q -> (first_above lo q <= p')%Z.
Proof.
  intro H. apply lt_scale in H. unfold first_above.
  assert (inject_Z (Qfloor (lo * (Zpos q # 1))) < inject_Z p') as L
    by (eapply Qle_lt_trans; [apply Qfloor_le | exact H]).
  rewrite <- Zlt_Qlt in L. lia.
Qed.

Lemma frac_mono (a b : Z) (q : positive) : (a <= b)%Z -> a # q <= b # q.
Proof. intro H. unfold Qle; simpl. nia. Qed.

(* if the first numerator above the lower end is not inside, no fraction with this denominator is *)
Lemma none_at x e q : in_openb x e (first_above (x - e) q # q) = false -> forall p', ~ in_open x e (p' # q).
Proof.
  intros H p' [A B].
  assert (~ in_open x e (first_above (x - e) q # q)) as N by (rewrite <- in_openb_iff; congruence).
  apply N. split; [apply first_above_gt|].
  eapply Qle_lt_trans; [apply frac_mono, first_above_least, A | exact B].
Qed.

Lemma brute_from_sound x e : forall fuel q0 r, brute_from x e q0 fuel = Some r ->
  exists p q, r = p # q /\ (q0 <= q)%positive /\ in_open x e (p # q) /\
    forall p' q', (q0 <= q')%positive -> (q' < q)%positive -> ~ in_open x e (p' # q').
Proof.
  induction fuel as [|f IH]; intros q0 r H; [discriminate|]. simpl in H.
  destruct (in_openb x e (first_above (x - e) q0 # q0)) eqn:E.
  - inversion H; subst. exists (first_above (x - e) q0), q0. repeat split; [lia | apply in_openb_iff, E | | ]; try (apply in_openb_iff in E; apply E).
    intros p' q' A B; lia.
  - destruct (IH _ _ H) as (p & q & -> & Hq & Hin & Hmin). exists p, q. repeat split; [lia | apply Hin | apply Hin |].
    intros p' q' A B. destruct (Pos.eq_dec q' q0) as [->|Nq]; [apply none_at, E | apply Hmin; lia].
Qed.

(* soundness of the executable specification used by check_spec, for results with denominator <= 400: *)
Theorem best_in_sound x e p (q : positive) : (Zpos q <= 400)%Z -> best_in x e p (Zpos q) = true ->
  in_open x e (p # q) /\ forall p' q', in_open x e (p' # q') -> (q <= q')%positive.
Proof.
  intros Hq H. unfold best_in in H. apply andb_true_iff in H as [Hin H]. apply in_openb_iff in Hin.
  split; [exact Hin|]. intros p' q' Hin'.
  destruct (Z.leb_spec (Zpos q) 400) as [_|]; [|lia].
  unfold brute in H. destruct (brute_from x e 1 (Pos.to_nat q)) as [r|] eqn:B; [|discriminate].
  destruct (brute_from_sound _ _ _ _ _ B) as (p1 & q1 & -> & _ & _ & Hmin). simpl in H.
  apply Pos.eqb_eq in H. subst q1.
  destruct (Pos.lt_total q' q) as [L|[->|L]]; [|lia|lia].
  exfalso. apply (Hmin p' q'); [lia | exact L | exact Hin'].
Qed.

(* round 6: the Farey-neighbour criterion used for results with a larger denominator decides minimality for EVERY
   denominator (the soundness does not use the bound 400 and not the correctness of the Euclid loop: the criterion
   re-checks p*b - a*q = 1 itself) *)
Lemma cross_lt_l (a b ln L p' Q : Z) : (0 < L)%Z -> (0 < b)%Z -> (0 < Q)%Z ->
  (a * L <= ln * b)%Z -> (ln * Q < p' * L)%Z -> (a * Q < p' * b)%Z.
Proof.
  intros HL Hb HQ A B.
  apply (Z.mul_lt_mono_pos_r L); [exact HL|].
  apply Z.le_lt_trans with (ln * b * Q)%Z.
  - replace (a * Q * L)%Z with (a * L * Q)%Z by ring. apply Z.mul_le_mono_nonneg_r; lia.
  - replace (ln * b * Q)%Z with (ln * Q * b)%Z by ring. replace (p' * b * L)%Z with (p' * L * b)%Z by ring.
    apply Z.mul_lt_mono_pos_r; assumption.
Qed.

Lemma cross_lt_r (c d hn H p' Q : Z) : (0 < H)%Z -> (0 < d)%Z -> (0 < Q)%Z ->
  (hn * d <= c * H)%Z -> (p' * H < hn * Q)%Z -> (p' * d < c * Q)%Z.
Proof.
  intros HH Hd HQ A B.
  apply (Z.mul_lt_mono_pos_r H); [exact HH|].
  apply Z.lt_le_trans with (hn * d * Q)%Z.
  - replace (p' * d * H)%Z with (p' * H * d)%Z by ring. replace (hn * d * Q)%Z with (hn * Q * d)%Z by ring.
    apply Z.mul_lt_mono_pos_r; assumption.
  - replace (c * Q * H)%Z with (c * H * Q)%Z by ring. apply Z.mul_le_mono_nonneg_r; lia.
Qed.

(* a fraction strictly between two fractions a/b < c/d with b*c - a*d = 1 has a denominator >= b + d *)
Lemma farey_between (a b c d p' q' : Z) : (0 < b)%Z -> (0 < d)%Z -> (b * c - a * d = 1)%Z ->
  (a * q' < p' * b)%Z -> (p' * d < c * q')%Z -> (b + d <= q')%Z.
Proof.
  intros Hb Hd Hdet A B.
  assert (q' * (b * c - a * d) = b * (c * q' - p' * d) + d * (p' * b - a * q'))%Z as E by ring.
  rewrite Hdet, Z.mul_1_r in E.
  assert (b * 1 <= b * (c * q' - p' * d))%Z by (apply Z.mul_le_mono_nonneg_l; lia).
  assert (d * 1 <= d * (p' * b - a * q'))%Z by (apply Z.mul_le_mono_nonneg_l; lia).
  lia.
Qed.

Theorem farey_minimal_sound x e p (q : positive) : farey_minimal x e p (Zpos q) = true ->
  forall p' q', in_open x e (p' # q') -> (q <= q')%positive.
Proof.
  unfold farey_minimal. intros H p' q' [A B].
  set (b := inv_mod p (Zpos q)) in *. set (a := ((p * b - 1) / Zpos q)%Z) in *.
  apply andb_true_iff in H as [H H5]. apply andb_true_iff in H as [H H4]. apply andb_true_iff in H as [H H3].
  apply andb_true_iff in H as [H1 H2].
  apply Z.eqb_eq in H1. apply Z.ltb_lt in H2, H3. apply Z.leb_le in H4, H5.
  unfold Qlt in A, B. cbn [Qnum Qden] in A, B.
  assert (a * Zpos q' < p' * b)%Z as L1
    by (apply (cross_lt_l a b (Qnum (x - e)) (Zpos (Qden (x - e))) p' (Zpos q')); try reflexivity; assumption).
  assert (p' * (Zpos q - b) < (p - a) * Zpos q')%Z as L2
    by (apply (cross_lt_r (p - a) (Zpos q - b) (Qnum (x + e)) (Zpos (Qden (x + e))) p' (Zpos q')); try reflexivity; assumption).
  assert (b + (Zpos q - b) <= Zpos q')%Z as L3.
  { apply (farey_between a b (p - a)%Z (Zpos q - b)%Z p' (Zpos q')); try assumption.
    transitivity (p * b - a * Zpos q)%Z; [ring | exact H1]. }
  lia.
Qed.

Theorem best_in_sound_large x e p (q : positive) : (400 < Zpos q)%Z -> best_in x e p (Zpos q) = true ->
  in_open x e (p # q) /\ forall p' q', in_open x e (p' # q') -> (q <= q')%positive.
Proof.
  intros Hq H. unfold best_in in H. apply andb_true_iff in H as [Hin H]. apply in_openb_iff in Hin.
  split; [exact Hin|].
  destruct (Z.leb_spec (Zpos q) 400) as [|_]; [lia|].
  exact (farey_minimal_sound _ _ _ _ H).
Qed.

(* both branches together: whatever the denominator, an accepted result is a fraction of smallest denominator strictly
   inside the interval *)
Theorem best_in_sound_all x e p (q : positive) : best_in x e p (Zpos q) = true ->
  in_open x e (p # q) /\ forall p' q', in_open x e (p' # q') -> (q <= q')%positive.
Proof.
  intro H. destruct (Z_le_gt_dec (Zpos q) 400) as [L|L].
  - apply best_in_sound; assumption.
  - apply best_in_sound_large; [lia | assumption].
Qed.

(* ---- round 6: completeness ---- *)
Open Scope Z_scope.

(* the Euclid loop: with enough fuel (the product r0*r1 at least halves in every round) it returns s with
   s*p = gcd(r0, r1) (mod q) *)
Lemma inv_loop_spec (p q : Z) : forall fuel r0 r1 s0 s1, 0 <= r1 < r0 -> r0 * r1 < 2 ^ Z.of_nat fuel ->
  (exists k, s0 * p = r0 + k * q) -> (exists k, s1 * p = r1 + k * q) ->
  exists k, inv_loop fuel r0 r1 s0 s1 * p = Z.gcd r0 r1 + k * q.
Proof.
  induction fuel as [|f IH]; intros r0 r1 s0 s1 R B [k0 E0] [k1 E1].
  - cbn [inv_loop]. change (2 ^ Z.of_nat 0) with 1 in B. assert (r1 = 0) by nia. subst r1.
    rewrite Z.gcd_0_r, Z.abs_eq by lia. exists k0; exact E0.
  - cbn [inv_loop]. destruct (Z.eqb_spec r1 0) as [->|N].
    + rewrite Z.gcd_0_r, Z.abs_eq by lia. exists k0; exact E0.
    + assert (0 < r1) as P1 by lia.
      pose proof (Z.mod_pos_bound r0 r1 P1) as M. pose proof (Z.div_mod r0 r1 N) as D.
      assert (r0 - r0 / r1 * r1 = r0 mod r1) as Em by lia. rewrite Em.
      assert (1 <= r0 / r1) as K1 by (apply Z.div_le_lower_bound; lia).
      destruct (IH r1 (r0 mod r1) s1 (s0 - r0 / r1 * s1)) as [k E].
      * lia.
      * rewrite Nat2Z.inj_succ, Z.pow_succ_r in B by lia.
        assert (2 * (r0 mod r1) < r0) by nia. nia.
      * exists k1; exact E1.
      * exists (k0 - r0 / r1 * k1). rewrite <- Em. nia.
      * exists k. rewrite E. f_equal. rewrite (Z.gcd_comm r1), Z.gcd_mod by exact N. apply Z.gcd_comm.
Qed.

Lemma inv_mod_spec (p q : Z) : 1 < q -> Z.gcd p q = 1 ->
  0 < inv_mod p q < q /\ exists k, p * inv_mod p q = 1 + k * q.
Proof.
  intros Hq G. unfold inv_mod.
  set (fuel := S (2 * Z.to_nat (Z.log2 q + 1))).
  destruct (inv_loop_spec p q fuel q (p mod q) 0 1) as [k E].
  - pose proof (Z.mod_pos_bound p q ltac:(lia)). lia.
  - pose proof (Z.mod_pos_bound p q ltac:(lia)) as M.
    assert (q < 2 ^ (Z.log2 q + 1)) as L by (apply Z.log2_spec; lia).
    pose proof (Z.log2_nonneg q) as L0.
    unfold fuel. rewrite Nat2Z.inj_succ, Nat2Z.inj_mul, Z2Nat.id by lia. change (Z.of_nat 2) with 2.
    replace (Z.succ (2 * (Z.log2 q + 1))) with (1 + (Z.log2 q + 1) + (Z.log2 q + 1)) by lia.
    rewrite (Z.pow_add_r 2 (1 + (Z.log2 q + 1)) (Z.log2 q + 1)), (Z.pow_add_r 2 1 (Z.log2 q + 1)) by lia. change (2 ^ 1) with 2.
    set (T := 2 ^ (Z.log2 q + 1)) in *.
    assert (q * (p mod q) <= q * q) by (apply Z.mul_le_mono_nonneg_l; lia).
    assert (q * q < T * T) by (apply Z.mul_lt_mono_nonneg; lia).
    assert (0 <= q * q) by nia. replace (2 * T * T) with (2 * (T * T)) by ring. lia.
  - exists (-1). lia.
  - exists (p / q). rewrite Z.mod_eq by lia. ring.
  - rewrite (Z.gcd_comm q (p mod q)), Z.gcd_mod, (Z.gcd_comm q p), G in E by lia.
    set (s := inv_loop fuel q (p mod q) 0 1) in *.
    pose proof (Z.mod_pos_bound s q ltac:(lia)) as M. pose proof (Z.div_mod s q ltac:(lia)) as D.
    assert (p * (s mod q) = 1 + (k - p * (s / q)) * q) as Eb by nia.
    split; [|exists (k - p * (s / q)); exact Eb].
    split; [|lia]. destruct (Z.eq_dec (s mod q) 0) as [Z0|]; [|lia].
    rewrite Z0 in Eb. exfalso. assert (q * (- (k - p * (s / q))) = 1) as U by lia.
    apply Z.eq_mul_1 in U. lia.
Qed.

Open Scope Q_scope.
Lemma in_open_r_compat x e r r' : r == r' -> in_open x e r -> in_open x e r'.
Proof. intros H [A B]. unfold in_open. rewrite <- H. split; assumption. Qed.

(* a fraction of smallest denominator inside the interval is in lowest terms *)
Lemma minimal_reduced x e p (q : positive) : in_open x e (p # q) ->
  (forall p' q', in_open x e (p' # q') -> (q <= q')%positive) -> Z.gcd p (Zpos q) = 1%Z.
Proof.
  intros Hin Hmin.
  pose proof (Z.gcd_nonneg p (Zpos q)) as G0.
  destruct (Z.gcd_divide_l p (Zpos q)) as [p1 Ep]. destruct (Z.gcd_divide_r p (Zpos q)) as [q1 Eq].
  set (g := Z.gcd p (Zpos q)) in *.
  assert (g <> 0)%Z as Gn by (intro Z0; rewrite Z0 in Eq; lia).
  destruct (Z.eq_dec g 1) as [|N]; [assumption|exfalso].
  assert (0 < q1)%Z as Q1 by nia.
  assert (q1 < Zpos q)%Z as Q2 by nia.
  assert (p1 # Z.to_pos q1 == p # q) as E.
  { unfold Qeq. cbn [Qnum Qden]. rewrite Z2Pos.id by exact Q1. rewrite Eq, Ep at 1. ring. }
  pose proof (Hmin p1 (Z.to_pos q1) (in_open_r_compat _ _ _ _ (Qeq_sym _ _ E) Hin)) as C.
  assert (Zpos q <= Zpos (Z.to_pos q1))%Z by lia. rewrite Z2Pos.id in * by exact Q1. lia.
Qed.

(* completeness of the Farey criterion: a fraction of smallest denominator (> 1) inside the interval is accepted *)
Theorem farey_minimal_complete x e p (q : positive) : (1 < Zpos q)%Z -> in_open x e (p # q) ->
  (forall p' q', in_open x e (p' # q') -> (q <= q')%positive) -> farey_minimal x e p (Zpos q) = true.
Proof.
  intros Hq Hin Hmin.
  pose proof (minimal_reduced _ _ _ _ Hin Hmin) as G.
  destruct (inv_mod_spec p (Zpos q) Hq G) as [[B0 B1] [k E]].
  unfold farey_minimal. set (b := inv_mod p (Zpos q)) in *.
  assert ((p * b - 1) / Zpos q = k)%Z as Ea by (replace (p * b - 1)%Z with (k * Zpos q)%Z by lia; apply Z.div_mul; lia).
  rewrite Ea. destruct Hin as [A B]. unfold Qlt in A, B. cbn [Qnum Qden] in A, B.
  repeat (apply andb_true_iff; split).
  - apply Z.eqb_eq. lia.
  - apply Z.ltb_lt. lia.
  - apply Z.ltb_lt. lia.
  - apply Z.leb_le. destruct (Z_le_gt_dec (k * Zpos (Qden (x - e))) (Qnum (x - e) * b)) as [|C]; [assumption|exfalso].
    assert (in_open x e (k # Z.to_pos b)) as I.
    { split; unfold Qlt; cbn [Qnum Qden]; rewrite Z2Pos.id by lia; [lia|].
      (* k/b < p/q < hi *)
      apply (Z.mul_lt_mono_pos_r (Zpos q)); [reflexivity|].
      apply Z.lt_trans with (p * b * Zpos (Qden (x + e)))%Z; [nia|].
      replace (Qnum (x + e) * b * Zpos q)%Z with (Qnum (x + e) * Zpos q * b)%Z by ring.
      replace (p * b * Zpos (Qden (x + e)))%Z with (p * Zpos (Qden (x + e)) * b)%Z by ring.
      apply Z.mul_lt_mono_pos_r; lia. }
    pose proof (Hmin _ _ I) as C2. assert (Zpos q <= Zpos (Z.to_pos b))%Z by lia. rewrite Z2Pos.id in * by lia. lia.
  - apply Z.leb_le.
    destruct (Z_le_gt_dec (Qnum (x + e) * (Zpos q - b)) ((p - k) * Zpos (Qden (x + e)))) as [|C]; [assumption|exfalso].
    assert (in_open x e ((p - k) # Z.to_pos (Zpos q - b))) as I.
    { split; unfold Qlt; cbn [Qnum Qden]; rewrite Z2Pos.id by lia; [|lia].
      (* lo < p/q < c/d *)
      apply (Z.mul_lt_mono_pos_r (Zpos q)); [reflexivity|].
      apply Z.lt_trans with (p * (Zpos q - b) * Zpos (Qden (x - e)))%Z; [|nia].
      replace (Qnum (x - e) * (Zpos q - b) * Zpos q)%Z with (Qnum (x - e) * Zpos q * (Zpos q - b))%Z by ring.
      replace (p * (Zpos q - b) * Zpos (Qden (x - e)))%Z with (p * Zpos (Qden (x - e)) * (Zpos q - b))%Z by ring.
      apply Z.mul_lt_mono_pos_r; lia. }
    pose proof (Hmin _ _ I) as C2. assert (Zpos q <= Zpos (Z.to_pos (Zpos q - b)))%Z by lia.
    rewrite Z2Pos.id in * by lia. lia.
Qed.

(* if some fraction with denominator q is inside, the first numerator above the lower end is *)
Lemma first_above_inside x e q p' : in_open x e (p' # q) -> in_openb x e (first_above (x - e) q # q) = true.
Proof.
  intro H. destruct (in_openb x e (first_above (x - e) q # q)) eqn:E; [reflexivity|].
  exfalso. exact (none_at _ _ _ E p' H).
Qed.

Lemma brute_from_complete x e p (q : positive) : in_open x e (p # q) ->
  forall fuel q0, (q0 <= q)%positive -> (Pos.to_nat q < Pos.to_nat q0 + fuel)%nat ->
  (forall p' q', (q0 <= q')%positive -> (q' < q)%positive -> ~ in_open x e (p' # q')) ->
  exists p1, brute_from x e q0 fuel = Some (p1 # q).
Proof.
  intro Hin. induction fuel as [|f IH]; intros q0 L F Hno; [lia|].
  cbn [brute_from].
  destruct (Pos.eq_dec q0 q) as [->|N].
  - rewrite (first_above_inside _ _ _ _ Hin). eexists; reflexivity.
  - destruct (in_openb x e (first_above (x - e) q0 # q0)) eqn:E.
    + exfalso. apply in_openb_iff in E. apply (Hno _ q0 ltac:(lia) ltac:(lia) E).
    + apply IH; [lia | lia |]. intros p' q' A B. apply Hno; lia.
Qed.

(* round 6: the executable specification is EXACTLY the property's definition, for every denominator *)
Theorem best_in_complete x e p (q : positive) : in_open x e (p # q) ->
  (forall p' q', in_open x e (p' # q') -> (q <= q')%positive) -> best_in x e p (Zpos q) = true.
Proof.
  intros Hin Hmin. unfold best_in. apply andb_true_iff. split; [apply in_openb_iff, Hin|].
  destruct (Z.leb_spec (Zpos q) 400).
  - unfold brute. destruct (brute_from_complete x e p q Hin (Pos.to_nat q) 1%positive) as [p1 E].
    + lia.
    + lia.
    + intros p' q' _ B I. specialize (Hmin _ _ I). lia.
    + rewrite E. cbn [Qden]. apply Z.eqb_refl.
  - apply farey_minimal_complete; [lia | exact Hin | exact Hmin].
Qed.

Theorem best_in_exact x e p (q : positive) : best_in x e p (Zpos q) = true <->
  (in_open x e (p # q) /\ forall p' q', in_open x e (p' # q') -> (q <= q')%positive).
Proof. split; [apply best_in_sound_all | intros [A B]; apply best_in_complete; assumption]. Qed.
