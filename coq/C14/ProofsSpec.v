(* C14 -- soundness of the executable specification that check_spec evaluates (Spec.best_in) against the Prop-level
   definition of the property (in_open + minimal denominator).  Round 5. *)
From Coq Require Import ZArith QArith Qround Qabs Bool List Lia Lqa.
Require Import QV.C14.Spec.
Open Scope Q_scope.

Lemma in_openb_iff x e r : in_openb x e r = true <-> in_open x e r.
Proof.
  unfold in_openb, in_open. rewrite andb_true_iff, !negb_true_iff.
  split; intros [A B]; split.
  - apply Qnot_le_lt. intro H. apply Qle_bool_iff in H. congruence.
  - apply Qnot_le_lt. intro H. apply Qle_bool_iff in H. congruence.
  - destruct (Qle_bool r (x - e)) eqn:E; [|reflexivity]. apply Qle_bool_iff in E. exfalso. apply (Qlt_not_le _ _ A E).
  - destruct (Qle_bool (x + e) r) eqn:E; [|reflexivity]. apply Qle_bool_iff in E. exfalso. apply (Qlt_not_le _ _ B E).
Qed.

Lemma frac_scale (p : Z) (q : positive) : (p # q) * (Zpos q # 1) == inject_Z p.
Proof. unfold Qeq, Qmult, inject_Z; simpl. lia. Qed.

Lemma lt_scale (y : Q) (p : Z) (q : positive) : y < p # q <-> y * (Zpos q # 1) < inject_Z p.
Proof.
  rewrite <- (frac_scale p q). split; intro H.
  - apply Qmult_lt_compat_r; [reflexivity | exact H].
  - apply Qmult_lt_r in H; [exact H | reflexivity].
Qed.

Lemma le_scale (y : Q) (p : Z) (q : positive) : y <= p # q <-> y * (Zpos q # 1) <= inject_Z p.
Proof.
  rewrite <- (frac_scale p q). split; intro H.
  - apply Qmult_le_compat_r; [exact H | discriminate].
  - apply Qmult_le_r in H; [exact H | reflexivity].
Qed.

(* the smallest numerator above lo at denominator q really is above lo, and every numerator above lo is at least it *)
Lemma first_above_gt lo q : lo < first_above lo q # q.
Proof. apply lt_scale. unfold first_above. apply Qlt_floor. Qed.

Lemma first_above_least lo q p' : lo < p' # q -> (first_above lo q <= p')%Z.
Proof.
  intro H. apply lt_scale in H. unfold first_above.
  assert (inject_Z (Qfloor (lo * (Zpos q # 1))) < inject_Z p') as L
    by (eapply Qle_lt_trans; [apply Qfloor_le | exact H]).
  rewrite <- Zlt_Qlt in L. lia.
Qed.

Lemma frac_mono (a b : Z) (q : positive) : (a <= b)%Z -> a # q <= b # q.
Proof. intro H. unfold Qle; simpl. nia. Qed.

(* if the first numerator above the lower end is not inside, no fraction with this denominator is *)
Lemma none_at x e q : in_openb x e (first_above (x - e) q # q) = false -> forall p', ~ in_open x e (p' # q).
Proof.
  intros H p' [A B].
  assert (~ in_open x e (first_above (x - e) q # q)) as N by (rewrite <- in_openb_iff; congruence).
  apply N. split; [apply first_above_gt|].
  eapply Qle_lt_trans; [apply frac_mono, first_above_least, A | exact B].
Qed.

Lemma brute_from_sound x e : forall fuel q0 r, brute_from x e q0 fuel = Some r ->
  exists p q, r = p # q /\ (q0 <= q)%positive /\ in_open x e (p # q) /\
    forall p' q', (q0 <= q')%positive -> (q' < q)%positive -> ~ in_open x e (p' # q').
Proof.
  induction fuel as [|f IH]; intros q0 r H; [discriminate|]. simpl in H.
  destruct (in_openb x e (first_above (x - e) q0 # q0)) eqn:E.
  - inversion H; subst. exists (first_above (x - e) q0), q0. repeat split; [lia | apply in_openb_iff, E | | ]; try (apply in_openb_iff in E; apply E).
    intros p' q' A B; lia.
  - destruct (IH _ _ H) as (p & q & -> & Hq & Hin & Hmin). exists p, q. repeat split; [lia | apply Hin | apply Hin |].
    intros p' q' A B. destruct (Pos.eq_dec q' q0) as [->|Nq]; [apply none_at, E | apply Hmin; lia].
Qed.

(* soundness of the executable specification used by check_spec, for results with denominator <= 400: *)
Theorem best_in_sound x e p (q : positive) : (Zpos q <= 400)%Z -> best_in x e p (Zpos q) = true ->
  in_open x e (p # q) /\ forall p' q', in_open x e (p' # q') -> (q <= q')%positive.
Proof.
  intros Hq H. unfold best_in in H. apply andb_true_iff in H as [Hin H]. apply in_openb_iff in Hin.
  split; [exact Hin|]. intros p' q' Hin'.
  destruct (Z.leb_spec (Zpos q) 400) as [_|]; [|lia].
  unfold brute in H. destruct (brute_from x e 1 (Pos.to_nat q)) as [r|] eqn:B; [|discriminate].
  destruct (brute_from_sound _ _ _ _ _ B) as (p1 & q1 & -> & _ & _ & Hmin). simpl in H.
  apply Pos.eqb_eq in H. subst q1.
  destruct (Pos.lt_total q' q) as [L|[->|L]]; [|lia|lia].
  exfalso. apply (Hmin p' q'); [lia | exact L | exact Hin'].
Qed.

(* the integer search used for results with a larger denominator: it establishes that no denominator <= 400 works
   (not full minimality: that part rests on the theorems about the translated code + the correspondence) *)
Lemma none_below_sound ln ld hn hd : (0 < ld)%Z -> (0 < hd)%Z -> forall fuel q, (0 < q)%Z ->
  none_below ln ld hn hd q fuel = true ->
  forall p' q', (q <= q' < q + Z.of_nat fuel)%Z -> ~ ((ln * q' < p' * ld)%Z /\ (p' * hd < hn * q')%Z).
Proof.
  intros Hld Hhd. induction fuel as [|f IH]; intros q Hq H p' q' R [A B]; [lia|].
  cbn [none_below] in H.
  destruct (Z.ltb_spec ((ln * q / ld + 1) * hd) (hn * q)) as [L|L]; [discriminate|].
  destruct (Z.eq_dec q' q) as [->|N].
  - assert (ln * q / ld + 1 <= p')%Z.
    { assert (ln * q / ld < p')%Z; [|lia]. apply Z.div_lt_upper_bound; lia. }
    nia.
  - apply (IH (q + 1)%Z ltac:(lia) H p' q'); [lia | split; assumption].
Qed.

Theorem best_in_sound_large x e p (q : positive) : (400 < Zpos q)%Z -> best_in x e p (Zpos q) = true ->
  in_open x e (p # q) /\ forall p' q', in_open x e (p' # q') -> (400 < Zpos q')%Z.
Proof.
  intros Hq H. unfold best_in in H. apply andb_true_iff in H as [Hin H]. apply in_openb_iff in Hin.
  split; [exact Hin|]. intros p' q' [A B].
  destruct (Z.leb_spec (Zpos q) 400) as [|_]; [lia|].
  unfold none_below_400 in H.
  destruct (Z_lt_le_dec 400 (Zpos q')) as [|Hs]; [assumption|exfalso].
  rewrite <- (Qred_correct (x - e)) in A. rewrite <- (Qred_correct (x + e)) in B.
  remember (Qred (x - e)) as lo. remember (Qred (x + e)) as hi.
  destruct lo as [ln ld], hi as [hn hd]. unfold Qlt in A, B. cbn [Qnum Qden] in A, B, H.
  apply (none_below_sound ln (Zpos ld) hn (Zpos hd) ltac:(reflexivity) ltac:(reflexivity) 400%nat 1%Z ltac:(reflexivity) H p' (Zpos q')).
  - change (Z.of_nat 400) with 400%Z. lia.
  - split; lia.
Qed.

