(* C14 — proofs about the model of Python's numeric hash (HashModel.v). *)
From Coq Require Import ZArith QArith Bool Lia ZifyBool.
Require Import QV.C14.HashModel.
Open Scope Z_scope.

Lemma P61_gt1 : 1 < P61. Proof. reflexivity. Qed.
Lemma P61pos_eq : Zpos P61pos = P61. Proof. reflexivity. Qed.
Lemma pow61_mod : 2 ^ 61 mod P61 = 1. Proof. reflexivity. Qed.

Section Iter.
  Context {S R : Type} (step : S -> R + S) (I : S -> Prop) (Qr : R -> Prop) (mu : S -> Z).
  Hypothesis Hstep : forall s, I s -> match step s with inl r => Qr r | inr s' => I s' /\ mu s' + 1 <= mu s end.
  Lemma iter_p_ok : forall fuel s, I s ->
    match iter_p step fuel s with inl r => Qr r | inr s' => I s' /\ mu s' + Zpos fuel <= mu s end.
  Proof.
    induction fuel as [p IH|p IH|]; intros s HI; cbn [iter_p].
    - pose proof (Hstep s HI) as HS. destruct (step s) as [r|s1]; [exact HS|].
      destruct HS as [HI1 Hg1]. specialize (IH s1 HI1) as H2.
      destruct (iter_p step p s1) as [r|s2]; [exact H2|].
      destruct H2 as [HI2 Hg2]. specialize (IH s2 HI2) as H3.
      destruct (iter_p step p s2) as [r|s3]; [exact H3|].
      destruct H3 as [HI3 Hg3]. split; [exact HI3|lia].
    - specialize (IH s HI) as H1. destruct (iter_p step p s) as [r|s1]; [exact H1|].
      destruct H1 as [HI1 Hg1]. specialize (IH s1 HI1) as H2.
      destruct (iter_p step p s1) as [r|s2]; [exact H2|].
      destruct H2 as [HI2 Hg2]. split; [exact HI2|lia].
    - pose proof (Hstep s HI) as HS. destruct (step s) as [r|s1]; [exact HS|].
      destruct HS as [HI1 Hg1]. split; [exact HI1|lia].
  Qed.
End Iter.

Local Opaque P61.

Section Egcd.
  Variable a : Z.
  Definition EI (st : Z * Z * Z * Z) : Prop :=
    let '(r0, r1, s0, s1) := st in
    0 <= r0 /\ 0 <= r1 /\ (P61 | r0 - s0 * a) /\ (P61 | r1 - s1 * a) /\ Z.gcd r0 r1 = Z.gcd P61 a.
  Definition EQ (r : Z * Z) : Prop := let '(g, s) := r in g = Z.gcd P61 a /\ (P61 | g - s * a).

  Lemma egcd_step_ok st : EI st ->
    match egcd_step st with inl r => EQ r | inr s' => EI s' /\ snd (fst (fst s')) + 1 <= snd (fst (fst st)) end.
  Proof.
    destruct st as [[[r0 r1] s0] s1]. intros (H0 & H1 & D0 & D1 & G). unfold egcd_step.
    destruct (r1 =? 0) eqn:E.
    - assert (r1 = 0) by lia. subst r1. cbn [EQ]. rewrite Z.gcd_0_r_nonneg in G by exact H0. split; [exact G|exact D0].
    - assert (Hr : 0 < r1) by lia. cbn [EI fst snd].
      pose proof (Z.mod_pos_bound r0 r1 Hr) as Hm.
      split; [|lia]. repeat split; try lia.
      + exact D1.
      + replace (r0 mod r1 - (s0 - r0 / r1 * s1) * a) with ((r0 - s0 * a) - (r0 / r1) * (r1 - s1 * a)).
        * apply Z.divide_sub_r; [exact D0|apply Z.divide_mul_r; exact D1].
        * rewrite (Z.mod_eq r0 r1) by lia. ring.
      + rewrite Z.gcd_comm, Z.gcd_mod by lia. rewrite Z.gcd_comm. exact G.
  Qed.

  Lemma egcd_spec : exists s, egcd a = Some (Z.gcd P61 a, s) /\ (P61 | Z.gcd P61 a - s * a).
  Proof.
    pose proof P61_gt1 as HP.
    assert (HI : EI (P61, a mod P61, 0, 1)).
    { cbn [EI]. pose proof (Z.mod_pos_bound a P61 ltac:(lia)). repeat split; try lia.
      - replace (P61 - 0 * a) with P61 by ring. apply Z.divide_refl.
      - replace (a mod P61 - 1 * a) with (- (a / P61) * P61) by (rewrite (Z.mod_eq a P61) by lia; ring).
        apply Z.divide_factor_r.
      - rewrite Z.gcd_comm, Z.gcd_mod by lia. reflexivity. }
    pose proof (iter_p_ok egcd_step EI EQ (fun st => snd (fst (fst st))) egcd_step_ok P61pos _ HI) as H.
    unfold egcd. destruct (iter_p egcd_step P61pos (P61, a mod P61, 0, 1)) as [[g s]|st'].
    - cbn [EQ] in H. destruct H as [-> D]. exists s. split; [reflexivity|exact D].
    - exfalso. destruct H as [HI' Hm]. destruct st' as [[[r0 r1] s0] s1]. cbn [EI fst snd] in *.
      rewrite P61pos_eq in Hm. pose proof (Z.mod_pos_bound a P61 ltac:(lia)). lia.
  Qed.
End Egcd.

(* specification of pow(d, -1, P) *)
Lemma modinv_spec d :
  match modinv d with
  | Some i => 0 <= i < P61 /\ (d * i) mod P61 = 1 /\ Z.gcd P61 d = 1
  | None => Z.gcd P61 d <> 1
  end.
Proof.
  pose proof P61_gt1 as HP. unfold modinv. destruct (egcd_spec d) as (s & -> & D).
  destruct (Z.gcd P61 d =? 1) eqn:E.
  - assert (G : Z.gcd P61 d = 1) by lia. rewrite G in D. split; [apply Z.mod_pos_bound; lia|]. split; [|exact G].
    destruct D as [k Hk]. rewrite Zmult_mod, Zmod_mod, <- Zmult_mod.
    replace (d * s) with (1 + (- k) * P61) by lia. rewrite Z.mod_add by lia. apply Z.mod_small. lia.
  - lia.
Qed.

Lemma inverse_gcd d i : (d * i) mod P61 = 1 -> Z.gcd P61 d = 1.
Proof.
  pose proof P61_gt1 as HP. intros H.
  pose proof (Z.gcd_divide_l P61 d) as [u Hu]. pose proof (Z.gcd_divide_r P61 d) as [v Hv].
  pose proof (Z.gcd_nonneg P61 d) as Hn. remember (Z.gcd P61 d) as g eqn:Eg. clear Eg.
  rewrite Z.mod_eq in H by lia. remember (d * i / P61) as q eqn:Eq. clear Eq.
  assert (Hd : (g | 1)).
  { exists (v * i - u * q). rewrite <- H. rewrite Hv at 1. rewrite Hu at 1. ring. }
  apply Z.divide_1_r_nonneg in Hd; lia.
Qed.

Lemma inverse_unique d i j : (d * i) mod P61 = 1 -> (d * j) mod P61 = 1 -> i mod P61 = j mod P61.
Proof.
  pose proof P61_gt1 as HP. intros Hi Hj.
  transitivity ((i * (d * j)) mod P61).
  - rewrite Zmult_mod, Hj, Z.mul_1_r, Zmod_mod. reflexivity.
  - replace (i * (d * j)) with (j * (d * i)) by ring. rewrite Zmult_mod, Hi, Z.mul_1_r, Zmod_mod. reflexivity.
Qed.

Lemma modinv_complete d : Z.gcd P61 d = 1 -> exists i, modinv d = Some i /\ 0 <= i < P61 /\ (d * i) mod P61 = 1.
Proof.
  intros G. pose proof (modinv_spec d) as H. destruct (modinv d) as [i|]; [|contradiction].
  exists i. split; [reflexivity|]. tauto.
Qed.

Lemma gcd_factor g d : Z.gcd P61 (g * d) = 1 -> Z.gcd P61 d = 1.
Proof.
  intros H. pose proof (Z.gcd_nonneg P61 d) as Hn.
  assert (D : (Z.gcd P61 d | 1)).
  { rewrite <- H. apply Z.gcd_greatest; [apply Z.gcd_divide_l|]. apply Z.divide_mul_r. apply Z.gcd_divide_r. }
  apply Z.divide_1_r_nonneg in D; lia.
Qed.

(* ---- representation independence: n/d and n'/d' with n*d' = n'*d, both denominators positive and invertible ---- *)
Lemma hash_frac_rep n d n' d' : 0 < d -> 0 < d' -> n * d' = n' * d -> Z.gcd P61 d = 1 -> Z.gcd P61 d' = 1 ->
  hash_frac n d = hash_frac n' d'.
Proof.
  pose proof P61_gt1 as HP. intros Hd Hd' E G G'. unfold hash_frac.
  destruct (modinv_complete d G) as (i & -> & Hi & Ei). destruct (modinv_complete d' G') as (i' & -> & Hi' & Ei').
  assert (Hs : (n <? 0) = (n' <? 0)) by nia. rewrite Hs.
  assert (Ea : Z.abs n * d' = Z.abs n' * d) by nia.
  assert (Eh : (Z.abs n mod P61 * i) mod P61 = (Z.abs n' mod P61 * i') mod P61).
  { rewrite !Zmult_mod_idemp_l.
    (* |n| i = |n| i (d' i') = (|n| d') i i' = (|n'| d) i i' = |n'| i' (d i) = |n'| i' *)
    transitivity ((Z.abs n * i * (d' * i')) mod P61).
    - rewrite (Zmult_mod (Z.abs n * i)), Ei', Z.mul_1_r, Zmod_mod. reflexivity.
    - replace (Z.abs n * i * (d' * i')) with (Z.abs n * d' * (i * i')) by ring. rewrite Ea.
      replace (Z.abs n' * d * (i * i')) with (Z.abs n' * i' * (d * i)) by ring.
      rewrite (Zmult_mod (Z.abs n' * i')), Ei, Z.mul_1_r, Zmod_mod. reflexivity. }
  rewrite Eh. reflexivity.
Qed.

Lemma Qred_factor n d : exists g, 0 < g /\ n = g * Qnum (Qred (n # d)) /\ Zpos d = g * Zpos (Qden (Qred (n # d))).
Proof.
  unfold Qred. pose proof (Z.ggcd_correct_divisors n (Zpos d)) as H. pose proof (Z.ggcd_gcd n (Zpos d)) as Hg.
  pose proof (Z.gcd_nonneg n (Zpos d)) as Hn.
  destruct (Z.ggcd n (Zpos d)) as [g [n' d']]. cbn [fst snd] in *. destruct H as [H1 H2].
  exists g. cbn [Qnum Qden]. rewrite <- Hg in Hn.
  assert (0 < g) by (destruct (Z.eq_dec g 0) as [->|]; lia).
  assert (0 < d') by (destruct (Z_lt_le_dec 0 d') as [|Hle]; [assumption|]; assert (g * d' <= g * 0) by (apply Z.mul_le_mono_nonneg_l; lia); lia).
  split; [assumption|]. split; [exact H1|]. rewrite Z2Pos.id by assumption. exact H2.
Qed.

(* the formula gives the same hash on any representation with an invertible denominator as on the reduced one *)
Theorem hash_frac_unreduced n (d : positive) : Z.gcd P61 (Zpos d) = 1 -> hash_frac n (Zpos d) = pyhash_Q (n # d).
Proof.
  intros G. unfold pyhash_Q. destruct (Qred_factor n d) as (g & Hg & En & Ed).
  remember (Qnum (Qred (n # d))) as n' eqn:En'. remember (Zpos (Qden (Qred (n # d)))) as d' eqn:Ed'.
  assert (0 < d') by lia. clear En' Ed'.
  assert (G' : Z.gcd P61 d' = 1) by (rewrite Ed in G; apply gcd_factor in G; exact G).
  assert (E : n * d' = n' * Z.pos d) by (subst n; rewrite Ed; ring).
  apply hash_frac_rep; assumption || lia.
Qed.

Theorem pyhash_Q_respects_eq a b : a == b -> pyhash_Q a = pyhash_Q b.
Proof. intros H. unfold pyhash_Q. rewrite (Qred_complete a b H). reflexivity. Qed.

Lemma modinv_1 : modinv 1 = Some 1.
Proof. Local Transparent P61. vm_compute. reflexivity. Local Opaque P61. Qed.

Theorem pyhash_Q_int z : pyhash_Q (inject_Z z) = pyhash_int z.
Proof.
  pose proof P61_gt1 as HP.
  change (inject_Z z) with (z # 1). rewrite <- (hash_frac_unreduced z 1) by (apply Z.gcd_1_r).
  unfold hash_frac, pyhash_int. rewrite modinv_1, Z.mul_1_r, Zmod_mod. reflexivity.
Qed.

(* ---- floats: 2^e mod P depends only on e mod 61 ---- *)
Lemma pow2_61k k : 0 <= k -> (2 ^ (61 * k)) mod P61 = 1.
Proof.
  pose proof P61_gt1 as HP. intros Hk. pattern k. apply natlike_ind; [| |exact Hk].
  - rewrite Z.mul_0_r. apply Z.mod_small. lia.
  - intros x Hx IH. replace (61 * Z.succ x) with (61 * x + 61) by lia. rewrite Z.pow_add_r by lia.
    rewrite Zmult_mod, IH, pow61_mod. apply Z.mod_small. lia.
Qed.

Lemma pow2_mod61 e : 0 <= e -> 2 ^ e mod P61 = 2 ^ (e mod 61) mod P61.
Proof.
  pose proof P61_gt1 as HP. intros He. rewrite (Z.div_mod e 61) at 1 by lia.
  assert (0 <= e / 61) by (apply Z.div_pos; lia). pose proof (Z.mod_pos_bound e 61 ltac:(lia)).
  rewrite Z.pow_add_r by lia. rewrite Zmult_mod, pow2_61k by assumption. rewrite Z.mul_1_l, Zmod_mod. reflexivity.
Qed.

Theorem pyhash_float_dyadic m e : pyhash_float m e = pyhash_Q (dyadic m e).
Proof.
  pose proof P61_gt1 as HP. unfold dyadic. destruct e as [|e|k].
  - rewrite pyhash_Q_int. unfold pyhash_float, pyhash_int. change (0 mod 61) with 0. rewrite Z.pow_0_r, !Z.mul_1_r, Zmod_mod.
    reflexivity.
  - rewrite pyhash_Q_int. unfold pyhash_float, pyhash_int.
    assert (Hp : 0 < 2 ^ Z.pos e) by (apply Z.pow_pos_nonneg; lia).
    assert (Hs : (m * 2 ^ Z.pos e <? 0) = (m <? 0)) by nia. rewrite Hs.
    rewrite Z.abs_mul, (Z.abs_eq (2 ^ Z.pos e)) by lia.
    assert (E : (Z.abs m * 2 ^ Z.pos e) mod P61 = ((Z.abs m mod P61) * 2 ^ (Z.pos e mod 61)) mod P61).
    { rewrite Zmult_mod_idemp_l. rewrite (Zmult_mod (Z.abs m) (2 ^ Z.pos e)), pow2_mod61 by lia.
      rewrite <- Zmult_mod. reflexivity. }
    rewrite E. reflexivity.
  - (* m / 2^k : the inverse of 2^k is 2^(-k mod 61) *)
    set (r := Z.neg k mod 61). pose proof (Z.mod_pos_bound (Z.neg k) 61 ltac:(lia)) as Hr. fold r in Hr.
    assert (Einv : (2 ^ Z.pos k * 2 ^ r) mod P61 = 1).
    { rewrite <- Z.pow_add_r by lia.
      assert (E : Z.pos k + r = 61 * (- (Z.neg k / 61))).
      { unfold r. rewrite Z.mod_eq by lia. lia. }
      rewrite E. apply pow2_61k. assert (Z.neg k / 61 < 0) by (apply Z.div_lt_upper_bound; lia). lia. }
    assert (G : Z.gcd P61 (2 ^ Z.pos k) = 1) by (eapply inverse_gcd; exact Einv).
    assert (Epos : Zpos (2 ^ k)%positive = 2 ^ Z.pos k) by (rewrite Pos2Z.inj_pow; reflexivity).
    rewrite <- hash_frac_unreduced by (rewrite Epos; exact G).
    unfold hash_frac, pyhash_float. rewrite Epos.
    destruct (modinv_complete _ G) as (i & -> & Hi & Ei).
    pose proof (inverse_unique _ _ _ Ei Einv) as U. rewrite (Z.mod_small i) in U by lia.
    assert (E : (Z.abs m mod P61 * 2 ^ r) mod P61 = (Z.abs m mod P61 * i) mod P61).
    { rewrite U. rewrite Zmult_mod_idemp_r. reflexivity. }
    fold r. rewrite E. reflexivity.
Qed.

(* equal values hash equally across the numeric tower (model): an integer-valued time hashes like the int, a dyadic time
   like the float *)
Corollary hash_time_eq_int (t : Q) (z : Z) : t == inject_Z z -> pyhash_Q t = pyhash_int z.
Proof. intros H. rewrite (pyhash_Q_respects_eq _ _ H). apply pyhash_Q_int. Qed.

Corollary hash_time_eq_float (t : Q) (m e : Z) : t == dyadic m e -> pyhash_Q t = pyhash_float m e.
Proof. intros H. rewrite (pyhash_Q_respects_eq _ _ H). symmetry. apply pyhash_float_dyadic. Qed.

(* the hash is never -1 (CPython reserves it for errors) *)
Lemma fix_minus_one_ne r : fix_minus_one r <> -1.
Proof. unfold fix_minus_one. destruct (r =? -1) eqn:E; lia. Qed.
Theorem pyhash_Q_not_minus_one q : pyhash_Q q <> -1.
Proof. unfold pyhash_Q, hash_frac. apply fix_minus_one_ne. Qed.
