(* C14 — model of the operand dispatch of the TimeType operator wrappers (qupulse/utils/types.py):
     _with_other_as_time_type:  converted = _converter.get(type(other), TimeType._try_from_any)(other)
                                TypeError during conversion -> NotImplemented (fix 217ca16)
     _converter:                float -> from_float (shortest decimal), mpq / Fraction / TimeType -> exact,
                                sympy.Rational (exactly that type) -> p/q
     _try_from_any:             duck-typed numerator/denominator, numbers.Integral, numbers.Real -> from_float(float(x)),
                                ndarray -> elementwise, then the int()/float() probes, finally the mpq constructor.
   Definitions only.  `probes` is what a Python object answers to the questions _try_from_any asks; `probes_of` is the
   table Python type -> answers, validated by the correspondence check on real objects of every listed type. *)
From Coq Require Import ZArith QArith Qround Bool.
Require Import QV.C14.Model.
Open Scope Z_scope.

Definition pyfloat := option (Q * Q).     (* Some (exact binary value, value of repr) | None = inf / nan *)

Inductive ctor_res := CtOk (q : Q) | CtTypeError | CtOther.      (* gmpy2.mpq(x): value / TypeError / another exception *)

Record probes := mkProbes {
  p_ctor : ctor_res;                 (* cls(any) *)
  p_duck : option (Z * Z);           (* has .numerator and .denominator (called if callable): int() of both *)
  p_integral : option Z;             (* isinstance(any, numbers.Integral): int(any) *)
  p_real : option pyfloat;           (* isinstance(any, numbers.Real): float(any) *)
  p_array : bool;                    (* isinstance(any, numpy.ndarray) *)
  p_int : option Z;                  (* int(any), None on TypeError / ValueError / RuntimeError *)
  p_float : option pyfloat           (* float(any), likewise *)
}.

Inductive conv :=
| CvVal (q : Q)       (* converted to this time value *)
| CvNotImpl           (* TypeError -> the wrapper returns NotImplemented *)
| CvRaise             (* another exception escapes (ValueError for inf / nan / unparsable text, OverflowError, ZeroDivisionError) *)
| CvArray.            (* array operand: handled element by element by numpy's reflected operator *)

Definition from_float_default (f : pyfloat) : conv :=
  match f with Some (_, dec) => CvVal dec | None => CvRaise end.

Definition Q_is_integer (q : Q) : bool := (Zpos (Qden (Qred q)) =? 1).

Definition ctor_final (c : ctor_res) : conv :=
  match c with CtOk q => CvVal q | CtTypeError => CvNotImpl | CtOther => CvRaise end.

Definition try_from_any (p : probes) : conv :=
  match p_ctor p with
  | CtOther => CvRaise                                   (* only TypeError is swallowed by the first try *)
  | _ =>
    match p_duck p with
    | Some (n, d) => match d with Zpos dd => CvVal (n # dd) | Zneg dd => CvVal ((- n) # dd) | Z0 => CvRaise end
    | None =>
      match p_integral p with
      | Some z => CvVal (inject_Z z)
      | None =>
        match p_real p with
        | Some f => from_float_default f
        | None =>
          if p_array p then CvArray else
          match p_int p, p_float p with
          | None, Some f => from_float_default f
          | Some z, None => CvVal (inject_Z z)
          | Some z, Some None => CvRaise                  (* int(inf) / int(nan) raises *)
          | Some z, Some (Some (e, dec)) =>
              if Q_is_integer e then CvVal (inject_Z z)
              else if (Qtrunc e =? z) then CvVal dec
              else ctor_final (p_ctor p)
          | None, None => ctor_final (p_ctor p)
          end
        end
      end
    end
  end.

(* Python values by type *)
Inductive pyval :=
| VTime (q : Q) | VMpq (q : Q) | VFraction (q : Q) | VSymRational (q : Q)          (* listed in _converter *)
| VFloat (f : pyfloat)                                                              (* python float, listed in _converter *)
| VInt (z : Z) | VBool (b : bool) | VNpInt (z : Z) | VMpz (z : Z) | VSymInteger (z : Z)
| VRatDuck (q : Q)                  (* sympy Half/One/..., subclasses of Fraction: numerator/denominator attributes or methods *)
| VNpBool (b : bool)                (* numpy.bool_: no numerator, not registered as a number *)
| VRealLike (ctor : ctor_res) (f : pyfloat)   (* numpy.float64/32/16/longdouble, gmpy2.mpfr, sympy.Float: numbers.Real, f = float(x) *)
| VDecimal (q : Q) (as_int : Z) (f : pyfloat)
| VStr (ctor : ctor_res) (as_int : option Z) (f : option pyfloat)
| VOpaque                           (* None, complex, list, ...: nothing works, and the object does not know TimeType *)
| VReflects                         (* not convertible, but its own reflected operator accepts a TimeType (sympy.Symbol,
                                       ExpressionScalar): after NotImplemented python calls it *)
| VArray                            (* numpy.ndarray *)
| VCustom (p : probes).             (* round 4: an object of a class built by the harness that gives exactly these answers
                                       (small-scope exhaustive walk through _try_from_any's control flow) *)

Definition b2z (b : bool) : Z := if b then 1 else 0.
Definition no_probes (c : ctor_res) : probes := mkProbes c None None None false None None.

Definition probes_of (v : pyval) : probes :=
  match v with
  | VInt z | VMpz z => mkProbes (CtOk (inject_Z z)) (Some (z, 1)) (Some z) (Some None) false (Some z) None
  | VBool b => mkProbes (CtOk (inject_Z (b2z b))) (Some (b2z b, 1)) (Some (b2z b)) (Some None) false (Some (b2z b)) None
  | VNpInt z | VSymInteger z => mkProbes CtTypeError (Some (z, 1)) (Some z) (Some None) false (Some z) None
  | VRatDuck q => mkProbes CtTypeError (Some (Qnum (Qred q), Zpos (Qden (Qred q)))) None (Some None) false None None
  | VNpBool b => mkProbes CtTypeError None None None false (Some (b2z b)) (Some (Some (inject_Z (b2z b), inject_Z (b2z b))))
  | VRealLike c f => mkProbes c None None (Some f) false None None
  | VDecimal q i f => mkProbes (CtOk q) None None None false (Some i) (Some f)
  | VStr c i f => mkProbes c None None None false i f
  | VOpaque | VReflects => no_probes CtTypeError
  | VArray => mkProbes CtTypeError None None None true None None
  | VTime q | VMpq q | VFraction q | VSymRational q => no_probes (CtOk q)      (* not used *)
  | VFloat f => mkProbes CtTypeError None None (Some f) false None None          (* not used *)
  | VCustom p => p
  end.
(* probes that cannot influence the result (answers after the deciding one) are filled with None *)

Definition dispatch (v : pyval) : conv :=
  match v with
  | VTime q | VMpq q | VFraction q | VSymRational q => CvVal q
  | VFloat f => from_float_default f
  | _ => try_from_any (probes_of v)
  end.

(* result of `t op v` (swap = false) / `v op t` (swap = true) through the wrapper *)
Inductive bres := BVal (q : Q) | BZeroDiv | BTypeError | BRaise | BAttrError | BReflected.

Definition wrapped_binop (op : binop) (t : Q) (v : pyval) (swap : bool) : bres :=
  match dispatch v with
  | CvVal q => match (if swap then binop_eval op q t else binop_eval op t q) with Some r => BVal r | None => BZeroDiv end
  | CvNotImpl => match v with VReflects => BReflected | _ => BTypeError end   (* NotImplemented: the other operand decides *)
  | CvRaise => BRaise
  | CvArray => BReflected         (* round 4 repair: NotImplemented for an array operand; numpy's reflected operator applies
                                      the operation per element (was: AttributeError on `converted._value`) *)
  end.

(* the documented meaning of an operand: its exact value, or for floating-point kinds the value of the shortest decimal
   representation of float(x); None = not a number the property speaks about *)
Definition documented_value (v : pyval) : option Q :=
  match v with
  | VTime q | VMpq q | VFraction q | VSymRational q | VRatDuck q => Some q
  | VInt z | VNpInt z | VMpz z | VSymInteger z => Some (inject_Z z)
  | VBool b | VNpBool b => Some (inject_Z (b2z b))
  | VFloat (Some (_, dec)) | VRealLike _ (Some (_, dec)) => Some dec
  | _ => None
  end.
