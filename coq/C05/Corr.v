(* C05 — correspondence cases.  Every case carries the implementation's observations (exact literals);
   check_corr compares them with the model, check_spec evaluates the property itself on the observations only
   (it never looks at the model's compile): the run with options must equal T applied pointwise to the plain run. *)
From Coq Require Import List ZArith QArith Bool.
Require Import QV.common.Util QV.C05.Model QV.C05.Spec QV.C05.Param.
Import ListNotations.
Open Scope Z_scope.

(* observation of one create_program run: None program, or duration (ticks), sorted channels, samples per channel on
   the grid 0 .. dur-1 (leaf walk), sorted measurement windows *)
Inductive obs :=
| ONone
| OProg (dur : Z) (chans : list chan) (samples : list (chan * list oq)) (wins : list win)
| ORaise.      (* create_program or sampling a leaf raised KeyError('Invalid input channels') *)

Inductive case :=
| COpt (q : ppt) (ps : list (pname * Q)) (S : list N) (G : list trafo) (plain opt : obs)
    (* plain = create_program(parameters=ps), opt = create_program(parameters=ps, to_single_waveform=S,
       global_transformation=G) *)
| CSame (q1 q2 : ppt) (ps : list (pname * Q)) (o1 o2 : obs)
    (* q1 = what a convenience constructor returned, q2 = the explicit nesting it replaces; both compiled plainly *)
| CCrash.

Fixpoint insert {A} (leb : A -> A -> bool) (x : A) (l : list A) : list A :=
  match l with
  | [] => [x]
  | y :: r => if leb x y then x :: l else y :: insert leb x r
  end.
Definition isort {A} (leb : A -> A -> bool) (l : list A) : list A := fold_right (insert leb) [] l.

Definition win_leb (a b : win) : bool :=
  let '(n1, b1, l1) := a in
  let '(n2, b2, l2) := b in
  if N.ltb n1 n2 then true else if N.ltb n2 n1 then false
  else if b1 <? b2 then true else if b2 <? b1 then false else l1 <=? l2.
Definition win_eqb (a b : win) : bool :=
  let '(n1, b1, l1) := a in let '(n2, b2, l2) := b in N.eqb n1 n2 && (b1 =? b2) && (l1 =? l2).

Definition range_z (n : Z) : list Z := map Z.of_nat (seq 0 (Z.to_nat n)).

Definition prog_chans (l : loop) : list chan :=
  match flat l with [] => [] | w :: _ => isort N.leb (wchans w) end.

(* the model's compilation is the scope-threading one (Param.v: internal_q with the builder's frame stack) *)
Definition model_obs (q : ppt) (ps : list (pname * Q)) (S : list N) (G : list trafo) : obs :=
  match compile_q q ps S G with
  | None => ONone
  | Some prog =>
      let cs := prog_chans prog in
      (* a leaf that raises KeyError when it is looked at, or leaves on different channel sets (the harness cannot
         sample such a program and reports it like a raise) *)
      if existsb wf_raises (flat prog) || negb (forallb (fun w => list_eqb N.eqb (isort N.leb (wchans w)) cs) (flat prog))
      then ORaise else
      OProg (ldur prog) cs (map (fun c => (c, map (play prog c) (range_z (ldur prog)))) cs)
            (isort win_leb (windows prog))
  end.

Definition ov_eqb (a b : oq) : bool :=
  match a, b with Some x, Some y => Qeq_bool x y | None, None => true | _, _ => false end.
Definition samples_eqb (a b : list (chan * list oq)) : bool :=
  list_eqb (fun x y => N.eqb (fst x) (fst y) && list_eqb ov_eqb (snd x) (snd y)) a b.

Definition obs_eqb (a b : obs) : bool :=
  match a, b with
  | ONone, ONone => true
  | ORaise, ORaise => true
  | OProg d1 c1 s1 w1, OProg d2 c2 s2 w2 =>
      (d1 =? d2) && list_eqb N.eqb c1 c2 && samples_eqb s1 s2 && list_eqb win_eqb w1 w2
  | _, _ => false
  end.

(* model = implementation.  The plain run is always compared.  The option run is compared on the inputs that satisfy
   the guards of the theorems; outside them the model encodes a known defect of the code, the property itself is
   judged by check_spec there, and an implementation that differs from the model by being right must not alarm
   (check_corr_strict compares everywhere and is used for statistics only). *)
Definition in_guards (q : ppt) (ps : list (pname * Q)) (cs : list N) (G : list trafo) : bool :=
  let p := inst (scope_of ps) q in guard_C05_single_waveform cs p && guard_C05_parallel_order G p.
Definition check_corr_strict (c : case) : bool :=
  match c with
  | COpt q ps cs G plain opt => obs_eqb (model_obs q ps [] []) plain && obs_eqb (model_obs q ps cs G) opt
  | CSame q1 q2 ps o1 o2 => obs_eqb (model_obs q1 ps [] []) o1 && obs_eqb (model_obs q2 ps [] []) o2
  | CCrash => false
  end.
Definition check_corr (c : case) : bool :=
  match c with
  | COpt q ps cs G plain opt =>
      obs_eqb (model_obs q ps [] []) plain && (negb (in_guards q ps cs G) || obs_eqb (model_obs q ps cs G) opt)
  | CSame q1 q2 ps o1 o2 => obs_eqb (model_obs q1 ps [] []) o1 && obs_eqb (model_obs q2 ps [] []) o2
  | CCrash => false
  end.

(* ---- the property on the observations ---- *)
Definition sample_at (s : list (chan * list oq)) (k : nat) (c : chan) : oq :=
  match alookup c s with Some l => nth k l None | None => None end.

Definition well_shaped (o : obs) : bool :=
  match o with
  | ONone => true
  | ORaise => false
  | OProg d cs s _ =>
      (0 <? d) && list_eqb N.eqb (map fst s) cs
      && forallb (fun cl => Z.of_nat (length (snd cl)) =? d) s
  end.

(* no sample of a played program is NaN *)
Definition no_nan (o : obs) : bool :=
  match o with
  | ONone | ORaise => true
  | OProg _ _ s _ => forallb (fun cl => forallb (fun v => match v with Some _ => true | None => false end) (snd cl)) s
  end.

(* opt = G applied pointwise to plain; same duration, same windows *)
Definition transformed_obs (G : list trafo) (plain opt : obs) : bool :=
  match plain, opt with
  | ONone, ONone => true
  | OProg d1 c1 s1 w1, OProg d2 c2 s2 w2 =>
      (d1 =? d2) && list_eqb win_eqb w1 w2
      && list_eqb N.eqb c2 (isort N.leb (chain_out G c1))
      && forallb (fun c =>
           forallb (fun k => ov_eqb (sample_at s2 k c) (chain_apply G (sample_at s1 k) c))
                   (seq 0 (Z.to_nat d1))) c2
  | _, _ => false
  end.

Definition check_spec (c : case) : bool :=
  match c with
  | COpt _ _ _ G plain opt =>
      well_shaped plain && well_shaped opt && no_nan opt && transformed_obs G plain opt
  | CSame _ _ _ o1 o2 =>
      well_shaped o1 && well_shaped o2 && no_nan o1 && transformed_obs [] o2 o1
  | CCrash => false
  end.
