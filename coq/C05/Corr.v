(* C05 — correspondence cases.  Every case carries the implementation's observations (exact literals);
   check_corr compares them with the model, check_spec evaluates the property itself on the observations only
   (it never looks at the model's compile): the run with options must equal T applied pointwise to the plain run. *)
From Coq Require Import List ZArith QArith Bool.
Require Import QV.common.Util QV.C05.Model QV.C05.Spec QV.C05.Param QV.C05.Ctors.
Import ListNotations.
Open Scope Z_scope.

(* observation of one create_program run: None program, or duration (ticks), sorted channels, samples per channel on
   the grid 0 .. dur-1 (leaf walk), sorted measurement windows *)
Inductive obs :=
| ONone
| OProg (dur : Z) (chans : list chan) (samples : list (chan * list oq)) (wins : list win)
| ORaise.      (* create_program or sampling a leaf raised KeyError('Invalid input channels') *)

(* which convenience constructor a case called (operands as described templates) *)
Inductive cop :=
| KConcat (args : list ppt)                         (* @, concatenate, with_appended, tuple @ template *)
| KPad (kwargs : bool) (arg : ppt) (d : Z)          (* pad_to by d ticks; kwargs: pt_kwargs given *)
| KRep (n : nat) (arg : ppt)                        (* with_repetition, ** *)
| KRev2 (named_first : bool) (arg : ppt)            (* two reversals; the first one through the class with a name, or through with_time_reversal *)
| KRev1 (arg : ppt)                                 (* with_time_reversal once, on a receiver of any class *)
| KMap (ren mren : list (N * N)) (pm : list (pname * expr)) (arg : ppt)
| KPar (values : list (chan * expr)) (arg : ppt)    (* with_parallel_channels *)
| KParAtomic (args : list ppt)                      (* with_parallel_atomic *)
| KIs (q : ppt).                                    (* constructors that ARE the class call: with_iteration, + - * /, calls without arguments *)

Inductive case :=
| COpt (q : ppt) (ps : list (pname * Q)) (S : list N) (G : list trafo) (plain opt : obs)
    (* plain = create_program(parameters=ps), opt = create_program(parameters=ps, to_single_waveform=S,
       global_transformation=G) *)
| CSame (q1 q2 : ppt) (ps : list (pname * Q)) (o1 o2 : obs)
    (* q1 = what a convenience constructor returned, q2 = the explicit nesting it replaces; both compiled plainly *)
| CCtor (k : cop) (un : list N) (q1 q2 : ppt) (ps : list (pname * Q)) (o1 o2 : obs)
    (* like CSame, and: k = WHICH constructor was called on which described operands; un = the node classes that carry
       no identifier (and are not ForLoopPTs).  The template the real constructor returned (q1, read back from the
       object) must have the shape the functions of Ctors.v give for the operands: ctor_tie *)
| CCrash.

Fixpoint insert {A} (leb : A -> A -> bool) (x : A) (l : list A) : list A :=
  match l with
  | [] => [x]
  | y :: r => if leb x y then x :: l else y :: insert leb x r
  end.
Definition isort {A} (leb : A -> A -> bool) (l : list A) : list A := fold_right (insert leb) [] l.

Definition win_leb (a b : win) : bool :=
  let '(n1, b1, l1) := a in
  let '(n2, b2, l2) := b in
  if N.ltb n1 n2 then true else if N.ltb n2 n1 then false
  else if b1 <? b2 then true else if b2 <? b1 then false else l1 <=? l2.
Definition win_eqb (a b : win) : bool :=
  let '(n1, b1, l1) := a in let '(n2, b2, l2) := b in N.eqb n1 n2 && (b1 =? b2) && (l1 =? l2).

Definition range_z (n : Z) : list Z := map Z.of_nat (seq 0 (Z.to_nat n)).

Definition prog_chans (l : loop) : list chan :=
  match flat l with [] => [] | w :: _ => isort N.leb (wchans w) end.

(* the model's compilation is the scope-threading one (Param.v: internal_q with the builder's frame stack) *)
Definition model_obs (q : ppt) (ps : list (pname * Q)) (S : list N) (G : list trafo) : obs :=
  match compile_q q ps S G with
  | None => ONone
  | Some prog =>
      let cs := prog_chans prog in
      (* a leaf that raises KeyError when it is looked at, or leaves on different channel sets (the harness cannot
         sample such a program and reports it like a raise) *)
      if existsb wf_raises (flat prog) || negb (forallb (fun w => list_eqb N.eqb (isort N.leb (wchans w)) cs) (flat prog))
      then ORaise else
      OProg (ldur prog) cs (map (fun c => (c, map (play prog c) (range_z (ldur prog)))) cs)
            (isort win_leb (windows prog))
  end.

Definition ov_eqb (a b : oq) : bool :=
  match a, b with Some x, Some y => Qeq_bool x y | None, None => true | _, _ => false end.
Definition samples_eqb (a b : list (chan * list oq)) : bool :=
  list_eqb (fun x y => N.eqb (fst x) (fst y) && list_eqb ov_eqb (snd x) (snd y)) a b.

Definition obs_eqb (a b : obs) : bool :=
  match a, b with
  | ONone, ONone => true
  | ORaise, ORaise => true
  | OProg d1 c1 s1 w1, OProg d2 c2 s2 w2 =>
      (d1 =? d2) && list_eqb N.eqb c1 c2 && samples_eqb s1 s2 && list_eqb win_eqb w1 w2
  | _, _ => false
  end.

(* model = implementation.  The plain run is always compared.  The option run is compared on the inputs that satisfy
   the guards of the theorems; outside them the model encodes a known defect of the code, the property itself is
   judged by check_spec there, and an implementation that differs from the model by being right must not alarm
   (check_corr_strict compares everywhere and is used for statistics only). *)
Definition in_guards (q : ppt) (ps : list (pname * Q)) (cs : list N) (G : list trafo) : bool :=
  let p := inst (scope_of ps) q in guard_C05_single_waveform cs p && guard_C05_parallel_order G p.
Definition check_corr_strict (c : case) : bool :=
  match c with
  | COpt q ps cs G plain opt => obs_eqb (model_obs q ps [] []) plain && obs_eqb (model_obs q ps cs G) opt
  | CSame q1 q2 ps o1 o2 | CCtor _ _ q1 q2 ps o1 o2 =>
      obs_eqb (model_obs q1 ps [] []) o1 && obs_eqb (model_obs q2 ps [] []) o2
  | CCrash => false
  end.

(* ---- tie between Ctors.v and the real constructors: shape of the returned template ---- *)
(* equality of closed templates up to node classes, order of declared windows, and the representation of dicts
   (renamings, value dicts and channel lists are compared as functions on the channel / name universe of the cases) *)
Definition universe : list N := [1; 2; 3; 4; 5; 6; 7; 8]%N.
Definition oq_eq (a b : oq) : bool := ov_eqb a b.
Definition interp_eqb (a b : interp) : bool :=
  match a, b with IHold, IHold | ILinear, ILinear | IJump, IJump => true | _, _ => false end.
Definition entry_eqb (e1 e2 : entry) : bool :=
  let '(t1, v1, i1) := e1 in let '(t2, v2, i2) := e2 in (t1 =? t2) && Qeq_bool v1 v2 && interp_eqb i1 i2.
Definition chdef_eqb (a b : chdef) : bool :=
  match a, b with
  | CConst x, CConst y => oq_eq x y
  | CTable x, CTable y => list_eqb entry_eqb x y
  | CFun a1 b1, CFun a2 b2 => Qeq_bool a1 a2 && Qeq_bool b1 b2
  | _, _ => false
  end.
Definition dict_ext {A} (e : A -> A -> bool) (l l' : list (N * A)) : bool :=
  forallb (fun c => match alookup c l, alookup c l' with
                    | Some x, Some y => e x y | None, None => true | _, _ => false end) universe.
Definition ren_ext (r r' : list (N * N)) : bool := forallb (fun c => N.eqb (ren_get r c) (ren_get r' c)) universe.
Definition wins_eqb (a b : list win) : bool := list_eqb win_eqb (isort win_leb a) (isort win_leb b).
Definition aop_eqb (a b : aop) : bool :=
  match a, b with AAdd, AAdd | ASub, ASub | AMul, AMul | ADiv, ADiv => true | _, _ => false end.
Definition scalar_eqb (a b : scalar) : bool :=
  match a, b with
  | SAll x, SAll y => Qeq_bool x y
  | SMap x, SMap y => dict_ext Qeq_bool x y
  | _, _ => false
  end.
(* measurement names a closed template declares, as seen from outside *)
Fixpoint pt_mnames (p : pt) : list N :=
  let names := map (fun w : win => fst (fst w)) in
  match p with
  | PAtom _ m _ _ => names m
  | PSeq _ m subs => names m ++ flat_map pt_mnames subs
  | PRep _ m _ b => names m ++ pt_mnames b
  | PMap _ _ mr s => map (ren_get mr) (pt_mnames s)
  | PPar _ _ s | PArith _ _ _ _ s | PRev _ s => pt_mnames s
  end.
Definition ren_on (dom : list N) (r r' : list (N * N)) : bool := forallb (fun c => N.eqb (ren_get r c) (ren_get r' c)) dom.
(* renamings are compared on the channels / measurement names the inner template has (a merged mapping may carry
   entries for names that do not occur inside) *)
Fixpoint pt_shape_eqb (p p' : pt) : bool :=
  match p, p' with
  | PAtom _ m d chs, PAtom _ m' d' chs' => wins_eqb m m' && (d =? d') && dict_ext chdef_eqb chs chs'
  | PSeq _ m subs, PSeq _ m' subs' =>
      wins_eqb m m' &&
      (fix go (l l' : list pt) : bool :=
         match l, l' with
         | [], [] => true
         | x :: r, y :: r' => pt_shape_eqb x y && go r r'
         | _, _ => false
         end) subs subs'
  | PRep _ m n b, PRep _ m' n' b' => wins_eqb m m' && Nat.eqb n n' && pt_shape_eqb b b'
  | PMap _ r mr s, PMap _ r' mr' s' => ren_on (pt_chans s) r r' && ren_on (pt_mnames s) mr mr' && pt_shape_eqb s s'
  | PPar _ ov s, PPar _ ov' s' => dict_ext Qeq_bool ov ov' && pt_shape_eqb s s'
  | PArith _ o l sc s, PArith _ o' l' sc' s' => aop_eqb o o' && Bool.eqb l l' && scalar_eqb sc sc' && pt_shape_eqb s s'
  | PRev _ s, PRev _ s' => pt_shape_eqb s s'
  | _, _ => false
  end.

(* the voltages a closed template ends on (what pad_to has to hold), read off the MEANING of the template: the last
   value of the last atom, pushed through the channel renamings, overwrites and arithmetic above it.  None: no last
   atom (empty sequence / empty loop) or a time reversal on the way (the code defines no final values there) *)
Definition chdef_final (d : Z) (cd : chdef) : oq :=
  match cd with
  | CConst v => v
  | CTable es => match rev es with (_, v, _) :: _ => Some v | [] => None end
  | CFun a b => Some (Qred (a * inject_Z d + b))
  end.
Fixpoint pt_final (p : pt) : option (list (chan * oq)) :=
  match p with
  | PAtom _ _ d chs => Some (map (fun cd => (fst cd, chdef_final d (snd cd))) chs)
  | PSeq _ _ subs =>
      (fix go (l : list pt) : option (list (chan * oq)) :=
         match l with
         | [] => None
         | x :: r => match r with [] => pt_final x | _ => go r end
         end) subs
  | PRep _ _ _ b => pt_final b
  | PMap _ r _ s => option_map (map (fun cv : chan * oq => (ren_get r (fst cv), snd cv))) (pt_final s)
  | PPar _ ov s =>
      option_map (fun l => map (fun cv : chan * Q => (fst cv, Some (snd cv))) ov
                           ++ filter (fun cv : chan * oq => negb (amem (fst cv) ov)) l) (pt_final s)
  | PArith _ op l sc s =>
      option_map (fun f => map (fun c => (c, chain_apply (arith_steps op l sc (pt_chans s) (fun c => c))
                                               (fun c' => match alookup c' f with Some v => v | None => None end) c))
                               (map fst f)) (pt_final s)
  | PRev _ _ => None
  end.

Definition unnamed (un : list N) (p : pt) : bool := in_S un (pid p).
Definition pamc_of (q : ppt) : list pamc := match q with QAtom _ a => [a] | _ => [] end.

(* the shape Ctors.v predicts for the returned template; None = nothing predicted *)
Definition ctor_expected (k : cop) (un : list N) (sc : scope) : option pt :=
  match k with
  | KConcat args => Some (ctor_concat 0 (map (fun a => let p := inst sc a in (unnamed un p, p)) args))
  | KPad kwargs arg d =>
      let p := inst sc arg in
      match pt_final p with
      | Some f =>
          let final := map (fun cv : chan * oq => (fst cv, CConst (snd cv))) f in
          Some (if kwargs then explicit_pad 0 0 p d final else ctor_pad 0 0 (unnamed un p) p d final)
      | None => None
      end
  | KRep n arg => let p := inst sc arg in Some (ctor_rep 0 (unnamed un p) n p)
  | KRev2 named arg =>
      let p := inst sc arg in
      let first := if named then PRev 0 p else ctor_rev 0 (unnamed un p) p in
      (* the first result is named, or fresh and unnamed (class 0 is never in `un`: decided here) *)
      Some (match first with
            | PRev i x => if named then PRev 0 first
                          else if N.eqb i 0 then x else ctor_rev 0 (unnamed un first) first
            | _ => ctor_rev 0 (unnamed un first) first
            end)
  | KRev1 arg => let p := inst sc arg in Some (ctor_rev 0 (unnamed un p) p)
  | KMap ren mren pm arg => let p := inst (smap sc pm) arg in Some (ctor_map 0 (unnamed un p) ren mren p)
  | KPar values arg => let p := inst sc arg in Some (ctor_par 0 (unnamed un p) (inst_ov sc values) p)
  | KParAtomic args =>
      match args with
      | QAtom i (MNode m subs) :: new =>
          if in_S un i then Some (inst sc (QAtom i (MNode m (subs ++ flat_map pamc_of new))))
          else Some (inst sc (QAtom 0 (MNode [] (flat_map pamc_of args))))
      | [one] => Some (inst sc one)
      | _ => Some (inst sc (QAtom 0 (MNode [] (flat_map pamc_of args))))
      end
  | KIs q => Some (inst sc q)
  end.
Definition ctor_tie (k : cop) (un : list N) (q1 : ppt) (ps : list (pname * Q)) : bool :=
  match ctor_expected k un (scope_of ps) with
  | Some e => pt_shape_eqb (inst (scope_of ps) q1) e
  | None => true
  end.

Definition check_corr (c : case) : bool :=
  match c with
  | COpt q ps cs G plain opt =>
      obs_eqb (model_obs q ps [] []) plain && (negb (in_guards q ps cs G) || obs_eqb (model_obs q ps cs G) opt)
  | CSame q1 q2 ps o1 o2 => obs_eqb (model_obs q1 ps [] []) o1 && obs_eqb (model_obs q2 ps [] []) o2
  | CCtor k un q1 q2 ps o1 o2 =>
      obs_eqb (model_obs q1 ps [] []) o1 && obs_eqb (model_obs q2 ps [] []) o2 && ctor_tie k un q1 ps
  | CCrash => false
  end.

(* ---- the property on the observations ----
   check_spec below never calls compile / compile_q / model_obs / play / usample / to_waveform: it looks at the two
   observations only.  The functions of Model.v it does call are chain_apply and chain_callk (with tr_apply, tr_callk, dot,
   alookup, cunion, cdisj, csub, cdiff, oadd, omul).  They are the DENOTATION of the transformation value T - what
   "T applied pointwise" means: an offset adds, a scaling multiplies, a parallel-channel transformation overwrites / adds,
   a linear one is the matrix product on its inputs and forwards the rest; chain_callk = the channels T(data) has - and so
   belong to the specification.  The model uses the same functions for TransformingWaveform because the code calls T
   there; they are validated against the real Transformation.__call__ on every transformed case (a wrong chain_apply
   breaks check_corr on the unchanged tree, a changed __call__ breaks check_spec).  harness/props/c05_search.py has a
   second, dict-style definition (apply_trafo) used for searching, shrinking and classifying. *)
Definition sample_at (s : list (chan * list oq)) (k : nat) (c : chan) : oq :=
  match alookup c s with Some l => nth k l None | None => None end.

Definition well_shaped (o : obs) : bool :=
  match o with
  | ONone => true
  | ORaise => false
  | OProg d cs s _ =>
      (0 <? d) && list_eqb N.eqb (map fst s) cs
      && forallb (fun cl => Z.of_nat (length (snd cl)) =? d) s
  end.

(* no sample of a played program is NaN *)
Definition no_nan (o : obs) : bool :=
  match o with
  | ONone | ORaise => true
  | OProg _ _ s _ => forallb (fun cl => forallb (fun v => match v with Some _ => true | None => false end) (snd cl)) s
  end.

(* opt = G applied pointwise to plain; same duration, same windows *)
Definition transformed_obs (G : list trafo) (plain opt : obs) : bool :=
  match plain, opt with
  | ONone, ONone => true
  | OProg d1 c1 s1 w1, OProg d2 c2 s2 w2 =>
      (d1 =? d2) && list_eqb win_eqb w1 w2
      && match chain_callk G c1 with      (* the channels T(data) has: a LinearTransformation none of whose inputs is
                                            among the data forwards everything; one that finds only some of them is
                                            not applicable (T(plain) is undefined) *)
         | Some ks => list_eqb N.eqb c2 (isort N.leb ks)
         | None => false
         end
      && forallb (fun c =>
           forallb (fun k => ov_eqb (sample_at s2 k c) (chain_apply G (sample_at s1 k) c))
                   (seq 0 (Z.to_nat d1))) c2
  | _, _ => false
  end.

Definition check_spec (c : case) : bool :=
  match c with
  | COpt _ _ _ G plain opt =>
      well_shaped plain && well_shaped opt && no_nan opt && transformed_obs G plain opt
  | CSame _ _ _ o1 o2 | CCtor _ _ _ _ _ o1 o2 =>
      well_shaped o1 && well_shaped o2 && no_nan o1 && transformed_obs [] o2 o1
  | CCrash => false
  end.
