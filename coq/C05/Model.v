(* C05 — operational model of what qupulse does differently under the compilation options
   `to_single_waveform` and `global_transformation` (definitions only, executable, no proofs).

   Mirrors (file:function):
     pulses/pulse_template.py        PulseTemplate._create_program, AtomicPulseTemplate._internal_create_program
     pulses/sequence_pulse_template  SequencePT._internal_create_program          (PSeq; ForLoopPT is PSeq over the
     pulses/loop_pulse_template      ForLoopPT._internal_create_program            unrolled, index-instantiated bodies)
     pulses/repetition_pulse_templ.  RepetitionPT._internal_create_program
     pulses/mapping_pulse_template   MappingPT._internal_create_program (channel and measurement renaming)
     pulses/function_pulse_template  FunctionPT (affine expression), multi_channel_pulse_template AtomicMultiChannelPT
                                     (one PAtom over the union of the sub-atoms)
     pulses/multi_channel_pulse_t.   ParallelChannelPT._internal_create_program (chains the global transformation
                                     BEFORE its own overwrite)
     pulses/arithmetic_pulse_templ.  ArithmeticPT._get_transformation/_internal_create_program (scalar operand)
     pulses/time_reversal_pulse_t.   TimeReversalPT._internal_create_program (calls the inner _internal_ directly)
     program/loop.py                 LoopBuilder (measure, with_sequence/LoopGuard, with_repetition, time_reversed,
                                     new_subprogram, to_program), Loop.add_measurements, Loop.reverse_inplace,
                                     Loop.get_measurement_windows, to_waveform
     program/waveforms.py            ConstantWaveform/TableWaveform/MultiChannelWaveform (WAtom), SequenceWaveform,
                                     RepetitionWaveform, TransformingWaveform, ReversedWaveform: unsafe_sample read
                                     pointwise, constant_value_dict, from_sequence, from_repetition_count,
                                     from_transformation, reversed()
     program/transformation.py       Offset/Scaling/ParallelChannel/Linear transformations, chain order,
                                     get_input_channels / get_output_channels / keys of __call__ with KeyError explicit

   Time is counted in integer ticks (Z): every duration, table time, window and sample time of a case is a multiple
   of the sampling step chosen by the harness; voltages are exact rationals; NaN is None. *)
From Coq Require Import List ZArith QArith Bool.
Import ListNotations.
Open Scope Z_scope.

Definition chan := N.
Definition oq := option Q.          (* None = NaN *)

(* results of voltage arithmetic are kept as reduced fractions, so that equal voltages are equal terms *)
Definition oadd (a : oq) (b : Q) : oq := match a with Some x => Some (Qred (x + b)) | None => None end.
Definition omul (a : oq) (b : Q) : oq := match a with Some x => Some (Qred (x * b)) | None => None end.

Fixpoint alookup {A} (c : chan) (l : list (chan * A)) : option A :=
  match l with
  | [] => None
  | (k, v) :: r => if N.eqb c k then Some v else alookup c r
  end.
Definition amem {A} (c : chan) (l : list (chan * A)) : bool := match alookup c l with Some _ => true | None => false end.
Definition cmem (c : chan) (l : list chan) : bool := existsb (N.eqb c) l.

(* ---------------------------------------------------------------------------------------------------------------- *)
(* transformations (transformation.py); a global transformation is the flattened chain, [] = None *)
Inductive trafo :=
| TOffset (m : list (chan * Q))
| TScale (m : list (chan * Q))
| TParallel (m : list (chan * Q))
| TLinear (ins outs : list chan) (mat : list (list Q)).    (* rows follow outs, columns follow ins *)

Fixpoint dot (row : list Q) (vals : list oq) : oq :=
  match row, vals with
  | [], [] => Some 0%Q
  | a :: r, Some v :: vs => match dot r vs with Some s => Some (Qred (a * v + s)) | None => None end
  | _, _ => None                      (* a NaN input makes every output of the matrix product NaN *)
  end.

Fixpoint index_of (c : chan) (l : list chan) : option nat :=
  match l with
  | [] => None
  | k :: r => if N.eqb c k then Some O else option_map S (index_of c r)
  end.

(* pointwise reading of Transformation.__call__ on the channels TransformingWaveform asks for *)
Definition tr_apply (t : trafo) (f : chan -> oq) (c : chan) : oq :=
  match t with
  | TOffset m => match alookup c m with Some o => oadd (f c) o | None => f c end
  | TScale m => match alookup c m with Some s => omul (f c) s | None => f c end
  | TParallel m => match alookup c m with Some v => Some v | None => f c end
  | TLinear ins outs mat =>
      match index_of c outs with
      | Some i => dot (nth i mat []) (map f ins)
      | None => if cmem c ins then None      (* consumed input: not an output channel (the code raises KeyError) *)
                else f c                      (* forwarded *)
      end
  end.

(* ChainedTransformation.__call__: left to right *)
Fixpoint chain_apply (G : list trafo) (f : chan -> oq) : chan -> oq :=
  match G with
  | [] => f
  | t :: r => chain_apply r (tr_apply t f)
  end.

Fixpoint cunion (a b : list chan) : list chan :=
  match b with
  | [] => a
  | c :: r => if cmem c a then cunion a r else cunion (a ++ [c]) r
  end.
Definition tr_out (t : trafo) (cs : list chan) : list chan :=
  match t with
  | TOffset _ | TScale _ => cs
  | TParallel m => cunion cs (map fst m)
  | TLinear ins outs _ => cunion (filter (fun c => negb (cmem c ins)) cs) outs
  end.
Fixpoint chain_out (G : list trafo) (cs : list chan) : list chan :=
  match G with
  | [] => cs
  | t :: r => chain_out r (tr_out t cs)
  end.

(* ---- the channel sets the code computes on the way; None = the code raises KeyError ---- *)
Definition csub (a b : list chan) : bool := forallb (fun c => cmem c b) a.
Definition cdiff (a b : list chan) : list chan := filter (fun c => negb (cmem c b)) a.
Definition cdisj (a b : list chan) : bool := forallb (fun c => negb (cmem c b)) a.
Definition obind {A B} (x : option A) (f : A -> option B) : option B := match x with Some a => f a | None => None end.

(* Transformation.get_output_channels (LinearTransformation insists on a superset of its inputs) *)
Definition tr_outk (t : trafo) (cs : list chan) : option (list chan) :=
  match t with
  | TOffset _ | TScale _ => Some cs
  | TParallel m => Some (cunion cs (map fst m))
  | TLinear ins outs _ => if csub ins cs then Some (cunion (cdiff cs ins) outs) else None
  end.
(* Transformation.get_input_channels *)
Definition tr_ink (t : trafo) (req : list chan) : option (list chan) :=
  match t with
  | TOffset _ | TScale _ => Some req
  | TParallel m => Some (cdiff req (map fst m))
  | TLinear ins outs _ =>
      let fwd := cdiff req outs in
      if negb (cdisj fwd ins) then None                     (* KeyError('Is input channel') *)
      else if cdisj req outs then Some req else Some (cunion fwd ins)
  end.
(* keys of Transformation.__call__(data): LinearTransformation forwards when none of its inputs is present, raises
   KeyError('Invalid input channels') when only some are.  (A LinearTransformation WITHOUT input channels cannot be
   called at all - numpy refuses to stack an empty list - and is read like get_output_channels here.) *)
Definition tr_callk (t : trafo) (data : list chan) : option (list chan) :=
  match t with
  | TOffset _ | TScale _ => Some data
  | TParallel m => Some (cunion data (map fst m))
  | TLinear ins outs _ =>
      if match ins with [] => false | _ :: _ => cdisj data ins end then Some data
      else if csub ins data then Some (cunion (cdiff data ins) outs) else None
  end.
Fixpoint chain_outk (G : list trafo) (cs : list chan) : option (list chan) :=
  match G with [] => Some cs | t :: r => obind (tr_outk t cs) (chain_outk r) end.
Fixpoint chain_ink (G : list trafo) (req : list chan) : option (list chan) :=      (* reversed(transformations) *)
  match G with [] => Some req | t :: r => obind (chain_ink r req) (tr_ink t) end.
Fixpoint chain_callk (G : list trafo) (data : list chan) : option (list chan) :=
  match G with [] => Some data | t :: r => obind (tr_callk t data) (chain_callk r) end.
Fixpoint ninsert (x : chan) (l : list chan) : list chan :=
  match l with [] => [x] | y :: r => if N.leb x y then x :: l else y :: ninsert x r end.
Definition nsort (l : list chan) : list chan := fold_right ninsert [] l.

(* ---------------------------------------------------------------------------------------------------------------- *)
(* waveforms *)
Inductive interp := IHold | ILinear | IJump.
Definition entry := (Z * Q * interp)%type.          (* time, value, strategy used for the segment ENDING here *)

Inductive chdef :=
| CConst (v : oq)                                    (* ConstantWaveform *)
| CTable (es : list entry)                           (* TableWaveform *)
| CFun (a b : Q).                                    (* FunctionWaveform of the affine expression a*t + b, a <> 0 *)

Definition interp_val (e1 e2 : entry) (t : Z) : Q :=
  let '(t1, v1, _) := e1 in
  let '(t2, v2, ip) := e2 in
  match ip with
  | IHold => v1
  | IJump => v2
  | ILinear => ((v2 - v1) / inject_Z (t2 - t1) * inject_Z (t - t1) + v1)%Q
  end.

(* TableWaveform.unsafe_sample: every consecutive pair writes the closed slice [t1, t2]; later pairs overwrite *)
Fixpoint table_pairs (e1 : entry) (rest : list entry) (t : Z) (acc : oq) : oq :=
  match rest with
  | [] => acc
  | e2 :: r =>
      let acc' := if (fst (fst e1) <=? t) && (t <=? fst (fst e2)) then Some (interp_val e1 e2 t) else acc in
      table_pairs e2 r t acc'
  end.
Definition table_sample (es : list entry) (t : Z) : oq :=
  match es with
  | [] => None
  | e :: r => table_pairs e r t None
  end.

Definition chdef_sample (d : chdef) (t : Z) : oq :=
  match d with
  | CConst v => v
  | CTable es => table_sample es t
  | CFun a b => Some (Qred (a * inject_Z t + b))
  end.

Inductive wf :=
| WAtom (d : Z) (chs : list (chan * chdef))   (* Constant/Table waveform or MultiChannelWaveform of them *)
| WSeq (ws : list wf)                         (* SequenceWaveform *)
| WRep (w : wf) (n : nat)                     (* RepetitionWaveform *)
| WTrans (w : wf) (G : list trafo)            (* TransformingWaveform *)
| WRev (w : wf).                              (* ReversedWaveform *)

Fixpoint wdur (w : wf) : Z :=
  match w with
  | WAtom d _ => d
  | WSeq ws => fold_right (fun x s => wdur x + s) 0 ws
  | WRep w n => Z.of_nat n * wdur w
  | WTrans w _ => wdur w
  | WRev w => wdur w
  end.

Fixpoint wchans (w : wf) : list chan :=
  match w with
  | WAtom _ chs => map fst chs
  | WSeq ws => match ws with [] => [] | x :: _ => wchans x end
  | WRep w _ => wchans w
  | WTrans w G => chain_out G (wchans w)
  | WRev w => wchans w
  end.

(* SequenceWaveform.unsafe_sample read pointwise: the part whose half-open interval [time, end) contains t is asked
   at t - time; no part => the pre-allocated NaN stays (in particular t = duration) *)
Fixpoint walk (parts : list (Z * (Z -> oq))) (time t : Z) : oq :=
  match parts with
  | [] => None
  | (d, f) :: r => if (time <=? t) && (t <? time + d) then f (t - time) else walk r (time + d) t
  end.

Fixpoint usample (w : wf) (c : chan) (t : Z) : oq :=
  match w with
  | WAtom _ chs => match alookup c chs with Some d => chdef_sample d t | None => None end
  | WSeq ws => walk (map (fun x => (wdur x, usample x c)) ws) 0 t
  | WRep b n => walk (repeat (wdur b, usample b c) n) 0 t
  | WTrans b G => chain_apply G (fun c' => usample b c' t) c
  | WRev b => usample b c (wdur b - t)
  end.

(* constant_value_dict *)
Fixpoint all_const (chs : list (chan * chdef)) : option (list (chan * oq)) :=
  match chs with
  | [] => Some []
  | (c, CConst v) :: r => option_map (cons (c, v)) (all_const r)
  | (_, CTable _) :: _ | (_, CFun _ _) :: _ => None
  end.
(* RepetitionWaveform.constant_value_dict delegates to its body, but from_repetition_count never builds a
   RepetitionWaveform over a constant body, so that delegation is unreachable here and WRep answers None *)
Definition cvd (w : wf) : option (list (chan * oq)) :=
  match w with
  | WAtom _ chs => all_const chs
  | WRep _ _ | WSeq _ | WTrans _ _ | WRev _ => None
  end.

Definition mk_const (d : Z) (vals : list (chan * oq)) : wf := WAtom d (map (fun cv => (fst cv, CConst (snd cv))) vals).

(* equality of (reduced) voltages as terms; Python compares the float values *)
Definition q_eqb (x y : Q) : bool := (Qnum x =? Qnum y) && Pos.eqb (Qden x) (Qden y).
Definition oq_eqb (a b : oq) : bool :=
  match a, b with Some x, Some y => q_eqb x y | None, None => true | _, _ => false end.
Definition dict_sub (a b : list (chan * oq)) : bool :=
  forallb (fun cv => match alookup (fst cv) b with Some v => oq_eqb (snd cv) v | None => false end) a.
Definition dict_eqb (a b : list (chan * oq)) : bool := dict_sub a b && dict_sub b a.

(* TransformingWaveform.from_transformation *)
Definition from_transformation (w : wf) (G : list trafo) : wf :=
  match cvd w with
  | None => WTrans w G
  | Some vals =>
      match chain_callk G (map fst vals) with
      | None => WTrans w G    (* transformation(0., constant_values) raises KeyError: kept as a waveform whose use
                                 raises (wf_raises below) *)
      | Some ks =>        (* the keys the call returns: a LinearTransformation none of whose inputs is there forwards
                             everything and adds nothing *)
          let f := fun c => match alookup c vals with Some v => v | None => None end in
          mk_const (wdur w) (map (fun c => (c, chain_apply G f c)) ks)
      end
  end.
Definition with_global (w : wf) (G : list trafo) : wf :=
  match G with [] => w | _ => from_transformation w G end.

(* Waveform.constant_value(channel): None = the call raises KeyError, Some None = not known to be constant,
   Some (Some v) = constant v.  (ReversedWaveform does not override it.) *)
Fixpoint cvalue (w : wf) (c : chan) : option (option oq) :=
  match w with
  | WAtom _ chs => match alookup c chs with
                   | Some (CConst v) => Some (Some v)
                   | Some _ => Some None
                   | None => None
                   end
  | WSeq ws =>
      (fix go (l : list wf) (v : option oq) : option (option oq) :=
         match l with
         | [] => Some v
         | x :: r => match cvalue x c with
                     | None => None
                     | Some None => Some None
                     | Some (Some a) => match v with
                                        | None => go r (Some a)
                                        | Some b => if oq_eqb a b then go r v else Some None
                                        end
                     end
         end) ws None
  | WRep b _ => cvalue b c
  | WRev _ => Some None
  | WTrans b G =>
      match chain_ink G [c] with
      | None => None
      | Some ins =>
          let vals := map (fun k => (k, cvalue b k)) ins in
          if existsb (fun kv => match snd kv with None => true | _ => false end) vals then None
          else if existsb (fun kv => match snd kv with Some None => true | _ => false end) vals then Some None
          else match chain_callk G ins with
               | None => None
               | Some _ =>
                   let f := fun k => match alookup k vals with Some (Some (Some v)) => v | _ => None end in
                   Some (Some (chain_apply G f c))
               end
      end
  end.

(* does looking at a leaf waveform the way an upload does raise KeyError?  (defined_channels, then get_sampled for
   every channel in sorted order on one time array: constant_value first, unsafe_sample when that is None.)  Only a
   LinearTransformation that finds some but not all of its inputs raises; in a compiled program such a transformation
   only occurs in the outermost TransformingWaveform of a leaf. *)
Fixpoint look_scan (w : wf) (G : list trafo) (todo cache : list chan) : bool :=
  match todo with
  | [] => false
  | c :: r =>
      match cvalue w c with
      | None => true
      | Some (Some _) => look_scan w G r cache
      | Some None =>
          if cmem c cache then look_scan w G r cache
          else match obind (chain_ink G [c]) (chain_callk G) with
               | None => true
               | Some outk => look_scan w G r (cache ++ outk)
               end
      end
  end.
Definition wf_raises (w : wf) : bool :=
  match w with
  | WTrans b G =>
      match chain_outk G (wchans b) with
      | None => true
      | Some outs => look_scan w G (nsort outs) []
      end
  | WRev (WTrans b G) =>        (* ReversedWaveform: no constant_value, a new time array (so an empty cache) per channel *)
      match chain_outk G (wchans b) with
      | None => true
      | Some outs => existsb (fun c => match obind (chain_ink G [c]) (chain_callk G) with None => true | Some _ => false end) outs
      end
  | _ => false
  end.

(* SequenceWaveform.from_sequence *)
Fixpoint seq_const (cv : option (list (chan * oq))) (ws : list wf) : option (list (chan * oq)) :=
  match ws with
  | [] => cv
  | w :: r =>
      match cv with
      | None => None
      | Some vals =>            (* (an empty dict is never reset by the code; waveforms always have a channel) *)
          match cvd w with
          | Some v2 => if dict_eqb vals v2 then seq_const cv r else None
          | None => None
          end
      end
  end.
Definition seq_flatten (ws : list wf) : list wf :=
  flat_map (fun w => match w with WSeq l => l | _ => [w] end) ws.
Definition from_sequence (ws : list wf) : wf :=
  match ws with
  | [w] => w
  | [] => WSeq []
  | w0 :: _ =>
      match seq_const (cvd w0) ws with
      | Some vals => mk_const (wdur (WSeq (seq_flatten ws))) vals
      | None => WSeq (seq_flatten ws)
      end
  end.

(* RepetitionWaveform.from_repetition_count *)
Definition from_repetition (w : wf) (n : nat) : wf :=
  match cvd w with
  | None => WRep w n
  | Some vals => mk_const (Z.of_nat n * wdur w) vals
  end.

(* Waveform.reversed(): ConstantWaveform (one constant channel) is its own reverse, ReversedWaveform unwraps,
   everything else (incl. a MultiChannelWaveform of constants) is wrapped *)
Definition wreversed (w : wf) : wf :=
  match w with
  | WRev i => i
  | WAtom _ [(_, CConst _)] => w
  | _ => WRev w
  end.

(* ---------------------------------------------------------------------------------------------------------------- *)
(* program trees (loop.py) *)
Definition win := (N * Z * Z)%type.          (* name, begin, length *)
Definition wshift (o : Z) (w : win) : win := let '(n, b, l) := w in (n, b + o, l).

Inductive loop :=
| Leaf (w : wf)
| Node (rep : nat) (meas : list win) (ch : list loop).

Fixpoint ldur (l : loop) : Z :=
  match l with
  | Leaf w => wdur w
  | Node rep _ ch => Z.of_nat rep * fold_right (fun x s => ldur x + s) 0 ch
  end.
Definition body_dur (ch : list loop) : Z := fold_right (fun x s => ldur x + s) 0 ch.

(* leaves in playback order, repetitions unrolled *)
Fixpoint flat (l : loop) : list wf :=
  match l with
  | Leaf w => [w]
  | Node rep _ ch => concat (repeat (flat_map flat ch) rep)
  end.

(* what the program plays: the leaf whose half-open interval contains t, sampled at its local time *)
Definition play_parts (ws : list wf) (c : chan) (t : Z) : oq := walk (map (fun x => (wdur x, usample x c)) ws) 0 t.
Definition play (l : loop) (c : chan) (t : Z) : oq := play_parts (flat l) c t.

(* Loop._get_measurement_windows: own windows, then the children's shifted by their start; all tiled rep times *)
Fixpoint tile (n : nat) (period : Z) (k : Z) (ws : list win) : list win :=
  match n with
  | O => []
  | S n' => map (wshift (k * period)) ws ++ tile n' period (k + 1) ws
  end.
Fixpoint windows (l : loop) : list win :=
  match l with
  | Leaf _ => []
  | Node rep meas ch =>
      let fix go (ch : list loop) (off : Z) : list win :=
        match ch with
        | [] => []
        | x :: r => map (wshift off) (windows x) ++ go r (off + ldur x)
        end in
      tile rep (body_dur ch) 0 (meas ++ go ch 0)
  end.

(* Loop.reverse_inplace: children reversed recursively; the node's own windows are mirrored about its body duration
   (repaired by /repo 3fe774f, C02; it was the total duration incl. repetitions) *)
Fixpoint reverse_loop (l : loop) : loop :=
  match l with
  | Leaf w => Leaf (wreversed w)
  | Node rep meas ch =>
      let d := body_dur ch in
      Node rep (map (fun w : win => let '(n, b, len) := w in (n, d - (b + len), len)) meas) (rev (map reverse_loop ch))
  end.

(* to_waveform *)
Fixpoint to_waveform (l : loop) : wf :=
  match l with
  | Leaf w => w
  | Node rep _ ch =>
      let s := match ch with
               | [x] => to_waveform x
               | _ => from_sequence (map to_waveform ch)
               end in
      if (1 <? Z.of_nat rep) then from_repetition s rep else s
  end.

(* ---------------------------------------------------------------------------------------------------------------- *)
(* LoopBuilder, functional form: the only builder state a template can observe is the current top loop (children,
   windows) and the stack of LoopGuards (with_sequence) with their not yet flushed windows *)
Record bst := mkB { b_ch : list loop; b_meas : list win; b_pend : list (list win) }.
Definition b_empty : bst := mkB [] [] [].

(* append_child on the top: every guard flushes its pending windows, offset by the body duration before the append *)
Definition b_append (b : bst) (l : loop) : bst :=
  mkB (b_ch b ++ [l])
      (b_meas b ++ map (wshift (body_dur (b_ch b))) (concat (b_pend b)))
      (map (fun _ => []) (b_pend b)).
(* add_measurements on the top (Loop: offset by the current body duration; LoopGuard: kept pending) *)
Definition b_measure (b : bst) (m : list win) : bst :=
  match b_pend b with
  | [] => mkB (b_ch b) (b_meas b ++ map (wshift (body_dur (b_ch b))) m) []
  | p :: r => mkB (b_ch b) (b_meas b) ((p ++ m) :: r)
  end.
Definition b_push (b : bst) (m : list win) : bst := mkB (b_ch b) (b_meas b) (m :: b_pend b).
Definition b_pop (b : bst) : bst := mkB (b_ch b) (b_meas b) (tl (b_pend b)).
Definition b_program (b : bst) : option loop :=
  match b_ch b with [] => None | _ => Some (Node 1 (b_meas b) (b_ch b)) end.

(* LoopBuilder.new_subprogram *)
Definition new_subprogram (b : bst) (G : list trafo) (inner : bst) : bst :=
  match b_program inner with
  | None => b
  | Some prog => b_append (b_measure b (windows prog)) (Leaf (with_global (to_waveform prog) G))
  end.

(* ---------------------------------------------------------------------------------------------------------------- *)
(* templates *)
Inductive aop := AAdd | ASub | AMul | ADiv.
Inductive scalar := SAll (v : Q) | SMap (m : list (chan * Q)).

Inductive pt :=
| PAtom (id : N) (meas : list win) (d : Z) (chs : list (chan * chdef))   (* Constant/Table/FunctionPT, AtomicMultiChannelPT of them *)
| PSeq (id : N) (meas : list win) (subs : list pt)                       (* SequencePT, unrolled ForLoopPT *)
| PRep (id : N) (meas : list win) (n : nat) (body : pt)                  (* RepetitionPT *)
| PMap (id : N) (ren : list (chan * chan)) (mren : list (N * N)) (sub : pt)   (* MappingPT (channels, measurement names) *)
| PPar (id : N) (ov : list (chan * Q)) (sub : pt)                        (* ParallelChannelPT *)
| PArith (id : N) (op : aop) (pt_left : bool) (s : scalar) (sub : pt)    (* ArithmeticPT with a scalar *)
| PRev (id : N) (sub : pt).                                              (* TimeReversalPT *)

Definition pid (p : pt) : N :=
  match p with
  | PAtom i _ _ _ | PSeq i _ _ | PRep i _ _ _ | PMap i _ _ _ | PPar i _ _ | PArith i _ _ _ _ | PRev i _ => i
  end.

Definition ren_get (ren : list (chan * chan)) (c : chan) : chan := match alookup c ren with Some x => x | None => c end.
(* MeasurementDefiner.get_measurement_windows: the declared windows under the measurement mapping that arrives *)
Definition mwins (mm : N -> N) (m : list win) : list win := map (fun w : win => let '(n, b, l) := w in (mm n, b, l)) m.

(* defined_channels *)
Fixpoint pt_chans (p : pt) : list chan :=
  match p with
  | PAtom _ _ _ chs => map fst chs
  | PSeq _ _ subs =>      (* all subtemplates define the same channels; an unrolled empty ForLoopPT has no body left *)
      (fix first (l : list pt) : list chan :=
         match l with [] => [] | s :: r => match pt_chans s with [] => first r | cs => cs end end) subs
  | PRep _ _ _ b => pt_chans b
  | PMap _ ren _ s => map (ren_get ren) (pt_chans s)
  | PPar _ ov s => cunion (pt_chans s) (map fst ov)
  | PArith _ _ _ _ s => pt_chans s
  | PRev _ s => pt_chans s
  end.

(* ArithmeticPulseTemplate._get_scalar_value / _get_transformation *)
Definition scalar_dict (s : scalar) (defch : list chan) (cm : chan -> chan) : list (chan * Q) :=
  match s with
  | SAll v => map (fun c => (cm c, v)) defch
  | SMap m => map (fun cv => (cm (fst cv), snd cv)) m
  end.
Definition arith_steps (op : aop) (pt_left : bool) (s : scalar) (defch : list chan) (cm : chan -> chan) : list trafo :=
  let sd := scalar_dict s defch cm in
  let mapv (f : Q -> Q) := map (fun cv : chan * Q => (fst cv, f (snd cv))) sd in
  if pt_left then
    match op with
    | AAdd => [TOffset sd]
    | ASub => [TOffset (mapv Qopp)]
    | AMul => [TScale sd]
    | ADiv => [TScale (mapv Qinv)]
    end
  else
    match op with
    | AAdd => [TOffset sd]
    | ASub => [TScale (map (fun c => (cm c, (-1)%Q)) defch); TOffset sd]
    | AMul | ADiv => [TScale sd]
    end.

Definition in_S (S : list N) (i : N) : bool := existsb (N.eqb i) S.

(* PulseTemplate._create_program around a function `rec` that is the node's _internal_create_program *)
Definition create (S : list N) (rec : pt -> (chan -> chan) -> (N -> N) -> list trafo -> bst -> bst)
           (p : pt) (cm : chan -> chan) (mm : N -> N) (G : list trafo) (b : bst) : bst :=
  if in_S S (pid p) then new_subprogram b G (rec p cm mm [] b_empty) else rec p cm mm G b.

(* AtomicPulseTemplate._internal_create_program for the waveform w built by build_waveform *)
Definition play_atom (b : bst) (meas : list win) (w : wf) (G : list trafo) : bst :=
  let w' := with_global w G in
  let leaf := match cvd w' with
              | Some vals => mk_const (wdur w') vals          (* hold_voltage *)
              | None => w'                                     (* play_arbitrary_waveform *)
              end in
  b_append (b_measure b meas) (Leaf leaf).

(* _internal_create_program of every template class; cm / mm = channel / measurement mapping that arrives *)
Fixpoint internal (S : list N) (p : pt) (cm : chan -> chan) (mm : N -> N) (G : list trafo) (b : bst) : bst :=
  match p with
  | PAtom _ meas d chs =>
      if (d <=? 0) || match chs with [] => true | _ => false end then b
      else play_atom b (mwins mm meas) (WAtom d (map (fun cd => (cm (fst cd), snd cd)) chs)) G
  | PSeq _ meas subs =>
      b_pop (fold_left (fun b' s => create S (internal S) s cm mm G b') subs (b_push b (mwins mm meas)))
  | PRep _ meas n body =>
      match n with
      | O => b
      | _ => let inner := create S (internal S) body cm mm G b_empty in
             match b_ch inner with
             | [] => b
             | _ => b_append (b_measure b (mwins mm meas)) (Node n (b_meas inner) (b_ch inner))
             end
      end
  | PMap _ ren mren s => create S (internal S) s (fun c => cm (ren_get ren c)) (fun n => mm (ren_get mren n)) G b
  | PPar _ ov s => create S (internal S) s cm mm (G ++ [TParallel (map (fun cv => (cm (fst cv), snd cv)) ov)]) b
  | PArith _ op l sc s => create S (internal S) s cm mm (arith_steps op l sc (pt_chans s) cm ++ G) b
  | PRev _ s =>
      let inner := internal S s cm mm G b_empty in   (* NOT `create`: the inner template's own flag is ignored *)
      match b_program inner with
      | None => b
      | Some prog => b_append b (reverse_loop prog)
      end
  end.

(* PulseTemplate.create_program(to_single_waveform = S, global_transformation = G) *)
Definition compile (p : pt) (S : list N) (G : list trafo) : option loop :=
  b_program (create S (internal S) p (fun c => c) (fun n => n) G b_empty).
