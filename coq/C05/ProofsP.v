(* C05 — proofs about Param.v: the code's scope threading (with the builder's frame stack) compiles exactly the closed
   template `inst sc q`, whatever the frame stack is; the closed-template theorems lift to parametrised templates. *)
From Coq Require Import List ZArith QArith Bool Lia Sorting.Permutation.
Require Import QV.C05.Model QV.C05.Spec QV.C05.Param QV.C05.Proofs QV.C05.Proofs2 QV.C05.Proofs4 QV.C05.Proofs5.
Import ListNotations.
Open Scope Z_scope.

Section ppt_induction.
  Variable P : ppt -> Prop.
  Hypothesis HAtom : forall i a, P (QAtom i a).
  Hypothesis HSeq : forall i m subs, Forall P subs -> P (QSeq i m subs).
  Hypothesis HRep : forall i m n b, P b -> P (QRep i m n b).
  Hypothesis HFor : forall i m x a e s b, P b -> P (QFor i m x a e s b).
  Hypothesis HMap : forall i r mr pm s, P s -> P (QMap i r mr pm s).
  Hypothesis HPar : forall i ov s, P s -> P (QPar i ov s).
  Hypothesis HArith : forall i op l sc s, P s -> P (QArith i op l sc s).
  Hypothesis HRev : forall i s, P s -> P (QRev i s).
  Fixpoint ppt_ind2 (q : ppt) : P q :=
    match q with
    | QAtom i a => HAtom i a
    | QSeq i m subs => HSeq i m subs ((fix go (l : list ppt) : Forall P l :=
                          match l with [] => Forall_nil _ | x :: r => Forall_cons _ (ppt_ind2 x) (go r) end) subs)
    | QRep i m n b => HRep i m n b (ppt_ind2 b)
    | QFor i m x a e s b => HFor i m x a e s b (ppt_ind2 b)
    | QMap i r mr pm s => HMap i r mr pm s (ppt_ind2 s)
    | QPar i ov s => HPar i ov s (ppt_ind2 s)
    | QArith i op l sc s => HArith i op l sc s (ppt_ind2 s)
    | QRev i s => HRev i s (ppt_ind2 s)
    end.
End ppt_induction.

Lemma qid_inst sc q : pid (inst sc q) = qid q.
Proof.
  destruct q; cbn; try reflexivity. unfold inst_atom. destruct (pamc_parts sc a) as [[w d] cs]. reflexivity.
Qed.

Lemma fold_left_map {A B C} (f : A -> B -> A) (g : C -> B) l : forall a,
  fold_left f (map g l) a = fold_left (fun a x => f a (g x)) l a.
Proof. induction l as [|x l IH]; intros a; cbn; [reflexivity|apply IH]. Qed.
Lemma fold_left_ext_in {A B} (f g : A -> B -> A) l : Forall (fun x => forall a, f a x = g a x) l ->
  forall a, fold_left f l a = fold_left g l a.
Proof. induction 1 as [|x l H _ IH]; intros a; cbn; [reflexivity|]. rewrite H. apply IH. Qed.

Definition threads (S : list N) (q : ppt) : Prop :=
  forall sc cm mm G its b, internal_q S q sc cm mm G its b = internal S (inst sc q) cm mm G b.

Lemma create_q_inst S q : threads S q -> forall sc cm mm G its b,
  create_q S (internal_q S) q sc cm mm G its b = create S (internal S) (inst sc q) cm mm G b.
Proof. intros H sc cm mm G its b. unfold create_q, create. rewrite qid_inst. destruct (in_S S (qid q)); rewrite H; reflexivity. Qed.

(* the builder's frame stack never reaches the scope: threading = compiling the instantiated template *)
Theorem internal_q_inst S : forall q, threads S q.
Proof.
  intros q. induction q as [i a|i m subs IH|i m n body IH|i m x a e s body IH|i ren mren pm s IH|i ov s IH|i op l sc0 s IH|i s IH]
    using ppt_ind2; intros sc cm mm G its b.
  - cbn [internal_q inst]. unfold inst_atom. destruct (pamc_parts sc a) as [[w d] cs]. reflexivity.
  - cbn [internal_q inst internal]. f_equal. rewrite fold_left_map. apply fold_left_ext_in.
    eapply Forall_impl; [|exact IH]. intros s Hs b'. cbn beta. apply create_q_inst; exact Hs.
  - cbn [internal_q inst internal]. destruct n; [reflexivity|]. cbn [inner_scope]. rewrite create_q_inst by exact IH. reflexivity.
  - cbn [internal_q inst internal]. f_equal. rewrite fold_left_map. apply fold_left_ext_in.
    apply Forall_forall. intros v _ b'. cbn beta zeta. cbn [inner_scope]. apply create_q_inst; exact IH.
  - cbn [internal_q inst internal]. apply create_q_inst; exact IH.
  - cbn [internal_q inst internal]. apply create_q_inst; exact IH.
  - cbn [internal_q inst internal]. apply create_q_inst; exact IH.
  - cbn [internal_q inst internal]. rewrite IH. reflexivity.
Qed.

Theorem compile_q_inst q ps S G : compile_q q ps S G = compile (inst (scope_of ps) q) S G.
Proof. unfold compile_q, compile. rewrite create_q_inst by apply internal_q_inst. reflexivity. Qed.

(* a stronger reading of the same fact: any two frame stacks give the same builder state *)
Corollary frames_irrelevant S q sc cm mm G its its' b :
  internal_q S q sc cm mm G its b = internal_q S q sc cm mm G its' b.
Proof. rewrite !internal_q_inst. reflexivity. Qed.

(* MappedScope evaluates all mapped names in the OUTER scope: a mapping that rebinds a name to an expression of itself,
   and a swap, read the outer values *)
Lemma smap_self sc x k c : smap sc [(x, EAff c [(x, k)])] x = Qred (c + (k * sc x + 0)).
Proof. unfold smap. cbn. rewrite N.eqb_refl. reflexivity. Qed.
Lemma smap_swap sc x y : x <> y ->
  smap sc [(x, EAff 0 [(y, 1%Q)]); (y, EAff 0 [(x, 1%Q)])] x == sc y /\
  smap sc [(x, EAff 0 [(y, 1%Q)]); (y, EAff 0 [(x, 1%Q)])] y == sc x.
Proof.
  intros H. unfold smap. cbn [alookup]. rewrite !N.eqb_refl. destruct (N.eqb y x) eqn:E; [apply N.eqb_eq in E; congruence|].
  unfold eval. rewrite !Qred_correct. cbn [eval_terms]. split; ring.
Qed.

(* ---- the closed-template theorems for parametrised templates ---- *)
Theorem single_waveform_param : forall q ps S, guard_C05_single_waveform S (inst (scope_of ps) q) = true ->
  match compile_q q ps S [], compile_q q ps [] [] with
  | Some l, Some l' => ldur l = ldur l' /\ Permutation (windows l) (windows l') /\
                       forall c t, 0 <= t < ldur l -> play l c t = play l' c t
  | None, None => True
  | _, _ => False
  end.
Proof. intros q ps S H. rewrite !compile_q_inst. apply single_waveform_thm. exact H. Qed.

Theorem global_transformation_param : forall q ps S G, guard_C05_parallel_order G (inst (scope_of ps) q) = true ->
  match compile_q q ps S G, compile_q q ps S [] with
  | Some l, Some l' => ldur l = ldur l' /\
                       forall c t, 0 <= t < ldur l -> play l c t = chain_apply G (fun c' => play l' c' t) c
  | None, None => True
  | _, _ => False
  end.
Proof. intros q ps S G H. rewrite !compile_q_inst. apply global_transformation_thm. exact H. Qed.

(* non-vacuity on the shape of seeded change C05-4: for i in 0..2: map{i -> 1 + i/2}(rep 2 (const A = i)) with the
   repetition collapsed; the threading model plays 1, 3/2, 2 *)
Definition q_scan : ppt :=
  QFor 4 [] 1%N 0 3 1
    (QMap 3 [] [] [(1%N, EAff 1 [(1%N, (1#2)%Q)])]
       (QRep 2 [] 2 (QAtom 1 (MLeaf [] (AConst (EAff 2 []) [(1%N, EAff 0 [(1%N, 1%Q)])]))))).
Example q_scan_plays :
  match compile_q q_scan [] [2%N] [] with
  | Some l => map (play l 1%N) [0; 4; 8] = [Some 1%Q; Some (3#2)%Q; Some 2%Q] /\ ldur l = 12
  | None => False
  end.
Proof. vm_compute. split; reflexivity. Qed.
