(* C05 — proofs, part 3: one collapse step, refutation witnesses, non-vacuity examples *)
From Coq Require Import List ZArith QArith Bool Lia.
Require Import QV.C05.Model QV.C05.Spec QV.C05.Proofs QV.C05.Proofs2.
Import ListNotations.
Open Scope Z_scope.

(* what LoopBuilder.new_subprogram appends for a well-formed inner program plays X applied to that program *)
Lemma collapse_step : forall prog X, lok prog ->
  wdur (with_global (to_waveform prog) X) = ldur prog /\
  forall c t, 0 <= t < ldur prog ->
    usample (with_global (to_waveform prog) X) c t = chain_apply X (fun c' => play prog c' t) c.
Proof.
  intros prog X Hok. destruct (to_waveform_ok prog Hok) as (_ & Hd & _ & _ & _ & Hs).
  split; [rewrite with_global_dur; exact Hd|]. intros c t Ht.
  rewrite with_global_sample. apply chain_apply_ext. intros k. apply Hs; auto.
Qed.

Lemma to_waveform_thm : forall l, lok l ->
  wdur (to_waveform l) = ldur l /\ forall c t, 0 <= t < ldur l -> usample (to_waveform l) c t = play l c t.
Proof. intros l H. destruct (to_waveform_ok l H) as (_ & Hd & _ & _ & _ & Hs). split; auto. Qed.

(* ---- statements whose failure is decided by evaluation ---- *)
Definition same_play (p : pt) (S : list N) : Prop :=
  match compile p S [], compile p [] [] with
  | Some l, Some l' => ldur l = ldur l' /\ forall c t, 0 <= t < ldur l -> play l c t = play l' c t
  | None, None => True
  | _, _ => False
  end.
Definition transformed_play (p : pt) (S : list N) (G : list trafo) : Prop :=
  match compile p S G, compile p S [] with
  | Some l, Some l' => ldur l = ldur l' /\
                       forall c t, 0 <= t < ldur l -> play l c t = chain_apply G (fun c' => play l' c' t) c
  | None, None => True
  | _, _ => False
  end.

Lemma q_eqb_refl x : q_eqb x x = true.
Proof. unfold q_eqb. rewrite Z.eqb_refl, Pos.eqb_refl. reflexivity. Qed.
Lemma oq_eqb_refl a : oq_eqb a a = true.
Proof. destruct a; cbn; [apply q_eqb_refl|reflexivity]. Qed.

Definition differs_at (a b : option loop) (f : loop -> chan -> Z -> oq) (c : chan) (t : Z) : bool :=
  match a, b with
  | Some l, Some l' => (0 <=? t) && (t <? ldur l) && negb (oq_eqb (play l c t) (f l' c t))
  | _, _ => false
  end.

Lemma same_play_fails p S c t :
  differs_at (compile p S []) (compile p [] []) play c t = true -> ~ same_play p S.
Proof.
  unfold same_play, differs_at. destruct (compile p S []) as [l|], (compile p [] []) as [l'|]; try discriminate.
  intros H [_ Hs]. apply andb_true_iff in H as [H Hn]. apply andb_true_iff in H as [A B].
  apply Z.leb_le in A. apply Z.ltb_lt in B. rewrite (Hs c t (conj A B)), oq_eqb_refl in Hn. discriminate.
Qed.
Lemma transformed_play_fails p S G c t :
  differs_at (compile p S G) (compile p S []) (fun l' c t => chain_apply G (fun c' => play l' c' t) c) c t = true ->
  ~ transformed_play p S G.
Proof.
  unfold transformed_play, differs_at. destruct (compile p S G) as [l|], (compile p S []) as [l'|]; try discriminate.
  intros H [_ Hs]. apply andb_true_iff in H as [H Hn]. apply andb_true_iff in H as [A B].
  apply Z.leb_le in A. apply Z.ltb_lt in B. rewrite (Hs c t (conj A B)), oq_eqb_refl in Hn. discriminate.
Qed.

(* witnesses (channel A = 1, B = 2) *)
Definition w_const (i : N) (d : Z) (v : Q) : pt := PAtom i [] d [(1%N, CConst (Some v))].
Definition w_par : pt := PPar 2 [(2%N, 1%Q)] (w_const 1 2 3%Q).                       (* ConstantPT(2,{A:3}) || B=1 *)
Definition w_par_times_2 : pt := PArith 3 AMul true (SAll 2%Q) w_par.                 (* (... || B=1) * 2 *)
Definition w_ramp : pt := PAtom 7 [] 2 [(1%N, CTable [(0, 0%Q, IHold); (2, 4%Q, ILinear)])].
Definition w_rev : pt :=                                                             (* reversed(seq(Q=seq(1, ramp), 7)) *)
  PRev 5 (PSeq 4 [] [PSeq 3 [] [w_const 1 1 1%Q; w_ramp]; w_const 6 1 7%Q]).
(* a non-trivial input that satisfies every guard: arithmetic around a parallel channel the scalar does not touch,
   a reversal whose inner template (only) is named in S, a collapsed repetition *)
Definition w_good : pt :=
  PSeq 10 [(1%N, 0, 1)]
    [PArith 11 AAdd true (SMap [(1%N, 2%Q)]) (PPar 12 [(2%N, 1%Q)] (PSeq 13 [] [w_const 1 1 1%Q; w_ramp]));
     PRep 14 [] 2 (PPar 15 [(2%N, 5%Q)] (PRev 16 (PSeq 17 [] [w_ramp; w_const 6 1 7%Q])))].

Lemma refute_global : ~ transformed_play w_par [] [TScale [(1%N, 2%Q); (2%N, 2%Q)]].
Proof. apply (transformed_play_fails _ _ _ 2%N 0). vm_compute. reflexivity. Qed.
Lemma refute_single_parallel : ~ same_play w_par_times_2 [2%N].
Proof. apply (same_play_fails _ _ 2%N 0). vm_compute. reflexivity. Qed.
Lemma refute_single_reversal : ~ same_play w_rev [3%N].
Proof. apply (same_play_fails _ _ 1%N 1). vm_compute. reflexivity. Qed.
Lemma refute_single_reversal_junction : ~ same_play w_rev [3%N].
Proof. apply (same_play_fails _ _ 1%N 3). vm_compute. reflexivity. Qed.
