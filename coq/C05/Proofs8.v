(* C05 — proofs, part 8: chained with_mapping.  `internal` only uses its channel / measurement-name mappings pointwise
   (extensionality, no axiom), merged renamings act like the composition, and MappingPT(MappingPT(x)) with an unnamed
   inner mapping denotes the same pulse as the explicit nesting — for closed templates and, with parameter mappings
   merged by substitution, for parametrised ones. *)
From Coq Require Import List ZArith QArith Bool Lia Sorting.Permutation.
Require Import QV.C05.Model QV.C05.Spec QV.C05.Param QV.C05.Proofs QV.C05.Proofs2 QV.C05.Proofs4 QV.C05.Proofs5 QV.C05.Ctors
  QV.C05.Proofs6 QV.C05.ProofsP.
Import ListNotations.
Open Scope Z_scope.

(* ---- extensionality of the compilation in the two mappings ---- *)
Lemma mwins_ext mm mm' m : (forall n, mm n = mm' n) -> mwins mm m = mwins mm' m.
Proof. intros H. unfold mwins. apply map_ext. intros [[n b] l]. rewrite H. reflexivity. Qed.

Lemma scalar_dict_ext s defch cm cm' : (forall c, cm c = cm' c) -> scalar_dict s defch cm = scalar_dict s defch cm'.
Proof. intros H. destruct s; cbn; apply map_ext; intros; rewrite H; reflexivity. Qed.
Lemma arith_steps_ext op l s defch cm cm' : (forall c, cm c = cm' c) ->
  arith_steps op l s defch cm = arith_steps op l s defch cm'.
Proof.
  intros H. unfold arith_steps. rewrite (scalar_dict_ext s defch cm cm' H).
  rewrite (map_ext (fun c => (cm c, (-1)%Q)) (fun c => (cm' c, (-1)%Q))) by (intros; rewrite H; reflexivity).
  reflexivity.
Qed.

Definition pext (S : list N) (p : pt) : Prop :=
  forall cm cm' mm mm' G b, (forall c, cm c = cm' c) -> (forall n, mm n = mm' n) ->
    internal S p cm mm G b = internal S p cm' mm' G b.

Lemma create_ext S p : pext S p -> forall cm cm' mm mm' G b, (forall c, cm c = cm' c) -> (forall n, mm n = mm' n) ->
  create S (internal S) p cm mm G b = create S (internal S) p cm' mm' G b.
Proof.
  intros IH cm cm' mm mm' G b Hc Hm. unfold create. destruct (in_S S (pid p)).
  - rewrite (IH cm cm' mm mm' [] b_empty Hc Hm). reflexivity.
  - apply IH; auto.
Qed.

Theorem internal_ext S : forall p, pext S p.
Proof.
  intros p. induction p as [i m d chs|i m subs IH|i m n body IH|i ren mren s IH|i ov s IH|i op l sc s IH|i s IH] using pt_ind2;
    intros cm cm' mm mm' G b Hc Hm; cbn [internal].
  - rewrite (mwins_ext mm mm' m Hm).
    rewrite (map_ext (fun cd : chan * chdef => (cm (fst cd), snd cd)) (fun cd => (cm' (fst cd), snd cd)))
      by (intros; rewrite Hc; reflexivity).
    reflexivity.
  - rewrite (mwins_ext mm mm' m Hm). f_equal. apply fold_left_ext_in.
    eapply Forall_impl; [|exact IH]. intros s Hs b'. cbn beta. apply create_ext; auto.
  - destruct n; [reflexivity|]. rewrite (create_ext S body IH cm cm' mm mm' G b_empty Hc Hm).
    rewrite (mwins_ext mm mm' m Hm). reflexivity.
  - apply create_ext; [exact IH|intros; rewrite Hc; reflexivity|intros; rewrite Hm; reflexivity].
  - rewrite (map_ext (fun cv : chan * Q => (cm (fst cv), snd cv)) (fun cv => (cm' (fst cv), snd cv)))
      by (intros; rewrite Hc; reflexivity).
    apply create_ext; auto.
  - rewrite (arith_steps_ext op l sc (pt_chans s) cm cm' Hc). apply create_ext; auto.
  - rewrite (IH cm cm' mm mm' G b_empty Hc Hm). reflexivity.
Qed.

(* ---- merged renamings ---- *)
Lemma alookup_tab (f : N -> N) k L :
  alookup k (map (fun x => (x, f x)) L) = if cmem k L then Some (f k) else None.
Proof.
  induction L as [|x L IH]; cbn; [reflexivity|]. destruct (N.eqb k x) eqn:E; cbn.
  - apply N.eqb_eq in E. subst. reflexivity.
  - exact IH.
Qed.
Lemma ren_get_notin r k : cmem k (map fst r) = false -> ren_get r k = k.
Proof. intros H. unfold ren_get. rewrite alookup_none_cmem; auto. Qed.
(* no side condition: the first match wins on both sides *)
Lemma ren_merge_get r1 r2 k : ren_get (ren_merge r1 r2) k = ren_get r2 (ren_get r1 k).
Proof.
  unfold ren_merge. unfold ren_get at 1. rewrite alookup_tab. destruct (cmem k (map fst r1 ++ map fst r2)) eqn:E; [reflexivity|].
  rewrite cmem_app in E. apply orb_false_iff in E as [A B]. rewrite (ren_get_notin r1 k A), (ren_get_notin r2 k B). reflexivity.
Qed.


(* MappingPT(MappingPT(x, r1, m1), ren, mren): merged = nested, as builder-state transformers (any S below) *)
Lemma map_merge_internal S i j ren mren r1 m1 x cm mm G b : in_S S j = false ->
  internal S (PMap i (ren_merge r1 ren) (ren_merge m1 mren) x) cm mm G b
  = internal S (PMap i ren mren (PMap j r1 m1 x)) cm mm G b.
Proof.
  intros Hj. cbn [internal]. unfold create at 2. cbn [pid]. rewrite Hj. cbn [internal].
  apply create_ext; [apply internal_ext| |]; intros; rewrite ren_merge_get; reflexivity.
Qed.

(* the compilations are EQUAL programs (not just the same pulse), for every S that does not name the inner mapping,
   every G *)
Theorem ctor_map_eq : forall S i j ren mren r1 m1 x G, in_S S j = false ->
  compile (PMap i (ren_merge r1 ren) (ren_merge m1 mren) x) S G = compile (PMap i ren mren (PMap j r1 m1 x)) S G.
Proof.
  intros S i j ren mren r1 m1 x G Hj. unfold compile, create. cbn [pid].
  destruct (in_S S i); rewrite (map_merge_internal S i j ren mren r1 m1 x _ _ _ _ Hj); reflexivity.
Qed.

Lemma same_prog_eq o o' : o = o' -> same_prog o o'.
Proof. intros <-. destruct o as [l|]; cbn; [|exact I]. split; [reflexivity|]. split; [apply Permutation_refl|reflexivity]. Qed.

Theorem ctor_map_same : forall i u ren mren p G,
  same_prog (compile (ctor_map i u ren mren p) [] G) (compile (PMap i ren mren p) [] G).
Proof.
  intros i u ren mren p G.
  destruct p as [a m d chs|a m subs|a m k body|j r1 m1 x|a ov s|a op l sc s|a s]; try (apply same_prog_eq; reflexivity).
  cbn [ctor_map]. destruct u; [|apply same_prog_eq; reflexivity]. apply same_prog_eq. apply ctor_map_eq. reflexivity.
Qed.

(* ---- parameter mappings: merged by substitution (MappingPT.__init__: expr.evaluate_symbolic(outer mapping)) ---- *)
Definition escale (k : Q) (e : expr) : Q * list (pname * Q) :=
  let '(EAff c ts) := e in ((k * c)%Q, map (fun xk => (fst xk, (k * snd xk)%Q)) ts).
(* e with every name x replaced by pm x (a name that is not mapped stays) *)
Fixpoint subst_terms (pm : list (pname * expr)) (ts : list (pname * Q)) : Q * list (pname * Q) :=
  match ts with
  | [] => (0%Q, [])
  | (x, k) :: r =>
      let '(c, out) := subst_terms pm r in
      match alookup x pm with
      | Some e => let '(c1, t1) := escale k e in ((c1 + c)%Q, t1 ++ out)
      | None => (c, (x, k) :: out)
      end
  end.
Definition subst (pm : list (pname * expr)) (e : expr) : expr :=
  let '(EAff c ts) := e in let '(c1, out) := subst_terms pm ts in EAff (c + c1) out.
(* inner mapping pm1 (applied first when reading a name), outer mapping pm *)
Definition pm_merge (pm1 pm : list (pname * expr)) : list (pname * expr) :=
  map (fun xe => (fst xe, subst pm (snd xe))) pm1
  ++ filter (fun xe => negb (cmem (fst xe) (map fst pm1))) pm.

Lemma eval_terms_app sc a b : (eval_terms sc (a ++ b) == eval_terms sc a + eval_terms sc b)%Q.
Proof. induction a as [|[x k] a IH]; cbn [eval_terms app]; [ring|]. rewrite IH. ring. Qed.
Lemma eval_terms_scale sc k ts : (eval_terms sc (map (fun xk => (fst xk, (k * snd xk)%Q)) ts) == k * eval_terms sc ts)%Q.
Proof. induction ts as [|[x k'] ts IH]; cbn [eval_terms map fst snd]; [ring|]. rewrite IH. ring. Qed.

Lemma subst_terms_eval sc pm ts :
  (fst (subst_terms pm ts) + eval_terms sc (snd (subst_terms pm ts)) == eval_terms (smap sc pm) ts)%Q.
Proof.
  induction ts as [|[x k] ts IH]; cbn [subst_terms eval_terms fst snd]; [ring|].
  destruct (subst_terms pm ts) as [c out]. cbn [fst snd] in IH. unfold smap at 1.
  destruct (alookup x pm) as [[c1 t1]|].
  - cbn [escale fst snd]. rewrite eval_terms_app, eval_terms_scale. unfold eval. rewrite Qred_correct, <- IH. ring.
  - cbn [fst snd eval_terms]. rewrite <- IH. ring.
Qed.

Lemma eval_subst sc pm e : eval sc (subst pm e) = eval (smap sc pm) e.
Proof.
  destruct e as [c ts]. unfold subst. pose proof (subst_terms_eval sc pm ts) as H.
  destruct (subst_terms pm ts) as [c1 out]. cbn [fst snd] in H. unfold eval. apply Qred_complete. rewrite <- H. ring.
Qed.

Lemma alookup_map_snd {A B} (f : A -> B) k (l : list (N * A)) :
  alookup k (map (fun xe => (fst xe, f (snd xe))) l) = option_map f (alookup k l).
Proof. induction l as [|[x v] l IH]; cbn; [reflexivity|]. destruct (N.eqb k x); [reflexivity|exact IH]. Qed.
Lemma alookup_app_p {A} k (a b : list (N * A)) :
  alookup k (a ++ b) = match alookup k a with Some v => Some v | None => alookup k b end.
Proof. induction a as [|[x v] a IH]; cbn; [reflexivity|]. destruct (N.eqb k x); [reflexivity|exact IH]. Qed.
Lemma alookup_filter_notin {A} k (P : N -> bool) (l : list (N * A)) : P k = true ->
  alookup k (filter (fun xe => P (fst xe)) l) = alookup k l.
Proof.
  intros H. induction l as [|[x v] l IH]; cbn; [reflexivity|]. destruct (N.eqb k x) eqn:E.
  - apply N.eqb_eq in E. subst. rewrite H. cbn. rewrite N.eqb_refl. reflexivity.
  - destruct (P x); cbn; [rewrite E|]; exact IH.
Qed.
Lemma alookup_some_cmem {A} k (l : list (N * A)) v : alookup k l = Some v -> cmem k (map fst l) = true.
Proof.
  induction l as [|[x w] l IH]; cbn; [discriminate|]. destruct (N.eqb k x); cbn; [reflexivity|exact IH].
Qed.

(* MappedScope over MappedScope = one MappedScope with the merged mapping, name by name *)
Lemma smap_merge sc pm1 pm y : smap (smap sc pm) pm1 y = smap sc (pm_merge pm1 pm) y.
Proof.
  unfold smap at 1 3. unfold pm_merge. rewrite alookup_app_p, alookup_map_snd.
  destruct (alookup y pm1) as [e|] eqn:E; cbn [option_map].
  - symmetry. apply eval_subst.
  - rewrite (alookup_filter_notin y (fun x => negb (cmem x (map fst pm1)))).
    + reflexivity.
    + destruct (cmem y (map fst pm1)) eqn:C; [|reflexivity]. exfalso.
      clear -E C. induction pm1 as [|[x w] l IH]; cbn in *; [discriminate|]. destruct (N.eqb y x); [discriminate|]. auto.
Qed.

(* ---- instantiation only reads the scope pointwise ---- *)
Lemma eval_terms_ext sc sc' ts : (forall x, sc x = sc' x) -> eval_terms sc ts = eval_terms sc' ts.
Proof. intros H. induction ts as [|[x k] ts IH]; cbn; [reflexivity|]. rewrite H, IH. reflexivity. Qed.
Lemma eval_ext sc sc' e : (forall x, sc x = sc' x) -> eval sc e = eval sc' e.
Proof. intros H. destruct e as [c ts]. unfold eval. rewrite (eval_terms_ext sc sc' ts H). reflexivity. Qed.
Lemma eval_t_ext sc sc' e : (forall x, sc x = sc' x) -> eval_t sc e = eval_t sc' e.
Proof. intros H. unfold eval_t. rewrite (eval_ext sc sc' e H). reflexivity. Qed.
Lemma inst_wins_ext sc sc' m : (forall x, sc x = sc' x) -> inst_wins sc m = inst_wins sc' m.
Proof.
  intros H. unfold inst_wins. apply map_ext. intros [[n b] l]. rewrite (eval_t_ext sc sc' b H), (eval_t_ext sc sc' l H). reflexivity.
Qed.
Lemma patom_parts_ext sc sc' a : (forall x, sc x = sc' x) -> patom_parts sc a = patom_parts sc' a.
Proof.
  intros H. destruct a as [d vals|chs|c d a b]; cbn [patom_parts].
  - rewrite (eval_t_ext sc sc' d H). f_equal. apply map_ext. intros [c e]. cbn. rewrite (eval_ext sc sc' e H). reflexivity.
  - assert (E : forall es, map (fun e : expr * expr * interp => let '(t, v, ip) := e in (eval_t sc t, eval sc v, ip)) es
                         = map (fun e : expr * expr * interp => let '(t, v, ip) := e in (eval_t sc' t, eval sc' v, ip)) es).
    { intros es. apply map_ext. intros [[t v] ip]. rewrite (eval_t_ext sc sc' t H), (eval_ext sc sc' v H). reflexivity. }
    f_equal.
    + destruct chs as [|[c es] r]; [reflexivity|]. rewrite E. reflexivity.
    + apply map_ext. intros [c es]. cbn [fst snd]. rewrite E. reflexivity.
  - rewrite (eval_t_ext sc sc' d H), (eval_ext sc sc' b H). reflexivity.
Qed.

Section pamc_induction.
  Variable P : pamc -> Prop.
  Hypothesis HLeaf : forall m a, P (MLeaf m a).
  Hypothesis HNode : forall m subs, Forall P subs -> P (MNode m subs).
  Fixpoint pamc_ind2 (a : pamc) : P a :=
    match a with
    | MLeaf m a => HLeaf m a
    | MNode m subs => HNode m subs ((fix go (l : list pamc) : Forall P l :=
                        match l with [] => Forall_nil _ | x :: r => Forall_cons _ (pamc_ind2 x) (go r) end) subs)
    end.
End pamc_induction.

Lemma pamc_parts_ext sc sc' : (forall x, sc x = sc' x) -> forall a, pamc_parts sc a = pamc_parts sc' a.
Proof.
  intros H a. induction a as [m a|m subs IH] using pamc_ind2; cbn [pamc_parts].
  - rewrite (patom_parts_ext sc sc' a H), (inst_wins_ext sc sc' m H). reflexivity.
  - rewrite (inst_wins_ext sc sc' m H).
    assert (E : (fix go (l : list pamc) : list win * Z * list (chan * chdef) :=
                   match l with [] => ([], 0, []) | x :: r => amc_step (pamc_parts sc x) (go r) end) subs
              = (fix go (l : list pamc) : list win * Z * list (chan * chdef) :=
                   match l with [] => ([], 0, []) | x :: r => amc_step (pamc_parts sc' x) (go r) end) subs).
    { induction IH as [|x r Hx _ IHr]; [reflexivity|]. rewrite Hx, IHr. reflexivity. }
    rewrite E. reflexivity.
Qed.

Lemma smap_ext sc sc' pm : (forall x, sc x = sc' x) -> forall y, smap sc pm y = smap sc' pm y.
Proof. intros H y. unfold smap. destruct (alookup y pm); [apply eval_ext; auto|apply H]. Qed.
Lemma sbind_ext sc sc' x v : (forall y, sc y = sc' y) -> forall y, sbind sc x v y = sbind sc' x v y.
Proof. intros H y. unfold sbind. destruct (N.eqb y x); [reflexivity|apply H]. Qed.

Theorem inst_ext : forall q sc sc', (forall x, sc x = sc' x) -> inst sc q = inst sc' q.
Proof.
  intros q. induction q as [i a|i m subs IH|i m n body IH|i m x a e s body IH|i ren mren pm s IH|i ov s IH|i op l sc0 s IH|i s IH]
    using ppt_ind2; intros sc sc' H; cbn [inst].
  - unfold inst_atom. rewrite (pamc_parts_ext sc sc' H a). reflexivity.
  - rewrite (inst_wins_ext sc sc' m H). f_equal. apply map_ext_in. intros s Hs. rewrite Forall_forall in IH. apply IH; auto.
  - rewrite (inst_wins_ext sc sc' m H), (IH sc sc' H). reflexivity.
  - rewrite (inst_wins_ext sc sc' m H). f_equal. apply map_ext. intros v. apply IH. apply sbind_ext; auto.
  - f_equal. apply IH. apply smap_ext; auto.
  - rewrite (IH sc sc' H). f_equal. unfold inst_ov. apply map_ext. intros [c e]. cbn. rewrite (eval_ext sc sc' e H). reflexivity.
  - rewrite (IH sc sc' H). f_equal. destruct sc0 as [v|mp]; cbn [inst_scalar].
    + rewrite (eval_ext sc sc' v H). reflexivity.
    + f_equal. apply map_ext. intros [c e]. cbn. rewrite (eval_ext sc sc' e H). reflexivity.
  - rewrite (IH sc sc' H). reflexivity.
Qed.

(* chained with_mapping on a parametrised template with an unnamed inner MappingPT: channel / measurement renamings
   composed, parameter mappings merged by substitution — the same program as the explicit nesting, for every
   parameter assignment, every S that does not name the inner mapping, every G *)
Theorem ctor_map_param : forall S i j ren mren pm r1 m1 pm1 x ps G, in_S S j = false ->
  compile_q (QMap i (ren_merge r1 ren) (ren_merge m1 mren) (pm_merge pm1 pm) x) ps S G
  = compile_q (QMap i ren mren pm (QMap j r1 m1 pm1 x)) ps S G.
Proof.
  intros S i j ren mren pm r1 m1 pm1 x ps G Hj. rewrite !compile_q_inst. cbn [inst].
  rewrite (inst_ext x (smap (scope_of ps) (pm_merge pm1 pm)) (smap (smap (scope_of ps) pm) pm1))
    by (intros y; symmetry; apply smap_merge).
  apply ctor_map_eq. exact Hj.
Qed.

(* non-vacuity: x -> 2x inside, x -> x + 1 outside: the body reads 2(x+1), not 2x+1 *)
Example pm_merge_example :
  pm_merge [(1%N, EAff 0 [(1%N, 2%Q)])] [(1%N, EAff 1 [(1%N, 1%Q)])] = [(1%N, EAff (0 + (2 * 1 + 0)) [(1%N, (2 * 1)%Q)])].
Proof. reflexivity. Qed.
