(* C05 — specification side: the executable guards that delimit the two confirmed defect classes, and the relations
   used in the theorem statements.  No proofs. *)
From Coq Require Import List ZArith QArith Bool.
Require Import QV.C05.Model.
Import ListNotations.
Open Scope Z_scope.

(* ---- channels a transformation touches (reads, writes or overwrites) ---- *)
Definition tr_touch (t : trafo) : list chan :=
  match t with
  | TOffset m | TScale m | TParallel m => map fst m
  | TLinear ins outs _ => ins ++ outs
  end.
Definition disjointb (a b : list chan) : bool := forallb (fun c => negb (cmem c b)) a.
(* a parallel-channel overwrite of the channels K commutes with the chain G when G does not touch K *)
Definition chain_avoids (G : list trafo) (K : list chan) : bool := forallb (fun t => disjointb K (tr_touch t)) G.

Definition par_keys (cm : chan -> chan) (ov : list (chan * Q)) : list chan := map (fun cv => cm (fst cv)) ov.

(* guard_C05_parallel_order G p: every ParallelChannelPT in p overwrites only channels the transformation G (that
   is applied around p) does not touch.  Excludes finding `parallel_channel_before_global_transformation`. *)
Fixpoint guard_par (G : list trafo) (cm : chan -> chan) (p : pt) : bool :=
  match p with
  | PAtom _ _ _ _ => true
  | PSeq _ _ subs => forallb (guard_par G cm) subs
  | PRep _ _ _ b => guard_par G cm b
  | PMap _ ren _ s => guard_par G (fun c => cm (ren_get ren c)) s
  | PPar _ ov s => chain_avoids G (par_keys cm ov) && guard_par G cm s
  | PArith _ _ _ _ s => guard_par G cm s
  | PRev _ s => guard_par G cm s
  end.
Definition guard_C05_parallel_order (G : list trafo) (p : pt) : bool := guard_par G (fun c => c) p.

(* no node strictly below p is in S *)
Fixpoint none_below (S : list N) (p : pt) : bool :=
  match p with
  | PAtom _ _ _ _ => true
  | PSeq _ _ subs => forallb (fun s => negb (in_S S (pid s)) && none_below S s) subs
  | PRep _ _ _ s | PMap _ _ _ s | PPar _ _ s | PArith _ _ _ _ s | PRev _ s => negb (in_S S (pid s)) && none_below S s
  end.

(* below p only ATOMIC templates are in S.  Collapsing an atomic template is harmless everywhere: its sub-program is one
   leaf, to_waveform hands that leaf back, so the compiled program is the same term (Proofs5.create_atom_collapse) *)
Definition is_atom (p : pt) : bool := match p with PAtom _ _ _ _ => true | _ => false end.
Fixpoint only_atoms_below (S : list N) (p : pt) : bool :=
  match p with
  | PAtom _ _ _ _ => true
  | PSeq _ _ subs => forallb (fun s => (negb (in_S S (pid s)) || is_atom s) && only_atoms_below S s) subs
  | PRep _ _ _ s | PMap _ _ _ s | PPar _ _ s | PArith _ _ _ _ s | PRev _ s =>
      (negb (in_S S (pid s)) || is_atom s) && only_atoms_below S s
  end.

(* guard for the single-waveform theorem, following the compilation: X is the transformation that arrives at p.
   - a collapsed node needs the parallel-order guard for its arriving transformation (the collapse moves X from
     the leaves to the outside of the whole sub-waveform);
   - below the inner template of a TimeReversalPT no COMPOSITE template is collapsed (finding
     `collapsed_inside_reversal`: the collapsed Sequence/Repetition/TransformingWaveform is wrapped in a
     ReversedWaveform); collapsed atomic templates are allowed there; the inner template's own flag is ignored by the
     code and therefore not restricted. *)
Fixpoint guard_int (S : list N) (cm : chan -> chan) (X : list trafo) (p : pt) : bool :=
  let child (cm' : chan -> chan) (X' : list trafo) (s : pt) :=
    if in_S S (pid s) then guard_par X' cm' s && guard_int S cm' [] s else guard_int S cm' X' s in
  match p with
  | PAtom _ _ _ _ => true
  | PSeq _ _ subs => forallb (child cm X) subs
  | PRep _ _ _ b => child cm X b
  | PMap _ ren _ s => child (fun c => cm (ren_get ren c)) X s
  | PPar _ ov s => child cm (X ++ [TParallel (map (fun cv => (cm (fst cv), snd cv)) ov)]) s
  | PArith _ op l sc s => child cm (arith_steps op l sc (pt_chans s) cm ++ X) s
  | PRev _ s => only_atoms_below S s
  end.
(* (the root is compiled with no arriving transformation, so collapsing the root itself needs nothing extra) *)
Definition guard_C05_single_waveform (S : list N) (p : pt) : bool := guard_int S (fun c => c) [] p.

(* ---- well-formed program trees: every leaf lasts a positive time, every node repeats at least once ---- *)
Fixpoint wnonneg (w : wf) : Prop :=
  match w with
  | WAtom d _ => 0 <= d
  | WSeq ws => fold_right (fun x P => wnonneg x /\ P) True ws
  | WRep b _ => wnonneg b
  | WTrans b _ => wnonneg b
  | WRev b => wnonneg b
  end.

Fixpoint lok (l : loop) : Prop :=
  match l with
  | Leaf w => 0 < wdur w /\ wnonneg w
  | Node rep _ ch =>
      (0 < rep)%nat /\ ch <> [] /\
      fold_right (fun x P => lok x /\ P) True ch
  end.
