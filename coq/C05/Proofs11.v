(* C05 — proofs, part 11: raise-freedom, second step.  The leaf of an un-collapsed atom under ONE LinearTransformation all of
   whose inputs are channels of the atom never raises KeyError when it is looked at the way an upload does, reversed or
   not: an output channel asks for exactly the inputs (all there), a forwarded channel is asked alone and the call forwards
   it.  (Chains that CREATE an input of a later LinearTransformation can raise: finding linear_after_parallel_partial_inputs;
   a LinearTransformation that finds none of its inputs raises on non-constant atoms: finding linear_inputs_absent.) *)
From Coq Require Import List ZArith QArith Bool Lia.
Require Import QV.C05.Model QV.C05.Spec QV.C05.Proofs QV.C05.Proofs2 QV.C05.Proofs10.
Import ListNotations.
Open Scope Z_scope.

Lemma csub_mem a b k : csub a b = true -> cmem k a = true -> cmem k b = true.
Proof.
  unfold csub. intros H K. unfold cmem in K. apply existsb_exists in K as [x [Hx E]]. apply N.eqb_eq in E; subst x.
  rewrite forallb_forall in H. apply H; auto.
Qed.
Lemma in_cmem c l : cmem c l = true -> In c l.
Proof. unfold cmem. intros H. apply existsb_exists in H as [x [Hx E]]. apply N.eqb_eq in E; subst. exact Hx. Qed.
Lemma csub_cunion_nil ins : csub ins (cunion [] ins) = true.
Proof. unfold csub. apply forallb_forall. intros k Hk. rewrite cmem_cunion. cbn. apply cmem_in. exact Hk. Qed.
Lemma cdisj_false_of_common a b k : cmem k a = true -> cmem k b = true -> cdisj a b = false.
Proof.
  intros A B. destruct (cdisj a b) eqn:E; [|reflexivity]. unfold cdisj in E. rewrite forallb_forall in E.
  specialize (E k (in_cmem _ _ A)). rewrite B in E. discriminate.
Qed.

Lemma callk_inputs_gen ins outs mat : exists ks, tr_callk (TLinear ins outs mat) (cunion [] ins) = Some ks.
Proof.
  destruct ins as [|i0 r]; [cbn; eexists; reflexivity|]. cbn [tr_callk].
  assert (D : cdisj (cunion [] (i0 :: r)) (i0 :: r) = false).
  { apply (cdisj_false_of_common _ _ i0); [rewrite cmem_cunion|]; cbn; rewrite N.eqb_refl; reflexivity. }
  rewrite D, csub_cunion_nil. eexists; reflexivity.
Qed.
Lemma callk_forward_gen ins outs mat c : cmem c ins = false -> exists ks, tr_callk (TLinear ins outs mat) [c] = Some ks.
Proof.
  intros H. destruct ins as [|i0 r]; [cbn; eexists; reflexivity|]. cbn [tr_callk].
  assert (D : cdisj [c] (i0 :: r) = true) by (unfold cdisj; cbn [forallb]; rewrite H; reflexivity).
  rewrite D. eexists; reflexivity.
Qed.

Lemma cvalue_trans (b0 : wf) (G0 : list trafo) c L : chain_ink G0 [c] = Some L ->
  cvalue (WTrans b0 G0) c =
    let vals := map (fun k => (k, cvalue b0 k)) L in
    if existsb (fun kv : chan * option (option oq) => match snd kv with None => true | _ => false end) vals then None
    else if existsb (fun kv : chan * option (option oq) => match snd kv with Some None => true | _ => false end) vals then Some None
    else match chain_callk G0 L with
         | None => None
         | Some _ => Some (Some (chain_apply G0 (fun k => match alookup k vals with Some (Some (Some v)) => v | _ => None end) c))
         end.
Proof. intros H. cbn [cvalue]. rewrite H. reflexivity. Qed.

Section atom_leaf_linear.
  Variables (d : Z) (chs : list (chan * chdef)) (ins outs : list chan) (mat : list (list Q)).
  Hypothesis Hin : csub ins (map fst chs) = true.
  Local Notation G := [TLinear ins outs mat].
  Local Notation b := (WAtom d chs).
  Local Notation w := (WTrans b G).
  Local Notation I' := (cunion [] ins).

  Lemma callk_inputs : exists ks, chain_callk G I' = Some ks.
  Proof. cbn [chain_callk obind]. destruct (callk_inputs_gen ins outs mat) as (ks & E). rewrite E. eexists; reflexivity. Qed.
  Lemma callk_forward c : cmem c ins = false -> exists ks, chain_callk G [c] = Some ks.
  Proof. intros H. cbn [chain_callk obind]. destruct (callk_forward_gen ins outs mat c H) as (ks & E). rewrite E. eexists; reflexivity. Qed.
  Lemma ink_out c : cmem c outs = true -> chain_ink G [c] = Some I'.
  Proof.
    intros H. cbn [chain_ink obind tr_ink]. unfold cdiff. cbn [filter]. rewrite H. cbn [negb cdisj forallb].
    unfold cdisj. cbn [forallb]. rewrite H. cbn. reflexivity.
  Qed.
  Lemma ink_fwd c : cmem c outs = false -> cmem c ins = false -> chain_ink G [c] = Some [c].
  Proof.
    intros H K. cbn [chain_ink obind tr_ink]. unfold cdiff. cbn [filter]. rewrite H. cbn [negb].
    unfold cdisj. cbn [forallb]. rewrite K, H. cbn. reflexivity.
  Qed.
  Lemma inputs_defined : forall k, In k I' -> exists v, cvalue b k = Some v.
  Proof.
    intros k Hk. assert (M : cmem k (map fst chs) = true).
    { apply (csub_mem ins); [exact Hin|]. apply cmem_in in Hk. rewrite cmem_cunion in Hk. cbn in Hk. exact Hk. }
    destruct (alookup_some_of_cmem k chs M) as (v & Ev). cbn [cvalue]. rewrite Ev. destruct v; eexists; reflexivity.
  Qed.
  Lemma no_missing : existsb (fun kv : chan * option (option oq) => match snd kv with None => true | _ => false end)
                             (map (fun k => (k, cvalue b k)) I') = false.
  Proof.
    apply not_true_is_false. intros H. apply existsb_exists in H as [[k v] [Hk Hv]]. apply in_map_iff in Hk as [k' [E Hk']].
    destruct (inputs_defined k' Hk') as (v' & Ev). rewrite Ev in E. inversion E; subst. cbn [snd] in Hv. discriminate.
  Qed.

  Definition todo_ok (c : chan) : Prop := cmem c outs = true \/ (cmem c outs = false /\ cmem c ins = false /\ cmem c (map fst chs) = true).

  Lemma scan_linear : forall todo cache, (forall c, In c todo -> todo_ok c) -> look_scan w G todo cache = false.
  Proof.
    induction todo as [|c r IH]; intros cache H; [reflexivity|]. cbn [look_scan].
    assert (Hr : forall c', In c' r -> todo_ok c') by (intros; apply H; right; auto).
    destruct (H c (or_introl eq_refl)) as [O|(O & K & M)].
    - rewrite (cvalue_trans _ _ _ _ (ink_out c O)). cbv zeta. rewrite no_missing.
      destruct callk_inputs as (ks & Ks).
      destruct (existsb _ _).
      + destruct (cmem c cache); [apply IH; auto|]. rewrite (ink_out c O). cbn [obind]. rewrite Ks. apply IH; auto.
      + rewrite Ks. apply IH; auto.
    - rewrite (cvalue_trans _ _ _ _ (ink_fwd c O K)). cbv zeta. cbn [map existsb fst snd].
      destruct (alookup_some_of_cmem c chs M) as (v & Ev). cbn [cvalue]. rewrite Ev.
      destruct (callk_forward c K) as (ks & Ks).
      destruct v as [v| |]; cbn [orb]; rewrite ?Ks.
      + apply IH; auto.
      + destruct (cmem c cache); [apply IH; auto|]. rewrite (ink_fwd c O K). cbn [obind]. rewrite Ks. apply IH; auto.
      + destruct (cmem c cache); [apply IH; auto|]. rewrite (ink_fwd c O K). cbn [obind]. rewrite Ks. apply IH; auto.
  Qed.

  Lemma outs_ok c : cmem c (cunion (cdiff (map fst chs) ins) outs) = true -> todo_ok c.
  Proof.
    rewrite cmem_cunion. unfold cdiff. rewrite cmem_filter. intros H. unfold todo_ok.
    destruct (cmem c outs) eqn:O; [left; reflexivity|right]. rewrite orb_false_r in H. apply andb_true_iff in H as [A B].
    apply negb_true_iff in B. auto.
  Qed.

  Theorem atom_leaf_linear_never_raises : wf_raises w = false /\ wf_raises (WRev w) = false.
  Proof.
    cbn [wf_raises wchans]. cbn [chain_outk tr_outk obind]. rewrite Hin. split.
    - apply scan_linear. intros c H. apply outs_ok. apply cmem_in. apply nsort_in. exact H.
    - apply not_true_is_false. intros H. apply existsb_exists in H as (c & Hc & H). apply cmem_in in Hc. apply outs_ok in Hc.
      destruct Hc as [O|(O & K & M)].
      + rewrite (ink_out c O) in H. cbn [obind] in H. destruct callk_inputs as (ks & Ks). rewrite Ks in H. discriminate.
      + rewrite (ink_fwd c O K) in H. cbn [obind] in H. destruct (callk_forward c K) as (ks & Ks). rewrite Ks in H. discriminate.
  Qed.
End atom_leaf_linear.
