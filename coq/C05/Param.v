(* C05 — parameters and scopes (definitions only, executable, no proofs).

   Model.v's `pt` is the CLOSED template (every number evaluated, ForLoopPT unrolled).  This file puts the part of the
   code that gets from a parametrised template to those numbers inside the model:

     parameter_scope.py     DictScope (`scope_of`), MappedScope (`smap`: every mapped name is evaluated in the OUTER scope,
                            simultaneously; unmapped names pass through)
     pulses/range.py        RangeScope (`sbind`), ParametrizedRange.to_range (`zrange`)
     program/loop.py        LoopBuilder._stack / StackFrame.iterating (`its`), LoopBuilder.inner_scope (looks at the TOP
                            frame only), with_iteration (writes the index into its own frame), with_repetition /
                            with_sequence (frames that do not iterate), new_subprogram / time_reversed (a fresh builder:
                            fresh stack)
     pulses/*               scope threading of every _internal_create_program: ForLoopPT and RepetitionPT hand their body
                            `program_builder.inner_scope(scope)`, MappingPT hands `map_scope(scope)`, all others `scope`
     pulses/multi_channel_pulse_template.py   AtomicMultiChannelPT.build_waveform / get_measurement_windows (`pamc_parts`)
     pulses/table_pulse_template.py + waveforms.TableWaveform.from_table  (constant detection, `table_chdef`)
     pulses/function_pulse_template.py + FunctionWaveform.from_expression (`AFun` with slope 0 is a ConstantWaveform)

   `ppt` = parametrised template; expressions are affine in the parameters (all the generator writes).
   `inst sc q` = the closed template under scope sc; `internal_q` = the code's scope threading, with the builder's
   frame stack as an explicit argument.  ProofsP.v proves internal_q = internal o inst for every stack. *)
From Coq Require Import List ZArith QArith Qround Bool.
Require Import QV.C05.Model.
Import ListNotations.
Open Scope Z_scope.

Definition pname := N.
Inductive expr := EAff (c : Q) (ts : list (pname * Q)).          (* c + sum k_j * x_j *)
Definition scope := pname -> Q.

Fixpoint eval_terms (sc : scope) (ts : list (pname * Q)) : Q :=
  match ts with
  | [] => 0%Q
  | (x, k) :: r => (k * sc x + eval_terms sc r)%Q
  end.
Definition eval (sc : scope) (e : expr) : Q := let '(EAff c ts) := e in Qred (c + eval_terms sc ts).
(* times are written in ticks; every generated time evaluates to an integer *)
Definition eval_t (sc : scope) (e : expr) : Z := Qfloor (eval sc e).

(* DictScope of the parameters handed to create_program (a name that is not provided reads 0: the generator never
   refers to one) *)
Definition scope_of (ps : list (pname * Q)) : scope := fun x => match alookup x ps with Some v => v | None => 0%Q end.
(* RangeScope(inner, index_name, index_value) *)
Definition sbind (sc : scope) (x : pname) (v : Z) : scope := fun y => if N.eqb y x then inject_Z v else sc y.
(* MappedScope(scope, mapping) *)
Definition smap (sc : scope) (pm : list (pname * expr)) : scope :=
  fun y => match alookup y pm with Some e => eval sc e | None => sc y end.

(* range(start, stop, step) *)
Definition zrange (start stop step : Z) : list Z :=
  let n := if 0 <? step then (stop - start + step - 1) / step
           else if step <? 0 then (start - stop - step - 1) / (- step) else 0 in
  map (fun k => start + Z.of_nat k * step) (seq 0 (Z.to_nat n)).

(* ---- parametrised templates ---- *)
Definition pwin := (N * expr * expr)%type.           (* name, begin, length (ticks) *)
Inductive patom :=
| AConst (d : expr) (vals : list (chan * expr))                       (* ConstantPT *)
| ATable (chs : list (chan * list (expr * expr * interp)))            (* TablePT: (time, value, strategy) *)
| AFun (c : chan) (d : expr) (a : Q) (b : expr).                      (* FunctionPT 'a*t + b' (a per tick) *)
Inductive pscalar := QAll (v : expr) | QSMap (m : list (chan * expr)).

(* atomic templates: a plain one (with its measurement declarations), or AtomicMultiChannelPT(subs, measurements=m)
   whose sub-templates are atomic templates again (with_parallel_atomic on a named receiver nests) *)
Inductive pamc :=
| MLeaf (m : list pwin) (a : patom)
| MNode (m : list pwin) (subs : list pamc).

Inductive ppt :=
| QAtom (id : N) (a : pamc)
| QSeq (id : N) (meas : list pwin) (subs : list ppt)
| QRep (id : N) (meas : list pwin) (n : nat) (body : ppt)
| QFor (id : N) (meas : list pwin) (idx : pname) (start stop step : Z) (body : ppt)
| QMap (id : N) (ren : list (chan * chan)) (mren : list (N * N)) (pm : list (pname * expr)) (sub : ppt)
| QPar (id : N) (ov : list (chan * expr)) (sub : ppt)
| QArith (id : N) (op : aop) (pt_left : bool) (s : pscalar) (sub : ppt)
| QRev (id : N) (sub : ppt).

Definition qid (q : ppt) : N :=
  match q with
  | QAtom i _ | QSeq i _ _ | QRep i _ _ _ | QFor i _ _ _ _ _ _ | QMap i _ _ _ _ | QPar i _ _ | QArith i _ _ _ _
  | QRev i _ => i
  end.

Definition inst_wins (sc : scope) (m : list pwin) : list win :=
  map (fun w : pwin => let '(n, b, l) := w in (n, eval_t sc b, eval_t sc l)) m.

(* TableWaveform.from_table: a ConstantWaveform when every segment is constant (hold: start value, jump: end value,
   linear: equal ends) with one common value *)
Definition seg_const (v1 v2 : Q) (ip : interp) : option Q :=
  match ip with
  | IHold => Some v1
  | IJump => Some v2
  | ILinear => if q_eqb v1 v2 then Some v1 else None
  end.
Fixpoint segs (e1 : entry) (rest : list entry) : list (option Q) :=
  match rest with
  | [] => []
  | e2 :: r => seg_const (snd (fst e1)) (snd (fst e2)) (snd e2) :: segs e2 r
  end.
Definition table_chdef (es : list entry) : chdef :=
  match es with
  | e1 :: rest =>
      match segs e1 rest with
      | Some v :: r => if forallb (fun s => match s with Some v' => q_eqb v v' | None => false end) r
                       then CConst (Some v) else CTable es
      | _ => CTable es
      end
  | [] => CTable es
  end.
Definition last_time (es : list entry) : Z := match rev es with e :: _ => fst (fst e) | [] => 0 end.

(* duration (ticks) and channel definitions of the waveform one sub-atom builds *)
Definition patom_parts (sc : scope) (a : patom) : Z * list (chan * chdef) :=
  match a with
  | AConst d vals => (eval_t sc d, map (fun cv => (fst cv, CConst (Some (eval sc (snd cv))))) vals)
  | ATable chs =>
      let inst_es := map (fun e : expr * expr * interp => let '(t, v, ip) := e in (eval_t sc t, eval sc v, ip)) in
      (match chs with (_, es) :: _ => last_time (inst_es es) | [] => 0 end,
       map (fun ce => (fst ce, table_chdef (inst_es (snd ce)))) chs)
  | AFun c d a b =>
      (eval_t sc d, [(c, if Qeq_bool a 0 then CConst (Some (eval sc b)) else CFun a (eval sc b))])
  end.

Fixpoint cinsert (x : chan * chdef) (l : list (chan * chdef)) : list (chan * chdef) :=
  match l with [] => [x] | y :: r => if N.leb (fst x) (fst y) then x :: l else y :: cinsert x r end.

(* windows, duration and channels of the waveform an atomic template builds.  AtomicMultiChannelPT: windows = own +
   every sub-template's; a sub-template of duration <= 0 builds no waveform and is left out;
   MultiChannelWaveform.from_parallel = one waveform over the union of the channels (kept sorted by channel) *)
Definition amc_step (x : list win * Z * list (chan * chdef)) (acc : list win * Z * list (chan * chdef)) :=
  let '(w, d, cs) := acc in
  let '(w1, d1, c1) := x in
  if d1 <=? 0 then (w1 ++ w, d, cs) else (w1 ++ w, d1, fold_right cinsert cs c1).
Fixpoint pamc_parts (sc : scope) (a : pamc) : list win * Z * list (chan * chdef) :=
  match a with
  | MLeaf m a => let '(d, cs) := patom_parts sc a in (inst_wins sc m, d, cs)
  | MNode m subs =>
      let '(w, d, cs) := (fix go (l : list pamc) : list win * Z * list (chan * chdef) :=
                            match l with
                            | [] => ([], 0, [])
                            | x :: r => amc_step (pamc_parts sc x) (go r)
                            end) subs in
      (inst_wins sc m ++ w, d, cs)
  end.

Definition inst_scalar (sc : scope) (s : pscalar) : scalar :=
  match s with
  | QAll v => SAll (eval sc v)
  | QSMap m => SMap (map (fun cv => (fst cv, eval sc (snd cv))) m)
  end.
Definition inst_ov (sc : scope) (ov : list (chan * expr)) : list (chan * Q) := map (fun cv => (fst cv, eval sc (snd cv))) ov.

Definition inst_atom (sc : scope) (i : N) (a : pamc) : pt :=
  let '(w, d, cs) := pamc_parts sc a in PAtom i w d cs.

(* the closed template a parametrised template denotes under a scope *)
Fixpoint inst (sc : scope) (q : ppt) : pt :=
  match q with
  | QAtom i a => inst_atom sc i a
  | QSeq i meas subs => PSeq i (inst_wins sc meas) (map (inst sc) subs)
  | QRep i meas n body => PRep i (inst_wins sc meas) n (inst sc body)
  | QFor i meas x a b s body => PSeq i (inst_wins sc meas) (map (fun v => inst (sbind sc x v) body) (zrange a b s))
  | QMap i ren mren pm sub => PMap i ren mren (inst (smap sc pm) sub)
  | QPar i ov sub => PPar i (inst_ov sc ov) (inst sc sub)
  | QArith i op l s sub => PArith i op l (inst_scalar sc s) (inst sc sub)
  | QRev i sub => PRev i (inst sc sub)
  end.

(* ---------------------------------------------------------------------------------------------------------------- *)
(* the code's scope threading.  `its` = LoopBuilder._stack read as the `iterating` fields, top first *)
Definition frames := list (option (pname * Z)).
Definition fresh : frames := [None].                        (* LoopBuilder(): the root frame *)

(* LoopBuilder.inner_scope: only the top frame counts *)
Definition inner_scope (its : frames) (sc : scope) : scope :=
  match its with
  | Some (x, v) :: _ => sbind sc x v
  | _ => sc
  end.

Definition create_q (S : list N)
           (rec : ppt -> scope -> (chan -> chan) -> (N -> N) -> list trafo -> frames -> bst -> bst)
           (q : ppt) (sc : scope) (cm : chan -> chan) (mm : N -> N) (G : list trafo) (its : frames) (b : bst) : bst :=
  if in_S S (qid q) then new_subprogram b G (rec q sc cm mm [] fresh b_empty) else rec q sc cm mm G its b.

Fixpoint internal_q (S : list N) (q : ppt) (sc : scope) (cm : chan -> chan) (mm : N -> N) (G : list trafo)
         (its : frames) (b : bst) : bst :=
  match q with
  | QAtom _ a =>
      let '(w, d, cs) := pamc_parts sc a in
      if (d <=? 0) || match cs with [] => true | _ => false end then b
      else play_atom b (mwins mm w) (WAtom d (map (fun cd => (cm (fst cd), snd cd)) cs)) G
  | QSeq _ meas subs =>          (* with_sequence pushes a frame that does not iterate *)
      b_pop (fold_left (fun b' s => create_q S (internal_q S) s sc cm mm G (None :: its) b') subs
                       (b_push b (mwins mm (inst_wins sc meas))))
  | QRep _ meas n body =>        (* with_repetition pushes a frame that does not iterate; body scope = inner_scope *)
      match n with
      | O => b
      | _ => let its' := None :: its in
             let inner := create_q S (internal_q S) body (inner_scope its' sc) cm mm G its' b_empty in
             match b_ch inner with
             | [] => b
             | _ => b_append (b_measure b (mwins mm (inst_wins sc meas))) (Node n (b_meas inner) (b_ch inner))
             end
      end
  | QFor _ meas x a e s body =>  (* with_iteration: with_sequence frame whose `iterating` is set per value *)
      b_pop (fold_left (fun b' v => let its' := Some (x, v) :: its in
                                    create_q S (internal_q S) body (inner_scope its' sc) cm mm G its' b')
                       (zrange a e s) (b_push b (mwins mm (inst_wins sc meas))))
  | QMap _ ren mren pm s =>
      create_q S (internal_q S) s (smap sc pm) (fun c => cm (ren_get ren c)) (fun n => mm (ren_get mren n)) G its b
  | QPar _ ov s =>
      create_q S (internal_q S) s sc cm mm (G ++ [TParallel (map (fun cv => (cm (fst cv), snd cv)) (inst_ov sc ov))]) its b
  | QArith _ op l s sub =>
      (* defined_channels of the sub-template is read off its closed form (it does not depend on the scope in the code;
         the closed model answers [] for an unrolled empty loop, which plays nothing) *)
      create_q S (internal_q S) sub sc cm mm (arith_steps op l (inst_scalar sc s) (pt_chans (inst sc sub)) cm ++ G) its b
  | QRev _ s =>                  (* time_reversed: a fresh builder *)
      let inner := internal_q S s sc cm mm G fresh b_empty in
      match b_program inner with
      | None => b
      | Some prog => b_append b (reverse_loop prog)
      end
  end.

(* PulseTemplate.create_program(parameters = ps, to_single_waveform = S, global_transformation = G) *)
Definition compile_q (q : ppt) (ps : list (pname * Q)) (S : list N) (G : list trafo) : option loop :=
  b_program (create_q S (internal_q S) q (scope_of ps) (fun c => c) (fun n => n) G fresh b_empty).
