(* C05 — proofs, part 7 (lemmas only): towards with_repetition / `**` merging the counts of an unnamed
   measurement-free RepetitionPT; the constructor theorem itself is not finished *)
From Coq Require Import List ZArith QArith Bool Lia Sorting.Permutation.
Require Import QV.C05.Model QV.C05.Spec QV.C05.Proofs QV.C05.Proofs2 QV.C05.Proofs4 QV.C05.Proofs5 QV.C05.Ctors QV.C05.Proofs6.
Import ListNotations.
Open Scope Z_scope.

Lemma tile_shift m d : forall k j A, map (wshift (j * d)) (tile m d k A) = tile m d (k + j) A.
Proof.
  induction m; intros k j A; cbn [tile]; [reflexivity|]. rewrite map_app, map_wshift_wshift, IHm. f_equal.
  - apply map_ext. intros w. f_equal. lia.
  - f_equal. lia.
Qed.
Lemma tile_add a b d : forall k A, tile (a + b) d k A = tile a d k A ++ tile b d (k + Z.of_nat a) A.
Proof.
  induction a; intros k A; cbn [tile plus app].
  - f_equal. cbn. lia.
  - rewrite IHa, <- app_assoc. do 2 f_equal. f_equal. lia.
Qed.
Lemma tile_nest n m d A : forall k, tile n (Z.of_nat m * d) k (tile m d 0 A) = tile (n * m) d (k * Z.of_nat m) A.
Proof.
  induction n; intros k; cbn [tile Nat.mul]; [reflexivity|]. rewrite tile_add, IHn. f_equal.
  - rewrite Z.mul_assoc, tile_shift. f_equal.
  - f_equal. lia.
Qed.

Lemma concat_repeat_repeat {A} (x : A) m n : concat (repeat (repeat x m) n) = repeat x (n * m).
Proof. induction n; cbn [repeat concat Nat.mul]; [reflexivity|]. rewrite IHn, <- repeat_app. reflexivity. Qed.

Lemma walk_repeat_nest d f m n t : 0 <= d ->
  walk (repeat (d, f) (n * m)) 0 t = walk (repeat (Z.of_nat m * d, fun t' => walk (repeat (d, f) m) 0 t') n) 0 t.
Proof.
  intros Hd. rewrite <- concat_repeat_repeat, walk_concat.
  - rewrite map_repeat'. unfold group. rewrite total_repeat. reflexivity.
  - apply Forall_forall. intros g Hg. apply repeat_spec in Hg. subst g. apply Forall_forall. intros x Hx.
    apply repeat_spec in Hx. subst x. exact Hd.
Qed.

(* NEXT (not finished in round 2): rep_step / ctor_rep_merge
     same_prog (compile (PRep i [] (m * n) body) [] G) (compile (PRep i [] n (PRep j [] m body)) [] G)
   from the two lemmas above via framed_ma + brel_place: Node (m*n) W K against Node n [] [Node m W K]
   (windows: tile_nest, voltages: cplay_single_node twice + walk_repeat_nest). *)
