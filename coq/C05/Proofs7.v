(* C05 — proofs, part 7 (lemmas only): towards with_repetition / `**` merging the counts of an unnamed
   measurement-free RepetitionPT; the constructor theorem itself is not finished *)
From Coq Require Import List ZArith QArith Bool Lia Sorting.Permutation.
Require Import QV.C05.Model QV.C05.Spec QV.C05.Proofs QV.C05.Proofs2 QV.C05.Proofs4 QV.C05.Proofs5 QV.C05.Ctors QV.C05.Proofs6.
Import ListNotations.
Open Scope Z_scope.

Lemma tile_shift m d : forall k j A, map (wshift (j * d)) (tile m d k A) = tile m d (k + j) A.
Proof.
  induction m; intros k j A; cbn [tile]; [reflexivity|]. rewrite map_app, map_wshift_wshift, IHm. f_equal.
  - apply map_ext. intros w. f_equal. lia.
  - f_equal. lia.
Qed.
Lemma tile_add a b d : forall k A, tile (a + b) d k A = tile a d k A ++ tile b d (k + Z.of_nat a) A.
Proof.
  induction a; intros k A; cbn [tile plus app].
  - f_equal. cbn. lia.
  - rewrite IHa, <- app_assoc. do 2 f_equal. f_equal. lia.
Qed.
Lemma tile_nest n m d A : forall k, tile n (Z.of_nat m * d) k (tile m d 0 A) = tile (n * m) d (k * Z.of_nat m) A.
Proof.
  induction n; intros k; cbn [tile Nat.mul]; [reflexivity|]. rewrite tile_add, IHn. f_equal.
  - rewrite Z.mul_assoc, tile_shift. f_equal.
  - f_equal. lia.
Qed.

Lemma concat_repeat_repeat {A} (x : A) m n : concat (repeat (repeat x m) n) = repeat x (n * m).
Proof. induction n; cbn [repeat concat Nat.mul]; [reflexivity|]. rewrite IHn, <- repeat_app. reflexivity. Qed.

Lemma walk_repeat_nest d f m n t : 0 <= d ->
  walk (repeat (d, f) (n * m)) 0 t = walk (repeat (Z.of_nat m * d, fun t' => walk (repeat (d, f) m) 0 t') n) 0 t.
Proof.
  intros Hd. rewrite <- concat_repeat_repeat, walk_concat.
  - rewrite map_repeat'. unfold group. rewrite total_repeat. reflexivity.
  - apply Forall_forall. intros g Hg. apply repeat_spec in Hg. subst g. apply Forall_forall. intros x Hx.
    apply repeat_spec in Hx. subst x. exact Hd.
Qed.

Lemma concat_repeat_nest {A} (x : list A) m n : concat (repeat (concat (repeat x m)) n) = concat (repeat x (n * m)).
Proof. induction n; cbn [repeat concat Nat.mul]; [reflexivity|]. rewrite IHn, repeat_app, concat_app. reflexivity. Qed.

(* the two program nodes: one repetition of m*n against n repetitions of a node repeating m times *)
Lemma flat_rep_nest m n W W' K : flat (Node n W' [Node m W K]) = flat (Node (m * n) W K).
Proof. cbn [flat flat_map]. rewrite app_nil_r, concat_repeat_nest, Nat.mul_comm. reflexivity. Qed.
Lemma windows_rep_nest m n W K : windows (Node n [] [Node m W K]) = windows (Node (m * n) W K).
Proof.
  rewrite (windows_node n), (windows_node (m * n)). cbn [app]. rewrite cwins_single, windows_node.
  rewrite body_dur_cons, ldur_node. change (body_dur []) with 0. rewrite Z.add_0_r, tile_nest, Nat.mul_comm. reflexivity.
Qed.
Lemma krel_rep_nest m n W K : krel [Node (m * n) W K] [Node n [] [Node m W K]].
Proof.
  split; [|split; [split; discriminate|]].
  - rewrite !body_dur_cons, !ldur_node, body_dur_cons, ldur_node. change (body_dur []) with 0. rewrite Nat2Z.inj_mul. lia.
  - intros c t _. unfold cplay. cbn [flat_map]. rewrite !app_nil_r, flat_rep_nest. reflexivity.
Qed.

Lemma b_measure_nil_empty : b_measure b_empty [] = b_empty.
Proof. reflexivity. Qed.

(* RepetitionPT.with_repetition / `**` on an unnamed, measurement-free RepetitionPT: the counts are multiplied *)
Lemma rep_step i j m n body cm mm G b b' : brel b b' ->
  brel (internal [] (PRep i [] (m * n) body) cm mm G b) (internal [] (PRep i [] n (PRep j [] m body)) cm mm G b').
Proof.
  intros H. cbn [internal mwins map]. rewrite !create_nil.
  set (inner := internal [] body cm mm G b_empty).
  assert (LK : Forall lok (b_ch inner)) by (apply internal_lok; constructor).
  destruct n as [|n'].
  - rewrite Nat.mul_0_r. exact H.
  - destruct m as [|m'].
    + cbn [Nat.mul internal]. exact H.
    + cbn [internal mwins map]. rewrite !create_nil. fold inner. cbn [Nat.mul plus].
      destruct (b_ch inner) as [|x K] eqn:E.
      * cbn [b_ch b_empty]. exact H.
      * change (b_ch (b_append (b_measure b_empty []) (Node (S m') (b_meas inner) (x :: K))))
          with [Node (S m') (b_meas inner) (x :: K)].
        change (b_meas (b_append (b_measure b_empty []) (Node (S m') (b_meas inner) (x :: K)))) with (@nil win).
        set (L := Node (S (n' + m' * S n')) (b_meas inner) (x :: K)).
        set (L' := Node (S n') [] [Node (S m') (b_meas inner) (x :: K)]).
        pose proof (framed_ma L []) as FL. pose proof (framed_ma L' []) as FL'.
        assert (EL : S (n' + m' * S n') = (S m' * S n')%nat) by reflexivity.
        apply (brel_beq _ _ _ _ (proj2 FL b) (proj2 FL' b')).
        assert (LL : lok L) by (unfold L; apply lok_node; split; [lia|]; split; [discriminate|exact LK]).
        assert (LL' : lok L').
        { unfold L'. apply lok_node. split; [lia|]. split; [discriminate|]. constructor; [|constructor].
          apply lok_node. split; [lia|]. split; [discriminate|exact LK]. }
        apply brel_place; auto.
        split.
        -- unfold L, L'. rewrite EL. apply krel_rep_nest.
        -- cbn [app]. rewrite !cwins_single. unfold L, L'. rewrite EL, windows_rep_nest. apply Permutation_refl.
Qed.

Theorem ctor_rep_merge : forall i j m n body G,
  same_prog (compile (PRep i [] (m * n) body) [] G) (compile (PRep i [] n (PRep j [] m body)) [] G).
Proof.
  intros. unfold compile. apply same_prog_brel. rewrite !create_nil. apply rep_step. apply brel_empty.
Qed.

(* the constructor as modelled in Ctors.v: merged only when the receiver is an unnamed measurement-free repetition *)
Theorem ctor_rep_same : forall i u n p G, same_prog (compile (ctor_rep i u n p) [] G) (compile (PRep i [] n p) [] G).
Proof.
  intros i u n p G.
  assert (R : same_prog (compile (PRep i [] n p) [] G) (compile (PRep i [] n p) [] G)).
  { unfold compile. apply same_prog_brel. rewrite !create_nil. apply internal_cong. apply brel_empty. }
  destruct p as [a m d chs|a m subs|j m k body|a ren mren s|a ov s|a op l sc s|a s]; try exact R.
  cbn [ctor_rep]. destruct m; [|exact R]. destruct u; [|exact R]. apply ctor_rep_merge.
Qed.
