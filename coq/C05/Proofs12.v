(* C05 — round 5: the measurement windows (and the duration) of the compiled program do not depend on the global
   transformation, for every template, every set of collapsed nodes and every chain - no guard (Proofs4.internal_ss:
   transformations never reach durations, repetition counts or windows). *)
From Coq Require Import List ZArith QArith Bool Lia.
Require Import QV.C05.Model QV.C05.Spec QV.C05.Proofs QV.C05.Proofs2 QV.C05.Proofs4.
Import ListNotations.
Open Scope Z_scope.

Lemma global_transformation_windows : forall p S G G',
  match compile p S G, compile p S G' with
  | Some l, Some l' => ldur l = ldur l' /\ windows l = windows l'
  | None, None => True
  | _, _ => False
  end.
Proof.
  intros p S G G'. unfold compile, b_program.
  destruct (create_ss S p (internal_ss S p) (fun c => c) (fun n => n) G G' b_empty b_empty bss_empty) as (A & B & C).
  destruct A as [|x x' K K' Hx HK]; [exact I|].
  apply ss_dur_windows. rewrite B. constructor. constructor; auto.
Qed.

(* non-vacuity: a template with windows on several levels, a collapsed repetition and a channel-mixing chain compiles,
   and its windows are not empty *)
Definition w_windows : pt :=
  PSeq 1 [(1%N, 0, 1)] [PAtom 2 [(2%N, 0, 1)] 2 [(1%N, CConst (Some 1%Q))];
                        PRep 3 [(1%N, 1, 1)] 2 (PAtom 4 [(2%N, 1, 1)] 2 [(1%N, CTable [(0, 0%Q, IHold); (2, 4%Q, ILinear)])])].
Lemma windows_nonvacuous :
  exists l, compile w_windows [3%N] [TLinear [1%N] [3%N] [[2%Q]]] = Some l /\ length (windows l) = 5%nat.
Proof. eexists. split; vm_compute; reflexivity. Qed.
