(* C05 — proofs, part 9: with_parallel_atomic.  On an unnamed AtomicMultiChannelPT receiver the new atoms are appended
   to its sub-templates (measurements kept); this builds the same closed atom — hence the same program — as the explicit
   nesting AtomicMultiChannelPT(receiver, *new), provided the channels of the receiver's sub-templates are pairwise
   different (the constructor of AtomicMultiChannelPT rejects anything else). *)
From Coq Require Import List ZArith QArith Bool Lia Sorting.Permutation.
Require Import QV.C05.Model QV.C05.Spec QV.C05.Param QV.C05.Proofs QV.C05.ProofsP.
Import ListNotations.
Open Scope Z_scope.

(* ---- insertion into the channel list commutes for different channels (any list, sorted or not) ---- *)
Lemma cinsert_comm x y l : fst x <> fst y -> cinsert x (cinsert y l) = cinsert y (cinsert x l).
Proof.
  intros H. induction l as [|z r IH]; cbn [cinsert].
  - destruct (N.leb_spec (fst x) (fst y)), (N.leb_spec (fst y) (fst x)); try reflexivity; exfalso; apply H; lia.
  - destruct (N.leb_spec (fst y) (fst z)) as [A|A], (N.leb_spec (fst x) (fst z)) as [B|B]; cbn [cinsert].
    + destruct (N.leb_spec (fst x) (fst y)), (N.leb_spec (fst y) (fst x)); try (exfalso; apply H; lia);
        repeat match goal with |- context [N.leb ?a ?b] => destruct (N.leb_spec a b); try lia end; reflexivity.
    + repeat match goal with |- context [N.leb ?a ?b] => destruct (N.leb_spec a b); try lia end; reflexivity.
    + repeat match goal with |- context [N.leb ?a ?b] => destruct (N.leb_spec a b); try lia end; reflexivity.
    + repeat match goal with |- context [N.leb ?a ?b] => destruct (N.leb_spec a b); try lia end. rewrite IH. reflexivity.
Qed.

Lemma cinsert_perm x l : Permutation (cinsert x l) (x :: l).
Proof.
  induction l as [|z r IH]; cbn [cinsert]; [apply Permutation_refl|]. destruct (N.leb (fst x) (fst z)); [apply Permutation_refl|].
  eapply Permutation_trans; [apply perm_skip; exact IH|]. apply perm_swap.
Qed.
Lemma csort_perm base l : Permutation (fold_right cinsert base l) (l ++ base).
Proof.
  induction l as [|x l IH]; cbn [fold_right app]; [apply Permutation_refl|].
  eapply Permutation_trans; [apply cinsert_perm|]. apply perm_skip. exact IH.
Qed.

Lemma csort_invariant base l l' : Permutation l l' -> NoDup (map fst l) ->
  fold_right cinsert base l = fold_right cinsert base l'.
Proof.
  intros HP. induction HP as [|x l l' HP IH|x y l|l l' l'' HP1 IH1 HP2 IH2]; intros ND; cbn [fold_right map] in *.
  - reflexivity.
  - inversion ND; subst. rewrite IH; auto.
  - apply cinsert_comm. inversion ND as [|? ? N1 N2]; subst. intros E. apply N1. left. auto.
  - rewrite IH1 by exact ND. apply IH2. eapply Permutation_NoDup; [apply Permutation_map; exact HP1|exact ND].
Qed.

(* inserting the sorted version of l = inserting l *)
Lemma csort_twice base l : NoDup (map fst l) ->
  fold_right cinsert base (fold_right cinsert [] l) = fold_right cinsert base l.
Proof.
  intros ND. symmetry. apply csort_invariant; [|exact ND].
  apply Permutation_sym. rewrite <- (app_nil_r l) at 2. apply csort_perm.
Qed.

(* ---- the fold of AtomicMultiChannelPT over its sub-templates, component by component ---- *)
Definition amc_go (sc : scope) (l : list pamc) : list win * Z * list (chan * chdef) :=
  fold_right (fun x acc => amc_step (pamc_parts sc x) acc) ([], 0, []) l.
Lemma pamc_parts_node sc m subs :
  pamc_parts sc (MNode m subs) = let '(w, d, cs) := amc_go sc subs in (inst_wins sc m ++ w, d, cs).
Proof.
  cbn [pamc_parts]. unfold amc_go.
  assert (E : (fix go (l : list pamc) : list win * Z * list (chan * chdef) :=
                 match l with [] => ([], 0, []) | x :: r => amc_step (pamc_parts sc x) (go r) end) subs
            = fold_right (fun x acc => amc_step (pamc_parts sc x) acc) ([], 0, []) subs).
  { induction subs as [|x r IH]; [reflexivity|]. cbn [fold_right]. rewrite <- IH. reflexivity. }
  rewrite E. reflexivity.
Qed.

(* channels contributed by the sub-templates that build a waveform, in order *)
Definition sub_chans (sc : scope) (x : pamc) : list (chan * chdef) :=
  let '(_, d, c) := pamc_parts sc x in if d <=? 0 then [] else c.
Definition amc_chans (sc : scope) (l : list pamc) : list (chan * chdef) := flat_map (sub_chans sc) l.
Definition sub_wins (sc : scope) (x : pamc) : list win := fst (fst (pamc_parts sc x)).

Lemma fold_step sc l : forall acc,
  fold_right (fun x a => amc_step (pamc_parts sc x) a) acc l
  = (flat_map (sub_wins sc) l ++ fst (fst acc),
     (let d := snd (fst (amc_go sc l)) in if d <=? 0 then snd (fst acc) else d),
     fold_right cinsert (snd acc) (amc_chans sc l)).
Proof.
  unfold amc_chans, sub_wins, sub_chans, amc_go.
  induction l as [|x r IH]; intros [[w d] cs]; cbn [fold_right flat_map app fst snd].
  - reflexivity.
  - rewrite IH. rewrite (IH ([], 0, [])). cbn [fst snd].
    destruct (pamc_parts sc x) as [[w1 d1] c1]. cbn [fst snd].
    set (dr := snd (fst (fold_right (fun (x0 : pamc) (acc : list win * Z * list (chan * chdef)) => amc_step (pamc_parts sc x0) acc)
                                    ([], 0, []) r))).
    unfold amc_step. destruct (d1 <=? 0) eqn:D1; cbn [fst snd app].
    + rewrite <- app_assoc. destruct (dr <=? 0) eqn:DR; cbn [Z.leb Z.compare]; rewrite ?DR; reflexivity.
    + rewrite D1, <- app_assoc, fold_right_app. reflexivity.
Qed.

Lemma amc_go_parts sc l :
  amc_go sc l = (flat_map (sub_wins sc) l, snd (fst (amc_go sc l)), fold_right cinsert [] (amc_chans sc l)).
Proof.
  unfold amc_go at 1. rewrite fold_step. cbn [fst snd]. rewrite app_nil_r.
  destruct (snd (fst (amc_go sc l)) <=? 0) eqn:E; [|reflexivity].
  f_equal. f_equal.
  (* the duration is never negative at the top: it is 0 or a positive sub-duration *)
  assert (H : forall l, 0 <= snd (fst (amc_go sc l))).
  { clear. induction l as [|x r IH]; cbn; [lia|]. fold (amc_go sc r). destruct (amc_go sc r) as [[w d] cs].
    destruct (pamc_parts sc x) as [[w1 d1] c1]. cbn [amc_step fst snd] in *. destruct (d1 <=? 0) eqn:D; cbn [fst snd]; [exact IH|].
    apply Z.leb_gt in D. lia. }
  apply Z.leb_le in E. specialize (H l). lia.
Qed.

(* with_parallel_atomic on an unnamed receiver: AtomicMultiChannelPT( *subs, *new, measurements=m) builds the
   same closed atom as AtomicMultiChannelPT(AtomicMultiChannelPT( *subs, measurements=m), *new) *)
Theorem paratomic_parts sc m subs new : NoDup (map fst (amc_chans sc subs)) ->
  pamc_parts sc (MNode m (subs ++ new)) = pamc_parts sc (MNode [] (MNode m subs :: new)).
Proof.
  intros ND. rewrite !pamc_parts_node. unfold amc_go. rewrite fold_right_app. cbn [fold_right].
  fold (amc_go sc new). rewrite fold_step. rewrite (pamc_parts_node sc m subs). rewrite (amc_go_parts sc subs).
  destruct (amc_go sc new) as [[wn dn] cn]. cbn [fst snd amc_step inst_wins map app].
  set (ds := snd (fst (amc_go sc subs))).
  destruct (ds <=? 0) eqn:D; cbn [fst snd].
  - rewrite <- app_assoc. f_equal. f_equal.
    (* no sub-template of the receiver builds a waveform: nothing to insert *)
    assert (E : amc_chans sc subs = []).
    { clear -D. subst ds. induction subs as [|x r IH]; [reflexivity|]. unfold amc_chans. cbn [flat_map]. fold (amc_chans sc r).
      cbn [amc_go fold_right] in D. fold (amc_go sc r) in D. unfold sub_chans. destruct (pamc_parts sc x) as [[w1 d1] c1].
      destruct (amc_go sc r) as [[w d] cs] eqn:G. cbn [amc_step] in D. destruct (d1 <=? 0) eqn:D1; cbn [fst snd] in D.
      - cbn [app]. apply IH. exact D.
      - exfalso. apply Z.leb_gt in D1. apply Z.leb_le in D. lia. }
    rewrite E. reflexivity.
  - rewrite <- app_assoc. f_equal. rewrite csort_twice by exact ND. reflexivity.
Qed.

Theorem ctor_paratomic_param : forall i m subs new ps S G, NoDup (map fst (amc_chans (scope_of ps) subs)) ->
  compile_q (QAtom i (MNode m (subs ++ new))) ps S G = compile_q (QAtom i (MNode [] (MNode m subs :: new))) ps S G.
Proof.
  intros i m subs new ps S G ND. rewrite !compile_q_inst. cbn [inst]. unfold inst_atom.
  rewrite (paratomic_parts (scope_of ps) m subs new ND). reflexivity.
Qed.
