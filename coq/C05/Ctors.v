(* C05 — what the convenience constructors do to a template, as functions on the model's template type
   (definitions only).  Template identifiers are not part of the model (node ids are equality classes), so "the
   receiver has no identifier" is an explicit boolean argument. *)
From Coq Require Import List ZArith QArith Bool Sorting.Permutation.
Require Import QV.C05.Model QV.C05.Spec.
Import ListNotations.
Open Scope Z_scope.

(* two compilations denote the same pulse: same duration, same windows (as a multiset), same voltages at every time *)
Definition same_prog (o o' : option loop) : Prop :=
  match o, o' with
  | Some l, Some l' => ldur l = ldur l' /\ Permutation (windows l) (windows l') /\
                       forall c t, 0 <= t < ldur l -> play l c t = play l' c t
  | None, None => True
  | _, _ => False
  end.

(* SequencePT.concatenate / `@` / with_appended: an argument that is a SequencePT without identifier, measurements
   and constraints is replaced by its subtemplates (sequence_pulse_template.py:84) *)
Definition concat_parts (a : bool * pt) : list pt :=
  match a with
  | (true, PSeq _ [] subs) => subs
  | (_, p) => [p]
  end.
Definition ctor_concat (i : N) (args : list (bool * pt)) : pt := PSeq i [] (flat_map concat_parts args).
Definition explicit_concat (i : N) (args : list (bool * pt)) : pt := PSeq i [] (map snd args).

(* pad_to: self when nothing is to be padded, else self @ ConstantPT(pad duration, final values) *)
Definition ctor_pad (i j : N) (unnamed : bool) (p : pt) (d : Z) (final : list (chan * chdef)) : pt :=
  if d =? 0 then p else ctor_concat i [(unnamed, p); (false, PAtom j [] d final)].
Definition explicit_pad (i j : N) (p : pt) (d : Z) (final : list (chan * chdef)) : pt :=
  PSeq i [] [p; PAtom j [] d final].

(* RepetitionPT.with_repetition / `**`: a RepetitionPT without identifier and measurements multiplies its count
   (repetition_pulse_template.py:78, after /repo f3735d5) *)
Definition ctor_rep (i : N) (unnamed : bool) (n : nat) (p : pt) : pt :=
  match p with
  | PRep _ [] m body => if unnamed then PRep i [] (m * n) body else PRep i [] n p
  | _ => PRep i [] n p
  end.

(* TimeReversalPT.with_time_reversal: without identifier the inner template is handed back *)
Definition ctor_rev (i : N) (unnamed : bool) (p : pt) : pt :=
  match p with
  | PRev _ inner => if unnamed then inner else PRev i p
  | _ => PRev i p
  end.

(* MappingPT(MappingPT(x, ..), ..): an inner mapping without identifier (and constraints) is merged *)
Definition ren_merge (r1 r2 : list (N * N)) : list (N * N) :=
  map (fun k => (k, ren_get r2 (ren_get r1 k))) (map fst r1 ++ map fst r2).
Definition ctor_map (i : N) (unnamed : bool) (ren mren : list (N * N)) (p : pt) : pt :=
  match p with
  | PMap _ r1 m1 x => if unnamed then PMap i (ren_merge r1 ren) (ren_merge m1 mren) x else PMap i ren mren p
  | _ => PMap i ren mren p
  end.

(* ParallelChannelPT.with_parallel_channels: without identifier the value dicts are merged, new values win
   ({**old, **values}); alookup takes the first match *)
Definition ctor_par (i : N) (unnamed : bool) (values : list (chan * Q)) (p : pt) : pt :=
  match p with
  | PPar _ old x => if unnamed then PPar i (values ++ old) x else PPar i values p
  | _ => PPar i values p
  end.

(* with_parallel_atomic: AtomicMultiChannelPT over atoms = one atom with the channel / window lists appended *)
Definition atom_par (a b : pt) : pt :=
  match a, b with
  | PAtom i m1 d c1, PAtom _ m2 _ c2 => PAtom i (m1 ++ m2) d (c1 ++ c2)
  | _, _ => a
  end.

(* with_iteration(idx, range) IS ForLoopPT(self, idx, range): the explicit nesting itself (in the model the unrolled
   sequence of the instantiated bodies), nothing is restructured *)
