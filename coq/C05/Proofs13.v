(* C05 — round 6: the two options TOGETHER against the plain run.  The property statement compares
   create_program(to_single_waveform=S, global_transformation=T) with the plain create_program(); the earlier theorems
   each moved one option only (S against [] at T = identity; T against identity at the same S).  Here they are chained
   into the one statement check_spec evaluates: same duration, same windows (multiset), voltages = T applied pointwise to
   the plain run - under both guards. *)
From Coq Require Import List ZArith QArith Bool Lia Sorting.Permutation.
Require Import QV.C05.Model QV.C05.Spec QV.C05.Param QV.C05.Proofs QV.C05.Proofs2 QV.C05.Proofs3 QV.C05.Proofs4 QV.C05.Proofs5
  QV.C05.ProofsP QV.C05.Proofs12.
Import ListNotations.
Open Scope Z_scope.

Lemma options_thm : forall p S G,
  guard_C05_single_waveform S p = true -> guard_C05_parallel_order G p = true ->
  match compile p S G, compile p [] [] with
  | Some l, Some l' => ldur l = ldur l' /\ Permutation (windows l) (windows l') /\
                       forall c t, 0 <= t < ldur l -> play l c t = chain_apply G (fun c' => play l' c' t) c
  | None, None => True
  | _, _ => False
  end.
Proof.
  intros p S G Hs Hg.
  pose proof (global_transformation_thm p S G Hg) as A.
  pose proof (single_waveform_thm p S Hs) as B.
  pose proof (global_transformation_windows p S G []) as C.
  destruct (compile p S G) as [l|], (compile p S []) as [m|], (compile p [] []) as [l'|]; try tauto.
  destruct A as [A1 A2], B as (B1 & B2 & B3), C as [C1 C2].
  split; [congruence|]. split; [rewrite C2; exact B2|].
  intros c t Ht. rewrite A2 by exact Ht. apply chain_apply_ext. intros k. apply B3. lia.
Qed.

Lemma options_param : forall q ps S G,
  guard_C05_single_waveform S (inst (scope_of ps) q) = true -> guard_C05_parallel_order G (inst (scope_of ps) q) = true ->
  match compile_q q ps S G, compile_q q ps [] [] with
  | Some l, Some l' => ldur l = ldur l' /\ Permutation (windows l) (windows l') /\
                       forall c t, 0 <= t < ldur l -> play l c t = chain_apply G (fun c' => play l' c' t) c
  | None, None => True
  | _, _ => False
  end.
Proof. intros q ps S G Hs Hg. rewrite !compile_q_inst. apply options_thm; assumption. Qed.

(* not vacuous: on w_good (arithmetic around a parallel channel, a reversal, a repetition) with three collapsed nodes and a
   chain of an offset and a channel-changing linear transformation both guards hold, both runs compile, the option run
   is a different program (fewer leaves) on a different channel set, and windows are present *)
Definition S_good : list N := [13%N; 14%N; 17%N].
Definition G_good : list trafo := [TOffset [(1%N, 1%Q)]; TLinear [1%N] [3%N] [[2%Q]]].
Lemma options_nonvacuous :
  guard_C05_single_waveform S_good w_good = true /\ guard_C05_parallel_order G_good w_good = true /\
  exists l l', compile w_good S_good G_good = Some l /\ compile w_good [] [] = Some l' /\
               (length (flat l) < length (flat l'))%nat /\ windows l' <> [] /\ play l 3%N 0 <> play l' 3%N 0.
Proof.
  split; [vm_compute; reflexivity|]. split; [vm_compute; reflexivity|].
  eexists. eexists. split; [vm_compute; reflexivity|]. split; [vm_compute; reflexivity|].
  split; [vm_compute; lia|]. split; vm_compute; discriminate.
Qed.
