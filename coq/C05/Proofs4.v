(* C05 — proofs, part 4: what a template does to ANY builder state is determined by what it does to the empty one
   ("frame" lemma: children appended exactly, windows up to order), and compiled programs are well-formed *)
From Coq Require Import List ZArith QArith Bool Lia Sorting.Permutation.
Require Import QV.C05.Model QV.C05.Spec QV.C05.Proofs QV.C05.Proofs2.
Import ListNotations.
Open Scope Z_scope.

(* ---- windows of a list of children, starting at an offset (the inner `go` of Model.windows) ---- *)
Fixpoint cwins (ch : list loop) (off : Z) : list win :=
  match ch with
  | [] => []
  | x :: r => map (wshift off) (windows x) ++ cwins r (off + ldur x)
  end.
Lemma windows_node rep meas ch : windows (Node rep meas ch) = tile rep (body_dur ch) 0 (meas ++ cwins ch 0).
Proof. reflexivity. Qed.

Lemma wshift_0 w : wshift 0 w = w.
Proof. destruct w as [[n b] l]. cbn. f_equal. f_equal. lia. Qed.
Lemma wshift_wshift a b w : wshift a (wshift b w) = wshift (b + a) w.
Proof. destruct w as [[n x] l]. cbn. f_equal. f_equal. lia. Qed.
Lemma map_wshift_0 l : map (wshift 0) l = l.
Proof. induction l; cbn; [reflexivity|]. rewrite wshift_0, IHl. reflexivity. Qed.
Lemma map_wshift_wshift a b l : map (wshift a) (map (wshift b) l) = map (wshift (b + a)) l.
Proof. rewrite map_map. apply map_ext. intros. apply wshift_wshift. Qed.

Lemma body_dur_app a b : body_dur (a ++ b) = body_dur a + body_dur b.
Proof. induction a as [|x a IH]; [reflexivity|]. rewrite <- app_comm_cons, !body_dur_cons, IH. lia. Qed.

Lemma cwins_shift K : forall off, cwins K off = map (wshift off) (cwins K 0).
Proof.
  induction K as [|x K IH]; intros off; cbn [cwins]; [reflexivity|].
  rewrite map_app, map_wshift_wshift, (IH (off + ldur x)), (IH (0 + ldur x)), map_wshift_wshift.
  f_equal. apply map_ext. intros w. f_equal. lia.
Qed.
Lemma cwins_app A B : forall off, cwins (A ++ B) off = cwins A off ++ cwins B (off + body_dur A).
Proof.
  induction A as [|x A IH]; intros off; cbn [cwins app].
  - f_equal. cbn. lia.
  - rewrite IH, <- app_assoc, body_dur_cons. do 3 f_equal. lia.
Qed.

(* ---- the effect of a template on a builder state ---- *)
Definition place (b : bst) (K : list loop) (W : list win) : bst :=
  match K with
  | [] => b
  | _ => mkB (b_ch b ++ K)
             (b_meas b ++ map (wshift (body_dur (b_ch b))) (concat (b_pend b) ++ W))
             (map (fun _ => []) (b_pend b))
  end.
Definition beq (b b' : bst) : Prop :=
  b_ch b = b_ch b' /\ b_pend b = b_pend b' /\ Permutation (b_meas b) (b_meas b').
Definition framed (F : bst -> bst) (K : list loop) (W : list win) : Prop :=
  (K = [] -> W = []) /\ forall b, beq (F b) (place b K W).

Lemma beq_refl b : beq b b. Proof. repeat split; auto. Qed.
Lemma beq_sym a b : beq a b -> beq b a.
Proof. intros (A & B & C). repeat split; auto. apply Permutation_sym; auto. Qed.
Lemma beq_trans a b c : beq a b -> beq b c -> beq a c.
Proof. intros (A & B & C) (A' & B' & C'). repeat split; try congruence. eapply Permutation_trans; eauto. Qed.

Lemma place_beq b b' K W : beq b b' -> beq (place b K W) (place b' K W).
Proof.
  intros (A & B & C). unfold place. destruct K; [repeat split; auto|]. unfold beq; cbn. rewrite A, B.
  repeat split; auto. apply Permutation_app_tail; auto.
Qed.

Lemma concat_map_nil {A B} (l : list B) : concat (map (fun _ => @nil A) l) = [].
Proof. induction l; cbn; auto. Qed.

Lemma place_place b K1 W1 K2 W2 : (K1 = [] -> W1 = []) -> (K2 = [] -> W2 = []) ->
  place (place b K1 W1) K2 W2 = place b (K1 ++ K2) (W1 ++ map (wshift (body_dur K1)) W2).
Proof.
  intros H1 H2. destruct K1 as [|x1 K1].
  - rewrite (H1 eq_refl). cbn [place app]. unfold place. destruct K2; [reflexivity|].
    change (body_dur []) with 0. rewrite map_wshift_0. reflexivity.
  - destruct K2 as [|x2 K2].
    + rewrite (H2 eq_refl). cbn [place map]. rewrite !app_nil_r. reflexivity.
    + unfold place. cbn [app b_ch b_meas b_pend]. rewrite concat_map_nil, map_map. cbn [app].
      rewrite <- !app_assoc. f_equal. f_equal. rewrite !map_app, <- !app_assoc. do 2 f_equal.
      rewrite map_wshift_wshift, body_dur_app. apply map_ext. intros w. f_equal. lia.
Qed.

Lemma framed_id : framed (fun b => b) [] [].
Proof. split; [auto|]. intros b. apply beq_refl. Qed.

Lemma framed_ext F F' K W : (forall b, F b = F' b) -> framed F K W -> framed F' K W.
Proof. intros E [A B]. split; auto. intros b. rewrite <- E. auto. Qed.

Lemma framed_comp F1 F2 K1 W1 K2 W2 : framed F1 K1 W1 -> framed F2 K2 W2 ->
  framed (fun b => F2 (F1 b)) (K1 ++ K2) (W1 ++ map (wshift (body_dur K1)) W2).
Proof.
  intros [E1 H1] [E2 H2]. split.
  - intros E. apply app_eq_nil in E as [A B]. rewrite (E1 A), (E2 B). reflexivity.
  - intros b. eapply beq_trans; [apply H2|]. rewrite <- place_place by auto. apply place_beq. apply H1.
Qed.

(* measure + append (atoms, repetitions, collapsed sub-programs) *)
Lemma framed_ma l m : framed (fun b => b_append (b_measure b m) l) [l] m.
Proof.
  split; [discriminate|]. intros [ch meas pend]. unfold place, beq, b_append, b_measure. cbn [b_ch b_meas b_pend].
  destruct pend as [|p r]; cbn [b_ch b_meas b_pend concat map app].
  - repeat split. rewrite app_nil_r. apply Permutation_refl.
  - repeat split. apply Permutation_app_head. apply Permutation_map.
    rewrite <- !app_assoc. apply Permutation_app_head. apply Permutation_app_comm.
Qed.
Lemma framed_a l : framed (fun b => b_append b l) [l] [].
Proof.
  split; [discriminate|]. intros [ch meas pend]. unfold place, beq, b_append. cbn [b_ch b_meas b_pend].
  rewrite app_nil_r. repeat split. apply Permutation_refl.
Qed.

Lemma framed_push_pop F K W m : framed F K W ->
  framed (fun b => b_pop (F (b_push b m))) K (match K with [] => [] | _ => m ++ W end).
Proof.
  intros [E H]. split; [intros ->; reflexivity|]. intros b. destruct (H (b_push b m)) as (A & B & C).
  destruct K as [|x K].
  - cbn [place] in *. unfold beq, b_pop. cbn [b_ch b_meas b_pend] in *. rewrite B. repeat split; auto.
  - unfold place, beq, b_pop in *. cbn [b_ch b_meas b_pend b_push concat map tl] in *. rewrite B. repeat split; auto.
    eapply Permutation_trans; [exact C|]. apply Permutation_app_head. apply Permutation_map.
    rewrite <- !app_assoc. rewrite app_assoc. rewrite (app_assoc (concat (b_pend b))).
    apply Permutation_app_tail. apply Permutation_app_comm.
Qed.

Definition sub_prog (inner : bst) : loop := Node 1 (b_meas inner) (b_ch inner).
Lemma framed_new_subprogram X inner :
  framed (fun b => new_subprogram b X inner)
         (match b_ch inner with [] => [] | _ => [Leaf (with_global (to_waveform (sub_prog inner)) X)] end)
         (match b_ch inner with [] => [] | _ => windows (sub_prog inner) end).
Proof.
  unfold new_subprogram, b_program, sub_prog. destruct (b_ch inner) eqn:E; [apply framed_id|].
  rewrite <- E. apply framed_ma.
Qed.

Lemma framed_at_empty F K W : framed F K W -> b_ch (F b_empty) = K /\ Permutation (b_meas (F b_empty)) W.
Proof.
  intros [E H]. destruct (H b_empty) as (A & _ & C). destruct K as [|x K].
  - rewrite (E eq_refl). cbn in *. auto.
  - unfold place in *. cbn [b_ch b_meas b_pend b_empty concat app body_dur fold_right] in *.
    rewrite map_wshift_0 in C. auto.
Qed.

(* ---- every template is framed ---- *)
Definition pframed (S : list N) (p : pt) : Prop :=
  forall cm mm X, exists K W, framed (internal S p cm mm X) K W.

Lemma create_framed S p : pframed S p -> forall cm mm X, exists K W, framed (create S (internal S) p cm mm X) K W.
Proof.
  intros IH cm mm X. unfold create. destruct (in_S S (pid p)); [|apply IH].
  eexists _, _. apply framed_new_subprogram.
Qed.

Lemma fold_framed S cm mm X subs : Forall (pframed S) subs ->
  exists K W, framed (fun b => fold_left (fun b' s => create S (internal S) s cm mm X b') subs b) K W.
Proof.
  induction 1 as [|s subs Hs _ IH]; cbn [fold_left].
  - exists [], []. apply framed_id.
  - destruct (create_framed S s Hs cm mm X) as (K1 & W1 & F1). destruct IH as (K2 & W2 & F2).
    eexists _, _. apply (framed_comp _ _ _ _ _ _ F1 F2).
Qed.

Lemma internal_framed S : forall p, pframed S p.
Proof.
  intros p. induction p as [i m d chs|i m subs IH|i m n body IH|i ren mren s IH|i ov s IH|i op l sc s IH|i s IH] using pt_ind2;
    intros cm mm X; cbn [internal].
  - destruct ((d <=? 0) || match chs with [] => true | _ => false end).
    + exists [], []. apply framed_id.
    + eexists _, _. unfold play_atom. apply framed_ma.
  - destruct (fold_framed S cm mm X subs IH) as (K & W & F). eexists _, _.
    apply (framed_push_pop _ _ _ (mwins mm m) F).
  - destruct n as [|n']; [exists [], []; apply framed_id|]. cbv zeta.
    destruct (b_ch (create S (internal S) body cm mm X b_empty)); [exists [], []; apply framed_id|].
    eexists _, _. apply framed_ma.
  - apply (create_framed S s IH).
  - apply (create_framed S s IH).
  - apply (create_framed S s IH).
  - cbv zeta. destruct (b_program (internal S s cm mm X b_empty)); [|exists [], []; apply framed_id].
    eexists _, _. apply framed_a.
Qed.

(* ---- compiled programs are well-formed ---- *)
Lemma with_global_nonneg w X : wnonneg w -> wnonneg (with_global w X).
Proof.
  intros H. destruct X as [|t X]; [exact H|]. unfold with_global, from_transformation.
  destruct (cvd w); [destruct (chain_callk _ _)|]; cbn; auto. apply wdur_nonneg; auto.
Qed.
Lemma leaf_const_nonneg w : wnonneg w -> wnonneg (match cvd w with Some vals => mk_const (wdur w) vals | None => w end).
Proof. intros H. destruct (cvd w); auto. cbn. apply wdur_nonneg; auto. Qed.

Lemma wreversed_nonneg w : wnonneg w -> wnonneg (wreversed w).
Proof. destruct w as [d chs|ws|b n|b G|b]; cbn; auto. destruct chs as [|[k [v|es|fa fb]] [|x r]]; cbn; auto. Qed.

Lemma reverse_lok : forall l, lok l -> lok (reverse_loop l).
Proof.
  induction l as [w|r m ch IH] using loop_ind2; intros H.
  - destruct H as [Hd Hn]. cbn [reverse_loop lok]. rewrite wreversed_dur. split; auto. apply wreversed_nonneg; auto.
  - apply lok_node in H as (Hr & Hne & Hch). cbn [reverse_loop]. apply lok_node. repeat split; auto.
    + intros E. apply (f_equal (@length loop)) in E. rewrite rev_length, map_length in E. destruct ch; cbn in *; congruence.
    + apply Forall_rev. rewrite Forall_map. rewrite Forall_forall in *. intros x Hx. apply IH; auto.
Qed.

Lemma sub_prog_lok inner : b_ch inner <> [] -> Forall lok (b_ch inner) -> lok (sub_prog inner).
Proof. intros. apply lok_node. repeat split; auto. Qed.

Lemma collapsed_leaf_lok prog X : lok prog -> lok (Leaf (with_global (to_waveform prog) X)).
Proof.
  intros H. destruct (to_waveform_ok prog H) as (Hp & Hd & Hn & _). cbn [lok]. rewrite with_global_dur, Hd.
  split; auto. apply with_global_nonneg; auto.
Qed.

Definition plok (S : list N) (p : pt) : Prop :=
  forall cm mm X b, Forall lok (b_ch b) -> Forall lok (b_ch (internal S p cm mm X b)).

Lemma create_lok S p : plok S p -> forall cm mm X b, Forall lok (b_ch b) -> Forall lok (b_ch (create S (internal S) p cm mm X b)).
Proof.
  intros IH cm mm X b Hb. unfold create. destruct (in_S S (pid p)); [|apply IH; auto].
  unfold new_subprogram, b_program. destruct (b_ch (internal S p cm mm [] b_empty)) eqn:E; [exact Hb|]. rewrite <- E.
  rewrite b_ch_append, b_ch_measure. apply Forall_app. split; auto. constructor; [|constructor].
  apply collapsed_leaf_lok. apply (sub_prog_lok (internal S p cm mm [] b_empty)); [rewrite E; discriminate|].
  apply IH. constructor.
Qed.

Lemma internal_lok S : forall p, plok S p.
Proof.
  intros p. induction p as [i m d chs|i m subs IH|i m n body IH|i ren mren s IH|i ov s IH|i op l sc s IH|i s IH] using pt_ind2;
    intros cm mm X b Hb; cbn [internal].
  - destruct ((d <=? 0) || match chs with [] => true | _ => false end) eqn:E; [exact Hb|].
    apply orb_false_iff in E as [E _]. apply Z.leb_gt in E.
    unfold play_atom. rewrite b_ch_append, b_ch_measure. apply Forall_app. split; auto. constructor; [|constructor].
    cbn [lok]. split; [rewrite leaf_const_dur, with_global_dur; cbn [wdur]; lia|].
    apply leaf_const_nonneg. apply with_global_nonneg. cbn. lia.
  - rewrite b_ch_pop.
    assert (Hf : forall b1, Forall lok (b_ch b1) ->
               Forall lok (b_ch (fold_left (fun b' s => create S (internal S) s cm mm X b') subs b1))).
    { clear b Hb. induction IH as [|s subs Hs _ IHsubs]; intros b1 Hb1; cbn [fold_left]; [exact Hb1|].
      apply IHsubs. apply create_lok; auto. }
    apply Hf. exact Hb.
  - destruct n as [|n']; [exact Hb|]. cbv zeta.
    pose proof (create_lok S body IH cm mm X b_empty (Forall_nil _)) as Hi.
    destruct (b_ch (create S (internal S) body cm mm X b_empty)) eqn:E; [exact Hb|]. rewrite <- E.
    rewrite b_ch_append, b_ch_measure. apply Forall_app. split; auto. constructor; [|constructor].
    apply lok_node. repeat split; [lia|rewrite E; discriminate|rewrite E; exact Hi].
  - apply create_lok; auto.
  - apply create_lok; auto.
  - apply create_lok; auto.
  - cbv zeta. unfold b_program. pose proof (IH cm mm X b_empty (Forall_nil _)) as Hi.
    destruct (b_ch (internal S s cm mm X b_empty)) eqn:E; [exact Hb|]. rewrite <- E.
    rewrite b_ch_append. apply Forall_app. split; auto. constructor; [|constructor].
    apply reverse_lok. apply lok_node. repeat split; [lia|rewrite E; discriminate|rewrite E; exact Hi].
Qed.

Lemma compile_lok p S G l : compile p S G = Some l -> lok l.
Proof.
  unfold compile, b_program. intros H.
  pose proof (create_lok S p (internal_lok S p) (fun c => c) (fun n => n) G b_empty (Forall_nil _)) as Hl.
  destruct (b_ch (create S (internal S) p (fun c => c) (fun n => n) G b_empty)) eqn:E; [discriminate|].
  inversion H; subst. apply lok_node. repeat split; [lia|discriminate|exact Hl].
Qed.

(* ---- the shape of the compiled program (durations, repetition counts, windows) does not depend on the
        transformation that arrives ---- *)
Inductive ss : loop -> loop -> Prop :=
| SS_leaf w w' : wdur w = wdur w' -> ss (Leaf w) (Leaf w')
| SS_node r m ch ch' : Forall2 ss ch ch' -> ss (Node r m ch) (Node r m ch').

Lemma ss_dur_windows : forall l l', ss l l' -> ldur l = ldur l' /\ windows l = windows l'.
Proof.
  induction l as [w|r m ch IH] using loop_ind2; intros l' H; inversion H as [w0 w' Hw|r0 m0 ch0 ch' HF]; subst.
  - cbn. auto.
  - assert (body_dur ch = body_dur ch' /\ forall off, cwins ch off = cwins ch' off) as [Hb Hc].
    { clear H. revert ch' HF. induction IH as [|x xs Hx _ IHxs]; intros ch' HF; inversion HF; subst.
      - split; reflexivity.
      - destruct (Hx _ H1) as [D W]. destruct (IHxs _ H3) as [D' W']. rewrite !body_dur_cons. split; [lia|].
        intros off. cbn [cwins]. rewrite W, D, W'. reflexivity. }
    rewrite !ldur_node, !windows_node, Hb, Hc. auto.
Qed.
Lemma ss_children K K' : Forall2 ss K K' -> body_dur K = body_dur K' /\ forall off, cwins K off = cwins K' off.
Proof.
  induction 1 as [|x x' K K' Hx _ IH]; [split; reflexivity|]. destruct (ss_dur_windows _ _ Hx) as [D W].
  destruct IH as [D' W']. rewrite !body_dur_cons. split; [lia|]. intros off. cbn [cwins]. rewrite W, D, W'. reflexivity.
Qed.
Lemma ss_rev : forall l l', ss l l' -> ss (reverse_loop l) (reverse_loop l').
Proof.
  induction l as [w|r m ch IH] using loop_ind2; intros l' H; inversion H as [w0 w' Hw|r0 m0 ch0 ch' HF]; subst.
  - cbn. constructor. rewrite !wreversed_dur. auto.
  - cbn [reverse_loop]. destruct (ss_children _ _ HF) as [Hb _]. rewrite Hb. constructor. apply Forall2_rev'.
    clear H Hb. revert ch' HF. induction IH as [|x xs Hx _ IHxs]; intros ch' HF; inversion HF; subst; cbn; constructor; auto.
Qed.

Definition bss (b b' : bst) : Prop := Forall2 ss (b_ch b) (b_ch b') /\ b_meas b = b_meas b' /\ b_pend b = b_pend b'.
Lemma bss_empty : bss b_empty b_empty. Proof. repeat split; constructor. Qed.
Lemma bss_measure b b' m : bss b b' -> bss (b_measure b m) (b_measure b' m).
Proof.
  intros (A & B & C). destruct (ss_children _ _ A) as [D _]. unfold b_measure. rewrite C.
  destruct (b_pend b'); unfold bss; cbn; rewrite ?B, ?D; auto.
Qed.
Lemma bss_append b b' l l' : bss b b' -> ss l l' -> bss (b_append b l) (b_append b' l').
Proof.
  intros (A & B & C) H. destruct (ss_children _ _ A) as [D _]. unfold b_append, bss. cbn. rewrite B, C, D.
  repeat split. apply Forall2_app; auto.
Qed.
Lemma bss_push b b' m : bss b b' -> bss (b_push b m) (b_push b' m).
Proof. intros (A & B & C). unfold bss; cbn. rewrite C. auto. Qed.
Lemma bss_pop b b' : bss b b' -> bss (b_pop b) (b_pop b').
Proof. intros (A & B & C). unfold bss; cbn. rewrite C. auto. Qed.

Definition pss (S : list N) (p : pt) : Prop :=
  forall cm mm X Y b b', bss b b' -> bss (internal S p cm mm X b) (internal S p cm mm Y b').
Lemma create_ss S p : pss S p ->
  forall cm mm X Y b b', bss b b' -> bss (create S (internal S) p cm mm X b) (create S (internal S) p cm mm Y b').
Proof.
  intros IH cm mm X Y b b' H. unfold create. destruct (in_S S (pid p)); [|apply IH; auto].
  unfold new_subprogram. destruct (b_program (internal S p cm mm [] b_empty)); [|exact H].
  apply bss_append; [apply bss_measure; auto|]. constructor. rewrite !with_global_dur. reflexivity.
Qed.
Lemma internal_ss S : forall p, pss S p.
Proof.
  intros p. induction p as [i m d chs|i m subs IH|i m n body IH|i ren mren s IH|i ov s IH|i op l sc s IH|i s IH] using pt_ind2;
    intros cm mm X Y b b' H; cbn [internal].
  - destruct ((d <=? 0) || match chs with [] => true | _ => false end); [exact H|].
    unfold play_atom. apply bss_append; [apply bss_measure; auto|]. constructor.
    rewrite !leaf_const_dur, !with_global_dur. reflexivity.
  - apply bss_pop.
    assert (Hf : forall b1 b1', bss b1 b1' ->
               bss (fold_left (fun b0 s => create S (internal S) s cm mm X b0) subs b1)
                   (fold_left (fun b0 s => create S (internal S) s cm mm Y b0) subs b1')).
    { clear b b' H. induction IH as [|s subs Hs _ IHsubs]; intros b1 b1' H1; cbn [fold_left]; [exact H1|].
      apply IHsubs. apply create_ss; auto. }
    apply Hf. apply bss_push; auto.
  - destruct n as [|n']; [exact H|]. cbv zeta.
    destruct (create_ss S body IH cm mm X Y b_empty b_empty bss_empty) as (A & B & C).
    destruct A as [|x x' K K' Hx HK]; [exact H|].
    apply bss_append; [apply bss_measure; auto|]. rewrite B. constructor. constructor; auto.
  - apply create_ss; auto.
  - apply create_ss; auto.
  - apply create_ss; auto.
  - cbv zeta. unfold b_program. destruct (IH cm mm X Y b_empty b_empty bss_empty) as (A & B & C).
    destruct A as [|x x' K K' Hx HK]; [exact H|].
    apply bss_append; auto. apply ss_rev. rewrite B. constructor. constructor; auto.
Qed.
