(* C05 — round 6: freedom from KeyError for WHOLE un-collapsed programs.  Proofs10/11 looked at one leaf
   TransformingWaveform(atom, chain).  Here: for every template tree (sequences, repetitions, mappings, parallel
   channels, arithmetic, time reversal, any nesting) compiled with nothing collapsed and a global transformation
   without LinearTransformation, every leaf of the program has the shape atom / T(atom) / reversed of these with a
   Linear-free chain (the chains that arrive are G extended by offsets, scalings and parallel-channel overwrites
   only), hence no leaf raises when it is looked at the way an upload does. *)
From Coq Require Import List ZArith QArith Bool Lia.
Require Import QV.C05.Model QV.C05.Spec QV.C05.Proofs QV.C05.Proofs2 QV.C05.Proofs4 QV.C05.Proofs10.
Import ListNotations.
Open Scope Z_scope.

Inductive ashape : wf -> Prop :=
| AS_atom d chs : ashape (WAtom d chs)
| AS_ratom d chs : ashape (WRev (WAtom d chs))
| AS_tr d chs X : no_linear X = true -> ashape (WTrans (WAtom d chs) X)
| AS_rtr d chs X : no_linear X = true -> ashape (WRev (WTrans (WAtom d chs) X)).

Lemma ashape_never_raises w : ashape w -> wf_raises w = false.
Proof.
  intros [d chs|d chs|d chs X H|d chs X H]; try reflexivity.
  - apply (atom_leaf_never_raises d chs X H).
  - apply (atom_leaf_never_raises d chs X H).
Qed.

Lemma ashape_wreversed w : ashape w -> ashape (wreversed w).
Proof.
  intros [d chs|d chs|d chs X H|d chs X H]; cbn [wreversed]; try (constructor; auto; fail).
  destruct chs as [|[k [v|es|fa fb]] [|x r]]; constructor.
Qed.

Inductive lsh : loop -> Prop :=
| LS_leaf w : ashape w -> lsh (Leaf w)
| LS_node r m ch : Forall lsh ch -> lsh (Node r m ch).

Lemma reverse_lsh : forall l, lsh l -> lsh (reverse_loop l).
Proof.
  induction l as [w|r m ch IH] using loop_ind2; intros H; inversion H; subst; cbn [reverse_loop]; constructor.
  - apply ashape_wreversed; auto.
  - apply Forall_rev. rewrite Forall_map. rewrite Forall_forall in *. intros x Hx. apply IH; auto.
Qed.

Lemma lsh_flat : forall l, lsh l -> Forall ashape (flat l).
Proof.
  induction l as [w|r m ch IH] using loop_ind2; intros H; inversion H; subst; cbn [flat].
  - constructor; auto.
  - assert (B : Forall ashape (flat_map flat ch)).
    { rewrite Forall_forall in *. intros w Hw. apply in_flat_map in Hw as (x & Hx & Hw).
      specialize (IH x Hx (H1 x Hx)). rewrite Forall_forall in IH. apply IH; auto. }
    clear H H1 IH. induction r as [|r IHr]; cbn [repeat concat]; [constructor|]. apply Forall_app. split; auto.
Qed.

Lemma nl_app X Y : no_linear X = true -> no_linear Y = true -> no_linear (X ++ Y) = true.
Proof. unfold no_linear. intros A B. rewrite forallb_app, A, B. reflexivity. Qed.
Lemma nl_arith op l sc defch cm : no_linear (arith_steps op l sc defch cm) = true.
Proof. unfold arith_steps. destruct l, op; reflexivity. Qed.

Lemma atom_leaf_shape d chs X : no_linear X = true ->
  ashape (match cvd (with_global (WAtom d chs) X) with
          | Some vals => mk_const (wdur (with_global (WAtom d chs) X)) vals
          | None => with_global (WAtom d chs) X
          end).
Proof.
  intros H. destruct (cvd (with_global (WAtom d chs) X)); [unfold mk_const; constructor|].
  destruct X as [|t X]; [constructor|]. unfold with_global, from_transformation.
  destruct (cvd (WAtom d chs)); [destruct (chain_callk _ _)|]; try (unfold mk_const; constructor; fail); constructor; auto.
Qed.

Definition pnl (p : pt) : Prop :=
  forall cm mm X b, no_linear X = true -> Forall lsh (b_ch b) -> Forall lsh (b_ch (internal [] p cm mm X b)).

Lemma create_nil rec p cm mm X b : create [] rec p cm mm X b = rec p cm mm X b.
Proof. reflexivity. Qed.

Lemma internal_nl : forall p, pnl p.
Proof.
  intros p. induction p as [i m d chs|i m subs IH|i m n body IH|i ren mren s IH|i ov s IH|i op l sc s IH|i s IH] using pt_ind2;
    intros cm mm X b HX Hb; cbn [internal]; rewrite ?create_nil.
  - destruct ((d <=? 0) || match chs with [] => true | _ => false end); [exact Hb|].
    unfold play_atom. rewrite b_ch_append, b_ch_measure. apply Forall_app. split; auto. constructor; [|constructor].
    constructor. apply atom_leaf_shape; auto.
  - rewrite b_ch_pop.
    assert (Hf : forall b1, Forall lsh (b_ch b1) ->
               Forall lsh (b_ch (fold_left (fun b' s => create [] (internal []) s cm mm X b') subs b1))).
    { clear b Hb. induction IH as [|s subs Hs _ IHsubs]; intros b1 Hb1; cbn [fold_left]; [exact Hb1|].
      apply IHsubs. rewrite create_nil. apply Hs; auto. }
    apply Hf. exact Hb.
  - destruct n as [|n']; [exact Hb|]. cbv zeta.
    pose proof (IH cm mm X b_empty HX (Forall_nil _)) as Hi.
    destruct (b_ch (internal [] body cm mm X b_empty)) eqn:E; [exact Hb|]. rewrite <- E.
    rewrite b_ch_append, b_ch_measure. apply Forall_app. split; auto. constructor; [|constructor].
    constructor. rewrite E. exact Hi.
  - apply IH; auto.
  - apply IH; auto. apply nl_app; auto.
  - apply IH; auto. apply nl_app; auto. apply nl_arith.
  - cbv zeta. unfold b_program. pose proof (IH cm mm X b_empty HX (Forall_nil _)) as Hi.
    destruct (b_ch (internal [] s cm mm X b_empty)) eqn:E; [exact Hb|]. rewrite <- E.
    rewrite b_ch_append. apply Forall_app. split; auto. constructor; [|constructor].
    apply reverse_lsh. constructor. rewrite E. exact Hi.
Qed.

Theorem uncollapsed_never_raises : forall p G l, no_linear G = true -> compile p [] G = Some l ->
  existsb wf_raises (flat l) = false.
Proof.
  intros p G l HG H. unfold compile, b_program in H. rewrite create_nil in H.
  pose proof (internal_nl p (fun c => c) (fun n => n) G b_empty HG (Forall_nil _)) as Hl.
  destruct (b_ch (internal [] p (fun c => c) (fun n => n) G b_empty)) eqn:E; [discriminate|].
  inversion H; subst. apply not_true_is_false. intros Hx. apply existsb_exists in Hx as (w & Hw & Hr).
  assert (A : Forall ashape (flat (Node 1 (b_meas (internal [] p (fun c => c) (fun n => n) G b_empty)) (l0 :: l1))))
    by (apply lsh_flat; constructor; exact Hl).
  rewrite Forall_forall in A. rewrite (ashape_never_raises w (A w Hw)) in Hr. discriminate.
Qed.

(* not vacuous: a reversal around a sequence with a ramp, below arithmetic and a parallel channel, under an offset+scaling
   chain compiles to a program with several leaves, among them reversed transformed ones *)
Definition w_nl : pt :=
  PSeq 1 [(1%N, 0, 1)]
    [PArith 2 AMul true (SAll 2%Q) (PRev 3 (PSeq 4 [] [PAtom 5 [] 2 [(1%N, CTable [(0, 0%Q, IHold); (2, 4%Q, ILinear)])];
                                                     PAtom 6 [] 1 [(1%N, CConst (Some 1%Q))]]));
     PRep 7 [] 2 (PPar 8 [(2%N, 5%Q)] (PAtom 9 [] 2 [(1%N, CFun 1%Q 0%Q)]))].
Definition G_nl : list trafo := [TOffset [(1%N, 1%Q)]; TScale [(2%N, 2%Q)]].
Lemma uncollapsed_nonvacuous :
  no_linear G_nl = true /\ exists l, compile w_nl [] G_nl = Some l /\ (3 <= length (flat l))%nat /\
    existsb (fun w => match w with WRev (WTrans _ _) => true | _ => false end) (flat l) = true.
Proof. split; [reflexivity|]. eexists. split; [vm_compute; reflexivity|]. split; [vm_compute; lia|vm_compute; reflexivity]. Qed.
