(* C05 — proofs, part 10: a first raise-freedom result.  A leaf `TransformingWaveform(atom, chain)` whose chain contains no
   LinearTransformation never raises KeyError when it is looked at the way an upload does (defined_channels, then
   get_sampled per sorted channel with the constant short-cut and the per-array cache), reversed or not.  (Only
   LinearTransformation can raise; this is the leaf shape of every un-collapsed atom.) *)
From Coq Require Import List ZArith QArith Bool Lia.
Require Import QV.C05.Model QV.C05.Spec QV.C05.Proofs QV.C05.Proofs2.
Import ListNotations.
Open Scope Z_scope.

Definition no_linear (G : list trafo) : bool :=
  forallb (fun t => match t with TLinear _ _ _ => false | _ => true end) G.

Lemma nl_outk G : no_linear G = true -> forall cs, chain_outk G cs = Some (chain_out G cs).
Proof.
  induction G as [|t G IH]; intros H cs; [reflexivity|]. cbn in H. apply andb_true_iff in H as [A B].
  destruct t; try discriminate; cbn [chain_outk chain_out tr_outk tr_out obind]; apply IH; auto.
Qed.
Lemma nl_callk G : no_linear G = true -> forall data, exists ks, chain_callk G data = Some ks.
Proof.
  induction G as [|t G IH]; intros H data; [eexists; reflexivity|]. cbn in H. apply andb_true_iff in H as [A B].
  destruct t; try discriminate; cbn [chain_callk tr_callk obind]; apply IH; auto.
Qed.
Lemma cdiff_single c keys : cdiff [c] keys = (if cmem c keys then [] else [c]).
Proof. unfold cdiff. cbn. destruct (cmem c keys); reflexivity. Qed.
Lemma nl_ink G c : no_linear G = true -> forall req, req = [] \/ req = [c] ->
  exists L, chain_ink G req = Some L /\ (L = [] \/ L = [c]).
Proof.
  induction G as [|t G IH]; intros H req Hr; [exists req; auto|]. cbn in H. apply andb_true_iff in H as [A B].
  destruct (IH B req Hr) as (L' & E & HL). cbn [chain_ink]. rewrite E. cbn [obind].
  destruct t; try discriminate; cbn [tr_ink].
  - exists L'; auto.
  - exists L'; auto.
  - destruct HL as [->| ->]; [exists []; auto|]. rewrite cdiff_single. destruct (cmem c (map fst m)); eexists; eauto.
Qed.
(* a requested channel that survives the way back through the chain is a channel of the inner waveform *)
Lemma nl_ink_base G c : no_linear G = true -> forall cs, chain_ink G [c] = Some [c] -> cmem c (chain_out G cs) = true ->
  cmem c cs = true.
Proof.
  induction G as [|t G IH]; intros H cs E M; [exact M|]. cbn in H. apply andb_true_iff in H as [A B].
  cbn [chain_ink] in E. destruct (nl_ink G c B [c] (or_intror eq_refl)) as (L' & E' & HL). rewrite E' in E. cbn [obind] in E.
  cbn [chain_out] in M.
  destruct t; try discriminate; cbn [tr_ink tr_out] in *.
  - injection E as ->. apply (IH B cs E' M).
  - injection E as ->. apply (IH B cs E' M).
  - destruct HL as [->| ->]; [cbn in E; discriminate|]. rewrite cdiff_single in E.
    destruct (cmem c (map fst m)) eqn:K; [discriminate|]. specialize (IH B _ E' M). rewrite cmem_cunion, K, orb_false_r in IH. exact IH.
Qed.

Lemma alookup_some_of_cmem {A} c (l : list (chan * A)) : cmem c (map fst l) = true -> exists v, alookup c l = Some v.
Proof.
  induction l as [|[k v] l IH]; cbn; [discriminate|]. destruct (N.eqb c k); cbn; [eexists; reflexivity|exact IH].
Qed.

Lemma ninsert_in c x l : In c (ninsert x l) -> c = x \/ In c l.
Proof.
  induction l as [|y r IH]; cbn; [intuition|]. destruct (N.leb x y); cbn; [intuition|]. intros [->|H]; [auto|].
  destruct (IH H); auto.
Qed.
Lemma nsort_in c l : In c (nsort l) -> In c l.
Proof.
  induction l as [|x l IH]; cbn; [auto|]. intros H. apply ninsert_in in H as [->|H]; auto.
Qed.
Lemma cmem_in c l : In c l -> cmem c l = true.
Proof. intros H. unfold cmem. apply existsb_exists. exists c. split; [exact H|apply N.eqb_refl]. Qed.

Section atom_leaf.
  Variables (d : Z) (chs : list (chan * chdef)) (G : list trafo).
  Hypothesis HG : no_linear G = true.
  Let b := WAtom d chs.
  Let w := WTrans b G.

  Lemma scan_never_raises : forall todo cache,
    (forall c, In c todo -> cmem c (chain_out G (map fst chs)) = true) -> look_scan w G todo cache = false.
  Proof.
    induction todo as [|c r IH]; intros cache Hin; [reflexivity|]. cbn [look_scan].
    assert (Hr : forall c', In c' r -> cmem c' (chain_out G (map fst chs)) = true) by (intros; apply Hin; right; auto).
    destruct (nl_ink G c HG [c] (or_intror eq_refl)) as (L & E & HL).
    unfold w at 1. cbn [cvalue]. rewrite E.
    destruct HL as [->| ->].
    - cbn [map existsb]. destruct (nl_callk G HG []) as (ks & K). rewrite K. apply IH; auto.
    - assert (Hc : cmem c (map fst chs) = true) by (apply (nl_ink_base G c HG _ E); apply Hin; left; reflexivity).
      destruct (alookup_some_of_cmem c chs Hc) as (v & Ev). cbn [map existsb fst snd cvalue b]. unfold b. cbn [cvalue]. rewrite Ev.
      destruct (nl_callk G HG [c]) as (ks & K).
      destruct v as [v| |]; cbn [orb]; rewrite ?K.
      + apply IH; auto.
      + destruct (cmem c cache); [apply IH; auto|]. cbn [obind]. rewrite K. apply IH; auto.
      + destruct (cmem c cache); [apply IH; auto|]. cbn [obind]. rewrite K. apply IH; auto.
  Qed.

  Theorem atom_leaf_never_raises : wf_raises w = false /\ wf_raises (WRev w) = false.
  Proof.
    unfold w. cbn [wf_raises wchans b]. unfold b. cbn [wchans]. rewrite (nl_outk G HG). split.
    - apply scan_never_raises. intros c H. apply cmem_in. apply nsort_in. exact H.
    - apply not_true_is_false. intros H. apply existsb_exists in H as (c & _ & H).
      destruct (nl_ink G c HG [c] (or_intror eq_refl)) as (L & E & _). rewrite E in H. cbn [obind] in H.
      destruct (nl_callk G HG L) as (ks & K). rewrite K in H. discriminate.
  Qed.
End atom_leaf.
