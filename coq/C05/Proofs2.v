(* C05 — proofs, part 2: a global transformation is applied pointwise to what is played (induction on the template) *)
From Coq Require Import List ZArith QArith Bool Lia.
Require Import QV.C05.Model QV.C05.Spec QV.C05.Proofs.
Import ListNotations.
Open Scope Z_scope.

(* ---- transformations ---- *)
Lemma tr_apply_ext t f g : (forall c, f c = g c) -> forall c, tr_apply t f c = tr_apply t g c.
Proof.
  intros H c. destruct t as [m|m|m|ins outs mat]; cbn; rewrite ?H; try reflexivity.
  rewrite (map_ext f g H). reflexivity.
Qed.
Lemma chain_apply_ext G : forall f g, (forall c, f c = g c) -> forall c, chain_apply G f c = chain_apply G g c.
Proof. induction G as [|t G IH]; intros f g H c; cbn; [apply H|]. apply IH. apply tr_apply_ext; auto. Qed.
Lemma chain_apply_app G1 : forall G2 f c, chain_apply (G1 ++ G2) f c = chain_apply G2 (chain_apply G1 f) c.
Proof. induction G1 as [|t G1 IH]; intros; cbn; [reflexivity|apply IH]. Qed.

Definition supp (f : chan -> oq) (cs : list chan) : Prop := forall c, cmem c cs = false -> f c = None.

Lemma cmem_app c a b : cmem c (a ++ b) = cmem c a || cmem c b.
Proof. unfold cmem. apply existsb_app. Qed.
Lemma cmem_cunion c b : forall a, cmem c (cunion a b) = cmem c a || cmem c b.
Proof.
  induction b as [|k b IH]; intros a; cbn [cunion]; [cbn; rewrite orb_false_r; reflexivity|].
  destruct (cmem k a) eqn:E; rewrite IH.
  - cbn [cmem existsb]. fold (cmem c b). destruct (N.eqb c k) eqn:K; [|reflexivity].
    apply N.eqb_eq in K; subst. rewrite E. reflexivity.
  - rewrite cmem_app. cbn [cmem existsb]. fold (cmem c b). rewrite orb_false_r. destruct (cmem c a), (N.eqb c k); reflexivity.
Qed.
Lemma alookup_none_cmem {A} c (m : list (chan * A)) : cmem c (map fst m) = false -> alookup c m = None.
Proof.
  induction m as [|[k v] m IH]; cbn; [reflexivity|]. destruct (N.eqb c k); cbn; [discriminate|exact IH].
Qed.
Lemma index_of_none c l : cmem c l = false -> index_of c l = None.
Proof. induction l as [|k l IH]; cbn; [reflexivity|]. destruct (N.eqb c k); cbn; [discriminate|]. intros H. rewrite IH; auto. Qed.
Lemma cmem_filter c (P : chan -> bool) l : cmem c (filter P l) = cmem c l && P c.
Proof.
  induction l as [|k l IH]; cbn; [reflexivity|]. destruct (P k) eqn:E; cbn; fold (cmem c (filter P l)) (cmem c l); rewrite IH.
  - destruct (N.eqb c k) eqn:K; cbn; [apply N.eqb_eq in K; subst; rewrite E; reflexivity|reflexivity].
  - destruct (N.eqb c k) eqn:K; cbn; [apply N.eqb_eq in K; subst; rewrite E, andb_false_r; reflexivity|reflexivity].
Qed.

Lemma tr_supp t f cs : supp f cs -> supp (tr_apply t f) (tr_out t cs).
Proof.
  intros H c Hc. destruct t as [m|m|m|ins outs mat]; cbn [tr_out tr_apply] in *.
  - rewrite (H c Hc). destruct (alookup c m); reflexivity.
  - rewrite (H c Hc). destruct (alookup c m); reflexivity.
  - rewrite cmem_cunion in Hc. apply orb_false_iff in Hc as [A B]. rewrite (alookup_none_cmem _ _ B). apply H; auto.
  - rewrite cmem_cunion in Hc. apply orb_false_iff in Hc as [A B]. rewrite (index_of_none _ _ B).
    destruct (cmem c ins) eqn:E; [reflexivity|]. rewrite cmem_filter, E in A. cbn in A. rewrite andb_true_r in A. apply H; auto.
Qed.
Lemma chain_supp G : forall f cs, supp f cs -> supp (chain_apply G f) (chain_out G cs).
Proof. induction G as [|t G IH]; intros f cs H; cbn; [exact H|]. apply IH. apply tr_supp; auto. Qed.

(* the keys Transformation.__call__ returns support the transformed data as well *)
Lemma cdisj_not_in data ins k : cdisj data ins = true -> cmem k ins = true -> cmem k data = false.
Proof.
  unfold cdisj. intros H K. destruct (cmem k data) eqn:E; [|reflexivity].
  unfold cmem in E. apply existsb_exists in E as [x [Hx Ex]]. apply N.eqb_eq in Ex; subst x.
  rewrite forallb_forall in H. specialize (H k Hx). rewrite K in H. discriminate.
Qed.
Lemma dot_none_head row vs : dot row (None :: vs) = None.
Proof. destruct row; reflexivity. Qed.
Lemma tr_call_supp t f data ks : tr_callk t data = Some ks -> supp f data -> supp (tr_apply t f) ks.
Proof.
  intros K H. destruct t as [m|m|m|ins outs mat]; cbn [tr_callk] in K.
  - injection K as <-. apply (tr_supp (TOffset m)); auto.
  - injection K as <-. apply (tr_supp (TScale m)); auto.
  - injection K as <-. apply (tr_supp (TParallel m)); auto.
  - destruct ins as [|i0 ins].
    + destruct (csub [] data); [|discriminate]. injection K as <-. apply (tr_supp (TLinear [] outs mat)); auto.
    + destruct (cdisj data (i0 :: ins)) eqn:D.
      * injection K as <-. intros c Hc. cbn [tr_apply].
        assert (F0 : f i0 = None).
        { apply H. apply (cdisj_not_in _ _ _ D). cbn. rewrite N.eqb_refl. reflexivity. }
        destruct (index_of c outs).
        -- cbn [map]. rewrite F0. apply dot_none_head.
        -- destruct (cmem c (i0 :: ins)); [reflexivity|]. apply H; auto.
      * destruct (csub (i0 :: ins) data); [|discriminate]. injection K as <-.
        apply (tr_supp (TLinear (i0 :: ins) outs mat)); auto.
Qed.
Lemma chain_call_supp G : forall f data ks, chain_callk G data = Some ks -> supp f data -> supp (chain_apply G f) ks.
Proof.
  induction G as [|t G IH]; intros f data ks K H; cbn in *.
  - injection K as <-. exact H.
  - destruct (tr_callk t data) as [k1|] eqn:E; [|discriminate]. cbn in K. apply (IH _ k1); auto.
    apply (tr_call_supp t f data); auto.
Qed.

Lemma linear_absent_forwards ins outs mat data : ins <> [] -> cdisj data ins = true ->
  tr_callk (TLinear ins outs mat) data = Some data.
Proof. intros H D. destruct ins; [congruence|]. cbn [tr_callk]. rewrite D. reflexivity. Qed.

Lemma dlook_supp vals : supp (dlook vals) (map fst vals).
Proof. intros c H. unfold dlook. rewrite alookup_none_cmem; auto. Qed.
Lemma dlook_map (g : chan -> oq) L c : dlook (map (fun k => (k, g k)) L) c = if cmem c L then g c else None.
Proof.
  unfold dlook. induction L as [|k L IH]; cbn; [reflexivity|]. destruct (N.eqb c k) eqn:K; cbn; [apply N.eqb_eq in K; subst; reflexivity|exact IH].
Qed.

(* with_global = the transformation applied pointwise, at every time *)
Lemma from_transformation_sample w X c t :
  usample (from_transformation w X) c t = chain_apply X (fun c' => usample w c' t) c.
Proof.
  unfold from_transformation. destruct (cvd w) as [vals|] eqn:E; [|reflexivity].
  destruct (chain_callk X (map fst vals)) as [ks|] eqn:K; [|reflexivity].
  rewrite mk_const_sample, dlook_map.
  rewrite (chain_apply_ext X (fun c' => usample w c' t) (dlook vals)) by (intros; apply cvd_sample; auto).
  destruct (cmem c ks) eqn:M.
  - apply chain_apply_ext. intros k. unfold dlook. reflexivity.
  - symmetry. apply (chain_call_supp X _ _ _ K (dlook_supp vals)); auto.
Qed.
Lemma with_global_sample w X c t : usample (with_global w X) c t = chain_apply X (fun c' => usample w c' t) c.
Proof. destruct X; [reflexivity|]. apply from_transformation_sample. Qed.
Lemma with_global_dur w X : wdur (with_global w X) = wdur w.
Proof. destruct X; [reflexivity|]. unfold with_global, from_transformation. destruct (cvd w); [destruct (chain_callk _ _)|]; reflexivity. Qed.

(* ---- relation between the two compilations ---- *)
Definition wrel (G : list trafo) (w w' : wf) : Prop :=
  wdur w = wdur w' /\ forall c t, usample w c t = chain_apply G (fun c' => usample w' c' t) c.

Inductive lrel (G : list trafo) : loop -> loop -> Prop :=
| LR_leaf w w' : wrel G w w' -> lrel G (Leaf w) (Leaf w')
| LR_node r m m' ch ch' : Forall2 (lrel G) ch ch' -> lrel G (Node r m ch) (Node r m' ch').

Definition tr_equiv (X Y G : list trafo) : Prop := forall f c, chain_apply X f c = chain_apply G (chain_apply Y f) c.

Lemma wreversed_sample w c t : usample (wreversed w) c t = usample w c (wdur w - t).
Proof.
  destruct w as [d chs|ws|b n|b G|b]; try reflexivity.
  - destruct chs as [|[k [v|es|fa fb]] [|x r]]; try reflexivity. cbn. destruct (N.eqb c k); reflexivity.
  - cbn [wreversed usample wdur]. f_equal. lia.
Qed.
Lemma wreversed_dur w : wdur (wreversed w) = wdur w.
Proof. destruct w as [d chs|ws|b n|b G|b]; try reflexivity. destruct chs as [|[k [v|es|fa fb]] [|x r]]; reflexivity. Qed.

Lemma Forall2_rev' {A B} (R : A -> B -> Prop) a b : Forall2 R a b -> Forall2 R (rev a) (rev b).
Proof. induction 1; cbn; [constructor|]. apply Forall2_app; auto. Qed.

Lemma rev_rel G : forall l l', lrel G l l' -> lrel G (reverse_loop l) (reverse_loop l').
Proof.
  intros l. induction l as [w|r m ch IH] using loop_ind2; intros l' H.
  - inversion H as [w0 w' Hw|]; subst. cbn. constructor. destruct Hw as [Hd Hs]. split; [rewrite !wreversed_dur; auto|].
    intros c t. rewrite wreversed_sample, Hs. apply chain_apply_ext. intros k. rewrite wreversed_sample, Hd. reflexivity.
  - inversion H as [|r0 m0 m' ch0 ch' HF]; subst. cbn [reverse_loop]. constructor. apply Forall2_rev'.
    clear H. revert ch' HF. induction IH as [|x xs Hx _ IHxs]; intros ch' HF; inversion HF; subst; cbn; constructor; auto.
Qed.

(* builder bookkeeping *)
Lemma b_ch_append b l : b_ch (b_append b l) = b_ch b ++ [l]. Proof. reflexivity. Qed.
Lemma b_ch_measure b m : b_ch (b_measure b m) = b_ch b. Proof. unfold b_measure. destruct (b_pend b); reflexivity. Qed.
Lemma b_ch_push b m : b_ch (b_push b m) = b_ch b. Proof. reflexivity. Qed.
Lemma b_ch_pop b : b_ch (b_pop b) = b_ch b. Proof. reflexivity. Qed.

(* the statement proved by induction on the template, for a compile function F (internal or create) *)
Definition grel (G : list trafo) (F : (chan -> chan) -> (N -> N) -> list trafo -> bst -> bst) (cm : chan -> chan) : Prop :=
  forall mm X Y b b', tr_equiv X Y G ->
    exists K K', b_ch (F cm mm X b) = b_ch b ++ K /\ b_ch (F cm mm Y b') = b_ch b' ++ K' /\ Forall2 (lrel G) K K'.

Lemma leaf_const_same w c t :
  usample (match cvd w with Some vals => mk_const (wdur w) vals | None => w end) c t = usample w c t.
Proof. destruct (cvd w) eqn:E; [|reflexivity]. rewrite mk_const_sample. symmetry. apply cvd_sample; auto. Qed.
Lemma leaf_const_dur w : wdur (match cvd w with Some vals => mk_const (wdur w) vals | None => w end) = wdur w.
Proof. destruct (cvd w); reflexivity. Qed.

Lemma global_wrel G X Y w : tr_equiv X Y G -> wrel G (with_global w X) (with_global w Y).
Proof.
  intros H. split; [rewrite !with_global_dur; reflexivity|]. intros c t.
  rewrite with_global_sample, H. apply chain_apply_ext. intros k. rewrite with_global_sample. reflexivity.
Qed.

Lemma create_grel S G p cm :
  grel G (internal S p) cm -> grel G (fun cm mm X b => create S (internal S) p cm mm X b) cm.
Proof.
  intros IH mm X Y b b' HE. unfold create. destruct (in_S S (pid p)); [|apply IH; auto].
  unfold new_subprogram. destruct (b_program (internal S p cm mm [] b_empty)) as [prog|].
  - exists [Leaf (with_global (to_waveform prog) X)], [Leaf (with_global (to_waveform prog) Y)].
    rewrite !b_ch_append, !b_ch_measure. repeat split. constructor; [|constructor]. constructor. apply global_wrel; auto.
  - exists [], []. rewrite !app_nil_r. repeat split. constructor.
Qed.

Section pt_induction.
  Variable P : pt -> Prop.
  Hypothesis HAtom : forall i m d chs, P (PAtom i m d chs).
  Hypothesis HSeq : forall i m subs, Forall P subs -> P (PSeq i m subs).
  Hypothesis HRep : forall i m n b, P b -> P (PRep i m n b).
  Hypothesis HMap : forall i r mr s, P s -> P (PMap i r mr s).
  Hypothesis HPar : forall i ov s, P s -> P (PPar i ov s).
  Hypothesis HArith : forall i op l sc s, P s -> P (PArith i op l sc s).
  Hypothesis HRev : forall i s, P s -> P (PRev i s).
  Fixpoint pt_ind2 (p : pt) : P p :=
    match p with
    | PAtom i m d chs => HAtom i m d chs
    | PSeq i m subs => HSeq i m subs ((fix go (l : list pt) : Forall P l :=
                          match l with [] => Forall_nil _ | x :: r => Forall_cons _ (pt_ind2 x) (go r) end) subs)
    | PRep i m n b => HRep i m n b (pt_ind2 b)
    | PMap i r mr s => HMap i r mr s (pt_ind2 s)
    | PPar i ov s => HPar i ov s (pt_ind2 s)
    | PArith i op l sc s => HArith i op l sc s (pt_ind2 s)
    | PRev i s => HRev i s (pt_ind2 s)
    end.
End pt_induction.

(* the overwrite of channels K commutes with a chain that avoids K *)
Lemma cmem_false_map_fst {A} c (m : list (chan * A)) : alookup c m <> None -> cmem c (map fst m) = true.
Proof.
  induction m as [|[k v] m IH]; cbn; [congruence|]. destruct (N.eqb c k); cbn; auto.
Qed.
Lemma disjointb_spec K L c : disjointb K L = true -> cmem c K = true -> cmem c L = false.
Proof.
  unfold disjointb. rewrite forallb_forall. intros H Hc. unfold cmem in Hc. apply existsb_exists in Hc as (k & Hk & E).
  apply N.eqb_eq in E; subst. specialize (H _ Hk). apply negb_true_iff in H. exact H.
Qed.

Lemma par_commutes_tr m t : disjointb (map fst m) (tr_touch t) = true ->
  forall f c, tr_apply (TParallel m) (tr_apply t f) c = tr_apply t (tr_apply (TParallel m) f) c.
Proof.
  intros D f c.
  change (tr_apply (TParallel m) (tr_apply t f) c) with (match alookup c m with Some v => Some v | None => tr_apply t f c end).
  destruct (alookup c m) as [v|] eqn:E.
  - assert (Hc : cmem c (map fst m) = true) by (apply cmem_false_map_fst; congruence).
    pose proof (disjointb_spec _ _ c D Hc) as Hn.
    destruct t as [m2|m2|m2|ins outs mat]; cbn [tr_touch tr_apply] in *.
    + rewrite (alookup_none_cmem _ _ Hn), E. reflexivity.
    + rewrite (alookup_none_cmem _ _ Hn), E. reflexivity.
    + rewrite (alookup_none_cmem _ _ Hn), E. reflexivity.
    + rewrite cmem_app in Hn. apply orb_false_iff in Hn as [A B]. rewrite (index_of_none _ _ B), A, E. reflexivity.
  - destruct t as [m2|m2|m2|ins outs mat]; cbn [tr_apply]; rewrite ?E; try reflexivity.
    destruct (index_of c outs); [|destruct (cmem c ins); [reflexivity|]; simpl; try rewrite E; reflexivity].
    f_equal. apply map_ext_in. intros k Hk.
    change (tr_apply (TParallel m) f k) with (match alookup k m with Some v => Some v | None => f k end).
    destruct (alookup k m) eqn:Ek; [|reflexivity]. exfalso.
    assert (Hc : cmem k (map fst m) = true) by (apply cmem_false_map_fst; congruence).
    pose proof (disjointb_spec _ _ k D Hc) as Hn. cbn [tr_touch] in Hn. rewrite cmem_app in Hn. apply orb_false_iff in Hn as [A _].
    unfold cmem in A. assert (existsb (N.eqb k) ins = true) by (apply existsb_exists; exists k; split; auto; apply N.eqb_refl). congruence.
Qed.
Lemma par_commutes_chain m G : chain_avoids G (map fst m) = true ->
  forall f c, tr_apply (TParallel m) (chain_apply G f) c = chain_apply G (tr_apply (TParallel m) f) c.
Proof.
  induction G as [|t G IH]; intros H f c; [reflexivity|]. cbn in H. apply andb_true_iff in H as [H1 H2].
  cbn [chain_apply]. rewrite IH by auto. apply chain_apply_ext. intros k. apply par_commutes_tr; auto.
Qed.

Lemma tr_equiv_prefix A X Y G : tr_equiv X Y G -> tr_equiv (A ++ X) (A ++ Y) G.
Proof. intros H f c. rewrite chain_apply_app, H. apply chain_apply_ext. intros k. rewrite chain_apply_app. reflexivity. Qed.
Lemma tr_equiv_par m X Y G : chain_avoids G (map fst m) = true -> tr_equiv X Y G ->
  tr_equiv (X ++ [TParallel m]) (Y ++ [TParallel m]) G.
Proof.
  intros D H f c. rewrite chain_apply_app. cbn [chain_apply].
  rewrite (tr_apply_ext (TParallel m) _ _ (H f)). rewrite par_commutes_chain by auto.
  apply chain_apply_ext. intros k. rewrite chain_apply_app. reflexivity.
Qed.

Lemma par_keys_fst cm ov : map fst (map (fun cv : chan * Q => (cm (fst cv), snd cv)) ov) = par_keys cm ov.
Proof. unfold par_keys. rewrite map_map. reflexivity. Qed.

Lemma internal_grel S G : forall p cm, guard_par G cm p = true -> grel G (internal S p) cm.
Proof.
  intros p. induction p as [i m d chs|i m subs IH|i m n body IH|i ren mren s IH|i ov s IH|i op l sc s IH|i s IH] using pt_ind2;
    intros cm Hg mm X Y b b' HE.
  - (* atom *)
    cbn [internal]. destruct ((d <=? 0) || match chs with [] => true | _ => false end).
    + exists [], []. rewrite !app_nil_r. repeat split. constructor.
    + unfold play_atom. rewrite !b_ch_append, !b_ch_measure.
      eexists [_], [_]. repeat split. constructor; [|constructor]. constructor.
      destruct (global_wrel G X Y (WAtom d (map (fun cd => (cm (fst cd), snd cd)) chs)) HE) as [Hd Hs].
      split; [rewrite !leaf_const_dur; exact Hd|]. intros c t. rewrite leaf_const_same, Hs.
      apply chain_apply_ext. intros k. rewrite leaf_const_same. reflexivity.
  - (* sequence *)
    cbn [internal]. rewrite !b_ch_pop. cbn [guard_par] in Hg. rewrite forallb_forall in Hg.
    assert (Hfold : forall b1 b1',
      exists K K', b_ch (fold_left (fun b0 s => create S (internal S) s cm mm X b0) subs b1) = b_ch b1 ++ K /\
                   b_ch (fold_left (fun b0 s => create S (internal S) s cm mm Y b0) subs b1') = b_ch b1' ++ K' /\
                   Forall2 (lrel G) K K').
    { clear b b'. revert Hg. induction IH as [|s subs Hs _ IHsubs]; intros Hg b1 b1'; cbn [fold_left].
      - exists [], []. rewrite !app_nil_r. repeat split. constructor.
      - assert (Hs' : grel G (internal S s) cm) by (apply Hs; apply Hg; left; auto).
        destruct (create_grel S G s cm Hs' mm X Y b1 b1' HE) as (K1 & K1' & E1 & E1' & R1).
        destruct (IHsubs (fun x Hx => Hg x (or_intror Hx)) (create S (internal S) s cm mm X b1) (create S (internal S) s cm mm Y b1'))
          as (K2 & K2' & E2 & E2' & R2).
        exists (K1 ++ K2), (K1' ++ K2'). rewrite E2, E2', E1, E1', <- !app_assoc. repeat split. apply Forall2_app; auto. }
    destruct (Hfold (b_push b (mwins mm m)) (b_push b' (mwins mm m))) as (K & K' & E & E' & R). exists K, K'. rewrite E, E'. repeat split; auto.
  - (* repetition *)
    cbn [internal]. destruct n as [|n']; [exists [], []; rewrite !app_nil_r; repeat split; constructor|]. cbv zeta.
    cbn [guard_par] in Hg.
    destruct (create_grel S G body cm (IH cm Hg) mm X Y b_empty b_empty HE) as (K & K' & E & E' & R).
    cbn [b_ch b_empty app] in E, E'. rewrite E, E'. destruct R as [|x x' K K' Rx R].
    + exists [], []. rewrite !app_nil_r. repeat split. constructor.
    + eexists [_], [_]. rewrite !b_ch_append, !b_ch_measure. repeat split.
      constructor; [|constructor]. constructor. constructor; auto.
  - (* mapping *)
    cbn [internal]. cbn [guard_par] in Hg. exact (create_grel S G s _ (IH _ Hg) _ X Y b b' HE).
  - (* parallel channel *)
    cbn [internal]. cbn [guard_par] in Hg. apply andb_true_iff in Hg as [H1 H2].
    apply (create_grel S G s cm (IH cm H2)). apply tr_equiv_par; auto. rewrite par_keys_fst; auto.
  - (* arithmetic *)
    cbn [internal]. cbn [guard_par] in Hg. apply (create_grel S G s cm (IH cm Hg)). apply tr_equiv_prefix; auto.
  - (* time reversal *)
    cbn [internal]. cbv zeta. cbn [guard_par] in Hg.
    destruct (IH cm Hg mm X Y b_empty b_empty HE) as (K & K' & E & E' & R). cbn [b_ch b_empty app] in E, E'.
    unfold b_program. rewrite E, E'. destruct R as [|x x' K K' Rx R].
    + exists [], []. rewrite !app_nil_r. repeat split. constructor.
    + eexists [_], [_]. rewrite !b_ch_append. repeat split.
      constructor; [|constructor]. apply rev_rel. constructor. constructor; auto.
Qed.

(* ---- from related trees to related playback ---- *)
Lemma wsum_flat : forall l, wsum (flat l) = ldur l.
Proof.
  induction l as [w|r m ch IH] using loop_ind2; [cbn [flat]; rewrite wsum_cons; cbn; lia|].
  cbn [flat]. rewrite wsum_concat_repeat, ldur_node. f_equal. apply wsum_flat_map. apply Forall_forall. exact IH.
Qed.

Lemma Forall2_concat_repeat {A B} (R : A -> B -> Prop) a b n :
  Forall2 R a b -> Forall2 R (concat (repeat a n)) (concat (repeat b n)).
Proof. intros H. induction n; cbn; [constructor|]. apply Forall2_app; auto. Qed.

Lemma lrel_flat G : forall l l', lrel G l l' -> ldur l = ldur l' /\ Forall2 (wrel G) (flat l) (flat l').
Proof.
  intros l. induction l as [w|r m ch IH] using loop_ind2; intros l' H.
  - inversion H as [w0 w' Hw|]; subst. cbn. split; [apply Hw|]. constructor; [exact Hw|constructor].
  - inversion H as [|r0 m0 m' ch0 ch' HF]; subst.
    assert (body_dur ch = body_dur ch' /\ Forall2 (wrel G) (flat_map flat ch) (flat_map flat ch')) as [Hb Hf].
    { clear H. revert ch' HF. induction IH as [|x xs Hx _ IHxs]; intros ch' HF; inversion HF; subst.
      - split; [reflexivity|constructor].
      - destruct (Hx _ H1) as [D F]. destruct (IHxs _ H3) as [D' F']. rewrite !body_dur_cons. split; [lia|].
        cbn [flat_map]. apply Forall2_app; auto. }
    rewrite !ldur_node, Hb. split; [reflexivity|]. cbn [flat]. apply Forall2_concat_repeat; auto.
Qed.

Lemma walk_rel G c ws ws' : Forall2 (wrel G) ws ws' -> forall time t, time <= t < time + wsum ws ->
  walk (wparts c ws) time t = chain_apply G (fun c' => walk (wparts c' ws') time t) c.
Proof.
  induction 1 as [|w w' ws ws' [Hd Hs] _ IH]; intros time t Ht; [cbn in Ht; lia|].
  rewrite wsum_cons in Ht. cbn [wparts map walk]. rewrite <- Hd.
  destruct ((time <=? t) && (t <? time + wdur w)) eqn:E.
  - apply Hs.
  - apply IH. apply andb_false_iff in E as [E|E]; [apply Z.leb_gt in E|apply Z.ltb_ge in E]; lia.
Qed.

Lemma tr_equiv_root G : tr_equiv G [] G.
Proof. intros f c. reflexivity. Qed.

Lemma global_transformation_thm : forall p S G, guard_C05_parallel_order G p = true ->
  match compile p S G, compile p S [] with
  | Some l, Some l' => ldur l = ldur l' /\
                       forall c t, 0 <= t < ldur l -> play l c t = chain_apply G (fun c' => play l' c' t) c
  | None, None => True
  | _, _ => False
  end.
Proof.
  intros p S G Hg. unfold compile.
  destruct (create_grel S G p (fun c => c) (internal_grel S G p _ Hg) (fun n => n) G [] b_empty b_empty (tr_equiv_root G))
    as (K & K' & E & E' & R). cbn [b_ch b_empty app] in E, E'.
  unfold b_program. rewrite E, E'. destruct R as [|x x' K K' Rx R]; [exact I|].
  set (l := Node 1 _ (x :: K)). set (l' := Node 1 _ (x' :: K')).
  assert (HR : lrel G l l') by (constructor; constructor; auto).
  destruct (lrel_flat G l l' HR) as [Hd Hf]. split; [exact Hd|].
  intros c t Ht. unfold play, play_parts. apply (walk_rel G c _ _ Hf 0 t). rewrite wsum_flat. lia.
Qed.
