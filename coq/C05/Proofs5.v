(* C05 — proofs, part 5: collapsing any set S of sub-templates into single waveforms leaves the played voltages, the
   duration and the measurement windows (as a multiset) unchanged — induction on the template over builder states *)
From Coq Require Import List ZArith QArith Bool Lia Sorting.Permutation.
Require Import QV.C05.Model QV.C05.Spec QV.C05.Proofs QV.C05.Proofs2 QV.C05.Proofs4.
Import ListNotations.
Open Scope Z_scope.

(* what a list of children plays *)
Definition cplay (K : list loop) (c : chan) (t : Z) : oq := walk (wparts c (flat_map flat K)) 0 t.

Definition krel (K K' : list loop) : Prop :=
  body_dur K = body_dur K' /\ (K = [] <-> K' = []) /\
  forall c t, 0 <= t < body_dur K -> cplay K c t = cplay K' c t.

Definition allw (b : bst) : list win := b_meas b ++ cwins (b_ch b) 0.

Definition brel (b b' : bst) : Prop :=
  b_pend b = b_pend b' /\ krel (b_ch b) (b_ch b') /\ Forall lok (b_ch b) /\ Forall lok (b_ch b') /\
  Permutation (allw b) (allw b').

Lemma flat_top m K : flat (Node 1 m K) = flat_map flat K.
Proof. cbn. apply app_nil_r. Qed.

Lemma krel_refl K : krel K K. Proof. repeat split; auto. Qed.

Lemma flat_nonneg l : lok l -> Forall wnonneg (flat l).
Proof. intros H. apply (to_waveform_ok l H). Qed.
Lemma flats_nonneg K : Forall lok K -> Forall wnonneg (flat_map flat K).
Proof.
  intros H. apply Forall_forall. intros w Hw. apply in_flat_map in Hw as (x & Hx & Hw).
  rewrite Forall_forall in H. pose proof (flat_nonneg x (H x Hx)) as F. rewrite Forall_forall in F. auto.
Qed.
Lemma wsum_flats K : wsum (flat_map flat K) = body_dur K.
Proof. apply wsum_flat_map. intros. apply wsum_flat. Qed.

Lemma cplay_app A B c t : Forall lok A -> 0 <= t ->
  cplay (A ++ B) c t = if t <? body_dur A then cplay A c t else cplay B c (t - body_dur A).
Proof.
  intros HA Ht. unfold cplay. rewrite flat_map_app, wparts_app.
  destruct (t <? body_dur A) eqn:E.
  - apply Z.ltb_lt in E. apply walk_app_l. rewrite total_wparts, wsum_flats. lia.
  - apply Z.ltb_ge in E. rewrite walk_app_r.
    + rewrite total_wparts, wsum_flats. apply walk_shift0.
    + apply wparts_nonneg. apply flats_nonneg; auto.
    + rewrite total_wparts, wsum_flats. lia.
Qed.

Lemma body_dur_lok K : Forall lok K -> 0 <= body_dur K.
Proof.
  intros H. apply body_dur_nonneg. intros x Hx. rewrite Forall_forall in H. apply (to_waveform_ok x (H x Hx)).
Qed.

Lemma krel_app A A' B B' : Forall lok A -> Forall lok A' -> krel A A' -> krel B B' -> krel (A ++ B) (A' ++ B').
Proof.
  intros LA LA' (DA & EA & PA) (DB & EB & PB). split; [rewrite !body_dur_app; lia|]. split.
  - split; intros H; apply app_eq_nil in H as [X Y]; [apply EA in X; apply EB in Y|apply EA in X; apply EB in Y]; subst; reflexivity.
  - intros c t Ht. rewrite body_dur_app in Ht. rewrite !cplay_app by (auto; lia). rewrite <- DA.
    destruct (t <? body_dur A) eqn:E.
    + apply Z.ltb_lt in E. apply PA. lia.
    + apply Z.ltb_ge in E. apply PB. lia.
Qed.

(* ---- the windows of a placed output ---- *)
Lemma perm4 {A} (P W C K : list A) : Permutation (P ++ W ++ C ++ K) (C ++ P ++ W ++ K).
Proof. rewrite (app_assoc P W (C ++ K)), (app_assoc P W K). apply Permutation_app_swap_app. Qed.
Lemma allw_place b x K W :
  Permutation (allw (place b (x :: K) W))
              (allw b ++ map (wshift (body_dur (b_ch b))) (concat (b_pend b)) ++
               map (wshift (body_dur (b_ch b))) (W ++ cwins (x :: K) 0)).
Proof.
  unfold allw, place. cbn [b_ch b_meas b_pend]. rewrite cwins_app, (cwins_shift (x :: K) (0 + _)).
  replace (0 + body_dur (b_ch b)) with (body_dur (b_ch b)) by lia.
  rewrite !map_app, <- !app_assoc. apply Permutation_app_head.
  apply perm4.
Qed.

Definition orel (K : list loop) (W : list win) (K' : list loop) (W' : list win) : Prop :=
  krel K K' /\ Permutation (W ++ cwins K 0) (W' ++ cwins K' 0).

Lemma brel_place b b' K W K' W' : brel b b' -> orel K W K' W' -> Forall lok K -> Forall lok K' ->
  brel (place b K W) (place b' K' W').
Proof.
  intros (HP & HK & HL & HL' & HW) [HO HOW] LK LK'.
  destruct K as [|x K], K' as [|x' K'].
  - cbn [place]. repeat split; auto; apply HK.
  - exfalso. destruct HO as (_ & E & _). destruct E as [E _]. specialize (E eq_refl). discriminate.
  - exfalso. destruct HO as (_ & E & _). destruct E as [_ E]. specialize (E eq_refl). discriminate.
  - split; [unfold place; cbn [b_pend]; rewrite HP; reflexivity|].
    split; [unfold place; cbn [b_ch]; apply krel_app; auto|].
    split; [unfold place; cbn [b_ch]; apply Forall_app; auto|].
    split; [unfold place; cbn [b_ch]; apply Forall_app; auto|].
    eapply Permutation_trans; [apply allw_place|]. eapply Permutation_trans; [|apply Permutation_sym; apply allw_place].
    destruct HK as (HD & _). rewrite <- HD, <- HP.
    apply Permutation_app; [exact HW|]. apply Permutation_app_head. apply Permutation_map. exact HOW.
Qed.

Lemma brel_beq b1 b2 b1' b2' : beq b1 b2 -> beq b1' b2' -> brel b2 b2' -> brel b1 b1'.
Proof.
  intros (A & B & C) (A' & B' & C') (HP & HK & HL & HL' & HW). unfold brel, allw. rewrite A, A', B, B'.
  repeat split; auto; try apply HK.
  eapply Permutation_trans; [apply Permutation_app_tail; exact C|].
  eapply Permutation_trans; [exact HW|]. apply Permutation_app_tail. apply Permutation_sym. exact C'.
Qed.

Lemma brel_empty : brel b_empty b_empty.
Proof. repeat split; auto; constructor. Qed.
Lemma brel_push b b' m : brel b b' -> brel (b_push b m) (b_push b' m).
Proof. intros (HP & HK & HL & HL' & HW). unfold brel, allw, b_push. cbn. rewrite HP. repeat split; auto; apply HK. Qed.
Lemma brel_pop b b' : brel b b' -> brel (b_pop b) (b_pop b').
Proof. intros (HP & HK & HL & HL' & HW). unfold brel, allw, b_pop. cbn. rewrite HP. repeat split; auto; apply HK. Qed.

(* the same framed function on related states *)
Lemma brel_same F K W b b' : framed F K W -> Forall lok K -> brel b b' -> brel (F b) (F b').
Proof.
  intros [_ HF] LK H. apply (brel_beq _ _ _ _ (HF b) (HF b')). apply brel_place; auto.
  split; [apply krel_refl|apply Permutation_refl].
Qed.

(* ---- nothing collapsed below => the same compilation ---- *)
Lemma in_S_nil i : in_S [] i = false. Proof. reflexivity. Qed.
Lemma create_nil s cm mm X b : create [] (internal []) s cm mm X b = internal [] s cm mm X b.
Proof. reflexivity. Qed.

Lemma create_none_below S s : in_S S (pid s) = false ->
  (forall cm mm X b, internal S s cm mm X b = internal [] s cm mm X b) ->
  forall cm mm X b, create S (internal S) s cm mm X b = create [] (internal []) s cm mm X b.
Proof. intros A H cm mm X b. unfold create. rewrite A, in_S_nil. apply H. Qed.

Lemma internal_none_below S : forall p, none_below S p = true ->
  forall cm mm X b, internal S p cm mm X b = internal [] p cm mm X b.
Proof.
  intros p. induction p as [i m d chs|i m subs IH|i m n body IH|i ren mren s IH|i ov s IH|i op l sc s IH|i s IH] using pt_ind2;
    intros Hn cm mm X b; cbn [internal none_below] in *.
  - reflexivity.
  - f_equal. generalize (b_push b (mwins mm m)). rewrite forallb_forall in Hn.
    induction IH as [|s subs Hs _ IHsubs]; intros b1; cbn [fold_left]; [reflexivity|].
    assert (Hx := Hn s (or_introl eq_refl)). apply andb_true_iff in Hx as [A B]. apply negb_true_iff in A.
    rewrite (create_none_below S s A (Hs B)). apply IHsubs. intros x Hx. apply Hn. right; auto.
  - apply andb_true_iff in Hn as [A B]. apply negb_true_iff in A. destruct n; [reflexivity|].
    rewrite (create_none_below S body A (IH B)). reflexivity.
  - apply andb_true_iff in Hn as [A B]. apply negb_true_iff in A. apply (create_none_below S s A (IH B)).
  - apply andb_true_iff in Hn as [A B]. apply negb_true_iff in A. apply (create_none_below S s A (IH B)).
  - apply andb_true_iff in Hn as [A B]. apply negb_true_iff in A. apply (create_none_below S s A (IH B)).
  - apply andb_true_iff in Hn as [A B]. rewrite (IH B). reflexivity.
Qed.

(* ---- collapsing an ATOMIC template changes nothing at all: the same builder state, as a term ---- *)
Definition leafc (w : wf) : wf := match cvd w with Some vals => mk_const (wdur w) vals | None => w end.
Lemma all_const_mk vals : all_const (map (fun cv : chan * oq => (fst cv, CConst (snd cv))) vals) = Some vals.
Proof. induction vals as [|[c v] r IH]; cbn; [reflexivity|]. rewrite IH. reflexivity. Qed.
Lemma mk_all_const d chs vals : all_const chs = Some vals -> mk_const d vals = WAtom d chs.
Proof.
  unfold mk_const. revert vals. induction chs as [|[c [v|es|a b0]] r IH]; intros vals H; cbn in H; try discriminate.
  - injection H as <-. reflexivity.
  - destruct (all_const r) as [v'|] eqn:E; [|discriminate]. injection H as <-. cbn. specialize (IH v' eq_refl).
    injection IH as IH. rewrite IH. reflexivity.
Qed.
Lemma leafc_mk d vals : leafc (mk_const d vals) = mk_const d vals.
Proof. unfold leafc, mk_const. cbn [cvd wdur]. rewrite all_const_mk. reflexivity. Qed.
Lemma leafc_atom_global d chs X : with_global (leafc (WAtom d chs)) X = leafc (with_global (WAtom d chs) X).
Proof.
  unfold leafc at 1. cbn [cvd wdur]. destruct (all_const chs) as [vals|] eqn:E.
  - rewrite (mk_all_const d chs vals E). destruct X as [|t X]; cbn [with_global].
    + unfold leafc. cbn [cvd wdur]. rewrite E. symmetry. apply mk_all_const. exact E.
    + unfold from_transformation. cbn [cvd]. rewrite E. destruct (chain_callk (t :: X) (map fst vals)).
      * symmetry. apply leafc_mk.
      * reflexivity.
  - destruct X as [|t X]; cbn [with_global].
    + unfold leafc. cbn [cvd]. rewrite E. reflexivity.
    + unfold from_transformation. cbn [cvd]. rewrite E. reflexivity.
Qed.

Lemma create_atom_collapse S i m d chs cm mm X b :
  create S (internal S) (PAtom i m d chs) cm mm X b = internal [] (PAtom i m d chs) cm mm X b.
Proof.
  unfold create. destruct (in_S S (pid (PAtom i m d chs))); [|reflexivity]. cbn [internal].
  destruct ((d <=? 0) || match chs with [] => true | _ => false end); [reflexivity|].
  unfold play_atom. cbn [with_global]. set (w0 := WAtom d (map (fun cd : chan * chdef => (cm (fst cd), snd cd)) chs)).
  fold (leafc w0). fold (leafc (with_global w0 X)).
  unfold new_subprogram, b_program. rewrite b_ch_append, b_ch_measure. cbn [b_ch b_empty app].
  rewrite windows_node. cbn [to_waveform Z.of_nat tile].
  change (1 <? Z.pos (Pos.of_succ_nat 0)) with false. cbv iota.
  unfold w0. rewrite leafc_atom_global. fold w0. f_equal. f_equal.
  cbn [cwins windows map app]. rewrite !app_nil_r. replace (0 * body_dur [Leaf (leafc w0)]) with 0 by lia. rewrite map_wshift_0.
  unfold b_append, b_measure. cbn [b_pend b_empty b_meas b_ch concat map app body_dur fold_right]. rewrite app_nil_r.
  apply map_wshift_0.
Qed.

Lemma create_only_atoms S s : (negb (in_S S (pid s)) || is_atom s) = true ->
  (forall cm mm X b, internal S s cm mm X b = internal [] s cm mm X b) ->
  forall cm mm X b, create S (internal S) s cm mm X b = create [] (internal []) s cm mm X b.
Proof.
  intros A H cm mm X b. destruct (in_S S (pid s)) eqn:E.
  - cbn in A. destruct s; try discriminate. rewrite create_atom_collapse. reflexivity.
  - apply create_none_below; auto.
Qed.

Lemma internal_only_atoms_below S : forall p, only_atoms_below S p = true ->
  forall cm mm X b, internal S p cm mm X b = internal [] p cm mm X b.
Proof.
  intros p. induction p as [i m d chs|i m subs IH|i m n body IH|i ren mren s IH|i ov s IH|i op l sc s IH|i s IH] using pt_ind2;
    intros Hn cm mm X b; cbn [internal only_atoms_below] in *.
  - reflexivity.
  - f_equal. generalize (b_push b (mwins mm m)). rewrite forallb_forall in Hn.
    induction IH as [|s subs Hs _ IHsubs]; intros b1; cbn [fold_left]; [reflexivity|].
    assert (Hx := Hn s (or_introl eq_refl)). apply andb_true_iff in Hx as [A B].
    rewrite (create_only_atoms S s A (Hs B)). apply IHsubs. intros x Hx. apply Hn. right; auto.
  - apply andb_true_iff in Hn as [A B]. destruct n; [reflexivity|].
    rewrite (create_only_atoms S body A (IH B)). reflexivity.
  - apply andb_true_iff in Hn as [A B]. apply (create_only_atoms S s A (IH B)).
  - apply andb_true_iff in Hn as [A B]. apply (create_only_atoms S s A (IH B)).
  - apply andb_true_iff in Hn as [A B]. apply (create_only_atoms S s A (IH B)).
  - apply andb_true_iff in Hn as [A B]. rewrite (IH B). reflexivity.
Qed.

(* ---- repetition nodes ---- *)
Lemma tile_perm n p : forall k a b, Permutation a b -> Permutation (tile n p k a) (tile n p k b).
Proof.
  induction n; intros k a b H; cbn [tile]; [constructor|]. apply Permutation_app; [apply Permutation_map; auto|apply IHn; auto].
Qed.

Lemma cplay_single_node n m K c t : Forall lok K -> 0 <= t < Z.of_nat n * body_dur K ->
  cplay [Node n m K] c t = walk (repeat (body_dur K, cplay K c) n) 0 t.
Proof.
  intros LK Ht. unfold cplay. cbn [flat_map flat]. rewrite app_nil_r, wparts_concat_repeat, walk_concat.
  2:{ apply Forall_forall. intros g Hg. apply repeat_spec in Hg. subst g. apply wparts_nonneg. apply flats_nonneg; auto. }
  rewrite map_repeat'. apply walk_ext. clear Ht. induction n; cbn [repeat]; constructor; auto.
  cbn [fst snd group]. rewrite total_wparts, wsum_flats. split; [reflexivity|]. intros; reflexivity.
Qed.

Lemma krel_node n m m' K K' : Forall lok K -> Forall lok K' -> krel K K' -> krel [Node n m K] [Node n m' K'].
Proof.
  intros LK LK' (HD & HE & HP). split; [rewrite !body_dur_cons, !ldur_node, HD; reflexivity|]. split; [split; discriminate|].
  intros c t Ht. rewrite body_dur_cons, ldur_node in Ht. change (body_dur []) with 0 in Ht.
  rewrite !cplay_single_node by (auto; try rewrite <- HD; lia). rewrite <- HD.
  apply walk_ext. clear Ht. induction n; cbn [repeat]; constructor; auto. cbn [fst snd]. split; [reflexivity|]. apply HP.
Qed.

Lemma cwins_single l : cwins [l] 0 = windows l.
Proof. cbn [cwins]. rewrite app_nil_r. apply map_wshift_0. Qed.

(* ---- the induction ---- *)
Section single.
  Variable S : list N.

  Definition cguard (cm : chan -> chan) (X : list trafo) (s : pt) : bool :=
    if in_S S (pid s) then guard_par X cm s && guard_int S cm [] s else guard_int S cm X s.

  Definition P (p : pt) : Prop :=
    forall cm mm X, guard_int S cm X p = true ->
    forall b b', brel b b' -> brel (internal S p cm mm X b) (internal [] p cm mm X b').

  Lemma tr_equiv_nil X : tr_equiv X [] X.
  Proof. intros f c. reflexivity. Qed.

  Lemma Forall2_nil_iff {A B} (R : A -> B -> Prop) a b : Forall2 R a b -> (a = [] <-> b = []).
  Proof. destruct 1; split; congruence. Qed.

  Lemma cplay_lrel X K K' : Forall2 (lrel X) K K' -> body_dur K = body_dur K' /\
    forall c t, 0 <= t < body_dur K -> cplay K c t = chain_apply X (fun c' => cplay K' c' t) c.
  Proof.
    intros H. assert (HR : lrel X (Node 1 [] K) (Node 1 [] K')) by (constructor; auto).
    destruct (lrel_flat X _ _ HR) as [Hd Hf]. rewrite !ldur_node in Hd. split; [lia|].
    intros c t Ht. rewrite !flat_top in Hf. unfold cplay.
    apply (walk_rel X c _ _ Hf 0 t). rewrite wsum_flats. lia.
  Qed.

  Lemma create_rel s : P s -> forall cm mm X, cguard cm X s = true ->
    forall b b', brel b b' -> brel (create S (internal S) s cm mm X b) (internal [] s cm mm X b').
  Proof.
    intros IH cm mm X Hg b b' Hb. unfold create, cguard in *. destruct (in_S S (pid s)); [|apply IH; auto].
    apply andb_true_iff in Hg as [Hgp Hgi].
    set (iS := internal S s cm mm [] b_empty). set (i0 := internal [] s cm mm [] b_empty).
    assert (Hi : brel iS i0) by (apply IH; [exact Hgi|apply brel_empty]).
    destruct (internal_framed [] s cm mm X) as (KR & WR & FR).
    destruct (framed_at_empty _ _ _ FR) as [EK EW]. set (oX := internal [] s cm mm X b_empty) in *.
    destruct FR as [FR0 FR].
    apply (brel_beq _ _ _ _ (proj2 (framed_new_subprogram X iS) b) (FR b')).
    (* facts about the three compilations of s *)
    destruct Hi as (_ & (HD & HE & HPl) & LS & L0 & HWi).
    destruct (internal_grel [] X s cm Hgp mm X [] b_empty b_empty (tr_equiv_nil X)) as (KX & K0 & EX & E0 & HR).
    cbn [b_ch b_empty app] in EX, E0. fold oX in EX. fold i0 in E0. subst KX K0.
    destruct (internal_ss [] s cm mm X [] b_empty b_empty bss_empty) as (HS & HM & _). fold oX i0 in HS, HM.
    destruct (ss_children _ _ HS) as [HSd HSw].
    assert (LX : Forall lok (b_ch oX)) by (apply internal_lok; constructor).
    destruct (cplay_lrel X _ _ HR) as [HDx HPx].
    apply brel_place; auto.
    - (* the collapsed leaf against the uncollapsed children *)
      rewrite <- EK.
      destruct (b_ch iS) as [|y KS] eqn:ES.
      + assert (E0n : b_ch i0 = []) by (apply HE; reflexivity).
        assert (EXn : b_ch oX = []) by (apply (Forall2_nil_iff _ _ _ HR); exact E0n).
        rewrite EXn. split; [apply krel_refl|].
        cbn [app cwins]. assert (WR = []) by (apply FR0; rewrite <- EK; exact EXn). subst WR. apply Permutation_refl.
      + rewrite <- ES in *. assert (Hne : b_ch iS <> []) by (rewrite ES; discriminate).
        assert (Lp : lok (sub_prog iS)) by (apply sub_prog_lok; auto).
        destruct (to_waveform_ok _ Lp) as (Hpos & Hwd & _ & _ & _ & Hsm).
        assert (Hld : ldur (sub_prog iS) = body_dur (b_ch iS)) by (unfold sub_prog; rewrite ldur_node; lia).
        split.
        * split; [cbn [body_dur fold_right ldur]; rewrite with_global_dur, Hwd, Hld; lia|].
          split; [split; [discriminate|]; intros E; exfalso; apply Hne; apply HE; apply (Forall2_nil_iff _ _ _ HR); exact E|].
          intros c t Ht. cbn [body_dur fold_right ldur] in Ht. rewrite with_global_dur, Hwd, Hld in Ht.
          unfold cplay at 1. cbn [flat_map flat app wparts map walk]. rewrite with_global_dur, Hwd, Hld.
          rewrite in_range_true by lia. replace (t - 0) with t by lia.
          rewrite with_global_sample. rewrite HPx by lia.
          apply chain_apply_ext. intros k. rewrite Hsm by lia.
          unfold sub_prog. rewrite flat_top. apply HPl. lia.
        * rewrite cwins_single. change (windows (Leaf ?w)) with (@nil win). rewrite app_nil_r.
          unfold sub_prog. rewrite windows_node. cbn [tile]. rewrite app_nil_r.
          replace (0 * body_dur (b_ch iS)) with 0 by lia. rewrite map_wshift_0.
          eapply Permutation_trans; [exact HWi|]. unfold allw. rewrite <- HM, <- (HSw 0).
          apply Permutation_app_tail. exact EW.
    - destruct (b_ch iS) eqn:ES; [constructor|]. constructor; [|constructor].
      apply collapsed_leaf_lok. apply sub_prog_lok; [rewrite ES; discriminate|rewrite ES; exact LS].
    - rewrite <- EK. exact LX.
  Qed.

  Lemma internal_rel : forall p, P p.
  Proof.
    intros p. induction p as [i m d chs|i m subs IH|i m n body IH|i ren mren s IH|i ov s IH|i op l sc s IH|i s IH] using pt_ind2;
      intros cm mm X Hg b b' Hb; cbn [internal].
    - destruct ((d <=? 0) || match chs with [] => true | _ => false end) eqn:E; [exact Hb|].
      unfold play_atom.
      match goal with |- brel (b_append (b_measure _ ?m0) ?l0) _ =>
        apply (brel_same (fun b0 => b_append (b_measure b0 m0) l0) [l0] m0 b b' (framed_ma l0 m0)); [|exact Hb] end.
      constructor; [|constructor].
      pose proof (internal_lok [] (PAtom i m d chs) cm mm X b_empty (Forall_nil _)) as Hl. cbn [internal] in Hl.
      rewrite E in Hl. unfold play_atom in Hl. rewrite b_ch_append, b_ch_measure in Hl. cbn in Hl. inversion Hl; auto.
    - apply brel_pop. cbn [guard_int] in Hg. rewrite forallb_forall in Hg.
      assert (Hf : forall b1 b1', brel b1 b1' ->
                 brel (fold_left (fun b0 s => create S (internal S) s cm mm X b0) subs b1)
                      (fold_left (fun b0 s => create [] (internal []) s cm mm X b0) subs b1')).
      { clear b b' Hb. induction IH as [|s subs Hs _ IHsubs]; intros b1 b1' H1; cbn [fold_left]; [exact H1|].
        apply IHsubs; [intros x Hx; apply Hg; right; auto|].
        rewrite create_nil. apply create_rel; auto. apply (Hg s). left; auto. }
      apply Hf. apply brel_push. exact Hb.
    - destruct n as [|n']; [exact Hb|]. cbv zeta. cbn [guard_int] in Hg.
      pose proof (create_rel body IH cm mm X Hg b_empty b_empty brel_empty) as Hi.
      rewrite !create_nil.
      set (iS := create S (internal S) body cm mm X b_empty) in *. set (i0 := internal [] body cm mm X b_empty) in *.
      destruct Hi as (_ & HK & LS & L0 & HWi). destruct HK as (HD & HE & HPl).
      destruct (b_ch iS) as [|y KS] eqn:ES; destruct (b_ch i0) as [|y0 K0] eqn:E0.
      + exact Hb.
      + exfalso. destruct HE as [HE _]. specialize (HE eq_refl). discriminate.
      + exfalso. destruct HE as [_ HE]. specialize (HE eq_refl). discriminate.
      + rewrite <- ES, <- E0 in *.
        apply (brel_beq _ _ _ _ (proj2 (framed_ma _ _) b) (proj2 (framed_ma _ _) b')).
        assert (N1 : b_ch iS <> []) by (rewrite ES; discriminate). assert (N0 : b_ch i0 <> []) by (rewrite E0; discriminate).
        apply brel_place; auto.
        * split; [apply krel_node; auto; exact (conj HD (conj HE HPl))|].
          apply Permutation_app_head. rewrite !cwins_single, !windows_node, HD.
          apply tile_perm. exact HWi.
        * constructor; [|constructor]. apply lok_node. repeat split; auto; lia.
        * constructor; [|constructor]. apply lok_node. repeat split; auto; lia.
    - cbn [guard_int] in Hg. change (internal [] s ?a ?b ?c ?d) with (internal [] s a b c d).
      assert (E : forall cm' mm' b0, create [] (internal []) s cm' mm' X b0 = internal [] s cm' mm' X b0) by reflexivity.
      rewrite E. apply create_rel; auto.
    - cbn [guard_int] in Hg.
      assert (E : forall X' b0, create [] (internal []) s cm mm X' b0 = internal [] s cm mm X' b0) by reflexivity.
      rewrite E. apply create_rel; auto.
    - cbn [guard_int] in Hg.
      assert (E : forall X' b0, create [] (internal []) s cm mm X' b0 = internal [] s cm mm X' b0) by reflexivity.
      rewrite E. apply create_rel; auto.
    - cbv zeta. cbn [guard_int] in Hg. rewrite (internal_only_atoms_below S s Hg).
      unfold b_program.
      pose proof (internal_lok [] s cm mm X b_empty (Forall_nil _)) as Hl.
      destruct (b_ch (internal [] s cm mm X b_empty)) eqn:E; [exact Hb|]. rewrite <- E in *.
      match goal with |- brel (b_append _ ?l0) _ =>
        apply (brel_same (fun b0 => b_append b0 l0) [l0] [] b b' (framed_a l0)); [|exact Hb] end.
      constructor; [|constructor].
      apply reverse_lok. apply lok_node. split; [lia|]. split; [rewrite E; discriminate|exact Hl].
  Qed.
End single.

Lemma guard_par_nil : forall p cm, guard_par [] cm p = true.
Proof.
  intros p. induction p as [i m d chs|i m subs IH|i m n body IH|i ren mren s IH|i ov s IH|i op l sc s IH|i s IH] using pt_ind2;
    intros cm; cbn [guard_par chain_avoids forallb andb]; auto.
  apply forallb_forall. intros x Hx. rewrite Forall_forall in IH. apply IH; auto.
Qed.

Lemma play_top m K c t : play (Node 1 m K) c t = cplay K c t.
Proof. unfold play, play_parts, cplay. rewrite flat_top. reflexivity. Qed.
Lemma windows_top m K : windows (Node 1 m K) = m ++ cwins K 0.
Proof. rewrite windows_node. cbn [tile]. rewrite app_nil_r. replace (0 * body_dur K) with 0 by lia. apply map_wshift_0. Qed.

Lemma brel_programs b b' : brel b b' ->
  match b_program b, b_program b' with
  | Some l, Some l' => ldur l = ldur l' /\ Permutation (windows l) (windows l') /\
                       forall c t, 0 <= t < ldur l -> play l c t = play l' c t
  | None, None => True
  | _, _ => False
  end.
Proof.
  intros (_ & (HD & HE & HP) & _ & _ & HW). unfold b_program.
  destruct (b_ch b) as [|x K] eqn:E; destruct (b_ch b') as [|x' K'] eqn:E'.
  - exact I.
  - destruct HE as [HE _]. specialize (HE eq_refl). discriminate.
  - destruct HE as [_ HE]. specialize (HE eq_refl). discriminate.
  - rewrite !ldur_node, !windows_top. split; [lia|]. split; [unfold allw in HW; rewrite E, E' in HW; exact HW|].
    intros c t Ht. rewrite !play_top. apply HP. lia.
Qed.

Theorem single_waveform_thm : forall p S, guard_C05_single_waveform S p = true ->
  match compile p S [], compile p [] [] with
  | Some l, Some l' => ldur l = ldur l' /\ Permutation (windows l) (windows l') /\
                       forall c t, 0 <= t < ldur l -> play l c t = play l' c t
  | None, None => True
  | _, _ => False
  end.
Proof.
  intros p S Hg. unfold compile. apply brel_programs.
  rewrite create_nil. apply (create_rel S p (internal_rel S p)); [|apply brel_empty].
  unfold cguard. unfold guard_C05_single_waveform in Hg. rewrite Hg, guard_par_nil. destruct (in_S S (pid p)); reflexivity.
Qed.
