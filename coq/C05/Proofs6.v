(* C05 — proofs, part 6: the convenience constructors denote the same pulse as the explicit nesting they replace *)
From Coq Require Import List ZArith QArith Bool Lia Sorting.Permutation.
Require Import QV.C05.Model QV.C05.Spec QV.C05.Proofs QV.C05.Proofs2 QV.C05.Proofs3 QV.C05.Proofs4 QV.C05.Proofs5 QV.C05.Ctors.
Import ListNotations.
Open Scope Z_scope.

(* ---- generic tools ---- *)
Lemma guard_int_nil : forall p cm X, guard_int [] cm X p = true.
Proof.
  assert (NB : forall p, only_atoms_below [] p = true).
  { intros p. induction p as [i m d chs|i m subs IH|i m n body IH|i ren mren s IH|i ov s IH|i op l sc s IH|i s IH] using pt_ind2;
      cbn [only_atoms_below in_S existsb negb andb orb]; auto.
    apply forallb_forall. intros x Hx. rewrite Forall_forall in IH. cbn. apply IH; auto. }
  intros p. induction p as [i m d chs|i m subs IH|i m n body IH|i ren mren s IH|i ov s IH|i op l sc s IH|i s IH] using pt_ind2;
    intros cm X; cbn [guard_int in_S existsb]; auto.
  apply forallb_forall. intros x Hx. rewrite Forall_forall in IH. apply IH; auto.
Qed.

(* the same template on related builder states gives related builder states *)
Lemma internal_cong p cm mm X b b' : brel b b' -> brel (internal [] p cm mm X b) (internal [] p cm mm X b').
Proof. intros H. apply (internal_rel [] p cm mm X (guard_int_nil p cm X) b b' H). Qed.

Lemma brel_same2 F F' K W W' b b' : framed F K W -> framed F' K W' -> Permutation W W' -> Forall lok K ->
  brel b b' -> brel (F b) (F' b').
Proof.
  intros [_ HF] [_ HF'] HW LK H. apply (brel_beq _ _ _ _ (HF b) (HF' b')). apply brel_place; auto.
  split; [apply krel_refl|]. apply Permutation_app_tail. exact HW.
Qed.

Lemma framed_lok F K W : framed F K W -> (forall b, Forall lok (b_ch b) -> Forall lok (b_ch (F b))) -> Forall lok K.
Proof.
  intros HF HL. destruct (framed_at_empty _ _ _ HF) as [E _]. rewrite <- E. apply HL. constructor.
Qed.

Lemma same_prog_brel b b' : brel b b' -> same_prog (b_program b) (b_program b').
Proof. exact (brel_programs b b'). Qed.

Definition fold_c (cm : chan -> chan) (mm : N -> N) (G : list trafo) (subs : list pt) (b : bst) : bst :=
  fold_left (fun b' s => create [] (internal []) s cm mm G b') subs b.

Lemma fold_c_app cm mm G l1 l2 b : fold_c cm mm G (l1 ++ l2) b = fold_c cm mm G l2 (fold_c cm mm G l1 b).
Proof. apply fold_left_app. Qed.

Lemma fold_c_lok cm mm G subs : forall b, Forall lok (b_ch b) -> Forall lok (b_ch (fold_c cm mm G subs b)).
Proof.
  induction subs as [|s subs IH]; intros b Hb; [exact Hb|].
  change (fold_c cm mm G (s :: subs) b) with (fold_c cm mm G subs (create [] (internal []) s cm mm G b)).
  apply IH. apply create_lok; auto. apply internal_lok.
Qed.

Lemma fold_c_cong cm mm G subs : forall b b', brel b b' -> brel (fold_c cm mm G subs b) (fold_c cm mm G subs b').
Proof.
  induction subs as [|s subs IH]; intros b b' H; [exact H|].
  change (fold_c cm mm G (s :: subs) b) with (fold_c cm mm G subs (create [] (internal []) s cm mm G b)).
  change (fold_c cm mm G (s :: subs) b') with (fold_c cm mm G subs (create [] (internal []) s cm mm G b')).
  apply IH. rewrite !create_nil. apply internal_cong; auto.
Qed.

(* ---- 1. concatenate ---- *)
(* an unnamed sequence without measurements in a sequence = its subtemplates in place *)
Lemma seq_inline j subs cm mm G b b' : brel b b' ->
  brel (fold_c cm mm G subs b) (internal [] (PSeq j [] subs) cm mm G b').
Proof.
  intros H. cbn [internal mwins map].
  destruct (fold_framed [] cm mm G subs) as (K & W & FK).
  { apply Forall_forall. intros x _. apply internal_framed. }
  pose proof (framed_push_pop _ _ _ [] FK) as FP.
  apply (brel_same2 _ _ K W (match K with [] => [] | _ => [] ++ W end) b b' FK FP); auto.
  - destruct K; [rewrite (proj1 FK eq_refl)|]; apply Permutation_refl.
  - apply (framed_lok _ _ _ FK). intros b0 Hb0. apply (fold_c_lok cm mm G subs b0 Hb0).
Qed.

Lemma concat_fold cm mm G args : forall b b', brel b b' ->
  brel (fold_c cm mm G (flat_map concat_parts args) b) (fold_c cm mm G (map snd args) b').
Proof.
  induction args as [|[u a] args IH]; intros b b' H; [exact H|].
  cbn [flat_map map snd]. rewrite fold_c_app. change (fold_c cm mm G (a :: map snd args) b')
    with (fold_c cm mm G (map snd args) (create [] (internal []) a cm mm G b')).
  apply IH. rewrite create_nil.
  assert (D : brel (fold_c cm mm G [a] b) (internal [] a cm mm G b')).
  { change (fold_c cm mm G [a] b) with (create [] (internal []) a cm mm G b). rewrite create_nil.
    apply internal_cong; auto. }
  destruct u; [|exact D]. destruct a as [i m d chs|j m subs|i m n body|i ren mren s|i ov s|i op l sc s|i s]; try exact D.
  destruct m; [|exact D]. cbn [concat_parts]. apply seq_inline; auto.
Qed.

Theorem ctor_concat_same : forall i args G,
  same_prog (compile (ctor_concat i args) [] G) (compile (explicit_concat i args) [] G).
Proof.
  intros i args G. unfold compile. apply same_prog_brel. rewrite !create_nil. unfold ctor_concat, explicit_concat.
  cbn [internal]. apply brel_pop. apply (concat_fold _ _ G args). apply brel_push. apply brel_empty.
Qed.

(* pad_to *)
Theorem ctor_pad_same : forall i j u p d final G,
  same_prog (compile (ctor_pad i j u p d final) [] G) (compile (if d =? 0 then p else explicit_pad i j p d final) [] G).
Proof.
  intros. unfold ctor_pad. destruct (d =? 0).
  - unfold compile. apply same_prog_brel. rewrite !create_nil. apply internal_cong. apply brel_empty.
  - apply (ctor_concat_same i [(u, p); (false, PAtom j [] d final)] G).
Qed.
(* a pad of duration <= 0 plays nothing: the explicit sequence with it denotes the template itself *)
Theorem ctor_pad_zero : forall i j p d final G, d <= 0 ->
  same_prog (compile p [] G) (compile (explicit_pad i j p d final) [] G).
Proof.
  intros i j p d final G Hd. unfold compile, explicit_pad. apply same_prog_brel. rewrite !create_nil.
  assert (E : forall b, fold_c (fun c => c) (fun n => n) G [p; PAtom j [] d final] b = internal [] p (fun c => c) (fun n => n) G b).
  { intros b. change (fold_c (fun c => c) (fun n => n) G [p; PAtom j [] d final] b)
      with (create [] (internal []) (PAtom j [] d final) (fun c => c) (fun n => n) G
              (create [] (internal []) p (fun c => c) (fun n => n) G b)).
    rewrite !create_nil. cbn [internal]. replace (d <=? 0) with true by (symmetry; apply Z.leb_le; lia). reflexivity. }
  pose proof (seq_inline i [p; PAtom j [] d final] (fun c => c) (fun n => n) G b_empty b_empty brel_empty) as H.
  rewrite E in H. exact H.
Qed.

(* ---- transformations that act alike give the same pulse ---- *)
Lemma internal_treq x cm mm X Y b b' : tr_equiv X Y [] -> brel b b' ->
  brel (internal [] x cm mm X b) (internal [] x cm mm Y b').
Proof.
  intros HE H.
  destruct (internal_framed [] x cm mm X) as (KX & WX & FX). destruct (internal_framed [] x cm mm Y) as (KY & WY & FY).
  destruct (framed_at_empty _ _ _ FX) as [EKX EWX]. destruct (framed_at_empty _ _ _ FY) as [EKY EWY].
  apply (brel_beq _ _ _ _ (proj2 FX b) (proj2 FY b')).
  destruct (internal_grel [] [] x cm (guard_par_nil x cm) mm X Y b_empty b_empty HE) as (K1 & K2 & E1 & E2 & HR).
  cbn [b_ch b_empty app] in E1, E2. rewrite EKX in E1. rewrite EKY in E2. subst K1 K2.
  destruct (internal_ss [] x cm mm X Y b_empty b_empty bss_empty) as (HS & HM & _). rewrite EKX, EKY in HS.
  destruct (ss_children _ _ HS) as [_ HSw]. destruct (cplay_lrel [] _ _ HR) as [HD HP].
  apply brel_place; auto.
  - split; [split; [exact HD|]; split; [apply (Forall2_nil_iff _ _ _ HR)|exact HP]|].
    rewrite (HSw 0). apply Permutation_app_tail.
    eapply Permutation_trans; [apply Permutation_sym; exact EWX|]. rewrite HM. exact EWY.
  - rewrite <- EKX. apply internal_lok. constructor.
  - rewrite <- EKY. apply internal_lok. constructor.
Qed.

(* ---- 5. chained with_parallel_channels ---- *)
Lemma alookup_app {A} c (a b : list (chan * A)) :
  alookup c (a ++ b) = match alookup c a with Some x => Some x | None => alookup c b end.
Proof. induction a as [|[k v] a IH]; cbn; [reflexivity|]. destruct (N.eqb c k); auto. Qed.

Lemma par_merge_equiv (v o : list (chan * Q)) G : disjointb (map fst v) (map fst o) = true ->
  tr_equiv (G ++ [TParallel (v ++ o)]) ((G ++ [TParallel v]) ++ [TParallel o]) [].
Proof.
  intros D f c. cbn [chain_apply]. rewrite !chain_apply_app. cbn [chain_apply tr_apply].
  rewrite alookup_app. destruct (alookup c v) eqn:Ev.
  - assert (Hc : cmem c (map fst v) = true) by (apply cmem_false_map_fst; congruence).
    rewrite (alookup_none_cmem _ _ (disjointb_spec _ _ c D Hc)).
    rewrite chain_apply_app. cbn [chain_apply tr_apply]. rewrite Ev. reflexivity.
  - destruct (alookup c o); [reflexivity|]. rewrite chain_apply_app. cbn [chain_apply tr_apply]. rewrite Ev. reflexivity.
Qed.

Lemma map_pair_id {A} (l : list (chan * A)) : map (fun cv => (fst cv, snd cv)) l = l.
Proof. induction l as [|[k v] l IH]; cbn; [reflexivity|]. rewrite IH. reflexivity. Qed.

Theorem ctor_par_same : forall i j values old x G, disjointb (map fst values) (map fst old) = true ->
  same_prog (compile (PPar i (values ++ old) x) [] G) (compile (PPar i values (PPar j old x)) [] G).
Proof.
  intros i j v o x G D. unfold compile. apply same_prog_brel. rewrite !create_nil. cbn [internal].
  rewrite !create_nil. cbn [internal]. rewrite !create_nil, !map_pair_id.
  apply internal_treq; [apply par_merge_equiv; exact D|apply brel_empty].
Qed.

(* without the guard the explicit nesting lets the INNER value win (finding parallel_channel_before_global_
   transformation), the merged dict the new one *)
Lemma same_prog_fails o o' c t :
  differs_at o o' play c t = true -> ~ same_prog o o'.
Proof.
  unfold same_prog, differs_at. destruct o as [l|], o' as [l'|]; try discriminate.
  intros H (_ & _ & Hs). apply andb_true_iff in H as [H Hn]. apply andb_true_iff in H as [A B].
  apply Z.leb_le in A. apply Z.ltb_lt in B. rewrite (Hs c t (conj A B)), oq_eqb_refl in Hn. discriminate.
Qed.
Theorem ctor_par_refuted : exists i j values old x,
  ~ same_prog (compile (PPar i (values ++ old) x) [] []) (compile (PPar i values (PPar j old x)) [] []).
Proof.
  exists 3%N, 2%N, [(2%N, 5%Q)], [(2%N, 1%Q)], (PAtom 1 [] 2 [(1%N, CConst (Some 3%Q))]).
  apply (same_prog_fails _ _ 2%N 0). vm_compute. reflexivity.
Qed.

(* ---- 7. with_time_reversal twice ---- *)
Lemma body_dur_rev l : body_dur (rev l) = body_dur l.
Proof.
  induction l as [|x l IH]; [reflexivity|]. cbn [rev]. rewrite body_dur_app, IH, !body_dur_cons.
  change (body_dur []) with 0. lia.
Qed.
Lemma reverse_ldur : forall l, ldur (reverse_loop l) = ldur l.
Proof.
  induction l as [w|r m ch IH] using loop_ind2; [cbn; apply wreversed_dur|].
  cbn [reverse_loop]. rewrite !ldur_node, body_dur_rev. f_equal.
  induction IH as [|x xs Hx _ IHxs]; [reflexivity|]. cbn [map]. rewrite !body_dur_cons, Hx, IHxs. reflexivity.
Qed.
Lemma body_dur_map_rev ch : body_dur (rev (map reverse_loop ch)) = body_dur ch.
Proof.
  rewrite body_dur_rev. induction ch as [|x xs IH]; [reflexivity|]. cbn [map]. rewrite !body_dur_cons, reverse_ldur, IH. reflexivity.
Qed.
Lemma mirror2 d (m : list win) :
  map (fun w : win => let '(n, b, len) := w in (n, d - (b + len), len))
      (map (fun w : win => let '(n, b, len) := w in (n, d - (b + len), len)) m) = m.
Proof.
  rewrite map_map. rewrite <- (map_id m) at 2. apply map_ext. intros [[n b] len]. f_equal. f_equal. lia.
Qed.

Definition rr (l : loop) : loop := reverse_loop (reverse_loop l).
Lemma rr_node r m ch : rr (Node r m ch) = Node r m (map rr ch).
Proof.
  unfold rr. cbn [reverse_loop]. rewrite body_dur_map_rev, mirror2, map_rev, rev_involutive, map_map. reflexivity.
Qed.
Lemma Forall_Forall2_map {A} (R : A -> A -> Prop) (f : A -> A) l : Forall (fun x => R (f x) x) l -> Forall2 R (map f l) l.
Proof. induction 1; cbn; constructor; auto. Qed.

Lemma rr_ss : forall l, ss (rr l) l.
Proof.
  induction l as [w|r m ch IH] using loop_ind2.
  - unfold rr. cbn. constructor. rewrite !wreversed_dur. reflexivity.
  - rewrite rr_node. constructor. apply Forall_Forall2_map. exact IH.
Qed.
Lemma rr_lrel : forall l, lrel [] (rr l) l.
Proof.
  induction l as [w|r m ch IH] using loop_ind2.
  - unfold rr. cbn [reverse_loop]. constructor. split; [rewrite !wreversed_dur; reflexivity|].
    intros c t. cbn [chain_apply]. rewrite !wreversed_sample, wreversed_dur. f_equal. lia.
  - rewrite rr_node. constructor. apply Forall_Forall2_map. exact IH.
Qed.

Lemma rev2_step i j p cm mm G b b' : brel b b' ->
  brel (internal [] p cm mm G b) (internal [] (PRev i (PRev j p)) cm mm G b').
Proof.
  intros H. cbn [internal]. cbv zeta.
  destruct (internal_framed [] p cm mm G) as (K & W & FK). destruct (framed_at_empty _ _ _ FK) as [EK EW].
  pose proof (internal_lok [] p cm mm G b_empty (Forall_nil _)) as LK.
  set (o := internal [] p cm mm G b_empty) in *. unfold b_program at 2.
  destruct (b_ch o) as [|y K0] eqn:E.
  - subst K. cbn [b_program b_ch b_empty]. apply (brel_beq _ _ _ _ (proj2 FK b) (beq_refl b')). exact H.
  - assert (Hne : b_ch o <> []) by (rewrite E; discriminate). rewrite <- E in *. clear E y K0.
    set (N1 := Node 1 (b_meas o) (b_ch o)).
    assert (EI : b_program (b_append b_empty (reverse_loop N1)) = Some (Node 1 [] [reverse_loop N1])) by reflexivity.
    rewrite EI.
    assert (ER : reverse_loop (Node 1 [] [reverse_loop N1]) = Node 1 [] [rr N1]) by reflexivity.
    rewrite ER.
    assert (LN : lok N1) by (apply lok_node; repeat split; auto).
    assert (LR : lok (rr N1)) by (apply reverse_lok; apply reverse_lok; exact LN).
    apply (brel_beq _ _ _ _ (proj2 FK b) (proj2 (framed_a (Node 1 [] [rr N1])) b')).
    destruct (lrel_flat [] _ _ (rr_lrel N1)) as [HD HF].
    destruct (ss_dur_windows _ _ (rr_ss N1)) as [_ HWs].
    assert (HdN : ldur N1 = body_dur K) by (unfold N1; rewrite ldur_node, EK; lia).
    apply brel_place; auto.
    + split.
      * split; [rewrite body_dur_cons, ldur_node, body_dur_cons, HD, HdN; change (body_dur []) with 0; lia|].
        split; [split; [intros Q; exfalso; apply Hne; rewrite EK; exact Q|discriminate]|].
        intros c t Ht. symmetry. unfold cplay at 1. cbn [flat_map]. rewrite flat_top. cbn [flat_map]. rewrite !app_nil_r.
        rewrite (walk_rel [] c _ _ HF 0 t) by (rewrite wsum_flat, HD, HdN; lia). cbn [chain_apply].
        unfold N1. rewrite flat_top, EK. reflexivity.
      * rewrite cwins_single, windows_top, cwins_single, HWs. unfold N1. rewrite windows_top, EK. cbn [app].
        apply Permutation_app_tail. apply Permutation_sym. exact EW.
    + rewrite <- EK. exact LK.
    + constructor; [|constructor]. apply lok_node. repeat split; [lia|discriminate|]. constructor; [exact LR|constructor].
Qed.

Theorem ctor_rev2_same : forall i j p G, same_prog (compile p [] G) (compile (PRev i (PRev j p)) [] G).
Proof.
  intros i j p G. unfold compile. apply same_prog_brel. rewrite !create_nil. apply rev2_step. apply brel_empty.
Qed.
