(* C05 — property theorems (statements only; proofs live in Proofs.v). *)
From Coq Require Import List ZArith QArith Bool.
Require Import QV.C05.Model QV.C05.Proofs.
Import ListNotations.

Theorem C05_chain_order : forall G1 G2 f c, chain_apply (G1 ++ G2) f c = chain_apply G2 (chain_apply G1 f) c.
Proof. exact chain_apply_app. Qed.
Print Assumptions C05_chain_order.
