(* C05 — property theorems (statements only; proofs live in Proofs*.v). *)
From Coq Require Import List ZArith QArith Bool Sorting.Permutation.
Require Import QV.C05.Model QV.C05.Spec QV.C05.Param QV.C05.Proofs QV.C05.Proofs2 QV.C05.Proofs3 QV.C05.Proofs4 QV.C05.Proofs5 QV.C05.Ctors QV.C05.Proofs6 QV.C05.Proofs7 QV.C05.ProofsP QV.C05.Proofs8 QV.C05.Proofs9 QV.C05.Proofs10 QV.C05.Proofs11 QV.C05.Proofs12 QV.C05.Proofs13 QV.C05.Proofs14.
Import ListNotations.
Open Scope Z_scope.

(* to_waveform (the waveform a collapsed sub-program is turned into) plays exactly the program, for every
   well-formed program tree (any depth, any repetition counts), every channel and every time in [0, duration) *)
Theorem C05_to_waveform_plays_program : forall l, lok l ->
  wdur (to_waveform l) = ldur l /\ forall c t, 0 <= t < ldur l -> usample (to_waveform l) c t = play l c t.
Proof. exact to_waveform_thm. Qed.
Print Assumptions C05_to_waveform_plays_program.

(* global transformation: T applied pointwise to the untransformed output, same duration — for every template tree,
   every set S of collapsed nodes and every chain G, under the executable guard that no ParallelChannelPT overwrites a
   channel G touches *)
Theorem C05_global_transformation : forall p S G, guard_C05_parallel_order G p = true ->
  match compile p S G, compile p S [] with
  | Some l, Some l' => ldur l = ldur l' /\
                       forall c t, 0 <= t < ldur l -> play l c t = chain_apply G (fun c' => play l' c' t) c
  | None, None => True
  | _, _ => False
  end.
Proof. exact global_transformation_thm. Qed.
Print Assumptions C05_global_transformation.

(* without the guard the faithful model of the unchanged code violates it: (ConstantPT || B=1) under a scaling of B *)
Theorem C05_global_transformation_refuted : exists p S G, ~ transformed_play p S G.
Proof. exists w_par, [], [TScale [(1%N, 2%Q); (2%N, 2%Q)]]. exact refute_global. Qed.
Print Assumptions C05_global_transformation_refuted.

(* the measurement windows (same list, not only the same multiset) and the duration do not depend on the global
   transformation at all: for every template tree, every set S and every two chains G, G' - NO guard (round 5; the
   guarded theorem above says nothing about windows) *)
Theorem C05_global_transformation_windows : forall p S G G',
  match compile p S G, compile p S G' with
  | Some l, Some l' => ldur l = ldur l' /\ windows l = windows l'
  | None, None => True
  | _, _ => False
  end.
Proof. exact global_transformation_windows. Qed.
Print Assumptions C05_global_transformation_windows.
(* not vacuous: windows on three levels, a collapsed repetition, a channel-changing chain: a program with 5 windows *)
Example C05_global_transformation_windows_nonvacuous :
  exists l, compile w_windows [3%N] [TLinear [1%N] [3%N] [[2%Q]]] = Some l /\ length (windows l) = 5%nat.
Proof. exact windows_nonvacuous. Qed.

(* every compiled program is well-formed (leaves last a positive time, nodes repeat at least once and have children),
   for every template tree, set S and transformation G *)
Theorem C05_compiled_wellformed : forall p S G l, compile p S G = Some l -> lok l.
Proof. exact compile_lok. Qed.
Print Assumptions C05_compiled_wellformed.

(* single waveform: for EVERY template tree and EVERY set S of collapsed nodes (under the executable guard that
   excludes the two confirmed defect classes) the program compiled with S plays the same voltages at every time,
   lasts as long and has the same measurement windows (as a multiset) as the plain compilation; both are None
   together.  Induction on the template over builder states (Proofs4: frame lemma, Proofs5: the induction). *)
Theorem C05_single_waveform : forall p S, guard_C05_single_waveform S p = true ->
  match compile p S [], compile p [] [] with
  | Some l, Some l' => ldur l = ldur l' /\ Permutation (windows l) (windows l') /\
                       forall c t, 0 <= t < ldur l -> play l c t = play l' c t
  | None, None => True
  | _, _ => False
  end.
Proof. exact single_waveform_thm. Qed.
Print Assumptions C05_single_waveform.

(* BOTH options together against the plain run (round 6) - the comparison the property statement makes and check_spec
   evaluates: for every template tree, every set S and every chain G inside both guards,
   create_program(to_single_waveform=S, global_transformation=G) lasts as long as the plain create_program(), has the
   same measurement windows (multiset) and plays G applied pointwise to the plain voltages; both are None together *)
Theorem C05_options_vs_plain : forall p S G,
  guard_C05_single_waveform S p = true -> guard_C05_parallel_order G p = true ->
  match compile p S G, compile p [] [] with
  | Some l, Some l' => ldur l = ldur l' /\ Permutation (windows l) (windows l') /\
                       forall c t, 0 <= t < ldur l -> play l c t = chain_apply G (fun c' => play l' c' t) c
  | None, None => True
  | _, _ => False
  end.
Proof. exact options_thm. Qed.
Print Assumptions C05_options_vs_plain.
(* the same for parametrised templates under every parameter assignment (guards on the instantiated template) *)
Theorem C05_options_vs_plain_param : forall q ps S G,
  guard_C05_single_waveform S (inst (scope_of ps) q) = true -> guard_C05_parallel_order G (inst (scope_of ps) q) = true ->
  match compile_q q ps S G, compile_q q ps [] [] with
  | Some l, Some l' => ldur l = ldur l' /\ Permutation (windows l) (windows l') /\
                       forall c t, 0 <= t < ldur l -> play l c t = chain_apply G (fun c' => play l' c' t) c
  | None, None => True
  | _, _ => False
  end.
Proof. exact options_param. Qed.
Print Assumptions C05_options_vs_plain_param.
(* not vacuous: three collapsed nodes and an offset + channel-changing linear chain on w_good satisfy both guards, both
   runs compile, the option run has fewer leaves, the plain run has windows, and the voltages on the new channel differ *)
Example C05_options_vs_plain_nonvacuous :
  guard_C05_single_waveform S_good w_good = true /\ guard_C05_parallel_order G_good w_good = true /\
  exists l l', compile w_good S_good G_good = Some l /\ compile w_good [] [] = Some l' /\
               (length (flat l) < length (flat l'))%nat /\ windows l' <> [] /\ play l 3%N 0 <> play l' 3%N 0.
Proof. exact options_nonvacuous. Qed.

(* the step it rests on: one collapse (new_subprogram: to_waveform + global transformation) of any well-formed program
   plays X applied to that program and keeps the duration *)
Theorem C05_collapse_step : forall prog X, lok prog ->
  wdur (with_global (to_waveform prog) X) = ldur prog /\
  forall c t, 0 <= t < ldur prog ->
    usample (with_global (to_waveform prog) X) c t = chain_apply X (fun c' => play prog c' t) c.
Proof. exact collapse_step. Qed.
Print Assumptions C05_collapse_step.

(* without the guard: a node collapsed below the inner template of a time reversal (NaN at the first sample, wrong
   piece at the junction), and a collapsed parallel-channel node below an arithmetic template *)
Theorem C05_single_waveform_refuted_reversal : exists p S, ~ same_play p S.
Proof. exists w_rev, [3%N]. exact refute_single_reversal. Qed.
Print Assumptions C05_single_waveform_refuted_reversal.
Theorem C05_single_waveform_refuted_parallel : exists p S, ~ same_play p S.
Proof. exists w_par_times_2, [2%N]. exact refute_single_parallel. Qed.
Print Assumptions C05_single_waveform_refuted_parallel.

(* collapsing an ATOMIC template is the identity on builder states (the sub-program is one leaf, to_waveform hands it
   back, the windows move from the sub-program to the parent unchanged): for every S, mapping, transformation and
   builder state.  This is why the reversal clause of the guard only excludes collapsed COMPOSITE templates. *)
Theorem C05_atom_collapse_identity : forall S i m d chs cm mm X b,
  create S (internal S) (PAtom i m d chs) cm mm X b = internal [] (PAtom i m d chs) cm mm X b.
Proof. exact create_atom_collapse. Qed.
Print Assumptions C05_atom_collapse_identity.
(* the refuted witness is outside the shrunk guard; an atom collapsed below the same reversal is inside *)
Example C05_reversal_guard_exact :
  guard_C05_single_waveform [3%N] w_rev = false /\ guard_C05_single_waveform [6%N; 1%N] w_rev = true.
Proof. split; vm_compute; reflexivity. Qed.

(* the guards are satisfiable by a non-trivial input (arithmetic around a parallel channel, reversal, repetition,
   three collapsed nodes) and the guarded theorem is not vacuous on it *)
Example C05_guards_satisfiable :
  guard_C05_single_waveform [13%N; 14%N; 17%N] w_good = true /\
  guard_C05_parallel_order [TOffset [(1%N, 1%Q)]; TLinear [1%N] [3%N] [[2%Q]]] w_good = true /\
  (exists l, compile w_good [13%N; 14%N; 17%N] [TOffset [(1%N, 1%Q)]; TLinear [1%N] [3%N] [[2%Q]]] = Some l /\ lok l).
Proof. split; [vm_compute; reflexivity|]. split; [vm_compute; reflexivity|]. eexists. split; [vm_compute; reflexivity|].
  cbn. repeat split; try discriminate; auto with zarith. Qed.

(* ---- convenience constructors (Ctors.v models what each does to the template) denote the same pulse as the explicit
        nesting they replace: same duration, same windows (multiset), same voltages at every time; for every global
        transformation G, nothing collapsed ---- *)
(* SequencePT.concatenate / `@` / with_appended (unnamed measurement-free sequences are inlined) *)
Theorem C05_ctor_concatenate : forall i args G,
  same_prog (compile (ctor_concat i args) [] G) (compile (explicit_concat i args) [] G).
Proof. exact ctor_concat_same. Qed.
Print Assumptions C05_ctor_concatenate.

(* pad_to: self when the pad is empty, else the concatenation with the constant pad; and an explicit sequence with a
   pad of duration <= 0 denotes the template itself *)
Theorem C05_ctor_pad_to : forall i j u p d final G,
  same_prog (compile (ctor_pad i j u p d final) [] G) (compile (if d =? 0 then p else explicit_pad i j p d final) [] G).
Proof. exact ctor_pad_same. Qed.
Print Assumptions C05_ctor_pad_to.
Theorem C05_ctor_pad_zero : forall i j p d final G, d <= 0 ->
  same_prog (compile p [] G) (compile (explicit_pad i j p d final) [] G).
Proof. exact ctor_pad_zero. Qed.
Print Assumptions C05_ctor_pad_zero.

(* with_time_reversal twice (the unnamed first reversal is unwrapped) *)
Theorem C05_ctor_double_reversal : forall i j p G, same_prog (compile p [] G) (compile (PRev i (PRev j p)) [] G).
Proof. exact ctor_rev2_same. Qed.
Print Assumptions C05_ctor_double_reversal.

(* chained with_parallel_channels (value dicts merged): same pulse when the two dicts overwrite different channels;
   refuted otherwise (the explicit nesting lets the INNER value win: finding parallel_channel_before_global_transformation) *)
Theorem C05_ctor_parallel_channels : forall i j values old x G, disjointb (map fst values) (map fst old) = true ->
  same_prog (compile (PPar i (values ++ old) x) [] G) (compile (PPar i values (PPar j old x)) [] G).
Proof. exact ctor_par_same. Qed.
Print Assumptions C05_ctor_parallel_channels.
Theorem C05_ctor_parallel_channels_refuted : exists i j values old x,
  ~ same_prog (compile (PPar i (values ++ old) x) [] []) (compile (PPar i values (PPar j old x)) [] []).
Proof. exact ctor_par_refuted. Qed.
Print Assumptions C05_ctor_parallel_channels_refuted.

(* RepetitionPT.with_repetition / `**`: an unnamed measurement-free RepetitionPT has its count multiplied (m inner,
   n outer); same pulse as the explicit nesting, for all counts incl. 0, all bodies, all G *)
Theorem C05_ctor_repetition_merge : forall i j m n body G,
  same_prog (compile (PRep i [] (m * n) body) [] G) (compile (PRep i [] n (PRep j [] m body)) [] G).
Proof. exact ctor_rep_merge. Qed.
Print Assumptions C05_ctor_repetition_merge.
Theorem C05_ctor_repetition : forall i u n p G,
  same_prog (compile (ctor_rep i u n p) [] G) (compile (PRep i [] n p) [] G).
Proof. exact ctor_rep_same. Qed.
Print Assumptions C05_ctor_repetition.

(* ---- parametrised templates (Param.v): scopes, parameter mappings that rebind names, loop indices ---- *)
(* the code threads a scope through _internal_create_program and asks the builder (whose frame stack `its` remembers
   the running loop indices) for the body scope of loops and repetitions.  For EVERY template, set S, scope, mappings,
   transformation, builder state and EVERY frame stack this builds exactly what the closed template `inst sc q`
   builds: the frame stack never reaches the scope (what a MappingPT rebinds between a loop and a repetition stays
   rebound), and no option set can change which scope a sub-template sees *)
Theorem C05_scope_threading : forall S q sc cm mm G its b,
  internal_q S q sc cm mm G its b = internal S (inst sc q) cm mm G b.
Proof. exact internal_q_inst. Qed.
Print Assumptions C05_scope_threading.
Theorem C05_compile_param : forall q ps S G, compile_q q ps S G = compile (inst (scope_of ps) q) S G.
Proof. exact compile_q_inst. Qed.
Print Assumptions C05_compile_param.

(* the two option theorems for parametrised templates (guards evaluated on the instantiated template) *)
Theorem C05_single_waveform_param : forall q ps S, guard_C05_single_waveform S (inst (scope_of ps) q) = true ->
  match compile_q q ps S [], compile_q q ps [] [] with
  | Some l, Some l' => ldur l = ldur l' /\ Permutation (windows l) (windows l') /\
                       forall c t, 0 <= t < ldur l -> play l c t = play l' c t
  | None, None => True
  | _, _ => False
  end.
Proof. exact single_waveform_param. Qed.
Print Assumptions C05_single_waveform_param.
Theorem C05_global_transformation_param : forall q ps S G, guard_C05_parallel_order G (inst (scope_of ps) q) = true ->
  match compile_q q ps S G, compile_q q ps S [] with
  | Some l, Some l' => ldur l = ldur l' /\
                       forall c t, 0 <= t < ldur l -> play l c t = chain_apply G (fun c' => play l' c' t) c
  | None, None => True
  | _, _ => False
  end.
Proof. exact global_transformation_param. Qed.
Print Assumptions C05_global_transformation_param.

(* ---- chained with_mapping: MappingPT(MappingPT(x, r1, m1, pm1), ren, mren, pm) with an unnamed inner mapping is merged
        (renamings composed, parameter mappings substituted) ---- *)
(* the merged renaming acts like the composition (no side condition: first match wins on both sides) *)
Theorem C05_ren_merge : forall r1 r2 k, ren_get (ren_merge r1 r2) k = ren_get r2 (ren_get r1 k).
Proof. exact ren_merge_get. Qed.
Print Assumptions C05_ren_merge.
(* MappedScope over MappedScope = MappedScope of the substituted mapping, name by name (covers x -> 2x below x -> x+1,
   swaps, partial mappings) *)
Theorem C05_mapped_scope_merge : forall sc pm1 pm y, smap (smap sc pm) pm1 y = smap sc (pm_merge pm1 pm) y.
Proof. exact smap_merge. Qed.
Print Assumptions C05_mapped_scope_merge.
(* closed templates: the two compilations are EQUAL programs, for every G and every S that does not name the inner
   mapping; and the constructor of Ctors.v denotes the same pulse as the explicit nesting *)
Theorem C05_ctor_mapping_eq : forall S i j ren mren r1 m1 x G, in_S S j = false ->
  compile (PMap i (ren_merge r1 ren) (ren_merge m1 mren) x) S G = compile (PMap i ren mren (PMap j r1 m1 x)) S G.
Proof. exact ctor_map_eq. Qed.
Print Assumptions C05_ctor_mapping_eq.
Theorem C05_ctor_mapping : forall i u ren mren p G,
  same_prog (compile (ctor_map i u ren mren p) [] G) (compile (PMap i ren mren p) [] G).
Proof. exact ctor_map_same. Qed.
Print Assumptions C05_ctor_mapping.
(* parametrised templates, with parameter mappings: equal programs for every parameter assignment *)
Theorem C05_ctor_mapping_param : forall S i j ren mren pm r1 m1 pm1 x ps G, in_S S j = false ->
  compile_q (QMap i (ren_merge r1 ren) (ren_merge m1 mren) (pm_merge pm1 pm) x) ps S G
  = compile_q (QMap i ren mren pm (QMap j r1 m1 pm1 x)) ps S G.
Proof. exact ctor_map_param. Qed.
Print Assumptions C05_ctor_mapping_param.

(* ---- with_parallel_atomic (AtomicMultiChannelPT is part of the model: Param.pamc) ---- *)
(* on an unnamed AtomicMultiChannelPT receiver the new atoms are appended to its sub-templates (measurements kept): the
   same windows, duration and (sorted) channel list as the explicit nesting, hence the SAME program for every
   parameter assignment, S and G — when the receiver's sub-templates define pairwise different channels (anything
   else is rejected by the constructor of AtomicMultiChannelPT).  A named or non-AtomicMultiChannelPT receiver IS the
   explicit nesting. *)
Theorem C05_ctor_parallel_atomic : forall i m subs new ps S G, NoDup (map fst (amc_chans (scope_of ps) subs)) ->
  compile_q (QAtom i (MNode m (subs ++ new))) ps S G = compile_q (QAtom i (MNode [] (MNode m subs :: new))) ps S G.
Proof. exact ctor_paratomic_param. Qed.
Print Assumptions C05_ctor_parallel_atomic.
Example C05_parallel_atomic_nonvacuous :
  NoDup (map fst (amc_chans (scope_of []) [MLeaf [] (AConst (EAff 2 []) [(1%N, EAff 1 [])]);
                                          MLeaf [] (AFun 2%N (EAff 2 []) 1%Q (EAff 0 []))])).
Proof. vm_compute. constructor; [intros [H|[]]; discriminate|]. constructor; [intros []|constructor]. Qed.

(* ---- the constant fold of TransformingWaveform.from_transformation (round 4: it lists the keys Transformation.__call__
        returns - a LinearTransformation none of whose inputs is among the data forwards everything and adds nothing):
        for EVERY waveform, chain, channel and time the folded waveform samples like the transformation applied pointwise ---- *)
Theorem C05_constant_fold_pointwise : forall w X c t,
  usample (from_transformation w X) c t = chain_apply X (fun c' => usample w c' t) c.
Proof. exact from_transformation_sample. Qed.
Print Assumptions C05_constant_fold_pointwise.
(* the keys a successful call returns support the transformed data: outside them the transformed data is undefined *)
Theorem C05_call_keys_support : forall G f data ks, chain_callk G data = Some ks ->
  (forall c, cmem c data = false -> f c = None) -> forall c, cmem c ks = false -> chain_apply G f c = None.
Proof. exact chain_call_supp. Qed.
Print Assumptions C05_call_keys_support.
Theorem C05_linear_absent_forwards : forall ins outs mat data, ins <> [] -> cdisj data ins = true ->
  tr_callk (TLinear ins outs mat) data = Some data.
Proof. exact linear_absent_forwards. Qed.
Print Assumptions C05_linear_absent_forwards.

(* ---- freedom from KeyError, first step: the leaf of every un-collapsed atom, TransformingWaveform(atom, chain), never
        raises when it is looked at the way an upload does (defined_channels, get_sampled per sorted channel with the
        constant short-cut and the cache), reversed or not, when the chain has no LinearTransformation (the only
        transformation that can raise).  The statement for whole compiled programs (collapsed leaves, Linear with all
        inputs present) is still open. ---- *)
Theorem C05_atom_leaf_never_raises : forall d chs G, no_linear G = true ->
  wf_raises (WTrans (WAtom d chs) G) = false /\ wf_raises (WRev (WTrans (WAtom d chs) G)) = false.
Proof. exact atom_leaf_never_raises. Qed.
Print Assumptions C05_atom_leaf_never_raises.
(* second step: ONE LinearTransformation all of whose inputs are channels of the atom (any outputs, any matrix) *)
Theorem C05_atom_leaf_linear_never_raises : forall d chs ins outs mat, csub ins (map fst chs) = true ->
  wf_raises (WTrans (WAtom d chs) [TLinear ins outs mat]) = false /\
  wf_raises (WRev (WTrans (WAtom d chs) [TLinear ins outs mat])) = false.
Proof. exact atom_leaf_linear_never_raises. Qed.
Print Assumptions C05_atom_leaf_linear_never_raises.

(* third step (round 6): WHOLE programs.  For every template tree compiled with nothing collapsed under a global
   transformation without LinearTransformation, no leaf of the program raises when it is looked at the way an upload does
   (every leaf is atom / T(atom) / the reversed of these, and the chains that arrive are G extended by offsets, scalings
   and parallel-channel overwrites only).  Still open: programs with collapsed nodes, LinearTransformations. *)
Theorem C05_uncollapsed_never_raises : forall p G l, no_linear G = true -> compile p [] G = Some l ->
  existsb wf_raises (flat l) = false.
Proof. exact uncollapsed_never_raises. Qed.
Print Assumptions C05_uncollapsed_never_raises.
Example C05_uncollapsed_never_raises_nonvacuous :
  no_linear G_nl = true /\ exists l, compile w_nl [] G_nl = Some l /\ (3 <= length (flat l))%nat /\
    existsb (fun w => match w with WRev (WTrans _ _) => true | _ => false end) (flat l) = true.
Proof. exact uncollapsed_nonvacuous. Qed.
