(* C05 — proofs *)
From Coq Require Import List ZArith QArith Bool Lia.
Require Import QV.C05.Model.
Import ListNotations.
Open Scope Z_scope.

Lemma chain_apply_app : forall G1 G2 f c, chain_apply (G1 ++ G2) f c = chain_apply G2 (chain_apply G1 f) c.
Proof. induction G1 as [|t G1 IH]; intros; cbn; [reflexivity|apply IH]. Qed.
