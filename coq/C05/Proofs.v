(* C05 — proofs, part 1: sampling lemmas (walk), waveform smart constructors, to_waveform plays the program *)
From Coq Require Import List ZArith QArith Bool Lia.
Require Import QV.C05.Model QV.C05.Spec.
Import ListNotations.
Open Scope Z_scope.

Definition parts := list (Z * (Z -> oq)).
Definition total (p : parts) : Z := fold_right (fun x s => fst x + s) 0 p.
Definition pnonneg (p : parts) : Prop := Forall (fun x => 0 <= fst x) p.

Lemma total_cons d f p : total ((d, f) :: p) = d + total p. Proof. reflexivity. Qed.
Lemma total_nil : total [] = 0. Proof. reflexivity. Qed.
Global Opaque total.
Lemma total_app p q : total (p ++ q) = total p + total q.
Proof. induction p as [|[d f] p IH]; [reflexivity|]. rewrite <- app_comm_cons, !total_cons, IH. lia. Qed.
Lemma total_nonneg p : pnonneg p -> 0 <= total p.
Proof. induction 1 as [|[d f] p H _ IH]; [rewrite total_nil; lia|]. rewrite total_cons. cbn in H. lia. Qed.

Lemma walk_before p : forall time t, pnonneg p -> t < time -> walk p time t = None.
Proof.
  induction p as [|[d f] p IH]; intros time t Hn Ht; cbn; [reflexivity|].
  inversion Hn; subst; cbn in *.
  destruct (time <=? t) eqn:E; [apply Z.leb_le in E; lia|]. cbn. apply IH; auto; lia.
Qed.
Lemma walk_after p : forall time t, pnonneg p -> time + total p <= t -> walk p time t = None.
Proof.
  induction p as [|[d f] p IH]; intros time t Hn Ht; cbn; [reflexivity|].
  inversion Hn; subst; cbn in *. pose proof (total_nonneg p H2). rewrite total_cons in Ht.
  destruct (t <? time + d) eqn:E; [apply Z.ltb_lt in E; lia|]. rewrite andb_false_r. apply IH; auto; lia.
Qed.

Lemma walk_shift p : forall time t k, walk p (time + k) (t + k) = walk p time t.
Proof.
  induction p as [|[d f] p IH]; intros; cbn; [reflexivity|].
  replace (time + k <=? t + k) with (time <=? t) by (destruct (time <=? t) eqn:A; symmetry; [apply Z.leb_le|apply Z.leb_gt]; (apply Z.leb_le in A || apply Z.leb_gt in A); lia).
  replace (t + k <? time + k + d) with (t <? time + d) by (destruct (t <? time + d) eqn:A; symmetry; [apply Z.ltb_lt|apply Z.ltb_ge]; (apply Z.ltb_lt in A || apply Z.ltb_ge in A); lia).
  replace (t + k - (time + k)) with (t - time) by lia.
  replace (time + k + d) with (time + d + k) by lia. rewrite IH. reflexivity.
Qed.
Lemma walk_shift0 p time t : walk p time t = walk p 0 (t - time).
Proof. rewrite <- (walk_shift p 0 (t - time) time). f_equal; lia. Qed.

Lemma walk_app_l p q : forall time t, time <= t < time + total p -> walk (p ++ q) time t = walk p time t.
Proof.
  induction p as [|[d f] p IH]; intros time t H; [rewrite total_nil in H; lia|]. rewrite total_cons in H. cbn.
  destruct ((time <=? t) && (t <? time + d)) eqn:E; [reflexivity|].
  apply IH. apply andb_false_iff in E as [E|E]; [apply Z.leb_gt in E|apply Z.ltb_ge in E]; lia.
Qed.
Lemma walk_app_r p q : forall time t, pnonneg p -> time + total p <= t -> walk (p ++ q) time t = walk q (time + total p) t.
Proof.
  induction p as [|[d f] p IH]; intros time t Hn H; [rewrite total_nil; cbn; f_equal; lia|].
  rewrite total_cons in *. inversion Hn; subst; cbn in *. pose proof (total_nonneg p H3).
  destruct (t <? time + d) eqn:E; [apply Z.ltb_lt in E; lia|]. rewrite andb_false_r.
  rewrite IH; auto; [f_equal|]; lia.
Qed.

(* walking over concatenated groups = walking over one part per group *)
Definition group (g : parts) : Z * (Z -> oq) := (total g, fun t => walk g 0 t).
Lemma walk_concat gs : forall time t, Forall pnonneg gs ->
  walk (concat gs) time t = walk (map group gs) time t.
Proof.
  induction gs as [|g gs IH]; intros time t Hn; cbn; [reflexivity|].
  inversion Hn; subst. pose proof (total_nonneg g H1).
  destruct (Z_lt_dec t time).
  - rewrite walk_before; [|apply Forall_app; split; auto; clear -H2; induction H2; cbn; auto; apply Forall_app; auto|lia].
    destruct (time <=? t) eqn:E; [apply Z.leb_le in E; lia|]. cbn.
    symmetry. apply walk_before; [|lia].
    clear -H2. induction H2; cbn; constructor; auto. cbn. apply total_nonneg; auto.
  - destruct (Z_lt_dec t (time + total g)).
    + rewrite walk_app_l by lia.
      replace ((time <=? t) && (t <? time + total g)) with true
        by (symmetry; apply andb_true_iff; split; [apply Z.leb_le|apply Z.ltb_lt]; lia).
      apply walk_shift0.
    + rewrite walk_app_r by (auto; lia).
      replace (t <? time + total g) with false by (symmetry; apply Z.ltb_ge; lia). rewrite andb_false_r.
      apply IH; auto.
Qed.

(* pointwise equal parts *)
Lemma walk_ext (p q : parts) : Forall2 (fun a b => fst a = fst b /\ forall t, 0 <= t < fst a -> snd a t = snd b t) p q ->
  forall time t, walk p time t = walk q time t.
Proof.
  induction 1 as [|[d f] [d' f'] p q [Hd Hf] _ IH]; intros; cbn in *; [reflexivity|]. subst d'.
  destruct ((time <=? t) && (t <? time + d)) eqn:E; [|apply IH].
  apply andb_true_iff in E as [A B]. apply Z.leb_le in A. apply Z.ltb_lt in B. apply Hf. lia.
Qed.

(* all parts answer X on their domain => the walk answers X inside the total range *)
Lemma walk_const (p : parts) (X : oq) : Forall (fun a => forall t, 0 <= t < fst a -> snd a t = X) p ->
  forall time t, time <= t < time + total p -> walk p time t = X.
Proof.
  induction 1 as [|[d f] p Hf _ IH]; intros time t H; [rewrite total_nil in H; lia|]. rewrite total_cons in H. cbn in *.
  destruct ((time <=? t) && (t <? time + d)) eqn:E.
  - apply andb_true_iff in E as [A B]. apply Z.leb_le in A. apply Z.ltb_lt in B. apply Hf. lia.
  - apply IH. apply andb_false_iff in E as [E|E]; [apply Z.leb_gt in E|apply Z.ltb_ge in E]; lia.
Qed.

(* ------------------------------------------------------------------------------------------------------------- *)
Definition wparts (c : chan) (ws : list wf) : parts := map (fun x => (wdur x, usample x c)) ws.
Definition wsum (ws : list wf) : Z := fold_right (fun x s => wdur x + s) 0 ws.
Lemma total_wparts c ws : total (wparts c ws) = wsum ws.
Proof. induction ws; [reflexivity|]. cbn [wparts map]. rewrite total_cons. fold (wparts c ws). rewrite IHws. reflexivity. Qed.

Lemma wnonneg_seq ws : wnonneg (WSeq ws) <-> Forall wnonneg ws.
Proof. cbn. induction ws; cbn; split; intros H; auto; [destruct H; constructor; tauto|inversion H; subst; tauto]. Qed.

Lemma wdur_nonneg w : wnonneg w -> 0 <= wdur w.
Proof.
  revert w. fix IH 1. intros [d chs|ws|b n|b G|b] H; cbn in *; auto.
  - induction ws as [|x r IHr]; cbn in *; [lia|]. destruct H as [Hx Hr]. specialize (IH x Hx). specialize (IHr Hr). lia.
  - specialize (IH b H). lia.
Qed.
Lemma wparts_nonneg c ws : Forall wnonneg ws -> pnonneg (wparts c ws).
Proof. induction 1; cbn; constructor; auto. cbn. apply wdur_nonneg; auto. Qed.
Lemma wsum_cons x a : wsum (x :: a) = wdur x + wsum a. Proof. reflexivity. Qed.
Lemma wsum_app a b : wsum (a ++ b) = wsum a + wsum b.
Proof. induction a as [|x a IH]; [reflexivity|]. rewrite <- app_comm_cons, !wsum_cons, IH. lia. Qed.

(* constants *)
Definition dlook (vals : list (chan * oq)) (c : chan) : oq := match alookup c vals with Some v => v | None => None end.

Lemma all_const_sample chs : forall vals, all_const chs = Some vals ->
  forall d c t, usample (WAtom d chs) c t = dlook vals c.
Proof.
  induction chs as [|[k [v|es|fa fb]] chs IH]; intros vals H d c t; cbn in *; try discriminate.
  - inversion H; reflexivity.
  - destruct (all_const chs) as [r|] eqn:E; cbn in H; [|discriminate]. inversion H; subst. unfold dlook; cbn.
    destruct (N.eqb c k); [reflexivity|]. apply (IH r eq_refl d c t).
Qed.
Lemma cvd_sample w vals : cvd w = Some vals -> forall c t, usample w c t = dlook vals c.
Proof. destruct w as [d chs| | | |]; cbn; try discriminate. intros H c t. exact (all_const_sample chs vals H d c t). Qed.
Lemma mk_const_sample d vals c t : usample (mk_const d vals) c t = dlook vals c.
Proof.
  unfold mk_const, dlook; cbn. induction vals as [|[k v] r IH]; cbn; [reflexivity|].
  destruct (N.eqb c k); [reflexivity|exact IH].
Qed.
Lemma mk_const_dur d vals : wdur (mk_const d vals) = d. Proof. reflexivity. Qed.
Lemma mk_const_cvd d vals : cvd (mk_const d vals) = Some vals.
Proof. unfold mk_const; cbn. induction vals as [|[k v] r IH]; cbn; [reflexivity|]. rewrite IH. reflexivity. Qed.

(* equal dicts look up equally *)
Lemma q_eqb_eq x y : q_eqb x y = true -> x = y.
Proof. destruct x, y; unfold q_eqb; cbn. intros H. apply andb_true_iff in H as [A B]. apply Z.eqb_eq in A. apply Pos.eqb_eq in B. subst; reflexivity. Qed.
Lemma oq_eqb_eq a b : oq_eqb a b = true -> a = b.
Proof. destruct a, b; cbn; try discriminate; auto. intros H. f_equal. apply q_eqb_eq; auto. Qed.
Lemma alookup_in {A} c (l : list (chan * A)) v : alookup c l = Some v -> In (c, v) l.
Proof.
  induction l as [|[k x] l IH]; cbn; [discriminate|]. destruct (N.eqb c k) eqn:E.
  - intros H; inversion H; subst. apply N.eqb_eq in E; subst. auto.
  - auto.
Qed.
Lemma dict_sub_look a b : dict_sub a b = true -> forall c v, alookup c a = Some v -> alookup c b = Some v.
Proof.
  intros H c v Hc. apply alookup_in in Hc. unfold dict_sub in H. rewrite forallb_forall in H.
  specialize (H _ Hc). cbn in H. destruct (alookup c b); [|discriminate]. apply oq_eqb_eq in H. subst; reflexivity.
Qed.
Lemma dict_eqb_look a b : dict_eqb a b = true -> forall c, dlook a c = dlook b c.
Proof.
  intros H c. apply andb_true_iff in H as [H1 H2]. unfold dlook.
  destruct (alookup c a) eqn:A.
  - rewrite (dict_sub_look _ _ H1 _ _ A). reflexivity.
  - destruct (alookup c b) eqn:B; [|reflexivity]. rewrite (dict_sub_look _ _ H2 _ _ B) in A. discriminate.
Qed.

(* from_sequence *)
Lemma seq_flatten_sum ws : wsum (seq_flatten ws) = wsum ws.
Proof.
  unfold seq_flatten. induction ws as [|w r IH]; [reflexivity|]. cbn [flat_map]. rewrite wsum_app, IH, wsum_cons.
  destruct w; try (rewrite wsum_cons; cbn; lia). reflexivity.
Qed.
Lemma seq_flatten_nonneg ws : Forall wnonneg ws -> Forall wnonneg (seq_flatten ws).
Proof.
  unfold seq_flatten. induction 1 as [|w r Hw _ IH]; cbn; [constructor|]. apply Forall_app; split; auto.
  destruct w; try (constructor; auto). apply wnonneg_seq; auto.
Qed.
Lemma wparts_app c a b : wparts c (a ++ b) = wparts c a ++ wparts c b. Proof. apply map_app. Qed.
Lemma in_range_true a t b : a <= t < b -> (a <=? t) && (t <? b) = true.
Proof. intros. apply andb_true_iff; split; [apply Z.leb_le|apply Z.ltb_lt]; lia. Qed.
Lemma walk_flatten c ws : Forall wnonneg ws -> forall time t,
  walk (wparts c (seq_flatten ws)) time t = walk (wparts c ws) time t.
Proof.
  unfold seq_flatten. induction 1 as [|w r Hw Hr IH]; intros time t; [reflexivity|].
  cbn [flat_map]. rewrite wparts_app.
  set (g := match w with WSeq l => l | _ => [w] end).
  assert (Hg : pnonneg (wparts c g)).
  { apply wparts_nonneg. subst g. destruct w; try (constructor; auto). apply wnonneg_seq; auto. }
  assert (Ht : total (wparts c g) = wdur w).
  { rewrite total_wparts. subst g. destruct w; try (rewrite wsum_cons; cbn; lia). reflexivity. }
  pose proof (total_nonneg _ Hg) as Hpos.
  change (wparts c (w :: r)) with ((wdur w, usample w c) :: wparts c r). cbn [walk].
  destruct (Z_lt_dec t time).
  - rewrite walk_before; [| apply Forall_app; split; [exact Hg| apply wparts_nonneg; apply (seq_flatten_nonneg r Hr)] | lia].
    destruct (time <=? t) eqn:E; [apply Z.leb_le in E; lia|]. cbn. symmetry. apply walk_before; [apply wparts_nonneg; auto|lia].
  - destruct (Z_lt_dec t (time + wdur w)).
    + rewrite walk_app_l by lia. rewrite in_range_true by lia.
      subst g. destruct w as [d chs|sl|b k|b G|b];
        try (cbn [wparts map walk]; rewrite in_range_true by (cbn in *; lia); reflexivity).
      change (usample (WSeq sl) c (t - time)) with (walk (wparts c sl) 0 (t - time)). apply walk_shift0.
    + rewrite walk_app_r by (auto; lia). rewrite Ht.
      replace (t <? time + wdur w) with false by (symmetry; apply Z.ltb_ge; lia). rewrite andb_false_r. apply IH.
Qed.

Lemma seq_const_all ws : forall vals, seq_const (Some vals) ws = Some vals ->
  Forall (fun w => forall c t, usample w c t = dlook vals c) ws.
Proof.
  induction ws as [|w r IH]; intros vals H; cbn in *; [constructor|].
  destruct (cvd w) as [v2|] eqn:E; [|discriminate]. destruct (dict_eqb vals v2) eqn:D; [|discriminate].
  constructor; [|apply IH; exact H]. intros c t. rewrite (cvd_sample _ _ E). symmetry. apply dict_eqb_look; auto.
Qed.
Lemma seq_const_some ws : forall cv vals, seq_const cv ws = Some vals -> cv = Some vals.
Proof.
  induction ws as [|w r IH]; intros cv vals H; cbn in *; [exact H|].
  destruct cv as [v|]; [|discriminate]. destruct (cvd w); [|discriminate]. destruct (dict_eqb v l); [|discriminate]. apply IH; auto.
Qed.

Lemma from_sequence_dur ws : ws <> [] -> wdur (from_sequence ws) = wsum ws.
Proof.
  intros Hne. unfold from_sequence. destruct ws as [|w0 [|w1 r]]; [congruence|rewrite wsum_cons; cbn; lia|].
  destruct (seq_const (cvd w0) (w0 :: w1 :: r)); [rewrite mk_const_dur|]; change (wdur (WSeq ?l)) with (wsum l); apply seq_flatten_sum.
Qed.
Lemma from_sequence_nonneg ws : Forall wnonneg ws -> wnonneg (from_sequence ws).
Proof.
  intros H. unfold from_sequence. destruct ws as [|w0 [|w1 r]]; [cbn; auto|inversion H; auto|].
  destruct (seq_const (cvd w0) (w0 :: w1 :: r)).
  - unfold mk_const; cbn -[seq_flatten]. change (0 <= wsum (seq_flatten (w0 :: w1 :: r))). rewrite seq_flatten_sum.
    clear -H. induction H; [cbn; lia|]. rewrite wsum_cons. apply wdur_nonneg in H. lia.
  - apply wnonneg_seq. apply seq_flatten_nonneg; auto.
Qed.
Lemma from_sequence_sample ws c t : Forall wnonneg ws -> 0 <= t < wsum ws ->
  usample (from_sequence ws) c t = walk (wparts c ws) 0 t.
Proof.
  intros Hn Ht. unfold from_sequence. destruct ws as [|w0 [|w1 r]]; [cbn in *; lia| |].
  - rewrite wsum_cons in Ht. cbn in Ht. cbn [wparts map walk]. rewrite in_range_true by lia.
    f_equal; lia.
  - destruct (seq_const (cvd w0) (w0 :: w1 :: r)) as [vals|] eqn:E.
    + rewrite mk_const_sample. pose proof (seq_const_some _ _ _ E) as E0. rewrite E0 in E.
      pose proof (seq_const_all _ _ E) as Hall. symmetry. apply walk_const; [|rewrite total_wparts; lia].
      clear -Hall. induction Hall as [|x l Hx _ IH]; [constructor|]. cbn [wparts map].
      constructor; [cbn; intros; apply Hx|exact IH].
    + change (usample (WSeq ?l) c t) with (walk (wparts c l) 0 t). apply walk_flatten; auto.
Qed.

(* from_repetition *)
Lemma total_repeat d f n : total (repeat (d, f) n) = Z.of_nat n * d.
Proof. induction n; [reflexivity|]. cbn [repeat]. rewrite total_cons, IHn. lia. Qed.
Lemma from_repetition_dur w n : wdur (from_repetition w n) = Z.of_nat n * wdur w.
Proof. unfold from_repetition. destruct (cvd w); reflexivity. Qed.
Lemma from_repetition_nonneg w n : wnonneg w -> wnonneg (from_repetition w n).
Proof. intros H. unfold from_repetition. destruct (cvd w); cbn; auto. apply wdur_nonneg in H. lia. Qed.
Lemma from_repetition_sample w n c t : 0 <= t < Z.of_nat n * wdur w ->
  usample (from_repetition w n) c t = walk (repeat (wdur w, usample w c) n) 0 t.
Proof.
  intros Ht. unfold from_repetition. destruct (cvd w) as [vals|] eqn:E; [|reflexivity].
  rewrite mk_const_sample. symmetry. apply walk_const; [|rewrite total_repeat; lia].
  clear Ht. induction n; cbn; constructor; auto. cbn. intros. apply cvd_sample; auto.
Qed.

(* ------------------------------------------------------------------------------------------------------------- *)
(* to_waveform plays the program *)
Section loop_induction.
  Variable P : loop -> Prop.
  Hypothesis HL : forall w, P (Leaf w).
  Hypothesis HN : forall rep meas ch, Forall P ch -> P (Node rep meas ch).
  Fixpoint loop_ind2 (l : loop) : P l :=
    match l with
    | Leaf w => HL w
    | Node r m ch => HN r m ch ((fix go (ch : list loop) : Forall P ch :=
                                  match ch with [] => Forall_nil _ | x :: r => Forall_cons _ (loop_ind2 x) (go r) end) ch)
    end.
End loop_induction.

Lemma lok_node rep m ch : lok (Node rep m ch) <-> (0 < rep)%nat /\ ch <> [] /\ Forall lok ch.
Proof.
  cbn. split; intros (A & B & C); repeat split; auto; clear A B.
  - induction ch; cbn in *; constructor; tauto.
  - induction C; cbn; tauto.
Qed.

Lemma seq_of_children ch :
  match ch with [x] => to_waveform x | _ => from_sequence (map to_waveform ch) end = from_sequence (map to_waveform ch).
Proof. destruct ch as [|x [|y r]]; reflexivity. Qed.

Lemma wparts_flat_map c (ch : list loop) :
  wparts c (flat_map flat ch) = concat (map (fun x => wparts c (flat x)) ch).
Proof. induction ch; cbn [flat_map map concat]; [reflexivity|]. rewrite wparts_app, IHch. reflexivity. Qed.
Lemma wparts_concat_repeat c L n : wparts c (concat (repeat L n)) = concat (repeat (wparts c L) n).
Proof. induction n; cbn [repeat concat]; [reflexivity|]. rewrite wparts_app, IHn. reflexivity. Qed.
Lemma wsum_concat_repeat L n : wsum (concat (repeat L n)) = Z.of_nat n * wsum L.
Proof. induction n; cbn [repeat concat]; [reflexivity|]. rewrite wsum_app, IHn. lia. Qed.
Lemma wsum_flat_map ch : (forall x, In x ch -> wsum (flat x) = ldur x) -> wsum (flat_map flat ch) = body_dur ch.
Proof.
  induction ch as [|x r IH]; intros H; [reflexivity|]. cbn [flat_map]. rewrite wsum_app, IH by (intros; apply H; right; auto).
  rewrite H by (left; auto). reflexivity.
Qed.
Lemma wsum_map_to_waveform ch : (forall x, In x ch -> wdur (to_waveform x) = ldur x) -> wsum (map to_waveform ch) = body_dur ch.
Proof.
  induction ch as [|x r IH]; intros H; [reflexivity|]. cbn [map]. rewrite wsum_cons, IH by (intros; apply H; right; auto).
  rewrite H by (left; auto). reflexivity.
Qed.
Lemma body_dur_cons x r : body_dur (x :: r) = ldur x + body_dur r. Proof. reflexivity. Qed.
Lemma body_dur_nonneg ch : (forall x, In x ch -> 0 < ldur x) -> 0 <= body_dur ch.
Proof.
  induction ch as [|x r IH]; intros H; [cbn; lia|]. rewrite body_dur_cons.
  assert (0 < ldur x) by (apply H; left; auto). assert (0 <= body_dur r) by (apply IH; intros; apply H; right; auto). lia.
Qed.
Lemma body_dur_pos ch : ch <> [] -> (forall x, In x ch -> 0 < ldur x) -> 0 < body_dur ch.
Proof.
  intros Hne H. destruct ch as [|x r]; [congruence|]. rewrite body_dur_cons.
  assert (0 < ldur x) by (apply H; left; auto). assert (0 <= body_dur r) by (apply body_dur_nonneg; intros; apply H; right; auto). lia.
Qed.
Lemma ldur_node rep m ch : ldur (Node rep m ch) = Z.of_nat rep * body_dur ch. Proof. reflexivity. Qed.

Lemma map_repeat' {A B} (f : A -> B) x n : map f (repeat x n) = repeat (f x) n.
Proof. induction n; cbn; [reflexivity|]. rewrite IHn. reflexivity. Qed.

Definition tw_ok (l : loop) : Prop :=
  lok l -> 0 < ldur l /\ wdur (to_waveform l) = ldur l /\ wnonneg (to_waveform l) /\ wsum (flat l) = ldur l /\
           Forall wnonneg (flat l) /\
           forall c t, 0 <= t < ldur l -> usample (to_waveform l) c t = walk (wparts c (flat l)) 0 t.

Lemma to_waveform_ok : forall l, tw_ok l.
Proof.
  apply loop_ind2; unfold tw_ok.
  - intros w [Hd Hn]. cbn [to_waveform flat ldur]. repeat split; auto.
    + rewrite wsum_cons. cbn; lia.
    + intros c t Ht. cbn [wparts map walk]. rewrite in_range_true by lia. f_equal; lia.
  - intros rep m ch IH Hok. apply lok_node in Hok as (Hrep & Hne & Hch).
    assert (IH' : forall x, In x ch -> tw_ok x) by (apply Forall_forall; exact IH).
    assert (Hlok : forall x, In x ch -> lok x) by (apply Forall_forall; exact Hch).
    assert (Hbody : 0 < body_dur ch).
    { apply body_dur_pos; auto. intros x Hx. apply (IH' x Hx (Hlok x Hx)). }
    set (s := from_sequence (map to_waveform ch)).
    assert (Hws : Forall wnonneg (map to_waveform ch)).
    { apply Forall_forall. intros w Hw. apply in_map_iff in Hw as (x & <- & Hx). apply (IH' x Hx (Hlok x Hx)). }
    assert (Hsd : wdur s = body_dur ch).
    { unfold s. rewrite from_sequence_dur by (destruct ch; cbn; congruence).
      apply wsum_map_to_waveform. intros x Hx. apply (IH' x Hx (Hlok x Hx)). }
    assert (Hsn : wnonneg s) by (apply from_sequence_nonneg; auto).
    assert (HL : wsum (flat_map flat ch) = body_dur ch).
    { apply wsum_flat_map. intros x Hx. apply (IH' x Hx (Hlok x Hx)). }
    assert (HLn : Forall wnonneg (flat_map flat ch)).
    { apply Forall_forall. intros w Hw. apply in_flat_map in Hw as (x & Hx & Hw).
      destruct (IH' x Hx (Hlok x Hx)) as (_ & _ & _ & _ & F & _). rewrite Forall_forall in F. auto. }
    assert (Hs : forall c t, 0 <= t < body_dur ch -> usample s c t = walk (wparts c (flat_map flat ch)) 0 t).
    { intros c t Ht. unfold s. rewrite from_sequence_sample; auto.
      2:{ rewrite wsum_map_to_waveform; auto. intros x Hx. apply (IH' x Hx (Hlok x Hx)). }
      rewrite wparts_flat_map, walk_concat.
      2:{ apply Forall_forall. intros g Hg. apply in_map_iff in Hg as (x & <- & Hx). apply wparts_nonneg.
          apply (IH' x Hx (Hlok x Hx)). }
      unfold wparts at 1. rewrite !map_map. apply walk_ext.
      clear -IH' Hlok. induction ch as [|x r IHr]; cbn [map]; constructor.
      - destruct (IH' x (or_introl eq_refl) (Hlok x (or_introl eq_refl))) as (_ & D & _ & W & _ & U).
        cbn [fst snd group]. rewrite total_wparts. split; [lia|]. intros t Ht. apply U. lia.
      - apply IHr; intros; [apply IH'|apply Hlok]; right; auto. }
    cbn [to_waveform]. rewrite seq_of_children. fold s. rewrite ldur_node. cbn [flat].
    assert (Hrz : 1 <= Z.of_nat rep) by lia.
    repeat split.
    + nia.
    + destruct (1 <? Z.of_nat rep) eqn:E; [rewrite from_repetition_dur; lia|].
      apply Z.ltb_ge in E. replace (Z.of_nat rep) with 1 by lia. lia.
    + destruct (1 <? Z.of_nat rep); [apply from_repetition_nonneg|]; auto.
    + rewrite wsum_concat_repeat. lia.
    + apply Forall_forall. intros w Hw. apply in_concat in Hw as (L & HL1 & HL2). apply repeat_spec in HL1. subst L.
      rewrite Forall_forall in HLn. auto.
    + intros c t Ht. rewrite wparts_concat_repeat, walk_concat.
      2:{ apply Forall_forall. intros g Hg. apply repeat_spec in Hg. subst g. apply wparts_nonneg; auto. }
      rewrite map_repeat'.
      assert (Hext : walk (repeat (wdur s, usample s c) rep) 0 t = walk (repeat (group (wparts c (flat_map flat ch))) rep) 0 t).
      { apply walk_ext. clear -Hsd Hs HL. induction rep; cbn [repeat]; constructor; auto.
        cbn [fst snd group]. rewrite total_wparts. split; [lia|]. intros t Ht. apply Hs. lia. }
      rewrite <- Hext.
      destruct (1 <? Z.of_nat rep) eqn:E.
      * apply from_repetition_sample. lia.
      * apply Z.ltb_ge in E. assert (rep = 1%nat) by lia. subst rep. cbn [repeat walk].
        rewrite in_range_true by lia. f_equal; lia.
Qed.
