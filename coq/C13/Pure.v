(* C13 — the access paths of Model.v on a scope whose memoisation fields are all empty and are never filled
   ("every call recomputes").  Same algorithms as the code (top-down lookups through the layers), no cache state.
   The correspondence check runs these next to the stateful model; Proofs.v relates the two (cache refinement)
   and proves the property for both. *)
From Coq Require Import ZArith NArith QArith Bool List.
Require Import QV.C13.Model.
Import ListNotations.

Fixpoint pfold (g : ident -> result Q) (xs : list ident) (acc : list (ident * Q)) : result (list (ident * Q)) :=
  match xs with
  | [] => Ok acc
  | y :: ys => match g y with
               | Ok v => pfold g ys (acc ++ [(y, v)])
               | Err e => Err e
               end
  end.

Fixpoint pget (s : scope) (x : ident) {struct s} : result Q :=
  match s with
  | SDict vals _ => match lookup vals x with Some v => Ok v | None => Err EMissing end
  | SMapped o m =>
      match lookup m x with
      | None => pget o x
      | Some e => match pfold (pget o) (vars e) [] with
                  | Ok env => eval_env env e
                  | Err er => Err er
                  end
      end
  | SRange i n v => if N.eqb x n then Ok v else pget i x
  | SJoint l =>
      (fix go (l : list (ident * scope)) : result Q :=
         match l with
         | [] => Err EMissing
         | (y, sub) :: l' => if N.eqb y x then pget sub x else go l'
         end) l
  end.

Fixpoint pkeys (s : scope) : result (list ident) :=
  match s with
  | SDict vals _ => Ok (map fst vals)
  | SMapped o m => rmap (union (map fst m)) (pkeys o)
  | SRange i n v => rmap (map fst) (rmap (fun d => dict_set d n v) (pasd i))
  | SJoint l => Ok (map fst l)
  end
with pasd (s : scope) : result (list (ident * Q)) :=
  match s with
  | SDict vals _ => Ok vals
  | SMapped o m =>
      match pkeys o with
      | Err e => Err e
      | Ok ks => pfold (pget (SMapped o m)) (union (map fst m) ks) []
      end
  | SRange i n v => rmap (fun d => dict_set d n v) (pasd i)
  | SJoint l => pfold (pget (SJoint l)) (map fst l) []
  end.

Fixpoint piter (s : scope) : result (list ident) :=
  match s with
  | SDict vals _ => Ok (map fst vals)
  | SMapped _ _ => pkeys s
  | SRange i n _ => rmap (fun ks => if contains i n then ks else ks ++ [n]) (piter i)
  | SJoint l => Ok (map fst l)
  end.

Fixpoint plen (s : scope) : result Z :=
  match s with
  | SDict vals _ => Ok (Z.of_nat (length vals))
  | SMapped _ _ => rmap (fun ks => Z.of_nat (length ks)) (pkeys s)
  | SRange i n _ => rmap (fun k => (k + (if contains i n then 0 else 1))%Z) (plen i)
  | SJoint l => Ok (Z.of_nat (length l))
  end.

Definition pitems (s : scope) : result (list (ident * Q)) :=
  match s with
  | SJoint l => pfold (pget s) (map fst l) []
  | _ => pasd s
  end.

Fixpoint pcollect (g : ident -> result Q) (iv : list (ident * expr)) (m : list (ident * expr))
         (acc : list (ident * expr)) : result (list (ident * expr)) :=
  match m with
  | [] => Ok acc
  | (p, e) :: m' =>
      if existsb (fun y => is_some (lookup iv y)) (vars e) then
        match pfold g (filter (fun y => negb (is_some (lookup iv y))) (vars e)) [] with
        | Ok env => pcollect g iv m' (dict_set acc p (subst (vol_subst iv env) e))
        | Err er => Err er
        end
      else pcollect g iv m' (remove_key p acc)
  end.

Fixpoint pvolx (s : scope) : result (list (ident * expr)) :=
  match s with
  | SDict _ vl => Ok (map (fun v => (v, EVar v)) (nodupN vl))
  | SMapped o m =>
      match pvolx o with
      | Err e => Err e
      | Ok [] => Ok []
      | Ok iv => pcollect (pget o) iv m iv
      end
  | SRange i n _ => rmap (remove_key n) (pvolx i)
  | SJoint l =>
      (fix go (l : list (ident * scope)) (acc : list (ident * expr)) : result (list (ident * expr)) :=
         match l with
         | [] => Ok acc
         | (x, sub) :: l' =>
             match pvolx sub with
             | Ok iv => go l' (match lookup iv x with Some e => dict_set acc x e | None => acc end)
             | Err e => Err e
             end
         end) l []
  end.

Definition pvol (s : scope) : result (list ident) := rmap (map fst) (pvolx s).

Definition pstep (s : scope) (o : op) : obs * scope :=
  match o with
  | OGet x => (BVal (pget s x), s)
  | OContains x => (BBool (contains s x), s)
  | OIter => (BKeys (piter s), s)
  | OLen => (BLen (plen s), s)
  | OKeys => (BKeys (pkeys s), s)
  | OItems => (BItems (pitems s), s)
  | OAsDict => (BItems (pasd s), s)
  | OVol => (BKeys (pvol s), s)
  | OChange nc => let r := cc s cempty nc in
                  (BChange (ch_warned r) (scope_eqb (ch_scope r) (rebuild s nc)) true, ch_scope r)
  | OEq other => (BEq (scope_eqb s other) (scope_eqb s other), s)
  | OVolX envs => (BVolX (rmap (eval_at envs) (pvolx s)), s)
  | OOverwrite kv => (BOver, SMapped s (const_mapping kv))
  end.

Fixpoint prun (s : scope) (ops : list op) : list obs :=
  match ops with
  | [] => []
  | o :: r => let '(b, s') := pstep s o in b :: prun s' r
  end.
