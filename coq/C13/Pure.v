(* C13 — the access paths of Model.v on a scope whose memoisation fields are all empty and are never filled
   ("every call recomputes").  Same algorithms as the code (top-down lookups through the layers), no cache state.
   The correspondence check runs these next to the stateful model; Proofs.v relates the two (cache refinement)
   and proves the property for both. *)
From Coq Require Import ZArith NArith QArith Bool List.
Require Import QV.C13.Model.
Import ListNotations.

Fixpoint pfold (g : ident -> result Q) (xs : list ident) (acc : list (ident * Q)) : result (list (ident * Q)) :=
  match xs with
  | [] => Ok acc
  | y :: ys => match g y with
               | Ok v => pfold g ys (acc ++ [(y, v)])
               | Err e => Err e
               end
  end.

Fixpoint pget (s : scope) (x : ident) {struct s} : result Q :=
  match s with
  | SDict vals _ => match lookup vals x with Some v => Ok v | None => Err EMissing end
  | SMapped o m =>
      match lookup m x with
      | None => pget o x
      | Some e => match pfold (pget o) (vars e) [] with
                  | Ok env => eval_env env e
                  | Err er => Err er
                  end
      end
  | SRange i n v => if N.eqb x n then Ok v else pget i x
  | SJoint l =>
      (fix go (l : list (ident * scope)) : result Q :=
         match l with
         | [] => Err EMissing
         | (y, sub) :: l' => if N.eqb y x then pget sub x else go l'
         end) l
  end.

Fixpoint pkeys (s : scope) : result (list ident) :=
  match s with
  | SDict vals _ => Ok (map fst vals)
  | SMapped o m => rmap (union (map fst m)) (pkeys o)
  | SRange i n v => rmap (map fst) (rmap (fun d => dict_set d n v) (pasd i))
  | SJoint l => Ok (map fst l)
  end
with pasd (s : scope) : result (list (ident * Q)) :=
  match s with
  | SDict vals _ => Ok vals
  | SMapped o m =>
      match pkeys o with
      | Err e => Err e
      | Ok ks => pfold (pget (SMapped o m)) (union (map fst m) ks) []
      end
  | SRange i n v => rmap (fun d => dict_set d n v) (pasd i)
  | SJoint l => pfold (pget (SJoint l)) (map fst l) []
  end.

Fixpoint piter (s : scope) : result (list ident) :=
  match s with
  | SDict vals _ => Ok (map fst vals)
  | SMapped _ _ => pkeys s
  | SRange i n _ => rmap (fun ks => if contains i n then ks else ks ++ [n]) (piter i)
  | SJoint l => Ok (map fst l)
  end.

Fixpoint plen (s : scope) : result Z :=
  match s with
  | SDict vals _ => Ok (Z.of_nat (length vals))
  | SMapped _ _ => rmap (fun ks => Z.of_nat (length ks)) (pkeys s)
  | SRange i n _ => rmap (fun k => (k + (if contains i n then 0 else 1))%Z) (plen i)
  | SJoint l => Ok (Z.of_nat (length l))
  end.

Definition pitems (s : scope) : result (list (ident * Q)) :=
  match s with
  | SJoint l => pfold (pget s) (map fst l) []
  | _ => pasd s
  end.

Fixpoint pcollect (g : ident -> result Q) (iv : list ident) (m : list (ident * expr)) (acc : list ident)
  : result (list ident) :=
  match m with
  | [] => Ok acc
  | (p, e) :: m' =>
      if existsb (fun y => mem y iv) (vars e) then
        match pfold g (filter (fun y => negb (mem y iv)) (vars e)) [] with
        | Ok _ => pcollect g iv m' (if mem p acc then acc else acc ++ [p])
        | Err er => Err er
        end
      else pcollect g iv m' (removeN p acc)
  end.

Fixpoint pvol (s : scope) : result (list ident) :=
  match s with
  | SDict _ vl => Ok (nodupN vl)
  | SMapped o m =>
      match pvol o with
      | Err e => Err e
      | Ok [] => Ok []
      | Ok iv => pcollect (pget (SMapped o m)) iv m iv
      end
  | SRange i n _ => rmap (removeN n) (pvol i)
  | SJoint l =>
      (fix go (l : list (ident * scope)) (acc : list ident) : result (list ident) :=
         match l with
         | [] => Ok acc
         | (x, sub) :: l' =>
             match pvol sub with
             | Ok iv => go l' (if mem x iv then acc ++ [x] else acc)
             | Err e => Err e
             end
         end) l []
  end.

Definition pstep (s : scope) (o : op) : obs * scope :=
  match o with
  | OGet x => (BVal (pget s x), s)
  | OContains x => (BBool (contains s x), s)
  | OIter => (BKeys (piter s), s)
  | OLen => (BLen (plen s), s)
  | OKeys => (BKeys (pkeys s), s)
  | OItems => (BItems (pitems s), s)
  | OAsDict => (BItems (pasd s), s)
  | OVol => (BKeys (pvol s), s)
  | OChange nc => let r := cc s cempty nc in
                  (BChange (ch_warned r) (scope_eqb (ch_scope r) (rebuild s nc)) true, ch_scope r)
  | OEq other => (BEq (scope_eqb s other) (scope_eqb s other), s)
  end.

Fixpoint prun (s : scope) (ops : list op) : list obs :=
  match ops with
  | [] => []
  | o :: r => let '(b, s') := pstep s o in b :: prun s' r
  end.
