(* C13 — the query paths on the explicit heap of shared scope objects (Heap.v) return, from every valid store and for
   every labelling that is consistent with a registry, what the cache-free access paths return. *)
From Coq Require Import ZArith NArith QArith Bool List Lia.
Require Import QV.C13.Model QV.C13.Pure QV.C13.Spec QV.C13.Proofs QV.C13.ProofsCache QV.C13.Heap.
Import ListNotations.

Arguments mem : simpl never.
Arguments union : simpl never.

Section HeapProofs.
  Variable G : list (N * scope).

  (* what an object's fields may hold *)
  Definition node_ok (s : scope) (n : node) : Prop :=
    (forall x v, lookup (n_cache n) x = Some v -> pget s x = Ok v)
    /\ (forall d, n_asd n = Some d -> pasd s = Ok d)
    /\ (forall ks, n_vc n = Some ks -> pvolx s = Ok ks).

  Definition sok (st : store) : Prop := forall i s, lookup G i = Some s -> node_ok s (sget st i).

  Lemma node_ok_empty s : node_ok s nempty.
  Proof. repeat split; cbn; discriminate. Qed.

  Lemma sok_empty : sok [].
  Proof. intros i s _. apply node_ok_empty. Qed.

  Lemma sget_sset st i n j : sget (sset st i n) j = if N.eqb i j then n else sget st j.
  Proof. unfold sget, sset. rewrite lookup_dict_set. destruct (N.eqb i j); reflexivity. Qed.

  Lemma sok_set st i n s : sok st -> lookup G i = Some s -> node_ok s n -> sok (sset st i n).
  Proof.
    intros H Hi Hn j s' Hj. rewrite sget_sset. destruct (N.eqb i j) eqn:E; [|auto].
    apply N.eqb_eq in E. subst j. rewrite Hi in Hj. injection Hj as <-. exact Hn.
  Qed.

  Definition srefines (g : store -> ident -> result Q * store) (pg : ident -> result Q) : Prop :=
    forall st x, sok st -> fst (g st x) = pg x /\ sok (snd (g st x)).

  Lemma sfold_refines g pg : srefines g pg ->
    forall xs st acc, sok st -> fst (sfold g xs st acc) = pfold pg xs acc /\ sok (snd (sfold g xs st acc)).
  Proof.
    intros Hr. induction xs as [|y ys IH]; intros st acc Hc; cbn.
    - auto.
    - destruct (Hr st y Hc) as [E1 E2]. destruct (g st y) as [r st']. cbn in E1, E2. subst r.
      destruct (pg y); cbn; auto.
  Qed.

  Lemma scollect_refines g pg iv : srefines g pg ->
    forall m st acc, sok st -> fst (scollect g iv m st acc) = pcollect pg iv m acc /\ sok (snd (scollect g iv m st acc)).
  Proof.
    intros Hr. induction m as [|[p e] m IH]; intros st acc Hc; cbn [scollect pcollect].
    - auto.
    - destruct (existsb (fun y => is_some (lookup iv y)) (vars e)).
      + destruct (sfold_refines g pg Hr (filter (fun y => negb (is_some (lookup iv y))) (vars e)) st [] Hc) as [E1 E2].
        destruct (sfold g _ st []) as [r st']. cbn in E1, E2. subst r.
        destruct (pfold pg _ []); cbn; auto.
      + apply IH; auto.
  Qed.

  (* ---------------------------------------------------------------- get *)
  Definition hget_joint (x : ident) (st : store) :=
    fix go (es : list (ident * scope)) (ls : list lab) : result Q * store :=
      match es with
      | [] => (Err EMissing, st)
      | (y, sub) :: es' => if N.eqb y x then hget sub (hd ldummy ls) st x else go es' (tl ls)
      end.

  Definition reg_all :=
    fix all (es : list (ident * scope)) (ls : list lab) : Prop :=
      match es with
      | [] => True
      | (_, sub) :: es' => reg_ok G sub (hd ldummy ls) /\ all es' (tl ls)
      end.

  Lemma reg_ok_joint es l : reg_ok G (SJoint es) l <-> lookup G (lid l) = Some (SJoint es) /\ reg_all es (lkids l).
  Proof. reflexivity. Qed.

  Lemma reg_ok_head s l : reg_ok G s l -> lookup G (lid l) = Some s.
  Proof. destruct s; intros [H _]; exact H. Qed.

  Lemma hget_ok : forall s l, reg_ok G s l -> srefines (hget s l) (pget s).
  Proof.
    induction s using scope_ind'; intros lb Hr st x Hc.
    - cbn. auto.
    - destruct Hr as [Hid Hro]. cbn [hget].
      pose proof (Hc _ _ Hid) as (Hca & Hasd & Hvc).
      destruct (lookup (n_cache (sget st (lid lb))) x) as [v|] eqn:El.
      + cbn. split; [symmetry; apply Hca; exact El|exact Hc].
      + assert (forall r st1, r = pget (SMapped s m) x -> sok st1 ->
                  sok (match r with
                       | Ok v => let n := sget st1 (lid lb) in
                                 sset st1 (lid lb) (mkNode (n_cache n ++ [(x, v)]) (n_asd n) (n_vc n))
                       | Err _ => st1
                       end)) as Hnew.
        { intros r st1 Hr Hc1. destruct r as [v|]; [|exact Hc1].
          apply (sok_set st1 (lid lb) _ (SMapped s m) Hc1 Hid).
          pose proof (Hc1 _ _ Hid) as (Hca1 & Hasd1 & Hvc1). repeat split; cbn [n_cache n_asd n_vc]; auto.
          intros y w Hy. rewrite lookup_app in Hy. destruct (lookup (n_cache (sget st1 (lid lb))) y) eqn:E.
          - injection Hy as <-. eauto.
          - cbn in Hy. destruct (N.eqb x y) eqn:E2; [|discriminate]. injection Hy as <-.
            apply N.eqb_eq in E2. subst y. now symmetry. }
        destruct (lookup m x) as [e|] eqn:Em.
        * destruct (sfold_refines _ _ (IHs _ Hro) (vars e) st [] Hc) as [E1 E2].
          destruct (sfold (hget s (lkid0 lb)) (vars e) st []) as [renv st1]. cbn in E1, E2.
          cbn [fst snd]. assert (match renv with Ok env => eval_env env e | Err er => Err er end
                                 = pget (SMapped s m) x) as Hr.
          { cbn [pget]. rewrite Em, <- E1. reflexivity. }
          split; [exact Hr|]. apply Hnew; auto.
        * destruct (IHs _ Hro st x Hc) as [E1 E2].
          destruct (hget s (lkid0 lb) st x) as [r st1]. cbn in E1, E2. cbn [fst snd].
          assert (r = pget (SMapped s m) x) as Hr by (cbn [pget]; rewrite Em; exact E1).
          split; [exact Hr|]. apply Hnew; auto.
    - destruct Hr as [Hid Hri]. cbn [hget pget]. destruct (N.eqb x n).
      + cbn. auto.
      + exact (IHs _ Hri st x Hc).
    - apply reg_ok_joint in Hr. destruct Hr as [Hid Hall].
      change (hget (SJoint l) lb st x) with (hget_joint x st l (lkids lb)).
      change (pget (SJoint l) x) with (pget_joint' x l).
      revert Hall. generalize (lkids lb). clear Hid.
      induction H as [|[y sub] es Hs Hes IH]; intros ls Hall.
      + cbn. auto.
      + destruct Hall as [Hr1 Hr2]. cbn [hget_joint pget_joint']. destruct (N.eqb y x).
        * exact (Hs _ Hr1 st x Hc).
        * exact (IH (tl ls) Hr2).
  Qed.

  (* ---------------------------------------------------------------- keys / as_dict *)
  Lemma hrange_asd_ok i n v lb st (inner : store -> result (list (ident * Q)) * store) :
    (forall st', sok st' -> fst (inner st') = pasd i /\ sok (snd (inner st'))) ->
    lookup G (lid lb) = Some (SRange i n v) -> sok st ->
    fst (hrange_asd n v (lid lb) st inner) = pasd (SRange i n v) /\ sok (snd (hrange_asd n v (lid lb) st inner)).
  Proof.
    intros Hin Hid Hc. unfold hrange_asd. pose proof (Hc _ _ Hid) as (Hca & Hasd & Hvc).
    destruct (n_asd (sget st (lid lb))) as [d|] eqn:Ea.
    - cbn. split; [symmetry; auto|exact Hc].
    - destruct (Hin st Hc) as [E1 E2]. destruct (inner st) as [r st1]. cbn in E1, E2. subst r.
      cbn [pasd]. destruct (pasd i) as [d|] eqn:Ep; cbn; [|auto].
      split; [reflexivity|]. apply (sok_set st1 (lid lb) _ _ E2 Hid).
      pose proof (E2 _ _ Hid) as (Hca1 & Hasd1 & Hvc1). repeat split; cbn [n_cache n_asd n_vc]; auto.
      intros d' Hd'. injection Hd' as <-. cbn [pasd]. rewrite Ep. reflexivity.
  Qed.

  Lemma hkeys_hasd_ok : forall s l st, reg_ok G s l -> sok st ->
    (fst (hkeys s l st) = pkeys s /\ sok (snd (hkeys s l st))) /\
    (fst (has_dict s l st) = pasd s /\ sok (snd (has_dict s l st))).
  Proof.
    induction s using scope_ind'; intros lb st Hr Hc.
    - cbn. auto.
    - pose proof Hr as [Hid Hro]. pose proof (Hc _ _ Hid) as (Hca & Hasd & Hvc).
      destruct (IHs (lkid0 lb) st Hro Hc) as [[K1 K2] _].
      split.
      + cbn [hkeys pkeys]. destruct (hkeys s (lkid0 lb) st) as [r st1]. cbn in *. rewrite K1. auto.
      + cbn [has_dict]. destruct (n_asd (sget st (lid lb))) as [d|] eqn:Ea.
        * cbn. split; [symmetry; auto|exact Hc].
        * destruct (hkeys s (lkid0 lb) st) as [rk st1]. cbn [fst snd] in *. subst rk. cbn [pasd].
          destruct (pkeys s) as [ks|] eqn:Epk; [|cbn; auto].
          destruct (sfold_refines _ _ (hget_ok (SMapped s m) lb Hr) (union (map fst m) ks) st1 [] K2) as [E1 E2].
          destruct (sfold (hget (SMapped s m) lb) (union (map fst m) ks) st1 []) as [rd st2].
          cbn [fst snd] in E1, E2. subst rd.
          destruct (pfold (pget (SMapped s m)) (union (map fst m) ks) []) as [d|] eqn:Ep; cbn [fst snd]; [|auto].
          split; [reflexivity|]. apply (sok_set st2 (lid lb) _ _ E2 Hid).
          pose proof (E2 _ _ Hid) as (Hca2 & Hasd2 & Hvc2). repeat split; cbn [n_cache n_asd n_vc]; auto.
          -- intros y w Hy. eapply pfold_lookup; eauto. intros ? ? Hn. discriminate.
          -- intros d' Hd'. injection Hd' as <-. cbn [pasd]. rewrite Epk. exact Ep.
    - pose proof Hr as [Hid Hri].
      assert (forall st', sok st' -> fst (has_dict s (lkid0 lb) st') = pasd s /\ sok (snd (has_dict s (lkid0 lb) st'))) as Hin.
      { intros st' Hc'. apply (IHs (lkid0 lb) st' Hri Hc'). }
      destruct (hrange_asd_ok s n v lb st _ Hin Hid Hc) as [E1 E2].
      split; [|cbn [has_dict]; auto].
      cbn [hkeys pkeys]. destruct (hrange_asd n v (lid lb) st (has_dict s (lkid0 lb))) as [r st']. cbn in *. subst r. auto.
    - split; [cbn; auto|]. pose proof Hr as Hr'. apply reg_ok_joint in Hr'. destruct Hr' as [Hid Hall].
      pose proof (Hc _ _ Hid) as (Hca & Hasd & Hvc).
      cbn [has_dict]. destruct (n_asd (sget st (lid lb))) as [d|] eqn:Ea.
      + cbn. split; [symmetry; auto|exact Hc].
      + destruct (sfold_refines _ _ (hget_ok (SJoint l) lb Hr) (map fst l) st [] Hc) as [E1 E2].
        destruct (sfold (hget (SJoint l) lb) (map fst l) st []) as [rd st2]. cbn [fst snd] in E1, E2. subst rd.
        cbn [pasd]. destruct (pfold (pget (SJoint l)) (map fst l) []) as [d|] eqn:Ep; cbn [fst snd]; [|auto].
        split; [reflexivity|]. apply (sok_set st2 (lid lb) _ _ E2 Hid).
        pose proof (E2 _ _ Hid) as (Hca2 & Hasd2 & Hvc2). repeat split; cbn [n_cache n_asd n_vc]; auto.
        intros d' Hd'. injection Hd' as <-. cbn [pasd]. exact Ep.
  Qed.

  Lemma hiter_ok : forall s l st, reg_ok G s l -> sok st -> fst (hiter s l st) = piter s /\ sok (snd (hiter s l st)).
  Proof.
    induction s using scope_ind'; intros lb st Hr Hc.
    - cbn. auto.
    - exact (proj1 (hkeys_hasd_ok (SMapped s m) lb st Hr Hc)).
    - destruct Hr as [Hid Hri]. destruct (IHs (lkid0 lb) st Hri Hc) as [E1 E2].
      cbn [hiter piter]. destruct (hiter s (lkid0 lb) st) as [r st1]. cbn in *. subst r. auto.
    - cbn. auto.
  Qed.

  Lemma hlen_ok : forall s l st, reg_ok G s l -> sok st -> fst (hlen s l st) = plen s /\ sok (snd (hlen s l st)).
  Proof.
    induction s using scope_ind'; intros lb st Hr Hc.
    - cbn. auto.
    - destruct (proj1 (hkeys_hasd_ok (SMapped s m) lb st Hr Hc)) as [E1 E2].
      cbn [hlen plen]. destruct (hkeys (SMapped s m) lb st) as [r st1]. cbn [fst snd] in *. subst r. auto.
    - destruct Hr as [Hid Hri]. destruct (IHs (lkid0 lb) st Hri Hc) as [E1 E2].
      cbn [hlen plen]. destruct (hlen s (lkid0 lb) st) as [r st1]. cbn in *. subst r. auto.
    - cbn. auto.
  Qed.

  Lemma hitems_ok s l st : reg_ok G s l -> sok st -> fst (hitems s l st) = pitems s /\ sok (snd (hitems s l st)).
  Proof.
    intros Hr Hc. destruct s; try exact (proj2 (hkeys_hasd_ok _ l st Hr Hc)).
    unfold hitems, pitems. apply (sfold_refines _ _ (hget_ok (SJoint l0) l Hr)). exact Hc.
  Qed.

  (* ---------------------------------------------------------------- get_volatile_parameters *)
  Definition hvolx_joint :=
    fix go (es : list (ident * scope)) (ls : list lab) (st : store) (acc : list (ident * expr))
      : result (list (ident * expr)) * store :=
      match es with
      | [] => (Ok acc, st)
      | (x, sub) :: es' =>
          let '(r, st') := hvolx sub (hd ldummy ls) st in
          match r with
          | Ok iv => go es' (tl ls) st' (match lookup iv x with Some e => dict_set acc x e | None => acc end)
          | Err e => (Err e, st')
          end
      end.

  Lemma hvolx_joint_eq es lb st :
    hvolx (SJoint es) lb st =
    match n_vc (sget st (lid lb)) with
    | Some ks => (Ok ks, st)
    | None => let '(r, st1) := hvolx_joint es (lkids lb) st [] in
              match r with
              | Ok vs => let nd := sget st1 (lid lb) in
                         (Ok vs, sset st1 (lid lb) (mkNode (n_cache nd) (n_asd nd) (Some vs)))
              | Err e => (Err e, st1)
              end
    end.
  Proof. reflexivity. Qed.

  Lemma hvolx_ok : forall s l st, reg_ok G s l -> sok st -> fst (hvolx s l st) = pvolx s /\ sok (snd (hvolx s l st)).
  Proof.
    induction s using scope_ind'; intros lb st Hr Hc.
    - cbn. auto.
    - pose proof Hr as [Hid Hro]. pose proof (Hc _ _ Hid) as (Hca & Hasd & Hvc).
      cbn [hvolx]. destruct (n_vc (sget st (lid lb))) as [ks|] eqn:Ev.
      + cbn. split; [symmetry; auto|exact Hc].
      + destruct (IHs (lkid0 lb) st Hro Hc) as [E1 E2].
        destruct (hvolx s (lkid0 lb) st) as [riv st1]. cbn [fst snd] in E1, E2. subst riv.
        assert (forall st' ks, sok st' -> pvolx (SMapped s m) = Ok ks ->
                  sok (let nd := sget st' (lid lb) in sset st' (lid lb) (mkNode (n_cache nd) (n_asd nd) (Some ks)))) as Hset.
        { intros st' ks Hc' Hp. apply (sok_set st' (lid lb) _ _ Hc' Hid).
          pose proof (Hc' _ _ Hid) as (Hca' & Hasd' & Hvc'). repeat split; cbn [n_cache n_asd n_vc]; auto.
          intros ks' Hks. injection Hks as <-. exact Hp. }
        cbn [pvolx]. destruct (pvolx s) as [iv|] eqn:Ep; [|cbn; auto].
        destruct iv as [|a iv'].
        * cbn [fst snd]. split; [reflexivity|]. apply Hset; auto. cbn [pvolx]. now rewrite Ep.
        * destruct (scollect_refines _ _ (a :: iv') (hget_ok s (lkid0 lb) Hro) m st1 (a :: iv') E2) as [F1 F2].
          destruct (scollect (hget s (lkid0 lb)) (a :: iv') m st1 (a :: iv')) as [r st2].
          cbn [fst snd] in F1, F2. subst r.
          destruct (pcollect (pget s) (a :: iv') m (a :: iv')) as [ks|] eqn:Ec; cbn [fst snd]; [|auto].
          split; [reflexivity|]. apply Hset; auto. cbn [pvolx]. rewrite Ep. exact Ec.
    - destruct Hr as [Hid Hri]. destruct (IHs (lkid0 lb) st Hri Hc) as [E1 E2].
      cbn [hvolx pvolx]. destruct (hvolx s (lkid0 lb) st) as [r st1]. cbn in *. subst r. auto.
    - pose proof Hr as Hr'. apply reg_ok_joint in Hr'. destruct Hr' as [Hid Hall].
      pose proof (Hc _ _ Hid) as (Hca & Hasd & Hvc).
      rewrite hvolx_joint_eq. destruct (n_vc (sget st (lid lb))) as [ks|] eqn:Ev.
      + cbn. split; [symmetry; auto|exact Hc].
      + change (pvolx (SJoint l)) with (pvolx_joint l []).
        assert (forall ls st acc, reg_all l ls -> sok st ->
                  fst (hvolx_joint l ls st acc) = pvolx_joint l acc /\ sok (snd (hvolx_joint l ls st acc))) as Hl.
        { clear Hall Hid Hca Hasd Hvc Hc Hr Ev. induction H as [|[y sub] es Hs Hes IH]; intros ls st' acc Hall Hc'.
          - cbn. auto.
          - destruct Hall as [Hr1 Hr2]. cbn [hvolx_joint pvolx_joint]. cbn [snd] in Hs.
            destruct (Hs (hd ldummy ls) st' Hr1 Hc') as [E1 E2].
            destruct (hvolx sub (hd ldummy ls) st') as [r st'']. cbn [fst snd] in E1, E2. subst r.
            destruct (pvolx sub) as [iv|]; [|cbn; auto].
            exact (IH (tl ls) st'' _ Hr2 E2). }
        destruct (Hl (lkids lb) st [] Hall Hc) as [E1 E2].
        destruct (hvolx_joint l (lkids lb) st []) as [r st1]. cbn [fst snd] in E1, E2. subst r.
        destruct (pvolx_joint l []) as [vs|] eqn:Ep; cbn [fst snd]; [|auto].
        split; [reflexivity|]. apply (sok_set st1 (lid lb) _ _ E2 Hid).
        pose proof (E2 _ _ Hid) as (Hca1 & Hasd1 & Hvc1). repeat split; cbn [n_cache n_asd n_vc]; auto.
        intros ks' Hks. injection Hks as <-. exact Ep.
  Qed.

  Lemma hvol_ok s l st : reg_ok G s l -> sok st -> fst (hvol s l st) = pvol s /\ sok (snd (hvol s l st)).
  Proof.
    intros Hr Hc. unfold hvol, pvol. destruct (hvolx_ok s l st Hr Hc) as [E1 E2].
    destruct (hvolx s l st) as [r st']. cbn [fst snd] in *. subst r. auto.
  Qed.

  (* ---------------------------------------------------------------- histories of queries *)
  Lemma hstep_ok s l st o : reg_ok G s l -> sok st -> is_query o = true ->
    fst (hstep s l st o) = fst (pstep s o) /\ snd (pstep s o) = s /\ sok (snd (hstep s l st o)).
  Proof.
    intros Hr Hc Hq. destruct o; try discriminate; cbn [hstep pstep].
    - destruct (hget_ok s l Hr st x Hc) as [E1 E2]. destruct (hget s l st x). cbn in *. subst. auto.
    - cbn. auto.
    - destruct (hiter_ok s l st Hr Hc) as [E1 E2]. destruct (hiter s l st). cbn in *. subst. auto.
    - destruct (hlen_ok s l st Hr Hc) as [E1 E2]. destruct (hlen s l st). cbn in *. subst. auto.
    - destruct (proj1 (hkeys_hasd_ok s l st Hr Hc)) as [E1 E2]. destruct (hkeys s l st). cbn in *. subst. auto.
    - destruct (hitems_ok s l st Hr Hc) as [E1 E2]. destruct (hitems s l st). cbn in *. subst. auto.
    - destruct (proj2 (hkeys_hasd_ok s l st Hr Hc)) as [E1 E2]. destruct (has_dict s l st). cbn in *. subst. auto.
    - destruct (hvol_ok s l st Hr Hc) as [E1 E2]. destruct (hvol s l st). cbn in *. subst. auto.
    - cbn. auto.
    - destruct (hvolx_ok s l st Hr Hc) as [E1 E2]. destruct (hvolx s l st). cbn in *. subst. auto.
  Qed.

  Lemma hrun_ok : forall ops s l st, reg_ok G s l -> sok st -> forallb is_query ops = true ->
    hrun s l st ops = prun s ops.
  Proof.
    induction ops as [|o ops IH]; intros s l st Hr Hc Hq; [reflexivity|].
    cbn [forallb] in Hq. apply andb_prop in Hq as [Hq1 Hq2].
    cbn [hrun prun]. destruct (hstep_ok s l st o Hr Hc Hq1) as (E1 & E2 & E3).
    destruct (hstep s l st o) as [b st']. destruct (pstep s o) as [b' s']. cbn [fst snd] in *. subst.
    now rewrite (IH _ _ _ Hr E3 Hq2).
  Qed.
End HeapProofs.

(* ---------------------------------------------------------------- an object graph with shared objects *)
(* S = MappedScope(DictScope, {2: p0 + p1}) is ONE object (id 1, its DictScope id 2); the joint scope (id 0) has it
   under two names and, a third time, below another MappedScope (id 3) *)
Definition ex_S : scope := SMapped (SDict [(0%N, 1#1); (1%N, 2#1)] [0%N]) [(2%N, EAdd (EVar 0%N) (EVar 1%N))].
Definition ex_T : scope := SMapped ex_S [(3%N, EMul (EVar 2%N) (EVar 2%N))].
Definition ex_J : scope := SJoint [(2%N, ex_S); (0%N, ex_S); (3%N, ex_T)].
Definition ex_lS : lab := L 1 [L 2 []].
Definition ex_lJ : lab := L 0 [ex_lS; ex_lS; L 3 [ex_lS]].
Definition ex_G : list (N * scope) :=
  [(0%N, ex_J); (1%N, ex_S); (2%N, SDict [(0%N, 1#1); (1%N, 2#1)] [0%N]); (3%N, ex_T)].

Lemma ex_reg : reg_ok ex_G ex_J ex_lJ.
Proof. cbn. repeat split. Qed.

(* a lookup of p3 through the third entry memoises p2 in the shared object S (id 1); in the tree model of Model.v the
   first entry's own copy of S would still be empty *)
Example ex_shared_write :
  n_cache (sget (snd (hget ex_J ex_lJ [] 3%N)) 1%N) = [(2%N, 3#1)] /\
  c_cache (hd cempty (c_kids (snd (get ex_J cempty 3%N)))) = [].
Proof. vm_compute. auto. Qed.
