(* C13 — the modelled `__eq__` (scope_eqb) is an equivalence relation on well-formed scopes. *)
From Coq Require Import ZArith NArith QArith Bool List Lia.
Require Import QV.C13.Model QV.C13.Spec QV.C13.Proofs QV.C13.ProofsViews QV.C13.ProofsVolX.
Import ListNotations.

Arguments mem : simpl never.

(* ---------------------------------------------------------------- numbers and expressions *)
Lemma Qeqb_sym p q : Qeq_bool p q = true -> Qeq_bool q p = true.
Proof. rewrite !Qeq_bool_iff. intros; now symmetry. Qed.
Lemma Qeqb_trans p q r : Qeq_bool p q = true -> Qeq_bool q r = true -> Qeq_bool p r = true.
Proof. rewrite !Qeq_bool_iff. intros; etransitivity; eauto. Qed.
Lemma Qeqb_refl p : Qeq_bool p p = true.
Proof. apply Qeq_bool_iff. reflexivity. Qed.

Lemma expr_eqb_refl e : expr_eqb e e = true.
Proof. induction e; cbn; rewrite ?IHe, ?IHe1, ?IHe2, ?N.eqb_refl, ?Qeqb_refl; auto. Qed.

Lemma expr_eqb_sym_imp : forall a b, expr_eqb a b = true -> expr_eqb b a = true.
Proof.
  induction a; intros [] H; cbn in *; try discriminate; auto using Qeqb_sym;
    try (apply andb_prop in H as [H1 H2]; rewrite ?(IHa1 _ H1), ?(IHa2 _ H2); reflexivity).
  - now rewrite N.eqb_sym.
  - apply andb_prop in H as [H1 H2]. now rewrite (IHa _ H1), (Qeqb_sym _ _ H2).
Qed.

Lemma expr_eqb_trans : forall a b c, expr_eqb a b = true -> expr_eqb b c = true -> expr_eqb a c = true.
Proof.
  induction a; intros [] [] H K; cbn in *; try discriminate; eauto using Qeqb_trans;
    try (apply andb_prop in H as [H1 H2]; apply andb_prop in K as [K1 K2];
         rewrite ?(IHa1 _ _ H1 K1), ?(IHa2 _ _ H2 K2); reflexivity).
  - apply N.eqb_eq in H, K. subst. apply N.eqb_refl.
  - apply andb_prop in H as [H1 H2]. apply andb_prop in K as [K1 K2].
    now rewrite (IHa _ _ H1 K1), (Qeqb_trans _ _ _ H2 K2).
Qed.

(* ---------------------------------------------------------------- dictionaries with distinct keys *)
Definition drel {A} (e : A -> A -> bool) (a b : list (ident * A)) : Prop :=
  forall k v, lookup a k = Some v -> exists w, lookup b k = Some w /\ e v w = true.

Lemma In_lookup {A} (l : list (ident * A)) k v : nodup_keys l = true -> In (k, v) l -> lookup l k = Some v.
Proof.
  induction l as [|[y a] l IH]; intros Hnd Hin; [destruct Hin|].
  apply nodup_keys_cons in Hnd as [Hy Hnd]. cbn [lookup]. destruct Hin as [Hin|Hin].
  - injection Hin as -> ->. now rewrite N.eqb_refl.
  - destruct (N.eqb y k) eqn:E; [|auto]. apply N.eqb_eq in E; subst y.
    apply (in_map fst) in Hin. cbn in Hin. apply mem_spec in Hin. rewrite <- lookup_mem, Hy in Hin. discriminate.
Qed.

Lemma dict_eqb_spec {A} (e : A -> A -> bool) a b : nodup_keys a = true ->
  (dict_eqb e a b = true <-> length a = length b /\ drel e a b).
Proof.
  intros Hnd. unfold dict_eqb. rewrite andb_true_iff, Nat.eqb_eq, forallb_forall. split; intros [H1 H2]; split; auto.
  - intros k v Hk. specialize (H2 (k, v) (lookup_In _ _ _ Hk)). cbn [fst snd] in H2.
    destruct (lookup b k) as [w|]; [eauto|discriminate].
  - intros [k v] Hin. cbn [fst snd]. destruct (H2 k v (In_lookup _ _ _ Hnd Hin)) as [w [-> Hw]]. exact Hw.
Qed.

Lemma keys_back {A} (a b : list (ident * A)) :
  nodup_keys a = true -> length a = length b ->
  (forall k, is_some (lookup a k) = true -> is_some (lookup b k) = true) ->
  forall k, is_some (lookup b k) = true -> is_some (lookup a k) = true.
Proof.
  intros Ha Hlen Hsub k Hk. rewrite lookup_mem in *. apply mem_spec. apply mem_spec in Hk.
  refine (NoDup_length_incl (l:=map fst a) (l':=map fst b) (nodup_keys_NoDup a Ha) _ _ k Hk).
  - rewrite !map_length. lia.
  - intros x Hx. apply mem_spec. rewrite <- lookup_mem. apply Hsub. rewrite lookup_mem. now apply mem_spec.
Qed.

Lemma drel_sym {A} (e e' : A -> A -> bool) a b :
  nodup_keys a = true -> length a = length b -> drel e a b ->
  (forall k v w, lookup a k = Some v -> lookup b k = Some w -> e v w = true -> e' w v = true) ->
  drel e' b a.
Proof.
  intros Ha Hlen Hr Hs k w Hk.
  assert (is_some (lookup a k) = true) as Hka.
  { apply (keys_back a b Ha Hlen); [|now rewrite Hk].
    intros k0 H0. destruct (lookup a k0) as [v0|] eqn:E0; [|discriminate].
    destruct (Hr k0 v0 E0) as [w0 [-> _]]. reflexivity. }
  destruct (lookup a k) as [v|] eqn:Ea; [|discriminate].
  destruct (Hr k v Ea) as [w' [Hw' Hev]]. rewrite Hk in Hw'. injection Hw' as <-.
  exists v. split; [reflexivity|]. exact (Hs k v w Ea Hk Hev).
Qed.

Lemma drel_trans {A} (e : A -> A -> bool) a b c :
  drel e a b -> drel e b c ->
  (forall k v w u, lookup a k = Some v -> lookup b k = Some w -> lookup c k = Some u ->
                   e v w = true -> e w u = true -> e v u = true) ->
  drel e a c.
Proof.
  intros H1 H2 Ht k v Hk. destruct (H1 k v Hk) as [w [Hw E1]]. destruct (H2 k w Hw) as [u [Hu E2]].
  exists u. split; [exact Hu|]. exact (Ht k v w u Hk Hw Hu E1 E2).
Qed.

Lemma drel_refl {A} (e : A -> A -> bool) a : (forall k v, lookup a k = Some v -> e v v = true) -> drel e a a.
Proof. intros H k v Hk. exists v. split; [exact Hk|]. exact (H k v Hk). Qed.

(* ---------------------------------------------------------------- sets of names *)
Lemma set_eqb_spec a b : set_eqb a b = true <-> (forall x, mem x a = mem x b).
Proof.
  unfold set_eqb. rewrite andb_true_iff, !forallb_forall. split.
  - intros [H1 H2] x. destruct (mem x a) eqn:Ea.
    + symmetry. apply H1. now apply mem_spec.
    + destruct (mem x b) eqn:Eb; [|reflexivity]. rewrite (H2 x) in Ea; [discriminate|now apply mem_spec].
  - intros H. split; intros x Hx; apply mem_spec in Hx; [rewrite <- H|rewrite H]; exact Hx.
Qed.

(* ---------------------------------------------------------------- scopes *)
Lemma scope_eqb_joint l1 l2 : scope_eqb (SJoint l1) (SJoint l2) = dict_eqb scope_eqb l1 l2.
Proof.
  unfold dict_eqb. cbn [scope_eqb]. f_equal.
  induction l1 as [|[k s1] l1 IH]; [reflexivity|]. cbn [forallb fst snd]. now rewrite <- IH.
Qed.

Lemma wf_sub l k sub : forallb (fun p : ident * scope => wf_scope (snd p)) l = true -> lookup l k = Some sub ->
  wf_scope sub = true.
Proof. intros H Hk. rewrite forallb_forall in H. exact (H (k, sub) (lookup_In _ _ _ Hk)). Qed.

Lemma scope_eqb_refl : forall s, wf_scope s = true -> scope_eqb s s = true.
Proof.
  induction s using scope_ind'; intros Hwf.
  - cbn [scope_eqb wf_scope] in *. apply andb_true_intro. split.
    + apply dict_eqb_spec; auto. split; [reflexivity|]. apply drel_refl. intros; apply Qeqb_refl.
    + now apply set_eqb_spec.
  - cbn [scope_eqb wf_scope] in *. apply andb_prop in Hwf as [Hwo Hwm]. rewrite (IHs Hwo). cbn.
    apply dict_eqb_spec; auto. split; [reflexivity|]. apply drel_refl. intros; apply expr_eqb_refl.
  - cbn [scope_eqb wf_scope] in *. now rewrite N.eqb_refl, Qeqb_refl, (IHs Hwf).
  - rewrite scope_eqb_joint. cbn [wf_scope] in Hwf. apply andb_prop in Hwf as [Hnd Hwl].
    apply dict_eqb_spec; auto. split; [reflexivity|]. apply drel_refl. intros k v Hk.
    rewrite Forall_forall in H. apply (H (k, v) (lookup_In _ _ _ Hk)). exact (wf_sub l k v Hwl Hk).
Qed.

Lemma scope_eqb_sym_imp : forall a, wf_scope a = true -> forall b, wf_scope b = true ->
  scope_eqb a b = true -> scope_eqb b a = true.
Proof.
  induction a using scope_ind'; intros Hwa [] Hwb He; cbn [scope_eqb] in He; try discriminate.
  - cbn [scope_eqb wf_scope] in *. apply andb_prop in He as [H1 H2]. apply andb_true_intro. split.
    + apply dict_eqb_spec in H1 as [L R]; auto. apply dict_eqb_spec; auto. split; [auto|].
      apply (drel_sym Qeq_bool Qeq_bool vals vals0); auto. intros; now apply Qeqb_sym.
    + apply set_eqb_spec. intros x. symmetry. revert x. now apply set_eqb_spec.
  - cbn [scope_eqb wf_scope] in *. apply andb_prop in Hwa as [Hwo Hwm]. apply andb_prop in Hwb as [Hwo' Hwm'].
    apply andb_prop in He as [H1 H2]. rewrite (IHa Hwo _ Hwo' H1). cbn.
    apply dict_eqb_spec in H2 as [L R]; auto. apply dict_eqb_spec; auto. split; [auto|].
    apply (drel_sym expr_eqb expr_eqb m m0); auto. intros; now apply expr_eqb_sym_imp.
  - cbn [scope_eqb wf_scope] in *. apply andb_prop in He as [H12 H3]. apply andb_prop in H12 as [H1 H2].
    rewrite (IHa Hwa _ Hwb H3), (Qeqb_sym _ _ H2), N.eqb_sym, H1. reflexivity.
  - rewrite scope_eqb_joint. change (scope_eqb (SJoint l) (SJoint l0)) with (scope_eqb (SJoint l) (SJoint l0)) in He.
    assert (scope_eqb (SJoint l) (SJoint l0) = true) as He' by exact He. rewrite scope_eqb_joint in He'.
    cbn [wf_scope] in Hwa, Hwb. apply andb_prop in Hwa as [Hnd Hwl]. apply andb_prop in Hwb as [Hnd' Hwl'].
    apply dict_eqb_spec in He' as [L R]; auto. apply dict_eqb_spec; auto. split; [auto|].
    apply (drel_sym scope_eqb scope_eqb l l0); auto. intros k v w Hv Hw E.
    rewrite Forall_forall in H. apply (H (k, v) (lookup_In _ _ _ Hv)); auto.
    + exact (wf_sub l k v Hwl Hv).
    + exact (wf_sub l0 k w Hwl' Hw).
Qed.

Theorem scope_eqb_sym a b : wf_scope a = true -> wf_scope b = true -> scope_eqb a b = scope_eqb b a.
Proof.
  intros Ha Hb. destruct (scope_eqb a b) eqn:E1.
  - symmetry. now apply scope_eqb_sym_imp.
  - destruct (scope_eqb b a) eqn:E2; [|reflexivity]. rewrite (scope_eqb_sym_imp b Hb a Ha E2) in E1. discriminate.
Qed.

Theorem scope_eqb_trans : forall a, wf_scope a = true -> forall b c, wf_scope b = true -> wf_scope c = true ->
  scope_eqb a b = true -> scope_eqb b c = true -> scope_eqb a c = true.
Proof.
  induction a using scope_ind'; intros Hwa [] [] Hwb Hwc H1 H2; cbn [scope_eqb] in H1, H2; try discriminate.
  - cbn [scope_eqb wf_scope] in *. apply andb_prop in H1 as [A1 A2]. apply andb_prop in H2 as [B1 B2].
    apply andb_true_intro. split.
    + apply dict_eqb_spec in A1 as [L1 R1]; auto. apply dict_eqb_spec in B1 as [L2 R2]; auto.
      apply dict_eqb_spec; auto. split; [congruence|].
      apply (drel_trans Qeq_bool vals vals0 vals1); auto. intros; eapply Qeqb_trans; eauto.
    + apply set_eqb_spec. intros x. rewrite (proj1 (set_eqb_spec _ _) A2 x). now apply set_eqb_spec.
  - cbn [scope_eqb wf_scope] in *. apply andb_prop in Hwa as [Hwo Hwm]. apply andb_prop in Hwb as [Hwo' Hwm'].
    apply andb_prop in Hwc as [Hwo'' Hwm''].
    apply andb_prop in H1 as [A1 A2]. apply andb_prop in H2 as [B1 B2].
    rewrite (IHa Hwo _ _ Hwo' Hwo'' A1 B1). cbn.
    apply dict_eqb_spec in A2 as [L1 R1]; auto. apply dict_eqb_spec in B2 as [L2 R2]; auto.
    apply dict_eqb_spec; auto. split; [congruence|].
    apply (drel_trans expr_eqb m m0 m1); auto. intros; eapply expr_eqb_trans; eauto.
  - cbn [scope_eqb wf_scope] in *. apply andb_prop in H1 as [A12 A3]. apply andb_prop in A12 as [A1 A2].
    apply andb_prop in H2 as [B12 B3]. apply andb_prop in B12 as [B1 B2].
    apply N.eqb_eq in A1, B1. subst.
    now rewrite N.eqb_refl, (Qeqb_trans _ _ _ A2 B2), (IHa Hwa _ _ Hwb Hwc A3 B3).
  - assert (scope_eqb (SJoint l) (SJoint l0) = true) as A by exact H1.
    assert (scope_eqb (SJoint l0) (SJoint l1) = true) as B by exact H2.
    rewrite scope_eqb_joint in *.
    cbn [wf_scope] in Hwa, Hwb, Hwc. apply andb_prop in Hwa as [Hnd Hwl]. apply andb_prop in Hwb as [Hnd' Hwl'].
    apply andb_prop in Hwc as [Hnd'' Hwl''].
    apply dict_eqb_spec in A as [L1 R1]; auto. apply dict_eqb_spec in B as [L2 R2]; auto.
    apply dict_eqb_spec; auto. split; [congruence|].
    apply (drel_trans scope_eqb l l0 l1); auto. intros k v w u Hv Hw Hu E1 E2.
    rewrite Forall_forall in H. apply (H (k, v) (lookup_In _ _ _ Hv)) with (b := w); auto.
    + exact (wf_sub l k v Hwl Hv).
    + exact (wf_sub l0 k w Hwl' Hw).
    + exact (wf_sub l1 k u Hwl'' Hu).
Qed.

(* without distinct keys `==` of the model is not even reflexive (a Python dict cannot have such a shape) *)
Example scope_eqb_refl_needs_wf :
  exists s, wf_scope s = false /\ scope_eqb s s = false.
Proof. exists (SDict [(0%N, 1#1); (0%N, 2#1)] []). split; reflexivity. Qed.
