(* C13 — the dependency EXPRESSIONS reported by get_volatile_parameters():
     * evaluated in any environment of constants that extends the roots of the scope rebuilt from changed volatile
       constants, the expression reported for x yields the value x has in the rebuilt scope (nc = [] : the current
       value);
     * a parameter that is not reported keeps its value under every change of volatile constants (semantic
       dependence implies the syntactic dependence the code reports);
     * get_volatile_parameters() cannot raise on a scope that denotes a mapping. *)
From Coq Require Import ZArith NArith QArith Bool List Lia.
Require Import QV.C13.Model QV.C13.Pure QV.C13.Spec QV.C13.Proofs QV.C13.ProofsViews QV.C13.ProofsCache.
Import ListNotations.

Arguments mem : simpl never.
Arguments union : simpl never.

(* ---------------------------------------------------------------- expressions *)
Lemma eval_subst env sg e :
  eval env (subst sg e) = eval (fun y => match sg y with Some r => eval env r | None => env y end) e.
Proof.
  induction e; cbn [subst eval]; try (rewrite ?IHe, ?IHe1, ?IHe2; reflexivity).
  destruct (sg x); reflexivity.
Qed.

(* ---------------------------------------------------------------- small list facts *)
Lemma lookup_In {A} (l : list (ident * A)) x a : lookup l x = Some a -> In (x, a) l.
Proof.
  induction l as [|[y b] l IH]; cbn; [discriminate|].
  destruct (N.eqb y x) eqn:E; intros H.
  - injection H as <-. apply N.eqb_eq in E. subst. auto.
  - auto.
Qed.

Lemma lookup_update_vals vals nc x :
  lookup (update_vals vals nc) x =
  match lookup vals x with
  | Some v => Some (match lookup nc x with Some v' => v' | None => v end)
  | None => None
  end.
Proof.
  induction vals as [|[y v] vals IH]; [reflexivity|].
  cbn [update_vals map lookup fst snd]. destruct (N.eqb y x) eqn:E.
  - apply N.eqb_eq in E. now subst.
  - exact IH.
Qed.

Lemma lookup_map_snd {A B} (f : A -> B) (l : list (ident * A)) x :
  lookup (map (fun p => (fst p, f (snd p))) l) x = match lookup l x with Some a => Some (f a) | None => None end.
Proof.
  induction l as [|[y a] l IH]; [reflexivity|]. cbn. destruct (N.eqb y x); auto.
Qed.

Lemma pfold_entries g : forall xs acc d, pfold g xs acc = Ok d ->
  (forall y w, lookup acc y = Some w -> g y = Ok w) ->
  forall y, In y xs \/ is_some (lookup acc y) = true -> exists w, lookup d y = Some w /\ g y = Ok w.
Proof.
  induction xs as [|z xs IH]; intros acc d H Hacc y Hy; cbn in H.
  - injection H as <-. destruct Hy as [[]|Hy]. destruct (lookup acc y) as [w|] eqn:E; [|discriminate]. eauto.
  - destruct (g z) as [v|] eqn:Ez; [|discriminate].
    apply (IH (acc ++ [(z, v)]) d H).
    + intros y' w' Hl. rewrite lookup_app in Hl. destruct (lookup acc y') eqn:E.
      * injection Hl as <-. eauto.
      * cbn in Hl. destruct (N.eqb z y') eqn:E2; [|discriminate]. injection Hl as <-.
        apply N.eqb_eq in E2. now subst.
    + rewrite lookup_app. destruct Hy as [[->|Hy]|Hy]; auto.
      * right. destruct (lookup acc y); [reflexivity|]. cbn. now rewrite N.eqb_refl.
      * right. destruct (lookup acc y); [reflexivity|discriminate].
Qed.

(* ---------------------------------------------------------------- denotation, looked up *)
Lemma denote_mapped_lookup o m d : nodup_keys m = true -> denote_scope (SMapped o m) = Ok d ->
  exists d0, denote_scope o = Ok d0 /\
    (forall x, lookup d x = match lookup m x with Some e => eval (lookup d0) e | None => lookup d0 x end) /\
    (forall x e, lookup m x = Some e -> exists v, eval (lookup d0) e = Some v).
Proof.
  intros Hwm Hd. cbn [denote_scope] in Hd. destruct (denote_scope o) as [d0|] eqn:Ed0; [|discriminate].
  destruct (eval_all d0 m) as [mv|] eqn:Emv; [|discriminate]. injection Hd as <-.
  destruct (eval_all_spec _ _ _ Emv) as [K1 K2]. exists d0. split; [reflexivity|]. split.
  - intros x. destruct (K2 x) as [K3 K4].
    rewrite lookup_override by (rewrite (nodup_keys_fst mv m K1); exact Hwm).
    rewrite K3. destruct (lookup m x) as [e|]; [|reflexivity].
    destruct (K4 e eq_refl) as [v Hv]. now rewrite Hv.
  - intros x e He. destruct (K2 x) as [_ K4]. eauto.
Qed.

Lemma denote_joint_lookup : forall l d, denote_joint l = Ok d -> forall x,
  match lookup l x with
  | Some sub => exists ds v, denote_scope sub = Ok ds /\ lookup ds x = Some v /\ lookup d x = Some v
  | None => lookup d x = None
  end.
Proof.
  induction l as [|[y sub] l IH]; intros d Hd x.
  - cbn in Hd. injection Hd as <-. reflexivity.
  - cbn [denote_joint] in Hd. destruct (denote_scope sub) as [ds|] eqn:Eds; [|discriminate].
    destruct (lookup ds y) as [v|] eqn:Ey; [|discriminate].
    destruct (denote_joint l) as [r|] eqn:Er; [|discriminate]. injection Hd as <-.
    cbn [lookup]. destruct (N.eqb y x) eqn:Eyx.
    + apply N.eqb_eq in Eyx; subst y. exists ds, v. auto.
    + apply IH. reflexivity.
Qed.

Lemma pvolx_joint_lookup : forall l acc ve, nodup_keys l = true -> pvolx_joint l acc = Ok ve -> forall x,
  match lookup l x with
  | Some sub => exists iv, pvolx sub = Ok iv /\
                           lookup ve x = match lookup iv x with Some e => Some e | None => lookup acc x end
  | None => lookup ve x = lookup acc x
  end.
Proof.
  induction l as [|[y sub] l IH]; intros acc ve Hnd Hv x.
  - cbn in Hv. injection Hv as <-. reflexivity.
  - apply nodup_keys_cons in Hnd as [Hy Hnd]. cbn [pvolx_joint] in Hv.
    destruct (pvolx sub) as [iv|] eqn:Ei; [|discriminate].
    specialize (IH _ _ Hnd Hv x). cbn [lookup]. destruct (N.eqb y x) eqn:Eyx.
    + apply N.eqb_eq in Eyx; subst y. rewrite Hy in IH. exists iv. split; [exact Ei|]. rewrite IH.
      destruct (lookup iv x); [|reflexivity]. now rewrite lookup_dict_set, N.eqb_refl.
    + assert (lookup (match lookup iv y with Some e => dict_set acc y e | None => acc end) x = lookup acc x) as Ha.
      { destruct (lookup iv y); [|reflexivity]. now rewrite lookup_dict_set, Eyx. }
      rewrite Ha in IH. exact IH.
Qed.

(* ---------------------------------------------------------------- changes_non_volatile = false, unfolded *)
Lemma cnv_dict vals vl nc x v :
  changes_non_volatile (SDict vals vl) nc = false -> lookup vals x = Some v -> mem x vl = false ->
  lookup nc x = None.
Proof.
  cbn [changes_non_volatile]. intros H Hx Hm.
  destruct (lookup nc x) eqn:E; [|reflexivity]. exfalso.
  assert (existsb (fun k => is_some (lookup nc k) && negb (mem k vl)) (map fst vals) = true) as K.
  { apply existsb_exists. exists x. split.
    - apply lookup_In in Hx. apply (in_map fst) in Hx. exact Hx.
    - now rewrite E, Hm. }
  congruence.
Qed.

(* ---------------------------------------------------------------- part 1: unreported parameters keep their value *)
Lemma not_dep_vars iv e : dep_expr iv e = false -> forall y, In y (free_vars e) -> lookup iv y = None.
Proof.
  unfold dep_expr. intros H y Hy. apply in_vars in Hy.
  destruct (lookup iv y) eqn:E; [|reflexivity]. exfalso.
  assert (existsb (fun y => is_some (lookup iv y)) (vars e) = true) as K.
  { apply existsb_exists. exists y. split; [exact Hy|now rewrite E]. }
  congruence.
Qed.

Lemma unreported_invariant : forall s, wf_scope s = true ->
  forall nc d d' ve, changes_non_volatile s nc = false ->
    denote_scope s = Ok d -> denote_scope (rebuild s nc) = Ok d' -> pvolx s = Ok ve ->
    forall x, lookup ve x = None -> lookup d' x = lookup d x.
Proof.
  induction s using scope_ind'; intros Hwf nc d d' ve Hnv Hd Hd' Hv x Ex.
  - cbn in Hd, Hd', Hv. injection Hd as <-. injection Hd' as <-. injection Hv as <-.
    rewrite lookup_map_self, mem_nodupN in Ex. destruct (mem x vl) eqn:Em; [discriminate|].
    rewrite lookup_update_vals. destruct (lookup vals x) as [v|] eqn:Ev; [|reflexivity].
    now rewrite (cnv_dict vals vl nc x v Hnv Ev Em).
  - cbn [wf_scope] in Hwf. apply andb_prop in Hwf as [Hwo Hwm].
    cbn [rebuild] in Hd'.
    destruct (denote_mapped_lookup _ _ _ Hwm Hd) as (d0 & Ed0 & Ld & Xd).
    destruct (denote_mapped_lookup _ _ _ Hwm Hd') as (d0' & Ed0' & Ld' & Xd').
    cbn [pvolx] in Hv. destruct (pvolx s) as [iv|] eqn:Ei; [|discriminate].
    assert (forall y, lookup iv y = None -> lookup d0' y = lookup d0 y) as I1
      by (intros y Hy; exact (IHs Hwo nc d0 d0' iv Hnv Ed0 Ed0' eq_refl y Hy)).
    assert (forall x e, lookup m x = Some e -> dep_expr iv e = false ->
              eval (lookup d0') e = eval (lookup d0) e) as Hnodep.
    { intros x0 e Hm Hdep. apply eval_agree. intros y Hy. apply I1. exact (not_dep_vars iv e Hdep y Hy). }
    rewrite Ld, Ld'. destruct iv as [|a r].
    + destruct (lookup m x) as [e|] eqn:Em.
      * apply (Hnodep x e Em). unfold dep_expr. induction (vars e); cbn; auto.
      * apply I1. reflexivity.
    + pose proof (pcollect_spec _ _ _ _ _ Hwm Hv x) as Hs.
      destruct (lookup m x) as [e|] eqn:Em.
      * destruct (dep_expr (a :: r) e) eqn:Edep.
        -- destruct Hs as [env0 [_ Hs]]. congruence.
        -- exact (Hnodep x e Em Edep).
      * apply I1. congruence.
  - cbn [wf_scope] in Hwf. cbn [rebuild] in Hd'. cbn [denote_scope] in Hd, Hd'.
    destruct (denote_scope s) as [d0|] eqn:Ed0; [|discriminate].
    destruct (denote_scope (rebuild s nc)) as [d0'|] eqn:Ed0'; [|discriminate].
    cbn in Hd, Hd'. injection Hd as <-. injection Hd' as <-.
    cbn [pvolx] in Hv. destruct (pvolx s) as [iv|] eqn:Ei; [|discriminate]. cbn in Hv. injection Hv as <-.
    rewrite !lookup_dict_set. rewrite lookup_remove_key in Ex.
    destruct (N.eqb n x); [reflexivity|]. exact (IHs Hwf nc d0 d0' iv Hnv eq_refl Ed0' eq_refl x Ex).
  - cbn [wf_scope] in Hwf. apply andb_prop in Hwf as [Hnd Hwl].
    change (denote_scope (SJoint l)) with (denote_joint l) in Hd.
    cbn [rebuild] in Hd'.
    change (denote_scope (SJoint (map (fun p => (fst p, rebuild (snd p) nc)) l)))
      with (denote_joint (map (fun p => (fst p, rebuild (snd p) nc)) l)) in Hd'.
    change (pvolx (SJoint l)) with (pvolx_joint l []) in Hv.
    pose proof (denote_joint_lookup _ _ Hd x) as A.
    pose proof (denote_joint_lookup _ _ Hd' x) as B.
    pose proof (lookup_map_snd (fun s0 => rebuild s0 nc) l x) as LM. cbn beta in LM. rewrite LM in B. clear LM.
    pose proof (pvolx_joint_lookup _ _ _ Hnd Hv x) as C.
    destruct (lookup l x) as [sub|] eqn:El; [|congruence].
    destruct A as (ds & v & A1 & A2 & A3). destruct B as (ds' & v' & B1 & B2 & B3).
    destruct C as (iv & C1 & C2).
    pose proof (lookup_In _ _ _ El) as Hin.
    rewrite Forall_forall in H. specialize (H (x, sub) Hin). cbn [snd] in H.
    rewrite forallb_forall in Hwl. specialize (Hwl (x, sub) Hin). cbn [snd] in Hwl.
    assert (changes_non_volatile sub nc = false) as S3.
    { cbn [changes_non_volatile] in Hnv. destruct (changes_non_volatile sub nc) eqn:E; [|reflexivity].
      assert (existsb (fun p => changes_non_volatile (snd p) nc) l = true) as K
        by (apply existsb_exists; exists (x, sub); auto). congruence. }
    rewrite A3, B3, <- A2, <- B2.
    apply (H Hwl nc ds ds' iv S3 A1 B1 C1 x).
    rewrite C2 in Ex. destruct (lookup iv x); [discriminate|reflexivity].
Qed.

(* ---------------------------------------------------------------- the main induction *)
Definition volx_sound_at (s : scope) : Prop :=
  wf_scope s = true ->
  forall nc d d' ve env,
    changes_non_volatile s nc = false ->
    denote_scope s = Ok d -> denote_scope (rebuild s nc) = Ok d' -> pvolx s = Ok ve ->
    env_for env (rebuild s nc) ->
    forall x e q, lookup ve x = Some e -> lookup d' x = Some q -> eval env e = Some q.

Lemma volx_sound : forall s, volx_sound_at s.
Proof.
  induction s using scope_ind'; intros Hwf nc d d' ve env Hnv Hd Hd' Hv Henv.
  - (* DictScope *)
    cbn in Hd, Hd', Hv. injection Hd as <-. injection Hd' as <-. injection Hv as <-.
    intros x e q Hx Hq. rewrite lookup_map_self in Hx. destruct (mem x (nodupN vl)); [|discriminate].
    injection Hx as <-. cbn [eval]. apply (Henv (update_vals vals nc)); [cbn; auto|exact Hq].
  - (* MappedScope *)
    pose proof Hwf as Hwf0.
    cbn [wf_scope] in Hwf. apply andb_prop in Hwf as [Hwo Hwm].
    cbn [rebuild] in Hd', Henv.
    destruct (denote_mapped_lookup _ _ _ Hwm Hd) as (d0 & Ed0 & Ld & Xd).
    destruct (denote_mapped_lookup _ _ _ Hwm Hd') as (d0' & Ed0' & Ld' & Xd').
    cbn [pvolx] in Hv. destruct (pvolx s) as [iv|] eqn:Ei; [|discriminate].
    pose proof (IHs Hwo nc d0 d0' iv env Hnv Ed0 Ed0' Ei Henv) as I2.
    pose proof (unreported_invariant s Hwo nc d0 d0' iv Hnv Ed0 Ed0' Ei) as I1.
    pose proof (pget_denote s Hwo d0 Ed0) as Hget.
    destruct iv as [|a r].
    + injection Hv as <-. intros x e q Hx; discriminate.
    + intros x e' q Hx Hq. rewrite Ld' in Hq. pose proof (pcollect_spec _ _ _ _ _ Hwm Hv x) as Hs.
      destruct (lookup m x) as [e|] eqn:Em.
      * destruct (dep_expr (a :: r) e) eqn:Edep; [|congruence].
        destruct Hs as [env0 [Hf Hs]]. rewrite Hs in Hx. injection Hx as <-.
        rewrite eval_subst, <- Hq. apply eval_agree. intros y Hy.
        destruct (eval_some_vars _ _ _ Hq y Hy) as [w Hw].
        unfold vol_subst. destruct (lookup (a :: r) y) as [ry|] eqn:Ey.
        -- rewrite Hw. exact (I2 y ry w Ey Hw).
        -- destruct (pfold_entries _ _ _ _ Hf (fun _ _ K => ltac:(discriminate K)) y) as [w0 [Hl Hg]].
           { left. unfold nonvol_vars. apply filter_In. split; [now apply in_vars|now rewrite Ey]. }
           rewrite Hl. cbn [eval]. rewrite Hget in Hg. rewrite (I1 y Ey).
           destruct (lookup d0 y); cbn in Hg; [now injection Hg as ->|discriminate].
      * rewrite Hs in Hx. exact (I2 x e' q Hx Hq).
  - (* RangeScope *)
    cbn [wf_scope] in Hwf. cbn [rebuild] in Hd', Henv. cbn [denote_scope] in Hd, Hd'.
    destruct (denote_scope s) as [d0|] eqn:Ed0; [|discriminate].
    destruct (denote_scope (rebuild s nc)) as [d0'|] eqn:Ed0'; [|discriminate].
    cbn in Hd, Hd'. injection Hd as <-. injection Hd' as <-.
    cbn [pvolx] in Hv. destruct (pvolx s) as [iv|] eqn:Ei; [|discriminate]. cbn in Hv. injection Hv as <-.
    pose proof (IHs Hwf nc d0 d0' iv env Hnv Ed0 Ed0' Ei Henv) as I2.
    intros x e q Hx Hq. rewrite lookup_remove_key in Hx. rewrite lookup_dict_set in Hq.
    destruct (N.eqb n x); [discriminate|]. exact (I2 x e q Hx Hq).
  - (* JointScope *)
    cbn [wf_scope] in Hwf. apply andb_prop in Hwf as [Hnd Hwl].
    change (denote_scope (SJoint l)) with (denote_joint l) in Hd.
    cbn [rebuild] in Hd', Henv.
    change (denote_scope (SJoint (map (fun p => (fst p, rebuild (snd p) nc)) l)))
      with (denote_joint (map (fun p => (fst p, rebuild (snd p) nc)) l)) in Hd'.
    change (pvolx (SJoint l)) with (pvolx_joint l []) in Hv.
    intros x e q Hve Hq.
    pose proof (denote_joint_lookup _ _ Hd x) as A.
    pose proof (denote_joint_lookup _ _ Hd' x) as B.
    pose proof (lookup_map_snd (fun s0 => rebuild s0 nc) l x) as LM. cbn beta in LM. rewrite LM in B. clear LM.
    pose proof (pvolx_joint_lookup _ _ _ Hnd Hv x) as C.
    destruct (lookup l x) as [sub|] eqn:El; [|cbn in C; congruence].
    destruct A as (ds & v & A1 & A2 & A3). destruct B as (ds' & v' & B1 & B2 & B3).
    destruct C as (iv & C1 & C2).
    pose proof (lookup_In _ _ _ El) as Hin.
    rewrite Forall_forall in H. specialize (H (x, sub) Hin). cbn [snd] in H.
    rewrite forallb_forall in Hwl. specialize (Hwl (x, sub) Hin). cbn [snd] in Hwl.
    assert (changes_non_volatile sub nc = false) as S3.
    { cbn [changes_non_volatile] in Hnv. destruct (changes_non_volatile sub nc) eqn:E; [|reflexivity].
      assert (existsb (fun p => changes_non_volatile (snd p) nc) l = true) as K
        by (apply existsb_exists; exists (x, sub); auto). congruence. }
    assert (env_for env (rebuild sub nc)) as S4.
    { intros vals Hv'. apply Henv. cbn [roots]. apply in_flat_map.
      exists (x, rebuild sub nc). split; [|exact Hv'].
      apply (in_map (fun p => (fst p, rebuild (snd p) nc))) in Hin. exact Hin. }
    apply (H Hwl nc ds ds' iv env S3 A1 B1 C1 S4 x e q).
    + rewrite C2 in Hve. cbn [lookup] in Hve. destruct (lookup iv x); [exact Hve|discriminate].
    + congruence.
Qed.

(* ---------------------------------------------------------------- rebuilding with no change *)
Lemma update_vals_nil vals : update_vals vals [] = vals.
Proof. unfold update_vals. induction vals as [|[k v] vals IH]; cbn in *; [reflexivity|]. now rewrite IH. Qed.

Lemma rebuild_nil : forall s, rebuild s [] = s.
Proof.
  induction s using scope_ind'; cbn [rebuild].
  - now rewrite update_vals_nil.
  - now rewrite IHs.
  - now rewrite IHs.
  - f_equal. induction H as [|[y sub] l Hs Hl IH]; cbn; [reflexivity|]. cbn [snd] in Hs. now rewrite Hs, IH.
Qed.

Lemma cnv_nil : forall s, changes_non_volatile s [] = false.
Proof.
  induction s using scope_ind'; cbn [changes_non_volatile]; auto.
  - induction (map fst vals); cbn; auto.
  - induction H as [|[y sub] l Hs Hl IH]; cbn; [reflexivity|]. cbn [snd] in Hs. now rewrite Hs, IH.
Qed.

(* ---------------------------------------------------------------- totality on denoting scopes *)
Lemma pcollect_total g iv : forall m acc,
  (forall p e y, In (p, e) m -> In y (vars e) -> exists w, g y = Ok w) ->
  exists ve, pcollect g iv m acc = Ok ve.
Proof.
  induction m as [|[p e] m IH]; intros acc Hg; cbn [pcollect]; [eauto|].
  assert (forall p' e' y, In (p', e') m -> In y (vars e') -> exists w, g y = Ok w) as Hg'
    by (intros; eapply Hg; [right|]; eauto).
  destruct (existsb _ (vars e)).
  - rewrite pfold_ok.
    + apply IH. exact Hg'.
    + intros y Hy. apply filter_In in Hy as [Hy _]. eapply Hg; [left; reflexivity|exact Hy].
  - apply IH. exact Hg'.
Qed.

Lemma pvolx_total : forall s, wf_scope s = true -> forall d, denote_scope s = Ok d -> exists ve, pvolx s = Ok ve.
Proof.
  induction s using scope_ind'; intros Hwf d Hd.
  - cbn. eauto.
  - cbn [wf_scope] in Hwf. apply andb_prop in Hwf as [Hwo Hwm].
    destruct (denote_mapped_lookup _ _ _ Hwm Hd) as (d0 & Ed0 & _ & Xd).
    destruct (IHs Hwo d0 Ed0) as [iv Hiv]. cbn [pvolx]. rewrite Hiv.
    destruct iv as [|a r]; [eauto|]. apply pcollect_total.
    intros p e y Hin Hy. apply in_vars in Hy.
    assert (exists e', lookup m p = Some e' /\ In (p, e') m) as (e' & Hl & _).
    { clear -Hin. induction m as [|[p0 e0] m IH]; [destruct Hin|]. cbn [lookup].
      destruct (N.eqb p0 p) eqn:E.
      - apply N.eqb_eq in E; subst. exists e0. split; [reflexivity|left; reflexivity].
      - destruct Hin as [Hin|Hin]; [injection Hin as -> ->; rewrite N.eqb_refl in E; discriminate|].
        destruct (IH Hin) as (e' & A & B). exists e'. split; [exact A|right; exact B]. }
    (* with distinct keys the entry found is the entry itself *)
    assert (e' = e) as ->.
    { clear -Hwm Hin Hl. induction m as [|[p0 e0] m IH]; [destruct Hin|].
      apply nodup_keys_cons in Hwm as [Hp Hnd]. cbn [lookup] in Hl. destruct (N.eqb p0 p) eqn:E.
      - apply N.eqb_eq in E; subst p0. injection Hl as <-. destruct Hin as [Hin|Hin]; [now injection Hin|].
        apply (in_map fst) in Hin. cbn in Hin. apply mem_spec in Hin. rewrite <- lookup_mem, Hp in Hin. discriminate.
      - destruct Hin as [Hin|Hin]; [injection Hin as -> ->; rewrite N.eqb_refl in E; discriminate|]. auto. }
    destruct (Xd p e Hl) as [v Hv]. destruct (eval_some_vars _ _ _ Hv y Hy) as [w Hw].
    exists w. now rewrite (pget_denote s Hwo d0 Ed0), Hw.
  - cbn [denote_scope] in Hd. destruct (denote_scope s) as [d0|] eqn:Ed0; [|discriminate].
    destruct (IHs Hwf d0 eq_refl) as [iv Hiv]. cbn [pvolx]. rewrite Hiv. cbn. eauto.
  - cbn [wf_scope] in Hwf. apply andb_prop in Hwf as [_ Hwl].
    change (denote_scope (SJoint l)) with (denote_joint l) in Hd.
    change (pvolx (SJoint l)) with (pvolx_joint l []). generalize (@nil (ident * expr)).
    revert d Hd. induction H as [|[y sub] l Hs Hl IH]; intros d Hd acc; cbn [pvolx_joint]; [eauto|].
    cbn [forallb snd] in Hwl. apply andb_prop in Hwl as [Hws Hwl].
    cbn [denote_joint] in Hd. destruct (denote_scope sub) as [ds|] eqn:Eds; [|discriminate].
    destruct (lookup ds y); [|discriminate]. destruct (denote_joint l) as [r|] eqn:Er; [|discriminate].
    cbn [snd] in Hs. destruct (Hs Hws ds Eds) as [iv ->]. apply (IH Hwl r eq_refl).
Qed.

(* ---------------------------------------------------------------- the theorems *)
(* dependency expression of x, evaluated at the constants of the rebuilt scope = value of x in the rebuilt scope *)
Theorem volx_change s nc d' ve env x e q :
  wf_scope s = true -> changes_non_volatile s nc = false ->
  (exists d, denote_scope s = Ok d) -> denote_scope (rebuild s nc) = Ok d' -> pvolx s = Ok ve ->
  env_for env (rebuild s nc) ->
  lookup ve x = Some e -> lookup d' x = Some q -> eval env e = Some q.
Proof.
  intros Hwf Hnv [d Hd] Hd' Hv Henv Hx Hq.
  exact (volx_sound s Hwf nc d d' ve env Hnv Hd Hd' Hv Henv x e q Hx Hq).
Qed.

Theorem volx_current s d ve env x e q :
  wf_scope s = true -> denote_scope s = Ok d -> pvolx s = Ok ve -> env_for env s ->
  lookup ve x = Some e -> lookup d x = Some q -> eval env e = Some q.
Proof.
  intros Hwf Hd Hv Henv Hx Hq.
  apply (volx_change s [] d ve env x e q); auto; try (rewrite rebuild_nil; auto).
  - apply cnv_nil.
  - eauto.
Qed.

(* semantic dependence implies reported (syntactic) dependence *)
Theorem nonvolatile_invariant s nc d d' x :
  wf_scope s = true -> changes_non_volatile s nc = false ->
  denote_scope s = Ok d -> denote_scope (rebuild s nc) = Ok d' ->
  depends_on_volatile s x = false -> lookup d' x = lookup d x.
Proof.
  intros Hwf Hnv Hd Hd' Hdep.
  destruct (pvolx_total s Hwf d Hd) as [ve Hv].
  pose proof (pvolx_depends s Hwf ve Hv x) as Hk. rewrite Hdep in Hk.
  destruct (lookup ve x) eqn:Ex; [discriminate|].
  exact (unreported_invariant s Hwf nc d d' ve Hnv Hd Hd' Hv x Ex).
Qed.
