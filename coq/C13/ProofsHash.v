(* C13 — eq => equal hash for the modelled `__eq__` / `__hash__`, for every leaf hash that respects numerical equality
   and every frozenset combiner that does not depend on the order of the entries; CPython's combiner is one. *)
From Coq Require Import ZArith NArith QArith Bool List Lia Permutation.
Require Import QV.C13.Model QV.C13.Spec QV.C13.Proofs QV.C13.ProofsViews QV.C13.ProofsVolX QV.C13.ProofsEq QV.C13.Hash.
Import ListNotations.

Arguments mem : simpl never.

Section HashProofs.
  Variable hN : ident -> Z.
  Variable hQ : Q -> Z.
  Variable tup : list Z -> Z.
  Variable fset : list Z -> Z.
  Hypothesis hQ_eq : forall p q, Qeq_bool p q = true -> hQ p = hQ q.
  Hypothesis fset_perm : forall l l', Permutation l l' -> fset l = fset l'.

  Notation ehash := (expr_hash hN hQ tup).
  Notation shash := (scope_hash hN hQ tup fset).

  Lemma expr_eqb_hash : forall a b, expr_eqb a b = true -> ehash a = ehash b.
  Proof.
    induction a; intros [] H; cbn in *; try discriminate;
      try (apply andb_prop in H as [H1 H2]; rewrite ?(IHa1 _ H1), ?(IHa2 _ H2); reflexivity).
    - now rewrite (hQ_eq _ _ H).
    - apply N.eqb_eq in H. now subst.
    - apply andb_prop in H as [H1 H2]. now rewrite (IHa _ H1), (hQ_eq _ _ H2).
  Qed.

  (* two dictionaries with distinct keys, the same number of entries, related values with equal hashes: their item
     hashes are a permutation of each other *)
  Lemma items_perm {A} (e : A -> A -> bool) (hv : A -> Z) (a b : list (ident * A)) :
    nodup_keys a = true -> nodup_keys b = true -> length a = length b -> drel e a b ->
    (forall k v w, lookup a k = Some v -> lookup b k = Some w -> e v w = true -> hv v = hv w) ->
    Permutation (map (item_hash hN tup hv) a) (map (item_hash hN tup hv) b).
  Proof.
    intros Ha Hb Hlen Hr Hh.
    set (g := fun kv : ident * A => (fst kv, match lookup b (fst kv) with Some w => w | None => snd kv end)).
    assert (map (item_hash hN tup hv) a = map (item_hash hN tup hv) (map g a)) as E.
    { rewrite map_map. apply map_ext_in. intros [k v] Hin.
      pose proof (In_lookup a k v Ha Hin) as Hk. destruct (Hr k v Hk) as [w [Hw Hev]].
      unfold item_hash, g. cbn [fst snd]. rewrite Hw. now rewrite (Hh k v w Hk Hw Hev). }
    rewrite E. apply Permutation_map. apply NoDup_Permutation.
    - apply (NoDup_map_inv fst). rewrite map_map. cbn [g fst]. change (map (fun x : ident * A => fst x) a) with (map fst a).
      now apply nodup_keys_NoDup.
    - apply (NoDup_map_inv fst). now apply nodup_keys_NoDup.
    - intros [k w]. split.
      + intros Hin. apply in_map_iff in Hin as [[k0 v] [Eg Hin]].
        pose proof (In_lookup a k0 v Ha Hin) as Hk. destruct (Hr k0 v Hk) as [w0 [Hw0 _]].
        unfold g in Eg. cbn [fst snd] in Eg. rewrite Hw0 in Eg. injection Eg as <- <-. now apply lookup_In.
      + intros Hin. pose proof (In_lookup b k w Hb Hin) as Hk.
        assert (is_some (lookup a k) = true) as Hka.
        { apply (keys_back a b Ha Hlen); [|now rewrite Hk].
          intros k0 H0. destruct (lookup a k0) as [v0|] eqn:E0; [|discriminate].
          destruct (Hr k0 v0 E0) as [w0 [-> _]]. reflexivity. }
        destruct (lookup a k) as [v|] eqn:Ea; [|discriminate].
        apply in_map_iff. exists (k, v). split; [|now apply lookup_In].
        unfold g. cbn [fst snd]. now rewrite Hk.
  Qed.

  Lemma dict_eqb_hash {A} (e : A -> A -> bool) (hv : A -> Z) (a b : list (ident * A)) :
    nodup_keys a = true -> nodup_keys b = true -> dict_eqb e a b = true ->
    (forall k v w, lookup a k = Some v -> lookup b k = Some w -> e v w = true -> hv v = hv w) ->
    dict_hash hN tup fset hv a = dict_hash hN tup fset hv b.
  Proof.
    intros Ha Hb He Hh. apply dict_eqb_spec in He as [L R]; auto.
    unfold dict_hash. apply fset_perm. now apply (items_perm e).
  Qed.

  (* the volatile sets: equal as sets => the FrozenDicts {v: Expression(v)} have permuted items *)
  Lemma NoDup_nodupN l : NoDup (nodupN l).
  Proof.
    induction l as [|x l IH]; [constructor|]. cbn [nodupN]. destruct (mem x l) eqn:E; [exact IH|].
    constructor; [|exact IH]. intros Hin. apply mem_spec in Hin. rewrite mem_nodupN, E in Hin. discriminate.
  Qed.

  Lemma vol_dict_hash l1 l2 : set_eqb l1 l2 = true ->
    dict_hash hN tup fset ehash (vol_dict l1) = dict_hash hN tup fset ehash (vol_dict l2).
  Proof.
    intros H. unfold dict_hash, vol_dict. apply fset_perm. rewrite !map_map. apply Permutation_map.
    apply NoDup_Permutation; try apply NoDup_nodupN.
    intros x. rewrite <- !mem_spec, !mem_nodupN. rewrite (proj1 (set_eqb_spec l1 l2) H x). reflexivity.
  Qed.

  Definition joint_items := fix go (l : list (ident * scope)) : list Z :=
    match l with
    | [] => []
    | (k, sub) :: r => tup [hN k; shash sub] :: go r
    end.

  Lemma joint_items_map l : joint_items l = map (item_hash hN tup shash) l.
  Proof. induction l as [|[k sub] l IH]; [reflexivity|]. cbn [joint_items map]. now rewrite IH. Qed.

  Lemma scope_hash_joint l : shash (SJoint l) = dict_hash hN tup fset shash l.
  Proof. unfold dict_hash. rewrite <- joint_items_map. reflexivity. Qed.

  Theorem scope_eqb_hash : forall a, wf_scope a = true -> forall b, wf_scope b = true ->
    scope_eqb a b = true -> shash a = shash b.
  Proof.
    induction a using scope_ind'; intros Hwa [] Hwb He; cbn [scope_eqb] in He; try discriminate.
    - cbn [wf_scope] in *. apply andb_prop in He as [H1 H2]. cbn [scope_hash].
      rewrite (dict_eqb_hash Qeq_bool hQ vals vals0 Hwa Hwb H1), (vol_dict_hash vl vol H2); [reflexivity|].
      intros; now apply hQ_eq.
    - cbn [wf_scope] in *. apply andb_prop in Hwa as [Hwo Hwm]. apply andb_prop in Hwb as [Hwo' Hwm'].
      apply andb_prop in He as [H1 H2]. cbn [scope_hash].
      rewrite (IHa Hwo _ Hwo' H1), (dict_eqb_hash expr_eqb ehash m m0 Hwm Hwm' H2); [reflexivity|].
      intros; now apply expr_eqb_hash.
    - cbn [wf_scope] in *. apply andb_prop in He as [H12 H3]. apply andb_prop in H12 as [H1 H2].
      apply N.eqb_eq in H1. subst. cbn [scope_hash]. now rewrite (IHa Hwa _ Hwb H3), (hQ_eq _ _ H2).
    - assert (scope_eqb (SJoint l) (SJoint l0) = true) as He' by exact He. rewrite scope_eqb_joint in He'.
      cbn [wf_scope] in Hwa, Hwb. apply andb_prop in Hwa as [Hnd Hwl]. apply andb_prop in Hwb as [Hnd' Hwl'].
      rewrite !scope_hash_joint. apply (dict_eqb_hash scope_eqb shash l l0 Hnd Hnd' He').
      intros k v w Hv Hw E. rewrite Forall_forall in H. apply (H (k, v) (lookup_In _ _ _ Hv)); auto.
      + exact (wf_sub l k v Hwl Hv).
      + exact (wf_sub l0 k w Hwl' Hw).
  Qed.
End HashProofs.

(* ---------------------------------------------------------------- CPython's frozenset combiner is order independent *)
Lemma cpy_fold_perm : forall l l', Permutation l l' ->
  fold_right (fun h acc => Z.lxor (cpy_shuffle (w64 h)) acc) 0%Z l =
  fold_right (fun h acc => Z.lxor (cpy_shuffle (w64 h)) acc) 0%Z l'.
Proof.
  induction 1; cbn [fold_right]; try congruence.
  rewrite <- !Z.lxor_assoc. f_equal. apply Z.lxor_comm.
Qed.

Lemma cpy_fset_perm : forall l l', Permutation l l' -> cpy_fset l = cpy_fset l'.
Proof. intros l l' H. unfold cpy_fset. now rewrite (cpy_fold_perm l l' H), (Permutation_length H). Qed.

(* a number hash that respects == : the reduced fraction *)
Definition red_hash (q : Q) : Z := let r := Qred q in (Qnum r * 1000003 + Z.pos (Qden r))%Z.
Lemma red_hash_eq p q : Qeq_bool p q = true -> red_hash p = red_hash q.
Proof. intros H. apply Qeq_bool_iff in H. unfold red_hash. now rewrite (Qred_complete p q H). Qed.

(* ---------------------------------------------------------------- Scope.overwrite *)
Lemma eval_all_const d : forall kv, eval_all d (const_mapping kv) = Ok kv.
Proof. induction kv as [|[k v] kv IH]; [reflexivity|]. cbn. unfold const_mapping in IH. now rewrite IH. Qed.

Lemma lookup_const_mapping kv x : lookup (const_mapping kv) x = option_map EConst (lookup kv x).
Proof. induction kv as [|[k v] kv IH]; [reflexivity|]. cbn. destruct (N.eqb k x); auto. Qed.

Lemma nodup_keys_const_mapping kv : nodup_keys (const_mapping kv) = nodup_keys kv.
Proof.
  induction kv as [|[k v] kv IH]; [reflexivity|]. cbn. fold (const_mapping kv). rewrite IH, lookup_const_mapping.
  now destruct (lookup kv k).
Qed.

Lemma overwrite_spec s c kv d : denote_scope s = Ok d -> nodup_keys kv = true ->
  fst (overwrite s c kv) = overwritten s kv /\
  wf_scope (overwritten s kv) = wf_scope s /\
  (exists d', denote_scope (overwritten s kv) = Ok d' /\
     forall x, lookup d' x = match lookup kv x with Some v => Some v | None => lookup d x end) /\
  (forall x, depends_on_volatile (overwritten s kv) x =
             if is_some (lookup kv x) then false else depends_on_volatile s x).
Proof.
  intros Hd Hnd. change (overwritten s kv) with (SMapped s (const_mapping kv)).
  split; [reflexivity|]. split; [cbn [wf_scope]; rewrite nodup_keys_const_mapping, Hnd; apply andb_true_r|].
  split.
  - exists (override d kv). cbn [denote_scope]. rewrite Hd, eval_all_const. split; [reflexivity|].
    intros x. now apply lookup_override.
  - intros x. cbn [depends_on_volatile]. rewrite lookup_const_mapping. destruct (lookup kv x); reflexivity.
Qed.
