(* C13 — the query paths of Model.v on an explicit heap of scope OBJECTS (definitions only).

   In Model.v every position of the scope tree has its own memoisation fields.  Python objects can be shared: the
   entries of a JointScope are often one object (VolatileValue.operation merges operand scopes that stem from one
   instantiation), or one entry is MappedScope(S, ...) and another one S itself.  A shared object has ONE `_cache`,
   `_as_dict`, `_volatile_parameters_cache`: what a lookup through one entry memoises is found by the next lookup
   through the other entry, also in the middle of one call (JointScope.as_dict / get_volatile_parameters visit the
   entries one after the other).

   Here every position of the tree carries the identity of its object (`lab`, same shape as the scope; equal ids =
   the same object) and the memoisation fields live in a store  id -> node.  The access paths are those of Model.v
   line by line, reading and writing the store at the id of the object at hand. *)
From Coq Require Import ZArith NArith QArith Bool List.
Require Import QV.C13.Model QV.C13.Pure.
Import ListNotations.

Inductive lab := L (id : N) (kids : list lab).
Definition lid (l : lab) : N := match l with L i _ => i end.
Definition lkids (l : lab) : list lab := match l with L _ k => k end.
Definition ldummy : lab := L 0 [].
Definition lkid0 (l : lab) : lab := hd ldummy (lkids l).

Record node := mkNode { n_cache : list (ident * Q); n_asd : option (list (ident * Q));
                        n_vc : option (list (ident * expr)) }.
Definition nempty : node := mkNode [] None None.
Definition store := list (N * node).
Definition sget (st : store) (i : N) : node := match lookup st i with Some n => n | None => nempty end.
Definition sset (st : store) (i : N) (n : node) : store := dict_set st i n.

(* successive lookups through one getter, threading the store *)
Fixpoint sfold (g : store -> ident -> result Q * store) (xs : list ident) (st : store) (acc : list (ident * Q))
  : result (list (ident * Q)) * store :=
  match xs with
  | [] => (Ok acc, st)
  | y :: ys => let '(r, st') := g st y in
               match r with
               | Ok v => sfold g ys st' (acc ++ [(y, v)])
               | Err e => (Err e, st')
               end
  end.

Fixpoint hget (s : scope) (l : lab) (st : store) (x : ident) {struct s} : result Q * store :=
  match s with
  | SDict vals _ => (match lookup vals x with Some v => Ok v | None => Err EMissing end, st)
  | SMapped o m =>
      match lookup (n_cache (sget st (lid l))) x with
      | Some v => (Ok v, st)
      | None =>
          let '(r, st1) :=
            match lookup m x with
            | None => hget o (lkid0 l) st x
            | Some e =>
                let '(renv, st1) := sfold (hget o (lkid0 l)) (vars e) st [] in
                (match renv with Ok env => eval_env env e | Err er => Err er end, st1)
            end in
          (r, match r with
              | Ok v => let n := sget st1 (lid l) in       (* self._cache[name] = result: the dict of THIS object *)
                        sset st1 (lid l) (mkNode (n_cache n ++ [(x, v)]) (n_asd n) (n_vc n))
              | Err _ => st1
              end)
      end
  | SRange i n v => if N.eqb x n then (Ok v, st) else hget i (lkid0 l) st x
  | SJoint es =>
      (fix go (es : list (ident * scope)) (ls : list lab) : result Q * store :=
         match es with
         | [] => (Err EMissing, st)
         | (y, sub) :: es' => if N.eqb y x then hget sub (hd ldummy ls) st x else go es' (tl ls)
         end) es (lkids l)
  end.

Definition hrange_asd (n : ident) (v : Q) (i : N) (st : store) (inner : store -> result (list (ident * Q)) * store)
  : result (list (ident * Q)) * store :=
  match n_asd (sget st i) with
  | Some d => (Ok d, st)
  | None =>
      let '(r, st1) := inner st in
      match r with
      | Ok d => let d' := dict_set d n v in
                let nd := sget st1 i in
                (Ok d', sset st1 i (mkNode (n_cache nd) (Some d') (n_vc nd)))
      | Err e => (Err e, st1)
      end
  end.

Fixpoint hkeys (s : scope) (l : lab) (st : store) {struct s} : result (list ident) * store :=
  match s with
  | SDict vals _ => (Ok (map fst vals), st)
  | SMapped o m => let '(r, st1) := hkeys o (lkid0 l) st in (rmap (union (map fst m)) r, st1)
  | SRange i n v => let '(r, st1) := hrange_asd n v (lid l) st (has_dict i (lkid0 l)) in (rmap (map fst) r, st1)
  | SJoint es => (Ok (map fst es), st)
  end
with has_dict (s : scope) (l : lab) (st : store) {struct s} : result (list (ident * Q)) * store :=
  match s with
  | SDict vals _ => (Ok vals, st)
  | SMapped o m =>
      match n_asd (sget st (lid l)) with
      | Some d => (Ok d, st)
      | None =>
          let '(rk, st1) := hkeys o (lkid0 l) st in
          match rk with
          | Err e => (Err e, st1)
          | Ok ks =>
              let '(rd, st2) := sfold (hget (SMapped o m) l) (union (map fst m) ks) st1 [] in
              match rd with
              | Ok d => (Ok d, sset st2 (lid l) (mkNode d (Some d) (n_vc (sget st2 (lid l)))))
              | Err e => (Err e, st2)
              end
          end
      end
  | SRange i n v => hrange_asd n v (lid l) st (has_dict i (lkid0 l))
  | SJoint es =>
      match n_asd (sget st (lid l)) with
      | Some d => (Ok d, st)
      | None =>
          let '(rd, st2) := sfold (hget (SJoint es) l) (map fst es) st [] in
          match rd with
          | Ok d => let nd := sget st2 (lid l) in (Ok d, sset st2 (lid l) (mkNode (n_cache nd) (Some d) (n_vc nd)))
          | Err e => (Err e, st2)
          end
      end
  end.

Fixpoint hiter (s : scope) (l : lab) (st : store) {struct s} : result (list ident) * store :=
  match s with
  | SDict vals _ => (Ok (map fst vals), st)
  | SMapped _ _ => hkeys s l st
  | SRange i n _ =>
      let '(r, st1) := hiter i (lkid0 l) st in (rmap (fun ks => if contains i n then ks else ks ++ [n]) r, st1)
  | SJoint es => (Ok (map fst es), st)
  end.

Fixpoint hlen (s : scope) (l : lab) (st : store) {struct s} : result Z * store :=
  match s with
  | SDict vals _ => (Ok (Z.of_nat (length vals)), st)
  | SMapped _ _ => let '(r, st1) := hkeys s l st in (rmap (fun ks => Z.of_nat (length ks)) r, st1)
  | SRange i n _ =>
      let '(r, st1) := hlen i (lkid0 l) st in (rmap (fun k => (k + (if contains i n then 0 else 1))%Z) r, st1)
  | SJoint es => (Ok (Z.of_nat (length es)), st)
  end.

Definition hitems (s : scope) (l : lab) (st : store) : result (list (ident * Q)) * store :=
  match s with
  | SJoint es => sfold (hget s l) (map fst es) st []
  | _ => has_dict s l st
  end.

Fixpoint scollect (g : store -> ident -> result Q * store) (iv : list (ident * expr)) (m : list (ident * expr))
         (st : store) (acc : list (ident * expr)) : result (list (ident * expr)) * store :=
  match m with
  | [] => (Ok acc, st)
  | (p, e) :: m' =>
      if existsb (fun y => is_some (lookup iv y)) (vars e) then
        let '(r, st') := sfold g (filter (fun y => negb (is_some (lookup iv y))) (vars e)) st [] in
        match r with
        | Ok env => scollect g iv m' st' (dict_set acc p (subst (vol_subst iv env) e))
        | Err er => (Err er, st')
        end
      else scollect g iv m' st (remove_key p acc)
  end.

Fixpoint hvolx (s : scope) (l : lab) (st : store) {struct s} : result (list (ident * expr)) * store :=
  match s with
  | SDict _ vl => (Ok (map (fun v => (v, EVar v)) (nodupN vl)), st)
  | SMapped o m =>
      match n_vc (sget st (lid l)) with
      | Some ks => (Ok ks, st)
      | None =>
          let '(riv, st1) := hvolx o (lkid0 l) st in
          let setvc := fun (st' : store) ks =>
                         let nd := sget st' (lid l) in sset st' (lid l) (mkNode (n_cache nd) (n_asd nd) (Some ks)) in
          match riv with
          | Err e => (Err e, st1)
          | Ok [] => (Ok [], setvc st1 [])
          | Ok iv =>
              let '(r, st2) := scollect (hget o (lkid0 l)) iv m st1 iv in
              match r with
              | Ok ks => (Ok ks, setvc st2 ks)
              | Err e => (Err e, st2)
              end
          end
      end
  | SRange i n _ => let '(r, st1) := hvolx i (lkid0 l) st in (rmap (remove_key n) r, st1)
  | SJoint es =>
      match n_vc (sget st (lid l)) with
      | Some ks => (Ok ks, st)
      | None =>
          let '(r, st1) :=
            (fix go (es : list (ident * scope)) (ls : list lab) (st : store) (acc : list (ident * expr))
               : result (list (ident * expr)) * store :=
               match es with
               | [] => (Ok acc, st)
               | (x, sub) :: es' =>
                   let '(r, st') := hvolx sub (hd ldummy ls) st in
                   match r with
                   | Ok iv => go es' (tl ls) st' (match lookup iv x with Some e => dict_set acc x e | None => acc end)
                   | Err e => (Err e, st')
                   end
               end) es (lkids l) st [] in
          match r with
          | Ok vs => let nd := sget st1 (lid l) in (Ok vs, sset st1 (lid l) (mkNode (n_cache nd) (n_asd nd) (Some vs)))
          | Err e => (Err e, st1)
          end
      end
  end.

Definition hvol (s : scope) (l : lab) (st : store) : result (list ident) * store :=
  let '(r, st') := hvolx s l st in (rmap (map fst) r, st').

(* histories of queries on ONE object graph (change_constants / overwrite build new objects: the theorems start from any
   valid store, so they apply again to the new graph with whatever the retained objects have memoised) *)
Definition is_query (o : op) : bool :=
  match o with OChange _ | OOverwrite _ => false | _ => true end.

Definition hstep (s : scope) (l : lab) (st : store) (o : op) : obs * store :=
  match o with
  | OGet x => let '(r, st') := hget s l st x in (BVal r, st')
  | OContains x => (BBool (contains s x), st)
  | OIter => let '(r, st') := hiter s l st in (BKeys r, st')
  | OLen => let '(r, st') := hlen s l st in (BLen r, st')
  | OKeys => let '(r, st') := hkeys s l st in (BKeys r, st')
  | OItems => let '(r, st') := hitems s l st in (BItems r, st')
  | OAsDict => let '(r, st') := has_dict s l st in (BItems r, st')
  | OVol => let '(r, st') := hvol s l st in (BKeys r, st')
  | OEq other => (BEq (scope_eqb s other) (scope_eqb s other), st)
  | OVolX envs => let '(r, st') := hvolx s l st in (BVolX (rmap (eval_at envs) r), st')
  | OChange _ | OOverwrite _ => (BOver, st)
  end.

Fixpoint hrun (s : scope) (l : lab) (st : store) (ops : list op) : list obs :=
  match ops with
  | [] => []
  | o :: r => let '(b, st') := hstep s l st o in b :: hrun s l st' r
  end.

(* the registry: which object (structure) an id stands for; a labelling is consistent with it when every position is
   registered with the structure found there (hence equal ids carry equal structures) *)
Fixpoint reg_ok (G : list (N * scope)) (s : scope) (l : lab) {struct s} : Prop :=
  lookup G (lid l) = Some s /\
  match s with
  | SDict _ _ => True
  | SMapped o _ => reg_ok G o (lkid0 l)
  | SRange i _ _ => reg_ok G i (lkid0 l)
  | SJoint es =>
      (fix all (es : list (ident * scope)) (ls : list lab) : Prop :=
         match es with
         | [] => True
         | (_, sub) :: es' => reg_ok G sub (hd ldummy ls) /\ all es' (tl ls)
         end) es (lkids l)
  end.
