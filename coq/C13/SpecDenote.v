(* C13 — round 6: "the mapping a scope denotes" as a pointwise RELATION (the wording of the property statement).

   `Spec.denote_scope` computes a dictionary with `eval_all` / `override` / `dict_set`; that the computed dictionary IS
   "the mapping obtained by evaluating the mapping expressions simultaneously in the outer scope and letting the
   innermost definition of a name win" was the definition's word only.  `is_mapping_of s f` says it name by name and
   mentions none of those functions (shared with Model.v: the data types, `lookup`, `eval`):
     plain    : f is the dictionary;
     mapped   : there is a mapping g of the OUTER scope; every mapping expression has a value in g; a name the mapping
                defines has the value of its expression IN g (all of them in the same g: simultaneously), any other name
                has its outer value (the innermost definition wins);
     loop     : the index name has the index value, any other name its inner value (the index shadows);
     joint    : a name has the value it has in the sub scope it is taken from, which must provide it.
   ProofsR6: `denote_scope s = Ok d` iff `lookup d` is (pointwise) the one mapping with this property. *)
From Coq Require Import ZArith NArith QArith Bool List.
Require Import QV.C13.Model.
Import ListNotations.

Definition pmap := ident -> option Q.

Fixpoint is_mapping_of (s : scope) (f : pmap) {struct s} : Prop :=
  match s with
  | SDict vals _ => forall x, f x = lookup vals x
  | SMapped o m =>
      exists g : pmap, is_mapping_of o g /\
        (forall x e, lookup m x = Some e -> exists q, eval g e = Some q) /\
        (forall x, f x = match lookup m x with Some e => eval g e | None => g x end)
  | SRange i n v =>
      exists g : pmap, is_mapping_of i g /\ forall x, f x = if N.eqb x n then Some v else g x
  | SJoint l =>
      (fix go (l : list (ident * scope)) (f : pmap) {struct l} : Prop :=
         match l with
         | [] => forall x, f x = None
         | (y, sub) :: r =>
             exists (g : pmap) (q : Q) (f' : pmap),
               is_mapping_of sub g /\ g y = Some q /\ go r f' /\
               forall x, f x = if N.eqb y x then Some q else f' x
         end) l f
  end.
