(* C13 — every access path (cache-free form) agrees with the denoted mapping. *)
From Coq Require Import ZArith NArith QArith Bool List Lia.
Require Import QV.C13.Model QV.C13.Pure QV.C13.Spec QV.C13.Proofs.
Import ListNotations.

Arguments mem : simpl never.
Arguments union : simpl never.

Definition of_opt (o : option Q) : result Q := match o with Some v => Ok v | None => Err EMissing end.

Lemma map_fst_dict_set {A} (d : list (ident * A)) n v :
  map fst (dict_set d n v) = if mem n (map fst d) then map fst d else map fst d ++ [n].
Proof.
  induction d as [|[y a] d IH]; [reflexivity|].
  cbn [dict_set map fst]. rewrite mem_cons, (N.eqb_sym n y).
  destruct (N.eqb y n) eqn:E; cbn [map fst orb].
  - reflexivity.
  - rewrite IH. destruct (mem n (map fst d)); reflexivity.
Qed.

Lemma nodup_keys_fst {A B} (a : list (ident * A)) (b : list (ident * B)) :
  map fst a = map fst b -> nodup_keys a = nodup_keys b.
Proof.
  revert b. induction a as [|[x u] a IH]; intros [|[y w] b] H; try discriminate; auto.
  cbn in H. injection H as -> H. cbn. rewrite (IH _ H).
  f_equal. f_equal. rewrite !lookup_mem. now rewrite H.
Qed.

Lemma lookup_override d : forall mv x, nodup_keys mv = true ->
  lookup (override d mv) x = match lookup mv x with Some v => Some v | None => lookup d x end.
Proof.
  intros mv. revert d. induction mv as [|[p v] mv IH]; intros d x Hnd; [reflexivity|].
  apply nodup_keys_cons in Hnd as [Hp Hnd].
  unfold override in *. cbn [fold_left fst snd]. rewrite (IH _ _ Hnd). cbn [lookup].
  rewrite lookup_dict_set. destruct (N.eqb p x) eqn:E.
  - apply N.eqb_eq in E; subst. now rewrite Hp.
  - reflexivity.
Qed.

Lemma eval_all_spec d : forall m mv, eval_all d m = Ok mv ->
  map fst mv = map fst m /\
  forall x, lookup mv x = match lookup m x with Some e => eval (lookup d) e | None => None end /\
            (forall e, lookup m x = Some e -> exists v, eval (lookup d) e = Some v).
Proof.
  induction m as [|[p e] m IH]; intros mv H.
  - cbn in H. injection H as <-. split; [reflexivity|]. intros x. split; [reflexivity|discriminate].
  - cbn in H. destruct (eval (lookup d) e) as [v|] eqn:Ee; [|discriminate].
    destruct (eval_all d m) as [r|] eqn:Er; [|discriminate]. injection H as <-.
    destruct (IH r eq_refl) as [K1 K2]. split; [cbn; now rewrite K1|].
    intros x. cbn. destruct (N.eqb p x).
    + split; [now rewrite Ee|]. intros e' He'. injection He' as <-. eauto.
    + apply K2.
Qed.

Definition val_of (g : ident -> result Q) (y : ident) : Q := match g y with Ok v => v | Err _ => 0 end.
Definition vals_of (g : ident -> result Q) (xs : list ident) : list (ident * Q) := map (fun y => (y, val_of g y)) xs.

Lemma pfold_ok g : forall xs acc, (forall y, In y xs -> exists v, g y = Ok v) ->
  pfold g xs acc = Ok (acc ++ vals_of g xs).
Proof.
  induction xs as [|y xs IH]; intros acc H; cbn.
  - now rewrite app_nil_r.
  - destruct (H y (or_introl eq_refl)) as [v Hv]. unfold val_of at 1. rewrite Hv.
    rewrite IH by (intros z Hz; apply H; cbn; auto). now rewrite <- app_assoc.
Qed.

Lemma map_fst_vals_of g xs : map fst (vals_of g xs) = xs.
Proof. unfold vals_of. rewrite map_map. cbn. apply map_id. Qed.

Lemma lookup_vals_of g xs y :
  lookup (vals_of g xs) y = if mem y xs then Some (val_of g y) else None.
Proof.
  induction xs as [|z xs IH]; [reflexivity|].
  cbn [vals_of map lookup]. rewrite mem_cons, (N.eqb_sym y z). destruct (N.eqb z y) eqn:E; cbn [orb].
  - apply N.eqb_eq in E. now subst.
  - exact IH.
Qed.

Lemma eval_agree env1 env2 e :
  (forall y, In y (free_vars e) -> env1 y = env2 y) -> eval env1 e = eval env2 e.
Proof.
  induction e; cbn; intros H; auto;
    try (rewrite IHe1, IHe2 by (intros; apply H; apply in_or_app; auto); reflexivity).
  rewrite IHe by auto. reflexivity.
Qed.

Lemma eval_some_vars env e v :
  eval env e = Some v -> forall y, In y (free_vars e) -> exists w, env y = Some w.
Proof.
  revert v. induction e; cbn; intros v0 H y Hy.
  - destruct Hy.
  - destruct Hy as [<-|[]]. eauto.
  - destruct (eval env e1) eqn:E1; [|discriminate]. destruct (eval env e2) eqn:E2; [|discriminate].
    apply in_app_or in Hy as [Hy|Hy]; eauto.
  - destruct (eval env e1) eqn:E1; [|discriminate]. destruct (eval env e2) eqn:E2; [|discriminate].
    apply in_app_or in Hy as [Hy|Hy]; eauto.
  - destruct (eval env e1) eqn:E1; [|discriminate]. destruct (eval env e2) eqn:E2; [|discriminate].
    apply in_app_or in Hy as [Hy|Hy]; eauto.
  - destruct (Qeq_bool q 0); [discriminate|]. destruct (eval env e) eqn:E1; [|discriminate]. eauto.
  - destruct (eval env e1) eqn:E1; [|discriminate]. destruct (eval env e2) eqn:E2; [|discriminate].
    apply in_app_or in Hy as [Hy|Hy]; eauto.
  - destruct (eval env e1) eqn:E1; [|discriminate]. destruct (eval env e2) eqn:E2; [|discriminate].
    apply in_app_or in Hy as [Hy|Hy]; eauto.
  - destruct (eval env e1) eqn:E1; [|discriminate]. destruct (eval env e2) eqn:E2; [|discriminate].
    apply in_app_or in Hy as [Hy|Hy]; eauto.
Qed.

Lemma in_vars e y : In y (vars e) <-> In y (free_vars e).
Proof. unfold vars. rewrite <- !mem_spec, mem_nodupN. reflexivity. Qed.

Definition denote_joint :=
  fix go (l : list (ident * scope)) : result (list (ident * Q)) :=
    match l with
    | [] => Ok []
    | (x, sub) :: l' =>
        match denote_scope sub with
        | Err e => Err e
        | Ok d => match lookup d x with
                  | None => Err EMissing
                  | Some v => match go l' with Ok r => Ok ((x, v) :: r) | Err e => Err e end
                  end
        end
    end.

Lemma pget_joint l x :
  pget (SJoint l) x = match lookup l x with Some sub => pget sub x | None => Err EMissing end.
Proof.
  induction l as [|[y sub] l IH]; [reflexivity|].
  cbn [lookup]. destruct (N.eqb y x) eqn:E.
  - cbn. now rewrite E.
  - rewrite <- IH. cbn. now rewrite E.
Qed.

(* evaluating a mapping expression top-down equals evaluating it in the outer dictionary *)
Lemma pget_mapped_expr o d0 e v :
  (forall y, pget o y = of_opt (lookup d0 y)) -> eval (lookup d0) e = Some v ->
  match pfold (pget o) (vars e) [] with Ok env => eval_env env e | Err er => Err er end = Ok v.
Proof.
  intros Ho He.
  assert (forall y, In y (vars e) -> exists w, pget o y = Ok w) as Hall.
  { intros y Hy. apply in_vars in Hy. destruct (eval_some_vars _ _ _ He y Hy) as [w Hw].
    exists w. now rewrite Ho, Hw. }
  rewrite (pfold_ok _ _ [] Hall). cbn [app]. unfold eval_env.
  rewrite (eval_agree (lookup (vals_of (pget o) (vars e))) (lookup d0) e), He; [reflexivity|].
  intros y Hy. rewrite lookup_vals_of.
  assert (mem y (vars e) = true) as -> by (apply mem_spec, in_vars, Hy).
  destruct (eval_some_vars _ _ _ He y Hy) as [w Hw]. unfold val_of. now rewrite Ho, Hw.
Qed.

Lemma pget_denote : forall s, wf_scope s = true -> forall d, denote_scope s = Ok d ->
  forall x, pget s x = of_opt (lookup d x).
Proof.
  induction s using scope_ind'; intros Hwf d Hd x.
  - cbn in Hd. injection Hd as <-. reflexivity.
  - cbn [wf_scope] in Hwf. apply andb_prop in Hwf as [Hwo Hwm].
    cbn [denote_scope] in Hd. destruct (denote_scope s) as [d0|] eqn:Ed0; [|discriminate].
    destruct (eval_all d0 m) as [mv|] eqn:Emv; [|discriminate]. injection Hd as <-.
    destruct (eval_all_spec _ _ _ Emv) as [K1 K2]. destruct (K2 x) as [K3 K4].
    rewrite lookup_override by (rewrite (nodup_keys_fst mv m K1); exact Hwm).
    rewrite K3. cbn [pget]. specialize (IHs Hwo d0 eq_refl).
    destruct (lookup m x) as [e|].
    + destruct (K4 e eq_refl) as [v Hv]. rewrite Hv. cbn [of_opt].
      apply (pget_mapped_expr s d0 e v IHs Hv).
    + apply IHs.
  - cbn in Hd. destruct (denote_scope s) as [d0|] eqn:Ed0; [|discriminate]. cbn in Hd. injection Hd as <-.
    cbn [pget]. rewrite lookup_dict_set, (N.eqb_sym n x). destruct (N.eqb x n); [reflexivity|].
    apply IHs; auto.
  - cbn [wf_scope] in Hwf. apply andb_prop in Hwf as [Hnd Hwl].
    change (denote_scope (SJoint l)) with (denote_joint l) in Hd.
    rewrite pget_joint. revert d Hd. clear Hnd.
    induction H as [|[y sub] l Hs Hl IH]; intros d Hd.
    + cbn in Hd. injection Hd as <-. reflexivity.
    + cbn [forallb snd] in Hwl. apply andb_prop in Hwl as [Hws Hwl].
      cbn [denote_joint] in Hd. destruct (denote_scope sub) as [ds|] eqn:Eds; [|discriminate].
      destruct (lookup ds y) as [v|] eqn:Ey; [|discriminate].
      destruct (denote_joint l) as [r|] eqn:Er; [|discriminate]. injection Hd as <-.
      cbn [lookup]. destruct (N.eqb y x) eqn:Eyx.
      * apply N.eqb_eq in Eyx; subst y. cbn [snd] in Hs. now rewrite (Hs Hws ds Eds x), Ey.
      * apply IH; auto.
Qed.

Lemma denote_joint_keys : forall l d, denote_joint l = Ok d -> map fst d = map fst l.
Proof.
  induction l as [|[y sub] l IH]; intros d Hd.
  - cbn in Hd. injection Hd as <-. reflexivity.
  - cbn [denote_joint] in Hd. destruct (denote_scope sub); [|discriminate]. destruct (lookup a y); [|discriminate].
    destruct (denote_joint l) eqn:E; [|discriminate]. injection Hd as <-. cbn. now rewrite (IH _ eq_refl).
Qed.

Lemma denote_domain : forall s, wf_scope s = true -> forall d, denote_scope s = Ok d ->
  forall x, is_some (lookup d x) = mem x (domain s).
Proof.
  induction s using scope_ind'; intros Hwf d Hd x.
  - cbn in Hd. injection Hd as <-. apply lookup_mem.
  - cbn [wf_scope] in Hwf. apply andb_prop in Hwf as [Hwo Hwm].
    cbn [denote_scope] in Hd. destruct (denote_scope s) as [d0|] eqn:Ed0; [|discriminate].
    destruct (eval_all d0 m) as [mv|] eqn:Emv; [|discriminate]. injection Hd as <-.
    destruct (eval_all_spec _ _ _ Emv) as [K1 _].
    rewrite lookup_override by (rewrite (nodup_keys_fst mv m K1); exact Hwm).
    cbn [domain]. rewrite mem_union, <- K1, <- lookup_mem, <- (IHs Hwo d0 eq_refl x).
    destruct (lookup mv x); reflexivity.
  - cbn in Hd. destruct (denote_scope s) as [d0|] eqn:Ed0; [|discriminate]. cbn in Hd. injection Hd as <-.
    rewrite lookup_dict_set. cbn [domain]. specialize (IHs Hwf d0 eq_refl).
    destruct (mem n (domain s)) eqn:En.
    + destruct (N.eqb n x) eqn:E; [|apply IHs]. apply N.eqb_eq in E; subst. now rewrite En.
    + rewrite mem_app, mem_cons, (N.eqb_sym x n). destruct (N.eqb n x); cbn.
      * now rewrite orb_true_r.
      * rewrite IHs. now rewrite !orb_false_r.
  - change (denote_scope (SJoint l)) with (denote_joint l) in Hd.
    cbn [domain]. rewrite <- (denote_joint_keys _ _ Hd). apply lookup_mem.
Qed.

(* a dictionary obtained by asking for every name of the domain *)
Lemma pfold_domain s d names :
  (forall x, pget s x = of_opt (lookup d x)) -> (forall x, is_some (lookup d x) = mem x names) ->
  pfold (pget s) names [] = Ok (vals_of (pget s) names) /\
  forall x, lookup (vals_of (pget s) names) x = lookup d x.
Proof.
  intros Hg Hdom. split.
  - rewrite (pfold_ok _ names []); [reflexivity|].
    intros y Hy. apply mem_spec in Hy. rewrite <- Hdom in Hy. rewrite Hg.
    destruct (lookup d y); [cbn; eauto|discriminate].
  - intros x. rewrite lookup_vals_of. specialize (Hdom x). unfold val_of. rewrite Hg.
    destruct (mem x names); destruct (lookup d x); cbn in *; try discriminate; reflexivity.
Qed.

Lemma denote_sub_mapped o m d : denote_scope (SMapped o m) = Ok d -> exists d0, denote_scope o = Ok d0.
Proof. cbn. destruct (denote_scope o); [eauto|discriminate]. Qed.
Lemma denote_sub_range i n v d : denote_scope (SRange i n v) = Ok d -> exists d0, denote_scope i = Ok d0.
Proof. cbn. destruct (denote_scope i); [eauto|discriminate]. Qed.

Lemma pkeys_pasd_denote : forall s, wf_scope s = true -> forall d, denote_scope s = Ok d ->
  pkeys s = Ok (domain s) /\
  exists d', pasd s = Ok d' /\ map fst d' = domain s /\ forall x, lookup d' x = lookup d x.
Proof.
  induction s using scope_ind'; intros Hwf d Hd.
  - cbn in Hd. injection Hd as <-. split; [reflexivity|]. exists vals. auto.
  - pose proof (pget_denote _ Hwf _ Hd) as Hg. pose proof (denote_domain _ Hwf _ Hd) as Hdom.
    destruct (denote_sub_mapped _ _ _ Hd) as [d0 Hd0].
    cbn [wf_scope] in Hwf. apply andb_prop in Hwf as [Hwo Hwm].
    destruct (IHs Hwo d0 Hd0) as [Hk _]. cbn [pkeys pasd]. rewrite Hk. cbn [rmap]. split; [reflexivity|].
    destruct (pfold_domain (SMapped s m) d (union (map fst m) (domain s)) Hg Hdom) as [E1 E2].
    eexists. split; [exact E1|]. split; [apply map_fst_vals_of|exact E2].
  - destruct (denote_sub_range _ _ _ _ Hd) as [d0 Hd0]. cbn [wf_scope] in Hwf.
    destruct (IHs Hwf d0 Hd0) as [_ [d0' [Ha [Hf Hl]]]].
    cbn in Hd. rewrite Hd0 in Hd. cbn in Hd. injection Hd as <-.
    cbn [pkeys pasd]. rewrite Ha. cbn [rmap].
    assert (map fst (dict_set d0' n v) = domain (SRange s n v)) as Hdom.
    { rewrite map_fst_dict_set, Hf. reflexivity. }
    split; [now rewrite Hdom|]. eexists. split; [reflexivity|]. split; [exact Hdom|].
    intros x. rewrite !lookup_dict_set, Hl. reflexivity.
  - pose proof (pget_denote _ Hwf _ Hd) as Hg. pose proof (denote_domain _ Hwf _ Hd) as Hdom.
    split; [reflexivity|]. cbn [pasd].
    destruct (pfold_domain (SJoint l) d (map fst l) Hg Hdom) as [E1 E2].
    eexists. split; [exact E1|]. split; [apply map_fst_vals_of|exact E2].
Qed.

Lemma piter_plen_denote : forall s, wf_scope s = true -> forall d, denote_scope s = Ok d ->
  piter s = Ok (domain s) /\ plen s = Ok (Z.of_nat (length (domain s))).
Proof.
  induction s using scope_ind'; intros Hwf d Hd.
  - cbn. now rewrite map_length.
  - destruct (pkeys_pasd_denote _ Hwf _ Hd) as [Hk _]. cbn [piter plen]. rewrite Hk. split; reflexivity.
  - destruct (denote_sub_range _ _ _ _ Hd) as [d0 Hd0]. cbn [wf_scope] in Hwf.
    destruct (IHs Hwf d0 Hd0) as [Hi Hl]. cbn [piter plen domain]. rewrite Hi, Hl, contains_domain. cbn [rmap].
    destruct (mem n (domain s)); split; try reflexivity; f_equal; rewrite ?app_length; cbn; lia.
  - cbn. now rewrite map_length.
Qed.

Lemma pitems_pasd s : pitems s = pasd s.
Proof. destruct s; reflexivity. Qed.

(* ---------------------------------------------------------------- the domain has no duplicates *)
Lemma nodup_keys_NoDup {A} (l : list (ident * A)) : nodup_keys l = true -> NoDup (map fst l).
Proof.
  induction l as [|[x a] l IH]; intros H; [constructor|].
  apply nodup_keys_cons in H as [Hx Hl]. cbn. constructor; auto.
  intros Hin. apply mem_spec in Hin. rewrite <- lookup_mem, Hx in Hin. discriminate.
Qed.

Lemma NoDup_app_disjoint (a b : list ident) :
  NoDup a -> NoDup b -> (forall y, In y b -> ~ In y a) -> NoDup (a ++ b).
Proof.
  induction a as [|x a IH]; intros Ha Hb Hd; [exact Hb|].
  inversion Ha; subst. cbn. constructor.
  - intros Hin. apply in_app_or in Hin as [Hin|Hin]; [auto|]. apply (Hd x Hin). now left.
  - apply IH; auto. intros y Hy Hya. apply (Hd y Hy). now right.
Qed.

Lemma NoDup_union a b : NoDup a -> NoDup b -> NoDup (union a b).
Proof.
  intros Ha Hb. unfold union. apply NoDup_app_disjoint; auto.
  - now apply NoDup_filter.
  - intros y Hy Hya. apply filter_In in Hy as [_ Hy]. apply mem_spec in Hya. rewrite Hya in Hy. discriminate.
Qed.

Lemma domain_NoDup : forall s, wf_scope s = true -> NoDup (domain s).
Proof.
  induction s using scope_ind'; intros Hwf; cbn [domain].
  - now apply nodup_keys_NoDup.
  - cbn [wf_scope] in Hwf. apply andb_prop in Hwf as [Hwo Hwm].
    apply NoDup_union; auto. now apply nodup_keys_NoDup.
  - cbn [wf_scope] in Hwf. destruct (mem n (domain s)) eqn:E; auto.
    apply NoDup_app_disjoint; auto.
    + constructor; [intros []|constructor].
    + intros y [<-|[]] Hin. apply mem_spec in Hin. rewrite Hin in E. discriminate.
  - cbn [wf_scope] in Hwf. apply andb_prop in Hwf as [Hnd _]. now apply nodup_keys_NoDup.
Qed.
