(* C13 — `__eq__` of the code with the NUMBER KIND of expression constants (definitions only).

   Model.v compares every constant by value.  The code does so for the constants of a DictScope and for the index
   value of a RangeScope (FrozenDict / Python `==` on numbers: 1 == 1.0 == TimeType(1) == numpy.int64(1)), but a
   MappedScope compares its mapping with `Expression.__eq__`, which is sympy's STRUCTURAL equality of the held trees:
   a constant is a sympy Integer / Rational (built from an int, a TimeType, a numpy integer, the text "1/2") or a sympy
   Float (from a float, a numpy.float64, the text "0.5"), and Integer(1) != Float(1.0).  Here expression constants carry
   that kind; `erase` forgets it.  The four `__eq__` methods are followed as in Model.scope_eqb; scopes of different
   classes are unequal (DictScope / MappedScope / RangeScope return NotImplemented for a foreign class, Python then
   answers False; JointScope does the same since the round-4 repair). *)
From Coq Require Import ZArith NArith QArith Bool List.
Require Import QV.C13.Model QV.C13.Spec.
Import ListNotations.

Inductive texpr :=
| TConst (fl : bool) (q : Q)              (* fl = true: a sympy Float *)
| TVar (x : ident)
| TAdd (a b : texpr)
| TSub (a b : texpr)
| TMul (a b : texpr)
| TDivC (a : texpr) (fl : bool) (q : Q)
| TMin (a b : texpr)
| TMax (a b : texpr)
| TDiv (a b : texpr).

Fixpoint erase_e (e : texpr) : expr :=
  match e with
  | TConst _ q => EConst q
  | TVar x => EVar x
  | TAdd a b => EAdd (erase_e a) (erase_e b)
  | TSub a b => ESub (erase_e a) (erase_e b)
  | TMul a b => EMul (erase_e a) (erase_e b)
  | TDivC a _ q => EDivC (erase_e a) q
  | TMin a b => EMin (erase_e a) (erase_e b)
  | TMax a b => EMax (erase_e a) (erase_e b)
  | TDiv a b => EDiv (erase_e a) (erase_e b)
  end.

(* Expression.__eq__: structural, a constant is equal to a constant of the same kind and value *)
Fixpoint texpr_eqb (a b : texpr) : bool :=
  match a, b with
  | TConst f p, TConst g q => Bool.eqb f g && Qeq_bool p q
  | TVar x, TVar y => N.eqb x y
  | TAdd a1 a2, TAdd b1 b2 | TSub a1 a2, TSub b1 b2 | TMul a1 a2, TMul b1 b2
  | TMin a1 a2, TMin b1 b2 | TMax a1 a2, TMax b1 b2 | TDiv a1 a2, TDiv b1 b2 => texpr_eqb a1 b1 && texpr_eqb a2 b2
  | TDivC a1 f p, TDivC b1 g q => texpr_eqb a1 b1 && Bool.eqb f g && Qeq_bool p q
  | _, _ => false
  end.

Inductive tscope :=
| TSDict (vals : list (ident * Q)) (vol : list ident)
| TSMapped (o : tscope) (m : list (ident * texpr))
| TSRange (i : tscope) (n : ident) (v : Q)
| TSJoint (l : list (ident * tscope)).

Definition erase_m (m : list (ident * texpr)) : list (ident * expr) := map (fun p => (fst p, erase_e (snd p))) m.

Fixpoint erase_s (s : tscope) : scope :=
  match s with
  | TSDict vals vl => SDict vals vl
  | TSMapped o m => SMapped (erase_s o) (erase_m m)
  | TSRange i n v => SRange (erase_s i) n v
  | TSJoint l => SJoint (map (fun p => (fst p, erase_s (snd p))) l)
  end.

Fixpoint tscope_eqb (a b : tscope) {struct a} : bool :=
  match a, b with
  | TSDict v1 l1, TSDict v2 l2 => dict_eqb Qeq_bool v1 v2 && set_eqb l1 l2
  | TSMapped o1 m1, TSMapped o2 m2 => tscope_eqb o1 o2 && dict_eqb texpr_eqb m1 m2
  | TSRange i1 n1 v1, TSRange i2 n2 v2 => N.eqb n1 n2 && Qeq_bool v1 v2 && tscope_eqb i1 i2
  | TSJoint l1, TSJoint l2 =>
      Nat.eqb (length l1) (length l2)
      && (fix all (l : list (ident * tscope)) : bool :=
            match l with
            | [] => true
            | (k, s1) :: r => match lookup l2 k with Some s2 => tscope_eqb s1 s2 | None => false end && all r
            end) l1
  | _, _ => false
  end.

Fixpoint twf (s : tscope) : bool :=
  match s with
  | TSDict vals _ => nodup_keys vals
  | TSMapped o m => twf o && nodup_keys m
  | TSRange i _ _ => twf i
  | TSJoint l => nodup_keys l && forallb (fun p => twf (snd p)) l
  end.

(* the scope built from the changed constants: the mapping EXPRESSION OBJECTS are the old ones *)
Fixpoint trebuild (s : tscope) (nc : list (ident * Q)) : tscope :=
  match s with
  | TSDict vals vl => TSDict (update_vals vals nc) vl
  | TSMapped o m => TSMapped (trebuild o nc) m
  | TSRange i n v => TSRange (trebuild i nc) n v
  | TSJoint l => TSJoint (map (fun p => (fst p, trebuild (snd p) nc)) l)
  end.

(* change_constants without the memoisation fields: the new structure and whether `self` was returned *)
Fixpoint tcc (s : tscope) (nc : list (ident * Q)) {struct s} : tscope * bool :=
  match s with
  | TSDict vals vl =>
      match filter (fun k => is_some (lookup nc k)) (map fst vals) with
      | [] => (s, true)
      | _ => (TSDict (update_vals vals nc) vl, false)
      end
  | TSMapped o m => let r := tcc o nc in if snd r then (s, true) else (TSMapped (fst r) m, false)
  | TSRange i n v => (TSRange (fst (tcc i nc)) n v, false)
  | TSJoint l => (TSJoint (map (fun p => (fst p, fst (tcc (snd p) nc))) l), false)
  end.

(* Scope.overwrite: Expression(value) is a Float exactly when the value is a Python / numpy float *)
Definition toverwrite (s : tscope) (kv : list (ident * (bool * Q))) : tscope :=
  TSMapped s (map (fun p => (fst p, TConst (fst (snd p)) (snd (snd p)))) kv).

(* ---------------------------------------------------------------- __hash__ with number kinds (cf. Hash.v) *)
Require Import QV.C13.Hash.

Section THash.
  Variable hN : ident -> Z.
  Variable hQ : Q -> Z.               (* hash of a Python number: a function of the value *)
  Variable hK : bool -> Q -> Z.       (* hash of a sympy number: a function of kind and value *)
  Variable tup : list Z -> Z.
  Variable fset : list Z -> Z.

  Fixpoint texpr_hash (e : texpr) : Z :=
    match e with
    | TConst f q => tup [0%Z; hK f q]
    | TVar x => tup [1%Z; hN x]
    | TAdd a b => tup [2%Z; texpr_hash a; texpr_hash b]
    | TSub a b => tup [3%Z; texpr_hash a; texpr_hash b]
    | TMul a b => tup [4%Z; texpr_hash a; texpr_hash b]
    | TDivC a f q => tup [5%Z; texpr_hash a; hK f q]
    | TMin a b => tup [6%Z; texpr_hash a; texpr_hash b]
    | TMax a b => tup [7%Z; texpr_hash a; texpr_hash b]
    | TDiv a b => tup [8%Z; texpr_hash a; texpr_hash b]
    end.

  Definition tvol_dict (vl : list ident) : list (ident * texpr) := map (fun v => (v, TVar v)) (nodupN vl).

  Fixpoint tscope_hash (s : tscope) : Z :=
    match s with
    | TSDict vals vl => tup [dict_hash hN tup fset hQ vals; dict_hash hN tup fset texpr_hash (tvol_dict vl)]
    | TSMapped o m => tup [tscope_hash o; dict_hash hN tup fset texpr_hash m]
    | TSRange i n v => tup [tscope_hash i; hN n; hQ v]
    | TSJoint l => fset ((fix go (l : list (ident * tscope)) : list Z :=
                            match l with
                            | [] => []
                            | (k, sub) :: r => tup [hN k; tscope_hash sub] :: go r
                            end) l)
    end.
End THash.
