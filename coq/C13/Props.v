(* C13 — property theorems (statements only; proofs live in Proofs*.v).
   `run (s, cempty) ops` is the model with the memoisation fields as state, started on fresh objects;
   `exec` is the object graph after a history; `prun` / `pget` ... are the same access paths without memoisation. *)
From Coq Require Import ZArith NArith QArith Bool List.
Require Import QV.C13.Model QV.C13.Pure QV.C13.Spec QV.C13.Proofs QV.C13.ProofsViews QV.C13.ProofsCache
               QV.C13.ProofsFinal.
Import ListNotations.

(* VIEWS: in every state reachable by any history (lookups, views, volatile queries, constant changes, any cache
   population), every access path agrees with the mapping the current scope denotes *)
Theorem C13_views : forall s0 ops s c d,
  exec (s0, cempty) ops = (s, c) -> wf_scope s = true -> denote_scope s = Ok d ->
  (forall x, fst (get s c x) = of_opt (lookup d x)) /\
  (forall x, contains s x = is_some (lookup d x)) /\
  fst (keys s c) = Ok (domain s) /\ fst (iter s c) = Ok (domain s) /\
  fst (len s c) = Ok (Z.of_nat (length (domain s))) /\
  exists d', fst (as_dict s c) = Ok d' /\ fst (items s c) = Ok d' /\ map fst d' = domain s /\
             forall x, lookup d' x = lookup d x.
Proof. exact views_reachable. Qed.
Print Assumptions C13_views.

(* membership is membership in the domain (no well-formedness needed, no state involved) *)
Theorem C13_contains_domain : forall s x, contains s x = mem x (domain s).
Proof. exact contains_domain. Qed.
Print Assumptions C13_contains_domain.

(* the domain lists every name once: together with C13_views, len = number of distinct keys and iteration / keys /
   items never repeat a name *)
Theorem C13_domain_distinct : forall s, wf_scope s = true -> NoDup (domain s).
Proof. exact domain_NoDup. Qed.
Print Assumptions C13_domain_distinct.

(* HISTORY: after any history, any further sequence of operations returns what it returns on fresh objects of
   the same structure (the memoisation fields are unobservable) *)
Theorem C13_history : forall s ops1 ops2,
  run (exec (s, cempty) ops1) ops2 = run (fst (exec (s, cempty) ops1), cempty) ops2.
Proof. exact history_independent. Qed.
Print Assumptions C13_history.

(* ... and the model with memoisation equals the access paths computed without any memoisation *)
Theorem C13_cache_refinement : forall s ops, run (s, cempty) ops = prun s ops.
Proof. exact run_fresh. Qed.
Print Assumptions C13_cache_refinement.

(* VOLATILE: in every reachable state, a parameter is reported volatile exactly when it depends on a constant
   marked volatile at the top; a loop index shadows *)
Theorem C13_volatile : forall s0 ops s c ks,
  exec (s0, cempty) ops = (s, c) -> wf_scope s = true -> fst (vol s c) = Ok ks ->
  forall x, mem x ks = depends_on_volatile s x.
Proof. exact volatile_reachable. Qed.
Print Assumptions C13_volatile.

(* CHANGE: change_constants yields (syntactically) the scope rebuilt from the changed constants, whatever the
   caches hold, hence the same denotation; it warns exactly when a non-volatile constant is changed *)
Theorem C13_change : forall s c nc,
  ch_scope (cc s c nc) = rebuild s nc /\
  denote_scope (ch_scope (cc s c nc)) = denote_scope (rebuild s nc) /\
  ch_warned (cc s c nc) = changes_non_volatile s nc.
Proof.
  intros s c nc. pose proof (proj1 (cc_scope_rebuild s c nc)) as E.
  split; [exact E|]. split; [now rewrite E|exact (cc_warned s c nc)].
Qed.
Print Assumptions C13_change.

(* the cache-free forms (used by check_corr next to the stateful model) *)
Theorem C13_views_nocache : forall s d, wf_scope s = true -> denote_scope s = Ok d ->
  (forall x, pget s x = of_opt (lookup d x)) /\
  pkeys s = Ok (domain s) /\ piter s = Ok (domain s) /\ plen s = Ok (Z.of_nat (length (domain s))) /\
  exists d', pasd s = Ok d' /\ pitems s = Ok d' /\ map fst d' = domain s /\ forall x, lookup d' x = lookup d x.
Proof.
  intros s d Hwf Hd.
  destruct (pkeys_pasd_denote s Hwf d Hd) as [Hk [d' [Ha [Hf Hl]]]].
  destruct (piter_plen_denote s Hwf d Hd) as [Hi Hn].
  split; [exact (pget_denote s Hwf d Hd)|].
  split; [exact Hk|]. split; [exact Hi|]. split; [exact Hn|].
  exists d'. rewrite pitems_pasd. auto.
Qed.
Print Assumptions C13_views_nocache.

Theorem C13_volatile_nocache : forall s ks, wf_scope s = true -> pvol s = Ok ks ->
  forall x, mem x ks = depends_on_volatile s x.
Proof. intros s ks Hwf Hv. exact (pvol_depends s Hwf ks Hv). Qed.
Print Assumptions C13_volatile_nocache.

(* non-vacuity of the hypotheses: a three-layer stack (mapping over loop index shadowing a volatile constant over
   mapping over constants), after a history that populates caches and changes a constant *)
Example C13_hypotheses_satisfiable :
  let st := exec (ex_scope, cempty) [OGet 3%N; OAsDict; OVol; OChange [(1%N, 9#1)]; OGet 2%N] in
  wf_scope (fst st) = true /\
  denote_scope (fst st) = Ok [(0%N, 5#1); (1%N, 7#1); (2%N, 10#1); (3%N, 50#1)] /\
  fst (vol (fst st) (snd st)) = Ok [2%N; 3%N] /\
  c_cache (snd st) = [(2%N, 10#1)].
Proof. vm_compute. auto. Qed.
