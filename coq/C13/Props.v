(* C13 — property theorems (statements only; proofs live in Proofs*.v). *)
From Coq Require Import ZArith NArith QArith Bool List.
Require Import QV.C13.Model QV.C13.Pure QV.C13.Spec QV.C13.Proofs QV.C13.ProofsViews.
Import ListNotations.

(* membership is membership in the domain of the denoted mapping (no well-formedness needed) *)
Theorem C13_contains_domain : forall s x, contains s x = mem x (domain s).
Proof. exact contains_domain. Qed.
Print Assumptions C13_contains_domain.

(* every access path, computed without memoisation, agrees with the denoted mapping *)
Theorem C13_views_nocache : forall s d, wf_scope s = true -> denote_scope s = Ok d ->
  (forall x, pget s x = of_opt (lookup d x)) /\
  (forall x, contains s x = is_some (lookup d x)) /\
  pkeys s = Ok (domain s) /\ piter s = Ok (domain s) /\ plen s = Ok (Z.of_nat (length (domain s))) /\
  exists d', pasd s = Ok d' /\ pitems s = Ok d' /\ map fst d' = domain s /\ forall x, lookup d' x = lookup d x.
Proof.
  intros s d Hwf Hd.
  destruct (pkeys_pasd_denote s Hwf d Hd) as [Hk [d' [Ha [Hf Hl]]]].
  destruct (piter_plen_denote s Hwf d Hd) as [Hi Hn].
  split; [exact (pget_denote s Hwf d Hd)|].
  split; [intros x; rewrite contains_domain; symmetry; exact (denote_domain s Hwf d Hd x)|].
  split; [exact Hk|]. split; [exact Hi|]. split; [exact Hn|].
  exists d'. rewrite pitems_pasd. auto.
Qed.
Print Assumptions C13_views_nocache.

(* a parameter is reported volatile exactly when it depends on a constant marked volatile (loop index shadows) *)
Theorem C13_volatile_nocache : forall s ks, wf_scope s = true -> pvol s = Ok ks ->
  forall x, mem x ks = depends_on_volatile s x.
Proof. intros s ks Hwf Hv. exact (pvol_depends s Hwf ks Hv). Qed.
Print Assumptions C13_volatile_nocache.

(* change_constants yields (syntactically) the scope rebuilt from the changed constants, whatever the caches
   hold; it warns exactly when a constant that is not marked volatile is changed *)
Theorem C13_change : forall s c nc,
  ch_scope (cc s c nc) = rebuild s nc /\ ch_warned (cc s c nc) = changes_non_volatile s nc.
Proof. intros s c nc. split; [exact (proj1 (cc_scope_rebuild s c nc))|exact (cc_warned s c nc)]. Qed.
Print Assumptions C13_change.
