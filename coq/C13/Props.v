(* C13 — property theorems (statements only, each closed by `exact <lemma>`; proofs live in Proofs*.v, the composed ones in
   ProofsR5.v as `p_<name>`).
   `run (s, cempty) ops` is the model with the memoisation fields as state, started on fresh objects;
   `exec` is the object graph after a history; `prun` / `pget` ... are the same access paths without memoisation. *)
From Coq Require Import ZArith NArith QArith Bool List.
Require Import QV.C13.Model QV.C13.Pure QV.C13.Spec QV.C13.SpecChange QV.C13.Proofs QV.C13.ProofsViews QV.C13.ProofsCache
               QV.C13.ProofsFinal QV.C13.ProofsR5.
Import ListNotations.

(* VIEWS: in every state reachable by any history (lookups, views, volatile queries, constant changes, any cache
   population), every access path agrees with the mapping the current scope denotes *)
Theorem C13_views : forall s0 ops s c d,
  exec (s0, cempty) ops = (s, c) -> wf_scope s = true -> denote_scope s = Ok d ->
  (forall x, fst (get s c x) = of_opt (lookup d x)) /\
  (forall x, contains s x = is_some (lookup d x)) /\
  fst (keys s c) = Ok (domain s) /\ fst (iter s c) = Ok (domain s) /\
  fst (len s c) = Ok (Z.of_nat (length (domain s))) /\
  exists d', fst (as_dict s c) = Ok d' /\ fst (items s c) = Ok d' /\ map fst d' = domain s /\
             forall x, lookup d' x = lookup d x.
Proof. exact views_reachable. Qed.
Print Assumptions C13_views.

(* membership is membership in the domain (no well-formedness needed, no state involved) *)
Theorem C13_contains_domain : forall s x, contains s x = mem x (domain s).
Proof. exact contains_domain. Qed.
Print Assumptions C13_contains_domain.

(* the domain lists every name once: together with C13_views, len = number of distinct keys and iteration / keys /
   items never repeat a name *)
Theorem C13_domain_distinct : forall s, wf_scope s = true -> NoDup (domain s).
Proof. exact domain_NoDup. Qed.
Print Assumptions C13_domain_distinct.

(* HISTORY: after any history, any further sequence of operations returns what it returns on fresh objects of
   the same structure (the memoisation fields are unobservable) *)
Theorem C13_history : forall s ops1 ops2,
  run (exec (s, cempty) ops1) ops2 = run (fst (exec (s, cempty) ops1), cempty) ops2.
Proof. exact history_independent. Qed.
Print Assumptions C13_history.

(* ... and the model with memoisation equals the access paths computed without any memoisation *)
Theorem C13_cache_refinement : forall s ops, run (s, cempty) ops = prun s ops.
Proof. exact run_fresh. Qed.
Print Assumptions C13_cache_refinement.

(* VOLATILE: in every reachable state, a parameter is reported volatile exactly when it depends on a constant
   marked volatile at the top; a loop index shadows *)
Theorem C13_volatile : forall s0 ops s c ks,
  exec (s0, cempty) ops = (s, c) -> wf_scope s = true -> fst (vol s c) = Ok ks ->
  forall x, mem x ks = depends_on_volatile s x.
Proof. exact volatile_reachable. Qed.
Print Assumptions C13_volatile.

(* CHANGE: change_constants yields (syntactically) the scope rebuilt from the changed constants, whatever the
   caches hold, hence the same denotation; it warns exactly when a non-volatile constant is changed *)
Theorem C13_change : forall s c nc,
  ch_scope (cc s c nc) = rebuild s nc /\
  denote_scope (ch_scope (cc s c nc)) = denote_scope (rebuild s nc) /\
  ch_warned (cc s c nc) = changes_non_volatile s nc.
Proof. exact p_C13_change. Qed.
Print Assumptions C13_change.

(* the cache-free forms (used by check_corr next to the stateful model) *)
Theorem C13_views_nocache : forall s d, wf_scope s = true -> denote_scope s = Ok d ->
  (forall x, pget s x = of_opt (lookup d x)) /\
  pkeys s = Ok (domain s) /\ piter s = Ok (domain s) /\ plen s = Ok (Z.of_nat (length (domain s))) /\
  exists d', pasd s = Ok d' /\ pitems s = Ok d' /\ map fst d' = domain s /\ forall x, lookup d' x = lookup d x.
Proof. exact p_C13_views_nocache. Qed.
Print Assumptions C13_views_nocache.

Theorem C13_volatile_nocache : forall s ks, wf_scope s = true -> pvol s = Ok ks ->
  forall x, mem x ks = depends_on_volatile s x.
Proof. exact p_C13_volatile_nocache. Qed.
Print Assumptions C13_volatile_nocache.

(* non-vacuity of the hypotheses: a three-layer stack (mapping over loop index shadowing a volatile constant over
   mapping over constants), after a history that populates caches and changes a constant *)
Example C13_hypotheses_satisfiable :
  let st := exec (ex_scope, cempty) [OGet 3%N; OAsDict; OVol; OChange [(1%N, 9#1)]; OGet 2%N] in
  wf_scope (fst st) = true /\
  denote_scope (fst st) = Ok [(0%N, 5#1); (1%N, 7#1); (2%N, 10#1); (3%N, 50#1)] /\
  fst (vol (fst st) (snd st)) = Ok [2%N; 3%N] /\
  c_cache (snd st) = [(2%N, 10#1)].
Proof. exact p_C13_hypotheses_satisfiable. Qed.

(* ---------------------------------------------------------------- round 2: dependency expressions, dependence *)
Require Import QV.C13.ProofsVolX.

(* DEPENDENCY EXPRESSIONS: in every reachable state, for every change nc of volatile constants only, the expression
   reported for x by get_volatile_parameters(), evaluated in ANY environment that gives the constants of the scope
   rebuilt from nc their values, is the value of x in the rebuilt scope (nc = [] : its current value) *)
Theorem C13_volatile_expr : forall s0 ops s c ve nc d' env x e q,
  exec (s0, cempty) ops = (s, c) -> wf_scope s = true -> fst (volx s c) = Ok ve ->
  (exists d, denote_scope s = Ok d) -> changes_non_volatile s nc = false ->
  denote_scope (rebuild s nc) = Ok d' -> env_for env (rebuild s nc) ->
  lookup ve x = Some e -> lookup d' x = Some q -> eval env e = Some q.
Proof. exact p_C13_volatile_expr. Qed.
Print Assumptions C13_volatile_expr.

Theorem C13_volatile_expr_current : forall s d ve env x e q,
  wf_scope s = true -> denote_scope s = Ok d -> pvolx s = Ok ve -> env_for env s ->
  lookup ve x = Some e -> lookup d x = Some q -> eval env e = Some q.
Proof. exact volx_current. Qed.
Print Assumptions C13_volatile_expr_current.

(* the keys of the expression map are the reported names (so C13_volatile speaks about the same object) *)
Theorem C13_volatile_expr_keys : forall s c, fst (vol s c) = rmap (map fst) (fst (volx s c)).
Proof. exact p_C13_volatile_expr_keys. Qed.
Print Assumptions C13_volatile_expr_keys.

(* DEPENDENCE is syntactic in the code (the variables of the expression object) and that is sound for the semantic
   reading: a parameter that is NOT reported keeps its value under every change of volatile constants *)
Theorem C13_unreported_is_constant : forall s nc d d' x,
  wf_scope s = true -> changes_non_volatile s nc = false ->
  denote_scope s = Ok d -> denote_scope (rebuild s nc) = Ok d' ->
  depends_on_volatile s x = false -> lookup d' x = lookup d x.
Proof. exact nonvolatile_invariant. Qed.
Print Assumptions C13_unreported_is_constant.

(* ... the converse fails: v - v (as an expression object that still mentions v; sympy itself cancels this one, but not
   e.g. (v+1)*(v-1) - v*v) is reported volatile although its value is 0 for every value of v *)
Theorem C13_semantic_dependence_refuted :
  exists s x, wf_scope s = true /\ depends_on_volatile s x = true /\
    forall nc d', denote_scope (rebuild s nc) = Ok d' -> exists q, lookup d' x = Some q /\ (q == 0)%Q.
Proof. exact p_C13_semantic_dependence_refuted. Qed.
Print Assumptions C13_semantic_dependence_refuted.

(* get_volatile_parameters() cannot raise on a scope that denotes a mapping *)
Theorem C13_volatile_total : forall s0 ops s c d,
  exec (s0, cempty) ops = (s, c) -> wf_scope s = true -> denote_scope s = Ok d ->
  exists ve, fst (volx s c) = Ok ve.
Proof. exact p_C13_volatile_total. Qed.
Print Assumptions C13_volatile_total.

(* non-vacuity: the witness of the repaired defect (a = v + b with b overwritten by the same mapping), volatile
   constant changed 3 -> 10: the reported expression evaluates to the current value 5 and to the changed value 12 *)
Example C13_volatile_expr_satisfiable :
  let s := SMapped (SDict [(0%N, 1#1); (1%N, 2#1); (2%N, 3#1)] [2%N])
                   [(0%N, EAdd (EVar 2%N) (EVar 1%N)); (1%N, EConst (7#1))] in
  wf_scope s = true /\ changes_non_volatile s [(2%N, 10#1)] = false /\
  (exists ve e, pvolx s = Ok ve /\ lookup ve 0%N = Some e /\
     eval (lookup [(0%N, 1#1); (1%N, 2#1); (2%N, 3#1)]) e = Some (5#1) /\
     eval (lookup [(0%N, 1#1); (1%N, 2#1); (2%N, 10#1)]) e = Some (12#1)) /\
  (exists d', denote_scope (rebuild s [(2%N, 10#1)]) = Ok d' /\ lookup d' 0%N = Some (12#1)).
Proof. exact p_C13_volatile_expr_satisfiable. Qed.

(* ---------------------------------------------------------------- round 2: the modelled __eq__ is an equivalence *)
Require Import QV.C13.ProofsEq.

Theorem C13_eq_refl : forall s, wf_scope s = true -> scope_eqb s s = true.
Proof. exact scope_eqb_refl. Qed.
Print Assumptions C13_eq_refl.

Theorem C13_eq_sym : forall a b, wf_scope a = true -> wf_scope b = true -> scope_eqb a b = scope_eqb b a.
Proof. exact scope_eqb_sym. Qed.
Print Assumptions C13_eq_sym.

Theorem C13_eq_trans : forall a b c, wf_scope a = true -> wf_scope b = true -> wf_scope c = true ->
  scope_eqb a b = true -> scope_eqb b c = true -> scope_eqb a c = true.
Proof. exact p_C13_eq_trans. Qed.
Print Assumptions C13_eq_trans.

(* distinct keys are needed: without them the modelled == is not reflexive *)
Theorem C13_eq_refl_needs_wf : exists s, wf_scope s = false /\ scope_eqb s s = false.
Proof. exact scope_eqb_refl_needs_wf. Qed.
Print Assumptions C13_eq_refl_needs_wf.

(* change_constants yields a scope EQUAL (modelled ==) to the one built from the changed constants *)
Theorem C13_change_eq : forall s c nc, wf_scope (rebuild s nc) = true ->
  scope_eqb (ch_scope (cc s c nc)) (rebuild s nc) = true.
Proof. exact p_C13_change_eq. Qed.
Print Assumptions C13_change_eq.

(* SHARED SUB-SCOPE OBJECTS: a joint scope whose entries are one Python object share that object's memoisation
   fields, i.e. an entry may find cache contents written through another entry.  Every such state satisfies
   `cache_ok` (each entry's cache state is valid for the entry's sub-scope, whoever wrote it), and from every
   cache_ok state every history returns what it returns on fresh objects *)
Theorem C13_any_valid_cache_state : forall s c ops, cache_ok s c -> run (s, c) ops = run (s, cempty) ops.
Proof. exact p_C13_any_valid_cache_state. Qed.
Print Assumptions C13_any_valid_cache_state.

(* e.g. two entries over the same sub-scope, the second holding the cache the first one filled *)
Example C13_shared_cache_state_valid :
  let sub := SMapped (SDict [(0%N, 1#1); (1%N, 2#1)] [0%N]) [(2%N, EAdd (EVar 0%N) (EVar 1%N))] in
  let j := SJoint [(2%N, sub); (0%N, sub)] in
  let c1 := snd (exec (j, cempty) [OGet 2%N; OVol]) in
  let shared := set_kids c1 [hd cempty (c_kids c1); hd cempty (c_kids c1)] in
  c_cache (hd cempty (c_kids c1)) = [(2%N, 3#1)] /\ cache_ok j shared.
Proof. exact p_C13_shared_cache_state_valid. Qed.

(* ---------------------------------------------------------------- round 3: eq => equal hash; Scope.overwrite *)
Require Import QV.C13.Hash QV.C13.ProofsHash.
From Coq Require Import Permutation.

(* EQ => EQUAL HASH.  `scope_hash` follows the __hash__ methods (tuples of the fields; a FrozenDict hashes the set of its
   items).  For EVERY string hash hN, every tuple combiner tup, every number hash hQ that respects == and every frozenset
   combiner that does not depend on the order of the entries: scopes that compare equal have equal hashes *)
Theorem C13_eq_hash : forall (hN : ident -> Z) (hQ : Q -> Z) (tup fset : list Z -> Z),
  (forall p q, Qeq_bool p q = true -> hQ p = hQ q) ->
  (forall l l', Permutation l l' -> fset l = fset l') ->
  forall a b, wf_scope a = true -> wf_scope b = true -> scope_eqb a b = true ->
  scope_hash hN hQ tup fset a = scope_hash hN hQ tup fset b.
Proof. exact p_C13_eq_hash. Qed.
Print Assumptions C13_eq_hash.

(* ... in particular with CPython's frozenset combiner (xor of individually shuffled entry hashes, 64 bit) and the
   reduced fraction as number hash; so the two laws are satisfiable and hold for the combiner Python uses *)
Theorem C13_eq_hash_cpython : forall hN tup a b, wf_scope a = true -> wf_scope b = true -> scope_eqb a b = true ->
  scope_hash hN red_hash tup cpy_fset a = scope_hash hN red_hash tup cpy_fset b.
Proof. exact p_C13_eq_hash_cpython. Qed.
Print Assumptions C13_eq_hash_cpython.

(* change_constants yields a scope with the hash of the scope built from the changed constants *)
Theorem C13_change_hash : forall hN hQ tup fset s c nc,
  scope_hash hN hQ tup fset (ch_scope (cc s c nc)) = scope_hash hN hQ tup fset (rebuild s nc).
Proof. exact p_C13_change_hash. Qed.
Print Assumptions C13_change_hash.

(* the hash is not trivially constant in the example instance: the witness scopes of two different constants differ *)
Example C13_eq_hash_nontrivial :
  let h := scope_hash (fun n => Z.of_N n) red_hash (fold_right (fun x acc => (acc * 31 + x)%Z) 7%Z) cpy_fset in
  h (SDict [(0%N, 1#1); (1%N, 2#1)] [0%N]) = h (SDict [(1%N, 4#2); (0%N, 2#2)] [0%N; 0%N]) /\
  h (SDict [(0%N, 1#1); (1%N, 2#1)] [0%N]) <> h (SDict [(0%N, 1#1); (1%N, 3#1)] [0%N]).
Proof. exact p_C13_eq_hash_nontrivial. Qed.

(* OVERWRITE: Scope.overwrite(kv) continues on a scope that gives the names of kv their new values, leaves every other
   parameter as it was, and in which the overwritten names depend on nothing (they are not volatile; parameters of
   higher layers derived from them only are not volatile either, by C13_volatile).  The reachable-state theorems above
   (C13_views, C13_history, C13_volatile, C13_volatile_expr ...) quantify over histories that contain OOverwrite. *)
Theorem C13_overwrite : forall s c kv d, denote_scope s = Ok d -> nodup_keys kv = true ->
  fst (overwrite s c kv) = overwritten s kv /\
  wf_scope (overwritten s kv) = wf_scope s /\
  (exists d', denote_scope (overwritten s kv) = Ok d' /\
     forall x, lookup d' x = match lookup kv x with Some v => Some v | None => lookup d x end) /\
  (forall x, depends_on_volatile (overwritten s kv) x =
             if is_some (lookup kv x) then false else depends_on_volatile s x).
Proof. exact overwrite_spec. Qed.
Print Assumptions C13_overwrite.

(* non-vacuity: a volatile constant overwritten by a constant, queried after the overwrite: nothing is volatile *)
Example C13_overwrite_satisfiable :
  let st := exec (SMapped (SDict [(0%N, 1#1); (2%N, 3#1)] [2%N]) [(1%N, EAdd (EVar 2%N) (EVar 0%N))], cempty)
                 [OVol; OGet 1%N; OOverwrite [(2%N, 7#1)]; OVol] in
  fst (vol (fst st) (snd st)) = Ok [1%N] /\
  fst (vol (fst (exec st [OOverwrite [(1%N, 0#1)]])) (snd (exec st [OOverwrite [(1%N, 0#1)]]))) = Ok [].
Proof. exact p_C13_overwrite_satisfiable. Qed.

(* ---------------------------------------------------------------- round 3: explicit heap of shared scope objects *)
Require Import QV.C13.Heap QV.C13.ProofsHeap.

(* SHARED OBJECTS.  `hrun s l st ops` runs a history of queries (lookups, views, volatile queries, ==) on an object
   graph in which positions with the same id in the labelling `l` are ONE Python object with ONE set of memoisation
   fields (store `st`: id -> _cache / _as_dict / _volatile_parameters[_cache]); what one entry of a joint scope memoises
   is seen through every other entry that is the same object, also in the middle of a call.  For every registry G of
   object structures, every labelling consistent with it, every store whose entries are valid for the registered
   objects (the empty store; the store left by any earlier history; the fields retained objects carry over a
   change_constants): the observations are those of the cache-free access paths, i.e. (C13_cache_refinement) those of
   the tree model, i.e. (C13_views, C13_volatile, C13_volatile_expr) those the denotation prescribes. *)
Theorem C13_heap_queries : forall G s l st ops,
  reg_ok G s l -> sok G st -> forallb is_query ops = true ->
  hrun s l st ops = prun s ops /\ hrun s l st ops = run (s, cempty) ops.
Proof. exact p_C13_heap_queries. Qed.
Print Assumptions C13_heap_queries.

(* every query leaves a valid store behind (so the theorem applies to the next history on the same graph) *)
Theorem C13_heap_store_valid : forall G s l st o,
  reg_ok G s l -> sok G st -> is_query o = true -> sok G (snd (hstep s l st o)).
Proof. exact p_C13_heap_store_valid. Qed.
Print Assumptions C13_heap_store_valid.

Theorem C13_heap_empty_store_valid : forall G, sok G [].
Proof. exact sok_empty. Qed.
Print Assumptions C13_heap_empty_store_valid.

(* non-vacuity: a joint scope that holds one MappedScope object under two names and below a third entry; the labelling
   is consistent; a lookup through the third entry fills the cache of the shared object (in the tree model the first
   entry's copy stays empty) *)
Example C13_heap_satisfiable :
  reg_ok ex_G ex_J ex_lJ /\
  n_cache (sget (snd (hget ex_J ex_lJ [] 3%N)) 1%N) = [(2%N, 3#1)] /\
  c_cache (hd cempty (c_kids (snd (get ex_J cempty 3%N)))) = [] /\
  hrun ex_J ex_lJ [] [OGet 3%N; OAsDict; OVol; OGet 2%N] = prun ex_J [OGet 3%N; OAsDict; OVol; OGet 2%N].
Proof. exact p_C13_heap_satisfiable. Qed.

(* ---------------------------------------------------------------- round 3: change_constants / overwrite on the heap *)
Require Import QV.C13.HeapCC QV.C13.ProofsHeapCC.

(* change_constants on the heap (`hcc`: objects returned as `self` keep id and fields, new objects get fresh ids and
   initialised fields, a shared sub-object that changes is rebuilt once per joint-scope entry): the new graph is consistent
   with an extended registry, the store stays valid, the structure is the rebuilt scope, the warning flag is right *)
Theorem C13_heap_change : forall nc s G l st nx, reg_ok G s l -> sok G st -> gb nx G ->
  let r := hcc s l st nx nc in
  exists G', gext G G' /\ reg_ok G' (hc_scope r) (hc_lab r) /\ sok G' (hc_st r) /\ gb (hc_next r) G' /\
             hc_scope r = rebuild s nc /\ hc_warned r = changes_non_volatile s nc /\
             (hc_same r = true -> rebuild s nc = s).
Proof. exact p_C13_heap_change. Qed.
Print Assumptions C13_heap_change.

(* FULL HISTORIES ON THE HEAP: lookups, views, volatile queries, ==, change_constants and overwrite in any order, on
   object graphs with shared objects: the observations are those of the cache-free paths and of the tree model *)
Theorem C13_heap_histories : forall G s l st nx ops, reg_ok G s l -> sok G st -> gb nx G ->
  hrun_full (s, l, st, nx) ops = prun s ops /\ hrun_full (s, l, st, nx) ops = run (s, cempty) ops.
Proof. exact p_C13_heap_histories. Qed.
Print Assumptions C13_heap_histories.

(* non-vacuity: the shared graph above with counter 4; changing the volatile constant p0 of the shared DictScope rebuilds
   S once per entry (ids 4/5, 6/7, 8/9 below the new T = 10, joint 11); changing nothing keeps the three entries on S *)
Example C13_heap_histories_satisfiable :
  reg_ok ex_G ex_J ex_lJ /\ sok ex_G [] /\ gb 4 ex_G /\
  hc_lab (hcc ex_J ex_lJ [] 4 [(0%N, 9#1)]) =
    L 11 [L 5 [L 4 []]; L 7 [L 6 []]; L 10 [L 9 [L 8 []]]] /\
  hc_lab (hcc ex_J ex_lJ [] 4 [(7%N, 9#1)]) = L 4 [ex_lS; ex_lS; L 3 [ex_lS]] /\
  hrun_full (ex_J, ex_lJ, [], 4%N) [OGet 3%N; OVol; OChange [(0%N, 9#1)]; OAsDict; OOverwrite [(0%N, 0#1)]; OVol; OGet 3%N]
  = prun ex_J [OGet 3%N; OVol; OChange [(0%N, 9#1)]; OAsDict; OOverwrite [(0%N, 0#1)]; OVol; OGet 3%N].
Proof. exact p_C13_heap_histories_satisfiable. Qed.

(* ================================================================ round 4 *)
Require Import QV.C13.HeapCheck QV.C13.ProofsHeapCheck.

(* THE HEAP RUN OF check_corr: a labelling (object identities handed over by the harness) that passes the executable
   admission test satisfies the hypotheses of C13_heap_histories from the empty store: the heap run compared with the
   implementation IS the run of the tree model and of the cache-free paths, for every history *)
Theorem C13_heap_admission : forall s l nx ops, lab_okb s l nx = true ->
  reg_ok (mkreg s l) s l /\ gb nx (mkreg s l) /\
  hrun_full (s, l, [], nx) ops = prun s ops /\ hrun_full (s, l, [], nx) ops = run (s, cempty) ops.
Proof. exact p_C13_heap_admission. Qed.
Print Assumptions C13_heap_admission.

(* the test accepts the shared graph of C13_heap_satisfiable and rejects one id used for two different structures *)
Example C13_heap_admission_nontrivial :
  lab_okb ex_J ex_lJ 4 = true /\
  lab_okb (SJoint [(0%N, SDict [(0%N, 1#1)] []); (1%N, SDict [(1%N, 1#1)] [])]) (L 3 [L 1 []; L 1 []]) 4 = false.
Proof. exact p_C13_heap_admission_nontrivial. Qed.

Require Import QV.C13.TEq QV.C13.ProofsTEq.

(* `==` OF THE CODE WITH THE NUMBER KIND OF EXPRESSION CONSTANTS (Expression.__eq__ is sympy-structural: Integer(1) is not
   Float(1.0); DictScope constants and loop index values are compared by value).  It refines the value-based == of the
   model (so, by C13_eq_hash, equal scopes hash alike in the hash model and, by C13_eq_same_names_volatility, provide the
   same names, report the same volatile parameters and, by C13_eq_same_mapping, denote the same mapping), strictly; it is an equivalence on well-formed scopes; scopes of different classes are unequal *)
Theorem C13_typed_eq_refines : forall a b, tscope_eqb a b = true -> scope_eqb (erase_s a) (erase_s b) = true.
Proof. exact tscope_eqb_erase. Qed.
Print Assumptions C13_typed_eq_refines.

Theorem C13_typed_eq_strict : exists a b, twf a = true /\ twf b = true /\
  scope_eqb (erase_s a) (erase_s b) = true /\ tscope_eqb a b = false.
Proof. exact p_C13_typed_eq_strict. Qed.
Print Assumptions C13_typed_eq_strict.

Theorem C13_typed_eq_refl : forall s, twf s = true -> tscope_eqb s s = true.
Proof. exact tscope_eqb_refl. Qed.
Print Assumptions C13_typed_eq_refl.

Theorem C13_typed_eq_sym : forall a b, twf a = true -> twf b = true -> tscope_eqb a b = tscope_eqb b a.
Proof. exact tscope_eqb_sym. Qed.
Print Assumptions C13_typed_eq_sym.

Theorem C13_typed_eq_trans : forall a b c, twf a = true -> twf b = true -> twf c = true ->
  tscope_eqb a b = true -> tscope_eqb b c = true -> tscope_eqb a c = true.
Proof. exact p_C13_typed_eq_trans. Qed.
Print Assumptions C13_typed_eq_trans.

Theorem C13_typed_wf : forall s, twf s = wf_scope (erase_s s).
Proof. exact p_C13_typed_wf. Qed.
Print Assumptions C13_typed_wf.

(* CHANGE with number kinds: change_constants (which keeps the mapping expression objects and replaces DictScope values,
   compared by value whatever their Python number type) yields exactly the typed structure rebuilt from the changed
   constants; that structure is well-formed iff the old one is, the code's == accepts the two as equal, and its erasure
   is the result of the model's change_constants *)
Theorem C13_typed_change_eq : forall s c nc,
  fst (tcc s nc) = trebuild s nc /\
  twf (trebuild s nc) = twf s /\
  (twf s = true -> tscope_eqb (fst (tcc s nc)) (trebuild s nc) = true) /\
  erase_s (fst (tcc s nc)) = ch_scope (cc (erase_s s) c nc) /\
  erase_s (trebuild s nc) = rebuild (erase_s s) nc.
Proof. exact p_C13_typed_change_eq. Qed.
Print Assumptions C13_typed_change_eq.

(* non-vacuity: Scope.overwrite with 1 and with 1.0 gives scopes with the same mapping that the code calls different;
   after change_constants each is equal to its own rebuilt twin *)
Example C13_typed_satisfiable :
  let d := TSDict [(0%N, 1#1); (2%N, 3#1)] [2%N] in
  let a := toverwrite d [(0%N, (false, 1#1))] in
  let b := toverwrite d [(0%N, (true, 1#1))] in
  twf a = true /\ tscope_eqb a b = false /\ scope_eqb (erase_s a) (erase_s b) = true /\
  snd (tcc a [(2%N, 9#1)]) = false /\ tscope_eqb (fst (tcc a [(2%N, 9#1)])) (trebuild a [(2%N, 9#1)]) = true /\
  tscope_eqb (fst (tcc a [(2%N, 9#1)])) (trebuild b [(2%N, 9#1)]) = false /\
  tscope_eqb a d = false /\ tscope_eqb d (TSJoint [(0%N, d)]) = false.
Proof. exact p_C13_typed_satisfiable. Qed.

Require Import QV.C13.ProofsTHash.

(* eq => equal hash for the kind-aware ==: `tscope_hash` follows the four __hash__ methods with the hash of an expression
   constant a function of KIND and value (`hK`: hash(sympy.Integer(1)) and hash(sympy.Float(1.0)) may or may not agree),
   for every string / tuple hash, every number hash that respects ==, every order-independent frozenset combiner *)
Theorem C13_typed_eq_hash : forall hN hQ hK tup fset,
  (forall p q, Qeq_bool p q = true -> hQ p = hQ q) ->
  (forall f p q, Qeq_bool p q = true -> hK f p = hK f q) ->
  (forall l l', Permutation l l' -> fset l = fset l') ->
  forall a b, twf a = true -> twf b = true -> tscope_eqb a b = true ->
  tscope_hash hN hQ hK tup fset a = tscope_hash hN hQ hK tup fset b.
Proof. exact p_C13_typed_eq_hash. Qed.
Print Assumptions C13_typed_eq_hash.

(* ================================================================ round 5 *)
Require Import QV.C13.ProofsEqSem.

(* CHANGE against a specification that shares nothing with the model of change_constants: `changed_from nc s s'`
   (SpecChange.v) says relationally that s' has the layers / mapping expressions / index values / joint names / volatile
   sets of s and that every DictScope root has the same names in the same order with the constant k = nc k if given,
   else its old value.  The scope change_constants returns (whatever the caches hold) satisfies it, and on scopes with
   distinct names it is the ONLY scope that does.  (C13_change states the same against `rebuild`, which shares
   `update_vals` with the model: at a DictScope that statement is an identity; this one is not.) *)
Theorem C13_change_meaning : forall s c nc,
  changed_from nc s (ch_scope (cc s c nc)) /\
  (wf_scope s = true -> forall s', changed_from nc s s' -> s' = ch_scope (cc s c nc)).
Proof. exact change_meaning. Qed.
Print Assumptions C13_change_meaning.

Example C13_change_meaning_nontrivial :
  changed_from [(0%N, 9#1)] (SMapped (SDict [(0%N, 1#1); (1%N, 2#1)] [0%N]) [(2%N, EVar 0%N)])
                            (SMapped (SDict [(0%N, 9#1); (1%N, 2#1)] [0%N]) [(2%N, EVar 0%N)]) /\
  ~ changed_from [(0%N, 0#1)] (SDict [(0%N, 1#1)] [0%N]) (SDict [(0%N, 1#1)] [0%N]) /\
  ~ changed_from [(0%N, 9#1)] (SDict [(0%N, 1#1)] [0%N]) (SDict [(0%N, 9#1)] []).
Proof. exact changed_from_example. Qed.

(* the executable solution of `changed_from` that check_spec continues a history on (SpecChange.built_from_changed, written
   without the model's update_vals / rebuild) satisfies the relation and is the scope change_constants returns *)
Theorem C13_spec_change_executable : forall s c nc,
  changed_from nc s (built_from_changed s nc) /\ built_from_changed s nc = ch_scope (cc s c nc).
Proof. exact built_from_changed_ok. Qed.
Print Assumptions C13_spec_change_executable.

(* EQUAL SCOPES (modelled ==, hence by C13_typed_eq_refines also the kind-aware == of the code) provide the same names
   and report the same parameters as volatile: `==` is not vacuous with respect to the property's observations *)
Theorem C13_eq_same_names_volatility : forall a, wf_scope a = true -> forall b, scope_eqb a b = true ->
  (forall x, mem x (domain a) = mem x (domain b)) /\
  (forall x, depends_on_volatile a x = depends_on_volatile b x).
Proof. exact scope_eqb_sem. Qed.
Print Assumptions C13_eq_same_names_volatility.

Theorem C13_typed_eq_same_names_volatility : forall a b, twf a = true -> tscope_eqb a b = true ->
  (forall x, mem x (domain (erase_s a)) = mem x (domain (erase_s b))) /\
  (forall x, depends_on_volatile (erase_s a) x = depends_on_volatile (erase_s b) x).
Proof. exact typed_eq_sem. Qed.
Print Assumptions C13_typed_eq_same_names_volatility.

Require Import QV.C13.ProofsEqVal.

(* ... and denote the same mapping: one denotes iff the other does, and then every name has the same value (== on Q) *)
Theorem C13_eq_same_mapping : forall a b, wf_scope a = true -> wf_scope b = true -> scope_eqb a b = true ->
  ((exists d, denote_scope a = Ok d) <-> (exists d, denote_scope b = Ok d)) /\
  forall d1 d2, denote_scope a = Ok d1 -> denote_scope b = Ok d2 ->
    forall x, match lookup d1 x, lookup d2 x with Some p, Some q => p == q | None, None => True | _, _ => False end.
Proof. exact scope_eqb_same_mapping. Qed.
Print Assumptions C13_eq_same_mapping.

Theorem C13_typed_eq_same_mapping : forall a b, twf a = true -> twf b = true -> tscope_eqb a b = true ->
  ((exists d, denote_scope (erase_s a) = Ok d) <-> (exists d, denote_scope (erase_s b) = Ok d)) /\
  forall d1 d2, denote_scope (erase_s a) = Ok d1 -> denote_scope (erase_s b) = Ok d2 ->
    forall x, match lookup d1 x, lookup d2 x with Some p, Some q => p == q | None, None => True | _, _ => False end.
Proof. exact typed_eq_same_mapping. Qed.
Print Assumptions C13_typed_eq_same_mapping.

Example C13_eq_same_mapping_nontrivial :
  let a := SMapped (SDict [(0%N, 1#1); (1%N, 2#1)] [0%N]) [(2%N, EAdd (EVar 0%N) (EVar 1%N)); (3%N, EConst (4#2))] in
  let b := SMapped (SDict [(1%N, 4#2); (0%N, 1#1)] [0%N; 0%N]) [(3%N, EConst (2#1)); (2%N, EAdd (EVar 0%N) (EVar 1%N))] in
  let c := SMapped (SDict [(1%N, 2#1); (0%N, 5#1)] [0%N]) [(3%N, EConst (2#1)); (2%N, EAdd (EVar 0%N) (EVar 1%N))] in
  a <> b /\ wf_scope a = true /\ wf_scope b = true /\ scope_eqb a b = true /\ scope_eqb a c = false /\
  denote_scope a = Ok [(0%N, 1#1); (1%N, 2#1); (2%N, 3#1); (3%N, 4#2)] /\
  denote_scope b = Ok [(1%N, 4#2); (0%N, 1#1); (3%N, 2#1); (2%N, 6#2)].
Proof. exact eq_same_mapping_example. Qed.

(* non-vacuity of C13_unreported_is_constant *)
Example C13_unreported_satisfiable :
  let s := SMapped (SRange (SDict [(0%N, 1#1); (1%N, 2#1)] [0%N]) 0%N (4#1)) [(2%N, EAdd (EVar 0%N) (EVar 1%N))] in
  wf_scope s = true /\ changes_non_volatile s [(0%N, 9#1)] = false /\
  depends_on_volatile s 2%N = false /\ depends_on_volatile s 1%N = false /\
  (exists d d', denote_scope s = Ok d /\ denote_scope (rebuild s [(0%N, 9#1)]) = Ok d' /\
                lookup d 2%N = Some (6#1) /\ lookup d' 2%N = Some (6#1)) /\
  depends_on_volatile (SMapped (SDict [(0%N, 1#1); (1%N, 2#1)] [0%N]) [(2%N, EAdd (EVar 0%N) (EVar 1%N))]) 2%N = true.
Proof. exact unreported_example. Qed.

(* ================================================================ round 6 *)
Require Import QV.C13.SpecDenote QV.C13.ProofsR6.

(* THE DENOTED MAPPING IS THE ONE THE STATEMENT DESCRIBES.  `is_mapping_of s f` (SpecDenote.v) says name by name: a plain
   scope is its dictionary; in a mapped scope every mapping expression has a value in the mapping g of the OUTER scope, a
   name the mapping defines has the value of its expression in g (all in the same g: simultaneously) and any other name
   its outer value (the innermost definition wins); a loop index has the index value and shadows; a joint scope takes
   each name from its sub scope.  The relation mentions neither `eval_all` nor `override` nor `dict_set`.  On scopes with
   distinct names: the dictionary `denote_scope` computes has the property, every mapping with the property is pointwise
   that dictionary (so `denote_scope` succeeds whenever such a mapping exists), and the mapping is unique.  With this,
   C13_views / C13_volatile_expr / C13_eq_same_mapping (stated with `denote_scope`) are statements about that mapping. *)
Theorem C13_denotation_meaning : forall s, wf_scope s = true ->
  (forall d, denote_scope s = Ok d -> is_mapping_of s (lookup d)) /\
  (forall f, is_mapping_of s f -> exists d, denote_scope s = Ok d /\ forall x, f x = lookup d x) /\
  (forall f f', is_mapping_of s f -> is_mapping_of s f' -> forall x, f x = f' x).
Proof. exact p_C13_denotation_meaning. Qed.
Print Assumptions C13_denotation_meaning.

(* ... and directly for the access paths of the model: in every state reachable by any history, lookup, membership, the
   dictionary view and items return the mapping with that property (no `denote_scope` in the statement) *)
Theorem C13_lookup_meaning : forall s0 ops s c f,
  exec (s0, cempty) ops = (s, c) -> wf_scope s = true -> is_mapping_of s f ->
  (forall x, fst (get s c x) = of_opt (f x)) /\
  (forall x, contains s x = is_some (f x)) /\
  exists d', fst (as_dict s c) = Ok d' /\ fst (items s c) = Ok d' /\ forall x, lookup d' x = f x.
Proof. exact p_C13_lookup_meaning. Qed.
Print Assumptions C13_lookup_meaning.

(* non-vacuity: the swap a <- b, b <- a over {a: 1, b: 2} has the mapping {a: 2, b: 1}; the reading "one entry after the
   other in the growing dictionary" ({a: 2, b: 2}) is rejected; a name overwritten twice has the last value *)
Example C13_denotation_meaning_nontrivial :
  let swap := SMapped (SDict [(0%N, 1#1); (1%N, 2#1)] [0%N]) [(0%N, EVar 1%N); (1%N, EVar 0%N)] in
  let twice := overwritten (overwritten (SDict [(0%N, 1#1); (1%N, 2#1)] [0%N]) [(0%N, 5#1)]) [(0%N, 6#1)] in
  wf_scope swap = true /\ is_mapping_of swap (lookup [(0%N, 2#1); (1%N, 1#1)]) /\
  ~ is_mapping_of swap (lookup [(0%N, 2#1); (1%N, 2#1)]) /\
  wf_scope twice = true /\ (forall f, is_mapping_of twice f -> f 0%N = Some (6#1) /\ f 1%N = Some (2#1)).
Proof. exact p_C13_denotation_meaning_nontrivial. Qed.

Require Import QV.C13.SpecLazy.

(* SINGLE NAMES ON EVERY SCOPE (also one that does not denote a whole mapping because some OTHER mapping expression has no
   value).  `value_at s x` (SpecLazy.v) is the value the statement gives the name x alone: the expression of its innermost
   definition evaluated in the values of the outer scope, the index value, the value in the joint scope's sub scope.  In
   every state reachable by any history, with NO hypothesis on the scope: a lookup returns q iff q is that value (it
   raises iff there is none); a dictionary view / items call that returns holds, for each of its names, that value; and
   when the scope denotes d the value is `lookup d x` (so this extends C13_views, it does not compete with it).  Which
   exception is raised, and whether as_dict raises on a scope that does not denote, is not stated. *)
Theorem C13_lookup_partial : forall s0 ops s c,
  exec (s0, cempty) ops = (s, c) ->
  (forall x, to_opt (fst (get s c x)) = value_at s x) /\
  (forall d, fst (as_dict s c) = Ok d -> forall x v, lookup d x = Some v -> value_at s x = Some v) /\
  (forall d, fst (items s c) = Ok d -> forall x v, lookup d x = Some v -> value_at s x = Some v) /\
  (forall d, wf_scope s = true -> denote_scope s = Ok d -> forall x, value_at s x = lookup d x).
Proof. exact p_C13_lookup_partial. Qed.
Print Assumptions C13_lookup_partial.

(* non-vacuity: an expression over a name nobody provides above a swap: the scope denotes nothing, that parameter has no
   value, the others have theirs and a lookup returns them *)
Example C13_lookup_partial_nontrivial :
  let s := SMapped (SMapped (SDict [(0%N, 1#1); (1%N, 2#1)] [0%N]) [(0%N, EVar 1%N); (1%N, EVar 0%N)])
                   [(3%N, EAdd (EVar 5%N) (EConst (1#1))); (2%N, EAdd (EVar 0%N) (EVar 0%N))] in
  denote_scope s = Err EMissing /\ value_at s 3%N = None /\ value_at s 0%N = Some (2#1) /\
  value_at s 1%N = Some (1#1) /\ value_at s 2%N = Some (4#1) /\
  fst (get s cempty 2%N) = Ok (4#1) /\ fst (get s cempty 3%N) = Err EMissing.
Proof. exact p_C13_lookup_partial_nontrivial. Qed.
