(* C13 — property theorems (statements only; proofs live in Proofs*.v). *)
From Coq Require Import ZArith NArith QArith Bool List.
Require Import QV.C13.Model QV.C13.Spec QV.C13.Proofs.
Import ListNotations.

(* membership is membership in the domain of the denoted mapping *)
Theorem C13_contains_domain : forall s x, contains s x = mem x (domain s).
Proof. exact contains_domain. Qed.
Print Assumptions C13_contains_domain.
