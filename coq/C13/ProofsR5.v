(* C13 — round 5: change_constants against the relational specification `changed_from`; the composed statements of
   Props.v as lemmas (Props.v holds statements + `exact` only). *)
From Coq Require Import ZArith NArith QArith Bool List Lia.
From Coq Require Import Permutation.
Require Import QV.C13.Model QV.C13.Pure QV.C13.Spec QV.C13.SpecChange QV.C13.Proofs QV.C13.ProofsViews QV.C13.ProofsCache
               QV.C13.ProofsFinal QV.C13.ProofsVolX QV.C13.ProofsEq QV.C13.Hash QV.C13.ProofsHash QV.C13.Heap
               QV.C13.ProofsHeap QV.C13.HeapCC QV.C13.ProofsHeapCC QV.C13.HeapCheck QV.C13.ProofsHeapCheck QV.C13.TEq
               QV.C13.ProofsTEq QV.C13.ProofsTHash QV.C13.ProofsEqSem QV.C13.ProofsEqVal.
Import ListNotations.

Lemma map_fst_update_vals vals nc : map fst (update_vals vals nc) = map fst vals.
Proof. unfold update_vals. rewrite map_map. reflexivity. Qed.

Definition cf_joint (nc : list (ident * Q)) :=
  fix go (l l' : list (ident * scope)) : Prop :=
    match l, l' with
    | [], [] => True
    | (x, a) :: r, (x', a') :: r' => x' = x /\ changed_from nc a a' /\ go r r'
    | _, _ => False
    end.

Lemma changed_from_joint nc l l' : changed_from nc (SJoint l) (SJoint l') = cf_joint nc l l'.
Proof. reflexivity. Qed.

Lemma rebuild_changed_from : forall s nc, changed_from nc s (rebuild s nc).
Proof.
  induction s using scope_ind'; intros nc.
  - cbn. split; [reflexivity|]. split; [apply map_fst_update_vals|]. intros k. apply lookup_update_vals.
  - cbn. split; [reflexivity|apply IHs].
  - cbn. split; [reflexivity|]. split; [reflexivity|apply IHs].
  - cbn [rebuild]. rewrite changed_from_joint.
    induction H as [|[x sub] l Hs Hl IH]; [exact I|].
    cbn [map cf_joint fst snd]. split; [reflexivity|]. split; [apply Hs|exact IH].
Qed.

(* the relation determines the result on scopes whose dictionaries have distinct names: `changed_from` has exactly one
   solution, so it is a specification and not merely a property of `rebuild` *)
Lemma vals_determined : forall (a b : list (ident * Q)),
  nodup_keys a = true -> map fst a = map fst b -> (forall k, lookup a k = lookup b k) -> a = b.
Proof.
  induction a as [|[k v] a IH]; intros [|[k' v'] b] Hn Hk Hl; try discriminate; [reflexivity|].
  cbn in Hk. injection Hk as -> Hk.
  destruct (nodup_keys_cons _ _ _ Hn) as [Hna Hn'].
  pose proof (Hl k') as H0. cbn in H0. rewrite N.eqb_refl in H0. injection H0 as ->.
  f_equal. apply IH; auto.
  intros x. specialize (Hl x). cbn in Hl. destruct (N.eqb k' x) eqn:E; [|exact Hl].
  apply N.eqb_eq in E. subst x. rewrite Hna.
  assert (lookup b k' = None) as ->; [|reflexivity].
  destruct (lookup b k') eqn:Eb; [|reflexivity].
  assert (is_some (lookup a k') = true) as Hc.
  { rewrite lookup_mem, Hk, <- lookup_mem, Eb. reflexivity. }
  rewrite Hna in Hc. discriminate.
Qed.

Lemma changed_from_unique : forall s nc s', wf_scope s = true -> changed_from nc s s' -> s' = rebuild s nc.
Proof.
  induction s using scope_ind'; intros nc s' Hwf Hc.
  - destruct s' as [vals' vl'| | |]; cbn in Hc; try contradiction. destruct Hc as (-> & Hk & Hl). cbn.
    f_equal. symmetry. apply vals_determined.
    + cbn in Hwf. clear Hk Hl. unfold update_vals.
      induction vals as [|[k v] vals IH]; [reflexivity|]. cbn in *.
      apply andb_true_iff in Hwf. destruct Hwf as [H1 H2]. rewrite IH by exact H2. rewrite andb_true_r.
      fold (update_vals vals nc). rewrite lookup_update_vals. destruct (lookup vals k); [discriminate|reflexivity].
    + rewrite map_fst_update_vals. symmetry. exact Hk.
    + intros k. rewrite lookup_update_vals. symmetry. apply Hl.
  - destruct s' as [|o' m'| |]; cbn in Hc; try contradiction. destruct Hc as (-> & Hc). cbn.
    cbn in Hwf. apply andb_true_iff in Hwf. f_equal. apply IHs; tauto.
  - destruct s' as [| |i' n' v'|]; cbn in Hc; try contradiction. destruct Hc as (-> & -> & Hc). cbn.
    f_equal. apply IHs; auto.
  - destruct s' as [| | |l']; try (cbn in Hc; contradiction). rewrite changed_from_joint in Hc. cbn [rebuild]. f_equal.
    cbn in Hwf. apply andb_true_iff in Hwf. destruct Hwf as [_ Hwf].
    revert l' Hc. induction H as [|[x sub] l Hs Hl IH]; intros [|[x' sub'] l'] Hc; cbn in Hc; try contradiction; [reflexivity|].
    destruct Hc as (-> & Hc1 & Hc2). cbn in Hwf. apply andb_true_iff in Hwf. destruct Hwf as [W1 W2].
    cbn [map fst snd]. f_equal; [f_equal; apply Hs; auto|apply IH; auto].
Qed.

Lemma change_meaning s c nc :
  changed_from nc s (ch_scope (cc s c nc)) /\
  (wf_scope s = true -> forall s', changed_from nc s s' -> s' = ch_scope (cc s c nc)).
Proof.
  rewrite (proj1 (cc_scope_rebuild s c nc)). split; [apply rebuild_changed_from|].
  intros Hwf s' H. now apply changed_from_unique.
Qed.

(* non-vacuity of C13_unreported_is_constant: below a loop index that shadows the volatile constant p0, p2 = p0 + p1 is
   not reported and keeps its value 6 when p0 changes 1 -> 9; above the mapping, without the loop, it is reported *)
Lemma unreported_example :
  let s := SMapped (SRange (SDict [(0%N, 1#1); (1%N, 2#1)] [0%N]) 0%N (4#1)) [(2%N, EAdd (EVar 0%N) (EVar 1%N))] in
  wf_scope s = true /\ changes_non_volatile s [(0%N, 9#1)] = false /\
  depends_on_volatile s 2%N = false /\ depends_on_volatile s 1%N = false /\
  (exists d d', denote_scope s = Ok d /\ denote_scope (rebuild s [(0%N, 9#1)]) = Ok d' /\
                lookup d 2%N = Some (6#1) /\ lookup d' 2%N = Some (6#1)) /\
  depends_on_volatile (SMapped (SDict [(0%N, 1#1); (1%N, 2#1)] [0%N]) [(2%N, EAdd (EVar 0%N) (EVar 1%N))]) 2%N = true.
Proof.
  vm_compute. do 4 (split; [reflexivity|]). split; [|reflexivity].
  eexists; eexists. repeat split; reflexivity.
Qed.

(* ---------------------------------------------------------------- the composed statements of Props.v (generated
   layout: Props.v keeps the statement and `exact p_<name>`) *)
Lemma p_C13_change : forall s c nc,
  ch_scope (cc s c nc) = rebuild s nc /\
  denote_scope (ch_scope (cc s c nc)) = denote_scope (rebuild s nc) /\
  ch_warned (cc s c nc) = changes_non_volatile s nc.
Proof.
  intros s c nc. pose proof (proj1 (cc_scope_rebuild s c nc)) as E.
  split; [exact E|]. split; [now rewrite E|exact (cc_warned s c nc)].
Qed.

Lemma p_C13_views_nocache : forall s d, wf_scope s = true -> denote_scope s = Ok d ->
  (forall x, pget s x = of_opt (lookup d x)) /\
  pkeys s = Ok (domain s) /\ piter s = Ok (domain s) /\ plen s = Ok (Z.of_nat (length (domain s))) /\
  exists d', pasd s = Ok d' /\ pitems s = Ok d' /\ map fst d' = domain s /\ forall x, lookup d' x = lookup d x.
Proof.
  intros s d Hwf Hd.
  destruct (pkeys_pasd_denote s Hwf d Hd) as [Hk [d' [Ha [Hf Hl]]]].
  destruct (piter_plen_denote s Hwf d Hd) as [Hi Hn].
  split; [exact (pget_denote s Hwf d Hd)|].
  split; [exact Hk|]. split; [exact Hi|]. split; [exact Hn|].
  exists d'. rewrite pitems_pasd. auto.
Qed.

Lemma p_C13_volatile_nocache : forall s ks, wf_scope s = true -> pvol s = Ok ks ->
  forall x, mem x ks = depends_on_volatile s x.
Proof. intros s ks Hwf Hv. exact (pvol_depends s Hwf ks Hv). Qed.

Lemma p_C13_hypotheses_satisfiable :
  let st := exec (ex_scope, cempty) [OGet 3%N; OAsDict; OVol; OChange [(1%N, 9#1)]; OGet 2%N] in
  wf_scope (fst st) = true /\
  denote_scope (fst st) = Ok [(0%N, 5#1); (1%N, 7#1); (2%N, 10#1); (3%N, 50#1)] /\
  fst (vol (fst st) (snd st)) = Ok [2%N; 3%N] /\
  c_cache (snd st) = [(2%N, 10#1)].
Proof. vm_compute. auto. Qed.

Lemma p_C13_volatile_expr : forall s0 ops s c ve nc d' env x e q,
  exec (s0, cempty) ops = (s, c) -> wf_scope s = true -> fst (volx s c) = Ok ve ->
  (exists d, denote_scope s = Ok d) -> changes_non_volatile s nc = false ->
  denote_scope (rebuild s nc) = Ok d' -> env_for env (rebuild s nc) ->
  lookup ve x = Some e -> lookup d' x = Some q -> eval env e = Some q.
Proof.
  intros s0 ops s c ve nc d' env x e q He Hwf Hv Hd Hnv Hd' Henv Hx Hq.
  pose proof (exec_cache_ok ops s0 cempty (cache_ok_empty s0)) as Hc. rewrite He in Hc. cbn [fst snd] in Hc.
  rewrite (proj1 (volx_refines s c Hc)) in Hv.
  exact (volx_change s nc d' ve env x e q Hwf Hnv Hd Hd' Hv Henv Hx Hq).
Qed.

Lemma p_C13_volatile_expr_keys : forall s c, fst (vol s c) = rmap (map fst) (fst (volx s c)).
Proof. intros s c. unfold vol. destruct (volx s c). reflexivity. Qed.

Lemma p_C13_semantic_dependence_refuted :
  exists s x, wf_scope s = true /\ depends_on_volatile s x = true /\
    forall nc d', denote_scope (rebuild s nc) = Ok d' -> exists q, lookup d' x = Some q /\ (q == 0)%Q.
Proof.
  exists (SMapped (SDict [(0%N, 3#1)] [0%N]) [(1%N, ESub (EVar 0%N) (EVar 0%N))]), 1%N.
  split; [reflexivity|]. split; [reflexivity|].
  intros nc d'. cbn. destruct (lookup nc 0%N) as [v|]; intros H; injection H as <-; cbn;
    eexists; (split; [reflexivity|ring]).
Qed.

Lemma p_C13_volatile_total : forall s0 ops s c d,
  exec (s0, cempty) ops = (s, c) -> wf_scope s = true -> denote_scope s = Ok d ->
  exists ve, fst (volx s c) = Ok ve.
Proof.
  intros s0 ops s c d He Hwf Hd.
  pose proof (exec_cache_ok ops s0 cempty (cache_ok_empty s0)) as Hc. rewrite He in Hc. cbn [fst snd] in Hc.
  rewrite (proj1 (volx_refines s c Hc)). exact (pvolx_total s Hwf d Hd).
Qed.

Lemma p_C13_volatile_expr_satisfiable :
  let s := SMapped (SDict [(0%N, 1#1); (1%N, 2#1); (2%N, 3#1)] [2%N])
                   [(0%N, EAdd (EVar 2%N) (EVar 1%N)); (1%N, EConst (7#1))] in
  wf_scope s = true /\ changes_non_volatile s [(2%N, 10#1)] = false /\
  (exists ve e, pvolx s = Ok ve /\ lookup ve 0%N = Some e /\
     eval (lookup [(0%N, 1#1); (1%N, 2#1); (2%N, 3#1)]) e = Some (5#1) /\
     eval (lookup [(0%N, 1#1); (1%N, 2#1); (2%N, 10#1)]) e = Some (12#1)) /\
  (exists d', denote_scope (rebuild s [(2%N, 10#1)]) = Ok d' /\ lookup d' 0%N = Some (12#1)).
Proof. vm_compute. repeat split; eauto 6. Qed.

Lemma p_C13_eq_trans : forall a b c, wf_scope a = true -> wf_scope b = true -> wf_scope c = true ->
  scope_eqb a b = true -> scope_eqb b c = true -> scope_eqb a c = true.
Proof. intros a b c Ha Hb Hc. exact (scope_eqb_trans a Ha b c Hb Hc). Qed.

Lemma p_C13_change_eq : forall s c nc, wf_scope (rebuild s nc) = true ->
  scope_eqb (ch_scope (cc s c nc)) (rebuild s nc) = true.
Proof. intros s c nc H. rewrite (proj1 (cc_scope_rebuild s c nc)). now apply scope_eqb_refl. Qed.

Lemma p_C13_any_valid_cache_state : forall s c ops, cache_ok s c -> run (s, c) ops = run (s, cempty) ops.
Proof. intros s c ops H. rewrite (run_refines ops s c H), (run_refines ops s cempty (cache_ok_empty s)). reflexivity. Qed.

Lemma p_C13_shared_cache_state_valid :
  let sub := SMapped (SDict [(0%N, 1#1); (1%N, 2#1)] [0%N]) [(2%N, EAdd (EVar 0%N) (EVar 1%N))] in
  let j := SJoint [(2%N, sub); (0%N, sub)] in
  let c1 := snd (exec (j, cempty) [OGet 2%N; OVol]) in
  let shared := set_kids c1 [hd cempty (c_kids c1); hd cempty (c_kids c1)] in
  c_cache (hd cempty (c_kids c1)) = [(2%N, 3#1)] /\ cache_ok j shared.
Proof.
  intros sub j c1 shared. split; [vm_compute; reflexivity|].
  pose proof (exec_cache_ok [OGet 2%N; OVol] j cempty (cache_ok_empty j)) as H.
  assert (fst (exec (j, cempty) [OGet 2%N; OVol]) = j) as E by (vm_compute; reflexivity).
  rewrite E in H. fold c1 in H. apply cache_ok_joint in H. destruct H as (A & B & K1 & K2 & _).
  apply cache_ok_joint. subst shared. cbn [set_kids c_asd c_vc c_kids kids_ok hd tl snd]. split; [exact A|]. split; [exact B|]. split; [exact K1|]. split; [exact K1|exact I].
Qed.

Lemma p_C13_eq_hash : forall (hN : ident -> Z) (hQ : Q -> Z) (tup fset : list Z -> Z),
  (forall p q, Qeq_bool p q = true -> hQ p = hQ q) ->
  (forall l l', Permutation l l' -> fset l = fset l') ->
  forall a b, wf_scope a = true -> wf_scope b = true -> scope_eqb a b = true ->
  scope_hash hN hQ tup fset a = scope_hash hN hQ tup fset b.
Proof. intros hN hQ tup fset H1 H2 a b Ha Hb. exact (scope_eqb_hash hN hQ tup fset H1 H2 a Ha b Hb). Qed.

Lemma p_C13_eq_hash_cpython : forall hN tup a b, wf_scope a = true -> wf_scope b = true -> scope_eqb a b = true ->
  scope_hash hN red_hash tup cpy_fset a = scope_hash hN red_hash tup cpy_fset b.
Proof. intros hN tup. exact (p_C13_eq_hash hN red_hash tup cpy_fset red_hash_eq cpy_fset_perm). Qed.

Lemma p_C13_change_hash : forall hN hQ tup fset s c nc,
  scope_hash hN hQ tup fset (ch_scope (cc s c nc)) = scope_hash hN hQ tup fset (rebuild s nc).
Proof. intros. now rewrite (proj1 (cc_scope_rebuild s c nc)). Qed.

Lemma p_C13_eq_hash_nontrivial :
  let h := scope_hash (fun n => Z.of_N n) red_hash (fold_right (fun x acc => (acc * 31 + x)%Z) 7%Z) cpy_fset in
  h (SDict [(0%N, 1#1); (1%N, 2#1)] [0%N]) = h (SDict [(1%N, 4#2); (0%N, 2#2)] [0%N; 0%N]) /\
  h (SDict [(0%N, 1#1); (1%N, 2#1)] [0%N]) <> h (SDict [(0%N, 1#1); (1%N, 3#1)] [0%N]).
Proof. vm_compute. split; [reflexivity|discriminate]. Qed.

Lemma p_C13_overwrite_satisfiable :
  let st := exec (SMapped (SDict [(0%N, 1#1); (2%N, 3#1)] [2%N]) [(1%N, EAdd (EVar 2%N) (EVar 0%N))], cempty)
                 [OVol; OGet 1%N; OOverwrite [(2%N, 7#1)]; OVol] in
  fst (vol (fst st) (snd st)) = Ok [1%N] /\
  fst (vol (fst (exec st [OOverwrite [(1%N, 0#1)]])) (snd (exec st [OOverwrite [(1%N, 0#1)]]))) = Ok [].
Proof. vm_compute. auto. Qed.

Lemma p_C13_heap_queries : forall G s l st ops,
  reg_ok G s l -> sok G st -> forallb is_query ops = true ->
  hrun s l st ops = prun s ops /\ hrun s l st ops = run (s, cempty) ops.
Proof.
  intros G s l st ops Hr Hc Hq. pose proof (hrun_ok G ops s l st Hr Hc Hq) as E.
  split; [exact E|]. rewrite E. symmetry. apply run_fresh.
Qed.

Lemma p_C13_heap_store_valid : forall G s l st o,
  reg_ok G s l -> sok G st -> is_query o = true -> sok G (snd (hstep s l st o)).
Proof. intros G s l st o Hr Hc Hq. exact (proj2 (proj2 (hstep_ok G s l st o Hr Hc Hq))). Qed.

Lemma p_C13_heap_satisfiable :
  reg_ok ex_G ex_J ex_lJ /\
  n_cache (sget (snd (hget ex_J ex_lJ [] 3%N)) 1%N) = [(2%N, 3#1)] /\
  c_cache (hd cempty (c_kids (snd (get ex_J cempty 3%N)))) = [] /\
  hrun ex_J ex_lJ [] [OGet 3%N; OAsDict; OVol; OGet 2%N] = prun ex_J [OGet 3%N; OAsDict; OVol; OGet 2%N].
Proof. split; [exact ex_reg|]. vm_compute. auto. Qed.

Lemma p_C13_heap_change : forall nc s G l st nx, reg_ok G s l -> sok G st -> gb nx G ->
  let r := hcc s l st nx nc in
  exists G', gext G G' /\ reg_ok G' (hc_scope r) (hc_lab r) /\ sok G' (hc_st r) /\ gb (hc_next r) G' /\
             hc_scope r = rebuild s nc /\ hc_warned r = changes_non_volatile s nc /\
             (hc_same r = true -> rebuild s nc = s).
Proof. intros nc s G l st nx Hr Hc Hb. exact (hcc_ok nc s G l st nx Hr Hc Hb). Qed.

Lemma p_C13_heap_histories : forall G s l st nx ops, reg_ok G s l -> sok G st -> gb nx G ->
  hrun_full (s, l, st, nx) ops = prun s ops /\ hrun_full (s, l, st, nx) ops = run (s, cempty) ops.
Proof.
  intros G s l st nx ops Hr Hc Hb.
  pose proof (hrun_full_ok ops G (s, l, st, nx) (conj Hr (conj Hc Hb))) as E. cbn [fst] in E.
  split; [exact E|]. rewrite E. symmetry. apply run_fresh.
Qed.

Lemma p_C13_heap_histories_satisfiable :
  reg_ok ex_G ex_J ex_lJ /\ sok ex_G [] /\ gb 4 ex_G /\
  hc_lab (hcc ex_J ex_lJ [] 4 [(0%N, 9#1)]) =
    L 11 [L 5 [L 4 []]; L 7 [L 6 []]; L 10 [L 9 [L 8 []]]] /\
  hc_lab (hcc ex_J ex_lJ [] 4 [(7%N, 9#1)]) = L 4 [ex_lS; ex_lS; L 3 [ex_lS]] /\
  hrun_full (ex_J, ex_lJ, [], 4%N) [OGet 3%N; OVol; OChange [(0%N, 9#1)]; OAsDict; OOverwrite [(0%N, 0#1)]; OVol; OGet 3%N]
  = prun ex_J [OGet 3%N; OVol; OChange [(0%N, 9#1)]; OAsDict; OOverwrite [(0%N, 0#1)]; OVol; OGet 3%N].
Proof.
  split; [exact ex_reg|]. split; [apply sok_empty|]. split.
  - apply gb_forallb. reflexivity.
  - vm_compute. auto.
Qed.

Lemma p_C13_heap_admission : forall s l nx ops, lab_okb s l nx = true ->
  reg_ok (mkreg s l) s l /\ gb nx (mkreg s l) /\
  hrun_full (s, l, [], nx) ops = prun s ops /\ hrun_full (s, l, [], nx) ops = run (s, cempty) ops.
Proof.
  intros s l nx ops H. destruct (lab_okb_sound s l nx H) as [Hr Hb]. split; [exact Hr|]. split; [exact Hb|].
  exact (p_C13_heap_histories (mkreg s l) s l [] nx ops Hr (sok_empty _) Hb).
Qed.

Lemma p_C13_heap_admission_nontrivial :
  lab_okb ex_J ex_lJ 4 = true /\
  lab_okb (SJoint [(0%N, SDict [(0%N, 1#1)] []); (1%N, SDict [(1%N, 1#1)] [])]) (L 3 [L 1 []; L 1 []]) 4 = false.
Proof. split; vm_compute; reflexivity. Qed.

Lemma p_C13_typed_eq_strict : exists a b, twf a = true /\ twf b = true /\
  scope_eqb (erase_s a) (erase_s b) = true /\ tscope_eqb a b = false.
Proof.
  exists (TSMapped (TSDict [] []) [(0%N, TConst false 1)]), (TSMapped (TSDict [] []) [(0%N, TConst true 1)]).
  repeat split; reflexivity.
Qed.

Lemma p_C13_typed_eq_trans : forall a b c, twf a = true -> twf b = true -> twf c = true ->
  tscope_eqb a b = true -> tscope_eqb b c = true -> tscope_eqb a c = true.
Proof. intros a b c Ha Hb Hc. exact (tscope_eqb_trans a Ha b c Hb Hc). Qed.

Lemma p_C13_typed_wf : forall s, twf s = wf_scope (erase_s s).
Proof. intros s. symmetry. apply twf_erase. Qed.

Lemma p_C13_typed_change_eq : forall s c nc,
  fst (tcc s nc) = trebuild s nc /\
  twf (trebuild s nc) = twf s /\
  (twf s = true -> tscope_eqb (fst (tcc s nc)) (trebuild s nc) = true) /\
  erase_s (fst (tcc s nc)) = ch_scope (cc (erase_s s) c nc) /\
  erase_s (trebuild s nc) = rebuild (erase_s s) nc.
Proof.
  intros s c nc. split; [exact (proj1 (tcc_trebuild s nc))|]. split; [apply twf_trebuild|].
  split; [apply tcc_eq_trebuild|]. split; [apply tcc_erase_cc|apply erase_trebuild].
Qed.

Lemma p_C13_typed_satisfiable :
  let d := TSDict [(0%N, 1#1); (2%N, 3#1)] [2%N] in
  let a := toverwrite d [(0%N, (false, 1#1))] in
  let b := toverwrite d [(0%N, (true, 1#1))] in
  twf a = true /\ tscope_eqb a b = false /\ scope_eqb (erase_s a) (erase_s b) = true /\
  snd (tcc a [(2%N, 9#1)]) = false /\ tscope_eqb (fst (tcc a [(2%N, 9#1)])) (trebuild a [(2%N, 9#1)]) = true /\
  tscope_eqb (fst (tcc a [(2%N, 9#1)])) (trebuild b [(2%N, 9#1)]) = false /\
  tscope_eqb a d = false /\ tscope_eqb d (TSJoint [(0%N, d)]) = false.
Proof. vm_compute. repeat split; reflexivity. Qed.

Lemma p_C13_typed_eq_hash : forall hN hQ hK tup fset,
  (forall p q, Qeq_bool p q = true -> hQ p = hQ q) ->
  (forall f p q, Qeq_bool p q = true -> hK f p = hK f q) ->
  (forall l l', Permutation l l' -> fset l = fset l') ->
  forall a b, twf a = true -> twf b = true -> tscope_eqb a b = true ->
  tscope_hash hN hQ hK tup fset a = tscope_hash hN hQ hK tup fset b.
Proof. intros hN hQ hK tup fset H1 H2 H3 a b Ha Hb. exact (tscope_eqb_hash hN hQ hK tup fset H1 H2 H3 a Ha b Hb). Qed.


Lemma changed_vals_update vals nc : changed_vals vals nc = update_vals vals nc.
Proof.
  unfold changed_vals, update_vals. apply map_ext. intros [k v]. cbn. destruct (lookup nc k); reflexivity.
Qed.

Lemma built_from_changed_rebuild : forall s nc, built_from_changed s nc = rebuild s nc.
Proof.
  induction s using scope_ind'; intros nc; cbn.
  - now rewrite changed_vals_update.
  - now rewrite IHs.
  - now rewrite IHs.
  - f_equal. induction H as [|[x sub] l Hs Hl IH]; [reflexivity|]. cbn. now rewrite Hs, IH.
Qed.

Lemma built_from_changed_ok s c nc :
  changed_from nc s (built_from_changed s nc) /\ built_from_changed s nc = ch_scope (cc s c nc).
Proof.
  rewrite built_from_changed_rebuild. split; [apply rebuild_changed_from|].
  symmetry. exact (proj1 (cc_scope_rebuild s c nc)).
Qed.

(* ---------------------------------------------------------------- round 5 statements *)
(* the relation accepts the changed dictionary and rejects "a new value 0 keeps the old value" (a falsy-value slip in
   change_constants) as well as a changed volatile set *)
Lemma changed_from_example :
  changed_from [(0%N, 9#1)] (SMapped (SDict [(0%N, 1#1); (1%N, 2#1)] [0%N]) [(2%N, EVar 0%N)])
                            (SMapped (SDict [(0%N, 9#1); (1%N, 2#1)] [0%N]) [(2%N, EVar 0%N)]) /\
  ~ changed_from [(0%N, 0#1)] (SDict [(0%N, 1#1)] [0%N]) (SDict [(0%N, 1#1)] [0%N]) /\
  ~ changed_from [(0%N, 9#1)] (SDict [(0%N, 1#1)] [0%N]) (SDict [(0%N, 9#1)] []).
Proof.
  split; [|split].
  - cbn. repeat split. intros k. destruct k as [|[p|p|]]; reflexivity.
  - intros H. cbn in H. destruct H as (_ & _ & H). specialize (H 0%N). cbn in H. discriminate.
  - intros H. cbn in H. destruct H as (H & _). discriminate.
Qed.

Lemma typed_eq_sem a b : twf a = true -> tscope_eqb a b = true ->
  (forall x, mem x (domain (erase_s a)) = mem x (domain (erase_s b))) /\
  (forall x, depends_on_volatile (erase_s a) x = depends_on_volatile (erase_s b) x).
Proof.
  intros Ha He. apply scope_eqb_sem; [now rewrite twf_erase|now apply tscope_eqb_erase].
Qed.

Lemma typed_eq_same_mapping a b : twf a = true -> twf b = true -> tscope_eqb a b = true ->
  ((exists d, denote_scope (erase_s a) = Ok d) <-> (exists d, denote_scope (erase_s b) = Ok d)) /\
  forall d1 d2, denote_scope (erase_s a) = Ok d1 -> denote_scope (erase_s b) = Ok d2 ->
    forall x, match lookup d1 x, lookup d2 x with Some p, Some q => p == q | None, None => True | _, _ => False end.
Proof.
  intros Ha Hb He. apply scope_eqb_same_mapping; [now rewrite twf_erase|now rewrite twf_erase|now apply tscope_eqb_erase].
Qed.

(* non-vacuity of the eq theorems: two scopes that differ in insertion orders, in the representation of a constant (4/2 vs 2)
   and in a duplicated volatile name are == and denote the same mapping; changing one constant makes them unequal *)
Lemma eq_same_mapping_example :
  let a := SMapped (SDict [(0%N, 1#1); (1%N, 2#1)] [0%N]) [(2%N, EAdd (EVar 0%N) (EVar 1%N)); (3%N, EConst (4#2))] in
  let b := SMapped (SDict [(1%N, 4#2); (0%N, 1#1)] [0%N; 0%N]) [(3%N, EConst (2#1)); (2%N, EAdd (EVar 0%N) (EVar 1%N))] in
  let c := SMapped (SDict [(1%N, 2#1); (0%N, 5#1)] [0%N]) [(3%N, EConst (2#1)); (2%N, EAdd (EVar 0%N) (EVar 1%N))] in
  a <> b /\ wf_scope a = true /\ wf_scope b = true /\ scope_eqb a b = true /\ scope_eqb a c = false /\
  denote_scope a = Ok [(0%N, 1#1); (1%N, 2#1); (2%N, 3#1); (3%N, 4#2)] /\
  denote_scope b = Ok [(1%N, 4#2); (0%N, 1#1); (3%N, 2#1); (2%N, 6#2)].
Proof. split; [discriminate|]. vm_compute. repeat split; reflexivity. Qed.
