(* C13 — round 6: the value of ONE name, for scopes that need not denote a whole mapping.

   `Spec.denote_scope` is all-or-nothing: one mapping expression without a value (a missing name, a zero divisor) and the
   scope denotes nothing, and until round 5 the specification oracle then accepted ANY value a successful lookup returned.
   `value_at s x` is the value the statement gives the single name x: the expression of the innermost definition of x
   evaluated in the values of the outer scope (all variables read there), the index value for a loop index, the value in
   the sub scope a joint scope takes x from; `None` when that value does not exist.  It never looks at other names of the
   same layer, so it is defined on every scope.  ProofsR6: it is `lookup d x` when the scope denotes d, and it is what a
   lookup returns (`Ok q` iff `Some q`) on EVERY scope in every reachable cache state. *)
From Coq Require Import ZArith NArith QArith Bool List.
Require Import QV.C13.Model.
Import ListNotations.

Fixpoint value_at (s : scope) (x : ident) {struct s} : option Q :=
  match s with
  | SDict vals _ => lookup vals x
  | SMapped o m => match lookup m x with
                   | Some e => eval (fun y => value_at o y) e
                   | None => value_at o x
                   end
  | SRange i n v => if N.eqb x n then Some v else value_at i x
  | SJoint l =>
      (fix go (l : list (ident * scope)) : option Q :=
         match l with
         | [] => None
         | (y, sub) :: r => if N.eqb y x then value_at sub x else go r
         end) l
  end.

(* a call that raises has no value *)
Definition to_opt (r : result Q) : option Q := match r with Ok q => Some q | Err _ => None end.

(* executable judgement used by check_spec on a scope that does not denote: a returned value of x is the value of x.
   One-sided on purpose: where `value_at` is None the implementation may still return a value, because sympy cancels a
   zero divisor out of the expression text before the model sees the tree ((p*p)/p at p = 0 is 0 for the code, without
   a value here); the model itself returns nothing there (C13_lookup_partial), check_corr accepts the same direction *)
Definition value_right (s : scope) (x : ident) (v : Q) : bool :=
  match value_at s x with Some w => Qeq_bool v w | None => true end.
Definition entries_right (s : scope) (d : list (ident * Q)) : bool :=
  forallb (fun kv => value_right s (fst kv) (snd kv)) d.
