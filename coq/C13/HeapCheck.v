(* C13 — executable admission test for a labelled scope (definitions only): the labelling handed over by the harness
   (ids of the Python objects it built: equal ids = one object) induces a registry; it is accepted when equal ids
   carry the very same structure and every id is below the allocation counter.  ProofsHeapCheck.v: acceptance implies
   the hypotheses of C13_heap_histories. *)
From Coq Require Import ZArith NArith QArith Bool List.
Require Import QV.C13.Model QV.C13.Pure QV.C13.Heap.
Import ListNotations.

Definition Q_beq (p q : Q) : bool := Z.eqb (Qnum p) (Qnum q) && Pos.eqb (Qden p) (Qden q).

Fixpoint expr_beq (a b : expr) : bool :=
  match a, b with
  | EConst p, EConst q => Q_beq p q
  | EVar x, EVar y => N.eqb x y
  | EAdd a1 a2, EAdd b1 b2 | ESub a1 a2, ESub b1 b2 | EMul a1 a2, EMul b1 b2
  | EMin a1 a2, EMin b1 b2 | EMax a1 a2, EMax b1 b2 | EDiv a1 a2, EDiv b1 b2 => expr_beq a1 b1 && expr_beq a2 b2
  | EDivC a1 p, EDivC b1 q => expr_beq a1 b1 && Q_beq p q
  | _, _ => false
  end.

Fixpoint list_beq {A} (e : A -> A -> bool) (a b : list A) : bool :=
  match a, b with
  | [], [] => true
  | x :: a', y :: b' => e x y && list_beq e a' b'
  | _, _ => false
  end.

(* syntactic identity of two structures *)
Fixpoint scope_beq (a b : scope) {struct a} : bool :=
  match a, b with
  | SDict v1 l1, SDict v2 l2 =>
      list_beq (fun p q => N.eqb (fst p) (fst q) && Q_beq (snd p) (snd q)) v1 v2 && list_beq N.eqb l1 l2
  | SMapped o1 m1, SMapped o2 m2 =>
      scope_beq o1 o2 && list_beq (fun p q => N.eqb (fst p) (fst q) && expr_beq (snd p) (snd q)) m1 m2
  | SRange i1 n1 v1, SRange i2 n2 v2 => scope_beq i1 i2 && N.eqb n1 n2 && Q_beq v1 v2
  | SJoint l1, SJoint l2 =>
      (fix go (l1 l2 : list (ident * scope)) : bool :=
         match l1, l2 with
         | [], [] => true
         | (k1, s1) :: r1, (k2, s2) :: r2 => N.eqb k1 k2 && scope_beq s1 s2 && go r1 r2
         | _, _ => false
         end) l1 l2
  | _, _ => false
  end.

(* the registry induced by a labelled structure: every position with the structure found there *)
Fixpoint mkreg (s : scope) (l : lab) {struct s} : list (N * scope) :=
  (lid l, s) ::
  match s with
  | SDict _ _ => []
  | SMapped o _ => mkreg o (lkid0 l)
  | SRange i _ _ => mkreg i (lkid0 l)
  | SJoint es =>
      (fix go (es : list (ident * scope)) (ls : list lab) : list (N * scope) :=
         match es with
         | [] => []
         | (_, sub) :: es' => mkreg sub (hd ldummy ls) ++ go es' (tl ls)
         end) es (lkids l)
  end.

Definition reg_consistent (G : list (N * scope)) : bool :=
  forallb (fun p => match lookup G (fst p) with Some s => scope_beq s (snd p) | None => false end) G.

Definition lab_okb (s : scope) (l : lab) (nx : N) : bool :=
  let G := mkreg s l in reg_consistent G && forallb (fun p => N.ltb (fst p) nx) G.
