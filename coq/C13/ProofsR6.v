(* C13 — round 6: the computed denotation is the mapping the property statement describes (`SpecDenote.is_mapping_of`),
   and it is the only one; lookups / views of the model against that relation. *)
From Coq Require Import ZArith NArith QArith Bool List Lia.
Require Import QV.C13.Model QV.C13.Pure QV.C13.Spec QV.C13.SpecDenote QV.C13.Proofs QV.C13.ProofsViews QV.C13.ProofsCache
               QV.C13.ProofsFinal QV.C13.ProofsEq QV.C13.ProofsEqVal.
Import ListNotations.

Definition mapping_joint :=
  fix go (l : list (ident * scope)) (f : pmap) {struct l} : Prop :=
    match l with
    | [] => forall x, f x = None
    | (y, sub) :: r =>
        exists (g : pmap) (q : Q) (f' : pmap),
          is_mapping_of sub g /\ g y = Some q /\ go r f' /\
          forall x, f x = if N.eqb y x then Some q else f' x
    end.

Lemma is_mapping_joint l f : is_mapping_of (SJoint l) f = mapping_joint l f.
Proof. reflexivity. Qed.

(* the computed dictionary has the property *)
Lemma denote_is_mapping : forall s, wf_scope s = true -> forall d, denote_scope s = Ok d -> is_mapping_of s (lookup d).
Proof.
  induction s using scope_ind'; intros Hwf d Hd.
  - cbn in Hd. injection Hd as <-. cbn. reflexivity.
  - cbn [wf_scope] in Hwf. apply andb_prop in Hwf as [Hwo Hwm].
    cbn [denote_scope] in Hd. destruct (denote_scope s) as [d0|] eqn:Ed0; [|discriminate].
    destruct (eval_all d0 m) as [mv|] eqn:Emv; [|discriminate]. injection Hd as <-.
    destruct (eval_all_spec _ _ _ Emv) as [K1 K2].
    cbn [is_mapping_of]. exists (lookup d0). split; [apply IHs; auto|]. split.
    + intros x e He. exact (proj2 (K2 x) e He).
    + intros x. rewrite lookup_override by (rewrite (nodup_keys_fst mv m K1); exact Hwm).
      destruct (K2 x) as [K3 K4]. rewrite K3. destruct (lookup m x) as [e|]; [|reflexivity].
      destruct (K4 e eq_refl) as [v Hv]. now rewrite Hv.
  - cbn in Hd. destruct (denote_scope s) as [d0|] eqn:Ed0; [|discriminate]. cbn in Hd. injection Hd as <-.
    cbn [is_mapping_of]. exists (lookup d0). split; [apply IHs; auto|].
    intros x. rewrite lookup_dict_set, (N.eqb_sym n x). reflexivity.
  - cbn [wf_scope] in Hwf. apply andb_prop in Hwf as [_ Hwl].
    change (denote_scope (SJoint l)) with (denote_joint l) in Hd. rewrite is_mapping_joint.
    revert d Hd. induction H as [|[y sub] l Hs Hl IH]; intros d Hd.
    + cbn in Hd. injection Hd as <-. cbn. reflexivity.
    + cbn [forallb snd] in Hwl. apply andb_prop in Hwl as [Hws Hwl].
      cbn [denote_joint] in Hd. destruct (denote_scope sub) as [ds|] eqn:Eds; [|discriminate].
      destruct (lookup ds y) as [v|] eqn:Ey; [|discriminate].
      destruct (denote_joint l) as [r|] eqn:Er; [|discriminate]. injection Hd as <-.
      cbn [mapping_joint]. exists (lookup ds), v, (lookup r). cbn [snd] in Hs.
      split; [apply Hs; auto|]. split; [exact Ey|]. split; [apply IH; auto|].
      intros x. reflexivity.
Qed.

(* any mapping with the property is (pointwise) the computed dictionary, which exists *)
Lemma is_mapping_denote : forall s, wf_scope s = true -> forall f, is_mapping_of s f ->
  exists d, denote_scope s = Ok d /\ forall x, f x = lookup d x.
Proof.
  induction s using scope_ind'; intros Hwf f Hf.
  - exists vals. split; [reflexivity|exact Hf].
  - cbn [wf_scope] in Hwf. apply andb_prop in Hwf as [Hwo Hwm].
    cbn [is_mapping_of] in Hf. destruct Hf as [g [Hg [Hev Hfx]]].
    destruct (IHs Hwo g Hg) as [d0 [Hd0 Hgd]].
    assert (forall e, eval g e = eval (lookup d0) e) as Heq by (intros e; apply eval_agree; intros y _; apply Hgd).
    destruct (eval_all_total d0 m) as [mv Hmv].
    { intros x e Hi. rewrite <- Heq. apply (Hev x). apply In_lookup; auto. }
    exists (override d0 mv). split; [cbn [denote_scope]; now rewrite Hd0, Hmv|].
    destruct (eval_all_spec _ _ _ Hmv) as [K1 K2].
    intros x. rewrite lookup_override by (rewrite (nodup_keys_fst mv m K1); exact Hwm).
    destruct (K2 x) as [K3 K4]. rewrite K3, Hfx. destruct (lookup m x) as [e|]; [|apply Hgd].
    destruct (K4 e eq_refl) as [v Hv]. now rewrite Heq, Hv.
  - cbn [wf_scope] in Hwf. cbn [is_mapping_of] in Hf. destruct Hf as [g [Hg Hfx]].
    destruct (IHs Hwf g Hg) as [d0 [Hd0 Hgd]].
    exists (dict_set d0 n v). split; [cbn [denote_scope]; now rewrite Hd0|].
    intros x. rewrite lookup_dict_set, (N.eqb_sym n x), Hfx. destruct (N.eqb x n); [reflexivity|apply Hgd].
  - cbn [wf_scope] in Hwf. apply andb_prop in Hwf as [_ Hwl].
    change (denote_scope (SJoint l)) with (denote_joint l). rewrite is_mapping_joint in Hf.
    revert f Hf. induction H as [|[y sub] l Hs Hl IH]; intros f Hf.
    + exists []. split; [reflexivity|exact Hf].
    + cbn [forallb snd] in Hwl. apply andb_prop in Hwl as [Hws Hwl].
      cbn [mapping_joint] in Hf. destruct Hf as [g [q [f' [Hg [Hy [Hr Hfx]]]]]].
      cbn [snd] in Hs. destruct (Hs Hws g Hg) as [ds [Hds Hgd]].
      destruct (IH Hwl f' Hr) as [r [Hdr Hfr]].
      exists ((y, q) :: r). split.
      * cbn [denote_joint]. rewrite Hds, <- Hgd, Hy, Hdr. reflexivity.
      * intros x. rewrite Hfx. cbn [lookup]. destruct (N.eqb y x); [reflexivity|apply Hfr].
Qed.

Lemma p_C13_denotation_meaning : forall s, wf_scope s = true ->
  (forall d, denote_scope s = Ok d -> is_mapping_of s (lookup d)) /\
  (forall f, is_mapping_of s f -> exists d, denote_scope s = Ok d /\ forall x, f x = lookup d x) /\
  (forall f f', is_mapping_of s f -> is_mapping_of s f' -> forall x, f x = f' x).
Proof.
  intros s Hwf. split; [exact (denote_is_mapping s Hwf)|]. split; [exact (is_mapping_denote s Hwf)|].
  intros f f' Hf Hf' x.
  destruct (is_mapping_denote s Hwf f Hf) as [d [Hd H1]]. destruct (is_mapping_denote s Hwf f' Hf') as [d' [Hd' H2]].
  rewrite Hd in Hd'. injection Hd' as <-. now rewrite H1, H2.
Qed.

(* the access paths of the model, in every reachable cache state, against the relation *)
Lemma p_C13_lookup_meaning : forall s0 ops s c f,
  exec (s0, cempty) ops = (s, c) -> wf_scope s = true -> is_mapping_of s f ->
  (forall x, fst (get s c x) = of_opt (f x)) /\
  (forall x, contains s x = is_some (f x)) /\
  exists d', fst (as_dict s c) = Ok d' /\ fst (items s c) = Ok d' /\ forall x, lookup d' x = f x.
Proof.
  intros s0 ops s c f He Hwf Hf. destruct (is_mapping_denote s Hwf f Hf) as [d [Hd Hfd]].
  destruct (views_reachable s0 ops s c d He Hwf Hd) as [Hg [Hc [_ [_ [_ [d' [Ha [Hi [_ Hl]]]]]]]]].
  split; [intros x; now rewrite Hfd|]. split; [intros x; now rewrite Hfd|].
  exists d'. split; [exact Ha|]. split; [exact Hi|]. intros x. now rewrite Hl, Hfd.
Qed.

(* non-vacuity, on the two name-coincidence classes the statement's wording is about:
   a swap a <- b, b <- a over {a: 1, b: 2} denotes {a: 2, b: 1}; the reading "one after the other in the growing
   dictionary" ({a: 2, b: 2}, class of seed C13-9) does not have the property;
   overwriting one name twice: the innermost (last) value wins (class of seed C13-10) *)
Lemma p_C13_denotation_meaning_nontrivial :
  let swap := SMapped (SDict [(0%N, 1#1); (1%N, 2#1)] [0%N]) [(0%N, EVar 1%N); (1%N, EVar 0%N)] in
  let twice := overwritten (overwritten (SDict [(0%N, 1#1); (1%N, 2#1)] [0%N]) [(0%N, 5#1)]) [(0%N, 6#1)] in
  wf_scope swap = true /\ is_mapping_of swap (lookup [(0%N, 2#1); (1%N, 1#1)]) /\
  ~ is_mapping_of swap (lookup [(0%N, 2#1); (1%N, 2#1)]) /\
  wf_scope twice = true /\ (forall f, is_mapping_of twice f -> f 0%N = Some (6#1) /\ f 1%N = Some (2#1)).
Proof.
  cbv zeta. split; [reflexivity|]. split; [apply denote_is_mapping; reflexivity|]. split.
  - intros H. eapply is_mapping_denote in H; [|reflexivity]. destruct H as [d [Hd Hx]].
    vm_compute in Hd. injection Hd as <-. specialize (Hx 1%N). vm_compute in Hx. discriminate.
  - split; [reflexivity|]. intros f H. eapply is_mapping_denote in H; [|reflexivity]. destruct H as [d [Hd Hx]].
    vm_compute in Hd. injection Hd as <-. split; rewrite Hx; reflexivity.
Qed.
