(* C13 — round 6: the computed denotation is the mapping the property statement describes (`SpecDenote.is_mapping_of`),
   and it is the only one; lookups / views of the model against that relation. *)
From Coq Require Import ZArith NArith QArith Bool List Lia.
Require Import QV.C13.Model QV.C13.Pure QV.C13.Spec QV.C13.SpecDenote QV.C13.Proofs QV.C13.ProofsViews QV.C13.ProofsCache
               QV.C13.ProofsFinal QV.C13.ProofsEq QV.C13.ProofsEqVal.
Import ListNotations.

Definition mapping_joint :=
  fix go (l : list (ident * scope)) (f : pmap) {struct l} : Prop :=
    match l with
    | [] => forall x, f x = None
    | (y, sub) :: r =>
        exists (g : pmap) (q : Q) (f' : pmap),
          is_mapping_of sub g /\ g y = Some q /\ go r f' /\
          forall x, f x = if N.eqb y x then Some q else f' x
    end.

Lemma is_mapping_joint l f : is_mapping_of (SJoint l) f = mapping_joint l f.
Proof. reflexivity. Qed.

(* the computed dictionary has the property *)
Lemma denote_is_mapping : forall s, wf_scope s = true -> forall d, denote_scope s = Ok d -> is_mapping_of s (lookup d).
Proof.
  induction s using scope_ind'; intros Hwf d Hd.
  - cbn in Hd. injection Hd as <-. cbn. reflexivity.
  - cbn [wf_scope] in Hwf. apply andb_prop in Hwf as [Hwo Hwm].
    cbn [denote_scope] in Hd. destruct (denote_scope s) as [d0|] eqn:Ed0; [|discriminate].
    destruct (eval_all d0 m) as [mv|] eqn:Emv; [|discriminate]. injection Hd as <-.
    destruct (eval_all_spec _ _ _ Emv) as [K1 K2].
    cbn [is_mapping_of]. exists (lookup d0). split; [apply IHs; auto|]. split.
    + intros x e He. exact (proj2 (K2 x) e He).
    + intros x. rewrite lookup_override by (rewrite (nodup_keys_fst mv m K1); exact Hwm).
      destruct (K2 x) as [K3 K4]. rewrite K3. destruct (lookup m x) as [e|]; [|reflexivity].
      destruct (K4 e eq_refl) as [v Hv]. now rewrite Hv.
  - cbn in Hd. destruct (denote_scope s) as [d0|] eqn:Ed0; [|discriminate]. cbn in Hd. injection Hd as <-.
    cbn [is_mapping_of]. exists (lookup d0). split; [apply IHs; auto|].
    intros x. rewrite lookup_dict_set, (N.eqb_sym n x). reflexivity.
  - cbn [wf_scope] in Hwf. apply andb_prop in Hwf as [_ Hwl].
    change (denote_scope (SJoint l)) with (denote_joint l) in Hd. rewrite is_mapping_joint.
    revert d Hd. induction H as [|[y sub] l Hs Hl IH]; intros d Hd.
    + cbn in Hd. injection Hd as <-. cbn. reflexivity.
    + cbn [forallb snd] in Hwl. apply andb_prop in Hwl as [Hws Hwl].
      cbn [denote_joint] in Hd. destruct (denote_scope sub) as [ds|] eqn:Eds; [|discriminate].
      destruct (lookup ds y) as [v|] eqn:Ey; [|discriminate].
      destruct (denote_joint l) as [r|] eqn:Er; [|discriminate]. injection Hd as <-.
      cbn [mapping_joint]. exists (lookup ds), v, (lookup r). cbn [snd] in Hs.
      split; [apply Hs; auto|]. split; [exact Ey|]. split; [apply IH; auto|].
      intros x. reflexivity.
Qed.

(* any mapping with the property is (pointwise) the computed dictionary, which exists *)
Lemma is_mapping_denote : forall s, wf_scope s = true -> forall f, is_mapping_of s f ->
  exists d, denote_scope s = Ok d /\ forall x, f x = lookup d x.
Proof.
  induction s using scope_ind'; intros Hwf f Hf.
  - exists vals. split; [reflexivity|exact Hf].
  - cbn [wf_scope] in Hwf. apply andb_prop in Hwf as [Hwo Hwm].
    cbn [is_mapping_of] in Hf. destruct Hf as [g [Hg [Hev Hfx]]].
    destruct (IHs Hwo g Hg) as [d0 [Hd0 Hgd]].
    assert (forall e, eval g e = eval (lookup d0) e) as Heq by (intros e; apply eval_agree; intros y _; apply Hgd).
    destruct (eval_all_total d0 m) as [mv Hmv].
    { intros x e Hi. rewrite <- Heq. apply (Hev x). apply In_lookup; auto. }
    exists (override d0 mv). split; [cbn [denote_scope]; now rewrite Hd0, Hmv|].
    destruct (eval_all_spec _ _ _ Hmv) as [K1 K2].
    intros x. rewrite lookup_override by (rewrite (nodup_keys_fst mv m K1); exact Hwm).
    destruct (K2 x) as [K3 K4]. rewrite K3, Hfx. destruct (lookup m x) as [e|]; [|apply Hgd].
    destruct (K4 e eq_refl) as [v Hv]. now rewrite Heq, Hv.
  - cbn [wf_scope] in Hwf. cbn [is_mapping_of] in Hf. destruct Hf as [g [Hg Hfx]].
    destruct (IHs Hwf g Hg) as [d0 [Hd0 Hgd]].
    exists (dict_set d0 n v). split; [cbn [denote_scope]; now rewrite Hd0|].
    intros x. rewrite lookup_dict_set, (N.eqb_sym n x), Hfx. destruct (N.eqb x n); [reflexivity|apply Hgd].
  - cbn [wf_scope] in Hwf. apply andb_prop in Hwf as [_ Hwl].
    change (denote_scope (SJoint l)) with (denote_joint l). rewrite is_mapping_joint in Hf.
    revert f Hf. induction H as [|[y sub] l Hs Hl IH]; intros f Hf.
    + exists []. split; [reflexivity|exact Hf].
    + cbn [forallb snd] in Hwl. apply andb_prop in Hwl as [Hws Hwl].
      cbn [mapping_joint] in Hf. destruct Hf as [g [q [f' [Hg [Hy [Hr Hfx]]]]]].
      cbn [snd] in Hs. destruct (Hs Hws g Hg) as [ds [Hds Hgd]].
      destruct (IH Hwl f' Hr) as [r [Hdr Hfr]].
      exists ((y, q) :: r). split.
      * cbn [denote_joint]. rewrite Hds, <- Hgd, Hy, Hdr. reflexivity.
      * intros x. rewrite Hfx. cbn [lookup]. destruct (N.eqb y x); [reflexivity|apply Hfr].
Qed.

Lemma p_C13_denotation_meaning : forall s, wf_scope s = true ->
  (forall d, denote_scope s = Ok d -> is_mapping_of s (lookup d)) /\
  (forall f, is_mapping_of s f -> exists d, denote_scope s = Ok d /\ forall x, f x = lookup d x) /\
  (forall f f', is_mapping_of s f -> is_mapping_of s f' -> forall x, f x = f' x).
Proof.
  intros s Hwf. split; [exact (denote_is_mapping s Hwf)|]. split; [exact (is_mapping_denote s Hwf)|].
  intros f f' Hf Hf' x.
  destruct (is_mapping_denote s Hwf f Hf) as [d [Hd H1]]. destruct (is_mapping_denote s Hwf f' Hf') as [d' [Hd' H2]].
  rewrite Hd in Hd'. injection Hd' as <-. now rewrite H1, H2.
Qed.

(* the access paths of the model, in every reachable cache state, against the relation *)
Lemma p_C13_lookup_meaning : forall s0 ops s c f,
  exec (s0, cempty) ops = (s, c) -> wf_scope s = true -> is_mapping_of s f ->
  (forall x, fst (get s c x) = of_opt (f x)) /\
  (forall x, contains s x = is_some (f x)) /\
  exists d', fst (as_dict s c) = Ok d' /\ fst (items s c) = Ok d' /\ forall x, lookup d' x = f x.
Proof.
  intros s0 ops s c f He Hwf Hf. destruct (is_mapping_denote s Hwf f Hf) as [d [Hd Hfd]].
  destruct (views_reachable s0 ops s c d He Hwf Hd) as [Hg [Hc [_ [_ [_ [d' [Ha [Hi [_ Hl]]]]]]]]].
  split; [intros x; now rewrite Hfd|]. split; [intros x; now rewrite Hfd|].
  exists d'. split; [exact Ha|]. split; [exact Hi|]. intros x. now rewrite Hl, Hfd.
Qed.

(* non-vacuity, on the two name-coincidence classes the statement's wording is about:
   a swap a <- b, b <- a over {a: 1, b: 2} denotes {a: 2, b: 1}; the reading "one after the other in the growing
   dictionary" ({a: 2, b: 2}, class of seed C13-9) does not have the property;
   overwriting one name twice: the innermost (last) value wins (class of seed C13-10) *)
Lemma p_C13_denotation_meaning_nontrivial :
  let swap := SMapped (SDict [(0%N, 1#1); (1%N, 2#1)] [0%N]) [(0%N, EVar 1%N); (1%N, EVar 0%N)] in
  let twice := overwritten (overwritten (SDict [(0%N, 1#1); (1%N, 2#1)] [0%N]) [(0%N, 5#1)]) [(0%N, 6#1)] in
  wf_scope swap = true /\ is_mapping_of swap (lookup [(0%N, 2#1); (1%N, 1#1)]) /\
  ~ is_mapping_of swap (lookup [(0%N, 2#1); (1%N, 2#1)]) /\
  wf_scope twice = true /\ (forall f, is_mapping_of twice f -> f 0%N = Some (6#1) /\ f 1%N = Some (2#1)).
Proof.
  cbv zeta. split; [reflexivity|]. split; [apply denote_is_mapping; reflexivity|]. split.
  - intros H. eapply is_mapping_denote in H; [|reflexivity]. destruct H as [d [Hd Hx]].
    vm_compute in Hd. injection Hd as <-. specialize (Hx 1%N). vm_compute in Hx. discriminate.
  - split; [reflexivity|]. intros f H. eapply is_mapping_denote in H; [|reflexivity]. destruct H as [d [Hd Hx]].
    vm_compute in Hd. injection Hd as <-. split; rewrite Hx; reflexivity.
Qed.

(* ================================================================ single names on scopes that need not denote *)
Require Import QV.C13.SpecLazy.

Lemma pfold_inv g : forall xs acc d, pfold g xs acc = Ok d -> forall y, In y xs -> exists v, g y = Ok v.
Proof.
  induction xs as [|z xs IH]; intros acc d H y Hy; [destruct Hy|].
  cbn in H. destruct (g z) as [v|] eqn:Ez; [|discriminate].
  destruct Hy as [<-|Hy]; [eauto|]. eapply IH; eauto.
Qed.

Lemma pfold_err g : forall xs acc er, pfold g xs acc = Err er -> exists y er', In y xs /\ g y = Err er'.
Proof.
  induction xs as [|z xs IH]; intros acc er H; [discriminate|].
  cbn in H. destruct (g z) as [v|er'] eqn:Ez.
  - destruct (IH _ _ H) as [y [e' [Hy Hg]]]. exists y, e'. split; [now right|exact Hg].
  - exists z, er'. split; [now left|exact Ez].
Qed.

Lemma eval_none_var env e y : In y (free_vars e) -> env y = None -> eval env e = None.
Proof.
  intros Hy Hn. destruct (eval env e) as [v|] eqn:E; [|reflexivity].
  destruct (eval_some_vars _ _ _ E y Hy) as [w Hw]. congruence.
Qed.

(* a cache-free lookup returns the value of the name, on every scope *)
Lemma pget_value_at : forall s x, to_opt (pget s x) = value_at s x.
Proof.
  induction s using scope_ind'; intros x.
  - cbn. destruct (lookup vals x); reflexivity.
  - cbn [pget value_at]. destruct (lookup m x) as [e|]; [|apply IHs].
    destruct (pfold (pget s) (vars e) []) as [env|er] eqn:Ef.
    + pose proof (pfold_inv _ _ _ _ Ef) as Hall. rewrite (pfold_ok _ _ [] Hall) in Ef. injection Ef as <-.
      cbn [app]. unfold eval_env.
      rewrite (eval_agree (lookup (vals_of (pget s) (vars e))) (fun y => value_at s y) e).
      * destruct (eval (fun y => value_at s y) e); reflexivity.
      * intros y Hy. rewrite lookup_vals_of.
        assert (In y (vars e)) as Hv by (apply in_vars, Hy).
        assert (mem y (vars e) = true) as -> by (apply mem_spec, Hv).
        destruct (Hall y Hv) as [w Hw]. unfold val_of. rewrite Hw, <- IHs, Hw. reflexivity.
    + destruct (pfold_err _ _ _ _ Ef) as [y [er' [Hy Hg]]]. cbn [to_opt].
      symmetry. apply (eval_none_var _ e y); [apply in_vars, Hy|]. now rewrite <- IHs, Hg.
  - cbn [pget value_at]. destruct (N.eqb x n); [reflexivity|apply IHs].
  - cbn [pget value_at]. induction H as [|[y sub] l Hs Hl IH]; [reflexivity|].
    destruct (N.eqb y x); [apply Hs|apply IH].
Qed.

(* when the scope denotes, it is the entry of the denoted mapping *)
Lemma value_at_denote s d x : wf_scope s = true -> denote_scope s = Ok d -> value_at s x = lookup d x.
Proof.
  intros Hwf Hd. rewrite <- pget_value_at, (pget_denote s Hwf d Hd x). destruct (lookup d x); reflexivity.
Qed.

(* a dictionary view that returns holds the value of each of its names (cache-free path) *)
Lemma pasd_entries : forall s d, pasd s = Ok d -> forall x w, lookup d x = Some w -> value_at s x = Some w.
Proof.
  induction s using scope_ind'; intros d Hd x w Hx.
  - cbn in Hd. injection Hd as <-. exact Hx.
  - cbn [pasd] in Hd. destruct (pkeys s) as [ks|]; [|discriminate].
    rewrite <- pget_value_at.
    rewrite (pfold_lookup _ _ _ _ Hd (fun y u (Hl : lookup [] y = Some u) => ltac:(discriminate)) x w Hx). reflexivity.
  - cbn [pasd] in Hd. destruct (pasd s) as [di|] eqn:Ei; [|discriminate]. cbn in Hd. injection Hd as <-.
    rewrite lookup_dict_set in Hx. cbn [value_at]. rewrite (N.eqb_sym x n).
    destruct (N.eqb n x); [exact Hx|]. exact (IHs di eq_refl x w Hx).
  - cbn [pasd] in Hd. rewrite <- pget_value_at.
    rewrite (pfold_lookup _ _ _ _ Hd (fun y u (Hl : lookup [] y = Some u) => ltac:(discriminate)) x w Hx). reflexivity.
Qed.

Lemma pitems_entries s d : pitems s = Ok d -> forall x v, lookup d x = Some v -> value_at s x = Some v.
Proof.
  destruct s; try exact (pasd_entries _ d).
  cbn [pitems]. intros Hd x v Hx. rewrite <- pget_value_at.
  rewrite (pfold_lookup _ _ _ _ Hd (fun y w (Hl : lookup [] y = Some w) => ltac:(discriminate)) x v Hx). reflexivity.
Qed.

(* the same in every reachable cache state *)
Lemma p_C13_lookup_partial : forall s0 ops s c,
  exec (s0, cempty) ops = (s, c) ->
  (forall x, to_opt (fst (get s c x)) = value_at s x) /\
  (forall d, fst (as_dict s c) = Ok d -> forall x v, lookup d x = Some v -> value_at s x = Some v) /\
  (forall d, fst (items s c) = Ok d -> forall x v, lookup d x = Some v -> value_at s x = Some v) /\
  (forall d, wf_scope s = true -> denote_scope s = Ok d -> forall x, value_at s x = lookup d x).
Proof.
  intros s0 ops s c He.
  pose proof (exec_cache_ok ops s0 cempty (cache_ok_empty s0)) as Hc. rewrite He in Hc. cbn [fst snd] in Hc.
  split; [|split; [|split]].
  - intros x. rewrite (proj1 (get_refines s c x Hc)). apply pget_value_at.
  - intros d Hd. rewrite (proj1 (proj2 (keys_asd_refines s c Hc))) in Hd. exact (pasd_entries s d Hd).
  - intros d Hd. rewrite (proj1 (items_refines s c Hc)) in Hd. exact (pitems_entries s d Hd).
  - intros d Hwf Hd x. exact (value_at_denote s d x Hwf Hd).
Qed.

(* non-vacuity: a layer with an expression over a name nobody provides (p3 = p5 + 1) above a swap: the scope denotes
   nothing, p3 has no value, the swapped names have theirs; a lookup on the fresh objects returns them *)
Lemma p_C13_lookup_partial_nontrivial :
  let s := SMapped (SMapped (SDict [(0%N, 1#1); (1%N, 2#1)] [0%N]) [(0%N, EVar 1%N); (1%N, EVar 0%N)])
                   [(3%N, EAdd (EVar 5%N) (EConst (1#1))); (2%N, EAdd (EVar 0%N) (EVar 0%N))] in
  denote_scope s = Err EMissing /\ value_at s 3%N = None /\ value_at s 0%N = Some (2#1) /\
  value_at s 1%N = Some (1#1) /\ value_at s 2%N = Some (4#1) /\
  fst (get s cempty 2%N) = Ok (4#1) /\ fst (get s cempty 3%N) = Err EMissing.
Proof. cbv zeta. repeat split; vm_compute; reflexivity. Qed.
