(* C13 — the admission test of HeapCheck.v is sound: an accepted labelling satisfies the hypotheses of
   C13_heap_histories, so the heap run that check_corr compares with the implementation is, by theorem, the run of the
   tree model and of the cache-free paths. *)
From Coq Require Import ZArith NArith QArith Bool List Lia.
Require Import QV.C13.Model QV.C13.Pure QV.C13.Spec QV.C13.Proofs QV.C13.ProofsViews QV.C13.ProofsVolX QV.C13.Heap QV.C13.HeapCC QV.C13.HeapCheck
               QV.C13.ProofsHeap QV.C13.ProofsHeapCC.
Import ListNotations.

Lemma Q_beq_eq p q : Q_beq p q = true -> p = q.
Proof.
  destruct p, q. unfold Q_beq. cbn. intros H. apply andb_prop in H as [H1 H2].
  apply Z.eqb_eq in H1. apply Pos.eqb_eq in H2. now subst.
Qed.

Lemma expr_beq_eq : forall a b, expr_beq a b = true -> a = b.
Proof.
  induction a; intros [] H; cbn in H; try discriminate;
    try (apply andb_prop in H as [H1 H2]; now rewrite (IHa1 _ H1), (IHa2 _ H2)).
  - now rewrite (Q_beq_eq _ _ H).
  - apply N.eqb_eq in H. now subst.
  - apply andb_prop in H as [H1 H2]. now rewrite (IHa _ H1), (Q_beq_eq _ _ H2).
Qed.

Lemma list_beq_eq {A} (e : A -> A -> bool) : (forall x y, e x y = true -> x = y) ->
  forall a b, list_beq e a b = true -> a = b.
Proof.
  intros He. induction a as [|x a IH]; intros [|y b] H; cbn in H; try discriminate; [reflexivity|].
  apply andb_prop in H as [H1 H2]. now rewrite (He _ _ H1), (IH _ H2).
Qed.

Lemma scope_beq_eq : forall a b, scope_beq a b = true -> a = b.
Proof.
  induction a using scope_ind'; intros b Hb; destruct b; try (cbn in Hb; discriminate).
  - cbn in Hb. apply andb_prop in Hb as [H1 H2]. f_equal.
    + revert H1. apply list_beq_eq. intros [k v] [k' v'] E. cbn in E. apply andb_prop in E as [E1 E2].
      apply N.eqb_eq in E1. now rewrite E1, (Q_beq_eq _ _ E2).
    + revert H2. apply list_beq_eq. intros x y E. now apply N.eqb_eq.
  - cbn [scope_beq] in Hb. apply andb_prop in Hb as [H1 H2]. f_equal; [now apply IHa|].
    revert H2. apply list_beq_eq. intros [k v] [k' v'] E. cbn in E. apply andb_prop in E as [E1 E2].
    apply N.eqb_eq in E1. now rewrite E1, (expr_beq_eq _ _ E2).
  - cbn [scope_beq] in Hb. apply andb_prop in Hb as [H12 H3]. apply andb_prop in H12 as [H1 H2].
    apply N.eqb_eq in H2. now rewrite (IHa _ H1), H2, (Q_beq_eq _ _ H3).
  - f_equal. cbn [scope_beq] in Hb. revert l0 Hb.
    induction H as [|[k s] l Hs Hl IH]; intros [|[k' s'] l0] Hb; try discriminate; [reflexivity|].
    apply andb_prop in Hb as [H12 H3]. apply andb_prop in H12 as [H1 H2]. apply N.eqb_eq in H1.
    cbn [snd] in Hs. now rewrite H1, (Hs _ H2), (IH _ H3).
Qed.

(* every pair of a consistent registry is what lookup finds *)
Lemma reg_consistent_lookup G : reg_consistent G = true -> forall i s, In (i, s) G -> lookup G i = Some s.
Proof.
  unfold reg_consistent. rewrite forallb_forall. intros H i s Hin. specialize (H (i, s) Hin). cbn [fst snd] in H.
  destruct (lookup G i) as [s'|]; [|discriminate]. now rewrite (scope_beq_eq _ _ H).
Qed.

Lemma mkreg_joint es l :
  mkreg (SJoint es) l = (lid l, SJoint es) ::
    (fix go (es : list (ident * scope)) (ls : list lab) : list (N * scope) :=
       match es with
       | [] => []
       | (_, sub) :: es' => mkreg sub (hd ldummy ls) ++ go es' (tl ls)
       end) es (lkids l).
Proof. reflexivity. Qed.

Lemma reg_ok_of_incl G : (forall i s, In (i, s) G -> lookup G i = Some s) ->
  forall s l, incl (mkreg s l) G -> reg_ok G s l.
Proof.
  intros HG. induction s using scope_ind'; intros lb Hi.
  - cbn. split; [|exact I]. apply HG, Hi. cbn. auto.
  - cbn [reg_ok]. split; [apply HG, Hi; cbn; auto|]. apply IHs. intros p Hp. apply Hi. cbn [mkreg]. now right.
  - cbn [reg_ok]. split; [apply HG, Hi; cbn; auto|]. apply IHs. intros p Hp. apply Hi. cbn [mkreg]. now right.
  - cbn [reg_ok]. split; [apply HG, Hi; rewrite mkreg_joint; cbn; auto|].
    rewrite mkreg_joint in Hi. apply incl_cons_inv in Hi as [_ Hi]. revert Hi. generalize (lkids lb) as ls.
    induction H as [|[k sub] es Hs Hes IH]; intros ls Hi; [exact I|].
    split.
    + apply Hs. intros p Hp. apply Hi. apply in_or_app. now left.
    + apply IH. intros p Hp. apply Hi. apply in_or_app. now right.
Qed.

Lemma gb_of_forallb nx G : (forall i s, In (i, s) G -> lookup G i = Some s) ->
  forallb (fun p : N * scope => N.ltb (fst p) nx) G = true -> gb nx G.
Proof.
  intros _ H i s Hl. rewrite forallb_forall in H. apply lookup_In in Hl. specialize (H (i, s) Hl). cbn in H.
  now apply N.ltb_lt.
Qed.

Theorem lab_okb_sound s l nx : lab_okb s l nx = true -> reg_ok (mkreg s l) s l /\ gb nx (mkreg s l).
Proof.
  unfold lab_okb. intros H. apply andb_prop in H as [H1 H2].
  pose proof (reg_consistent_lookup _ H1) as HG. split.
  - apply reg_ok_of_incl; [exact HG|apply incl_refl].
  - now apply gb_of_forallb.
Qed.
