(* C13 — Python's `__hash__` of the scope classes (definitions only).

   qupulse:  DictScope   hash((self._values, self._volatile_parameters))          two FrozenDicts
             MappedScope hash((self._scope, self._mapping))
             RangeScope  hash((self._inner, self._index_name, self._index_value))
             JointScope  hash(self._lookup)                                       FrozenDict name -> scope
   Python:   hash(tuple)     = a function of the hashes of the elements IN ORDER           (`tup`)
             hash(frozendict)= hash(frozenset(items)): a function of the MULTISET of the hashes of the (key, value)
                               tuples, the order of insertion does not enter                  (`fset`)
             hash(number)    = a function of the numerical value (hash(1) = hash(1.0) = hash(Fraction(1)))  (`hQ`)
             hash(str)                                                                         (`hN`)
             hash(Expression)= hash of the sympy tree: structural                             (`expr_hash`)
   The four leaf/combining functions are parameters; `ProofsHash.v` proves eq => equal hash for EVERY choice that
   satisfies the two laws above (hQ respects ==, fset is invariant under permutation), and `cpy_fset` below is
   CPython's frozenset combining step, for which the law is proved. *)
From Coq Require Import ZArith NArith QArith Bool List.
Require Import QV.C13.Model.
Import ListNotations.

Section Hash.
  Variable hN : ident -> Z.
  Variable hQ : Q -> Z.
  Variable tup : list Z -> Z.
  Variable fset : list Z -> Z.

  Fixpoint expr_hash (e : expr) : Z :=
    match e with
    | EConst q => tup [0%Z; hQ q]
    | EVar x => tup [1%Z; hN x]
    | EAdd a b => tup [2%Z; expr_hash a; expr_hash b]
    | ESub a b => tup [3%Z; expr_hash a; expr_hash b]
    | EMul a b => tup [4%Z; expr_hash a; expr_hash b]
    | EDivC a q => tup [5%Z; expr_hash a; hQ q]
    | EMin a b => tup [6%Z; expr_hash a; expr_hash b]
    | EMax a b => tup [7%Z; expr_hash a; expr_hash b]
    | EDiv a b => tup [8%Z; expr_hash a; expr_hash b]
    end.

  (* hash((key, value)) and hash(FrozenDict) *)
  Definition item_hash {A} (hv : A -> Z) (kv : ident * A) : Z := tup [hN (fst kv); hv (snd kv)].
  Definition dict_hash {A} (hv : A -> Z) (d : list (ident * A)) : Z := fset (map (item_hash hv) d).

  (* DictScope._volatile_parameters = FrozenDict({v: Expression(v) for v in volatile}) *)
  Definition vol_dict (vl : list ident) : list (ident * expr) := map (fun v => (v, EVar v)) (nodupN vl).

  Fixpoint scope_hash (s : scope) : Z :=
    match s with
    | SDict vals vl => tup [dict_hash hQ vals; dict_hash expr_hash (vol_dict vl)]
    | SMapped o m => tup [scope_hash o; dict_hash expr_hash m]
    | SRange i n v => tup [scope_hash i; hN n; hQ v]
    | SJoint l => fset ((fix go (l : list (ident * scope)) : list Z :=
                           match l with
                           | [] => []
                           | (k, sub) :: r => tup [hN k; scope_hash sub] :: go r
                           end) l)
    end.
End Hash.

(* CPython's frozenset hash (Objects/setobject.c, frozenset_hash): every entry hash is shuffled on its own and the
   results are xor-ed, then the size is mixed in and the result dispersed; 64-bit words *)
Definition w64 (z : Z) : Z := Z.land z 18446744073709551615.
Definition cpy_shuffle (h : Z) : Z :=
  w64 (Z.lxor (Z.lxor h 89869747) (Z.shiftl h 16) * 3644798167).
Definition cpy_fset (hs : list Z) : Z :=
  let x := fold_right (fun h acc => Z.lxor (cpy_shuffle (w64 h)) acc) 0%Z hs in
  let x := Z.lxor x (w64 ((Z.of_nat (length hs) + 1) * 1927868237)) in
  let x := Z.lxor x (Z.lxor (Z.shiftr x 11) (Z.shiftr x 25)) in
  w64 (x * 69069 + 907133923).
