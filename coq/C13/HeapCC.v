(* C13 — change_constants and Scope.overwrite on the explicit heap (definitions only): new objects get fresh ids from a
   counter and their constructors initialise the memoisation fields; objects that are returned as `self` keep id and fields
   (a DictScope none of whose constants is named, a MappedScope whose inner scope came back as itself).  As in the code,
   JointScope.change_constants changes every entry on its own: a shared sub-object that does change is rebuilt once per
   entry (the copies are no longer shared), one that does not change stays shared. *)
From Coq Require Import ZArith NArith QArith Bool List.
Require Import QV.C13.Model QV.C13.Pure QV.C13.Heap.
Import ListNotations.

Record hch := mkHch { hc_scope : scope; hc_lab : lab; hc_st : store; hc_next : N; hc_same : bool; hc_warned : bool }.

(* __init__: self._cache = {}, self._as_dict = None, self._volatile_parameters[_cache] = None *)
Definition alloc (st : store) (nx : N) : store := sset st nx nempty.

Fixpoint hcc (s : scope) (l : lab) (st : store) (nx : N) (nc : list (ident * Q)) {struct s} : hch :=
  match s with
  | SDict vals vl =>
      let to_update := filter (fun k => is_some (lookup nc k)) (map fst vals) in
      match to_update with
      | [] => mkHch s l st nx true false
      | _ => mkHch (SDict (update_vals vals nc) vl) (L nx []) (alloc st nx) (nx + 1) false
                   (existsb (fun k => negb (mem k vl)) to_update)
      end
  | SMapped o m =>
      let r := hcc o (lkid0 l) st nx nc in
      if hc_same r then mkHch s l (hc_st r) (hc_next r) true (hc_warned r)
      else mkHch (SMapped (hc_scope r) m) (L (hc_next r) [hc_lab r]) (alloc (hc_st r) (hc_next r)) (hc_next r + 1)
                 false (hc_warned r)
  | SRange i n v =>
      let r := hcc i (lkid0 l) st nx nc in
      mkHch (SRange (hc_scope r) n v) (L (hc_next r) [hc_lab r]) (alloc (hc_st r) (hc_next r)) (hc_next r + 1)
            false (hc_warned r)
  | SJoint es =>
      let '(es', ls', st', nx', w) :=
        (fix go (es : list (ident * scope)) (ls : list lab) (st : store) (nx : N)
           : list (ident * scope) * list lab * store * N * bool :=
           match es with
           | [] => ([], [], st, nx, false)
           | (x, sub) :: r =>
               let a := hcc sub (hd ldummy ls) st nx nc in
               let '(es', ls', st', nx', w) := go r (tl ls) (hc_st a) (hc_next a) in
               ((x, hc_scope a) :: es', hc_lab a :: ls', st', nx', hc_warned a || w)
           end) es (lkids l) st nx in
      mkHch (SJoint es') (L nx' ls') (alloc st' nx') (nx' + 1) false w
  end.

(* Scope.overwrite: one new MappedScope object over the current one *)
Definition hoverwrite (s : scope) (l : lab) (st : store) (nx : N) (kv : list (ident * Q)) : scope * lab * store * N :=
  (SMapped s (const_mapping kv), L nx [l], alloc st nx, (nx + 1)%N).

(* full histories on the heap: state = structure, labelling, store, allocation counter *)
Definition hstate := (scope * lab * store * N)%type.

Definition hstep_full (h : hstate) (o : op) : obs * hstate :=
  let '(s, l, st, nx) := h in
  match o with
  | OChange nc => let r := hcc s l st nx nc in
                  (BChange (hc_warned r) (scope_eqb (hc_scope r) (rebuild s nc)) true,
                   (hc_scope r, hc_lab r, hc_st r, hc_next r))
  | OOverwrite kv => (BOver, hoverwrite s l st nx kv)
  | _ => let '(b, st') := hstep s l st o in (b, (s, l, st', nx))
  end.

Fixpoint hrun_full (h : hstate) (ops : list op) : list obs :=
  match ops with
  | [] => []
  | o :: r => let '(b, h') := hstep_full h o in b :: hrun_full h' r
  end.
