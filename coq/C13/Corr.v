(* C13 — correspondence cases.  A case is a scope, a history of operations performed on ONE object graph (so that
   caches accumulate) and the implementation's observation after every operation.
   check_corr : the model's run equals the implementation's observations.
   check_spec : every observation agrees with the mapping the (current) scope denotes / with volatility /
                with the scope built from the changed constants — computed from Spec.v / SpecChange.v only.
   What check_spec shares with Model.v (round-5 audit): the DATA TYPES (scope, expr, op, obs, result), the association
   list helpers `lookup / mem / dict_set / union / nodupN`, the expression semantics `eval` and `free_vars` (the meaning
   of an expression is part of the specification: "evaluating the mapping expressions"), and the canonical comparisons
   defined here.  It calls none of the model's access paths, neither `cc / rebuild / update_vals` nor `scope_eqb`. *)
From Coq Require Import ZArith NArith QArith Bool List.
Require Import QV.common.Util QV.C13.Model QV.C13.Pure QV.C13.Spec QV.C13.SpecChange QV.C13.SpecLazy QV.C13.Heap QV.C13.HeapCC QV.C13.HeapCheck
               QV.C13.TEq.
Import ListNotations.

(* CHist: `l` = the identities of the Python objects the harness built for `s` (equal ids = one object, i.e. one set of
          memoisation fields); only VALUES are observed, never the identity of a returned scope.
   CEq:   two scopes with the number kind of the expression constants; `must` = the harness built b as a twin of a that
          has to be equal (same / other insertion orders / other number types of DictScope constants and loop index
          values / exact constants given as TimeType or numpy integers); e = (a == b), e' = (b == a), h = equal hashes *)
Inductive case :=
| CHist (s : scope) (l : lab) (ops : list op) (impl : list obs)
| CEq (a b : tscope) (must : bool) (e e' h : bool)
| CCrash.

(* ---- canonical forms: key lists / dictionaries are compared as sorted sequences (with multiplicity) *)
Fixpoint insN (x : ident) (l : list ident) : list ident :=
  match l with [] => [x] | y :: r => if N.leb x y then x :: l else y :: insN x r end.
Definition sortN (l : list ident) : list ident := fold_right insN [] l.

Fixpoint insKV (p : ident * Q) (l : list (ident * Q)) : list (ident * Q) :=
  match l with [] => [p] | q :: r => if N.leb (fst p) (fst q) then p :: l else q :: insKV p r end.
Definition sortKV (l : list (ident * Q)) : list (ident * Q) := fold_right insKV [] l.

Definition err_eqb (a b : err) : bool :=
  match a, b with EMissing, EMissing | EOther, EOther => true | _, _ => false end.
Definition result_eqb {A} (e : A -> A -> bool) (a b : result A) : bool :=
  match a, b with Ok x, Ok y => e x y | Err x, Err y => err_eqb x y | _, _ => false end.

Definition keys_eqb (a b : list ident) : bool := list_eqb N.eqb (sortN a) (sortN b).
Definition kv_eqb (p q : ident * Q) : bool := N.eqb (fst p) (fst q) && Qeq_bool (snd p) (snd q).
Definition dict_seq_eqb (a b : list (ident * Q)) : bool := list_eqb kv_eqb (sortKV a) (sortKV b).

(* first argument: the model's value, second: the implementation's.  The model keeps the substituted tree as it is;
   sympy simplifies it and may cancel a variable (p4 - p4 = 0), so in an environment that lacks that variable the
   implementation's expression still has a value where the model's has none.  The converse (the implementation's
   expression needs a variable the model's does not mention) is a disagreement. *)
Definition optq_eqb (a b : option Q) : bool :=
  match a, b with Some x, Some y => Qeq_bool x y | None, _ => true | Some _, None => false end.
Fixpoint insKL (p : ident * list (option Q)) (l : list (ident * list (option Q))) :=
  match l with [] => [p] | q :: r => if N.leb (fst p) (fst q) then p :: l else q :: insKL p r end.
Definition sortKL (l : list (ident * list (option Q))) := fold_right insKL [] l.
Definition kl_eqb (p q : ident * list (option Q)) : bool :=
  N.eqb (fst p) (fst q) && list_eqb optq_eqb (snd p) (snd q).
Definition volx_eqb (a b : list (ident * list (option Q))) : bool := list_eqb kl_eqb (sortKL a) (sortKL b).

Definition obs_eqb (a b : obs) : bool :=
  match a, b with
  | BVal x, BVal y => result_eqb Qeq_bool x y
  | BBool x, BBool y => Bool.eqb x y
  | BKeys x, BKeys y => result_eqb keys_eqb x y
  | BLen x, BLen y => result_eqb Z.eqb x y
  | BItems x, BItems y => result_eqb dict_seq_eqb x y
  | BChange w1 e1 _, BChange w2 e2 _ => Bool.eqb w1 w2 && Bool.eqb e1 e2      (* hash values are not modelled *)
  | BEq e1 _, BEq e2 _ => Bool.eqb e1 e2
  | BVolX x, BVolX y => result_eqb volx_eqb x y
  | BOver, BOver => true
  | _, _ => false
  end.

(* On a scope that does not denote a mapping (some mapping expression cannot be evaluated) the property says
   nothing about WHICH calls raise; there the model and the implementation only have to agree whenever both
   return a value (otherwise a harmless change of evaluation order / laziness would be reported). *)
Definition is_ok {A} (r : result A) : bool := match r with Ok _ => true | Err _ => false end.

Definition obs_compat (a b : obs) : bool :=
  match a, b with
  | BVal (Ok _), BVal (Ok _) | BKeys (Ok _), BKeys (Ok _) | BLen (Ok _), BLen (Ok _)
  | BItems (Ok _), BItems (Ok _) | BVolX (Ok _), BVolX (Ok _) => obs_eqb a b
  | BVal _, BVal _ | BKeys _, BKeys _ | BLen _, BLen _ | BItems _, BItems _ | BVolX _, BVolX _ => true
  | _, _ => obs_eqb a b
  end.

Fixpoint corr_run (s : scope) (ops : list op) (model impl : list obs) : bool :=
  match ops, model, impl with
  | [], [], [] => true
  | o :: ops', a :: model', b :: impl' =>
      (if is_ok (denote_scope s) then obs_eqb a b else obs_compat a b)
      && corr_run (next_scope s o) ops' model' impl'
  | _, _, _ => false
  end.

(* first free object id of a labelled structure *)
Definition next_id (s : scope) (l : lab) : N := N.succ (fold_right (fun p m => N.max (fst p) m) 0%N (mkreg s l)).

Definition check_corr (c : case) : bool :=
  match c with
  | CHist s l ops impl =>
      corr_run s ops (run (s, cempty) ops) impl       (* the model with memoisation fields as state *)
      && corr_run s ops (prun s ops) impl             (* the same access paths without any memoisation *)
      (* the explicit heap: shared objects have ONE set of memoisation fields, change_constants / overwrite allocate;
         the labelling must pass the admission test (ProofsHeapCheck.lab_okb_sound) *)
      && lab_okb s l (next_id s l)
      && corr_run s ops (hrun_full (s, l, [], next_id s l) ops) impl
  | CEq a b _ e e' _ => Bool.eqb (tscope_eqb a b) e && Bool.eqb (tscope_eqb b a) e'
  | CCrash => false
  end.

(* ---- the specification oracle *)

(* all names that can matter for the volatile comparison *)
Fixpoint names_of (s : scope) : list ident :=
  match s with
  | SDict vals vl => map fst vals ++ vl
  | SMapped o m => map fst m ++ flat_map (fun pe => free_vars (snd pe)) m ++ names_of o
  | SRange i n _ => n :: names_of i
  | SJoint l => map fst l ++ flat_map (fun p => names_of (snd p)) l
  end.

Definition nodup_list (l : list ident) : bool := Nat.eqb (length (nodupN l)) (length l).

(* the names marked volatile in some root *)
Fixpoint vol_names (s : scope) : list ident :=
  match s with
  | SDict _ vl => vl
  | SMapped o _ => vol_names o
  | SRange i _ _ => vol_names i
  | SJoint l => flat_map (fun p => vol_names (snd p)) l
  end.

(* dependency expressions, one environment of constants `env` (the j-th of the operation): read `env` as a change of
   the volatile constants (nc = env restricted to the volatile names); if it changes no non-volatile constant and
   gives every constant of the rebuilt scope its value, the j-th reported value of every volatile parameter must be
   the value the parameter has in the rebuilt scope.  With env = the current constants this is the current value. *)
Definition spec_volx_env (s : scope) (ve : list (ident * list (option Q))) (j : nat) (env : list (ident * Q)) : bool :=
  let nc := filter (fun kv => mem (fst kv) (vol_names s)) env in
  let s' := built_from_changed s nc in
  if env_for_b env s' && negb (changes_non_volatile s nc) && is_ok (denote_scope s) then
    match denote_scope s' with
    | Ok d' => forallb (fun xv => match lookup d' (fst xv) with
                                  | Some q => match nth j (snd xv) None with Some q' => Qeq_bool q q' | None => false end
                                  | None => true
                                  end) ve
    | Err _ => true        (* a changed volatile constant can be a divisor that becomes 0: no statement there *)
    end
  else true.

Fixpoint spec_volx_envs (s : scope) (ve : list (ident * list (option Q))) (j : nat) (envs : list (list (ident * Q))) : bool :=
  match envs with
  | [] => true
  | env :: r => spec_volx_env s ve j env && spec_volx_envs s ve (S j) r
  end.

(* what equality must imply, from Spec.v only: the same mapping (or none on both sides), the same names, the same
   volatile parameters *)
Definition sem_equal (a b : scope) : bool :=
  match denote_scope a, denote_scope b with
  | Ok d1, Ok d2 => dict_seq_eqb d1 d2
  | Err _, Err _ => true
  | _, _ => false
  end
  && keys_eqb (domain a) (domain b)
  && forallb (fun x => Bool.eqb (depends_on_volatile a x) (depends_on_volatile b x)) (names_of a ++ names_of b).

Definition spec_obs (s : scope) (o : op) (b : obs) : bool :=
  let den := denote_scope s in
  match o, b with
  | OGet x, BVal r =>
      match den with
      | Ok d => match lookup d x with
                | Some v => result_eqb Qeq_bool r (Ok v)
                | None => result_eqb Qeq_bool r (Err EMissing)
                end
      (* the scope does not denote a whole mapping (round 6): a lookup that returns must return the value of that one name
         (SpecLazy.value_at; C13_lookup_partial); which call raises is not judged for a name of the domain *)
      | Err _ => match r with
                 | Ok v => value_right s x v
                 | Err _ => if mem x (domain s) then true else result_eqb Qeq_bool r (Err EMissing)
                 end
      end
  | OContains x, BBool r => Bool.eqb r (mem x (domain s))
  | OIter, BKeys r | OKeys, BKeys r =>
      match r with
      | Ok ks => keys_eqb ks (domain s)
      | Err _ => negb (is_ok den)
      end
  | OLen, BLen r =>
      match r with
      | Ok k => Z.eqb k (Z.of_nat (length (domain s)))
      | Err _ => negb (is_ok den)
      end
  | OItems, BItems r | OAsDict, BItems r =>
      match den, r with
      | Ok d, Ok d' => dict_seq_eqb d d'
      | Ok _, Err _ => false
      | Err _, Ok d' => entries_right s d' && keys_eqb (map fst d') (domain s)    (* round 6: entry by entry *)
      | Err _, Err _ => true
      end
  | OVol, BKeys r =>
      match r with
      | Ok ks => nodup_list ks
                 && forallb (fun x => Bool.eqb (mem x ks) (depends_on_volatile s x)) (ks ++ names_of s)
      | Err _ => negb (is_ok den)
      end
  | OVolX envs, BVolX r =>
      match r with
      | Ok ve => let ks := map fst ve in
                 nodup_list ks
                 && forallb (fun x => Bool.eqb (mem x ks) (depends_on_volatile s x)) (ks ++ names_of s)
                 && forallb (fun xv => Nat.eqb (length (snd xv)) (length envs)) ve
                 && spec_volx_envs s ve 0 envs
      | Err _ => negb (is_ok den)
      end
  | OChange nc, BChange w e h => Bool.eqb w (changes_non_volatile s nc) && e && h
  (* == inside a history: equal => equal hash, equal => the same mapping / names / volatile parameters.  That a twin MUST
     be equal is judged on the harness side (py_spec, from the generator's variant tag) and by check_corr *)
  | OEq other, BEq e h => implb e h && implb e (sem_equal s other)
  | OOverwrite _, BOver => true
  | _, _ => false
  end.

(* the scope a history continues on, from the specification alone *)
Definition spec_next (s : scope) (o : op) : scope :=
  match o with
  | OChange nc => built_from_changed s nc
  | OOverwrite kv => overwritten s kv
  | _ => s
  end.

Fixpoint spec_run (s : scope) (ops : list op) (impl : list obs) : bool :=
  match ops, impl with
  | [], [] => true
  | o :: ops', b :: impl' =>
      spec_obs s o b && spec_run (spec_next s o) ops' impl'
  | _, _ => false
  end.

Definition check_spec (c : case) : bool :=
  match c with
  | CHist s _ ops impl => spec_run s ops impl
  | CEq a b must e e' h =>
      Bool.eqb e e'                                   (* symmetric *)
      && implb must e                                 (* a twin is equal *)
      && implb e h                                    (* equal scopes hash alike *)
      && implb e (sem_equal (erase_s a) (erase_s b))  (* equal scopes are the same mapping with the same volatility *)
  | CCrash => false
  end.
