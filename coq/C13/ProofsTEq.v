(* C13 — the kind-aware `__eq__` (TEq.v): it refines the value-based one of Model.v, is reflexive on well-formed scopes,
   and change_constants yields a scope equal IN THIS SENSE to the one built from the changed constants. *)
From Coq Require Import ZArith NArith QArith Bool List Lia.
Require Import QV.C13.Model QV.C13.Spec QV.C13.Proofs QV.C13.ProofsViews QV.C13.ProofsVolX QV.C13.ProofsEq QV.C13.TEq.
Import ListNotations.

Arguments mem : simpl never.

Section TScopeInd.
  Variable P : tscope -> Prop.
  Hypothesis HD : forall vals vl, P (TSDict vals vl).
  Hypothesis HM : forall o m, P o -> P (TSMapped o m).
  Hypothesis HR : forall i n v, P i -> P (TSRange i n v).
  Hypothesis HJ : forall l, Forall (fun p => P (snd p)) l -> P (TSJoint l).
  Fixpoint tscope_ind' (s : tscope) : P s :=
    match s with
    | TSDict vals vl => HD vals vl
    | TSMapped o m => HM o m (tscope_ind' o)
    | TSRange i n v => HR i n v (tscope_ind' i)
    | TSJoint l =>
        HJ l ((fix go (l : list (ident * tscope)) : Forall (fun p => P (snd p)) l :=
                 match l with
                 | [] => Forall_nil _
                 | p :: r => Forall_cons p (tscope_ind' (snd p)) (go r)
                 end) l)
    end.
End TScopeInd.

(* ---------------------------------------------------------------- expressions *)
Lemma texpr_eqb_erase : forall a b, texpr_eqb a b = true -> expr_eqb (erase_e a) (erase_e b) = true.
Proof.
  induction a; intros [] H; cbn in *; try discriminate; auto;
    try (apply andb_prop in H as [H1 H2]; rewrite ?(IHa1 _ H1), ?(IHa2 _ H2); reflexivity).
  - apply andb_prop in H as [_ H]. exact H.
  - apply andb_prop in H as [H H3]. apply andb_prop in H as [H1 _]. now rewrite (IHa _ H1), H3.
Qed.

Lemma texpr_eqb_refl e : texpr_eqb e e = true.
Proof. induction e; cbn; rewrite ?IHe, ?IHe1, ?IHe2, ?N.eqb_refl, ?Qeqb_refl, ?eqb_reflx; auto. Qed.

(* the kind matters: equal after erasure, different for the code *)
Lemma texpr_eqb_strict : exists a b, expr_eqb (erase_e a) (erase_e b) = true /\ texpr_eqb a b = false.
Proof. exists (TConst false 1), (TConst true 1). split; reflexivity. Qed.

(* ---------------------------------------------------------------- dictionaries under a map of the values *)
Definition mapv {A B} (f : A -> B) (l : list (ident * A)) : list (ident * B) := map (fun p => (fst p, f (snd p))) l.

Lemma lookup_mapv {A B} (f : A -> B) l k : lookup (mapv f l) k = option_map f (lookup l k).
Proof.
  induction l as [|[y a] l IH]; [reflexivity|]. cbn [mapv map fst snd lookup].
  destruct (N.eqb y k); [reflexivity|exact IH].
Qed.

Lemma dict_eqb_mapv {A B} (e : A -> A -> bool) (e' : B -> B -> bool) (f : A -> B) a b :
  (forall k v w, In (k, v) a -> e v w = true -> e' (f v) (f w) = true) ->
  dict_eqb e a b = true -> dict_eqb e' (mapv f a) (mapv f b) = true.
Proof.
  intros Hf H. unfold dict_eqb in *. apply andb_prop in H as [Hl Ha]. unfold mapv at 1 2. rewrite !map_length, Hl.
  cbn [andb]. rewrite forallb_forall in *. intros [k v'] Hin. apply in_map_iff in Hin as [[k0 v] [E Hin]].
  cbn [fst snd] in E. injection E as <- <-. cbn [fst snd]. specialize (Ha (k0, v) Hin). cbn [fst snd] in Ha.
  rewrite lookup_mapv. destruct (lookup b k0) as [w|] eqn:Eb; [|discriminate]. cbn [option_map].
  apply (Hf k0 v w); auto.
Qed.

Lemma nodup_keys_mapv {A B} (f : A -> B) l : nodup_keys (mapv f l) = nodup_keys l.
Proof.
  induction l as [|[y a] l IH]; [reflexivity|]. cbn [mapv map fst snd nodup_keys]. fold (mapv f l).
  rewrite lookup_mapv, IH. now destruct (lookup l y).
Qed.

(* ---------------------------------------------------------------- scopes *)
Lemma tscope_eqb_joint l1 l2 : tscope_eqb (TSJoint l1) (TSJoint l2) = dict_eqb tscope_eqb l1 l2.
Proof.
  unfold dict_eqb. cbn [tscope_eqb]. f_equal.
  induction l1 as [|[k s1] l1 IH]; [reflexivity|]. cbn [forallb fst snd]. now rewrite <- IH.
Qed.

Lemma erase_joint l : erase_s (TSJoint l) = SJoint (mapv erase_s l).
Proof. reflexivity. Qed.

(* equal for the code => equal for the value-based model (hence everything proved about scope_eqb-equal scopes: equal
   hash, C13_eq_hash, holds for them) *)
Lemma tscope_eqb_erase : forall a b, tscope_eqb a b = true -> scope_eqb (erase_s a) (erase_s b) = true.
Proof.
  induction a using tscope_ind'; intros b He; destruct b; try (cbn [tscope_eqb] in He; discriminate).
  - exact He.
  - cbn [tscope_eqb] in He. apply andb_prop in He as [H1 H2]. cbn [erase_s scope_eqb]. rewrite (IHa _ H1). cbn [andb].
    apply (dict_eqb_mapv texpr_eqb expr_eqb erase_e); auto. intros k v w _. apply texpr_eqb_erase.
  - cbn [tscope_eqb] in He. apply andb_prop in He as [H1 H3]. cbn [erase_s scope_eqb]. now rewrite H1, (IHa _ H3).
  - rewrite tscope_eqb_joint in He. rewrite !erase_joint, scope_eqb_joint.
    apply (dict_eqb_mapv tscope_eqb scope_eqb erase_s); auto.
    intros k v w Hin. rewrite Forall_forall in H. exact (H (k, v) Hin w).
Qed.

Lemma twf_erase : forall s, wf_scope (erase_s s) = twf s.
Proof.
  induction s using tscope_ind'; cbn [erase_s wf_scope twf]; auto.
  - rewrite IHs. f_equal. apply nodup_keys_mapv.
  - fold (mapv erase_s l). rewrite nodup_keys_mapv. f_equal.
    induction H as [|[k sub] l Hs Hl IH]; [reflexivity|]. cbn [mapv map forallb fst snd] in *.
    rewrite Hs. f_equal. exact IH.
Qed.

Lemma twf_sub l k sub : forallb (fun p : ident * tscope => twf (snd p)) l = true -> lookup l k = Some sub ->
  twf sub = true.
Proof. intros H Hk. rewrite forallb_forall in H. exact (H (k, sub) (lookup_In _ _ _ Hk)). Qed.

Lemma tscope_eqb_refl : forall s, twf s = true -> tscope_eqb s s = true.
Proof.
  induction s using tscope_ind'; intros Hwf.
  - cbn [tscope_eqb twf] in *. apply andb_true_intro. split.
    + apply dict_eqb_spec; auto. split; [reflexivity|]. apply drel_refl. intros; apply Qeqb_refl.
    + now apply set_eqb_spec.
  - cbn [tscope_eqb twf] in *. apply andb_prop in Hwf as [Hwo Hwm]. rewrite (IHs Hwo). cbn.
    apply dict_eqb_spec; auto. split; [reflexivity|]. apply drel_refl. intros; apply texpr_eqb_refl.
  - cbn [tscope_eqb twf] in *. now rewrite N.eqb_refl, Qeqb_refl, (IHs Hwf).
  - rewrite tscope_eqb_joint. cbn [twf] in Hwf. apply andb_prop in Hwf as [Hnd Hwl].
    apply dict_eqb_spec; auto. split; [reflexivity|]. apply drel_refl. intros k v Hk.
    rewrite Forall_forall in H. apply (H (k, v) (lookup_In _ _ _ Hk)). exact (twf_sub l k v Hwl Hk).
Qed.

(* ---------------------------------------------------------------- change_constants *)
Lemma erase_trebuild : forall s nc, erase_s (trebuild s nc) = rebuild (erase_s s) nc.
Proof.
  induction s using tscope_ind'; intros nc; cbn [trebuild erase_s rebuild]; auto.
  - now rewrite IHs.
  - now rewrite IHs.
  - f_equal. induction H as [|[k sub] l Hs Hl IH]; [reflexivity|]. cbn [map fst snd] in *. now rewrite Hs, IH.
Qed.

Lemma tcc_trebuild : forall s nc,
  fst (tcc s nc) = trebuild s nc /\ (snd (tcc s nc) = true -> trebuild s nc = s).
Proof.
  induction s using tscope_ind'; intros nc.
  - cbn. destruct (filter _ (map fst vals)) eqn:E; cbn.
    + rewrite (update_vals_id _ _ E). auto.
    + split; [reflexivity|discriminate].
  - cbn. destruct (IHs nc) as [E1 E2]. destruct (snd (tcc s nc)) eqn:Es; cbn.
    + rewrite (E2 eq_refl). auto.
    + rewrite E1. split; [reflexivity|discriminate].
  - cbn. destruct (IHs nc) as [E1 _]. rewrite E1. split; [reflexivity|discriminate].
  - cbn [tcc trebuild fst snd]. split; [|discriminate]. f_equal.
    induction H as [|[k sub] l Hs Hl IH]; [reflexivity|]. cbn [map fst snd] in *. now rewrite (proj1 (Hs nc)), IH.
Qed.

Lemma tcc_erase_cc s c nc : erase_s (fst (tcc s nc)) = ch_scope (cc (erase_s s) c nc).
Proof. rewrite (proj1 (tcc_trebuild s nc)), erase_trebuild. symmetry. exact (proj1 (cc_scope_rebuild (erase_s s) c nc)). Qed.

(* ---------------------------------------------------------------- the kind-aware == is an equivalence on well-formed scopes *)
Lemma texpr_eqb_sym_imp : forall a b, texpr_eqb a b = true -> texpr_eqb b a = true.
Proof.
  induction a; intros [] H; cbn in *; try discriminate;
    try (apply andb_prop in H as [H1 H2]; rewrite ?(IHa1 _ H1), ?(IHa2 _ H2); reflexivity).
  - apply andb_prop in H as [H1 H2]. apply eqb_prop in H1. subst. now rewrite eqb_reflx, (Qeqb_sym _ _ H2).
  - now rewrite N.eqb_sym.
  - apply andb_prop in H as [H H3]. apply andb_prop in H as [H1 H2]. apply eqb_prop in H2. subst.
    now rewrite (IHa _ H1), eqb_reflx, (Qeqb_sym _ _ H3).
Qed.

Lemma texpr_eqb_trans : forall a b c, texpr_eqb a b = true -> texpr_eqb b c = true -> texpr_eqb a c = true.
Proof.
  induction a; intros [] [] H K; cbn in *; try discriminate;
    try (apply andb_prop in H as [H1 H2]; apply andb_prop in K as [K1 K2];
         rewrite ?(IHa1 _ _ H1 K1), ?(IHa2 _ _ H2 K2); reflexivity).
  - apply andb_prop in H as [H1 H2]. apply andb_prop in K as [K1 K2]. apply eqb_prop in H1, K1. subst.
    now rewrite eqb_reflx, (Qeqb_trans _ _ _ H2 K2).
  - apply N.eqb_eq in H, K. subst. apply N.eqb_refl.
  - apply andb_prop in H as [H H3]. apply andb_prop in H as [H1 H2].
    apply andb_prop in K as [K K3]. apply andb_prop in K as [K1 K2]. apply eqb_prop in H2, K2. subst.
    now rewrite (IHa _ _ H1 K1), eqb_reflx, (Qeqb_trans _ _ _ H3 K3).
Qed.

Lemma tscope_eqb_sym_imp : forall a, twf a = true -> forall b, twf b = true ->
  tscope_eqb a b = true -> tscope_eqb b a = true.
Proof.
  induction a using tscope_ind'; intros Hwa b Hwb He; destruct b; try (cbn [tscope_eqb] in He; discriminate).
  - cbn [tscope_eqb twf] in *. apply andb_prop in He as [H1 H2]. apply andb_true_intro. split.
    + apply dict_eqb_spec in H1 as [L R]; auto. apply dict_eqb_spec; auto. split; [auto|].
      apply (drel_sym Qeq_bool Qeq_bool vals vals0); auto. intros; now apply Qeqb_sym.
    + apply set_eqb_spec. intros x. symmetry. revert x. now apply set_eqb_spec.
  - cbn [tscope_eqb twf] in *. apply andb_prop in Hwa as [Hwo Hwm]. apply andb_prop in Hwb as [Hwo' Hwm'].
    apply andb_prop in He as [H1 H2]. rewrite (IHa Hwo _ Hwo' H1). cbn.
    apply dict_eqb_spec in H2 as [L R]; auto. apply dict_eqb_spec; auto. split; [auto|].
    apply (drel_sym texpr_eqb texpr_eqb m m0); auto. intros; now apply texpr_eqb_sym_imp.
  - cbn [tscope_eqb twf] in *. apply andb_prop in He as [H12 H3]. apply andb_prop in H12 as [H1 H2].
    rewrite (IHa Hwa _ Hwb H3), (Qeqb_sym _ _ H2), N.eqb_sym, H1. reflexivity.
  - rewrite tscope_eqb_joint in *.
    cbn [twf] in Hwa, Hwb. apply andb_prop in Hwa as [Hnd Hwl]. apply andb_prop in Hwb as [Hnd' Hwl'].
    apply dict_eqb_spec in He as [L R]; auto. apply dict_eqb_spec; auto. split; [auto|].
    apply (drel_sym tscope_eqb tscope_eqb l l0); auto. intros k v w Hv Hw E.
    rewrite Forall_forall in H. apply (H (k, v) (lookup_In _ _ _ Hv)); auto.
    + exact (twf_sub l k v Hwl Hv).
    + exact (twf_sub l0 k w Hwl' Hw).
Qed.

Theorem tscope_eqb_sym a b : twf a = true -> twf b = true -> tscope_eqb a b = tscope_eqb b a.
Proof.
  intros Ha Hb. destruct (tscope_eqb a b) eqn:E1.
  - symmetry. now apply tscope_eqb_sym_imp.
  - destruct (tscope_eqb b a) eqn:E2; [|reflexivity]. rewrite (tscope_eqb_sym_imp b Hb a Ha E2) in E1. discriminate.
Qed.

Theorem tscope_eqb_trans : forall a, twf a = true -> forall b c, twf b = true -> twf c = true ->
  tscope_eqb a b = true -> tscope_eqb b c = true -> tscope_eqb a c = true.
Proof.
  induction a using tscope_ind'; intros Hwa b c Hwb Hwc H1 H2; destruct b; try (cbn [tscope_eqb] in H1; discriminate);
    destruct c; try (cbn [tscope_eqb] in H2; discriminate).
  - cbn [tscope_eqb twf] in *. apply andb_prop in H1 as [A1 A2]. apply andb_prop in H2 as [B1 B2].
    apply andb_true_intro. split.
    + apply dict_eqb_spec in A1 as [L1 R1]; auto. apply dict_eqb_spec in B1 as [L2 R2]; auto.
      apply dict_eqb_spec; auto. split; [congruence|].
      apply (drel_trans Qeq_bool vals vals0 vals1); auto. intros; eapply Qeqb_trans; eauto.
    + apply set_eqb_spec. intros x. rewrite (proj1 (set_eqb_spec _ _) A2 x). now apply set_eqb_spec.
  - cbn [tscope_eqb twf] in *. apply andb_prop in Hwa as [Hwo Hwm]. apply andb_prop in Hwb as [Hwo' Hwm'].
    apply andb_prop in Hwc as [Hwo'' Hwm''].
    apply andb_prop in H1 as [A1 A2]. apply andb_prop in H2 as [B1 B2].
    rewrite (IHa Hwo _ _ Hwo' Hwo'' A1 B1). cbn.
    apply dict_eqb_spec in A2 as [L1 R1]; auto. apply dict_eqb_spec in B2 as [L2 R2]; auto.
    apply dict_eqb_spec; auto. split; [congruence|].
    apply (drel_trans texpr_eqb m m0 m1); auto. intros; eapply texpr_eqb_trans; eauto.
  - cbn [tscope_eqb twf] in *. apply andb_prop in H1 as [A12 A3]. apply andb_prop in A12 as [A1 A2].
    apply andb_prop in H2 as [B12 B3]. apply andb_prop in B12 as [B1 B2].
    apply N.eqb_eq in A1, B1. subst.
    now rewrite N.eqb_refl, (Qeqb_trans _ _ _ A2 B2), (IHa Hwa _ _ Hwb Hwc A3 B3).
  - rewrite tscope_eqb_joint in *.
    cbn [twf] in Hwa, Hwb, Hwc. apply andb_prop in Hwa as [Hnd Hwl]. apply andb_prop in Hwb as [Hnd' Hwl'].
    apply andb_prop in Hwc as [Hnd'' Hwl''].
    apply dict_eqb_spec in H1 as [L1 R1]; auto. apply dict_eqb_spec in H2 as [L2 R2]; auto.
    apply dict_eqb_spec; auto. split; [congruence|].
    apply (drel_trans tscope_eqb l l0 l1); auto. intros k v w u Hv Hw Hu E1 E2.
    rewrite Forall_forall in H. apply (H (k, v) (lookup_In _ _ _ Hv)) with (b := w); auto.
    + exact (twf_sub l k v Hwl Hv).
    + exact (twf_sub l0 k w Hwl' Hw).
    + exact (twf_sub l1 k u Hwl'' Hu).
Qed.

(* ---------------------------------------------------------------- well-formedness survives change_constants *)
Lemma lookup_update_vals_some vals nc k : is_some (lookup (update_vals vals nc) k) = is_some (lookup vals k).
Proof.
  induction vals as [|[y v] r IH]; [reflexivity|]. cbn [update_vals map fst snd lookup]. fold (update_vals r nc).
  destruct (N.eqb y k); [reflexivity|exact IH].
Qed.

Lemma nodup_keys_update vals nc : nodup_keys (update_vals vals nc) = nodup_keys vals.
Proof.
  induction vals as [|[k v] r IH]; [reflexivity|]. cbn [update_vals map fst snd nodup_keys]. fold (update_vals r nc).
  now rewrite IH, lookup_update_vals_some.
Qed.

Lemma twf_trebuild : forall s nc, twf (trebuild s nc) = twf s.
Proof.
  induction s using tscope_ind'; intros nc; cbn [trebuild twf].
  - apply nodup_keys_update.
  - now rewrite IHs.
  - apply IHs.
  - fold (mapv (fun sub => trebuild sub nc) l). rewrite nodup_keys_mapv. f_equal.
    induction H as [|[k sub] l Hs Hl IH]; [reflexivity|]. cbn [mapv map forallb fst snd] in *.
    rewrite Hs. f_equal. exact IH.
Qed.

(* change_constants yields a scope the CODE's == accepts as the scope built from the changed constants *)
Lemma tcc_eq_trebuild s nc : twf s = true -> tscope_eqb (fst (tcc s nc)) (trebuild s nc) = true.
Proof.
  intros H. rewrite (proj1 (tcc_trebuild s nc)). apply tscope_eqb_refl. now rewrite twf_trebuild.
Qed.
