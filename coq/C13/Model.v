(* C13 — operational model of qupulse's parameter scopes (definitions only, executable, total).

   Mirrors qupulse/parameter_scope.py (Scope, MappedScope, DictScope, JointScope) and
   qupulse/pulses/range.py (RangeScope) as the code computes them.  A scope object is split into
     - its immutable structure           `scope`
     - the memoisation fields            `cst`   (MappedScope._cache / _as_dict / _volatile_parameters_cache,
                                                  RangeScope._as_dict, JointScope._as_dict / _volatile_parameters)
   so that every access path is a function  scope -> cst -> args -> result * cst  (the new cache state is returned
   even when the call raises: side effects on caches survive an exception).  *)
From Coq Require Import ZArith NArith QArith Bool List.
Import ListNotations.

Definition ident := N.

Inductive err := EMissing (* KeyError family: ParameterNotProvidedException / KeyError *) | EOther.
Inductive result (A : Type) := Ok (a : A) | Err (e : err).
Arguments Ok {A} a.
Arguments Err {A} e.

Definition rmap {A B} (f : A -> B) (r : result A) : result B :=
  match r with Ok a => Ok (f a) | Err e => Err e end.

(* ---------------------------------------------------------------- finite maps as association lists *)
Fixpoint lookup {A} (l : list (ident * A)) (x : ident) : option A :=
  match l with
  | [] => None
  | (y, a) :: r => if N.eqb y x then Some a else lookup r x
  end.

Definition mem (x : ident) (l : list ident) : bool := existsb (N.eqb x) l.
Definition is_some {A} (o : option A) : bool := match o with Some _ => true | None => false end.

Fixpoint dict_set {A} (d : list (ident * A)) (x : ident) (v : A) : list (ident * A) :=
  match d with
  | [] => [(x, v)]
  | (y, a) :: r => if N.eqb y x then (y, v) :: r else (y, a) :: dict_set r x v
  end.

Fixpoint nodupN (l : list ident) : list ident :=
  match l with
  | [] => []
  | x :: r => if mem x r then nodupN r else x :: nodupN r
  end.

Definition removeN (x : ident) (l : list ident) : list ident := filter (fun y => negb (N.eqb y x)) l.

(* python: a | b on key views (a set) *)
Definition union (a b : list ident) : list ident := a ++ filter (fun y => negb (mem y a)) b.

(* ---------------------------------------------------------------- expressions *)
Inductive expr :=
| EConst (q : Q)
| EVar (x : ident)
| EAdd (a b : expr)
| ESub (a b : expr)
| EMul (a b : expr)
| EDivC (a : expr) (q : Q)       (* a / q with a constant divisor; q = 0 cannot be evaluated *)
| EMin (a b : expr)
| EMax (a b : expr)
| EDiv (a b : expr).             (* a / b with any divisor expression; a divisor of value 0 cannot be evaluated *)

Fixpoint free_vars (e : expr) : list ident :=
  match e with
  | EConst _ => []
  | EVar x => [x]
  | EAdd a b | ESub a b | EMul a b | EMin a b | EMax a b | EDiv a b => free_vars a ++ free_vars b
  | EDivC a _ => free_vars a
  end.

(* Expression.variables: each free variable once *)
Definition vars (e : expr) : list ident := nodupN (free_vars e).

Fixpoint eval (env : ident -> option Q) (e : expr) : option Q :=
  match e with
  | EConst q => Some q
  | EVar x => env x
  | EAdd a b => match eval env a, eval env b with Some u, Some v => Some (u + v)%Q | _, _ => None end
  | ESub a b => match eval env a, eval env b with Some u, Some v => Some (u - v)%Q | _, _ => None end
  | EMul a b => match eval env a, eval env b with Some u, Some v => Some (u * v)%Q | _, _ => None end
  | EDivC a q => if Qeq_bool q 0 then None
                 else match eval env a with Some u => Some (u / q)%Q | None => None end
  | EMin a b => match eval env a, eval env b with
                | Some u, Some v => Some (if Qle_bool u v then u else v) | _, _ => None end
  | EMax a b => match eval env a, eval env b with
                | Some u, Some v => Some (if Qle_bool u v then v else u) | _, _ => None end
  | EDiv a b => match eval env a, eval env b with
                | Some u, Some v => if Qeq_bool v 0 then None else Some (u / v)%Q | _, _ => None end
  end.

(* Expression.evaluate_symbolic: simultaneous substitution (qupulse.utils.sympy.recursive_substitution walks the
   tree once; variables without a substitute stay) *)
Fixpoint subst (sg : ident -> option expr) (e : expr) : expr :=
  match e with
  | EConst q => EConst q
  | EVar x => match sg x with Some r => r | None => EVar x end
  | EAdd a b => EAdd (subst sg a) (subst sg b)
  | ESub a b => ESub (subst sg a) (subst sg b)
  | EMul a b => EMul (subst sg a) (subst sg b)
  | EDivC a q => EDivC (subst sg a) q
  | EMin a b => EMin (subst sg a) (subst sg b)
  | EMax a b => EMax (subst sg a) (subst sg b)
  | EDiv a b => EDiv (subst sg a) (subst sg b)
  end.

Definition remove_key {A} (x : ident) (d : list (ident * A)) : list (ident * A) :=
  filter (fun kv => negb (N.eqb (fst kv) x)) d.

(* ---------------------------------------------------------------- scopes *)
Inductive scope :=
| SDict (vals : list (ident * Q)) (vol : list ident)          (* DictScope(values, volatile) *)
| SMapped (o : scope) (m : list (ident * expr))               (* MappedScope(scope, mapping) *)
| SRange (i : scope) (n : ident) (v : Q)                      (* RangeScope(inner, index_name, index_value) *)
| SJoint (l : list (ident * scope)).                          (* JointScope(lookup) *)

(* memoisation fields of one scope object and of the objects below it (kids: the outer/inner scope, or the
   entries of a joint scope in order).  A missing kid is a fresh object. *)
Inductive cst := CNode (cache : list (ident * Q)) (asd : option (list (ident * Q)))
                       (vc : option (list (ident * expr))) (kids : list cst).

Definition cempty : cst := CNode [] None None [].
Definition c_cache (c : cst) := match c with CNode a _ _ _ => a end.
Definition c_asd (c : cst) := match c with CNode _ a _ _ => a end.
Definition c_vc (c : cst) := match c with CNode _ _ a _ => a end.
Definition c_kids (c : cst) := match c with CNode _ _ _ a => a end.
Definition kid0 (c : cst) : cst := hd cempty (c_kids c).
Definition set_kid0 (c : cst) (k : cst) : cst := CNode (c_cache c) (c_asd c) (c_vc c) (k :: tl (c_kids c)).
Definition set_kids (c : cst) (ks : list cst) : cst := CNode (c_cache c) (c_asd c) (c_vc c) ks.
Definition set_vc (c : cst) (ks : list (ident * expr)) : cst := CNode (c_cache c) (c_asd c) (Some ks) (c_kids c).

(* successive lookups through one getter, threading the cache state; stops at the first exception *)
Fixpoint fold_get (g : cst -> ident -> result Q * cst) (xs : list ident) (c : cst) (acc : list (ident * Q))
  : result (list (ident * Q)) * cst :=
  match xs with
  | [] => (Ok acc, c)
  | y :: ys => let '(r, c') := g c y in
               match r with
               | Ok v => fold_get g ys c' (acc ++ [(y, v)])
               | Err e => (Err e, c')
               end
  end.

Definition eval_env (env : list (ident * Q)) (e : expr) : result Q :=
  match eval (lookup env) e with Some v => Ok v | None => Err EOther end.

(* __contains__ : no memoisation involved *)
Fixpoint contains (s : scope) (x : ident) : bool :=
  match s with
  | SDict vals _ => is_some (lookup vals x)
  | SMapped o m => is_some (lookup m x) || contains o x
  | SRange i n _ => N.eqb x n || contains i x
  | SJoint l => existsb (fun p => N.eqb (fst p) x) l
  end.

(* get_parameter / __getitem__ *)
Fixpoint get (s : scope) (c : cst) (x : ident) {struct s} : result Q * cst :=
  match s with
  | SDict vals _ => (match lookup vals x with Some v => Ok v | None => Err EMissing end, c)
  | SMapped o m =>
      match lookup (c_cache c) x with
      | Some v => (Ok v, c)                                   (* self._cache.get(name) is not None *)
      | None =>
          let '(r, co) :=
            match lookup m x with
            | None => get o (kid0 c) x                        (* _calc_parameter: not mapped *)
            | Some e =>                                       (* expression.evaluate_in_scope(self._scope) *)
                let '(renv, co) := fold_get (get o) (vars e) (kid0 c) [] in
                (match renv with Ok env => eval_env env e | Err er => Err er end, co)
            end in
          (r, CNode (match r with Ok v => c_cache c ++ [(x, v)] | Err _ => c_cache c end)
                    (c_asd c) (c_vc c) (co :: tl (c_kids c)))
      end
  | SRange i n v =>
      if N.eqb x n then (Ok v, c)
      else let '(r, ci) := get i (kid0 c) x in (r, set_kid0 c ci)
  | SJoint l =>
      let '(r, ks) :=
        (fix go (l : list (ident * scope)) (ks : list cst) : result Q * list cst :=
           match l with
           | [] => (Err EMissing, ks)                         (* self._lookup[name] -> KeyError *)
           | (y, sub) :: l' =>
               if N.eqb y x then let '(r, k') := get sub (hd cempty ks) x in (r, k' :: tl ks)
               else let '(r, ks') := go l' (tl ks) in (r, hd cempty ks :: ks')
           end) l (c_kids c) in
      (r, set_kids c ks)
  end.

(* RangeScope.as_dict given the inner as_dict *)
Definition range_asd (n : ident) (v : Q) (c : cst) (inner : cst -> result (list (ident * Q)) * cst)
  : result (list (ident * Q)) * cst :=
  match c_asd c with
  | Some d => (Ok d, c)
  | None =>
      let '(r, ci) := inner (kid0 c) in
      match r with
      | Ok d => let d' := dict_set d n v in
                (Ok d', CNode (c_cache c) (Some d') (c_vc c) (ci :: tl (c_kids c)))
      | Err e => (Err e, set_kid0 c ci)
      end
  end.

(* keys() and as_dict() *)
Fixpoint keys (s : scope) (c : cst) {struct s} : result (list ident) * cst :=
  match s with
  | SDict vals _ => (Ok (map fst vals), c)
  | SMapped o m => let '(r, co) := keys o (kid0 c) in (rmap (union (map fst m)) r, set_kid0 c co)
  | SRange i n v => let '(r, c') := range_asd n v c (as_dict i) in (rmap (map fst) r, c')
  | SJoint l => (Ok (map fst l), c)
  end
with as_dict (s : scope) (c : cst) {struct s} : result (list (ident * Q)) * cst :=
  match s with
  | SDict vals _ => (Ok vals, c)
  | SMapped o m =>
      match c_asd c with
      | Some d => (Ok d, c)
      | None =>
          let '(rk, co) := keys o (kid0 c) in
          let c1 := set_kid0 c co in
          match rk with
          | Err e => (Err e, c1)
          | Ok ks =>
              let '(rd, c2) := fold_get (get (SMapped o m)) (union (map fst m) ks) c1 [] in
              match rd with
              | Ok d => (Ok d, CNode d (Some d) (c_vc c2) (c_kids c2))     (* self._cache = self._as_dict *)
              | Err e => (Err e, c2)
              end
          end
      end
  | SRange i n v => range_asd n v c (as_dict i)
  | SJoint l =>                                               (* Scope.as_dict: FrozenDict(self.items()) *)
      match c_asd c with
      | Some d => (Ok d, c)
      | None =>
          let '(rd, c2) := fold_get (get (SJoint l)) (map fst l) c [] in
          match rd with
          | Ok d => (Ok d, CNode (c_cache c2) (Some d) (c_vc c2) (c_kids c2))
          | Err e => (Err e, c2)
          end
      end
  end.

(* __iter__ *)
Fixpoint iter (s : scope) (c : cst) {struct s} : result (list ident) * cst :=
  match s with
  | SDict vals _ => (Ok (map fst vals), c)
  | SMapped _ _ => keys s c
  | SRange i n _ =>
      let '(r, ci) := iter i (kid0 c) in
      (rmap (fun ks => if contains i n then ks else ks ++ [n]) r, set_kid0 c ci)
  | SJoint l => (Ok (map fst l), c)
  end.

(* __len__ *)
Fixpoint len (s : scope) (c : cst) {struct s} : result Z * cst :=
  match s with
  | SDict vals _ => (Ok (Z.of_nat (length vals)), c)
  | SMapped _ _ => let '(r, c') := keys s c in (rmap (fun ks => Z.of_nat (length ks)) r, c')
  | SRange i n _ =>
      let '(r, ci) := len i (kid0 c) in
      (rmap (fun k => (k + (if contains i n then 0 else 1))%Z) r, set_kid0 c ci)
  | SJoint l => (Ok (Z.of_nat (length l)), c)
  end.

(* items() *)
Definition items (s : scope) (c : cst) : result (list (ident * Q)) * cst :=
  match s with
  | SJoint l => fold_get (get s) (map fst l) c []             (* Mapping.items: (k, self[k]) for k in self *)
  | _ => as_dict s c
  end.

(* the substitution built in MappedScope._collect_volatile_parameters for one mapping expression: a variable that is
   volatile in the outer scope is replaced by its dependency expression, every other variable by its VALUE in the
   outer scope (`env` = the values looked up for those variables) *)
Definition vol_subst (iv : list (ident * expr)) (env : list (ident * Q)) (y : ident) : option expr :=
  match lookup iv y with
  | Some r => Some r
  | None => match lookup env y with Some v => Some (EConst v) | None => None end
  end.

(* MappedScope._collect_volatile_parameters: the loop over the mapping; `acc` = the dict `volatile`
   (name -> dependency expression), `g` = the lookup `self._scope[variable]` threading the cache state *)
Fixpoint collect (g : cst -> ident -> result Q * cst) (iv : list (ident * expr)) (m : list (ident * expr)) (c : cst)
         (acc : list (ident * expr)) : result (list (ident * expr)) * cst :=
  match m with
  | [] => (Ok acc, c)
  | (p, e) :: m' =>
      if existsb (fun y => is_some (lookup iv y)) (vars e) then
        let '(r, c') := fold_get g (filter (fun y => negb (is_some (lookup iv y))) (vars e)) c [] in
        match r with
        | Ok env => collect g iv m' c' (dict_set acc p (subst (vol_subst iv env) e))   (* volatile[p] = ... *)
        | Err er => (Err er, c')
        end
      else collect g iv m' c (remove_key p acc)                                          (* volatile.pop(p, None) *)
  end.

(* self._scope[variable] seen from the MappedScope object (its cache state is the one threaded) *)
Definition get_outer (o : scope) (c : cst) (y : ident) : result Q * cst :=
  let '(r, co) := get o (kid0 c) y in (r, set_kid0 c co).

(* get_volatile_parameters(): name -> dependency expression over the volatile constants *)
Fixpoint volx (s : scope) (c : cst) {struct s} : result (list (ident * expr)) * cst :=
  match s with
  | SDict _ vl => (Ok (map (fun v => (v, EVar v)) (nodupN vl)), c)
  | SMapped o m =>
      match c_vc c with
      | Some ks => (Ok ks, c)
      | None =>
          let '(riv, co) := volx o (kid0 c) in
          let c1 := set_kid0 c co in
          match riv with
          | Err e => (Err e, c1)
          | Ok [] => (Ok [], set_vc c1 [])
          | Ok iv =>
              let '(r, c2) := collect (get_outer o) iv m c1 iv in
              match r with
              | Ok ks => (Ok ks, set_vc c2 ks)
              | Err e => (Err e, c2)
              end
          end
      end
  | SRange i n _ => let '(r, ci) := volx i (kid0 c) in (rmap (remove_key n) r, set_kid0 c ci)
  | SJoint l =>
      match c_vc c with
      | Some ks => (Ok ks, c)
      | None =>
          let '(r, ks) :=
            (fix go (l : list (ident * scope)) (ks : list cst) (acc : list (ident * expr))
               : result (list (ident * expr)) * list cst :=
               match l with
               | [] => (Ok acc, ks)
               | (x, sub) :: l' =>
                   let '(r, k') := volx sub (hd cempty ks) in
                   match r with
                   | Ok iv => let '(r2, ks2) := go l' (tl ks) (match lookup iv x with
                                                                | Some e => dict_set acc x e
                                                                | None => acc end) in
                              (r2, k' :: ks2)
                   | Err e => (Err e, k' :: tl ks)
                   end
               end) l (c_kids c) [] in
          match r with
          | Ok vs => (Ok vs, CNode (c_cache c) (c_asd c) (Some vs) ks)
          | Err e => (Err e, set_kids c ks)
          end
      end
  end.

(* get_volatile_parameters().keys() *)
Definition vol (s : scope) (c : cst) : result (list ident) * cst :=
  let '(r, c') := volx s c in (rmap (map fst) r, c').

(* change_constants: new structure, new cache state, `same` (= the very same object is returned, caches kept),
   `warned` (= a NonVolatileChange warning was issued) *)
Record changed := mkChanged { ch_scope : scope; ch_cst : cst; ch_same : bool; ch_warned : bool }.

Definition update_vals (vals : list (ident * Q)) (nc : list (ident * Q)) : list (ident * Q) :=
  map (fun kv => (fst kv, match lookup nc (fst kv) with Some v' => v' | None => snd kv end)) vals.

Fixpoint cc (s : scope) (c : cst) (nc : list (ident * Q)) {struct s} : changed :=
  match s with
  | SDict vals vl =>
      let to_update := filter (fun k => is_some (lookup nc k)) (map fst vals) in
      match to_update with
      | [] => mkChanged s c true false
      | _ => mkChanged (SDict (update_vals vals nc) vl) cempty false
                       (existsb (fun k => negb (mem k vl)) to_update)
      end
  | SMapped o m =>
      let r := cc o (kid0 c) nc in
      if ch_same r then mkChanged s (set_kid0 c (ch_cst r)) true (ch_warned r)
      else mkChanged (SMapped (ch_scope r) m) (CNode [] None None [ch_cst r]) false (ch_warned r)
  | SRange i n v =>
      let r := cc i (kid0 c) nc in
      mkChanged (SRange (ch_scope r) n v) (CNode [] None None [ch_cst r]) false (ch_warned r)
  | SJoint l =>
      let '(l', ks', w) :=
        (fix go (l : list (ident * scope)) (ks : list cst) : list (ident * scope) * list cst * bool :=
           match l with
           | [] => ([], [], false)
           | (x, sub) :: r =>
               let a := cc sub (hd cempty ks) nc in
               let '(l', ks', w) := go r (tl ks) in
               ((x, ch_scope a) :: l', ch_cst a :: ks', ch_warned a || w)
           end) l (c_kids c) in
      mkChanged (SJoint l') (CNode [] None None ks') false w
  end.

(* __eq__ between scopes of the same class skeleton (cross-class comparisons are not part of the model) *)
Fixpoint expr_eqb (a b : expr) : bool :=
  match a, b with
  | EConst p, EConst q => Qeq_bool p q
  | EVar x, EVar y => N.eqb x y
  | EAdd a1 a2, EAdd b1 b2 | ESub a1 a2, ESub b1 b2 | EMul a1 a2, EMul b1 b2
  | EMin a1 a2, EMin b1 b2 | EMax a1 a2, EMax b1 b2 | EDiv a1 a2, EDiv b1 b2 => expr_eqb a1 b1 && expr_eqb a2 b2
  | EDivC a1 p, EDivC b1 q => expr_eqb a1 b1 && Qeq_bool p q
  | _, _ => false
  end.

Definition dict_eqb {A} (e : A -> A -> bool) (a b : list (ident * A)) : bool :=
  Nat.eqb (length a) (length b)
  && forallb (fun kv => match lookup b (fst kv) with Some w => e (snd kv) w | None => false end) a.

Definition set_eqb (a b : list ident) : bool :=
  forallb (fun x => mem x b) a && forallb (fun x => mem x a) b.

Fixpoint scope_eqb (a b : scope) {struct a} : bool :=
  match a, b with
  | SDict v1 l1, SDict v2 l2 => dict_eqb Qeq_bool v1 v2 && set_eqb l1 l2
  | SMapped o1 m1, SMapped o2 m2 => scope_eqb o1 o2 && dict_eqb expr_eqb m1 m2
  | SRange i1 n1 v1, SRange i2 n2 v2 => N.eqb n1 n2 && Qeq_bool v1 v2 && scope_eqb i1 i2
  | SJoint l1, SJoint l2 =>
      Nat.eqb (length l1) (length l2)
      && (fix all (l : list (ident * scope)) : bool :=
            match l with
            | [] => true
            | (k, s1) :: r => match lookup l2 k with Some s2 => scope_eqb s1 s2 | None => false end && all r
            end) l1
  | _, _ => false
  end.

(* ---------------------------------------------------------------- histories *)
Inductive op :=
| OGet (x : ident) | OContains (x : ident) | OIter | OLen | OKeys | OItems | OAsDict | OVol
| OChange (nc : list (ident * Q))
| OEq (other : scope)
| OVolX (envs : list (list (ident * Q)))    (* get_volatile_parameters(), every dependency expression evaluated in
                                              each of the given environments of constants *)
| OOverwrite (kv : list (ident * Q)).       (* Scope.overwrite: continue on MappedScope(self, {name: Expression(value)}) *)

Inductive obs :=
| BVal (r : result Q)
| BBool (b : bool)
| BKeys (r : result (list ident))
| BLen (r : result Z)
| BItems (r : result (list (ident * Q)))
| BChange (warned : bool) (eq_rebuilt : bool) (hash_eq : bool)
| BEq (eq : bool) (hash_eq : bool)
| BVolX (r : result (list (ident * list (option Q))))
| BOver.

Definition eval_at (envs : list (list (ident * Q))) (ve : list (ident * expr)) : list (ident * list (option Q)) :=
  map (fun xe => (fst xe, map (fun env => eval (lookup env) (snd xe)) envs)) ve.

(* the scope built from the changed constants *)
Fixpoint rebuild (s : scope) (nc : list (ident * Q)) : scope :=
  match s with
  | SDict vals vl => SDict (update_vals vals nc) vl
  | SMapped o m => SMapped (rebuild o nc) m
  | SRange i n v => SRange (rebuild i nc) n v
  | SJoint l => SJoint (map (fun p => (fst p, rebuild (snd p) nc)) l)
  end.

(* Scope.overwrite(to_overwrite): a NEW MappedScope object (fresh memoisation fields) over the current object (which
   keeps the state of its fields), every value wrapped into a constant expression *)
Definition const_mapping (kv : list (ident * Q)) : list (ident * expr) := map (fun p => (fst p, EConst (snd p))) kv.
Definition overwrite (s : scope) (c : cst) (kv : list (ident * Q)) : scope * cst :=
  (SMapped s (const_mapping kv), CNode [] None None [c]).

Definition step (st : scope * cst) (o : op) : obs * (scope * cst) :=
  let '(s, c) := st in
  match o with
  | OGet x => let '(r, c') := get s c x in (BVal r, (s, c'))
  | OContains x => (BBool (contains s x), st)
  | OIter => let '(r, c') := iter s c in (BKeys r, (s, c'))
  | OLen => let '(r, c') := len s c in (BLen r, (s, c'))
  | OKeys => let '(r, c') := keys s c in (BKeys r, (s, c'))
  | OItems => let '(r, c') := items s c in (BItems r, (s, c'))
  | OAsDict => let '(r, c') := as_dict s c in (BItems r, (s, c'))
  | OVol => let '(r, c') := vol s c in (BKeys r, (s, c'))
  | OChange nc => let r := cc s c nc in
                  (BChange (ch_warned r) (scope_eqb (ch_scope r) (rebuild s nc)) true, (ch_scope r, ch_cst r))
  | OEq other => (BEq (scope_eqb s other) (scope_eqb s other), st)
  | OVolX envs => let '(r, c') := volx s c in (BVolX (rmap (eval_at envs) r), (s, c'))
  | OOverwrite kv => (BOver, overwrite s c kv)
  end.

Fixpoint run (st : scope * cst) (ops : list op) : list obs :=
  match ops with
  | [] => []
  | o :: r => let '(b, st') := step st o in b :: run st' r
  end.

(* the object graph (structure + memoisation fields) after a history *)
Fixpoint exec (st : scope * cst) (ops : list op) : scope * cst :=
  match ops with
  | [] => st
  | o :: r => exec (snd (step st o)) r
  end.
