(* C13 — proof scripts. *)
From Coq Require Import ZArith NArith QArith Bool List Lia.
Require Import QV.C13.Model QV.C13.Spec.
Import ListNotations.

(* ---------------------------------------------------------------- induction principle for the nested type *)
Section ScopeInd.
  Variable P : scope -> Prop.
  Hypothesis HD : forall vals vl, P (SDict vals vl).
  Hypothesis HM : forall o m, P o -> P (SMapped o m).
  Hypothesis HR : forall i n v, P i -> P (SRange i n v).
  Hypothesis HJ : forall l, Forall (fun p => P (snd p)) l -> P (SJoint l).

  Fixpoint scope_ind' (s : scope) : P s :=
    match s with
    | SDict vals vl => HD vals vl
    | SMapped o m => HM o m (scope_ind' o)
    | SRange i n v => HR i n v (scope_ind' i)
    | SJoint l =>
        HJ l ((fix go (l : list (ident * scope)) : Forall (fun p => P (snd p)) l :=
                 match l with
                 | [] => Forall_nil _
                 | p :: r => Forall_cons p (scope_ind' (snd p)) (go r)
                 end) l)
    end.
End ScopeInd.

Arguments mem : simpl never.
Arguments union : simpl never.

Lemma mem_spec x l : mem x l = true <-> In x l.
Proof.
  unfold mem. rewrite existsb_exists. split.
  - intros [y [Hy E]]. apply N.eqb_eq in E. subst; auto.
  - intros H. exists x. split; auto. apply N.eqb_refl.
Qed.

Lemma mem_cons x y l : mem x (y :: l) = N.eqb x y || mem x l.
Proof. reflexivity. Qed.

Lemma mem_app x a b : mem x (a ++ b) = mem x a || mem x b.
Proof. unfold mem. apply existsb_app. Qed.

Lemma lookup_mem {A} (l : list (ident * A)) x : is_some (lookup l x) = mem x (map fst l).
Proof.
  induction l as [|[y a] l IH]; [reflexivity|].
  cbn [lookup map fst]. rewrite mem_cons, (N.eqb_sym x y). destruct (N.eqb y x); cbn; auto.
Qed.

Lemma mem_filter x f l : mem x (filter f l) = mem x l && f x.
Proof.
  induction l as [|y l IH]; [reflexivity|].
  cbn [filter]. destruct (f y) eqn:E; rewrite ?mem_cons, IH.
  - destruct (N.eqb x y) eqn:E2; cbn; auto. apply N.eqb_eq in E2; subst. now rewrite E.
  - destruct (N.eqb x y) eqn:E2; cbn; auto. apply N.eqb_eq in E2; subst. rewrite E. now rewrite andb_false_r.
Qed.

Lemma mem_union x a b : mem x (union a b) = mem x a || mem x b.
Proof.
  unfold union. rewrite mem_app, mem_filter.
  destruct (mem x a); cbn; auto. now rewrite andb_true_r.
Qed.

Lemma contains_domain : forall s x, contains s x = mem x (domain s).
Proof.
  induction s using scope_ind'; intros x; cbn.
  - apply lookup_mem.
  - rewrite mem_union, IHs, lookup_mem. reflexivity.
  - rewrite IHs. destruct (mem n (domain s)) eqn:E.
    + destruct (N.eqb x n) eqn:E2; cbn; auto. apply N.eqb_eq in E2; subst. now rewrite E.
    + rewrite mem_app, mem_cons. cbn. rewrite !orb_false_r. apply orb_comm.
  - clear H. induction l as [|[y sub] l IH]; [reflexivity|].
    cbn [existsb map fst]. rewrite mem_cons, (N.eqb_sym x y), IH. reflexivity.
Qed.

(* ================================================================ change_constants = rebuild *)
Lemma filter_nil {A} (f : A -> bool) l : filter f l = [] -> forall x, In x l -> f x = false.
Proof.
  induction l as [|a l IH]; cbn; intros H x Hx; [destruct Hx|].
  destruct (f a) eqn:E; [discriminate|]. destruct Hx as [->|Hx]; auto.
Qed.

Lemma update_vals_id vals nc :
  filter (fun k => is_some (lookup nc k)) (map fst vals) = [] -> update_vals vals nc = vals.
Proof.
  intros H. pose proof (filter_nil _ _ H) as Hn. clear H.
  unfold update_vals. induction vals as [|[k v] vals IH]; cbn; auto.
  rewrite IH by (intros x Hx; apply Hn; cbn; auto).
  specialize (Hn k (or_introl eq_refl)). cbn in Hn. destruct (lookup nc k); [discriminate|reflexivity].
Qed.

Definition cc_joint (nc : list (ident * Q)) :=
  fix go (l : list (ident * scope)) (ks : list cst) : list (ident * scope) * list cst * bool :=
    match l with
    | [] => ([], [], false)
    | (x, sub) :: r =>
        let a := cc sub (hd cempty ks) nc in
        let '(l', ks', w) := go r (tl ks) in
        ((x, ch_scope a) :: l', ch_cst a :: ks', ch_warned a || w)
    end.

Lemma cc_joint_eq l c nc :
  cc (SJoint l) c nc =
  let '(l', ks', w) := cc_joint nc l (c_kids c) in mkChanged (SJoint l') (CNode [] None None ks') false w.
Proof. reflexivity. Qed.

Lemma cc_scope_rebuild : forall s c nc,
  ch_scope (cc s c nc) = rebuild s nc /\ (ch_same (cc s c nc) = true -> rebuild s nc = s).
Proof.
  induction s using scope_ind'; intros c nc.
  - cbn. destruct (filter _ (map fst vals)) eqn:E; cbn.
    + rewrite (update_vals_id _ _ E). auto.
    + split; [reflexivity|discriminate].
  - cbn. destruct (IHs (kid0 c) nc) as [E1 E2].
    destruct (ch_same (cc s (kid0 c) nc)) eqn:Es; cbn.
    + rewrite (E2 eq_refl). auto.
    + rewrite E1. split; [reflexivity|discriminate].
  - cbn. destruct (IHs (kid0 c) nc) as [E1 _]. rewrite E1. split; [reflexivity|discriminate].
  - rewrite cc_joint_eq. cbn [rebuild].
    assert (forall ks, fst (fst (cc_joint nc l ks)) = map (fun p => (fst p, rebuild (snd p) nc)) l) as Hl.
    { induction H as [|[x sub] l Hs Hl IH]; intros ks; [reflexivity|].
      cbn [cc_joint map fst snd]. specialize (IH (tl ks)).
      destruct (cc_joint nc l (tl ks)) as [[l' ks'] w]. cbn in *. rewrite IH.
      destruct (Hs (hd cempty ks) nc) as [E1 _]. now rewrite E1. }
    specialize (Hl (c_kids c)). destruct (cc_joint nc l (c_kids c)) as [[l' ks'] w]. cbn in *.
    rewrite Hl. split; [reflexivity|discriminate].
Qed.

Lemma cc_warned : forall s c nc, ch_warned (cc s c nc) = changes_non_volatile s nc.
Proof.
  induction s using scope_ind'; intros c nc.
  - cbn [cc changes_non_volatile]. destruct (filter _ (map fst vals)) as [|k0 r0] eqn:E.
    + cbn [ch_warned]. pose proof (filter_nil _ _ E) as Hn. symmetry. clear E.
      induction (map fst vals) as [|k ks IH]; [reflexivity|]. cbn [existsb].
      rewrite (Hn k (or_introl eq_refl)). cbn. apply IH. intros x Hx. apply Hn. cbn; auto.
    + cbn [ch_warned]. rewrite <- E. clear E. induction (map fst vals) as [|k ks IH]; [reflexivity|].
      cbn [filter existsb]. destruct (is_some (lookup nc k)); cbn [existsb andb orb]; rewrite IH; reflexivity.
  - cbn. rewrite <- (IHs (kid0 c) nc). destruct (ch_same _); reflexivity.
  - cbn. apply IHs.
  - rewrite cc_joint_eq. cbn [changes_non_volatile].
    assert (forall ks, snd (cc_joint nc l ks) = existsb (fun p => changes_non_volatile (snd p) nc) l) as Hl.
    { induction H as [|[x sub] l Hs Hl IH]; intros ks; [reflexivity|].
      cbn [cc_joint existsb snd]. specialize (IH (tl ks)).
      destruct (cc_joint nc l (tl ks)) as [[l' ks'] w]. cbn in *. now rewrite IH, Hs. }
    specialize (Hl (c_kids c)). destruct (cc_joint nc l (c_kids c)) as [[l' ks'] w]. cbn in *. exact Hl.
Qed.

(* ================================================================ volatility (cache-free access path) *)
Require Import QV.C13.Pure.

Lemma mem_nodupN x l : mem x (nodupN l) = mem x l.
Proof.
  induction l as [|y l IH]; [reflexivity|]. cbn [nodupN].
  destruct (mem y l) eqn:E; rewrite ?mem_cons, IH; auto.
  destruct (N.eqb x y) eqn:E2; auto. apply N.eqb_eq in E2; subst. now rewrite E.
Qed.

Lemma mem_removeN x n l : mem x (removeN n l) = mem x l && negb (N.eqb x n).
Proof. unfold removeN. apply mem_filter. Qed.

Lemma existsb_mem_true f x l : mem x l = true -> f x = true -> existsb f l = true.
Proof.
  intros H1 H2. apply existsb_exists. exists x. split; auto. now apply mem_spec.
Qed.

Lemma existsb_nodupN f l : existsb f (nodupN l) = existsb f l.
Proof.
  induction l as [|y l IH]; [reflexivity|]. cbn [nodupN existsb].
  destruct (mem y l) eqn:E; cbn [existsb]; rewrite IH; auto.
  destruct (f y) eqn:Ef; auto. cbn. eapply existsb_mem_true; eauto.
Qed.

Lemma existsb_ext' {A} (f g : A -> bool) l : (forall x, f x = g x) -> existsb f l = existsb g l.
Proof. intros H. induction l; cbn; auto. now rewrite H, IHl. Qed.

Lemma nodup_keys_cons {A} x (a : A) l : nodup_keys ((x, a) :: l) = true -> lookup l x = None /\ nodup_keys l = true.
Proof.
  cbn. intros H. apply andb_prop in H as [H1 H2]. split; auto. destruct (lookup l x); [discriminate|reflexivity].
Qed.

Lemma lookup_dict_set {A} (d : list (ident * A)) n v x :
  lookup (dict_set d n v) x = if N.eqb n x then Some v else lookup d x.
Proof.
  induction d as [|[y a] d IH]; cbn.
  - reflexivity.
  - destruct (N.eqb y n) eqn:Eyn; cbn.
    + apply N.eqb_eq in Eyn; subst y. destruct (N.eqb n x); reflexivity.
    + rewrite IH. destruct (N.eqb y x) eqn:Eyx; auto.
      destruct (N.eqb n x) eqn:Enx; auto.
      apply N.eqb_eq in Eyx, Enx. subst. rewrite N.eqb_refl in Eyn. discriminate.
Qed.

Lemma lookup_remove_key {A} (d : list (ident * A)) n x :
  lookup (remove_key n d) x = if N.eqb n x then None else lookup d x.
Proof.
  induction d as [|[y a] d IH]; cbn.
  - now destruct (N.eqb n x).
  - destruct (N.eqb y n) eqn:Eyn; cbn.
    + apply N.eqb_eq in Eyn; subst y. fold (remove_key n d). rewrite IH. destruct (N.eqb n x); reflexivity.
    + fold (remove_key n d). rewrite IH. destruct (N.eqb y x) eqn:Eyx; auto. destruct (N.eqb n x) eqn:Enx; auto.
      apply N.eqb_eq in Eyx, Enx. subst. rewrite N.eqb_refl in Eyn. discriminate.
Qed.

Lemma lookup_map_self {A} (f : ident -> A) l x :
  lookup (map (fun v => (v, f v)) l) x = if mem x l then Some (f x) else None.
Proof.
  induction l as [|y l IH]; [reflexivity|]. cbn [map lookup]. rewrite mem_cons, (N.eqb_sym x y).
  destruct (N.eqb y x) eqn:E; cbn [orb]; auto. apply N.eqb_eq in E. now subst.
Qed.

Definition nonvol_vars (iv : list (ident * expr)) (e : expr) : list ident :=
  filter (fun y => negb (is_some (lookup iv y))) (vars e).
Definition dep_expr (iv : list (ident * expr)) (e : expr) : bool :=
  existsb (fun y => is_some (lookup iv y)) (vars e).

(* the dictionary built by the loop of _collect_volatile_parameters *)
Lemma pcollect_spec g iv : forall m acc ve,
  nodup_keys m = true -> pcollect g iv m acc = Ok ve ->
  forall x, match lookup m x with
            | Some e =>
                if dep_expr iv e
                then exists env, pfold g (nonvol_vars iv e) [] = Ok env
                                 /\ lookup ve x = Some (subst (vol_subst iv env) e)
                else lookup ve x = None
            | None => lookup ve x = lookup acc x
            end.
Proof.
  induction m as [|[p e] m IH]; intros acc ve Hnd H x.
  - cbn in H. injection H as <-. reflexivity.
  - apply nodup_keys_cons in Hnd as [Hp Hnd]. cbn [pcollect] in H. cbn [lookup].
    fold (dep_expr iv e) in H. fold (nonvol_vars iv e) in H.
    destruct (dep_expr iv e) eqn:Ed.
    + destruct (pfold g (nonvol_vars iv e) []) as [env|] eqn:Ef; [|discriminate].
      specialize (IH _ _ Hnd H x).
      destruct (N.eqb p x) eqn:Epx.
      * apply N.eqb_eq in Epx; subst x. rewrite Hp in IH. rewrite Ed. exists env. split; [exact Ef|].
        rewrite IH, lookup_dict_set, N.eqb_refl. reflexivity.
      * destruct (lookup m x); auto. rewrite IH, lookup_dict_set, Epx. reflexivity.
    + specialize (IH _ _ Hnd H x).
      destruct (N.eqb p x) eqn:Epx.
      * apply N.eqb_eq in Epx; subst x. rewrite Hp in IH. rewrite Ed, IH, lookup_remove_key, N.eqb_refl. reflexivity.
      * destruct (lookup m x); auto. rewrite IH, lookup_remove_key, Epx. reflexivity.
Qed.

Definition pvolx_joint :=
  fix go (l : list (ident * scope)) (acc : list (ident * expr)) : result (list (ident * expr)) :=
    match l with
    | [] => Ok acc
    | (x, sub) :: l' =>
        match pvolx sub with
        | Ok iv => go l' (match lookup iv x with Some e => dict_set acc x e | None => acc end)
        | Err e => Err e
        end
    end.

Definition dep_joint (x : ident) :=
  fix go (l : list (ident * scope)) : bool :=
    match l with
    | [] => false
    | (y, sub) :: l' => if N.eqb y x then depends_on_volatile sub x else go l'
    end.

Lemma dep_joint_none x l : lookup l x = None -> dep_joint x l = false.
Proof.
  induction l as [|[y sub] l IH]; [reflexivity|]. cbn. destruct (N.eqb y x); [discriminate|auto].
Qed.

Lemma pvolx_depends : forall s, wf_scope s = true -> forall ve, pvolx s = Ok ve ->
  forall x, is_some (lookup ve x) = depends_on_volatile s x.
Proof.
  induction s using scope_ind'; intros Hwf ve Hv x.
  - cbn in Hv. injection Hv as <-. cbn. rewrite lookup_map_self, mem_nodupN. now destruct (mem x vl).
  - cbn [wf_scope] in Hwf. apply andb_prop in Hwf as [Hwo Hwm].
    cbn [pvolx] in Hv. destruct (pvolx s) as [iv|] eqn:Ei; [|discriminate].
    specialize (IHs Hwo iv eq_refl).
    assert (forall e, dep_expr iv e = existsb (depends_on_volatile s) (free_vars e)) as Hex.
    { intros e. unfold dep_expr, vars. rewrite existsb_nodupN. apply existsb_ext'. exact IHs. }
    cbn [depends_on_volatile].
    destruct iv as [|a r].
    + injection Hv as <-. cbn [lookup is_some]. destruct (lookup m x).
      * rewrite <- Hex. unfold dep_expr. induction (vars e); cbn; auto.
      * apply IHs.
    + pose proof (pcollect_spec _ _ _ _ _ Hwm Hv x) as Hs. destruct (lookup m x) as [e|].
      * rewrite <- Hex. destruct (dep_expr (a :: r) e).
        -- destruct Hs as [env [_ ->]]. reflexivity.
        -- now rewrite Hs.
      * rewrite Hs. apply IHs.
  - cbn in Hv. destruct (pvolx s) as [iv|] eqn:Ei; [|discriminate]. cbn in Hv. injection Hv as <-.
    cbn [depends_on_volatile]. rewrite lookup_remove_key, (N.eqb_sym x n). destruct (N.eqb n x); [reflexivity|].
    apply (IHs Hwf iv eq_refl).
  - cbn [wf_scope] in Hwf. apply andb_prop in Hwf as [Hnd Hwl].
    change (pvolx (SJoint l)) with (pvolx_joint l []) in Hv.
    change (depends_on_volatile (SJoint l) x) with (dep_joint x l).
    assert (forall acc ve, pvolx_joint l acc = Ok ve ->
              is_some (lookup ve x) = is_some (lookup acc x) || dep_joint x l) as Hl.
    { clear Hv ve. induction H as [|[y sub] l Hs Hl IH]; intros acc ve Hv.
      - cbn in Hv. injection Hv as <-. cbn. now rewrite orb_false_r.
      - apply nodup_keys_cons in Hnd as [Hy Hnd]. cbn [forallb snd] in Hwl. apply andb_prop in Hwl as [Hws Hwl].
        cbn [pvolx_joint] in Hv. destruct (pvolx sub) as [iv|] eqn:Ei; [|discriminate].
        cbn [snd] in Hs. specialize (Hs Hws iv Ei).
        rewrite (IH Hnd Hwl _ _ Hv). cbn [dep_joint].
        destruct (N.eqb y x) eqn:Eyx.
        + apply N.eqb_eq in Eyx; subst y. rewrite (dep_joint_none _ _ Hy), orb_false_r, <- Hs.
          destruct (lookup iv x); [|now rewrite orb_false_r]. rewrite lookup_dict_set, N.eqb_refl. cbn.
          now rewrite orb_true_r.
        + destruct (lookup iv y); [|reflexivity]. rewrite lookup_dict_set, Eyx. reflexivity. }
    rewrite (Hl [] ve Hv). reflexivity.
Qed.

Lemma pvol_depends : forall s, wf_scope s = true -> forall ks, pvol s = Ok ks ->
  forall x, mem x ks = depends_on_volatile s x.
Proof.
  intros s Hwf ks Hv x. unfold pvol in Hv. destruct (pvolx s) as [ve|] eqn:Ev; [|discriminate].
  cbn in Hv. injection Hv as <-. rewrite <- lookup_mem. exact (pvolx_depends s Hwf ve Ev x).
Qed.
