(* C13 — proof scripts. *)
From Coq Require Import ZArith NArith QArith Bool List Lia.
Require Import QV.C13.Model QV.C13.Spec.
Import ListNotations.

(* ---------------------------------------------------------------- induction principle for the nested type *)
Section ScopeInd.
  Variable P : scope -> Prop.
  Hypothesis HD : forall vals vl, P (SDict vals vl).
  Hypothesis HM : forall o m, P o -> P (SMapped o m).
  Hypothesis HR : forall i n v, P i -> P (SRange i n v).
  Hypothesis HJ : forall l, Forall (fun p => P (snd p)) l -> P (SJoint l).

  Fixpoint scope_ind' (s : scope) : P s :=
    match s with
    | SDict vals vl => HD vals vl
    | SMapped o m => HM o m (scope_ind' o)
    | SRange i n v => HR i n v (scope_ind' i)
    | SJoint l =>
        HJ l ((fix go (l : list (ident * scope)) : Forall (fun p => P (snd p)) l :=
                 match l with
                 | [] => Forall_nil _
                 | p :: r => Forall_cons p (scope_ind' (snd p)) (go r)
                 end) l)
    end.
End ScopeInd.

Arguments mem : simpl never.
Arguments union : simpl never.

Lemma mem_spec x l : mem x l = true <-> In x l.
Proof.
  unfold mem. rewrite existsb_exists. split.
  - intros [y [Hy E]]. apply N.eqb_eq in E. subst; auto.
  - intros H. exists x. split; auto. apply N.eqb_refl.
Qed.

Lemma mem_cons x y l : mem x (y :: l) = N.eqb x y || mem x l.
Proof. reflexivity. Qed.

Lemma mem_app x a b : mem x (a ++ b) = mem x a || mem x b.
Proof. unfold mem. apply existsb_app. Qed.

Lemma lookup_mem {A} (l : list (ident * A)) x : is_some (lookup l x) = mem x (map fst l).
Proof.
  induction l as [|[y a] l IH]; [reflexivity|].
  cbn [lookup map fst]. rewrite mem_cons, (N.eqb_sym x y). destruct (N.eqb y x); cbn; auto.
Qed.

Lemma mem_filter x f l : mem x (filter f l) = mem x l && f x.
Proof.
  induction l as [|y l IH]; [reflexivity|].
  cbn [filter]. destruct (f y) eqn:E; rewrite ?mem_cons, IH.
  - destruct (N.eqb x y) eqn:E2; cbn; auto. apply N.eqb_eq in E2; subst. now rewrite E.
  - destruct (N.eqb x y) eqn:E2; cbn; auto. apply N.eqb_eq in E2; subst. rewrite E. now rewrite andb_false_r.
Qed.

Lemma mem_union x a b : mem x (union a b) = mem x a || mem x b.
Proof.
  unfold union. rewrite mem_app, mem_filter.
  destruct (mem x a); cbn; auto. now rewrite andb_true_r.
Qed.

Lemma contains_domain : forall s x, contains s x = mem x (domain s).
Proof.
  induction s using scope_ind'; intros x; cbn.
  - apply lookup_mem.
  - rewrite mem_union, IHs, lookup_mem. reflexivity.
  - rewrite IHs. destruct (mem n (domain s)) eqn:E.
    + destruct (N.eqb x n) eqn:E2; cbn; auto. apply N.eqb_eq in E2; subst. now rewrite E.
    + rewrite mem_app, mem_cons. cbn. rewrite !orb_false_r. apply orb_comm.
  - clear H. induction l as [|[y sub] l IH]; [reflexivity|].
    cbn [existsb map fst]. rewrite mem_cons, (N.eqb_sym x y), IH. reflexivity.
Qed.
