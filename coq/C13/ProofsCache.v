(* C13 — cache refinement: the model with memoisation fields as state returns, from every state that satisfies
   the invariant `cache_ok` (in particular from every reachable state), what the cache-free access paths return. *)
From Coq Require Import ZArith NArith QArith Bool List Lia.
Require Import QV.C13.Model QV.C13.Pure QV.C13.Spec QV.C13.Proofs.
Import ListNotations.

Arguments mem : simpl never.
Arguments union : simpl never.

Fixpoint kids_ok (P : scope -> cst -> Prop) (l : list (ident * scope)) (ks : list cst) : Prop :=
  match l with
  | [] => True
  | (_, sub) :: l' => P sub (hd cempty ks) /\ kids_ok P l' (tl ks)
  end.

Fixpoint cache_ok (s : scope) (c : cst) {struct s} : Prop :=
  match s with
  | SDict _ _ => True
  | SMapped o m =>
      (forall x v, lookup (c_cache c) x = Some v -> pget (SMapped o m) x = Ok v)
      /\ (forall d, c_asd c = Some d -> pasd (SMapped o m) = Ok d)
      /\ (forall ks, c_vc c = Some ks -> pvolx (SMapped o m) = Ok ks)
      /\ cache_ok o (kid0 c)
  | SRange i n v =>
      (forall d, c_asd c = Some d -> pasd (SRange i n v) = Ok d) /\ cache_ok i (kid0 c)
  | SJoint l =>
      (forall d, c_asd c = Some d -> pasd (SJoint l) = Ok d)
      /\ (forall ks, c_vc c = Some ks -> pvolx (SJoint l) = Ok ks)
      /\ (fix all (l : list (ident * scope)) (ks : list cst) : Prop :=
            match l with
            | [] => True
            | (_, sub) :: l' => cache_ok sub (hd cempty ks) /\ all l' (tl ks)
            end) l (c_kids c)
  end.

Lemma cache_ok_joint l c :
  cache_ok (SJoint l) c <->
  (forall d, c_asd c = Some d -> pasd (SJoint l) = Ok d)
  /\ (forall ks, c_vc c = Some ks -> pvolx (SJoint l) = Ok ks)
  /\ kids_ok cache_ok l (c_kids c).
Proof.
  cbn [cache_ok]. generalize (c_kids c). intros ks.
  assert ((fix all (l : list (ident * scope)) (ks : list cst) : Prop :=
            match l with
            | [] => True
            | (_, sub) :: l' => cache_ok sub (hd cempty ks) /\ all l' (tl ks)
            end) l ks <-> kids_ok cache_ok l ks) as E.
  { revert ks. induction l as [|[x sub] l IH]; intros ks; cbn; [tauto|]. rewrite IH. tauto. }
  rewrite E. tauto.
Qed.

Lemma cache_ok_empty : forall s, cache_ok s cempty.
Proof.
  induction s using scope_ind'.
  - exact I.
  - cbn. repeat split; try discriminate. exact IHs.
  - cbn. repeat split; try discriminate. exact IHs.
  - apply cache_ok_joint. cbn. repeat split; try discriminate.
    induction H as [|[x sub] l Hs Hl IH]; cbn; auto.
Qed.

Lemma lookup_app {A} (a b : list (ident * A)) y :
  lookup (a ++ b) y = match lookup a y with Some w => Some w | None => lookup b y end.
Proof. induction a as [|[z u] a IH]; cbn; auto. destruct (N.eqb z y); auto. Qed.

(* generic: a getter that refines pg under an invariant I *)
Definition refines (I : cst -> Prop) (g : cst -> ident -> result Q * cst) (pg : ident -> result Q) : Prop :=
  forall c x, I c -> fst (g c x) = pg x /\ I (snd (g c x)).

Lemma fold_get_refines I g pg : refines I g pg ->
  forall xs c acc, I c -> fst (fold_get g xs c acc) = pfold pg xs acc /\ I (snd (fold_get g xs c acc)).
Proof.
  intros Hr. induction xs as [|y ys IH]; intros c acc Hc; cbn.
  - auto.
  - destruct (Hr c y Hc) as [E1 E2]. destruct (g c y) as [r c']. cbn in E1, E2. subst r.
    destruct (pg y); cbn; auto.
Qed.

Lemma collect_refines I g pg iv : refines I g pg ->
  forall m c acc, I c -> fst (collect g iv m c acc) = pcollect pg iv m acc /\ I (snd (collect g iv m c acc)).
Proof.
  intros Hr. induction m as [|[p e] m IH]; intros c acc Hc; cbn [collect pcollect].
  - auto.
  - destruct (existsb (fun y => is_some (lookup iv y)) (vars e)).
    + destruct (fold_get_refines I g pg Hr (filter (fun y => negb (is_some (lookup iv y))) (vars e)) c [] Hc) as [E1 E2].
      destruct (fold_get g _ c []) as [r c']. cbn in E1, E2. subst r.
      destruct (pfold pg _ []); cbn; auto.
    + apply IH; auto.
Qed.

Lemma pfold_lookup g : forall xs acc d, pfold g xs acc = Ok d ->
  (forall y w, lookup acc y = Some w -> g y = Ok w) -> forall y w, lookup d y = Some w -> g y = Ok w.
Proof.
  induction xs as [|z xs IH]; intros acc d H Hacc y w Hy; cbn in H.
  - injection H as <-. eauto.
  - destruct (g z) as [v|] eqn:Ez; [|discriminate]. eapply IH; eauto.
    intros y' w' Hl. rewrite lookup_app in Hl. destruct (lookup acc y') eqn:E.
    + injection Hl as <-. eauto.
    + cbn in Hl. destruct (N.eqb z y') eqn:E2; [|discriminate]. injection Hl as <-.
      apply N.eqb_eq in E2. now subst.
Qed.

(* ---------------------------------------------------------------- get *)
Definition get_joint (x : ident) :=
  fix go (l : list (ident * scope)) (ks : list cst) : result Q * list cst :=
    match l with
    | [] => (Err EMissing, ks)
    | (y, sub) :: l' =>
        if N.eqb y x then let '(r, k') := get sub (hd cempty ks) x in (r, k' :: tl ks)
        else let '(r, ks') := go l' (tl ks) in (r, hd cempty ks :: ks')
    end.

Lemma get_joint_eq l c x :
  get (SJoint l) c x = let '(r, ks) := get_joint x l (c_kids c) in (r, set_kids c ks).
Proof. reflexivity. Qed.

Definition pget_joint' (x : ident) :=
  fix go (l : list (ident * scope)) : result Q :=
    match l with
    | [] => Err EMissing
    | (y, sub) :: l' => if N.eqb y x then pget sub x else go l'
    end.

Lemma get_refines : forall s, refines (cache_ok s) (get s) (pget s).
Proof.
  induction s using scope_ind'; intros c x Hc.
  - cbn. auto.
  - destruct Hc as (Hca & Hasd & Hvc & Hko).
    cbn [get]. destruct (lookup (c_cache c) x) as [v|] eqn:El.
    + cbn. split; [symmetry; apply Hca; exact El|]. repeat split; assumption.
    + assert (forall r co, r = pget (SMapped s m) x -> cache_ok s co ->
                cache_ok (SMapped s m) (CNode (match r with Ok v => c_cache c ++ [(x, v)] | Err _ => c_cache c end)
                                              (c_asd c) (c_vc c) (co :: tl (c_kids c)))) as Hnew.
      { intros r co Hr Hco. cbn [cache_ok c_cache c_asd c_vc kid0 c_kids hd]. repeat split; auto.
        intros y w Hy. destruct r as [v|]; [|eauto].
        rewrite lookup_app in Hy. destruct (lookup (c_cache c) y) eqn:E.
        - injection Hy as <-. eauto.
        - cbn in Hy. destruct (N.eqb x y) eqn:E2; [|discriminate]. injection Hy as <-.
          apply N.eqb_eq in E2. subst y. now symmetry. }
      destruct (lookup m x) as [e|] eqn:Em.
      * destruct (fold_get_refines _ _ _ IHs (vars e) (kid0 c) [] Hko) as [E1 E2].
        destruct (fold_get (get s) (vars e) (kid0 c) []) as [renv co]. cbn in E1, E2.
        cbn [fst snd]. assert (match renv with Ok env => eval_env env e | Err er => Err er end
                               = pget (SMapped s m) x) as Hr.
        { cbn [pget]. rewrite Em, <- E1. reflexivity. }
        split; [exact Hr|]. apply Hnew; auto.
      * destruct (IHs (kid0 c) x Hko) as [E1 E2].
        destruct (get s (kid0 c) x) as [r co]. cbn in E1, E2. cbn [fst snd].
        assert (r = pget (SMapped s m) x) as Hr by (cbn [pget]; rewrite Em; exact E1).
        split; [exact Hr|]. apply Hnew; auto.
  - destruct Hc as (Hasd & Hki). cbn [get pget]. destruct (N.eqb x n).
    + cbn. repeat split; auto.
    + destruct (IHs (kid0 c) x Hki) as [E1 E2]. destruct (get s (kid0 c) x) as [r ci]. cbn in *.
      repeat split; auto.
  - apply cache_ok_joint in Hc. destruct Hc as (Hasd & Hvc & Hk).
    rewrite get_joint_eq. change (pget (SJoint l) x) with (pget_joint' x l).
    assert (forall ks, kids_ok cache_ok l ks ->
              fst (get_joint x l ks) = pget_joint' x l /\ kids_ok cache_ok l (snd (get_joint x l ks))) as Hl.
    { clear Hk Hasd Hvc. induction H as [|[y sub] l Hs Hl IH]; intros ks Hks.
      - cbn. auto.
      - destruct Hks as [Hk1 Hk2]. cbn [get_joint pget_joint']. destruct (N.eqb y x).
        + destruct (Hs (hd cempty ks) x Hk1) as [E1 E2]. cbn [snd] in *.
          destruct (get sub (hd cempty ks) x) as [r k']. cbn in *. auto.
        + destruct (IH (tl ks) Hk2) as [E1 E2]. destruct (get_joint x l (tl ks)) as [r ks']. cbn in *. auto. }
    destruct (Hl (c_kids c) Hk) as [E1 E2]. destruct (get_joint x l (c_kids c)) as [r ks]. cbn [fst snd] in *.
    split; [exact E1|]. apply cache_ok_joint. cbn [set_kids c_asd c_vc c_kids]. auto.
Qed.

(* ---------------------------------------------------------------- keys / as_dict *)
Lemma range_asd_refines i n v c (inner : cst -> result (list (ident * Q)) * cst) :
  (forall ci, cache_ok i ci -> fst (inner ci) = pasd i /\ cache_ok i (snd (inner ci))) ->
  cache_ok (SRange i n v) c ->
  fst (range_asd n v c inner) = pasd (SRange i n v) /\ cache_ok (SRange i n v) (snd (range_asd n v c inner)).
Proof.
  intros Hin (Hasd & Hki). unfold range_asd. destruct (c_asd c) as [d|] eqn:Ea.
  - cbn. split; [symmetry; auto|]. split; [|exact Hki]. intros d0 Hd0. rewrite Ea in Hd0. exact (Hasd d0 Hd0).
  - destruct (Hin (kid0 c) Hki) as [E1 E2]. destruct (inner (kid0 c)) as [r ci]. cbn in E1, E2. subst r.
    cbn [pasd]. destruct (pasd i) as [d|] eqn:Ep; cbn.
    + split; [reflexivity|]. split; [|exact E2]. intros d' Hd'. injection Hd' as <-. cbn [pasd]. rewrite Ep. reflexivity.
    + split; [reflexivity|]. split; [|exact E2]. rewrite Ea. discriminate.
Qed.

Lemma keys_asd_refines : forall s c, cache_ok s c ->
  (fst (keys s c) = pkeys s /\ cache_ok s (snd (keys s c))) /\
  (fst (as_dict s c) = pasd s /\ cache_ok s (snd (as_dict s c))).
Proof.
  induction s using scope_ind'; intros c Hc.
  - cbn. auto.
  - pose proof Hc as (Hca & Hasd & Hvc & Hko).
    destruct (IHs (kid0 c) Hko) as [[K1 K2] _].
    assert (cache_ok (SMapped s m) (set_kid0 c (snd (keys s (kid0 c))))) as Hc1.
    { cbn. repeat split; auto. }
    split.
    + cbn [keys pkeys]. destruct (keys s (kid0 c)) as [r co]. cbn in *. rewrite K1. auto.
    + cbn [as_dict]. destruct (c_asd c) as [d|] eqn:Ea.
      * cbn. split; [symmetry; auto|exact Hc].
      * destruct (keys s (kid0 c)) as [rk co]. cbn [fst snd] in *. subst rk. cbn [pasd].
        destruct (pkeys s) as [ks|] eqn:Epk; [|cbn; auto].
        destruct (fold_get_refines _ _ _ (get_refines (SMapped s m)) (union (map fst m) ks) _ [] Hc1) as [E1 E2].
        destruct (fold_get (get (SMapped s m)) (union (map fst m) ks) (set_kid0 c co) []) as [rd c2].
        cbn [fst snd] in E1, E2. subst rd.
        destruct (pfold (pget (SMapped s m)) (union (map fst m) ks) []) as [d|] eqn:Ep; cbn [fst snd].
        -- split; [reflexivity|]. destruct E2 as (_ & _ & Hvc2 & Hko2).
           cbn [cache_ok c_cache c_asd c_vc kid0 c_kids]. repeat split; auto.
           ++ intros y w Hy. eapply pfold_lookup; eauto. intros ? ? Hn. discriminate.
           ++ intros d' Hd'. injection Hd' as <-. cbn [pasd]. rewrite Epk. exact Ep.
        -- auto.
  - pose proof Hc as (Hasd & Hki).
    assert (forall ci, cache_ok s ci -> fst (as_dict s ci) = pasd s /\ cache_ok s (snd (as_dict s ci))) as Hin.
    { intros ci Hci. apply (IHs ci Hci). }
    destruct (range_asd_refines s n v c (as_dict s) Hin Hc) as [E1 E2].
    split; [|cbn [as_dict]; auto].
    cbn [keys pkeys]. destruct (range_asd n v c (as_dict s)) as [r c']. cbn in *. subst r. auto.
  - split; [cbn; auto|]. pose proof Hc as Hc'. apply cache_ok_joint in Hc'. destruct Hc' as (Hasd & Hvc & Hk).
    cbn [as_dict]. destruct (c_asd c) as [d|] eqn:Ea.
    + cbn. split; [symmetry; auto|exact Hc].
    + destruct (fold_get_refines _ _ _ (get_refines (SJoint l)) (map fst l) c [] Hc) as [E1 E2].
      destruct (fold_get (get (SJoint l)) (map fst l) c []) as [rd c2]. cbn [fst snd] in E1, E2. subst rd.
      cbn [pasd]. destruct (pfold (pget (SJoint l)) (map fst l) []) as [d|] eqn:Ep; cbn [fst snd]; [|auto].
      split; [reflexivity|]. apply cache_ok_joint in E2. destruct E2 as (_ & Hvc2 & Hk2).
      apply cache_ok_joint. cbn [c_asd c_vc c_kids]. repeat split; auto.
      intros d' Hd'. injection Hd' as <-. cbn [pasd]. exact Ep.
Qed.

(* ---------------------------------------------------------------- iter / len / items *)
Lemma iter_refines : forall s c, cache_ok s c -> fst (iter s c) = piter s /\ cache_ok s (snd (iter s c)).
Proof.
  induction s using scope_ind'; intros c Hc.
  - cbn. auto.
  - exact (proj1 (keys_asd_refines (SMapped s m) c Hc)).
  - destruct Hc as (Hasd & Hki). destruct (IHs (kid0 c) Hki) as [E1 E2].
    cbn [iter piter]. destruct (iter s (kid0 c)) as [r ci]. cbn in *. subst r. auto.
  - cbn. auto.
Qed.

Lemma len_refines : forall s c, cache_ok s c -> fst (len s c) = plen s /\ cache_ok s (snd (len s c)).
Proof.
  induction s using scope_ind'; intros c Hc.
  - cbn. auto.
  - destruct (proj1 (keys_asd_refines (SMapped s m) c Hc)) as [E1 E2].
    cbn [len plen]. destruct (keys (SMapped s m) c) as [r c']. cbn [fst snd] in *. subst r. auto.
  - destruct Hc as (Hasd & Hki). destruct (IHs (kid0 c) Hki) as [E1 E2].
    cbn [len plen]. destruct (len s (kid0 c)) as [r ci]. cbn in *. subst r. auto.
  - cbn. auto.
Qed.

Lemma items_refines : forall s c, cache_ok s c -> fst (items s c) = pitems s /\ cache_ok s (snd (items s c)).
Proof.
  intros s c Hc. destruct s; try exact (proj2 (keys_asd_refines _ c Hc)).
  unfold items, pitems. apply (fold_get_refines _ _ _ (get_refines (SJoint l))). exact Hc.
Qed.

(* ---------------------------------------------------------------- get_volatile_parameters *)
Definition volx_joint :=
  fix go (l : list (ident * scope)) (ks : list cst) (acc : list (ident * expr))
    : result (list (ident * expr)) * list cst :=
    match l with
    | [] => (Ok acc, ks)
    | (x, sub) :: l' =>
        let '(r, k') := volx sub (hd cempty ks) in
        match r with
        | Ok iv => let '(r2, ks2) := go l' (tl ks) (match lookup iv x with Some e => dict_set acc x e | None => acc end) in
                   (r2, k' :: ks2)
        | Err e => (Err e, k' :: tl ks)
        end
    end.

Lemma volx_joint_eq l c :
  volx (SJoint l) c =
  match c_vc c with
  | Some ks => (Ok ks, c)
  | None => let '(r, ks) := volx_joint l (c_kids c) [] in
            match r with
            | Ok vs => (Ok vs, CNode (c_cache c) (c_asd c) (Some vs) ks)
            | Err e => (Err e, set_kids c ks)
            end
  end.
Proof. reflexivity. Qed.

(* self._scope[variable] from inside the MappedScope object *)
Lemma get_outer_refines o m : refines (cache_ok (SMapped o m)) (get_outer o) (pget o).
Proof.
  intros c x (Hca & Hasd & Hvc & Hko). unfold get_outer.
  destruct (get_refines o (kid0 c) x Hko) as [E1 E2]. destruct (get o (kid0 c) x) as [r co]. cbn [fst snd] in *.
  split; [exact E1|]. cbn. repeat split; auto.
Qed.

Lemma volx_refines : forall s c, cache_ok s c -> fst (volx s c) = pvolx s /\ cache_ok s (snd (volx s c)).
Proof.
  induction s using scope_ind'; intros c Hc.
  - cbn. auto.
  - pose proof Hc as (Hca & Hasd & Hvc & Hko).
    assert (forall co, cache_ok s co -> cache_ok (SMapped s m) (set_kid0 c co)) as Hset
      by (intros co0 Hco0; cbn; repeat split; auto).
    cbn [volx]. destruct (c_vc c) as [ks|] eqn:Ev.
    + cbn. split; [symmetry; auto|exact Hc].
    + destruct (IHs (kid0 c) Hko) as [E1 E2].
      destruct (volx s (kid0 c)) as [riv co]. cbn [fst snd] in E1, E2. subst riv.
      pose proof (Hset co E2) as Hc1.
      cbn [pvolx]. destruct (pvolx s) as [iv|] eqn:Ep; [|cbn; auto].
      destruct iv as [|a iv'].
      * cbn [fst snd]. split; [reflexivity|]. destruct Hc1 as (H1 & H2 & H3 & H4).
        cbn [cache_ok set_vc c_cache c_asd c_vc kid0 c_kids]. repeat split; auto.
        intros ks Hks. injection Hks as <-. cbn [pvolx]. now rewrite Ep.
      * destruct (collect_refines _ _ _ (a :: iv') (get_outer_refines s m) m _ (a :: iv') Hc1) as [F1 F2].
        destruct (collect (get_outer s) (a :: iv') m (set_kid0 c co) (a :: iv')) as [r c2].
        cbn [fst snd] in F1, F2. subst r.
        destruct (pcollect (pget s) (a :: iv') m (a :: iv')) as [ks|] eqn:Ec; cbn [fst snd]; [|auto].
        split; [reflexivity|]. destruct F2 as (H1 & H2 & H3 & H4).
        cbn [cache_ok set_vc c_cache c_asd c_vc kid0 c_kids]. repeat split; auto.
        intros ks' Hks. injection Hks as <-. cbn [pvolx]. rewrite Ep. exact Ec.
  - destruct Hc as (Hasd & Hki). destruct (IHs (kid0 c) Hki) as [E1 E2].
    cbn [volx pvolx]. destruct (volx s (kid0 c)) as [r ci]. cbn in *. subst r. auto.
  - pose proof Hc as Hc'. apply cache_ok_joint in Hc'. destruct Hc' as (Hasd & Hvc & Hk).
    rewrite volx_joint_eq. destruct (c_vc c) as [ks|] eqn:Ev.
    + cbn. split; [symmetry; auto|exact Hc].
    + change (pvolx (SJoint l)) with (pvolx_joint l []).
      assert (forall ks acc, kids_ok cache_ok l ks ->
                fst (volx_joint l ks acc) = pvolx_joint l acc /\ kids_ok cache_ok l (snd (volx_joint l ks acc))) as Hl.
      { clear Hk Hasd Hvc Hc. induction H as [|[y sub] l Hs Hl IH]; intros ks acc Hks.
        - cbn. auto.
        - destruct Hks as [Hk1 Hk2]. cbn [volx_joint pvolx_joint]. cbn [snd] in Hs.
          destruct (Hs (hd cempty ks) Hk1) as [E1 E2].
          destruct (volx sub (hd cempty ks)) as [r k']. cbn [fst snd] in E1, E2. subst r.
          destruct (pvolx sub) as [iv|]; [|cbn; auto].
          destruct (IH (tl ks) (match lookup iv y with Some e => dict_set acc y e | None => acc end) Hk2) as [F1 F2].
          destruct (volx_joint l (tl ks) (match lookup iv y with Some e => dict_set acc y e | None => acc end))
            as [r2 ks2]. cbn in *. auto. }
      destruct (Hl (c_kids c) [] Hk) as [E1 E2].
      destruct (volx_joint l (c_kids c) []) as [r ks]. cbn [fst snd] in E1, E2. subst r.
      destruct (pvolx_joint l []) as [vs|] eqn:Ep; cbn [fst snd].
      * split; [reflexivity|]. apply cache_ok_joint. cbn [c_asd c_vc c_kids]. repeat split; auto.
        intros ks' Hks. injection Hks as <-. exact Ep.
      * split; [reflexivity|]. apply cache_ok_joint. cbn [set_kids c_asd c_vc c_kids]. repeat split; auto.
        rewrite Ev. discriminate.
Qed.

Lemma vol_refines : forall s c, cache_ok s c -> fst (vol s c) = pvol s /\ cache_ok s (snd (vol s c)).
Proof.
  intros s c Hc. unfold vol, pvol. destruct (volx_refines s c Hc) as [E1 E2].
  destruct (volx s c) as [r c']. cbn [fst snd] in *. subst r. auto.
Qed.

(* ---------------------------------------------------------------- change_constants *)
Lemma cc_cache_ok : forall s c nc, cache_ok s c -> cache_ok (ch_scope (cc s c nc)) (ch_cst (cc s c nc)).
Proof.
  induction s using scope_ind'; intros c nc Hc.
  - cbn. destruct (filter _ (map fst vals)); exact I.
  - destruct Hc as (Hca & Hasd & Hvc & Hko). specialize (IHs (kid0 c) nc Hko).
    destruct (cc_scope_rebuild s (kid0 c) nc) as [R1 R2].
    cbn [cc]. destruct (ch_same (cc s (kid0 c) nc)) eqn:Es; cbn [ch_scope ch_cst].
    + rewrite R1, (R2 eq_refl) in IHs. cbn. repeat split; auto.
    + cbn. repeat split; try discriminate. exact IHs.
  - destruct Hc as (Hasd & Hki). specialize (IHs (kid0 c) nc Hki).
    cbn. repeat split; try discriminate. exact IHs.
  - apply cache_ok_joint in Hc. destruct Hc as (_ & _ & Hk).
    rewrite cc_joint_eq.
    assert (forall ks, kids_ok cache_ok l ks ->
              kids_ok cache_ok (fst (fst (cc_joint nc l ks))) (snd (fst (cc_joint nc l ks)))) as Hl.
    { clear Hk. induction H as [|[y sub] l Hs Hl IH]; intros ks Hks.
      - exact I.
      - destruct Hks as [Hk1 Hk2]. cbn [cc_joint]. specialize (IH (tl ks) Hk2).
        destruct (cc_joint nc l (tl ks)) as [[l' ks'] w]. cbn in *. split; auto. }
    specialize (Hl (c_kids c) Hk). destruct (cc_joint nc l (c_kids c)) as [[l' ks'] w]. cbn [fst snd] in Hl.
    cbn [ch_scope ch_cst]. apply cache_ok_joint. cbn [c_asd c_vc c_kids]. repeat split; try discriminate. exact Hl.
Qed.

(* ---------------------------------------------------------------- histories *)
Lemma step_refines s c o : cache_ok s c ->
  fst (step (s, c) o) = fst (pstep s o) /\ fst (snd (step (s, c) o)) = snd (pstep s o)
  /\ cache_ok (fst (snd (step (s, c) o))) (snd (snd (step (s, c) o))).
Proof.
  intros Hc. destruct o; cbn [step pstep].
  - destruct (get_refines s c x Hc) as [E1 E2]. destruct (get s c x). cbn in *. subst. auto.
  - cbn. auto.
  - destruct (iter_refines s c Hc) as [E1 E2]. destruct (iter s c). cbn in *. subst. auto.
  - destruct (len_refines s c Hc) as [E1 E2]. destruct (len s c). cbn in *. subst. auto.
  - destruct (proj1 (keys_asd_refines s c Hc)) as [E1 E2]. destruct (keys s c). cbn in *. subst. auto.
  - destruct (items_refines s c Hc) as [E1 E2]. destruct (items s c). cbn in *. subst. auto.
  - destruct (proj2 (keys_asd_refines s c Hc)) as [E1 E2]. destruct (as_dict s c). cbn in *. subst. auto.
  - destruct (vol_refines s c Hc) as [E1 E2]. destruct (vol s c). cbn in *. subst. auto.
  - cbn [fst snd]. rewrite !(proj1 (cc_scope_rebuild s c nc)), !(proj1 (cc_scope_rebuild s cempty nc)), !cc_warned.
    split; [reflexivity|]. split; [reflexivity|].
    rewrite <- (proj1 (cc_scope_rebuild s c nc)). apply cc_cache_ok. exact Hc.
  - cbn. auto.
  - destruct (volx_refines s c Hc) as [E1 E2]. destruct (volx s c). cbn in *. subst. auto.
  - cbn. repeat split; try discriminate. exact Hc.
Qed.

Lemma run_refines : forall ops s c, cache_ok s c -> run (s, c) ops = prun s ops.
Proof.
  induction ops as [|o ops IH]; intros s c Hc; [reflexivity|].
  cbn [run prun]. destruct (step_refines s c o Hc) as (E1 & E2 & E3).
  destruct (step (s, c) o) as [b [s' c']]. destruct (pstep s o) as [b' s'']. cbn [fst snd] in *. subst.
  now rewrite (IH _ _ E3).
Qed.

Lemma exec_cache_ok : forall ops s c, cache_ok s c -> cache_ok (fst (exec (s, c) ops)) (snd (exec (s, c) ops)).
Proof.
  induction ops as [|o ops IH]; intros s c Hc; [exact Hc|].
  cbn [exec]. destruct (step_refines s c o Hc) as (_ & _ & E3).
  destruct (snd (step (s, c) o)) as [s' c']. apply IH. exact E3.
Qed.

Lemma history_independent s ops1 ops2 :
  run (exec (s, cempty) ops1) ops2 = run (fst (exec (s, cempty) ops1), cempty) ops2.
Proof.
  pose proof (exec_cache_ok ops1 s cempty (cache_ok_empty s)) as H.
  destruct (exec (s, cempty) ops1) as [s' c']. cbn [fst snd] in *.
  rewrite (run_refines ops2 s' c' H), (run_refines ops2 s' cempty (cache_ok_empty s')). reflexivity.
Qed.
