(* C13 — the independent specification: the mapping a scope denotes, its domain, and volatility.

   `denote_scope` builds the whole dictionary bottom-up (mapping expressions are evaluated simultaneously in the
   dictionary of the outer scope, the innermost definition of a name wins); nothing here mentions caches, lookups
   through layers, or the order in which the code asks for parameters. *)
From Coq Require Import ZArith NArith QArith Bool List.
Require Import QV.C13.Model.
Import ListNotations.

(* evaluate every mapping expression in the outer dictionary d (simultaneously: all in the same d) *)
Fixpoint eval_all (d : list (ident * Q)) (m : list (ident * expr)) : result (list (ident * Q)) :=
  match m with
  | [] => Ok []
  | (p, e) :: m' =>
      match eval (lookup d) e with
      | None => Err EMissing
      | Some v => match eval_all d m' with Ok r => Ok ((p, v) :: r) | Err er => Err er end
      end
  end.

(* d overridden by the entries of mv *)
Definition override (d mv : list (ident * Q)) : list (ident * Q) :=
  fold_left (fun acc pv => dict_set acc (fst pv) (snd pv)) mv d.

Fixpoint denote_scope (s : scope) : result (list (ident * Q)) :=
  match s with
  | SDict vals _ => Ok vals
  | SMapped o m =>
      match denote_scope o with
      | Err e => Err e
      | Ok d => match eval_all d m with Ok mv => Ok (override d mv) | Err e => Err e end
      end
  | SRange i n v => rmap (fun d => dict_set d n v) (denote_scope i)
  | SJoint l =>
      (fix go (l : list (ident * scope)) : result (list (ident * Q)) :=
         match l with
         | [] => Ok []
         | (x, sub) :: l' =>
             match denote_scope sub with
             | Err e => Err e
             | Ok d => match lookup d x with
                       | None => Err EMissing
                       | Some v => match go l' with Ok r => Ok ((x, v) :: r) | Err e => Err e end
                       end
             end
         end) l
  end.

(* the names a scope provides (independent of whether their values can be computed) *)
Fixpoint domain (s : scope) : list ident :=
  match s with
  | SDict vals _ => map fst vals
  | SMapped o m => union (map fst m) (domain o)
  | SRange i n _ => if mem n (domain i) then domain i else domain i ++ [n]
  | SJoint l => map fst l
  end.

(* x depends on a constant that is marked volatile at the top; a loop index shadows *)
Fixpoint depends_on_volatile (s : scope) (x : ident) : bool :=
  match s with
  | SDict _ vl => mem x vl
  | SMapped o m =>
      match lookup m x with
      | Some e => existsb (depends_on_volatile o) (free_vars e)
      | None => depends_on_volatile o x
      end
  | SRange i n _ => if N.eqb x n then false else depends_on_volatile i x
  | SJoint l =>
      (fix go (l : list (ident * scope)) : bool :=
         match l with
         | [] => false
         | (y, sub) :: l' => if N.eqb y x then depends_on_volatile sub x else go l'
         end) l
  end.

(* some constant that is not marked volatile is changed (=> NonVolatileChange warning) *)
Fixpoint changes_non_volatile (s : scope) (nc : list (ident * Q)) : bool :=
  match s with
  | SDict vals vl => existsb (fun k => is_some (lookup nc k) && negb (mem k vl)) (map fst vals)
  | SMapped o _ => changes_non_volatile o nc
  | SRange i _ _ => changes_non_volatile i nc
  | SJoint l => existsb (fun p => changes_non_volatile (snd p) nc) l
  end.

(* Scope.overwrite(to_overwrite): the named parameters get the given values (constants: they depend on nothing),
   every other parameter is as before *)
Definition overwritten (s : scope) (kv : list (ident * Q)) : scope :=
  SMapped s (map (fun p => (fst p, EConst (snd p))) kv).

(* the scope an operation continues on *)
Definition next_scope (s : scope) (o : op) : scope :=
  match o with
  | OChange nc => rebuild s nc
  | OOverwrite kv => overwritten s kv
  | _ => s
  end.

(* well-formedness used by the theorems: names of a dictionary are distinct at every layer *)
Fixpoint nodup_keys {A} (l : list (ident * A)) : bool :=
  match l with
  | [] => true
  | (x, _) :: r => negb (is_some (lookup r x)) && nodup_keys r
  end.

Fixpoint wf_scope (s : scope) : bool :=
  match s with
  | SDict vals vl => nodup_keys vals
  | SMapped o m => wf_scope o && nodup_keys m
  | SRange i _ _ => wf_scope i
  | SJoint l => nodup_keys l && forallb (fun p => wf_scope (snd p)) l
  end.

(* ---------------------------------------------------------------- dependency expressions of volatile parameters *)
(* the constant dictionaries (DictScope roots) a scope is built over *)
Fixpoint roots (s : scope) : list (list (ident * Q)) :=
  match s with
  | SDict vals _ => [vals]
  | SMapped o _ => roots o
  | SRange i _ _ => roots i
  | SJoint l => flat_map (fun p => roots (snd p)) l
  end.

(* an environment of constants that gives every constant of every root its value (exists iff the roots agree on
   shared names; e.g. the operand scopes of VolatileValue.operation stem from one instantiation) *)
Definition env_extends (env : ident -> option Q) (vals : list (ident * Q)) : Prop :=
  forall k v, lookup vals k = Some v -> env k = Some v.
Definition env_for (env : ident -> option Q) (s : scope) : Prop :=
  forall vals, In vals (roots s) -> env_extends env vals.

(* executable form used by the specification oracle (values compared as rationals) *)
Definition env_extends_b (env : list (ident * Q)) (vals : list (ident * Q)) : bool :=
  forallb (fun kv => match lookup env (fst kv) with Some w => Qeq_bool w (snd kv) | None => false end) vals.
Definition env_for_b (env : list (ident * Q)) (s : scope) : bool := forallb (env_extends_b env) (roots s).
