(* C13 — the property for the model with memoisation fields, in every reachable state. *)
From Coq Require Import ZArith NArith QArith Bool List Lia.
Require Import QV.C13.Model QV.C13.Pure QV.C13.Spec QV.C13.Proofs QV.C13.ProofsViews QV.C13.ProofsCache.
Import ListNotations.

Lemma views_reachable s0 ops s c d :
  exec (s0, cempty) ops = (s, c) -> wf_scope s = true -> denote_scope s = Ok d ->
  (forall x, fst (get s c x) = of_opt (lookup d x)) /\
  (forall x, contains s x = is_some (lookup d x)) /\
  fst (keys s c) = Ok (domain s) /\ fst (iter s c) = Ok (domain s) /\
  fst (len s c) = Ok (Z.of_nat (length (domain s))) /\
  exists d', fst (as_dict s c) = Ok d' /\ fst (items s c) = Ok d' /\ map fst d' = domain s /\
             forall x, lookup d' x = lookup d x.
Proof.
  intros He Hwf Hd.
  pose proof (exec_cache_ok ops s0 cempty (cache_ok_empty s0)) as Hc. rewrite He in Hc. cbn [fst snd] in Hc.
  destruct (pkeys_pasd_denote s Hwf d Hd) as [Hk [d' [Ha [Hf Hl]]]].
  destruct (piter_plen_denote s Hwf d Hd) as [Hi Hn].
  split; [intros x; rewrite (proj1 (get_refines s c x Hc)); exact (pget_denote s Hwf d Hd x)|].
  split; [intros x; rewrite contains_domain; symmetry; exact (denote_domain s Hwf d Hd x)|].
  split; [rewrite (proj1 (proj1 (keys_asd_refines s c Hc))); exact Hk|].
  split; [rewrite (proj1 (iter_refines s c Hc)); exact Hi|].
  split; [rewrite (proj1 (len_refines s c Hc)); exact Hn|].
  exists d'. rewrite (proj1 (proj2 (keys_asd_refines s c Hc))), (proj1 (items_refines s c Hc)), pitems_pasd. auto.
Qed.

Lemma volatile_reachable s0 ops s c ks :
  exec (s0, cempty) ops = (s, c) -> wf_scope s = true -> fst (vol s c) = Ok ks ->
  forall x, mem x ks = depends_on_volatile s x.
Proof.
  intros He Hwf Hv.
  pose proof (exec_cache_ok ops s0 cempty (cache_ok_empty s0)) as Hc. rewrite He in Hc. cbn [fst snd] in Hc.
  rewrite (proj1 (vol_refines s c Hc)) in Hv. exact (pvol_depends s Hwf ks Hv).
Qed.

Lemma run_fresh s ops : run (s, cempty) ops = prun s ops.
Proof. apply run_refines, cache_ok_empty. Qed.

(* non-vacuity: a three-layer stack with a loop index shadowing a volatile name denotes a mapping and has
   volatile parameters *)
Definition ex_scope : scope :=
  SMapped (SRange (SMapped (SDict [(0%N, 1#1); (1%N, 2#1)] [0%N; 1%N]) [(2%N, EAdd (EVar 0%N) (EVar 1%N))]) 0%N (5#1))
          [(3%N, EMul (EVar 0%N) (EVar 2%N)); (1%N, EConst (7#1))].

Definition is_ok_r {A} (r : result A) : bool := match r with Ok _ => true | Err _ => false end.
