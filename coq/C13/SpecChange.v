(* C13 — specification of "a scope built from the changed constants" as a relation (round 5). *)
From Coq Require Import ZArith NArith QArith Bool List.
Require Import QV.C13.Model.
Import ListNotations.

(* "s' is s built from the changed constants nc", stated as a RELATION that does not mention how a changed dictionary is
   computed (`Model.rebuild` / `Model.update_vals` are shared with the model of change_constants; C13_change_meaning
   proves that what they produce satisfies this relation): the same layers, mapping expressions, index names / values,
   joint-scope names and volatile sets; every DictScope root has the same names in the same order, and the constant k
   has the value given in nc if nc mentions k, else its old value *)
Fixpoint changed_from (nc : list (ident * Q)) (s s' : scope) {struct s} : Prop :=
  match s, s' with
  | SDict vals vl, SDict vals' vl' =>
      vl' = vl /\ map fst vals' = map fst vals /\
      forall k, lookup vals' k = match lookup vals k with
                                 | Some v => Some (match lookup nc k with Some v' => v' | None => v end)
                                 | None => None
                                 end
  | SMapped o m, SMapped o' m' => m' = m /\ changed_from nc o o'
  | SRange i n v, SRange i' n' v' => n' = n /\ v' = v /\ changed_from nc i i'
  | SJoint l, SJoint l' =>
      (fix go (l l' : list (ident * scope)) : Prop :=
         match l, l' with
         | [], [] => True
         | (x, a) :: r, (x', a') :: r' => x' = x /\ changed_from nc a a' /\ go r r'
         | _, _ => False
         end) l l'
  | _, _ => False
  end.


(* an executable solution of the relation, written without the model's `update_vals` / `rebuild` (used by check_spec to
   continue a history after change_constants; ProofsR5.built_from_changed_ok: it satisfies `changed_from`) *)
Definition changed_vals (vals nc : list (ident * Q)) : list (ident * Q) :=
  map (fun kv => match lookup nc (fst kv) with Some v' => (fst kv, v') | None => kv end) vals.

Fixpoint built_from_changed (s : scope) (nc : list (ident * Q)) : scope :=
  match s with
  | SDict vals vl => SDict (changed_vals vals nc) vl
  | SMapped o m => SMapped (built_from_changed o nc) m
  | SRange i n v => SRange (built_from_changed i nc) n v
  | SJoint l => SJoint (map (fun p => (fst p, built_from_changed (snd p) nc)) l)
  end.
