(* C13 — full histories (queries, change_constants, overwrite) on the explicit heap return what the cache-free access
   paths return; the invariant: the labelling is consistent with a registry, the store is valid for it, every registered
   id lies below the allocation counter. *)
From Coq Require Import ZArith NArith QArith Bool List Lia.
Require Import QV.C13.Model QV.C13.Pure QV.C13.Spec QV.C13.Proofs QV.C13.ProofsCache QV.C13.Heap QV.C13.ProofsHeap
               QV.C13.HeapCC.
Import ListNotations.

Arguments mem : simpl never.

Definition gext (G G' : list (N * scope)) : Prop := forall i s, lookup G i = Some s -> lookup G' i = Some s.
Definition gb (nx : N) (G : list (N * scope)) : Prop := forall i s, lookup G i = Some s -> (i < nx)%N.

Lemma gext_refl G : gext G G.
Proof. intros i s H; exact H. Qed.
Lemma gext_trans G1 G2 G3 : gext G1 G2 -> gext G2 G3 -> gext G1 G3.
Proof. intros H1 H2 i s H. auto. Qed.

Lemma reg_ok_ext G G' : gext G G' -> forall s l, reg_ok G s l -> reg_ok G' s l.
Proof.
  intros He. induction s using scope_ind'; intros lb Hr.
  - destruct Hr as [Hid _]. split; auto.
  - destruct Hr as [Hid Hro]. split; auto.
  - destruct Hr as [Hid Hri]. split; auto.
  - apply reg_ok_joint in Hr. destruct Hr as [Hid Hall]. apply reg_ok_joint. split; [auto|].
    clear Hid. revert Hall. generalize (lkids lb). induction H as [|[y sub] es Hs Hes IH]; intros ls Hall; [exact I|].
    destruct Hall as [H1 H2]. split; [exact (Hs _ H1)|exact (IH _ H2)].
Qed.

Lemma reg_all_ext G G' : gext G G' -> forall es ls, reg_all G es ls -> reg_all G' es ls.
Proof.
  intros He. induction es as [|[y sub] es IH]; intros ls Hall; [exact I|].
  destruct Hall as [H1 H2]. split; [exact (reg_ok_ext G G' He _ _ H1)|exact (IH _ H2)].
Qed.

Lemma sok_ext_back G G' st : gext G G' -> sok G' st -> sok G st.
Proof. intros He H i s Hi. exact (H i s (He i s Hi)). Qed.

(* allocation of a fresh object *)
Lemma alloc_ok G st nx s' : gb nx G -> sok G st ->
  let G' := G ++ [(nx, s')] in
  gext G G' /\ lookup G' nx = Some s' /\ sok G' (alloc st nx) /\ gb (nx + 1) G'.
Proof.
  intros Hb Hc G'. subst G'.
  assert (lookup G nx = None) as Hn.
  { destruct (lookup G nx) as [s0|] eqn:E; [|reflexivity]. specialize (Hb nx s0 E). lia. }
  split; [intros i s H; rewrite lookup_app, H; reflexivity|].
  split; [rewrite lookup_app, Hn; cbn; now rewrite N.eqb_refl|].
  split.
  - intros i s Hi. unfold alloc. rewrite sget_sset. destruct (N.eqb nx i) eqn:E; [apply node_ok_empty|].
    rewrite lookup_app in Hi. destruct (lookup G i) as [s0|] eqn:E0.
    + injection Hi as <-. exact (Hc i s0 E0).
    + cbn in Hi. rewrite E in Hi. discriminate.
  - intros i s Hi. rewrite lookup_app in Hi. destruct (lookup G i) as [s0|] eqn:E0.
    + specialize (Hb i s0 E0). lia.
    + cbn in Hi. destruct (N.eqb nx i) eqn:E; [|discriminate]. apply N.eqb_eq in E. subst. lia.
Qed.

Definition hcc_joint (nc : list (ident * Q)) :=
  fix go (es : list (ident * scope)) (ls : list lab) (st : store) (nx : N)
    : list (ident * scope) * list lab * store * N * bool :=
    match es with
    | [] => ([], [], st, nx, false)
    | (x, sub) :: r =>
        let a := hcc sub (hd ldummy ls) st nx nc in
        let '(es', ls', st', nx', w) := go r (tl ls) (hc_st a) (hc_next a) in
        ((x, hc_scope a) :: es', hc_lab a :: ls', st', nx', hc_warned a || w)
    end.

Lemma hcc_joint_eq es l st nx nc :
  hcc (SJoint es) l st nx nc =
  let '(es', ls', st', nx', w) := hcc_joint nc es (lkids l) st nx in
  mkHch (SJoint es') (L nx' ls') (alloc st' nx') (nx' + 1) false w.
Proof. reflexivity. Qed.

Definition hcc_post (G : list (N * scope)) (s : scope) (nc : list (ident * Q)) (r : hch) : Prop :=
  exists G', gext G G' /\ reg_ok G' (hc_scope r) (hc_lab r) /\ sok G' (hc_st r) /\ gb (hc_next r) G'
             /\ hc_scope r = rebuild s nc /\ hc_warned r = changes_non_volatile s nc
             /\ (hc_same r = true -> rebuild s nc = s).

Lemma hcc_ok nc : forall s G l st nx, reg_ok G s l -> sok G st -> gb nx G -> hcc_post G s nc (hcc s l st nx nc).
Proof.
  induction s using scope_ind'; intros G lb st nx Hr Hc Hb.
  - (* DictScope *)
    pose proof (cc_scope_rebuild (SDict vals vl) cempty nc) as [R1 R2].
    pose proof (cc_warned (SDict vals vl) cempty nc) as W.
    cbn [hcc]. cbn [cc] in R1, R2, W.
    destruct (filter (fun k => is_some (lookup nc k)) (map fst vals)) as [|k0 r0] eqn:E.
    + exists G. cbn [hc_scope hc_lab hc_st hc_next hc_warned hc_same ch_scope ch_warned ch_same] in *.
      split; [apply gext_refl|]. split; [exact Hr|]. split; [exact Hc|]. split; [exact Hb|].
      split; [exact R1|]. split; [exact W|]. intros _. now apply R2.
    + cbn [hc_scope hc_lab hc_st hc_next hc_warned hc_same ch_scope ch_warned ch_same] in *.
      destruct (alloc_ok G st nx (SDict (update_vals vals nc) vl) Hb Hc) as (A1 & A2 & A3 & A4).
      exists (G ++ [(nx, SDict (update_vals vals nc) vl)]).
      split; [exact A1|]. split; [split; [exact A2|exact I]|]. split; [exact A3|]. split; [exact A4|].
      split; [exact R1|]. split; [exact W|]. discriminate.
  - (* MappedScope *)
    destruct Hr as [Hid Hro]. destruct (IHs G (lkid0 lb) st nx Hro Hc Hb) as (G1 & E1 & R1 & C1 & B1 & S1 & W1 & Sm1).
    cbn [hcc]. destruct (hc_same (hcc s (lkid0 lb) st nx nc)) eqn:Es.
    + exists G1. cbn [hc_scope hc_lab hc_st hc_next hc_warned hc_same].
      assert (rebuild (SMapped s m) nc = SMapped s m) as Hre by (cbn [rebuild]; now rewrite (Sm1 eq_refl)).
      split; [exact E1|]. split; [split; [exact (E1 _ _ Hid)|exact (reg_ok_ext G G1 E1 _ _ Hro)]|].
      split; [exact C1|]. split; [exact B1|]. split; [symmetry; exact Hre|]. split; [exact W1|]. intros _; exact Hre.
    + cbn [hc_scope hc_lab hc_st hc_next hc_warned hc_same].
      destruct (alloc_ok G1 _ (hc_next (hcc s (lkid0 lb) st nx nc))
                         (SMapped (hc_scope (hcc s (lkid0 lb) st nx nc)) m) B1 C1) as (A1 & A2 & A3 & A4).
      eexists. split; [exact (gext_trans _ _ _ E1 A1)|].
      split; [split; [exact A2|cbn [lkid0 lkids hd]; exact (reg_ok_ext _ _ A1 _ _ R1)]|].
      split; [exact A3|]. split; [exact A4|]. split; [cbn [rebuild]; now rewrite S1|]. split; [exact W1|]. discriminate.
  - (* RangeScope *)
    destruct Hr as [Hid Hri]. destruct (IHs G (lkid0 lb) st nx Hri Hc Hb) as (G1 & E1 & R1 & C1 & B1 & S1 & W1 & Sm1).
    cbn [hcc hc_scope hc_lab hc_st hc_next hc_warned hc_same].
    destruct (alloc_ok G1 _ (hc_next (hcc s (lkid0 lb) st nx nc))
                       (SRange (hc_scope (hcc s (lkid0 lb) st nx nc)) n v) B1 C1) as (A1 & A2 & A3 & A4).
    eexists. split; [exact (gext_trans _ _ _ E1 A1)|].
    split; [split; [exact A2|cbn [lkid0 lkids hd]; exact (reg_ok_ext _ _ A1 _ _ R1)]|].
    split; [exact A3|]. split; [exact A4|]. split; [cbn [rebuild]; now rewrite S1|]. split; [exact W1|]. discriminate.
  - (* JointScope *)
    apply reg_ok_joint in Hr. destruct Hr as [Hid Hall]. rewrite hcc_joint_eq.
    assert (forall ls G st nx, reg_all G l ls -> sok G st -> gb nx G ->
              let '(es', ls', st', nx', w) := hcc_joint nc l ls st nx in
              exists G', gext G G' /\ reg_all G' es' ls' /\ sok G' st' /\ gb nx' G'
                         /\ es' = map (fun p => (fst p, rebuild (snd p) nc)) l
                         /\ w = existsb (fun p => changes_non_volatile (snd p) nc) l) as Hl.
    { clear Hall Hid Hc Hb. induction H as [|[y sub] es Hs Hes IH]; intros ls G0 st0 nx0 Hall Hc0 Hb0.
      - cbn. exists G0. split; [apply gext_refl|]. split; [exact I|]. split; [exact Hc0|]. split; [exact Hb0|]. split; reflexivity.
      - destruct Hall as [Hr1 Hr2]. cbn [hcc_joint]. cbn [snd] in Hs.
        destruct (Hs G0 (hd ldummy ls) st0 nx0 Hr1 Hc0 Hb0) as (G1 & E1 & R1 & C1 & B1 & S1 & W1 & _).
        specialize (IH (tl ls) G1 (hc_st (hcc sub (hd ldummy ls) st0 nx0 nc)) (hc_next (hcc sub (hd ldummy ls) st0 nx0 nc))
                       (reg_all_ext G0 G1 E1 _ _ Hr2) C1 B1).
        destruct (hcc_joint nc es (tl ls) _ _) as [[[[es' ls'] st'] nx'] w].
        destruct IH as (G2 & E2 & R2 & C2 & B2 & S2 & W2).
        exists G2. split; [exact (gext_trans _ _ _ E1 E2)|].
        split; [split; [cbn [hd]; exact (reg_ok_ext _ _ E2 _ _ R1)|cbn [tl]; exact R2]|].
        split; [exact C2|]. split; [exact B2|].
        split; [cbn [map fst snd]; now rewrite S1, S2|cbn [existsb snd]; now rewrite W1, W2]. }
    specialize (Hl (lkids lb) G st nx Hall Hc Hb).
    destruct (hcc_joint nc l (lkids lb) st nx) as [[[[es' ls'] st'] nx'] w].
    destruct Hl as (G1 & E1 & R1 & C1 & B1 & S1 & W1).
    cbn [hc_scope hc_lab hc_st hc_next hc_warned hc_same].
    destruct (alloc_ok G1 st' nx' (SJoint es') B1 C1) as (A1 & A2 & A3 & A4).
    eexists. split; [exact (gext_trans _ _ _ E1 A1)|].
    split; [apply reg_ok_joint; split; [exact A2|cbn [lkids]; exact (reg_all_ext _ _ A1 _ _ R1)]|].
    split; [exact A3|]. split; [exact A4|]. split; [cbn [rebuild]; now rewrite S1|]. split; [exact W1|]. discriminate.
Qed.

(* ---------------------------------------------------------------- full histories *)
Definition hinv (G : list (N * scope)) (h : hstate) : Prop :=
  let '(s, l, st, nx) := h in reg_ok G s l /\ sok G st /\ gb nx G.

Lemma hstep_full_ok G h o : hinv G h ->
  fst (hstep_full h o) = fst (pstep (fst (fst (fst h))) o) /\
  fst (fst (fst (snd (hstep_full h o)))) = snd (pstep (fst (fst (fst h))) o) /\
  exists G', hinv G' (snd (hstep_full h o)).
Proof.
  destruct h as [[[s l] st] nx]. intros (Hr & Hc & Hb). cbn [fst].
  destruct (is_query o) eqn:Hq.
  - destruct (hstep_ok G s l st o Hr Hc Hq) as (E1 & E2 & E3).
    assert (hstep_full (s, l, st, nx) o = (fst (hstep s l st o), (s, l, snd (hstep s l st o), nx))) as E.
    { destruct o; try discriminate; cbn [hstep_full]; destruct (hstep s l st _); reflexivity. }
    rewrite E. cbn [fst snd]. split; [exact E1|]. split; [symmetry; exact E2|]. exists G.
    unfold hinv. split; [exact Hr|]. split; [exact E3|exact Hb].
  - destruct o; try discriminate; cbn [hstep_full pstep fst snd].
    + destruct (hcc_ok nc s G l st nx Hr Hc Hb) as (G' & E1 & R1 & C1 & B1 & S1 & W1 & _).
      rewrite (proj1 (cc_scope_rebuild s cempty nc)), cc_warned, S1, W1.
      split; [reflexivity|]. split; [reflexivity|]. exists G'. cbn. rewrite <- S1. auto.
    + split; [reflexivity|]. split; [reflexivity|].
      destruct (alloc_ok G st nx (SMapped s (const_mapping kv)) Hb Hc) as (A1 & A2 & A3 & A4).
      eexists. cbn. split; [split; [exact A2|exact (reg_ok_ext _ _ A1 _ _ Hr)]|]. split; [exact A3|exact A4].
Qed.

Lemma hrun_full_ok : forall ops G h, hinv G h -> hrun_full h ops = prun (fst (fst (fst h))) ops.
Proof.
  induction ops as [|o ops IH]; intros G h Hi; [reflexivity|].
  cbn [hrun_full prun]. destruct (hstep_full_ok G h o Hi) as (E1 & E2 & G' & Hi').
  destruct (hstep_full h o) as [b h']. destruct (pstep (fst (fst (fst h))) o) as [b' s']. cbn [fst snd] in *. subst.
  now rewrite (IH G' h' Hi').
Qed.

Lemma gb_forallb nx G : forallb (fun p : N * scope => N.ltb (fst p) nx) G = true -> gb nx G.
Proof.
  induction G as [|[j t] G IH]; intros H i s Hi; cbn in *; [discriminate|].
  apply andb_prop in H as [H1 H2]. destruct (N.eqb j i) eqn:E.
  - apply N.eqb_eq in E. subst. now apply N.ltb_lt.
  - exact (IH H2 i s Hi).
Qed.
